(* C05 — proofs about the result-channel model (Model/ResultChan.v) and its checkers (Spec/ResultChanSpec.v) *)
From SV Require Import Model.ResultChan Spec.ResultChanSpec.
From Coq Require Import List ZArith Bool Arith Lia Sorted.
Import ListNotations.
Local Open Scope nat_scope.

(* ---- subsequences ---- *)
Section Subseq.
Context {A : Type}.

Lemma subseq_refl : forall l : list A, subseq l l.
Proof. induction l as [|x l IH]; constructor; exact IH. Qed.

Lemma subseq_nil_inv : forall l : list A, subseq l [] -> l = [].
Proof. intros l H. inversion H; reflexivity. Qed.

Lemma subseq_trans : forall l m n : list A, subseq l m -> subseq m n -> subseq l n.
Proof.
  intros l m n Hlm Hmn. revert l Hlm.
  induction Hmn as [n|x m n Hmn IH|x m n Hmn IH]; intros l Hlm.
  - apply subseq_nil_inv in Hlm. subst. constructor.
  - inversion Hlm as [m0|y l' m0 Hl'|y l0 m0 Hl0]; subst.
    + constructor.
    + apply ss_keep. apply IH. exact Hl'.
    + apply ss_skip. apply IH. exact Hl0.
  - apply ss_skip. apply IH. exact Hlm.
Qed.

Lemma subseq_prepend : forall (pre l m : list A), subseq l m -> subseq l (pre ++ m).
Proof. induction pre as [|x pre IH]; intros l m H; simpl; [exact H|]. apply ss_skip. apply IH. exact H. Qed.

Lemma subseq_app : forall l m l' m' : list A, subseq l m -> subseq l' m' -> subseq (l ++ l') (m ++ m').
Proof.
  intros l m l' m' H H'. induction H as [m|x l m H IH|x l m H IH]; simpl.
  - apply subseq_prepend. exact H'.
  - apply ss_keep. exact IH.
  - apply ss_skip. exact IH.
Qed.

Lemma subseq_app_r : forall l m t : list A, subseq l m -> subseq l (m ++ t).
Proof.
  intros l m t H. rewrite <- (app_nil_r l). apply subseq_app; [exact H|constructor].
Qed.

Lemma subseq_drop_mid : forall (a : list A) x r, subseq (a ++ r) (a ++ x :: r).
Proof. induction a as [|y a IH]; intros x r; simpl; [apply ss_skip, subseq_refl|apply ss_keep, IH]. Qed.

Lemma subseq_tail : forall x (l m : list A), subseq (x :: l) m -> subseq l m.
Proof. intros x l m H. eapply subseq_trans; [|exact H]. apply ss_skip. apply subseq_refl. Qed.

Lemma subseq_concat : forall l m : list (list A), subseq l m -> subseq (concat l) (concat m).
Proof.
  intros l m H. induction H as [m|x l m H IH|x l m H IH]; simpl.
  - constructor.
  - apply subseq_app; [apply subseq_refl|exact IH].
  - apply subseq_prepend. exact IH.
Qed.

Lemma subseq_Forall : forall (P : A -> Prop) l m, subseq l m -> Forall P m -> Forall P l.
Proof.
  intros P l m H. induction H as [m|x l m H IH|x l m H IH]; intros F.
  - constructor.
  - inversion F; subst. constructor; auto.
  - inversion F; subst. auto.
Qed.

Lemma subseq_sorted : forall (R : A -> A -> Prop) l m,
  subseq l m -> StronglySorted R m -> StronglySorted R l.
Proof.
  intros R l m H. induction H as [m|x l m H IH|x l m H IH]; intros S.
  - constructor.
  - inversion S as [|y m' Sm Fm]; subst. constructor; [auto|]. eapply subseq_Forall; eauto.
  - inversion S; subst. auto.
Qed.

Lemma subseq_length : forall l m : list A, subseq l m -> length l <= length m.
Proof. intros l m H. induction H; simpl; lia. Qed.

Lemma subseq_In : forall (l m : list A) x, subseq l m -> In x l -> In x m.
Proof.
  intros l m x H. induction H as [m|y l m H IH|y l m H IH]; simpl; intros I.
  - contradiction.
  - destruct I; auto.
  - auto.
Qed.

Lemma subseq_NoDup : forall l m : list A, subseq l m -> NoDup m -> NoDup l.
Proof.
  intros l m H. induction H as [m|y l m H IH|y l m H IH]; intros N.
  - constructor.
  - inversion N; subst. constructor; auto. intros I. eapply subseq_In in I; eauto.
  - inversion N; subst. auto.
Qed.
End Subseq.

(* ---- the channel keeps the emission order, for every schedule of offers, losses and receives ---- *)
Lemma rc_step_order : forall cap s o,
  subseq (rc_seen s) (rc_sent s) ->
  subseq (rc_seen (rc_step false cap s o)) (rc_sent (rc_step false cap s o)).
Proof.
  intros cap [ch rd st] o H. unfold rc_seen in *. simpl in *.
  destruct o as [b|b|]; simpl.
  - unfold rc_offer. destruct (Nat.ltb (length ch) cap).
    + rewrite app_assoc. apply subseq_app; [exact H|apply subseq_refl].
    + destruct ch as [|old rest].
      * apply subseq_app_r. exact H.
      * rewrite app_assoc. apply subseq_app; [|apply subseq_refl].
        eapply subseq_trans; [apply (subseq_drop_mid rd old rest)|exact H].
  - apply subseq_app_r. exact H.
  - destruct ch as [|b rest]; simpl; [exact H|].
    rewrite <- app_assoc. simpl. exact H.
Qed.

Lemma rc_fold_order : forall cap ops s,
  subseq (rc_seen s) (rc_sent s) ->
  subseq (rc_seen (fold_left (rc_step false cap) ops s)) (rc_sent (fold_left (rc_step false cap) ops s)).
Proof.
  intros cap ops. induction ops as [|o ops IH]; intros s H; simpl; [exact H|].
  apply IH. apply rc_step_order. exact H.
Qed.

Theorem rc_order_batches : forall cap ops,
  subseq (rc_seen (rc_run false cap ops)) (rc_sent (rc_run false cap ops)).
Proof. intros cap ops. apply rc_fold_order. constructor. Qed.

Theorem rc_order : forall cap ops,
  subseq (concat (rc_seen (rc_run false cap ops))) (concat (rc_sent (rc_run false cap ops))).
Proof. intros cap ops. apply subseq_concat. apply rc_order_batches. Qed.

(* the batches offered by a schedule, in the order of the schedule *)
Definition rc_offered (ops : list rc_op) : list rbatch :=
  flat_map (fun o => match o with RSend b | RLose b => [b] | RRecv => [] end) ops.

Lemma rc_fold_sent : forall merge cap ops s,
  rc_sent (fold_left (rc_step merge cap) ops s) = rc_sent s ++ rc_offered ops.
Proof.
  intros merge cap ops. induction ops as [|o ops IH]; intros s; simpl.
  - rewrite app_nil_r. reflexivity.
  - rewrite IH. destruct o as [b|b|]; simpl.
    + rewrite <- app_assoc. reflexivity.
    + rewrite <- app_assoc. reflexivity.
    + destruct (rc_chan s); reflexivity.
Qed.

Theorem rc_sent_is_offered : forall merge cap ops, rc_sent (rc_run merge cap ops) = rc_offered ops.
Proof. intros. unfold rc_run. rewrite rc_fold_sent. reflexivity. Qed.

(* ids that increase along the emission order increase along what the reader gets: nothing overtakes,
   nothing comes twice *)
Theorem rc_increasing : forall cap ops,
  StronglySorted Z.lt (concat (rc_offered ops)) ->
  StronglySorted Z.lt (concat (rc_seen (rc_run false cap ops))).
Proof.
  intros cap ops S. eapply subseq_sorted; [apply rc_order|].
  rewrite rc_sent_is_offered. exact S.
Qed.

Theorem rc_no_duplicate : forall cap ops,
  NoDup (concat (rc_offered ops)) -> NoDup (concat (rc_seen (rc_run false cap ops))).
Proof.
  intros cap ops N. eapply subseq_NoDup; [apply rc_order|].
  rewrite rc_sent_is_offered. exact N.
Qed.

(* ---- the checker decides exactly "is a subsequence" ---- *)
Lemma rc_after_some : forall x m m', rc_after x m = Some m' -> exists pre, m = pre ++ x :: m'.
Proof.
  intros x m. induction m as [|y m IH]; intros m' H; simpl in H; [discriminate|].
  destruct (Z.eqb x y) eqn:E.
  - apply Z.eqb_eq in E. subst. inversion H; subst. exists []. reflexivity.
  - destruct (IH m' H) as [pre ->]. exists (y :: pre). reflexivity.
Qed.

Lemma rc_after_subseq : forall x l m,
  subseq (x :: l) m -> exists m', rc_after x m = Some m' /\ subseq l m'.
Proof.
  intros x l m. induction m as [|y m IH]; intros H.
  - inversion H.
  - simpl. destruct (Z.eqb x y) eqn:E.
    + exists m. split; [reflexivity|].
      inversion H as [|? ? ? Hk|? ? ? Hs]; subst; [exact Hk|]. eapply subseq_tail. exact Hs.
    + inversion H as [|? ? ? Hk|? ? ? Hs]; subst.
      * rewrite Z.eqb_refl in E. discriminate.
      * apply IH. exact Hs.
Qed.

Lemma rc_check_from_iff : forall all l rest prev,
  rc_check_from all rest prev l = RCOk <-> subseq l rest.
Proof.
  intros all l. induction l as [|x l IH]; intros rest prev; simpl.
  - split; [constructor|reflexivity].
  - split.
    + destruct (rc_after x rest) as [rest'|] eqn:E.
      * intros H. apply IH in H. destruct (rc_after_some _ _ _ E) as [pre ->].
        apply subseq_prepend. apply ss_keep. exact H.
      * destruct (existsb (Z.eqb x) all); [|discriminate].
        destruct prev as [p|]; [destruct (Z.eqb x p)|]; discriminate.
    + intros H. destruct (rc_after_subseq _ _ _ H) as [m' [E S]]. rewrite E. apply IH. exact S.
Qed.

Theorem rc_check_iff : forall sent seen, rc_check sent seen = RCOk <-> subseq seen sent.
Proof. intros. apply rc_check_from_iff. Qed.

Theorem rc_model_passes_check : forall cap ops,
  rc_check (concat (rc_offered ops)) (concat (rc_seen (rc_run false cap ops))) = RCOk.
Proof.
  intros cap ops. apply rc_check_iff. rewrite <- (rc_sent_is_offered false cap ops). apply rc_order.
Qed.

(* ---- nobody reads: the channel holds the newest min(cap, n) batches ---- *)
Lemma skipn_S_tl : forall {A} k (l : list A), skipn (S k) l = tl (skipn k l).
Proof.
  intros A k. induction k as [|k IH]; intros l.
  - destruct l; reflexivity.
  - destruct l as [|x l]; [reflexivity|]. change (skipn (S (S k)) (x :: l)) with (skipn (S k) l).
    change (skipn (S k) (x :: l)) with (skipn k l). apply IH.
Qed.

Lemma lastn_offer : forall cap (l : list rbatch) b,
  lastn cap (l ++ [b]) = rc_offer false cap (lastn cap l) b.
Proof.
  intros cap l b. unfold lastn, rc_offer. rewrite app_length. simpl.
  destruct (Nat.ltb (length l) cap) eqn:E.
  - apply Nat.ltb_lt in E.
    replace (length l - cap) with 0 by lia. replace (length l + 1 - cap) with 0 by lia. simpl.
    apply Nat.ltb_lt in E. rewrite E. reflexivity.
  - apply Nat.ltb_ge in E.
    assert (L : length (skipn (length l - cap) l) = cap) by (rewrite skipn_length; lia).
    rewrite L. rewrite Nat.ltb_irrefl.
    destruct (skipn (length l - cap) l) as [|old rest] eqn:K.
    + simpl in L. subst cap. apply skipn_all2. rewrite app_length. simpl. lia.
    + simpl in L. replace (length l + 1 - cap) with (S (length l - cap)) by lia.
      rewrite skipn_app. rewrite skipn_S_tl. rewrite K.
      replace (S (length l - cap) - length l) with 0 by lia. reflexivity.
Qed.

Lemma rc_fold_sends : forall cap bs s l,
  rc_chan s = lastn cap l ->
  let s' := fold_left (rc_step false cap) (map RSend bs) s in
  rc_chan s' = lastn cap (l ++ bs) /\ rc_read s' = rc_read s.
Proof.
  intros cap bs. induction bs as [|b bs IH]; intros s l H; simpl.
  - rewrite app_nil_r. auto.
  - assert (E : rc_chan (rc_step false cap s (RSend b)) = lastn cap (l ++ [b])).
    { simpl. rewrite H. symmetry. apply lastn_offer. }
    destruct (IH (rc_step false cap s (RSend b)) (l ++ [b]) E) as [C R].
    rewrite <- app_assoc in C. simpl in C. split; [exact C|exact R].
Qed.

Theorem rc_quiet : forall cap bs,
  rc_seen (rc_run false cap (map RSend bs)) = lastn cap bs.
Proof.
  intros cap bs. unfold rc_seen, rc_run.
  destruct (rc_fold_sends cap bs rc_init [] eq_refl) as [C R]. simpl in C, R.
  rewrite C, R. reflexivity.
Qed.

Lemma concat_singletons : forall l : list Z, concat (map (fun x => [x]) l) = l.
Proof. induction l as [|x l IH]; simpl; [reflexivity|]. rewrite IH. reflexivity. Qed.

Lemma zlist_eqb_refl : forall l, zlist_eqb l l = true.
Proof. induction l as [|x l IH]; simpl; [reflexivity|]. rewrite Z.eqb_refl. exact IH. Qed.

Lemma zlist_eqb_eq : forall a b, zlist_eqb a b = true -> a = b.
Proof.
  induction a as [|x a IH]; destruct b as [|y b]; simpl; intros H; try discriminate; [reflexivity|].
  apply andb_prop in H. destruct H as [H1 H2]. apply Z.eqb_eq in H1. subst. f_equal. auto.
Qed.

(* one row per batch (a direct query), nobody reading: what the reader then drains is the last
   min(cap, n) ids, and the suffix checker accepts it *)
Theorem rc_quiet_ids : forall cap ids,
  concat (rc_seen (rc_run false cap (map RSend (map (fun x => [x]) ids)))) = lastn cap ids.
Proof.
  intros cap ids. rewrite rc_quiet. unfold lastn. rewrite map_length.
  rewrite skipn_map. apply concat_singletons.
Qed.

Theorem rc_model_passes_suffix : forall cap ids,
  rc_suffix cap ids (concat (rc_seen (rc_run false cap (map RSend (map (fun x => [x]) ids))))) = true.
Proof.
  intros cap ids. rewrite rc_quiet_ids. unfold rc_suffix, lastn. rewrite skipn_length.
  replace (length ids - (length ids - (length ids - cap))) with (length ids - cap) by lia.
  rewrite zlist_eqb_refl. simpl. apply Nat.eqb_eq. lia.
Qed.

(* the suffix checker means what it says *)
Theorem rc_suffix_iff : forall cap sent seen,
  rc_suffix cap sent seen = true <-> seen = lastn cap sent.
Proof.
  intros cap sent seen. unfold rc_suffix, lastn. split.
  - intros H. apply andb_prop in H. destruct H as [H1 H2]. apply zlist_eqb_eq in H1.
    apply Nat.eqb_eq in H2. rewrite H1 at 1. f_equal. lia.
  - intros ->. rewrite skipn_length.
    replace (length sent - (length sent - (length sent - cap))) with (length sent - cap) by lia.
    rewrite zlist_eqb_refl. simpl. apply Nat.eqb_eq. lia.
Qed.

(* the newest result is never the one that makes room *)
Theorem rc_newest_kept : forall cap s b, 0 < cap ->
  exists front, rc_chan (rc_step false cap s (RSend b)) = front ++ [b].
Proof.
  intros cap s b Hc. simpl. unfold rc_offer. destruct (Nat.ltb (length (rc_chan s)) cap) eqn:E.
  - eexists. reflexivity.
  - apply Nat.ltb_ge in E. destruct (rc_chan s) as [|old rest]; [simpl in E; lia|]. eexists. reflexivity.
Qed.
