(* C14 — each analytic state machine computes the declarative function of the earlier counted rows
   (for every history).  Model/Analytic.v vs Spec/AnalyticSpec.v. *)
From Coq Require Import Lia.
From SV Require Import Model.Analytic Spec.AnalyticSpec.

(* ---------------------------------------------------------------- generic: a step machine and its prefix spec *)
Section Prefix.
  Variables (A B S : Type).
  Variable step : S -> A -> S * B.
  Variable spec : list A -> A -> B.

  Fixpoint sm_run (s : S) (l : list A) : list B :=
    match l with [] => [] | x :: t => let '(s', b) := step s x in b :: sm_run s' t end.

  Fixpoint map_prefix_aux (earlier : list A) (l : list A) : list B :=
    match l with [] => [] | x :: t => spec earlier x :: map_prefix_aux (earlier ++ [x]) t end.

  Variable Inv : list A -> S -> Prop.
  Hypothesis Hstep : forall l s x, Inv l s -> Inv (l ++ [x]) (fst (step s x)) /\ snd (step s x) = spec l x.

  Lemma sm_run_prefix : forall l l0 s, Inv l0 s -> sm_run s l = map_prefix_aux l0 l.
  Proof.
    induction l as [|x t IH]; intros l0 s HI; simpl; [reflexivity|].
    destruct (Hstep l0 s x HI) as [HI' Hout].
    destruct (step s x) as [s' b] eqn:E. simpl in *. subst b. f_equal. apply IH. exact HI'.
  Qed.
End Prefix.

Arguments sm_run {A B S}.
Arguments map_prefix_aux {A B}.
Definition map_prefix {A B : Type} (spec : list A -> A -> B) (l : list A) : list B := map_prefix_aux spec [] l.

(* ---------------------------------------------------------------- list helpers *)
Lemma skipn_skipn_l (A : Type) a b (l : list A) : skipn a (skipn b l) = skipn (b + a) l.
Proof. revert l. induction b; intros l; simpl; [reflexivity|]. destruct l; [destruct a; reflexivity|apply IHb]. Qed.

Lemma nth_skipn_l (A : Type) m i (l : list A) d : nth i (skipn m l) d = nth (m + i) l d.
Proof. revert l. induction m; intros l; simpl; [reflexivity|]. destruct l; [destruct i; reflexivity|apply IHm]. Qed.

Lemma retained_snoc ign l v :
  an_retained ign (l ++ [v]) = if ign && an_is_null v then an_retained ign l else an_retained ign l ++ [v].
Proof.
  unfold an_retained. rewrite filter_app. simpl.
  destruct (ign && an_is_null v); simpl; [apply app_nil_r|reflexivity].
Qed.

Lemma lastn_snoc (A : Type) k (R : list A) v : 1 <= k ->
  an_lastn k (an_lastn k R ++ [v]) = an_lastn k (R ++ [v]).
Proof.
  intros Hk. unfold an_lastn.
  destruct (Nat.le_gt_cases (length R) k) as [Hle|Hgt].
  - replace (length R - k) with 0 by lia. reflexivity.
  - rewrite !app_length, skipn_length. simpl.
    rewrite !skipn_app, skipn_length, skipn_skipn_l.
    replace (length R - (length R - k) + 1 - k) with 1 by lia.
    replace (length R - k + 1) with (length R + 1 - k) by lia.
    replace (1 - (length R - (length R - k))) with 0 by lia.
    replace (length R + 1 - k - length R) with 0 by lia. reflexivity.
Qed.

Lemma rev_nth_error_l (A : Type) (R : list A) k d : 1 <= k ->
  nth_error (rev R) (k - 1) = if k <=? length R then Some (nth (length R - k) R d) else None.
Proof.
  intros Hk. destruct (k <=? length R) eqn:E.
  - apply Nat.leb_le in E. rewrite (nth_error_nth' (rev R) d) by (rewrite rev_length; lia).
    rewrite rev_nth by lia. f_equal. f_equal. lia.
  - apply Nat.leb_gt in E. apply nth_error_None. rewrite rev_length. lia.
Qed.

(* ---------------------------------------------------------------- lag *)
(* the argument lists of a lag call whose offset / default / ignoreNull arguments are the same on every row *)
Definition lag_inv (rest : list aval) (L : list (list aval)) (hist : list aval) : Prop :=
  let k := an_lag_off (AVNull :: rest) in
  let ign := match nth_error rest 2 with Some b => an_to_bool b | None => true end in
  hist = an_lastn k (an_retained ign (map (an_arg 0) L)).

Lemma lag_off_pos args : 1 <= an_lag_off args.
Proof.
  unfold an_lag_off. destruct (nth_error args 1) as [a|]; [|lia].
  destruct (an_to_int a) as [n|]; [|lia]. destruct (0 <? n)%Z eqn:E; [|lia].
  apply Z.ltb_lt in E. lia.
Qed.

Lemma lag_step rest L hist v :
  lag_inv rest L hist ->
  lag_inv rest (L ++ [v :: rest]) (fst (an_lag_apply hist (v :: rest))) /\
  ARV (snd (an_lag_apply hist (v :: rest))) = an_call_spec AFLag L (v :: rest).
Proof.
  unfold lag_inv. intros HI.
  assert (Hoff : forall x, an_lag_off (x :: rest) = an_lag_off (AVNull :: rest)) by reflexivity.
  set (k := an_lag_off (AVNull :: rest)) in *.
  assert (Hk : 1 <= k) by apply lag_off_pos.
  set (ign := match nth_error rest 2 with Some b => an_to_bool b | None => true end) in *.
  unfold an_lag_apply. rewrite Hoff. fold k.
  change (nth_error (v :: rest) 3) with (nth_error rest 2). fold ign.
  change (nth_error (v :: rest) 2) with (nth_error rest 1).
  cbn [fst snd]. split.
  - rewrite map_app. simpl map. rewrite retained_snoc. change (an_arg 0 (v :: rest)) with v.
    destruct (ign && an_is_null v); [exact HI|].
    rewrite HI. apply lastn_snoc. exact Hk.
  - unfold an_call_spec. rewrite Hoff. fold k.
    change (nth_error (v :: rest) 3) with (nth_error rest 2). fold ign.
    unfold an_lag_spec. set (R := an_retained ign (map (an_arg 0) L)) in *.
    rewrite (rev_nth_error_l _ R k AVNull Hk).
    assert (Hlen : length hist = Nat.min k (length R)).
    { rewrite HI. unfold an_lastn. rewrite skipn_length. lia. }
    destruct (k <=? length R) eqn:E.
    + apply Nat.leb_le in E.
      assert (E' : (k <=? length hist) = true) by (apply Nat.leb_le; lia). rewrite E'.
      f_equal. rewrite HI at 2. unfold an_lastn. rewrite nth_skipn_l. f_equal. lia.
    + apply Nat.leb_gt in E.
      assert (E' : (k <=? length hist) = false) by (apply Nat.leb_gt; lia). rewrite E'.
      f_equal. unfold an_arg. destruct rest as [|a [|b rest']]; reflexivity.
Qed.

(* ---------------------------------------------------------------- latest *)
Definition latest_inv (L : list (list aval)) (cur : option aval) : Prop :=
  cur = match rev (an_retained true (map (an_arg 0) L)) with x :: _ => Some x | [] => None end.

Lemma latest_step L cur args :
  latest_inv L cur ->
  latest_inv (L ++ [args]) (fst (an_latest_apply cur args)) /\
  ARV (snd (an_latest_apply cur args)) = an_call_spec AFLatest L args.
Proof.
  unfold latest_inv. intros HI. unfold an_latest_apply, an_call_spec, an_latest_spec. cbn [fst snd].
  rewrite map_app. change (map (an_arg 0) [args]) with [an_arg 0 args]. rewrite retained_snoc. cbn [andb].
  assert (Hhd : (match args with v :: _ => if an_is_null v then cur else Some v | [] => cur end) =
                if an_is_null (an_arg 0 args) then cur else Some (an_arg 0 args)).
  { unfold an_arg. destruct args as [|v t]; simpl; [reflexivity|]. reflexivity. }
  rewrite Hhd. destruct (an_is_null (an_arg 0 args)) eqn:En.
  - split; [exact HI|]. rewrite HI.
    destruct (rev (an_retained true (map (an_arg 0) L))); [|reflexivity].
    f_equal. unfold an_arg. destruct args as [|a [|b t]]; reflexivity.
  - rewrite rev_app_distr. simpl. split; reflexivity.
Qed.

(* ---------------------------------------------------------------- changed_col *)
Definition ccol_inv (ign : bool) (vs : list aval) (st : option aval) : Prop :=
  st = match rev (an_retained ign vs) with p :: _ => Some p | [] => None end.

Lemma ccol_step_ok ign vs st v :
  ccol_inv ign vs st ->
  ccol_inv ign (vs ++ [v]) (fst (an_ccol_step ign st v)) /\
  snd (an_ccol_step ign st v) = an_changed_spec ign vs v.
Proof.
  unfold ccol_inv, an_ccol_step, an_changed_spec. intros HI. rewrite retained_snoc.
  destruct (ign && an_is_null v); cbn [fst snd]; [split; [exact HI|reflexivity]|].
  rewrite rev_app_distr. simpl. split; [reflexivity|]. rewrite HI.
  destruct (rev (an_retained ign vs)); reflexivity.
Qed.

(* ---------------------------------------------------------------- acc_* *)
Lemma takewhile_rev_snoc (l : list an_triple) x :
  an_after_reset (l ++ [x]) = if snd x then [] else an_after_reset l ++ [x].
Proof.
  unfold an_after_reset. rewrite rev_app_distr. simpl. destruct (snd x); simpl; reflexivity.
Qed.

Lemma dropwhile_snoc (A : Type) (f : A -> bool) l x :
  an_dropwhile f (l ++ [x]) =
  match an_dropwhile f l with [] => if f x then [] else [x] | y :: t => (y :: t) ++ [x] end.
Proof.
  induction l as [|a l IH]; simpl; [destruct (f x); reflexivity|].
  destruct (f a); [exact IH|reflexivity].
Qed.

Lemma nums_app a b : an_nums (a ++ b) = an_nums a ++ an_nums b.
Proof. induction a as [|v a IH]; simpl; [reflexivity|]. destruct (an_num v); simpl; rewrite IH; reflexivity. Qed.

Lemma zsum_app a b : an_zsum (a ++ b) = (an_zsum a + an_zsum b)%Z.
Proof. unfold an_zsum. induction a; simpl; [reflexivity|]. rewrite IHa. lia. Qed.

Lemma zmax_snoc l z : an_zmax (l ++ [z]) = Some (match an_zmax l with Some m => Z.max m z | None => z end).
Proof. unfold an_zmax. destruct l as [|x t]; simpl; [reflexivity|]. rewrite fold_left_app. reflexivity. Qed.

Lemma zmin_snoc l z : an_zmin (l ++ [z]) = Some (match an_zmin l with Some m => Z.min m z | None => z end).
Proof. unfold an_zmin. destruct l as [|x t]; simpl; [reflexivity|]. rewrite fold_left_app. reflexivity. Qed.

(* the accumulator summarises the values of the current phase *)
Definition acc_sum_of (k : akind) (vals : list aval) : Z :=
  match k with AKSum | AKAvg => an_zsum (an_nums vals) | _ => 0%Z end.
Definition acc_cnt_of (k : akind) (vals : list aval) : Z :=
  match k with
  | AKCount => an_zlen (filter (fun v => negb (an_is_null v)) vals)
  | _ => an_zlen (an_nums vals)
  end.
Definition acc_num_ok (k : akind) (vals : list aval) (num : Z) : Prop :=
  match k with
  | AKMax => match an_zmax (an_nums vals) with Some m => num = m | None => True end
  | AKMin => match an_zmin (an_nums vals) with Some m => num = m | None => True end
  | _ => True
  end.

Definition acc_summ (k : akind) (vals : list aval) (s : aacc) : Prop :=
  ac_sum s = acc_sum_of k vals /\ ac_cnt s = acc_cnt_of k vals /\
  ac_has s = negb (match an_nums vals with [] => true | _ => false end) /\
  acc_num_ok k vals (ac_num s).

Lemma zlen_snoc (A : Type) (l : list A) x : an_zlen (l ++ [x]) = (an_zlen l + 1)%Z.
Proof. unfold an_zlen. rewrite app_length. simpl. lia. Qed.

Lemma acc_add_summ k vals s v :
  acc_summ k vals s -> ac_started (an_acc_add k s v) = ac_started s /\ acc_summ k (vals ++ [v]) (an_acc_add k s v).
Proof.
  unfold acc_summ. intros (Hs & Hc & Hh & Hn).
  unfold an_acc_add. destruct (an_num v) as [z|] eqn:Ev.
  - split; [reflexivity|]. cbn [ac_sum ac_cnt ac_has ac_num].
    assert (Hnums : an_nums (vals ++ [v]) = an_nums vals ++ [z]) by (rewrite nums_app; simpl; rewrite Ev; reflexivity).
    assert (Hnn : an_is_null v = false) by (destruct v; simpl in *; congruence).
    repeat split.
    + unfold acc_sum_of. rewrite Hnums, zsum_app. unfold an_zsum at 2. simpl.
      destruct k; rewrite Hs; unfold acc_sum_of; try lia.
    + unfold acc_cnt_of. rewrite Hnums, filter_app. simpl. rewrite Hnn. simpl. rewrite !zlen_snoc.
      rewrite Hc. unfold acc_cnt_of. destruct k; reflexivity.
    + rewrite Hnums. destruct (an_nums vals); reflexivity.
    + unfold acc_num_ok in *. rewrite Hnums. rewrite Hh.
      destruct k; try exact I.
      * rewrite zmin_snoc. destruct (an_nums vals) as [|a t] eqn:En; simpl negb; cbn [orb].
        -- reflexivity.
        -- change (match an_zmin (a :: t) with Some m => Z.min m z | None => z end)
             with (Z.min (fold_left Z.min t a) z).
           simpl in Hn. rewrite Hn. destruct (z <? fold_left Z.min t a)%Z eqn:E;
             [apply Z.ltb_lt in E|apply Z.ltb_ge in E]; lia.
      * rewrite zmax_snoc. destruct (an_nums vals) as [|a t] eqn:En; simpl negb; cbn [orb].
        -- reflexivity.
        -- change (match an_zmax (a :: t) with Some m => Z.max m z | None => z end)
             with (Z.max (fold_left Z.max t a) z).
           simpl in Hn. rewrite Hn. destruct (fold_left Z.max t a <? z)%Z eqn:E;
             [apply Z.ltb_lt in E|apply Z.ltb_ge in E]; lia.
  - assert (Hnums : an_nums (vals ++ [v]) = an_nums vals) by (rewrite nums_app; simpl; rewrite Ev; apply app_nil_r).
    assert (Hkeep : ac_started s = ac_started s /\
                    (ac_sum s = acc_sum_of k (vals ++ [v]) /\
                     (k <> AKCount \/ an_is_null v = true -> ac_cnt s = acc_cnt_of k (vals ++ [v])) /\
                     ac_has s = negb (match an_nums (vals ++ [v]) with [] => true | _ => false end) /\
                     acc_num_ok k (vals ++ [v]) (ac_num s))).
    { split; [reflexivity|]. repeat split.
      - rewrite Hs. unfold acc_sum_of. rewrite Hnums. reflexivity.
      - intros Hc'. rewrite Hc. unfold acc_cnt_of. rewrite Hnums, filter_app. simpl.
        destruct k; try reflexivity. destruct Hc' as [Hc'|Hc']; [congruence|]. rewrite Hc'. simpl.
        rewrite app_nil_r. reflexivity.
      - rewrite Hnums. exact Hh.
      - unfold acc_num_ok. rewrite Hnums. exact Hn. }
    destruct Hkeep as (_ & Hs' & Hc' & Hh' & Hn').
    destruct k; try (split; [reflexivity|]; repeat split; try assumption; apply Hc'; left; discriminate).
    destruct (an_is_null v) eqn:En.
    + split; [reflexivity|]. repeat split; try assumption. apply Hc'. right. reflexivity.
    + split; [reflexivity|]. cbn [ac_sum ac_cnt ac_has ac_num]. repeat split; try assumption.
      rewrite Hc. unfold acc_cnt_of. rewrite filter_app. simpl. rewrite En. simpl. rewrite zlen_snoc. reflexivity.
Qed.

Lemma acc_result_summ k vals s : acc_summ k vals s -> an_acc_result k s = an_agg k vals.
Proof.
  unfold acc_summ. intros (Hs & Hc & Hh & Hn). unfold an_acc_result, an_agg.
  destruct k.
  - rewrite Hs. reflexivity.
  - rewrite Hc. reflexivity.
  - rewrite Hc, Hs. unfold acc_cnt_of, acc_sum_of, an_zlen.
    destruct (an_nums vals) as [|a t]; simpl length; [reflexivity|].
    destruct (Z.of_nat (S (length t)) =? 0)%Z eqn:E; [apply Z.eqb_eq in E; lia|reflexivity].
  - rewrite Hh. unfold acc_num_ok in Hn. destruct (an_nums vals) as [|a t]; simpl; [reflexivity|].
    simpl in Hn. rewrite Hn. reflexivity.
  - rewrite Hh. unfold acc_num_ok in Hn. destruct (an_nums vals) as [|a t]; simpl; [reflexivity|].
    simpl in Hn. rewrite Hn. reflexivity.
Qed.

Lemma acc0_summ k : acc_summ k [] an_acc0.
Proof. unfold acc_summ, an_acc0; simpl. destruct k; repeat split; reflexivity. Qed.

(* accState.Apply seen as a step on (value, start, reset) triples *)
Definition acc_step3 (k : akind) (hs : bool) (s : aacc) (x : an_triple) : aacc * ares :=
  if snd x then (an_acc0, an_acc_result k an_acc0)
  else if hs && negb (snd (fst x)) && negb (ac_started s) then (s, an_acc_result k s)
  else let s2 := an_acc_add k (if hs then an_set_started s else s) (fst (fst x)) in (s2, an_acc_result k s2).

Lemma acc_add_null k s : an_acc_add k s AVNull = s.
Proof. unfold an_acc_add. simpl. destruct k; reflexivity. Qed.

Lemma acc_apply_step3 k s args :
  an_acc_apply k s args = acc_step3 k (2 <=? length args) s (an_triple_of args).
Proof.
  unfold an_acc_apply, acc_step3, an_triple_of. cbn [fst snd].
  destruct args as [|v [|b [|r t]]]; cbn [nth_error an_arg nth length Nat.leb].
  - change (an_to_bool AVNull) with false. cbn [andb]. rewrite acc_add_null. reflexivity.
  - change (an_to_bool AVNull) with false. cbn [andb]. reflexivity.
  - change (an_to_bool AVNull) with false. cbn [andb].
    destruct (negb (an_to_bool b) && negb (ac_started s)); reflexivity.
  - destruct (an_to_bool r); [reflexivity|]. cbn [andb].
    destruct (negb (an_to_bool b) && negb (ac_started s)); reflexivity.
Qed.

Definition acc_inv3 (k : akind) (hs : bool) (T : list an_triple) (s : aacc) : Prop :=
  acc_summ k (an_phase hs T) s /\ ac_started s = hs && negb (match an_from_start (an_after_reset T) with [] => true | _ => false end).

Lemma set_started_summ k vals s : acc_summ k vals s -> acc_summ k vals (an_set_started s).
Proof. unfold acc_summ. intros H. exact H. Qed.

Lemma acc_step3_ok k hs T s x :
  acc_inv3 k hs T s ->
  acc_inv3 k hs (T ++ [x]) (fst (acc_step3 k hs s x)) /\ snd (acc_step3 k hs s x) = an_agg k (an_phase hs (T ++ [x])).
Proof.
  intros [Hsum Hst]. unfold acc_inv3, acc_step3, an_phase in *.
  rewrite takewhile_rev_snoc. destruct x as [[v st] rs]. cbn [fst snd].
  destruct rs.
  - (* reset row *)
    cbn [fst snd]. simpl an_from_start. cbn [negb]. rewrite andb_false_r.
    assert (H0 : acc_summ k (map (fun t : an_triple => fst (fst t)) (if hs then [] else [])) an_acc0)
      by (destruct hs; apply acc0_summ).
    split; [split; [exact H0|reflexivity]|]. apply acc_result_summ. exact H0.
  - destruct hs; cbn [andb].
    + unfold an_from_start, an_triple in *. rewrite dropwhile_snoc. cbn [fst snd].
      set (D := an_dropwhile (fun t : aval * bool * bool => negb (snd (fst t))) (an_after_reset T)) in *.
      clearbody D. destruct D as [|y yt].
      * simpl in Hst. rewrite Hst. cbn [negb andb].
        destruct st; cbn [negb andb fst snd].
        -- destruct (acc_add_summ k [] (an_set_started s) v (set_started_summ _ _ _ Hsum)) as [Hst' Hsum'].
           split; [split; [exact Hsum'|rewrite Hst'; reflexivity]|]. apply acc_result_summ. exact Hsum'.
        -- split; [split; [exact Hsum|exact Hst]|]. apply acc_result_summ. exact Hsum.
      * simpl in Hst. rewrite Hst. rewrite andb_false_r. cbn [fst snd].
        destruct (acc_add_summ k _ (an_set_started s) v (set_started_summ _ _ _ Hsum)) as [Hst' Hsum'].
        rewrite map_app. simpl map at 2. cbn [fst].
        split; [split; [exact Hsum'|rewrite Hst'; reflexivity]|]. apply acc_result_summ. exact Hsum'.
    + cbn [fst snd]. simpl in Hst.
      destruct (acc_add_summ k _ s v Hsum) as [Hst' Hsum'].
      rewrite map_app. simpl map at 2. cbn [fst].
      split; [split; [exact Hsum'|rewrite Hst'; exact Hst]|]. apply acc_result_summ. exact Hsum'.
Qed.

(* all rows of one call have the same number of arguments n *)
Definition acc_inv (k : akind) (n : nat) (L : list (list aval)) (s : aacc) : Prop :=
  Forall (fun a => length a = n) L /\ acc_inv3 k (2 <=? n) (map an_triple_of L) s.

Lemma acc_step k n L s args :
  length args = n -> acc_inv k n L s ->
  acc_inv k n (L ++ [args]) (fst (an_acc_apply k s args)) /\ snd (an_acc_apply k s args) = an_call_spec (AFAcc k) L args.
Proof.
  intros Hlen [Hall H3].
  rewrite acc_apply_step3, Hlen.
  destruct (acc_step3_ok k (2 <=? n) _ s (an_triple_of args) H3) as [H3' Hout].
  split.
  - split.
    + apply Forall_app. split; [exact Hall|]. constructor; [exact Hlen|constructor].
    + rewrite map_app. exact H3'.
  - rewrite Hout. unfold an_call_spec, an_acc_spec. rewrite rev_app_distr. simpl rev. cbn [app].
    rewrite Hlen, map_app. reflexivity.
Qed.

(* ---------------------------------------------------------------- had_changed (positional) *)
Lemma had_merge_combine ign : forall vals prev, length prev = length vals ->
  an_had_merge ign prev vals =
  (map (fun pv => if ign && an_is_null (snd pv) then fst pv else snd pv) (combine prev vals),
   existsb (fun pv => negb (ign && an_is_null (snd pv)) && negb (an_eq (fst pv) (snd pv))) (combine prev vals)).
Proof.
  induction vals as [|v vt IH]; intros prev Hlen.
  - destruct prev; reflexivity.
  - destruct prev as [|p pt]; [discriminate|]. simpl in Hlen. injection Hlen as Hlen.
    simpl. rewrite (IH pt Hlen). destruct (ign && an_is_null v); reflexivity.
Qed.

Lemma map_nth_seq (A : Type) (l : list A) d : map (fun i => nth i l d) (seq 0 (length l)) = l.
Proof.
  induction l as [|x t IH]; [reflexivity|]. simpl. f_equal.
  rewrite <- seq_shift, map_map. exact IH.
Qed.

Lemma combine_map_l (A B C : Type) (f : A -> B) (g : A -> C) l :
  combine (map f l) (map g l) = map (fun i => (f i, g i)) l.
Proof. induction l; simpl; [reflexivity|]. f_equal. exact IHl. Qed.

Lemma existsb_map_l (A B : Type) (f : A -> B) p l : existsb p (map f l) = existsb (fun x => p (f x)) l.
Proof. induction l; simpl; [reflexivity|]. rewrite IHl. reflexivity. Qed.

Lemma base_snoc ign c0 rest v :
  an_base ign ((c0 :: rest) ++ [v]) = if ign && an_is_null v then an_base ign (c0 :: rest) else v.
Proof.
  simpl. rewrite retained_snoc. destruct (ign && an_is_null v); [reflexivity|]. apply last_last.
Qed.

(* tuples of width w; the state holds the baseline of every column *)
Definition had_inv (ign : bool) (w : nat) (tuples : list (list aval)) (st : option (list aval)) : Prop :=
  Forall (fun t => length t = w) tuples /\
  st = match tuples with
       | [] => None
       | _ => Some (map (fun i => an_base ign (an_column i tuples)) (seq 0 w))
       end.

Lemma had_step ign w tuples st a cur :
  an_to_bool a = ign -> length cur = w -> had_inv ign w tuples st ->
  had_inv ign w (tuples ++ [cur]) (fst (an_had_apply st (a :: cur))) /\
  snd (an_had_apply st (a :: cur)) = AVBool (an_had_spec ign tuples cur).
Proof.
  intros Ha Hlen [Hall Hst].
  assert (Hall' : Forall (fun t => length t = w) (tuples ++ [cur])).
  { apply Forall_app. split; [exact Hall|]. constructor; [exact Hlen|constructor]. }
  unfold an_had_apply. cbn [tl]. rewrite Ha.
  destruct tuples as [|t0 tr].
  - subst st. cbn [fst snd app]. split; [|reflexivity]. split; [exact Hall'|].
    f_equal. rewrite <- (map_nth_seq _ cur AVNull) at 1. rewrite Hlen. apply map_ext. intros i. reflexivity.
  - subst st. set (T := t0 :: tr) in *.
    set (B := map (fun i => an_base ign (an_column i T)) (seq 0 w)).
    assert (HB : length B = length cur) by (unfold B; rewrite map_length, seq_length; lia).
    rewrite (had_merge_combine ign cur B HB). cbn [fst snd].
    assert (Hcomb : combine B cur = map (fun i => (an_base ign (an_column i T), an_arg i cur)) (seq 0 w)).
    { unfold B. rewrite <- (map_nth_seq _ cur AVNull) at 1. rewrite Hlen. apply combine_map_l. }
    rewrite Hcomb. split.
    + split; [exact Hall'|]. unfold T. cbn [app]. f_equal. rewrite map_map. apply map_ext. intros i. cbn [fst snd].
      unfold an_column. cbn [map]. rewrite map_app. cbn [map].
      symmetry. apply (base_snoc ign (an_arg i t0) (map (an_arg i) tr) (an_arg i cur)).
    + f_equal. unfold an_had_spec. fold T. rewrite existsb_map_l, Hlen. reflexivity.
Qed.

(* ---------------------------------------------------------------- one call of a query, over rows *)
Definition an_const (e : aexp) : bool := match e with AENum _ | AEBool _ => true | _ => false end.

Lemma const_eval e r r' : an_const e = true -> an_eval r e = an_eval r' e.
Proof. destruct e; simpl; intros H; try discriminate; reflexivity. Qed.

Lemma const_evals es r r' : forallb an_const es = true -> map (an_eval r) es = map (an_eval r') es.
Proof.
  induction es as [|e t IH]; simpl; intros H; [reflexivity|].
  apply andb_prop in H. destruct H as [H1 H2]. rewrite (const_eval e r r' H1), (IH H2). reflexivity.
Qed.

(* the arguments that configure a function (offset, default, ignoreNull flags) are literals; start / reset
   predicates of acc_* and the default of latest may depend on the row *)
Definition an_call_wf (c : acall) : bool :=
  match ca_fn c, ca_args c with
  | AFLag, _ :: rest => forallb an_const rest
  | AFHad, a :: _ => an_const a
  | AFCcol, a :: _ => an_const a
  | AFLatest, _ => true
  | AFAcc _, _ => true
  | _, _ => false
  end.

Definition call_inv (c : acall) (earlier : list arow) (st : acstate) : Prop :=
  let L := map (fun x => map (an_eval x) (ca_args c)) earlier in
  match ca_fn c, st with
  | AFLag, ASLag h => lag_inv (map (an_eval []) (tl (ca_args c))) L h
  | AFLatest, ASLatest x => latest_inv L x
  | AFHad, ASHad p => had_inv (an_to_bool (an_eval [] (hd (AENum 0) (ca_args c)))) (length (tl (ca_args c))) (map (@tl aval) L) p
  | AFCcol, ASCcol p => ccol_inv (an_to_bool (an_eval [] (hd (AENum 0) (ca_args c)))) (map (an_arg 1) L) p
  | AFAcc k, ASAcc s => acc_inv k (length (ca_args c)) L s
  | _, _ => False
  end.

Lemma call_inv_init c : an_call_wf c = true -> call_inv c [] (an_new_state (ca_fn c)).
Proof.
  unfold call_inv, an_call_wf. destruct c as [f args]. cbn [ca_fn ca_args].
  destruct f; simpl.
  - intros _. reflexivity.
  - intros _. reflexivity.
  - intros _. split; [constructor|reflexivity].
  - intros _. reflexivity.
  - intros _. split; [constructor|]. split.
    + destruct (2 <=? length args); apply acc0_summ.
    + simpl. rewrite andb_false_r. reflexivity.
Qed.

Lemma call_step c earlier st r : an_call_wf c = true -> call_inv c earlier st ->
  call_inv c (earlier ++ [r]) (fst (an_call_apply c st r)) /\
  snd (an_call_apply c st r) = an_call_spec_rows c earlier r.
Proof.
  unfold an_call_wf, call_inv, an_call_spec_rows, an_call_apply.
  destruct c as [f args]. cbn [ca_fn ca_args]. intros Hwf HI.
  rewrite map_app. cbn [map].
  set (L := map (fun x => map (an_eval x) args) earlier) in *.
  destruct f.
  - (* lag *)
    destruct st as [h| | | |]; try contradiction.
    destruct args as [|e0 rest]; [discriminate|]. cbn [tl map] in *.
    rewrite (const_evals rest r [] Hwf).
    destruct (lag_step _ L h (an_eval r e0) HI) as [H1 H2].
    destruct (an_lag_apply h (an_eval r e0 :: map (an_eval []) rest)) as [h' v]. cbn [fst snd] in *.
    split; [exact H1|exact H2].
  - (* latest *)
    destruct st as [|x| | |]; try contradiction.
    destruct (latest_step L x (map (an_eval r) args) HI) as [H1 H2].
    destruct (an_latest_apply x (map (an_eval r) args)) as [x' v]. cbn [fst snd] in *.
    split; [exact H1|exact H2].
  - (* had_changed *)
    destruct st as [| |p| |]; try contradiction.
    destruct args as [|a cols]; [discriminate|]. cbn [tl hd map] in *.
    rewrite map_app. cbn [map tl].
    assert (Ha : an_to_bool (an_eval r a) = an_to_bool (an_eval [] a)) by (rewrite (const_eval a r [] Hwf); reflexivity).
    assert (Hlen : length (map (an_eval r) cols) = length cols) by apply map_length.
    destruct (had_step _ _ _ p (an_eval r a) (map (an_eval r) cols) Ha Hlen HI) as [H1 H2].
    destruct (an_had_apply p (an_eval r a :: map (an_eval r) cols)) as [p' v]. cbn [fst snd] in *.
    split; [exact H1|]. rewrite H2. unfold an_call_spec. cbn [tl]. unfold an_arg at 1. cbn [nth]. rewrite Ha. reflexivity.
  - (* changed_col *)
    destruct st as [| | |p|]; try contradiction.
    destruct args as [|a rest]; [discriminate|]. cbn [tl hd map] in *.
    rewrite map_app. cbn [map].
    assert (Ha : an_to_bool (an_eval r a) = an_to_bool (an_eval [] a)) by (rewrite (const_eval a r [] Hwf); reflexivity).
    unfold an_ccol_apply. rewrite Ha.
    set (v := match nth_error (an_eval r a :: map (an_eval r) rest) 1 with Some v => v | None => AVNull end).
    assert (Hv : v = an_arg 1 (an_eval r a :: map (an_eval r) rest)).
    { unfold v, an_arg. cbn [nth nth_error]. destruct (map (an_eval r) rest); reflexivity. }
    destruct (ccol_step_ok _ _ p v HI) as [H1 H2].
    destruct (an_ccol_step (an_to_bool (an_eval [] a)) p v) as [p' ch]. cbn [fst snd] in *.
    split; [rewrite <- Hv; exact H1|].
    unfold an_call_spec. unfold an_arg at 1. cbn [nth]. rewrite Ha, <- Hv, <- H2. reflexivity.
  - (* acc *)
    destruct st as [| | | |s]; try contradiction.
    assert (Hlen : length (map (an_eval r) args) = length args) by apply map_length.
    destruct (acc_step k _ L s (map (an_eval r) args) Hlen HI) as [H1 H2].
    destruct (an_acc_apply k s (map (an_eval r) args)) as [s' v]. cbn [fst snd] in *.
    split; [exact H1|exact H2].
Qed.

(* analytic_seq: for every history of counted rows of one partition, the call's state machine returns, row by
   row, the declarative function of the earlier rows *)
Theorem call_seq : forall c h, an_call_wf c = true ->
  sm_run (an_call_apply c) (an_new_state (ca_fn c)) h = map_prefix (an_call_spec_rows c) h.
Proof.
  intros c h Hwf. unfold map_prefix.
  apply (sm_run_prefix _ _ _ (an_call_apply c) (an_call_spec_rows c) (call_inv c)).
  - intros l s x HI. apply call_step; assumption.
  - apply call_inv_init. exact Hwf.
Qed.

(* ---------------------------------------------------------------- history: the code before the fix *)
(* parseFunctionArgs returns the text of an identifier it cannot resolve; before the fix the analytic engine fed
   that text (the column's NAME) to the state machine when the column was missing from the row *)
Definition an_eval_asis (r : arow) (e : aexp) : aval :=
  match e with
  | AEField n => match alookup n r with Some v => v | None => AVStr n end
  | _ => an_eval r e
  end.

Definition an_call_apply_asis (c : acall) (st : acstate) (r : arow) : acstate * ares :=
  let args := map (an_eval_asis r) (ca_args c) in
  match ca_fn c, st with
  | AFLatest, ASLatest x => let '(x', v) := an_latest_apply x args in (ASLatest x', ARV v)
  | AFAcc k, ASAcc s => let '(s', v) := an_acc_apply k s args in (ASAcc s', v)
  | _, _ => (st, ARV AVNull)
  end.

Definition colv : bytes := [118]%N.   (* "v" *)

Lemma missing_arg_asis_refuted :
  let c := {| ca_fn := AFAcc AKCount; ca_args := [AEField colv] |} in
  let h := [[(colv, AVInt 5)]; []] in      (* the second row has no column v *)
  sm_run (an_call_apply_asis c) (an_new_state (ca_fn c)) h = [ARV (AVInt 1); ARV (AVInt 2)] /\
  map_prefix (an_call_spec_rows c) h = [ARV (AVInt 1); ARV (AVInt 1)] /\
  sm_run (an_call_apply c) (an_new_state (ca_fn c)) h = [ARV (AVInt 1); ARV (AVInt 1)].
Proof. vm_compute. repeat split; reflexivity. Qed.
