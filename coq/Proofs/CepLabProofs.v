(* C15 — proofs about the labelled-run model of Model/CepLab.v and its checker Spec/CepLabSpec.v. *)
From Coq Require Import List ZArith NArith Bool Arith Lia.
From SV Require Import Model.Cep Model.CepLab Spec.CepSpec Spec.CepLabSpec Proofs.CepProofs.
Import ListNotations.

(* ================================================================== labelled validity *)
(* the rows of [seg] carry the labels [w]: each row satisfies the DEFINE of its label, evaluated
   against the labelled rows before it ([h] = the labelled rows before [seg]) *)
Inductive lspells (defs : list adef) : lhist -> list crow -> list N -> Prop :=
| LSpNil : forall h, lspells defs h [] []
| LSpCons : forall h r t v w, lsat defs h r v = true -> lspells defs (h ++ [(r, v)]) t w ->
                              lspells defs h (r :: t) (v :: w).

Lemma lspells_b_iff : forall defs seg h w, lspells_b defs h seg w = true <-> lspells defs h seg w.
Proof.
  induction seg as [|r t IH]; intros h w; destruct w as [|v w]; simpl; split; intro H.
  - constructor.
  - reflexivity.
  - discriminate.
  - inversion H.
  - discriminate.
  - inversion H.
  - apply andb_true_iff in H. destruct H as [H1 H2]. constructor; [assumption|apply IH; assumption].
  - inversion H; subst. apply andb_true_iff. split; [assumption|apply IH; assumption].
Qed.

Lemma lspells_length : forall defs seg h w, lspells defs h seg w -> length w = length seg.
Proof. intros defs seg h w H. induction H; simpl; congruence. Qed.

(* a valid labelled match: a non-empty run of rows whose labels spell a word of the pattern, every
   row satisfying the DEFINE of its label against the labels before it, all rows within WITHIN of
   the first *)
Definition lvalid (c : lcfg) (seg : list crow) (w : list N) : Prop :=
  match seg with
  | [] => False
  | r0 :: _ => word_in (l_pat c) w /\ lspells (l_defs c) [] seg w
               /\ Forall (fun x => (r_ts x - r_ts r0 <= l_within c)%Z) seg
  end.

Lemma lvalid_b_iff : forall c seg w, lvalid_b c seg w = true <-> lvalid c seg w.
Proof.
  intros c seg w. unfold lvalid_b, lvalid. destruct seg as [|r0 t].
  - simpl. split; [discriminate|tauto].
  - rewrite !andb_true_iff, deriv_correct, lspells_b_iff, forallb_forall, Forall_forall. split.
    + intros [[Hw Hp] Hs]. split; [assumption|]. split; [assumption|].
      intros x Hx. apply Z.leb_le. apply Hw; assumption.
    + intros [Hp [Hs Hw]]. split; [split|]; try assumption.
      intros x Hx. apply Z.leb_le. apply Hw; assumption.
Qed.

(* ================================================================== runs *)
Lemma firsts_in_gen : forall p u, word_in p u -> forall v w, u = v :: w -> In v (firsts p).
Proof.
  intros p u H. induction H; intros v0 w0 E; simpl.
  - discriminate.
  - inversion E; subst. left; reflexivity.
  - destruct w1 as [|a w1'].
    + simpl in E. apply in_or_app. right.
      assert (Hn : nullable p = true) by (apply nullable_iff; assumption).
      rewrite Hn. eapply IHword_in2; eassumption.
    + simpl in E. inversion E; subst. apply in_or_app. left. eapply IHword_in1; reflexivity.
  - apply in_or_app. left. eapply IHword_in; eassumption.
  - apply in_or_app. right. eapply IHword_in; eassumption.
  - discriminate.
  - destruct w1 as [|a w1'].
    + simpl in E. eapply IHword_in2; eassumption.
    + simpl in E. inversion E; subst. eapply IHword_in1; reflexivity.
Qed.

Lemma firsts_in : forall p v w, word_in p (v :: w) -> In v (firsts p).
Proof. intros p v w H. eapply firsts_in_gen; [eassumption|reflexivity]. Qed.

Lemma deriv_eqb_iff : forall v p w, word_in (deriv (N.eqb v) p) w <-> word_in p (v :: w).
Proof.
  intros v p w. rewrite deriv_iff. split.
  - intros [v' [E H]]. apply N.eqb_eq in E. subst. assumption.
  - intro H. exists v. split; [apply N.eqb_refl|assumption].
Qed.

(* some run of [runs] can consume the rows [seg] and end accepting *)
Definition racc (defs : list adef) (runs : list lrun) (seg : list crow) : Prop :=
  exists p h w, In (p, h) runs /\ lspells defs h seg w /\ word_in p w.

Lemma racc_nil : forall defs runs,
  racc defs runs [] <-> existsb (fun x : lrun => nullable (fst x)) runs = true.
Proof.
  intros defs runs. rewrite existsb_exists. split.
  - intros [p [h [w [Hin [Hs Hw]]]]]. inversion Hs; subst. exists (p, h). split; [assumption|].
    simpl. apply nullable_iff. assumption.
  - intros [[p h] [Hin Hn]]. simpl in Hn. exists p, h, []. split; [assumption|].
    split; [constructor|apply nullable_iff; assumption].
Qed.

Lemma lstep_in : forall defs r p h p' h',
  In (p', h') (lstep defs r (p, h)) <->
  exists v, In v (firsts p) /\ lsat defs h r v = true /\ p' = deriv (N.eqb v) p
            /\ is_empty p' = false /\ h' = h ++ [(r, v)].
Proof.
  intros defs r p h p' h'. unfold lstep. rewrite in_flat_map. simpl. split.
  - intros [v [Hv Hin]]. apply nodup_In in Hv. destruct (lsat defs h r v) eqn:Es; [|destruct Hin].
    destruct (is_empty (deriv (N.eqb v) p)) eqn:Ee; [destruct Hin|].
    destruct Hin as [E|[]]. inversion E; subst. exists v. repeat split; assumption.
  - intros [v [Hv [Es [Ep [Ee Eh]]]]]. exists v. split; [apply nodup_In; assumption|].
    rewrite Es. subst p'. rewrite Ee. left. subst h'. reflexivity.
Qed.

Lemma is_empty_word : forall p w, word_in p w -> is_empty p = false.
Proof. intros p w H. destruct p; try reflexivity. inversion H. Qed.

Lemma racc_step : forall defs runs r t,
  racc defs (flat_map (lstep defs r) runs) t <-> racc defs runs (r :: t).
Proof.
  intros defs runs r t. split.
  - intros [p' [h' [w [Hin [Hs Hw]]]]]. apply in_flat_map in Hin. destruct Hin as [[p h] [Hin Hst]].
    apply lstep_in in Hst. destruct Hst as [v [Hv [Es [Ep [Ee Eh]]]]]. subst p' h'.
    exists p, h, (v :: w). split; [assumption|]. split; [constructor; assumption|].
    apply deriv_eqb_iff. assumption.
  - intros [p [h [w0 [Hin [Hs Hw]]]]]. inversion Hs; subst.
    exists (deriv (N.eqb v) p), (h ++ [(r, v)]), w. split; [|split].
    + apply in_flat_map. exists (p, h). split; [assumption|]. apply lstep_in. exists v.
      assert (Hd : word_in (deriv (N.eqb v) p) w) by (apply deriv_eqb_iff; assumption).
      split; [eapply firsts_in; eassumption|]. split; [assumption|]. split; [reflexivity|].
      split; [eapply is_empty_word; eassumption|reflexivity].
    + assumption.
    + apply deriv_eqb_iff. assumption.
Qed.

(* ================================================================== longest *)
Definition lwin (c : lcfg) (t0 : Z) (r : crow) : bool := Z.leb (r_ts r - t0) (l_within c).
Definition lok (c : lcfg) (t0 : Z) (runs : list lrun) (l : list crow) (k : nat) : Prop :=
  forallb (lwin c t0) (firstn k l) = true /\ racc (l_defs c) runs (firstn k l).

Lemma lok_cons : forall c t0 runs r t k,
  lok c t0 runs (r :: t) (S k) <->
  lwin c t0 r = true /\ lok c t0 (flat_map (lstep (l_defs c) r) runs) t k.
Proof.
  intros. unfold lok. simpl. rewrite andb_true_iff, racc_step. tauto.
Qed.

Lemma lok_0 : forall c t0 runs l,
  lok c t0 runs l 0 <-> existsb (fun x : lrun => nullable (fst x)) runs = true.
Proof. intros. unfold lok. simpl. rewrite racc_nil. tauto. Qed.

Lemma llongest_char : forall l c t0 runs len best,
  (forall b, best = Some b -> b <= len) ->
  match llongest c t0 runs l len best with
  | Some m => (best = Some m \/ exists k, 1 <= k <= length l /\ m = len + k /\ lok c t0 runs l k)
              /\ (forall k, 1 <= k <= length l -> lok c t0 runs l k -> len + k <= m)
              /\ (forall b, best = Some b -> b <= m)
  | None => best = None /\ forall k, 1 <= k <= length l -> ~ lok c t0 runs l k
  end.
Proof.
  induction l as [|r t IH]; intros c t0 runs len best Hb; simpl.
  - destruct best as [b|].
    + split; [left; reflexivity|]. split; [intros k Hk; lia|]. intros b0 E; inversion E; lia.
    + split; [reflexivity|intros k Hk; lia].
  - fold (lwin c t0 r). destruct (lwin c t0 r) eqn:Ew; simpl.
    + set (runs' := flat_map (lstep (l_defs c) r) runs).
      set (acc := existsb (fun x : lrun => nullable (fst x)) runs').
      set (best' := if acc then Some (S len) else best).
      assert (Hb' : forall b, best' = Some b -> b <= S len).
      { intros b E. unfold best' in E. destruct acc; [inversion E; lia|]. apply Hb in E. lia. }
      specialize (IH c t0 runs' (S len) best' Hb').
      destruct (llongest c t0 runs' t (S len) best') as [m|].
      * destruct IH as [I1 [I2 I3]]. split; [|split].
        -- destruct I1 as [I1|[k [Hk [Em Ok]]]].
           ++ unfold best' in I1. destruct acc eqn:En.
              ** right. exists 1. split; [lia|]. split; [inversion I1; lia|].
                 apply lok_cons. split; [assumption|]. apply lok_0. exact En.
              ** left; assumption.
           ++ right. exists (S k). split; [lia|]. split; [lia|]. apply lok_cons. split; assumption.
        -- intros k Hk Ok. destruct k as [|k]; [lia|]. apply lok_cons in Ok. destruct Ok as [_ Ok].
           destruct k as [|k].
           ++ apply lok_0 in Ok. fold runs' in Ok. fold acc in Ok.
              assert (E : best' = Some (S len)) by (unfold best'; rewrite Ok; reflexivity).
              apply I3 in E. lia.
           ++ assert (S len + S k <= m) by (apply I2; [lia|assumption]). lia.
        -- intros b E. assert (Hx : exists b', best' = Some b' /\ b <= b').
           { unfold best'. destruct acc; [exists (S len); split; [reflexivity|apply Hb in E; lia]|exists b; split; [assumption|lia]]. }
           destruct Hx as [b' [E' Hle]]. apply I3 in E'. lia.
      * destruct IH as [I1 I2]. unfold best' in I1. destruct acc eqn:En; [discriminate|].
        split; [assumption|]. intros k Hk Ok. destruct k as [|k]; [lia|]. apply lok_cons in Ok.
        destruct Ok as [_ Ok]. destruct k as [|k].
        -- apply lok_0 in Ok. fold runs' in Ok. fold acc in Ok. congruence.
        -- apply (I2 (S k)); [lia|assumption].
    + destruct best as [b|].
      * split; [left; reflexivity|]. split.
        -- intros k Hk Ok. destruct k as [|k]; [lia|]. apply lok_cons in Ok. destruct Ok as [Ok _]. congruence.
        -- intros b0 E; inversion E; lia.
      * split; [reflexivity|]. intros k Hk Ok. destruct k as [|k]; [lia|].
        apply lok_cons in Ok. destruct Ok as [Ok _]. congruence.
Qed.

(* at the head of a row list, [lok] for the initial run is the existence of a valid labelling *)
Lemma lok_lvalid : forall c r t k, 1 <= k ->
  lok c (r_ts r) [(l_pat c, [])] (r :: t) k <-> exists w, lvalid c (firstn k (r :: t)) w.
Proof.
  intros c r t k Hk. destruct k as [|k]; [lia|]. unfold lok, lvalid, racc. simpl firstn. split.
  - intros [Hw [p [h [w [Hin [Hs Hp]]]]]]. destruct Hin as [E|[]]. inversion E; subst.
    exists w. split; [assumption|]. split; [assumption|].
    apply Forall_forall. intros x Hx. apply Z.leb_le.
    rewrite forallb_forall in Hw. apply (Hw x Hx).
  - intros [w [Hp [Hs Hw]]]. split.
    + apply forallb_forall. intros x Hx. apply Z.leb_le.
      rewrite Forall_forall in Hw. apply (Hw x Hx).
    + exists (l_pat c), [], w. split; [left; reflexivity|]. split; assumption.
Qed.

(* the longest labelled match at the head of l: some classification makes the first m rows a valid
   match, and no classification does so for more rows *)
Theorem llongest_at_some : forall c l m, llongest_at c l = Some m ->
  1 <= m <= length l /\ (exists w, lvalid c (firstn m l) w)
  /\ forall k w, m < k <= length l -> ~ lvalid c (firstn k l) w.
Proof.
  intros c l m H. destruct l as [|r t]; [discriminate|]. unfold llongest_at in H.
  pose proof (llongest_char (r :: t) c (r_ts r) [(l_pat c, [])] 0 None) as L.
  rewrite H in L. destruct L as [L1 [L2 _]]; [intros b E; discriminate|].
  destruct L1 as [L1|[k [Hk [Em Ok]]]]; [discriminate|]. simpl in Em. subst k.
  split; [assumption|]. split.
  - apply lok_lvalid; [lia|assumption].
  - intros k w Hk' V. assert (Ok' : lok c (r_ts r) [(l_pat c, [])] (r :: t) k).
    { apply lok_lvalid; [lia|]. exists w; assumption. }
    apply L2 in Ok'; [simpl in Ok'; lia|lia].
Qed.

Theorem llongest_at_none : forall c l, llongest_at c l = None -> forall k w, ~ lvalid c (firstn k l) w.
Proof.
  intros c l H k w V. destruct l as [|r t].
  - destruct k; simpl in V; exact V.
  - unfold llongest_at in H.
    pose proof (llongest_char (r :: t) c (r_ts r) [(l_pat c, [])] 0 None) as L.
    rewrite H in L. destruct L as [_ L]; [intros b E; discriminate|].
    destruct k as [|k]; [simpl in V; exact V|].
    destruct (le_lt_dec (S k) (length (r :: t))) as [Hle|Hgt].
    + apply (L (S k)); [lia|]. apply lok_lvalid; [lia|]. exists w; assumption.
    + rewrite firstn_ge in V by lia. apply (L (length (r :: t))); [simpl; lia|].
      apply lok_lvalid; [simpl; lia|]. exists w; assumption.
Qed.

(* ================================================================== conservative extension *)
(* without conditions over the classification, a labelled match is a match of Model/Cep.v and the
   labelled reference computes the same longest match as the derivative reference *)
Definition no_agg (c : lcfg) : Prop := Forall (fun d => a_kind d = 0%N) (l_defs c).

Lemma last_row_app : forall l r, last_row (l ++ [r]) = Some r.
Proof.
  induction l as [|a l IH]; intro r; simpl; [reflexivity|]. rewrite IH. reflexivity.
Qed.

Lemma hprev_app : forall h r v, hprev (h ++ [(r, v)]) = Some r.
Proof. intros. unfold hprev. rewrite map_app. simpl. apply last_row_app. Qed.

Lemma lsat_no_agg : forall defs h r v, Forall (fun d => a_kind d = 0%N) defs ->
  lsat defs h r v = sat (map a_base defs) (hprev h) r v.
Proof.
  intros defs h r v F. unfold lsat, sat. rewrite nth_error_map.
  destruct (nth_error defs (N.to_nat v)) as [d|] eqn:E; simpl; [|reflexivity].
  apply nth_error_In in E. rewrite Forall_forall in F. specialize (F d E).
  unfold agg_ok. rewrite F. rewrite andb_true_r. reflexivity.
Qed.

Lemma lspells_no_agg : forall defs seg h w, Forall (fun d => a_kind d = 0%N) defs ->
  (lspells defs h seg w <-> spells (map a_base defs) (hprev h) seg w).
Proof.
  intros defs seg h w F. revert h w. induction seg as [|r t IH]; intros h w; split; intro H.
  - inversion H; constructor.
  - inversion H; constructor.
  - inversion H; subst. constructor.
    + rewrite <- lsat_no_agg by assumption. assumption.
    + rewrite <- (hprev_app h r v). apply IH. assumption.
  - inversion H; subst. constructor.
    + rewrite lsat_no_agg by assumption. assumption.
    + apply IH. rewrite hprev_app. assumption.
Qed.

Lemma lvalid_no_agg : forall c seg, no_agg c ->
  ((exists w, lvalid c seg w) <-> valid (base_cfg c) seg).
Proof.
  intros c seg F. unfold lvalid, valid. destruct seg as [|r0 t]; simpl.
  - split; [intros [w []]|tauto].
  - split.
    + intros [w [Hp [Hs Hw]]]. split; [|assumption]. exists w. split; [assumption|].
      apply (lspells_no_agg (l_defs c) (r0 :: t) [] w F) in Hs. exact Hs.
    + intros [[w [Hp Hs]] Hw]. exists w. split; [assumption|]. split; [|assumption].
      apply (lspells_no_agg (l_defs c) (r0 :: t) [] w F). exact Hs.
Qed.

Theorem llongest_at_conservative : forall c l, no_agg c -> llongest_at c l = longest_at (base_cfg c) l.
Proof.
  intros c l F.
  destruct (llongest_at c l) as [m|] eqn:E1; destruct (longest_at (base_cfg c) l) as [m'|] eqn:E2.
  - apply llongest_at_some in E1. apply longest_at_some in E2.
    destruct E1 as [R1 [V1 M1]]. destruct E2 as [R2 [V2 M2]].
    apply (lvalid_no_agg c _ F) in V1. apply (lvalid_no_agg c _ F) in V2. destruct V2 as [w2 V2].
    destruct (lt_eq_lt_dec m m') as [[Hlt|Heq]|Hgt].
    + exfalso. apply (M1 m' w2); [lia|assumption].
    + subst; reflexivity.
    + exfalso. apply (M2 m); [lia|assumption].
  - exfalso. apply llongest_at_some in E1. destruct E1 as [_ [V1 _]].
    apply (lvalid_no_agg c _ F) in V1. eapply longest_at_none; eassumption.
  - exfalso. apply longest_at_some in E2. destruct E2 as [_ [V2 _]].
    apply (lvalid_no_agg c _ F) in V2. destruct V2 as [w V2]. eapply llongest_at_none; eassumption.
  - reflexivity.
Qed.

(* ================================================================== the checker *)
(* what the checker demands of the located matches (position, length, labels) of one partition,
   [next] = the first allowed start: every match starts at an allowed row, is a valid labelled match,
   no classification gives a longer one at its start, no allowed row before it starts a valid
   match, the next allowed start follows from ITS labels by AFTER MATCH SKIP; after the last match
   no allowed row starts a valid match (nothing is omitted, Flush included) *)
Fixpoint lexact (c : lcfg) (rows : list crow) (next : nat) (ms : list lmatch) : Prop :=
  match ms with
  | [] => forall q k w, next <= q -> ~ lvalid c (firstn k (skipn q rows)) w
  | (q, k, w) :: t =>
      next <= q /\ lvalid c (firstn k (skipn q rows)) w
      /\ (forall k' w', k < k' -> q + k' <= length rows -> ~ lvalid c (firstn k' (skipn q rows)) w')
      /\ (forall q' k' w', next <= q' < q -> ~ lvalid c (firstn k' (skipn q' rows)) w')
      /\ lexact c rows (lskip_to (l_skip c) q k w) t
  end.

Lemma lexact_weaken : forall c rows ms n n', n <= n' ->
  (match ms with [] => True | (q, _, _) :: _ => n' <= q end) ->
  lexact c rows n ms -> lexact c rows n' ms.
Proof.
  intros c rows ms n n' Hle Hq H. destruct ms as [|[[q k] w] t]; simpl in *.
  - intros q k w Hn. apply H. lia.
  - destruct H as [H1 [H2 [H3 [H4 H5]]]]. split; [assumption|]. split; [assumption|].
    split; [assumption|]. split; [|assumption]. intros q' k' w' Hq'. apply H4. lia.
Qed.

Lemma lskip_to_gt : forall sk pos k w, 1 <= k -> pos < lskip_to sk pos k w.
Proof.
  intros sk pos k w Hk. unfold lskip_to. destruct sk.
  - lia.
  - lia.
  - destruct (first_lab v w 0); lia.
  - destruct (last_lab v w 0 None); lia.
Qed.

Lemma lvalid_nonempty : forall c l k w, lvalid c (firstn k l) w -> 1 <= k.
Proof. intros c l k w V. destruct k; [simpl in V; destruct V|lia]. Qed.

Lemma skipn_nil_ge : forall {A} (rows : list A) pos q, skipn pos rows = [] -> pos <= q -> skipn q rows = [].
Proof.
  intros A rows pos q E Hq. apply skipn_all2.
  assert (H : length (skipn pos rows) = 0) by (rewrite E; reflexivity).
  rewrite skipn_length in H. lia.
Qed.

Lemma skipn_len : forall {A} (rows l : list A) pos, skipn pos rows = l -> length l = length rows - pos.
Proof. intros A rows l pos E. subst l. apply skipn_length. Qed.

Arguments llongest_at : simpl never.
Arguments lskip_to : simpl never.
Arguments lvalid_b : simpl never.

(* soundness: no alarm => the reported matches are exact *)
Lemma lscan_chk_sound : forall l c rows pos next ms, skipn pos rows = l ->
  lscan_chk c pos next l ms = None -> lexact c rows (Nat.max pos next) ms.
Proof.
  induction l as [|r t IH]; intros c rows pos next ms El H.
  - simpl in H. destruct ms as [|m ms']; [|discriminate]. simpl. intros q k w Hq V.
    rewrite (skipn_nil_ge rows pos q El) in V by lia. destruct k; simpl in V; exact V.
  - pose proof (skipn_cons_nth rows pos r t El) as Et. simpl in H.
    destruct ms as [|[[q k] w] ms'].
    + destruct (Nat.ltb pos next) eqn:Ep.
      * apply Nat.ltb_lt in Ep. apply (IH c rows (S pos) next [] Et) in H.
        replace (Nat.max pos next) with (Nat.max (S pos) next) by lia. exact H.
      * apply Nat.ltb_ge in Ep. destruct (llongest_at c (r :: t)) eqn:El2; [discriminate|].
        apply (IH c rows (S pos) next [] Et) in H. cbn [lexact] in *. intros q k w Hq V.
        destruct (Nat.eq_dec q pos) as [->|Hne].
        -- rewrite El in V. eapply llongest_at_none; eassumption.
        -- apply (H q k w); [lia|assumption].
    + destruct (Nat.ltb q pos) eqn:Eq; [discriminate|]. apply Nat.ltb_ge in Eq.
      destruct (Nat.ltb pos next) eqn:Ep.
      * apply Nat.ltb_lt in Ep. destruct (Nat.eqb q pos) eqn:Eqp; [discriminate|].
        apply (IH c rows (S pos) next _ Et) in H.
        replace (Nat.max pos next) with (Nat.max (S pos) next) by lia. exact H.
      * apply Nat.ltb_ge in Ep. replace (Nat.max pos next) with pos by lia.
        destruct (llongest_at c (r :: t)) as [k0|] eqn:El2.
        -- destruct (Nat.eqb q pos) eqn:Eqp; simpl in H; [|discriminate].
           apply Nat.eqb_eq in Eqp. subst q.
           destruct (lvalid_b c (firstn k (r :: t)) w) eqn:Ev; simpl in H; [|discriminate].
           destruct (Nat.eqb k k0) eqn:Ek; simpl in H; [|discriminate].
           apply Nat.eqb_eq in Ek. subst k0. apply lvalid_b_iff in Ev.
           pose proof (lvalid_nonempty _ _ _ _ Ev) as Hk1.
           apply (IH c rows (S pos) _ _ Et) in H.
           pose proof (lskip_to_gt (l_skip c) pos k w Hk1) as Hgt.
           replace (Nat.max (S pos) (lskip_to (l_skip c) pos k w)) with (lskip_to (l_skip c) pos k w) in H by lia.
           apply llongest_at_some in El2. destruct El2 as [_ [_ M]].
           pose proof (skipn_len rows (r :: t) pos El) as Hlen.
           cbn [lexact]. rewrite El. split; [lia|]. split; [assumption|]. split; [|split].
           ++ intros k' w' Hk' Hle. apply M. rewrite Hlen. lia.
           ++ intros q' k' w' Hq'. lia.
           ++ exact H.
        -- destruct (Nat.eqb q pos) eqn:Eqp; [discriminate|]. apply Nat.eqb_neq in Eqp.
           apply (IH c rows (S pos) next _ Et) in H.
           replace (Nat.max (S pos) next) with (S pos) in H by lia.
           cbn [lexact] in H. destruct H as [H1 [H2 [H3 [H4 H5]]]]. cbn [lexact].
           split; [lia|]. split; [assumption|]. split; [assumption|]. split; [|assumption].
           intros q' k' w' Hq' V. destruct (Nat.eq_dec q' pos) as [->|Hne].
           ++ rewrite El in V. eapply llongest_at_none; eassumption.
           ++ apply (H4 q' k' w'); [lia|assumption].
Qed.

(* completeness: exact reports (lengths within the partition) raise no alarm *)
Lemma lscan_chk_complete : forall l c rows pos next ms, skipn pos rows = l ->
  Forall (fun m : lmatch => fst (fst m) + snd (fst m) <= length rows) ms ->
  lexact c rows (Nat.max pos next) ms -> lscan_chk c pos next l ms = None.
Proof.
  induction l as [|r t IH]; intros c rows pos next ms El Hin H.
  - simpl. destruct ms as [|[[q k] w] ms']; [reflexivity|]. exfalso. cbn [lexact] in H.
    destruct H as [Hq [V _]]. rewrite (skipn_nil_ge rows pos q El) in V by lia.
    destruct k; simpl in V; exact V.
  - pose proof (skipn_cons_nth rows pos r t El) as Et. simpl.
    destruct ms as [|[[q k] w] ms'].
    + destruct (Nat.ltb pos next) eqn:Ep.
      * apply Nat.ltb_lt in Ep. apply (IH c rows (S pos) next [] Et Hin).
        replace (Nat.max (S pos) next) with (Nat.max pos next) by lia. exact H.
      * apply Nat.ltb_ge in Ep. replace (Nat.max pos next) with pos in H by lia.
        destruct (llongest_at c (r :: t)) as [k0|] eqn:El2.
        -- exfalso. apply llongest_at_some in El2. destruct El2 as [_ [[w V] _]].
           cbn [lexact] in H. apply (H pos k0 w); [lia|]. rewrite El. exact V.
        -- apply (IH c rows (S pos) next [] Et Hin). cbn [lexact] in *. intros q k w Hq. apply H. lia.
    + cbn [lexact] in H. destruct H as [Hq [V [Hlong [Hbefore Hrest]]]].
      pose proof (Forall_inv Hin) as Hm. pose proof (Forall_inv_tail Hin) as Hin'. simpl in Hm.
      assert (Eq : Nat.ltb q pos = false) by (apply Nat.ltb_ge; lia). rewrite Eq.
      destruct (Nat.ltb pos next) eqn:Ep.
      * apply Nat.ltb_lt in Ep. assert (Eqp : Nat.eqb q pos = false) by (apply Nat.eqb_neq; lia).
        rewrite Eqp. apply (IH c rows (S pos) next _ Et Hin).
        replace (Nat.max (S pos) next) with (Nat.max pos next) by lia.
        cbn [lexact]. repeat split; assumption.
      * apply Nat.ltb_ge in Ep. replace (Nat.max pos next) with pos in * by lia.
        destruct (llongest_at c (r :: t)) as [k0|] eqn:El2.
        -- pose proof El2 as El3. apply llongest_at_some in El3. destruct El3 as [Hk0 [[w0 V0] M]].
           pose proof (skipn_len rows (r :: t) pos El) as Hlen.
           destruct (Nat.eq_dec q pos) as [->|Hne].
           ++ rewrite Nat.eqb_refl. simpl. rewrite El in V, Hlong.
              assert (Ev : lvalid_b c (firstn k (r :: t)) w = true) by (apply lvalid_b_iff; exact V).
              rewrite Ev. simpl.
              assert (Ek : k = k0).
              { destruct (lt_eq_lt_dec k k0) as [[Hlt|Heq]|Hgt]; [|assumption|].
                - exfalso. apply (Hlong k0 w0); [lia| |exact V0]. rewrite Hlen in Hk0. lia.
                - exfalso. apply (M k w); [|exact V]. rewrite Hlen. lia. }
              subst k0. rewrite Nat.eqb_refl. simpl.
              apply (IH c rows (S pos) _ _ Et Hin').
              pose proof (lvalid_nonempty _ _ _ _ V) as Hk1.
              pose proof (lskip_to_gt (l_skip c) pos k w Hk1) as Hgt.
              replace (Nat.max (S pos) (lskip_to (l_skip c) pos k w)) with (lskip_to (l_skip c) pos k w) by lia.
              exact Hrest.
           ++ exfalso. apply (Hbefore pos k0 w0); [lia|]. rewrite El. exact V0.
        -- destruct (Nat.eq_dec q pos) as [->|Hne].
           ++ exfalso. rewrite El in V. eapply llongest_at_none; eassumption.
           ++ assert (Eqp : Nat.eqb q pos = false) by (apply Nat.eqb_neq; assumption). rewrite Eqp.
              apply (IH c rows (S pos) next _ Et Hin).
              replace (Nat.max (S pos) next) with (S pos) by lia.
              cbn [lexact]. split; [lia|]. split; [assumption|]. split; [assumption|]. split; [|assumption].
              intros q' k' w' Hq'. apply Hbefore. lia.
Qed.

Theorem lscan_chk_iff : forall c rows ms,
  Forall (fun m : lmatch => fst (fst m) + snd (fst m) <= length rows) ms ->
  (lscan_chk c 0 0 rows ms = None <-> lexact c rows 0 ms).
Proof.
  intros c rows ms Hin. split; intro H.
  - apply (lscan_chk_sound rows c rows 0 0 ms eq_refl) in H. exact H.
  - apply (lscan_chk_complete rows c rows 0 0 ms eq_refl Hin). exact H.
Qed.

(* the extracted checker raises no alarm only if the reported matches can be located in the
   partition, are exact and MATCH_NUMBER counts 1,2,3.. *)
Theorem chk_C15L_sound : forall c rows out, chk_C15L c rows out = None ->
  exists ms, llocate_all rows out = Some ms /\ lexact c rows 0 ms /\ numbered 1 (map fst out) = true.
Proof.
  intros c rows out H. unfold chk_C15L in H.
  destruct (llocate_all rows out) as [ms|] eqn:El; [|discriminate].
  destruct (lscan_chk c 0 0 rows ms) eqn:Es; [discriminate|].
  destruct (numbered 1 (map fst out)) eqn:En; [|discriminate].
  exists ms. split; [reflexivity|]. split; [|reflexivity].
  apply (lscan_chk_sound rows c rows 0 0 ms eq_refl). exact Es.
Qed.

Lemma find_id_bound : forall rows i n j, find_id i rows n = Some j -> n <= j < n + length rows.
Proof.
  induction rows as [|r t IH]; intros i n j H; simpl in H; [discriminate|].
  destruct (Z.eqb (r_id r) i).
  - inversion H; subst. simpl. lia.
  - apply IH in H. simpl. lia.
Qed.

Lemma llocate_all_in_range : forall rows out ms, llocate_all rows out = Some ms ->
  Forall (fun m : lmatch => fst (fst m) + snd (fst m) <= length rows) ms.
Proof.
  intros rows out. induction out as [|[o w] t IH]; intros ms H; simpl in H.
  - inversion H; constructor.
  - destruct (locate rows o) as [[q k]|] eqn:El; [|discriminate].
    destruct (llocate_all rows t) as [ms'|] eqn:Et; [|discriminate].
    destruct (Nat.eqb (length w) k); [|discriminate]. inversion H; subst. constructor; [|apply IH; reflexivity].
    simpl. unfold locate in El. destruct o as [[[mn fid] lid] n].
    destruct (find_id fid rows 0) as [a|] eqn:Ea; [|discriminate].
    destruct (find_id lid rows 0) as [b|] eqn:Eb; [|discriminate].
    destruct (Nat.leb 1 n && Nat.eqb b (a + n - 1)) eqn:Ec; [|discriminate].
    inversion El; subst. apply andb_true_iff in Ec. destruct Ec as [E1 E2].
    apply Nat.leb_le in E1. apply Nat.eqb_eq in E2. apply find_id_bound in Eb. lia.
Qed.

(* ... and exactly then: the checker is silent iff the report is exact w.r.t. its own labels *)
Theorem chk_C15L_iff : forall c rows out,
  chk_C15L c rows out = None <->
  exists ms, llocate_all rows out = Some ms /\ lexact c rows 0 ms /\ numbered 1 (map fst out) = true.
Proof.
  intros c rows out. split; [apply chk_C15L_sound|].
  intros [ms [El [Hx Hn]]]. unfold chk_C15L. rewrite El.
  pose proof (llocate_all_in_range rows out ms El) as Hin.
  apply (lscan_chk_iff c rows ms Hin) in Hx. rewrite Hx, Hn. reflexivity.
Qed.
