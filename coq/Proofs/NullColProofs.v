(* Proofs about Model/NullCol.v: IS [NOT] NULL on a named column. *)
From SV Require Import Model.Like Model.NullCol.
From Coq Require Import Lia.

Lemma nc_bytes_eqb_eq (a b : bytes) : bytes_eqb a b = true <-> a = b.
Proof.
  revert b; induction a as [|x a IH]; intros [|y b]; cbn; split; intros H;
    try reflexivity; try discriminate.
  - apply andb_true_iff in H as [Hx Hab]. apply N.eqb_eq in Hx. apply IH in Hab. now subst.
  - injection H as -> ->. apply andb_true_iff; split; [apply N.eqb_refl|now apply IH].
Qed.

Lemma nc_bytes_eqb_neq (a b : bytes) : bytes_eqb a b = false <-> a <> b.
Proof.
  split.
  - intros H E. apply nc_bytes_eqb_eq in E. congruence.
  - intros H. destruct (bytes_eqb a b) eqn:E; [|reflexivity]. apply nc_bytes_eqb_eq in E. contradiction.
Qed.

(* keys of a row are pairwise different (a Go map) *)
Definition row_keys (r : c13_row) : list bytes := map fst r.

Lemma lookup_present_in n r :
  c13_lookup n r = Present -> exists v, In (n, Some v) r.
Proof.
  induction r as [|[k c] r IH]; cbn; [discriminate|].
  destruct (bytes_eqb k n) eqn:E.
  - apply nc_bytes_eqb_eq in E; subst k. destruct c as [v|]; [|discriminate].
    intros _. exists v. now left.
  - intros H. destruct (IH H) as [v Hv]. exists v. now right.
Qed.

Lemma in_lookup_present n v r :
  NoDup (row_keys r) -> In (n, Some v) r -> c13_lookup n r = Present.
Proof.
  induction r as [|[k c] r IH]; cbn; intros Hnd Hin; [contradiction|].
  inversion Hnd as [|? ? Hnotin Hnd']; subst.
  destruct Hin as [Heq|Hin].
  - injection Heq as -> ->. assert (E : bytes_eqb n n = true) by now apply nc_bytes_eqb_eq.
    now rewrite E.
  - destruct (bytes_eqb k n) eqn:E.
    + apply nc_bytes_eqb_eq in E; subst k. exfalso. apply Hnotin.
      unfold row_keys. change n with (fst (n, Some v)). now apply in_map.
    + now apply IH.
Qed.

(* IS NULL is false exactly when the row binds the column to a value *)
Lemma col_is_null_false_iff n r :
  NoDup (row_keys r) -> (col_is_null n r = false <-> exists v, In (n, Some v) r).
Proof.
  intros Hnd. unfold col_is_null. split.
  - intros H. apply lookup_present_in. destruct (c13_lookup n r); cbn in H; congruence.
  - intros [v Hv]. now rewrite (in_lookup_present n v r Hnd Hv).
Qed.

Lemma col_is_null_true_iff n r :
  NoDup (row_keys r) -> (col_is_null n r = true <-> forall v, ~ In (n, Some v) r).
Proof.
  intros Hnd. split.
  - intros H v Hv.
    assert (F : col_is_null n r = false) by (apply col_is_null_false_iff; [assumption|now exists v]).
    congruence.
  - intros H. destruct (col_is_null n r) eqn:E; [reflexivity|].
    apply col_is_null_false_iff in E; [|assumption]. destruct E as [v Hv]. now apply H in Hv.
Qed.

Lemma col_is_not_null_neg n r : col_is_not_null n r = negb (col_is_null n r).
Proof. reflexivity. Qed.

(* the spelling of the column is irrelevant: renaming the column consistently (in the predicate and
   in the row) by any injective renaming leaves the answer unchanged *)
Definition rename_row (f : bytes -> bytes) (r : c13_row) : c13_row :=
  map (fun kc => (f (fst kc), snd kc)) r.

Lemma lookup_rename (f : bytes -> bytes) :
  (forall a b, f a = f b -> a = b) ->
  forall n r, c13_lookup (f n) (rename_row f r) = c13_lookup n r.
Proof.
  intros Hinj n r. induction r as [|[k c] r IH]; cbn; [reflexivity|].
  destruct (bytes_eqb k n) eqn:E.
  - apply nc_bytes_eqb_eq in E; subst k.
    assert (E : bytes_eqb (f n) (f n) = true) by now apply nc_bytes_eqb_eq.
    now rewrite E.
  - assert (E' : bytes_eqb (f k) (f n) = false).
    { apply nc_bytes_eqb_neq. intros H. apply Hinj in H. apply nc_bytes_eqb_neq in E. contradiction. }
    now rewrite E'.
Qed.

Lemma col_is_null_rename (f : bytes -> bytes) :
  (forall a b, f a = f b -> a = b) ->
  forall n r, col_is_null (f n) (rename_row f r) = col_is_null n r.
Proof. intros Hinj n r. unfold col_is_null. now rewrite lookup_rename. Qed.

(* the value of a present column is irrelevant ('' , 0 and false are not NULL) *)
Definition revalue_row (g : bytes -> bytes) (r : c13_row) : c13_row :=
  map (fun kc => (fst kc, option_map g (snd kc))) r.

Lemma lookup_revalue g n r : c13_lookup n (revalue_row g r) = c13_lookup n r.
Proof.
  induction r as [|[k c] r IH]; cbn; [reflexivity|].
  destruct (bytes_eqb k n); [now destruct c|assumption].
Qed.

Lemma col_is_null_revalue g n r : col_is_null n (revalue_row g r) = col_is_null n r.
Proof. unfold col_is_null. now rewrite lookup_revalue. Qed.

(* other columns are irrelevant *)
Lemma lookup_other k c n r : k <> n -> c13_lookup n ((k, c) :: r) = c13_lookup n r.
Proof. intros H. cbn. apply nc_bytes_eqb_neq in H. now rewrite H. Qed.

(* the rewrite + expr-lang evaluation decides IS [NOT] NULL, for every operand name *)
Lemma sql_is_null_pred_correct neg n r :
  sql_is_null_pred neg n r = if neg then col_is_not_null n r else col_is_null n r.
Proof.
  unfold sql_is_null_pred, isnull_rewrite, col_is_not_null, col_is_null, is_not_null, is_null.
  destruct neg; cbn; now destruct (c13_lookup n r).
Qed.

Lemma sql_is_null_pred_negation n r :
  sql_is_null_pred true n r = negb (sql_is_null_pred false n r).
Proof. rewrite !sql_is_null_pred_correct. reflexivity. Qed.

(* ---- the aggregated CASE flags ---- *)
Lemma flag_partition n r : (c13_flag false n r + c13_flag true n r = 1)%N.
Proof.
  unfold c13_flag. rewrite sql_is_null_pred_negation.
  now destruct (sql_is_null_pred false n r).
Qed.

Lemma sum_flags_partition n rows :
  (c13_sum_flags false n rows + c13_sum_flags true n rows = N.of_nat (length rows))%N.
Proof.
  induction rows as [|r rows IH]; [reflexivity|].
  cbn [c13_sum_flags fold_right length]. fold (c13_sum_flags false n rows). fold (c13_sum_flags true n rows).
  rewrite Nat2N.inj_succ. pose proof (flag_partition n r) as Hf. lia.
Qed.

Lemma sum_flags_partition_ok n rows :
  c13_partition_ok (c13_sum_flags false n rows) (c13_sum_flags true n rows) (N.of_nat (length rows)) = true.
Proof. unfold c13_partition_ok. apply N.eqb_eq. apply sum_flags_partition. Qed.

Lemma sum_flags_count neg n rows :
  c13_sum_flags neg n rows =
  N.of_nat (length (filter (fun r => if neg then col_is_not_null n r else col_is_null n r) rows)).
Proof.
  induction rows as [|r rows IH]; [reflexivity|].
  cbn [c13_sum_flags fold_right filter]. fold (c13_sum_flags neg n rows). rewrite IH.
  unfold c13_flag. rewrite sql_is_null_pred_correct.
  destruct (if neg then col_is_not_null n r else col_is_null n r).
  - cbn [length]. rewrite Nat2N.inj_succ. lia.
  - lia.
Qed.

Lemma max_flags_exists neg n rows :
  c13_max_flags neg n rows = 1%N <->
  exists r, In r rows /\ (if neg then col_is_not_null n r else col_is_null n r) = true.
Proof.
  induction rows as [|r rows IH].
  - cbn. split; [discriminate|]. intros [r [[] _]].
  - cbn [c13_max_flags fold_right]. fold (c13_max_flags neg n rows).
    unfold c13_flag at 1. rewrite sql_is_null_pred_correct.
    destruct (if neg then col_is_not_null n r else col_is_null n r) eqn:E.
    + split; [intros _; exists r; split; [now left|exact E]|].
      intros _. assert (Hle : (c13_max_flags neg n rows <= 1)%N).
      { clear. induction rows as [|r' rows IH]; cbn; [lia|].
        fold (c13_max_flags neg n rows). unfold c13_flag. destruct (sql_is_null_pred neg n r'); lia. }
      lia.
    + rewrite N.max_0_l. rewrite IH. split.
      * intros [r' [Hin Hr']]. exists r'. split; [now right|exact Hr'].
      * intros [r' [[->|Hin] Hr']]; [congruence|]. exists r'. now split.
Qed.

Lemma min_flags_forall neg n rows :
  c13_min_flags neg n rows = 1%N <->
  forall r, In r rows -> (if neg then col_is_not_null n r else col_is_null n r) = true.
Proof.
  induction rows as [|r rows IH].
  - cbn. split; [intros _ r []|reflexivity].
  - cbn [c13_min_flags fold_right]. fold (c13_min_flags neg n rows).
    unfold c13_flag at 1. rewrite sql_is_null_pred_correct.
    destruct (if neg then col_is_not_null n r else col_is_null n r) eqn:E.
    + assert (Hle : (c13_min_flags neg n rows <= 1)%N).
      { clear. induction rows as [|r' rows IH]; cbn; [lia|].
        fold (c13_min_flags neg n rows). lia. }
      rewrite N.min_r by exact Hle. rewrite IH. split.
      * intros H r' [<-|Hin]; [exact E|now apply H].
      * intros H r' Hin. apply H. now right.
    + rewrite N.min_0_l. split; [discriminate|].
      intros H. specialize (H r (or_introl eq_refl)). congruence.
Qed.
