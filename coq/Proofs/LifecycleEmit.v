(* C18 -- Emit and Stop never deadlock: a producer inside Emit is released by Stop's shutdown signal.

   Go anchors: stream/strategy.go  BlockingStrategy.ProcessData (both branches: pure backpressure `BlockTimeout <= 0`
   = select { dataChan <- data ; <-done }, timed = the same select plus a timer), DropStrategy.ProcessData and
   ExpansionStrategy.ProcessData (every wait is a select that contains <-done); stream/stream.go Stop: close(s.done)
   right after the stopped flag, before anything that can wait.

   Model reading: once [closed] is true, EVERY own step of a producer (a thread inside Emit) is enabled with choice 2
   (= "the <-done branch of the select fires", or the straight-line step the pc has), whatever the shared state is --
   in particular with a full data channel that nobody drains any more -- and a producer run alone with that choice has
   returned after at most 6 own steps, for the three strategies, with or without a block timeout. Conversely a producer
   parked under pure backpressure on a full channel has NO other enabled step: the done branch is necessary. The Go
   harness tests the premise on the real code (family K: producers parked in Emit on a full channel while Stop runs). *)
From SV Require Import Model.Lifecycle Spec.LifecycleSpec Proofs.LifecycleProofs.
From Coq Require Import List Bool Arith Lia.
Import ListNotations.

Definition emit_own (p : lpc) : bool :=
  match p with
  | PdStart | PdDropGet | PdDropR _ | PdBlkGet | PdBlkSend | PdExpTry | PdExpGrow | PdExpTry2 | PdExpW _ | PdExpT _ => true
  | _ => false end.
Definition emit_rank (p : lpc) : nat :=
  match p with
  | PdStart => 6 | PdExpTry => 5 | PdExpGrow => 4 | PdExpTry2 => 3 | PdExpT _ => 2 | PdDropGet => 2 | PdBlkGet => 2
  | PdDropR _ => 1 | PdBlkSend => 1 | PdExpW _ => 1 | _ => 0 end.

Lemma safe_send_closed : forall s a s', lsafe_send s a = Some s' -> closed s' = closed s.
Proof. intros s a s' H. apply safe_send_eq in H. destruct H as [H _]. subst. reflexivity. Qed.

(* the transition of a producer's pc with choice 2 when done is closed: enabled, the rank decreases, done stays closed *)
Lemma emit_pstep_closed : forall c tid a s p, closed s = true -> emit_own p = true ->
  exists p' s' ev, lpstep c tid 2 p a s = Some (p', [], s', ev) /\ closed s' = true /\
                   emit_rank p' < emit_rank p /\ (emit_own p' = true \/ p' = LDone).
Proof.
  intros c tid a s p Hc Hp. destruct p; simpl in Hp; try discriminate; simpl.
  - (* PdStart *)
    destruct (c_strategy c).
    + destruct (lsafe_send s a) eqn:E.
      * exists LDone, l, [EEnq a]. rewrite (safe_send_closed _ _ _ E). simpl. repeat split; auto; lia.
      * exists PdDropGet, s, []. simpl. repeat split; auto; lia.
    + destruct (stopped s).
      * exists LDone, s, []. simpl. repeat split; auto; lia.
      * exists PdBlkGet, s, []. simpl. repeat split; auto; lia.
    + destruct (stopped s).
      * exists LDone, s, []. simpl. repeat split; auto; lia.
      * exists PdExpTry, s, []. simpl. repeat split; auto; lia.
  - (* PdDropGet *)
    destruct (ptr_nil s).
    + exists LDone, s, []. simpl. repeat split; auto; lia.
    + exists (PdDropR 3), s, []. simpl. repeat split; auto; lia.
  - (* PdDropR *)
    destruct n.
    + exists LDone, s, [EDropIn a]. simpl. repeat split; auto; lia.
    + rewrite Hc. exists LDone, s, []. simpl. repeat split; auto; lia.
  - (* PdBlkGet *)
    destruct (ptr_nil s).
    + exists LDone, s, []. simpl. repeat split; auto; lia.
    + exists PdBlkSend, s, []. simpl. repeat split; auto; lia.
  - (* PdBlkSend *)
    rewrite Hc. exists LDone, s, []. simpl. repeat split; auto; lia.
  - (* PdExpTry *)
    destruct (lsafe_send s a) eqn:E.
    + exists LDone, l, [EEnq a]. rewrite (safe_send_closed _ _ _ E). simpl. repeat split; auto; lia.
    + exists PdExpGrow, s, []. simpl. repeat split; auto; lia.
  - (* PdExpGrow *)
    exists PdExpTry2, s, []. simpl. repeat split; auto; lia.
  - (* PdExpTry2 *)
    destruct (lsafe_send s a) eqn:E.
    + exists LDone, l, [EEnq a]. rewrite (safe_send_closed _ _ _ E). simpl. repeat split; auto; lia.
    + exists (PdExpW 3), s, []. simpl. repeat split; auto; lia.
  - (* PdExpW *)
    destruct n.
    + exists LDone, s, [EDropIn a]. simpl. repeat split; auto; lia.
    + rewrite Hc. exists LDone, s, []. simpl. repeat split; auto; lia.
  - (* PdExpT *)
    destruct (lsafe_send s a) eqn:E.
    + exists LDone, l, [EEnq a]. rewrite (safe_send_closed _ _ _ E). simpl. repeat split; auto; lia.
    + exists (PdExpW (pred n)), s, []. simpl. repeat split; auto; lia.
Qed.

Lemma emit_never_waits_closed : forall c tid a s p, closed s = true -> emit_own p = true ->
  exists r, lpstep c tid 2 p a s = Some r.
Proof.
  intros c tid a s p Hc Hp. destruct (emit_pstep_closed c tid a s p Hc Hp) as [p' [s' [ev [H _]]]]. eauto.
Qed.

Lemma emit_own_step : forall c st tid a p, closed (sh st) = true ->
  nth_error (ths st) tid = Some (lmk p [] a) -> emit_own p = true ->
  exists st' p', lstep c tid 2 st = Some st' /\ nth_error (ths st') tid = Some (lmk p' [] a) /\
                 closed (sh st') = true /\ emit_rank p' < emit_rank p /\ (emit_own p' = true \/ p' = LDone).
Proof.
  intros c st tid a p Hc Hn Hp.
  destruct (emit_pstep_closed c tid a (sh st) p Hc Hp) as [p' [s' [ev [H [Hc' [Hr Ho]]]]]].
  unfold lstep. rewrite Hn. unfold ltstep. simpl. rewrite H.
  eexists. exists p'. split; [reflexivity|]. simpl. split.
  - eapply nth_error_set_nth_eq; eauto.
  - auto.
Qed.

Lemma done_stays_ch : forall c ch n st tid a, nth_error (ths st) tid = Some (lmk LDone [] a) ->
  lrun c (rep n (tid, ch)) st = st.
Proof.
  induction n; intros st tid a Hn; auto.
  change (lrun c (rep (S n) (tid, ch)) st) with (lrun c (rep n (tid, ch)) (lstep_or_skip c st (tid, ch))).
  assert (E : lstep_or_skip c st (tid, ch) = st).
  { unfold lstep_or_skip, lstep. simpl. rewrite Hn. rewrite done_never_steps. reflexivity. }
  rewrite E. apply IHn with (a := a). exact Hn.
Qed.

(* once done is closed a producer run alone (choice 2) has returned after at most [emit_rank] <= 6 own steps *)
Lemma emit_returns_alone : forall c n st tid a p, closed (sh st) = true ->
  nth_error (ths st) tid = Some (lmk p [] a) -> emit_own p = true -> emit_rank p <= n ->
  nth_error (ths (lrun c (rep n (tid, 2)) st)) tid = Some (lmk LDone [] a).
Proof.
  intros c n. induction n; intros st tid a p Hc Hn Hp Hr.
  - destruct p; simpl in Hp; try discriminate; simpl in Hr; lia.
  - change (lrun c (rep (S n) (tid, 2)) st) with (lrun c (rep n (tid, 2)) (lstep_or_skip c st (tid, 2))).
    destruct (emit_own_step c st tid a p Hc Hn Hp) as [st' [p' [Hs [Hn' [Hc' [Hlt Ho]]]]]].
    assert (E : lstep_or_skip c st (tid, 2) = st'). { unfold lstep_or_skip. simpl. rewrite Hs. reflexivity. }
    rewrite E.
    destruct Ho as [Ho|Ho].
    + apply IHn with (p := p'); auto. lia.
    + subst p'. rewrite (done_stays_ch c 2 n st' tid a Hn'). exact Hn'.
Qed.

(* ------------------------------------------------------------------ done, once closed, stays closed on every schedule *)
Lemma p_closed_mono : forall c tid ch p a S p' code' S' ev,
  lpstep c tid ch p a S = Some (p', code', S', ev) -> closed S = true -> closed S' = true.
Proof. intros c tid ch p a S p' code' S' ev H Hc. inv_p H; simpl in *; auto. Qed.
Lemma i_closed_mono : forall c tid i rest S code' S' ev,
  listep c tid i rest S = Some (code', S', ev) -> closed S = true -> closed S' = true.
Proof. intros c tid i rest S code' S' ev H Hc. inv_i H; simpl in *; auto. Qed.

Lemma lstep_closed_mono : forall c tid ch st st', lstep c tid ch st = Some st' ->
  closed (sh st) = true -> closed (sh st') = true.
Proof.
  intros c tid ch st st' H Hc. unfold lstep in H.
  destruct (nth_error (ths st) tid) as [th|]; try discriminate.
  unfold ltstep in H. destruct (t_code th) as [|i rest].
  - destruct (lpstep c tid ch (t_pc th) (t_arg th) (sh st)) as [[[[p' code'] s'] ev]|] eqn:E; try discriminate.
    inversion H; subst; simpl. eapply p_closed_mono; eauto.
  - destruct (listep c tid i rest (sh st)) as [[[code' s'] ev]|] eqn:E; try discriminate.
    inversion H; subst; simpl. eapply i_closed_mono; eauto.
Qed.

Lemma lrun_closed_mono : forall c sched st, closed (sh st) = true -> closed (sh (lrun c sched st)) = true.
Proof.
  intros c sched. induction sched as [|e r IH]; intros st Hc; auto.
  change (lrun c (e :: r) st) with (lrun c r (lstep_or_skip c st e)).
  apply IH. unfold lstep_or_skip. destruct (lstep c (fst e) (snd e) st) eqn:E; auto.
  eapply lstep_closed_mono; eauto.
Qed.

(* Emit and Stop never deadlock, model reading: once some Stop has closed done, then after ANY further interleaving,
   a thread that is anywhere inside Emit returns when run alone for 6 own steps -- whatever the data channel holds and
   whether or not anybody still drains it. *)
Lemma emit_released_by_stop : forall c st sched tid a p, closed (sh st) = true ->
  nth_error (ths (lrun c sched st)) tid = Some (lmk p [] a) -> emit_own p = true ->
  nth_error (ths (lrun c (sched ++ rep 6 (tid, 2)) st)) tid = Some (lmk LDone [] a).
Proof.
  intros c st sched tid a p Hc Hn Hp. unfold lrun. rewrite fold_left_app. fold (lrun c sched st).
  fold (lrun c (rep 6 (tid, 2)) (lrun c sched st)).
  apply emit_returns_alone with (p := p); auto.
  - apply lrun_closed_mono. exact Hc.
  - destruct p; simpl in Hp; try discriminate; simpl; lia.
Qed.

(* Stop closes done with its third own step, unconditionally (a Stop that finds the flag set returns instead: some other
   Stop has set it and closes done itself) *)
Lemma stop_closes_done : forall c st tid ch a, nth_error (ths st) tid = Some (lmk StClose [] a) ->
  exists st', lstep c tid ch st = Some st' /\ closed (sh st') = true /\ nth_error (ths st') tid = Some (lmk StWindow [] a).
Proof.
  intros c st tid ch a Hn. unfold lstep. rewrite Hn. unfold ltstep. simpl.
  eexists. split; [reflexivity|]. simpl. split; auto. eapply nth_error_set_nth_eq; eauto.
Qed.

(* the done branch is NECESSARY: a producer parked under pure backpressure (no block timeout) on a full channel has no
   enabled step at all unless done is closed, and then its only step is to return without touching anything *)
Lemma parked_needs_done : forall c tid ch a s r, c_block_timeout c = false -> dcap s <= length (dq s) ->
  lpstep c tid ch PdBlkSend a s = Some r -> closed s = true /\ r = (LDone, [], s, []).
Proof.
  intros c tid ch a s r Hb Hf H. simpl in H.
  destruct ch as [|[|ch]].
  - unfold lraw_send in H. assert (E : (length (dq s) <? dcap s) = false) by (apply Nat.ltb_ge; exact Hf).
    rewrite E in H. discriminate.
  - rewrite Hb in H. discriminate.
  - destruct (closed s); try discriminate. inversion H. auto.
Qed.

(* ------------------------------------------------------------------ witness (family K): strategy block, no timeout,
   a 1-slot channel. The processor (thread 0) takes row 1 and is inside a synchronous sink (never scheduled again until
   the end = the sink is stuck), row 2 fills the channel, the producer of row 3 (thread 3) is parked: no step enabled.
   Stop (thread 4) runs up to its join, which it cannot pass (the processor is still tracked); now the parked producer
   is enabled, returns with its row neither enqueued nor counted as dropped; then the sink returns, the processor exits,
   Stop joins. Accepted by the monitor. *)
Definition cfg_block : lcfg :=
  {| c_fixed_lock := true; c_track_sync := true; c_batch_recover := true; c_window := false; c_cep := false;
     c_strategy := SBlock; c_block_timeout := false; c_pool_cap := 1; c_max_cap := 4 |}.
Definition parked_state : lstate :=
  lrun cfg_block ([(0,0); (0,0)] ++ rep 3 (1,0) ++ [(0,0)] ++ rep 3 (0,0) ++ rep 3 (2,0) ++ rep 3 (3,0))
       (linit 1 [] [[]] [RProcessor; RProducer 1; RProducer 2; RProducer 3; RStopper]).
Definition parked_stopping : lstate := lrun cfg_block (rep 6 (4,0)) parked_state.
Definition parked_released : lstate := lrun cfg_block (rep 6 (3,2)) parked_stopping.
Definition parked_joined : lstate := lrun cfg_block (rep 6 (0,3) ++ rep 4 (4,0)) parked_released.
Lemma parked_released_ok :
  nth_error (ths parked_state) 3 = Some (lmk PdBlkSend [] 3) /\ dq (sh parked_state) = [2] /\
  lenabledb cfg_block 3 parked_state = false /\
  nth_error (ths parked_stopping) 4 = Some (lmk StJoin [] 0) /\ lstep cfg_block 4 0 parked_stopping = None /\
  lenabledb cfg_block 3 parked_stopping = true /\
  nth_error (ths parked_released) 3 = Some (lmk LDone [] 3) /\ dq (sh parked_released) = [2] /\
  rev (ltrace parked_joined) =
    [EEnq 1; EProc 1 false; ESinkBegin 0 false; EEnq 2; EStopBegin 4; ESinkEnd 0; EStopReturn 4 true] /\
  chk_state parked_joined = None /\ joined (sh parked_joined) = true.
Proof. vm_compute. repeat split; reflexivity. Qed.
