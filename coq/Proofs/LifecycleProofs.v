(* C18 -- proofs about the lifecycle protocol (Model/Lifecycle.v) and its monitor (Spec/LifecycleSpec.v). *)
From SV Require Import Model.Lifecycle Spec.LifecycleSpec.
From Coq Require Import List Bool Arith Lia.
Import ListNotations.

(* ------------------------------------------------------------------ lists *)
Lemma nth_error_set_nth_eq : forall A (l : list A) n x y, nth_error l n = Some y -> nth_error (lset_nth n x l) n = Some x.
Proof. induction l as [|a l IH]; intros [|n] x y H; simpl in *; try discriminate; eauto. Qed.
Lemma nth_error_set_nth_neq : forall A (l : list A) n m x, n <> m -> nth_error (lset_nth n x l) m = nth_error l m.
Proof. induction l as [|a l IH]; intros [|n] [|m] x H; simpl in *; try reflexivity; try congruence. apply IH; congruence. Qed.
Lemma length_set_nth : forall A (l : list A) n x, length (lset_nth n x l) = length l.
Proof. induction l as [|a l IH]; intros [|n] x; simpl; auto. Qed.
Lemma Forall_set_nth : forall A (P : A -> Prop) l n x, Forall P l -> P x -> Forall P (lset_nth n x l).
Proof. induction l as [|a l IH]; intros [|n] x Hl Hx; simpl; auto; inversion Hl; subst; constructor; auto. Qed.
Lemma Forall_nth_error : forall A (P : A -> Prop) l n x, Forall P l -> nth_error l n = Some x -> P x.
Proof. induction l as [|a l IH]; intros [|n] x Hl H; simpl in *; try discriminate; inversion Hl; subst; eauto. congruence. Qed.

(* sum of a per-lpc quantity over the threads *)
Fixpoint cnt (f : lpc -> nat) (l : list lthread) : nat :=
  match l with [] => 0 | t :: r => f (t_pc t) + cnt f r end.
Lemma total_weight_cnt : forall l, ltotal_weight l = cnt lweight l.
Proof. induction l; simpl; auto. Qed.
Lemma cnt_set_nth : forall f l n th th', nth_error l n = Some th ->
  cnt f (lset_nth n th' l) + f (t_pc th) = cnt f l + f (t_pc th').
Proof.
  induction l as [|a l IH]; intros [|n] th th' H; simpl in *; try discriminate.
  - inversion H; subst. lia.
  - specialize (IH _ _ th' H). lia.
Qed.
Lemma cnt_ge : forall f l n th, nth_error l n = Some th -> f (t_pc th) <= cnt f l.
Proof. induction l as [|a l IH]; intros [|n] th H; simpl in *; try discriminate. inversion H; subst; lia. specialize (IH _ _ H); lia. Qed.
Lemma cnt_zero : forall f l n th, cnt f l = 0 -> nth_error l n = Some th -> f (t_pc th) = 0.
Proof. intros. pose proof (cnt_ge f l n th H0). lia. Qed.

(* ------------------------------------------------------------------ classifications of pcs *)
Definition b2n (b : bool) : nat := if b then 1 else 0.
Definition in_stop (p : lpc) : bool :=
  match p with StFlag | StClose | StWindow | StNil | StJoin | StFlush | StFlushing | StReturn _ => true | _ => false end.
Definition after_flag (p : lpc) : bool :=
  match p with StClose | StWindow | StNil | StJoin | StFlush | StFlushing | StReturn _ => true | _ => false end.
Definition stop_working (p : lpc) : bool :=
  match p with StClose | StWindow | StNil | StJoin | StFlush | StFlushing => true | _ => false end.
Definition winner_pending (p : lpc) : bool :=
  match p with StClose | StWindow | StNil | StJoin | StReturn false => true | _ => false end.
Definition busy (p : lpc) : bool :=
  match p with PrBusy | CoBusy | WkBusy | StFlushing | SyBusyT | SyBusyU | RgBusy => true | _ => false end.
Definition is_rg (p : lpc) : bool := match p with RgBusy => true | _ => false end.
Definition is_syu (p : lpc) : bool := match p with SyBusyU => true | _ => false end.
Definition sinky (i : linstr) : bool :=
  match i with IRLock | IExpand _ | ISubmit _ | ICall _ _ | IAct _ | IEnd => true | _ => false end.
Definition codeok (th : lthread) : bool :=
  match t_code th with
  | [] => true
  | _ => busy (t_pc th) && (negb (is_rg (t_pc th)) || negb (existsb sinky (t_code th)))
  end.

Lemma existsb_sinky_unwind : forall r, existsb sinky (lunwind r) = true -> existsb sinky r = true.
Proof. induction r as [|i r IH]; simpl; auto. destruct i; simpl; auto; intros; rewrite ?IH; auto using orb_true_r. Qed.

(* ------------------------------------------------------------------ inversion of one lthread lstep *)
Lemma tstep_inv : forall c tid ch th S th' S' ev,
  ltstep c tid ch th S = Some (th', S', ev) ->
  (exists i rest code', t_code th = i :: rest /\ listep c tid i rest S = Some (code', S', ev)
                        /\ th' = lmk (t_pc th) code' (t_arg th))
  \/ (t_code th = [] /\ exists p' code', lpstep c tid ch (t_pc th) (t_arg th) S = Some (p', code', S', ev)
                        /\ th' = lmk p' code' (t_arg th)).
Proof.
  intros c tid ch th S th' S' ev H. unfold ltstep in H. destruct (t_code th) as [|i rest] eqn:Hc.
  - right. split; auto. destruct (lpstep c tid ch (t_pc th) (t_arg th) S) as [[[[p' code'] s'] e']|] eqn:Hp; try discriminate.
    inversion H; subst. eauto.
  - left. destruct (listep c tid i rest S) as [[[code' s'] e']|] eqn:Hi; try discriminate.
    inversion H; subst. exists i, rest, code'. auto.
Qed.

Lemma safe_send_eq : forall s a s', lsafe_send s a = Some s' -> s' = upd_q s (dq s ++ [a]) /\ stopped s = false.
Proof. unfold lsafe_send; intros s a s' H. destruct (stopped s); try discriminate. destruct (ptr_nil s); try discriminate.
  destruct (length (dq s) <? dcap s); try discriminate. inversion H; auto. Qed.
Lemma raw_send_eq : forall s a s', lraw_send s a = Some s' -> s' = upd_q s (dq s ++ [a]).
Proof. unfold lraw_send; intros s a s' H. destruct (length (dq s) <? dcap s); try discriminate. inversion H; auto. Qed.

(* brute-force case analysis of a lpstep / listep equation H *)
Ltac brute H :=
  simpl in H;
  repeat (match type of H with
          | context [match ?x with _ => _ end] => destruct x eqn:?; simpl in H
          end);
  try discriminate; inversion H; subst; clear H;
  repeat match goal with
         | E : lsafe_send _ _ = Some _ |- _ => apply safe_send_eq in E; destruct E; subst
         | E : lraw_send _ _ = Some _ |- _ => apply raw_send_eq in E; subst
         end.
Ltac inv_p H := match type of H with lpstep _ _ _ ?p _ _ = _ => destruct p end; brute H.
Ltac inv_i H := match type of H with listep _ _ ?i _ _ = _ => destruct i end; brute H.

Lemma p_weight : forall c tid ch p a S p' code' S' ev,
  lpstep c tid ch p a S = Some (p', code', S', ev) -> lweight p <= life S ->
  life S' + lweight p + tokens S = life S + lweight p' + tokens S'.
Proof. intros c tid ch p a S p' code' S' ev H Hw. inv_p H; simpl in *; try lia. Qed.
Lemma i_weight : forall c tid i rest S code' S' ev,
  listep c tid i rest S = Some (code', S', ev) -> life S' = life S /\ tokens S' = tokens S.
Proof. intros c tid i rest S code' S' ev H. inv_i H; simpl in *; auto. Qed.

(* ------------------------------------------------------------------ local facts about lpc transitions *)
Definition pev_ok (tid : nat) (p p' : lpc) (S : lshared) (ev : list levent) : Prop :=
  match ev with
  | [] => in_stop p' = in_stop p
  | [EStopBegin t] => t = tid /\ in_stop p = false /\ in_stop p' = true
  | [EStopReturn t j] => t = tid /\ p = StReturn j /\ p' = LDone
  | [ESinkBegin _ _] => False
  | [ESinkEnd _] => False
  | [ESyncBegin t] => t = tid /\ in_stop p' = in_stop p /\ (stopped S = true -> p' = SyEnd false)
  | [ESyncEnd t ok] => t = tid /\ p = SyEnd ok /\ p' = LDone
  | [ETimeout] => False
  | [EGoroutines _ _] => False
  | [EStopOver _] => False
  | [EEmitOver _] => False
  | [EStopAgainOver _] => False
  | [_] => in_stop p' = in_stop p
  | _ => False
  end.

Lemma p_code : forall c tid ch p a S p' code' S' ev,
  lpstep c tid ch p a S = Some (p', code', S', ev) -> code' = [] \/ (busy p' = true /\ is_rg p' = false).
Proof. intros c tid ch p a S p' code' S' ev H. inv_p H; simpl; auto. Qed.

Lemma p_syu : forall c tid ch p a S p' code' S' ev, c_track_sync c = true ->
  lpstep c tid ch p a S = Some (p', code', S', ev) -> is_syu p' = false.
Proof. intros c tid ch p a S p' code' S' ev Ht H. inv_p H; simpl; auto; congruence. Qed.

Lemma p_mono : forall c tid ch p a S p' code' S' ev,
  lpstep c tid ch p a S = Some (p', code', S', ev) ->
  (stopped S = true -> stopped S' = true) /\ (joined S = true -> joined S' = true).
Proof. intros c tid ch p a S p' code' S' ev H. inv_p H; simpl; split; intros; auto; congruence. Qed.

Lemma p_ev : forall c tid ch p a S p' code' S' ev, c_track_sync c = true ->
  lpstep c tid ch p a S = Some (p', code', S', ev) -> pev_ok tid p p' S ev.
Proof. intros c tid ch p a S p' code' S' ev Ht H. inv_p H; simpl; auto; try congruence; repeat split; auto; congruence. Qed.

Lemma p_after_flag : forall c tid ch p a S p' code' S' ev,
  lpstep c tid ch p a S = Some (p', code', S', ev) -> after_flag p' = true -> after_flag p = true \/ stopped S' = true.
Proof. intros c tid ch p a S p' code' S' ev H. inv_p H; simpl; auto. Qed.

Lemma p_joined : forall c tid ch p a S p' code' S' ev,
  lpstep c tid ch p a S = Some (p', code', S', ev) -> joined S' = true -> joined S = true \/ (life S' = 0 /\ p = StJoin).
Proof. intros c tid ch p a S p' code' S' ev H. inv_p H; simpl; auto. Qed.

Lemma p_winner : forall c tid ch p a S p' code' S' ev,
  lpstep c tid ch p a S = Some (p', code', S', ev) -> winner_pending p = true ->
  winner_pending p' = true \/ joined S' = true \/ ev = [EStopReturn tid false].
Proof. intros c tid ch p a S p' code' S' ev H. inv_p H; simpl; intros; auto; try discriminate; try congruence.
  destruct join; try discriminate; auto. Qed.

Lemma p_winner_new : forall c tid ch p a S p' code' S' ev,
  lpstep c tid ch p a S = Some (p', code', S', ev) -> stopped S = false -> stopped S' = true -> winner_pending p' = true.
Proof. intros c tid ch p a S p' code' S' ev H. inv_p H; simpl; auto; congruence. Qed.

Lemma p_working : forall c tid ch p a S p' code' S' ev,
  lpstep c tid ch p a S = Some (p', code', S', ev) -> stop_working p' = true -> stop_working p = true \/ stopped S = false.
Proof. intros c tid ch p a S p' code' S' ev H. inv_p H; simpl; auto; try discriminate. Qed.

Lemma p_late : forall c tid ch p a S p' code' S' ev,
  lpstep c tid ch p a S = Some (p', code', S', ev) -> p = SyEnd false \/ p = LDone -> p' = LDone.
Proof. intros c tid ch p a S p' code' S' ev H [E|E]; subst; simpl in H; inversion H; auto. Qed.

Lemma p_life0 : forall c tid ch p a S p' code' S' ev, c_track_sync c = true ->
  lpstep c tid ch p a S = Some (p', code', S', ev) -> stopped S = true -> life S = 0 -> life S' = 0.
Proof. intros c tid ch p a S p' code' S' ev Ht H Hs Hl. inv_p H; simpl in *; try lia; try congruence. Qed.

(* ------------------------------------------------------------------ local facts about instructions *)
Lemma i_flags : forall c tid i rest S code' S' ev,
  listep c tid i rest S = Some (code', S', ev) -> stopped S' = stopped S /\ joined S' = joined S.
Proof. intros c tid i rest S code' S' ev H. inv_i H; simpl in *; auto. Qed.

Lemma existsb_sinky_calls_false : forall l, existsb sinky l = false -> True. Proof. auto. Qed.

Lemma i_sinky : forall c tid i rest S code' S' ev,
  listep c tid i rest S = Some (code', S', ev) -> existsb sinky code' = true -> existsb sinky (i :: rest) = true.
Proof.
  intros c tid i rest S code' S' ev H. inv_i H; simpl in *; auto; intros E.
  all: try (apply existsb_sinky_unwind; auto; fail).
Qed.

Definition iev_ok (tid : nat) (i : linstr) (ev : list levent) : Prop :=
  match ev with
  | [] => True
  | [ESinkBegin t fl] => t = tid /\ exists k, i = ICall k fl
  | [ESinkEnd t] => t = tid /\ i = IEnd
  | _ => False
  end.
Lemma i_ev : forall c tid i rest S code' S' ev, listep c tid i rest S = Some (code', S', ev) -> iev_ok tid i ev.
Proof. intros c tid i rest S code' S' ev H. inv_i H; simpl; eauto. Qed.

(* ------------------------------------------------------------------ the barrier invariant *)
Lemma cnt_le : forall (f g : lpc -> nat) l, (forall p, f p <= g p) -> cnt f l <= cnt g l.
Proof. induction l; simpl; intros; auto. specialize (IHl H). specialize (H (t_pc a)). lia. Qed.

Lemma monr_app_inr : forall l l' x, lmonr l = inr x -> lmonr (l' ++ l) = inr x.
Proof. induction l'; simpl; intros; auto. rewrite (IHl' x); auto. Qed.

Definition fin_stop := fun p => b2n (in_stop p).
Definition faf := fun p => b2n (after_flag p).
Definition fsw := fun p => b2n (stop_working p).
Definition fwp := fun p => b2n (winner_pending p).
Definition fsyu := fun p => b2n (is_syu p).

Record Rel (m : lmon) (st : lstate) : Prop := {
  rA : life (sh st) = cnt lweight (ths st) + tokens (sh st);
  rB : Forall (fun th => codeok th = true) (ths st);
  rC : cnt fsyu (ths st) = 0;
  rF : m_in m = cnt fin_stop (ths st);
  rK : 1 <= cnt faf (ths st) -> stopped (sh st) = true;
  rG : 1 <= m_ret m -> stopped (sh st) = true;
  rH : joined (sh st) = true -> life (sh st) = 0 /\ stopped (sh st) = true;
  rJ : stopped (sh st) = true -> joined (sh st) = true \/ 1 <= cnt fwp (ths st);
  rD : m_bar m = true -> joined (sh st) = true;
  rE : m_bar m = true -> cnt fsw (ths st) = 0;
  rL : forall t, In t (m_late m) ->
       exists th, nth_error (ths st) t = Some th /\ (t_pc th = SyEnd false \/ t_pc th = LDone)
}.

Definition Inv (st : lstate) : Prop :=
  lmonr (ltrace st) = inr ClStopGrace \/ exists m, lmonr (ltrace st) = inl m /\ Rel m st.

Lemma existsb_eqb_In : forall t l, existsb (Nat.eqb t) l = true -> In t l.
Proof. intros t l H. apply existsb_exists in H. destruct H as [x [Hx E]]. apply Nat.eqb_eq in E. subst; auto. Qed.

Lemma wp_af : forall dq, winner_pending dq = true -> after_flag dq = true.
Proof. intros dq H; destruct dq; simpl in *; auto; discriminate. Qed.
Lemma wp_le_in : forall dq, fwp dq <= fin_stop dq.
Proof. intros dq; destruct dq; unfold fwp, fin_stop; simpl; try lia. all: match goal with b : bool |- _ => destruct b end; simpl; lia. Qed.
Lemma sw_le_in : forall dq, fsw dq <= fin_stop dq.
Proof. intros dq; destruct dq; unfold fsw, fin_stop; simpl; lia. Qed.

Section Barrier.
Variable c : lcfg.
Hypothesis Htrack : c_track_sync c = true.

(* an instruction lstep: the lpc does not move, flags and the counter stay *)
Lemma Rel_istep : forall m st tid th i rest code' S' ev,
  Rel m st -> nth_error (ths st) tid = Some th -> t_code th = i :: rest ->
  listep c tid i rest (sh st) = Some (code', S', ev) ->
  (forall t fl, ev = [ESinkBegin t fl] -> m_bar m = false) /\
  (forall t, ev = [ESinkEnd t] -> m_bar m = false) /\
  Rel m {| sh := S'; ths := lset_nth tid (lmk (t_pc th) code' (t_arg th)) (ths st); ltrace := rev ev ++ ltrace st |}.
Proof.
  intros m st tid th i rest code' S' ev R Hn Hc Hi.
  assert (Hcnt : forall f, cnt f (lset_nth tid (lmk (t_pc th) code' (t_arg th)) (ths st)) = cnt f (ths st)).
  { intro f. pose proof (cnt_set_nth f _ _ _ (lmk (t_pc th) code' (t_arg th)) Hn) as E. simpl in E. lia. }
  destruct (i_weight _ _ _ _ _ _ _ _ Hi) as [Hl Ht]. destruct (i_flags _ _ _ _ _ _ _ _ Hi) as [Hs Hj].
  pose proof (Forall_nth_error _ _ _ _ _ (rB _ _ R) Hn) as Hok. simpl in Hok.
  unfold codeok in Hok. rewrite Hc in Hok. apply andb_true_iff in Hok. destruct Hok as [Hbusy Hrg].
  assert (NoBar : sinky i = true -> m_bar m = false).
  { intro Sk.
    destruct (m_bar m) eqn:Hb; auto. exfalso.
    pose proof (rD _ _ R Hb) as J. destruct (rH _ _ R J) as [L0 _].
    pose proof (rA _ _ R) as A. assert (W : cnt lweight (ths st) = 0) by lia.
    pose proof (cnt_zero _ _ _ _ W Hn) as W0.
    pose proof (cnt_zero _ _ _ _ (rE _ _ R Hb) Hn) as E0. pose proof (cnt_zero _ _ _ _ (rC _ _ R) Hn) as C0.
    unfold fsw, fsyu in *. simpl in Hrg. rewrite Sk in Hrg. simpl in Hrg.
    destruct (t_pc th); simpl in *; try discriminate; try lia. }
  split; [|split].
  - intros t fl E. subst ev. pose proof (i_ev _ _ _ _ _ _ _ _ Hi) as Hev. simpl in Hev. destruct Hev as [_ [k Ek]]. subst i.
    apply NoBar. reflexivity.
  - intros t E. subst ev. pose proof (i_ev _ _ _ _ _ _ _ _ Hi) as Hev. simpl in Hev. destruct Hev as [_ Ek]. subst i.
    apply NoBar. reflexivity.
  - constructor; simpl; rewrite ?Hcnt, ?Hl, ?Ht, ?Hs, ?Hj; try apply R.
    + apply Forall_set_nth; [apply R|]. unfold codeok; simpl. destruct code' as [|i' r'] eqn:Ec; auto.
      rewrite Hbusy. simpl. destruct (is_rg (t_pc th)) eqn:Erg; simpl; auto.
      destruct (existsb sinky (i' :: r')) eqn:Es'.
      * rewrite (i_sinky _ _ _ _ _ _ _ _ Hi Es') in Hrg. simpl in Hrg. discriminate.
      * simpl in Es'. rewrite Es'. reflexivity.
    + intros t Ht'. destruct (rL _ _ R t Ht') as [th0 [N0 P0]]. destruct (Nat.eq_dec tid t) as [Ee|Ne].
      * subst t. rewrite Hn in N0. inversion N0; subst th0. exists (lmk (t_pc th) code' (t_arg th)). split; auto.
        eapply nth_error_set_nth_eq; eauto.
      * exists th0. rewrite nth_error_set_nth_neq; auto.
Qed.

Lemma b2n_le1 : forall b, b2n b <= 1. Proof. destruct b; simpl; lia. Qed.

Lemma Rel_pstep : forall m st tid ch th p' code' S' ev,
  Rel m st -> lmonr (ltrace st) = inl m ->
  nth_error (ths st) tid = Some th -> t_code th = [] ->
  lpstep c tid ch (t_pc th) (t_arg th) (sh st) = Some (p', code', S', ev) ->
  Inv {| sh := S'; ths := lset_nth tid (lmk p' code' (t_arg th)) (ths st); ltrace := rev ev ++ ltrace st |}.
Proof.
  intros m st tid ch th p' code' S' ev R Hm Hn Hc Hp.
  set (T := ths st) in *. set (T' := lset_nth tid (lmk p' code' (t_arg th)) T).
  set (p := t_pc th) in *. set (S := sh st) in *.
  assert (Hcnt : forall f, cnt f T' + f p = cnt f T + f p').
  { intro f. apply (cnt_set_nth f T tid th (lmk p' code' (t_arg th)) Hn). }
  pose proof (rA _ _ R) as A. fold T S in A.
  assert (Hwle : lweight p <= life S). { pose proof (cnt_ge lweight T tid th Hn). fold p in H. lia. }
  pose proof (p_weight _ _ _ _ _ _ _ _ _ _ Hp Hwle) as PW.
  destruct (p_mono _ _ _ _ _ _ _ _ _ _ Hp) as [MS MJ].
  pose proof (p_ev _ _ _ _ _ _ _ _ _ _ Htrack Hp) as PE.
  assert (A' : life S' = cnt lweight T' + tokens S'). { pose proof (Hcnt lweight). lia. }
  assert (B' : Forall (fun th => codeok th = true) T').
  { apply Forall_set_nth; [apply R|]. unfold codeok; simpl. destruct code' as [|i' r'] eqn:Ec; auto.
    destruct (p_code _ _ _ _ _ _ _ _ _ _ Hp) as [E|[E1 E2]]; [discriminate|]. rewrite E1, E2. reflexivity. }
  assert (C' : cnt fsyu T' = 0).
  { pose proof (Hcnt fsyu) as E. pose proof (rC _ _ R) as C0. fold T in C0. change (fsyu p') with (b2n (is_syu p')) in E.
    rewrite (p_syu _ _ _ _ _ _ _ _ _ _ Htrack Hp) in E. simpl in E. lia. }
  assert (K' : 1 <= cnt faf T' -> stopped S' = true).
  { intro G. pose proof (Hcnt faf) as E. pose proof (rK _ _ R) as K0. fold T S in K0.
    destruct (after_flag p') eqn:Ea.
    - destruct (p_after_flag _ _ _ _ _ _ _ _ _ _ Hp Ea) as [E1|E1]; auto.
      apply MS, K0. pose proof (cnt_ge faf T tid th Hn) as G1. fold p in G1. change (faf p) with (b2n (after_flag p)) in G1. rewrite E1 in G1. simpl in G1. lia.
    - apply MS, K0. change (faf p') with (b2n (after_flag p')) in E. rewrite Ea in E. simpl in E. lia. }
  assert (Kp : after_flag p = true -> stopped S = true).
  { intro E1. apply (rK _ _ R). pose proof (cnt_ge faf T tid th Hn) as G1. fold p in G1. change (faf p) with (b2n (after_flag p)) in G1. rewrite E1 in G1. simpl in G1. fold T. lia. }
  assert (H' : joined S' = true -> life S' = 0 /\ stopped S' = true).
  { intro J. destruct (p_joined _ _ _ _ _ _ _ _ _ _ Hp J) as [J0|[L0 Ej]].
    - destruct (rH _ _ R J0) as [L0 S0]. fold S in L0, S0. split; auto. eapply p_life0; eauto.
    - split; auto. apply MS, Kp. rewrite Ej. reflexivity. }
  assert (J' : ev <> [EStopReturn tid false] -> stopped S' = true -> joined S' = true \/ 1 <= cnt fwp T').
  { intros Nev St'. pose proof (Hcnt fwp) as E. destruct (stopped S) eqn:St.
    - destruct (rJ _ _ R St) as [J0|W0]; [left; auto|]. fold T in W0.
      destruct (winner_pending p) eqn:Ew.
      + destruct (p_winner _ _ _ _ _ _ _ _ _ _ Hp Ew) as [E1|[E1|E1]]; [|left; exact E1|contradiction].
        right. change (fwp p) with (b2n (winner_pending p)) in E. change (fwp p') with (b2n (winner_pending p')) in E. rewrite Ew, E1 in E. simpl in E. lia.
      + right. change (fwp p) with (b2n (winner_pending p)) in E. rewrite Ew in E. simpl in E. lia.
    - right. pose proof (p_winner_new _ _ _ _ _ _ _ _ _ _ Hp St St') as E1. change (fwp p') with (b2n (winner_pending p')) in E. rewrite E1 in E.
      simpl in E. change (fwp p) with (b2n (winner_pending p)) in E.
      destruct (winner_pending p) eqn:Ew; simpl in E; [|lia]. exfalso.
      pose proof (Kp (wp_af _ Ew)) as Fa. congruence. }
  assert (E' : joined S = true -> cnt fsw T = 0 -> cnt fsw T' = 0).
  { intros J0 E0. pose proof (Hcnt fsw) as E. destruct (rH _ _ R J0) as [_ S0]. fold S in S0.
    pose proof (cnt_zero fsw T tid th E0 Hn) as Z. fold p in Z.
    destruct (stop_working p') eqn:Ew.
    - destruct (p_working _ _ _ _ _ _ _ _ _ _ Hp Ew) as [E1|E1]; [|congruence]. change (fsw p) with (b2n (stop_working p)) in Z. rewrite E1 in Z. discriminate.
    - change (fsw p') with (b2n (stop_working p')) in E. rewrite Ew in E. simpl in E. lia. }
  assert (L' : forall t, (exists th0, nth_error T t = Some th0 /\ (t_pc th0 = SyEnd false \/ t_pc th0 = LDone)) ->
                         exists th0, nth_error T' t = Some th0 /\ (t_pc th0 = SyEnd false \/ t_pc th0 = LDone)).
  { intros t [th0 [N0 P0]]. destruct (Nat.eq_dec tid t) as [Ee|Ne].
    - subst t. rewrite Hn in N0. inversion N0; subst th0. exists (lmk p' code' (t_arg th)). split.
      + eapply nth_error_set_nth_eq; eauto.
      + right. simpl. eapply p_late; eauto.
    - exists th0. unfold T'. rewrite nth_error_set_nth_neq; auto. }
  (* the part of Rel that does not depend on the monitor *)
  assert (Build : forall m',
     m_in m' = cnt fin_stop T' -> (1 <= m_ret m' -> stopped S' = true) ->
     (stopped S' = true -> joined S' = true \/ 1 <= cnt fwp T') ->
     (m_bar m' = true -> joined S' = true) -> (m_bar m' = true -> cnt fsw T' = 0) ->
     (forall t, In t (m_late m') -> exists th0, nth_error T' t = Some th0 /\ (t_pc th0 = SyEnd false \/ t_pc th0 = LDone)) ->
     Rel m' {| sh := S'; ths := T'; ltrace := rev ev ++ ltrace st |}).
  { intros. constructor; simpl; auto. }
  pose proof (rF _ _ R) as F0. fold T in F0. pose proof (Hcnt fin_stop) as EF.
  assert (G0 : 1 <= m_ret m -> stopped S' = true). { intro G. apply MS. apply (rG _ _ R G). }
  assert (D0 : m_bar m = true -> joined S' = true). { intro G. apply MJ. apply (rD _ _ R G). }
  assert (E0 : m_bar m = true -> cnt fsw T' = 0). { intro G. apply E'. apply (rD _ _ R G). apply (rE _ _ R G). }
  assert (L0 : forall t, In t (m_late m) -> exists th0, nth_error T' t = Some th0 /\ (t_pc th0 = SyEnd false \/ t_pc th0 = LDone)).
  { intros t Ht. apply L'. apply (rL _ _ R t Ht). }
  (* same monitor lstate *)
  assert (Same : in_stop p' = in_stop p -> ev <> [EStopReturn tid false] -> Rel m {| sh := S'; ths := T'; ltrace := rev ev ++ ltrace st |}).
  { intros Ei Nev. apply Build; auto. change (fin_stop p) with (b2n (in_stop p)) in EF. change (fin_stop p') with (b2n (in_stop p')) in EF. rewrite Ei in EF. lia. }
  unfold Inv. simpl.
  destruct ev as [|e [|e2 ev2]]; simpl in PE; try contradiction.
  - right. exists m. simpl. split; auto. apply Same; auto. discriminate.
  - simpl. rewrite Hm. destruct e; simpl in PE; try contradiction.
    + (* EStopBegin *) destruct PE as [-> [E1 E2]]. right. eexists. split; [reflexivity|].
      apply Build; simpl; [ | exact G0 | apply J'; discriminate | exact D0 | exact E0 | exact L0 ].
      change (fin_stop p) with (b2n (in_stop p)) in EF. change (fin_stop p') with (b2n (in_stop p')) in EF. rewrite E1, E2 in EF. simpl in EF. lia.
    + (* EStopReturn *) destruct PE as [-> [E1 E2]]. simpl. destruct join; simpl; [|left; reflexivity].
      right. eexists. split; [reflexivity|].
      assert (Sp : stopped S = true). { apply Kp. rewrite E1. reflexivity. }
      assert (EF' : cnt fin_stop T' + 1 = cnt fin_stop T). { change (fin_stop p) with (b2n (in_stop p)) in EF. change (fin_stop p') with (b2n (in_stop p')) in EF. rewrite E1, E2 in EF. simpl in EF. lia. }
      assert (NewBar : Nat.eqb (pred (m_in m)) 0 = true -> joined S' = true /\ cnt fsw T' = 0).
      { intro Eq. apply Nat.eqb_eq in Eq. assert (Z : cnt fin_stop T' = 0) by lia.
        assert (Zw : cnt fwp T' = 0).
        { pose proof (cnt_le fwp fin_stop T' wp_le_in) as Le. lia. }
        assert (Zs : cnt fsw T' = 0).
        { pose proof (cnt_le fsw fin_stop T' sw_le_in) as Le. lia. }
        split; auto. destruct (J' ltac:(discriminate) (MS Sp)) as [Jd|Jd]; auto. lia. }
      apply Build; simpl; [ lia | intros _; exact (MS Sp) | apply J'; discriminate | | | exact L0 ].
      * intro Hb. apply orb_true_iff in Hb. destruct Hb as [Hb|Hb]; [apply D0; exact Hb | apply NewBar; exact Hb].
      * intro Hb. apply orb_true_iff in Hb. destruct Hb as [Hb|Hb]; [apply E0; exact Hb | apply NewBar; exact Hb].
    + (* ESyncBegin *) destruct PE as [-> [E1 E2]]. simpl. destruct (m_bar m) eqn:Hb.
      * right. eexists. split; [reflexivity|].
        apply Build; simpl; [ | exact G0 | apply J'; discriminate | intros _; apply D0; reflexivity | intros _; apply E0; reflexivity | ].
        -- change (fin_stop p) with (b2n (in_stop p)) in EF. change (fin_stop p') with (b2n (in_stop p')) in EF. rewrite E1 in EF. lia.
        -- intros t [Et|Ht]; [|apply L0; exact Ht]. subst t. destruct (rH _ _ R (rD _ _ R Hb)) as [_ S0]. fold S in S0.
           exists (lmk p' code' (t_arg th)). split. { eapply nth_error_set_nth_eq; eauto. } left. simpl. auto.
      * right. exists m. split; auto. apply Same; auto. discriminate.
    + (* ESyncEnd *) destruct PE as [-> [E1 E2]].
      assert (Hnot : ok && existsb (Nat.eqb tid) (m_late m) = false).
      { destruct ok; simpl; auto. destruct (existsb (Nat.eqb tid) (m_late m)) eqn:Ex; auto. exfalso.
        apply existsb_eqb_In in Ex. destruct (rL _ _ R _ Ex) as [th0 [N0 P0]]. fold T in N0. rewrite Hn in N0. inversion N0; subst th0.
        fold p in P0. rewrite E1 in P0. destruct P0; discriminate. }
      simpl. rewrite Hnot. right. exists m. split; auto. apply Same; [rewrite E1, E2; reflexivity | discriminate].
    + (* EProc *) right. exists m. split; auto. apply Same; auto. discriminate.
    + right. exists m. split; auto. apply Same; auto. discriminate.
    + right. exists m. split; auto. apply Same; auto. discriminate.
  - exfalso. destruct e; simpl in PE; contradiction.
Qed.
End Barrier.

(* ------------------------------------------------------------------ the invariant along every schedule *)
Lemma Inv_step : forall c tid ch st st', c_track_sync c = true -> Inv st -> lstep c tid ch st = Some st' -> Inv st'.
Proof.
  intros c tid ch st st' Ht I H. unfold lstep in H.
  destruct (nth_error (ths st) tid) as [th|] eqn:Hn; try discriminate.
  destruct (ltstep c tid ch th (sh st)) as [[[th' S'] ev]|] eqn:Hs; try discriminate.
  inversion H; subst; clear H.
  destruct I as [G|[m [Hm R]]].
  - left. simpl. apply monr_app_inr; auto.
  - destruct (tstep_inv _ _ _ _ _ _ _ _ Hs) as [[i [rest [code' [Hc [Hi E]]]]]|[Hc [p' [code' [Hp E]]]]]; subst th'.
    + destruct (Rel_istep c m st tid th i rest code' S' ev R Hn Hc Hi) as [Hsb [Hse R']].
      right. exists m. split; auto. simpl.
      pose proof (i_ev _ _ _ _ _ _ _ _ Hi) as Hev.
      destruct ev as [|e [|e2 ev2]]; simpl in *; auto; try contradiction.
      * rewrite Hm. destruct e; simpl in Hev; try contradiction; simpl; auto.
        -- rewrite (Hsb _ _ eq_refl). reflexivity.
        -- rewrite (Hse _ eq_refl). reflexivity.
      * destruct e; contradiction.
    + eapply Rel_pstep; eauto.
Qed.

Lemma cnt_spawn_zero : forall f roles, (forall r, f (t_pc (lspawn r)) = 0) -> cnt f (map lspawn roles) = 0.
Proof. induction roles; simpl; intros; auto. rewrite H, IHroles; auto. Qed.

Lemma Inv_init : forall cap0 async sync roles, Inv (linit cap0 async sync roles).
Proof.
  intros. right. exists lmon0. split; [reflexivity|].
  assert (Z : forall f, (forall r, f (t_pc (lspawn r)) = 0) -> cnt f (map lspawn roles) = 0) by (intros; apply cnt_spawn_zero; auto).
  constructor; simpl; try discriminate; try (intros; contradiction).
  - rewrite total_weight_cnt. lia.
  - apply Forall_forall. intros th Hin. apply in_map_iff in Hin. destruct Hin as [r [E _]]. subst th. destruct r; reflexivity.
  - apply Z. intros []; reflexivity.
  - symmetry. apply Z. intros []; reflexivity.
  - intro G. rewrite Z in G; [lia|]. intros []; reflexivity.
  - intro G. lia.
Qed.

Lemma Inv_run : forall c sched st, c_track_sync c = true -> Inv st -> Inv (lrun c sched st).
Proof.
  intros c sched. induction sched as [|e r IH]; intros st Ht I; simpl; auto.
  apply IH; auto. unfold lstep_or_skip. destruct (lstep c (fst e) (snd e) st) eqn:E; auto. eapply Inv_step; eauto.
Qed.

(* stop_barrier: on every schedule of every configuration of the repaired protocol, the observable ltrace
   satisfies the monitor; the only thing that can go "wrong" is that a Stop gave up after its grace period. *)
Theorem stop_barrier : forall c cap0 async sync roles sched, c_track_sync c = true ->
  chk_state (lrun c sched (linit cap0 async sync roles)) = None \/
  chk_state (lrun c sched (linit cap0 async sync roles)) = Some ClStopGrace.
Proof.
  intros. unfold chk_state. destruct (Inv_run c sched _ H (Inv_init cap0 async sync roles)) as [G|[m [G _]]]; rewrite G; auto.
Qed.

(* lstate form: once some Stop went through the drained branch of waitLifecycle, the lifecycle counter is
   0 for ever, no tracked goroutine is alive, no consumer goroutine is pending, and no lthread of the system
   has a lsink invocation (or anything that leads to one) left to execute. *)
Theorem joined_drained : forall c cap0 async sync roles sched, c_track_sync c = true ->
  let st := lrun c sched (linit cap0 async sync roles) in
  chk_state st = None -> joined (sh st) = true ->
  life (sh st) = 0 /\ tokens (sh st) = 0 /\ stopped (sh st) = true /\ cnt lweight (ths st) = 0.
Proof.
  intros c cap0 async sync roles sched Ht st Hc J. unfold chk_state in Hc.
  destruct (Inv_run c sched _ Ht (Inv_init cap0 async sync roles)) as [G|[m [G R]]]; fold st in G; rewrite G in Hc; try discriminate.
  fold st in R. destruct (rH _ _ R J) as [L S0]. pose proof (rA _ _ R). repeat split; auto; lia.
Qed.

(* ------------------------------------------------------------------ idempotence, Emit after Stop, panics *)
(* A Stop issued when the flag is already set: three own steps, lshared lstate untouched, whatever the
   other threads are doing. *)
Lemma step_pc : forall c tid ch st p a p' code' S' ev,
  nth_error (ths st) tid = Some (lmk p [] a) -> lpstep c tid ch p a (sh st) = Some (p', code', S', ev) ->
  lstep_or_skip c st (tid, ch) = {| sh := S'; ths := lset_nth tid (lmk p' code' a) (ths st); ltrace := rev ev ++ ltrace st |}.
Proof. intros. unfold lstep_or_skip, lstep. simpl. rewrite H. unfold ltstep. simpl. rewrite H0. reflexivity. Qed.
Lemma set_nth_twice : forall A (l : list A) n x y, lset_nth n x (lset_nth n y l) = lset_nth n x l.
Proof. induction l as [|h l IH]; intros [|n] x y; simpl; auto. rewrite IH. reflexivity. Qed.

Theorem stop_idempotent : forall c tid a st c1 c2 c3,
  nth_error (ths st) tid = Some (lmk StBegin [] a) -> stopped (sh st) = true ->
  lrun c [(tid, c1); (tid, c2); (tid, c3)] st =
  {| sh := sh st; ths := lset_nth tid (lmk LDone [] a) (ths st);
     ltrace := EStopReturn tid true :: EStopBegin tid :: ltrace st |}.
Proof.
  intros c tid a st c1 c2 c3 Hn Hs. unfold lrun. simpl.
  rewrite (step_pc c tid c1 st StBegin a StFlag [] (sh st) [EStopBegin tid] Hn eq_refl).
  erewrite (step_pc c tid c2 _ StFlag a (StReturn true) [] (sh st) []).
  2:{ simpl. eapply nth_error_set_nth_eq; eauto. }
  2:{ simpl. rewrite Hs. reflexivity. }
  erewrite (step_pc c tid c3 _ (StReturn true) a LDone [] (sh st) [EStopReturn tid true]).
  2:{ simpl. eapply nth_error_set_nth_eq. eapply nth_error_set_nth_eq; eauto. }
  2:{ reflexivity. }
  simpl. rewrite !set_nth_twice. reflexivity.
Qed.

(* Emit on a stopped stream whose channel pointer is nil (Stop sets both before it joins): at most two
   own steps, never blocked, lshared lstate untouched, nothing enqueued -- for the three strategies. *)
Theorem emit_after_stop_noop : forall c tid ch a s, stopped s = true -> ptr_nil s = true ->
  exists p', lpstep c tid ch PdStart a s = Some (p', [], s, []) /\
             (p' = LDone \/ (p' = PdDropGet /\ forall ch', lpstep c tid ch' PdDropGet a s = Some (LDone, [], s, []))).
Proof.
  intros c tid ch a s Hs Hn. simpl. unfold lsafe_send. rewrite Hs, Hn. destruct (c_strategy c).
  - exists PdDropGet. split; auto.
  - exists LDone. split; auto.
  - exists LDone. split; auto.
Qed.

Lemma unwind_acts : forall post rest, lunwind (map IAct post ++ IEnd :: rest) = IEnd :: rest.
Proof. induction post; simpl; auto. Qed.

(* a panic anywhere inside a lsink lands on the wrapper's recover: the rest of the lsink body is skipped,
   everything after it (the remaining asinks of the batch, the unlock, the goroutine's loop) is intact,
   lshared lstate untouched *)
Theorem panic_isolated_sink : forall c tid post rest s,
  listep c tid (IAct APanic) (map IAct post ++ IEnd :: rest) s = Some (IEnd :: rest, s, []).
Proof. intros. simpl. rewrite unwind_acts. reflexivity. Qed.

(* a row that panics inside processItem leaves the processor exactly where a filtered row leaves it *)
Theorem panic_isolated_row : forall c tid a s id r, dq s = id :: r ->
  lpstep c tid 2 PrSelect a s = Some (PrLoop, [], upd_q s r, [EProc id true]) /\
  lpstep c tid 1 PrSelect a s = Some (PrLoop, [], upd_q s r, [EProc id false]).
Proof. intros. simpl. rewrite H. auto. Qed.

(* a window batch that panics (repaired consumer) leaves the consumer exactly where an empty result leaves it *)
Theorem panic_isolated_batch : forall c tid a s, c_batch_recover c = true ->
  lpstep c tid 2 CoLoop a s = lpstep c tid 1 CoLoop a s.
Proof. intros. simpl. destruct (wq s); auto. rewrite H. reflexivity. Qed.

(* a finished goroutine never moves again *)
Lemma done_never_steps : forall c tid ch a s, ltstep c tid ch (lmk LDone [] a) s = None.
Proof. reflexivity. Qed.

(* ------------------------------------------------------------------ witnesses: the code as found *)
Definition cfg_of (fixed track brec w cep : bool) : lcfg :=
  {| c_fixed_lock := fixed; c_track_sync := track; c_batch_recover := brec; c_window := w; c_cep := cep;
     c_strategy := SDrop; c_block_timeout := false; c_pool_cap := 1; c_max_cap := 4 |}.
Definition rep (n : nat) (e : nat * nat) : list (nat * nat) := repeat e n.

(* F11: EmitSync (or the processor) runs a synchronous lsink that lcalls AddSink while callSinksAsync holds the read lock *)
Definition f11_state (fixed : bool) : lstate :=
  lrun (cfg_of fixed true true false false) (rep 5 (0, 0)) (linit 4 [] [[AAddSink false]] [RSync; RStopper]).
Lemma f11_stuck : llock_stuckb (cfg_of false true true false false) (f11_state false) = true.
Proof. vm_compute. reflexivity. Qed.
Lemma f11_repaired_not_stuck : llock_stuckb (cfg_of true true true false false) (f11_state true) = false.
Proof. vm_compute. reflexivity. Qed.

(* F18a: EmitSync after Stop returned invokes the synchronous lsink *)
Definition f18a_trace (track : bool) : lstate :=
  lrun (cfg_of true track true false false) (rep 9 (0, 0) ++ rep 5 (1, 0)) (linit 4 [] [[]] [RStopper; RSync]).
Lemma f18a_violation : chk_state (f18a_trace false) = Some ClSinkAfterStop.
Proof. vm_compute. reflexivity. Qed.
Lemma f18a_repaired : chk_state (f18a_trace true) = None /\ In (ESyncEnd 1 false) (ltrace (f18a_trace true)).
Proof. vm_compute. auto. Qed.

(* F18b: a panicking batch ends the window-output consumer; the next batch is never taken *)
Definition f18b_state (brec : bool) : lstate :=
  lrun (cfg_of true true brec true false) [(0,0); (0,0); (1,0); (2,0); (1,2); (1,0); (3,0)]
      (linit 4 [] [[]] [RProcessor; RConsumer; RTrigger; RTrigger]).
Lemma f18b_dead : nth_error (ths (f18b_state false)) 1 = Some (lmk LDone [] 0) /\ wq (sh (f18b_state false)) = 1
                  /\ closed (sh (f18b_state false)) = false.
Proof. vm_compute. auto. Qed.
Lemma f18b_repaired : lenabledb (cfg_of true true true true false) 1 (f18b_state true) = true.
Proof. vm_compute. reflexivity. Qed.

(* F18c: a Stop that loses the CAS returns at once, while the winner is still waiting and a lsink begins later *)
Definition f18c_state : lstate :=
  lrun (cfg_of true true true false false)
      ([(0,0)] ++ rep 6 (1,0) ++ rep 3 (2,0) ++ rep 3 (0,0)) (linit 4 [] [[]] [RSync; RStopper; RStopper]).
Lemma f18c_loser_early : rev (ltrace f18c_state) =
  [ESyncBegin 0; EStopBegin 1; EStopBegin 2; EStopReturn 2 true; ESinkBegin 0 false].
Proof. vm_compute. reflexivity. Qed.

Lemma f18c_loser : chk_literal (rev (ltrace f18c_state)) = Some ClLoserEarly /\ chk_state f18c_state = None.
Proof. vm_compute. auto. Qed.

Definition example_run : lstate :=
  lrun (cfg_of true true true false false)
       ([(0,0); (3,0)] ++ rep 10 (0,0) ++ rep 4 (1,0) ++ rep 10 (4,0) ++ rep 5 (5,0) ++ [(0,3); (0,0)]
        ++ [(1,1); (1,0); (2,1); (2,0)] ++ rep 3 (5,0))
       (linit 4 [[]] [[APanic]] [RProcessor; RWorker; RWorker; RProducer 7; RSync; RStopper]).
Lemma example_run_ok :
  chk_state example_run = None /\ joined (sh example_run) = true /\
  In (ESinkBegin 4 false) (ltrace example_run) /\ In (EStopReturn 5 true) (ltrace example_run).
Proof. vm_compute. intuition. Qed.

(* ------------------------------------------------------------------ the lifecycle counter, without the monitor *)
Definition lifeA (st : lstate) : Prop := life (sh st) = cnt lweight (ths st) + tokens (sh st).
Lemma lifeA_step : forall c tid ch st st', lifeA st -> lstep c tid ch st = Some st' -> lifeA st'.
Proof.
  intros c tid ch st st' A H. unfold lstep in H.
  destruct (nth_error (ths st) tid) as [th|] eqn:Hn; try discriminate.
  destruct (ltstep c tid ch th (sh st)) as [[[th' S'] ev]|] eqn:Hs; try discriminate.
  inversion H; subst; clear H. unfold lifeA in *. simpl.
  pose proof (cnt_set_nth lweight _ _ _ th' Hn) as E. pose proof (cnt_ge lweight _ _ _ Hn) as G.
  destruct (tstep_inv _ _ _ _ _ _ _ _ Hs) as [[i [rest [code' [Hc [Hi E']]]]]|[Hc [p' [code' [Hp E']]]]]; subst th'; simpl in E.
  - destruct (i_weight _ _ _ _ _ _ _ _ Hi) as [L T]. lia.
  - assert (W : lweight (t_pc th) <= life (sh st)) by lia. pose proof (p_weight _ _ _ _ _ _ _ _ _ _ Hp W). lia.
Qed.
Lemma lifeA_run : forall c sched st, lifeA st -> lifeA (lrun c sched st).
Proof.
  intros c sched. induction sched as [|e r IH]; intros st A; simpl; auto. apply IH.
  unfold lstep_or_skip. destruct (lstep c (fst e) (snd e) st) eqn:E; auto. eapply lifeA_step; eauto.
Qed.
Lemma lifeA_init : forall cap0 async sync roles, lifeA (linit cap0 async sync roles).
Proof. intros. unfold lifeA. simpl. rewrite total_weight_cnt. lia. Qed.

(* ------------------------------------------------------------------ F11 is permanent *)
Lemma p_lock : forall c tid ch p a S p' code' S' ev,
  lpstep c tid ch p a S = Some (p', code', S', ev) -> readers S' = readers S /\ writer S' = writer S.
Proof. intros c tid ch p a S p' code' S' ev H. inv_p H; simpl; auto. Qed.

Lemma In_remove1_neq : forall t t' l, t <> t' -> In t l -> In t (lremove1 t' l).
Proof.
  induction l as [|x l IH]; simpl; intros Ne H; auto. destruct (Nat.eqb x t') eqn:E.
  - apply Nat.eqb_eq in E. destruct H; [congruence|auto].
  - destruct H; [left; auto|right; auto].
Qed.

Lemma i_readers_other : forall c tid' i rest S code' S' ev t,
  listep c tid' i rest S = Some (code', S', ev) -> t <> tid' -> In t (readers S) -> In t (readers S').
Proof.
  intros c tid' i rest S code' S' ev t H Ne Hin. inv_i H; simpl in *; auto; try (apply In_remove1_neq; auto).
  all: try (rewrite Heql in Hin; contradiction).
  all: destruct sync; simpl; auto.
Qed.

Lemma stuck_forever : forall c tid th r, t_code th = ILock :: r -> forall sched st,
  nth_error (ths st) tid = Some th -> In tid (readers (sh st)) ->
  nth_error (ths (lrun c sched st)) tid = Some th /\ In tid (readers (sh (lrun c sched st))).
Proof.
  intros c tid th r Hc sched. induction sched as [|e rs IH]; intros st Hn Hin; simpl; auto.
  apply IH; unfold lstep_or_skip; destruct (lstep c (fst e) (snd e) st) as [st'|] eqn:E; auto; unfold lstep in E;
    destruct (nth_error (ths st) (fst e)) as [th1|] eqn:Hn1; try discriminate;
    destruct (ltstep c (fst e) (snd e) th1 (sh st)) as [[[th' S'] ev]|] eqn:Hs; try discriminate;
    inversion E; subst; clear E; simpl.
  - destruct (Nat.eq_dec (fst e) tid) as [Ee|Ne].
    + exfalso. rewrite Ee in *. rewrite Hn in Hn1. inversion Hn1; subst th1. unfold ltstep in Hs. rewrite Hc in Hs. simpl in Hs.
      destruct (writer (sh st)); try discriminate. destruct (readers (sh st)); [contradiction|discriminate].
    + rewrite nth_error_set_nth_neq; auto.
  - destruct (Nat.eq_dec (fst e) tid) as [Ee|Ne].
    + exfalso. rewrite Ee in *. rewrite Hn in Hn1. inversion Hn1; subst th1. unfold ltstep in Hs. rewrite Hc in Hs. simpl in Hs.
      destruct (writer (sh st)); try discriminate. destruct (readers (sh st)); [contradiction|discriminate].
    + destruct (tstep_inv _ _ _ _ _ _ _ _ Hs) as [[i [rest [code' [Hc1 [Hi E']]]]]|[Hc1 [p' [code' [Hp E']]]]].
      * eapply i_readers_other; eauto.
      * destruct (p_lock _ _ _ _ _ _ _ _ _ _ Hp) as [R _]. rewrite R. auto.
Qed.

Lemma f11_forever : forall sched,
  let st := lrun (cfg_of false true true false false) sched (f11_state false) in
  nth_error (ths st) 0 = nth_error (ths (f11_state false)) 0 /\ 1 <= life (sh st).
Proof.
  intros sched st.
  assert (H0 : exists th r, nth_error (ths (f11_state false)) 0 = Some th /\ t_code th = ILock :: r /\ t_pc th = SyBusyT
                            /\ In 0 (readers (sh (f11_state false)))).
  { vm_compute. eexists. eexists. repeat split; eauto. }
  destruct H0 as [th [r [Hn [Hc [Hp Hin]]]]].
  destruct (stuck_forever (cfg_of false true true false false) 0 th r Hc sched _ Hn Hin) as [N1 _]. fold st in N1.
  split. { rewrite N1, Hn. reflexivity. }
  assert (A : lifeA st). { apply lifeA_run. unfold f11_state. apply lifeA_run. apply lifeA_init. }
  unfold lifeA in A. pose proof (cnt_ge lweight _ _ _ N1) as G. rewrite Hp in G. simpl in G. lia.
Qed.

(* ------------------------------------------------------------------ no lock-stuck state (repaired locking) *)
(* code shape: a lock instruction is immediately followed by the instruction that releases the lock *)
Fixpoint inner (l : list linstr) : bool :=
  match l with
  | [] => true
  | IRLock :: r => match r with IExpand _ :: r' => inner r' | _ => false end
  | ILock :: r => match r with IAppend _ :: r' => inner r' | _ => false end
  | IExpand _ :: _ => false
  | IAppend _ :: _ => false
  | IRUnlock :: _ => false
  | _ :: r => inner r
  end.
Definition shape (l : list linstr) : bool :=
  match l with IExpand _ :: r => inner r | IAppend _ :: r => inner r | _ => inner l end.

Lemma inner_shape : forall l, inner l = true -> shape l = true.
Proof. destruct l as [|[] l]; simpl; auto; discriminate. Qed.
Lemma inner_app_simple : forall a b, (forall i, In i a -> match i with ISubmit _ | ICall _ _ | IAct _ => True | _ => False end) ->
  inner (a ++ b) = inner b.
Proof. induction a as [|i a IH]; simpl; intros; auto. pose proof (H i (or_introl eq_refl)). destruct i; try contradiction; apply IH; intros; apply H; auto. Qed.
Lemma inner_calls : forall s fl r, inner (lcalls s fl ++ r) = inner r.
Proof.
  intros. apply inner_app_simple. intros i Hi. unfold lcalls in Hi.
  destruct fl; apply in_app_or in Hi; destruct Hi as [Hi|Hi]; apply in_map_iff in Hi; destruct Hi as [k [E _]]; subst; exact I.
Qed.
Lemma inner_acts : forall k r, inner (map IAct k ++ r) = inner r.
Proof. intros. apply inner_app_simple. intros i Hi. apply in_map_iff in Hi. destruct Hi as [a [E _]]. subst. exact I. Qed.
Lemma inner_unwind : forall n r, length r <= n -> inner r = true -> inner (lunwind r) = true.
Proof.
  induction n as [|n IH]; intros r Hl Hi.
  - destruct r; simpl in *; auto; lia.
  - destruct r as [|i r]; simpl in *; auto.
    destruct i; simpl; try discriminate; try (apply IH; auto; lia); auto.
    + destruct r as [|[] r']; try discriminate. simpl. apply IH; auto. simpl in Hl. lia.
    + destruct r as [|[] r']; try discriminate. simpl. apply IH; auto. simpl in Hl. lia.
Qed.

Lemma i_shape : forall c tid i rest S code' S' ev, c_fixed_lock c = true ->
  listep c tid i rest S = Some (code', S', ev) -> shape (i :: rest) = true -> shape code' = true.
Proof.
  intros c tid i rest S code' S' ev Hf H Hs. inv_i H; simpl in *; auto.
  all: try (rewrite Hf, orb_true_r in *; discriminate).
  all: try (destruct code' as [|[] r']; try discriminate; simpl; auto; fail).
  all: try (apply inner_shape; rewrite ?inner_calls, ?inner_acts; simpl; auto; fail).
  all: try (apply inner_shape; eapply inner_unwind; eauto; fail).
Qed.


Lemma p_shape : forall c tid ch p a S p' code' S' ev,
  lpstep c tid ch p a S = Some (p', code', S', ev) -> shape code' = true.
Proof. intros c tid ch p a S p' code' S' ev H. inv_p H; reflexivity. Qed.

Definition i_lock_eff (tid : nat) (i : linstr) (S S' : lshared) : Prop :=
  match i with
  | IRLock => readers S' = tid :: readers S /\ writer S' = None /\ writer S = None
  | IExpand _ => readers S' = lremove1 tid (readers S) /\ writer S' = writer S
  | IRUnlock => readers S' = lremove1 tid (readers S) /\ writer S' = writer S
  | ILock => readers S' = [] /\ readers S = [] /\ writer S' = Some tid /\ writer S = None
  | IAppend _ => readers S' = readers S /\ writer S' = None
  | _ => readers S' = readers S /\ writer S' = writer S
  end.
Lemma i_lock : forall c tid i rest S code' S' ev, c_fixed_lock c = true ->
  listep c tid i rest S = Some (code', S', ev) -> i_lock_eff tid i S S'.
Proof.
  intros c tid i rest S code' S' ev Hf H. inv_i H; simpl in *; auto.
  all: try (rewrite Hf, orb_true_r in *; discriminate).
  all: destruct sync; simpl; auto.
Qed.
Lemma i_code_lock : forall c tid rest S code' S' ev,
  (listep c tid IRLock rest S = Some (code', S', ev) -> code' = rest) /\
  (listep c tid ILock rest S = Some (code', S', ev) -> code' = rest).
Proof. intros; split; intro H; simpl in H; repeat (match type of H with context [match ?x with _ => _ end] => destruct x end); try discriminate; inversion H; auto. Qed.

Lemma In_remove1 : forall t x l, In t (lremove1 x l) -> In t l.
Proof. induction l as [|y l IH]; simpl; auto. destruct (Nat.eqb y x); simpl; intros; auto. destruct H; auto. Qed.
Lemma NoDup_remove1 : forall x l, NoDup l -> NoDup (lremove1 x l) /\ ~ In x (lremove1 x l).
Proof.
  induction l as [|y l IH]; simpl; intros N. { split; [constructor|auto]. }
  inversion N; subst. destruct (Nat.eqb y x) eqn:E.
  - apply Nat.eqb_eq in E. subst. auto.
  - apply Nat.eqb_neq in E. destruct (IH H2) as [N1 N2]. split.
    + constructor; auto. intro Hin. apply H1. eapply In_remove1; eauto.
    + simpl. intros [Eq|Hin]; auto.
Qed.

Record LK (st : lstate) : Prop := {
  kS : Forall (fun th => shape (t_code th) = true) (ths st);
  kR : forall t, In t (readers (sh st)) ->
       exists th fl r, nth_error (ths st) t = Some th /\ t_code th = IExpand fl :: r;
  kN : NoDup (readers (sh st));
  kW : forall w, writer (sh st) = Some w ->
       exists th b r, nth_error (ths st) w = Some th /\ t_code th = IAppend b :: r
}.

Lemma LK_step : forall c tid ch st st', c_fixed_lock c = true -> LK st -> lstep c tid ch st = Some st' -> LK st'.
Proof.
  intros c tid ch st st' Hf K H. unfold lstep in H.
  destruct (nth_error (ths st) tid) as [th|] eqn:Hn; try discriminate.
  destruct (ltstep c tid ch th (sh st)) as [[[th' S'] ev]|] eqn:Hs; try discriminate.
  inversion H; subst; clear H.
  pose proof (Forall_nth_error _ _ _ _ _ (kS _ K) Hn) as Hsh. simpl in Hsh.
  assert (Other : forall t, t <> tid -> nth_error (lset_nth tid th' (ths st)) t = nth_error (ths st) t).
  { intros. apply nth_error_set_nth_neq. auto. }
  destruct (tstep_inv _ _ _ _ _ _ _ _ Hs) as [[i [rest [code' [Hc [Hi E]]]]]|[Hc [p' [code' [Hp E]]]]]; subst th'.
  - (* instruction *)
    assert (HeadR : In tid (readers (sh st)) -> exists fl, i = IExpand fl).
    { intro Hin. destruct (kR _ K _ Hin) as [th0 [fl [r [N0 C0]]]]. rewrite Hn in N0. inversion N0; subst th0.
      rewrite Hc in C0. inversion C0. eauto. }
    assert (HeadW : writer (sh st) = Some tid -> exists b, i = IAppend b).
    { intro Hw. destruct (kW _ K _ Hw) as [th0 [b [r [N0 C0]]]]. rewrite Hn in N0. inversion N0; subst th0.
      rewrite Hc in C0. inversion C0. eauto. }
    pose proof (i_lock _ _ _ _ _ _ _ _ Hf Hi) as Eff. rewrite Hc in Hsh.
    pose proof (i_shape _ _ _ _ _ _ _ _ Hf Hi Hsh) as Hsh'.
    assert (KeepR : forall t, t <> tid -> In t (readers (sh st)) ->
              exists th0 fl r, nth_error (lset_nth tid (lmk (t_pc th) code' (t_arg th)) (ths st)) t = Some th0 /\ t_code th0 = IExpand fl :: r).
    { intros t Ne Hin. rewrite Other; auto. apply (kR _ K _ Hin). }
    assert (KeepW : forall w, w <> tid -> writer (sh st) = Some w ->
              exists th0 b r, nth_error (lset_nth tid (lmk (t_pc th) code' (t_arg th)) (ths st)) w = Some th0 /\ t_code th0 = IAppend b :: r).
    { intros w Ne Hw. rewrite Other; auto. apply (kW _ K _ Hw). }
    constructor; simpl.
    + apply Forall_set_nth; [apply K|]. simpl. auto.
    + intros t Hin. destruct i; simpl in Eff.
      * (* IRLock *) destruct Eff as [R [W1 W0]]. rewrite R in Hin. destruct Hin as [Et|Hin].
        -- subst t. pose proof (proj1 (i_code_lock c tid rest (sh st) code' S' ev) Hi) as Ec. subst code'.
           simpl in Hsh. destruct rest as [|[] r']; try discriminate.
           exists (lmk (t_pc th) (IExpand flush :: r') (t_arg th)), flush, r'. split; auto. eapply nth_error_set_nth_eq; eauto.
        -- apply KeepR; auto. intro Et. subst t. destruct (HeadR Hin) as [fl Ef]. discriminate.
      * destruct Eff as [R W]. rewrite R in Hin. destruct (NoDup_remove1 tid _ (kN _ K)) as [_ Nin].
        apply KeepR; [intro Et; subst t; contradiction | eapply In_remove1; eauto].
      * destruct Eff as [R W]. rewrite R in Hin. destruct (NoDup_remove1 tid _ (kN _ K)) as [_ Nin].
        apply KeepR; [intro Et; subst t; contradiction | eapply In_remove1; eauto].
      * destruct Eff as [R W]. rewrite R in Hin. apply KeepR; auto. intro Et. subst t. destruct (HeadR Hin) as [fl Ef]. discriminate.
      * destruct Eff as [R W]. rewrite R in Hin. apply KeepR; auto. intro Et. subst t. destruct (HeadR Hin) as [fl Ef]. discriminate.
      * destruct Eff as [R W]. rewrite R in Hin. apply KeepR; auto. intro Et. subst t. destruct (HeadR Hin) as [fl Ef]. discriminate.
      * destruct Eff as [R W]. rewrite R in Hin. apply KeepR; auto. intro Et. subst t. destruct (HeadR Hin) as [fl Ef]. discriminate.
      * destruct Eff as [R _]. rewrite R in Hin. contradiction.
      * destruct Eff as [R W]. rewrite R in Hin. apply KeepR; auto. intro Et. subst t. destruct (HeadR Hin) as [fl Ef]. discriminate.
    + destruct i; simpl in Eff; try (destruct Eff as [R _]; rewrite R; try apply K; try apply (NoDup_remove1 tid _ (kN _ K)); fail).
      * destruct Eff as [R _]. rewrite R. constructor; [|apply K]. intro Hin. destruct (HeadR Hin) as [fl Ef]. discriminate.
      * destruct Eff as [R _]. rewrite R. constructor.
    + intros w Hw. destruct i; simpl in Eff.
      * destruct Eff as [_ [W1 _]]. rewrite W1 in Hw. discriminate.
      * destruct Eff as [_ W]. rewrite W in Hw. apply KeepW; auto. intro Et. subst w. destruct (HeadW Hw) as [b Eb]. discriminate.
      * destruct Eff as [_ W]. rewrite W in Hw. apply KeepW; auto. intro Et. subst w. destruct (HeadW Hw) as [b Eb]. discriminate.
      * destruct Eff as [_ W]. rewrite W in Hw. apply KeepW; auto. intro Et. subst w. destruct (HeadW Hw) as [b Eb]. discriminate.
      * destruct Eff as [_ W]. rewrite W in Hw. apply KeepW; auto. intro Et. subst w. destruct (HeadW Hw) as [b Eb]. discriminate.
      * destruct Eff as [_ W]. rewrite W in Hw. apply KeepW; auto. intro Et. subst w. destruct (HeadW Hw) as [b Eb]. discriminate.
      * destruct Eff as [_ W]. rewrite W in Hw. apply KeepW; auto. intro Et. subst w. destruct (HeadW Hw) as [b Eb]. discriminate.
      * destruct Eff as [_ [_ [W1 _]]]. rewrite W1 in Hw. inversion Hw; subst w.
        pose proof (proj2 (i_code_lock c tid rest (sh st) code' S' ev) Hi) as Ec. subst code'.
        simpl in Hsh. destruct rest as [|[] r']; try discriminate.
        exists (lmk (t_pc th) (IAppend sync :: r') (t_arg th)), sync, r'. split; auto. eapply nth_error_set_nth_eq; eauto.
      * destruct Eff as [_ W]. rewrite W in Hw. discriminate.
  - (* pc transition: the thread holds nothing *)
    destruct (p_lock _ _ _ _ _ _ _ _ _ _ Hp) as [R W].
    constructor; simpl.
    + apply Forall_set_nth; [apply K|]. simpl. eapply p_shape; eauto.
    + intros t Hin. rewrite R in Hin. destruct (kR _ K _ Hin) as [th0 [fl [r [N0 C0]]]].
      rewrite Other. { eauto. } intro Et. subst t. rewrite Hn in N0. inversion N0; subst th0. rewrite Hc in C0. discriminate.
    + rewrite R. apply K.
    + intros w Hw. rewrite W in Hw. destruct (kW _ K _ Hw) as [th0 [b [r [N0 C0]]]].
      rewrite Other. { eauto. } intro Et. subst w. rewrite Hn in N0. inversion N0; subst th0. rewrite Hc in C0. discriminate.
Qed.

Lemma LK_init : forall cap0 async sync roles, LK (linit cap0 async sync roles).
Proof.
  intros. constructor; simpl; try (intros; contradiction); try discriminate; try constructor.
  apply Forall_forall. intros th Hin. apply in_map_iff in Hin. destruct Hin as [r [E _]]. subst th. destruct r; reflexivity.
Qed.
Lemma LK_run : forall c sched st, c_fixed_lock c = true -> LK st -> LK (lrun c sched st).
Proof.
  intros c sched. induction sched as [|e r IH]; intros st Hf K; simpl; auto. apply IH; auto.
  unfold lstep_or_skip. destruct (lstep c (fst e) (snd e) st) eqn:E; auto. eapply LK_step; eauto.
Qed.

(* every holder of sinksMux can move *)
Lemma enabled_of_step0 : forall c h st st', lstep c h 0 st = Some st' -> lenabledb c h st = true.
Proof. intros. unfold lenabledb. simpl. rewrite H. reflexivity. Qed.
Lemma nth_error_lt : forall A (l : list A) n x, nth_error l n = Some x -> n < length l.
Proof. intros. apply nth_error_Some. congruence. Qed.

Lemma holder_enabled : forall c st h, LK st ->
  (In h (readers (sh st)) \/ writer (sh st) = Some h) ->
  lenabledb c h st = true /\ h < length (ths st) /\ lholdsb h (sh st) = true.
Proof.
  intros c st h K Hh. destruct Hh as [Hr|Hw].
  - destruct (kR _ K _ Hr) as [th [fl [r [N C]]]]. split; [|split].
    + assert (exists st', lstep c h 0 st = Some st') as [st' E].
      { unfold lstep. rewrite N. unfold ltstep. rewrite C. simpl. destruct (fl || c_fixed_lock c); eauto. }
      eapply enabled_of_step0; eauto.
    + eapply nth_error_lt; eauto.
    + unfold lholdsb. apply orb_true_iff. left. apply existsb_exists. exists h. split; auto. apply Nat.eqb_refl.
  - destruct (kW _ K _ Hw) as [th [b [r [N C]]]]. split; [|split].
    + assert (exists st', lstep c h 0 st = Some st') as [st' E].
      { unfold lstep. rewrite N. unfold ltstep. rewrite C. simpl. eauto. }
      eapply enabled_of_step0; eauto.
    + eapply nth_error_lt; eauto.
    + unfold lholdsb. apply orb_true_iff. right. rewrite Hw. apply Nat.eqb_refl.
Qed.

Lemma existsb_false_intro : forall A (f : A -> bool) l, (forall x, In x l -> f x = false) -> existsb f l = false.
Proof. induction l; simpl; intros; auto. rewrite H, IHl; auto. Qed.
Lemma forallb_false_intro : forall A (f : A -> bool) l x, In x l -> f x = false -> forallb f l = false.
Proof. induction l; simpl; intros; [contradiction|]. destruct H; [subst; rewrite H0; auto|]. rewrite (IHl x); auto. apply andb_false_r. Qed.

Theorem no_stuck_state : forall c cap0 async sync roles sched, c_fixed_lock c = true ->
  llock_stuckb c (lrun c sched (linit cap0 async sync roles)) = false.
Proof.
  intros c cap0 async sync roles sched Hf.
  pose proof (LK_run c sched _ Hf (LK_init cap0 async sync roles)) as K.
  set (st := lrun c sched (linit cap0 async sync roles)) in *.
  unfold llock_stuckb. apply existsb_false_intro. intros tid _.
  destruct (nth_error (ths st) tid) as [th|] eqn:Hn; auto.
  destruct (lwaits_lock th) eqn:Hw; auto. simpl.
  destruct (lenabledb c tid st) eqn:He; auto. simpl.
  (* tid waits and cannot move: find a holder *)
  assert (Hold : exists h, In h (readers (sh st)) \/ writer (sh st) = Some h).
  { assert (S0 : lstep c tid 0 st = None).
    { destruct (lstep c tid 0 st) eqn:E; auto. rewrite (enabled_of_step0 _ _ _ _ E) in He. discriminate. }
    unfold lstep in S0. rewrite Hn in S0. unfold ltstep in S0. unfold lwaits_lock in Hw.
    destruct (t_code th) as [|[] r]; try discriminate; simpl in S0.
    - destruct (writer (sh st)) as [w|]; [eauto|discriminate].
    - destruct (writer (sh st)) as [w|]; [eauto|]. destruct (readers (sh st)) as [|r0 rs]; [discriminate|].
      exists r0. left. left. reflexivity. }
  destruct Hold as [h Hh]. destruct (holder_enabled c st h K Hh) as [E1 [E2 E3]].
  apply forallb_false_intro with (x := h).
  - apply in_seq. lia.
  - rewrite E1, E3. reflexivity.
Qed.

(* ------------------------------------------------------------------ Stop never waits for another thread, except through
   the grace-bounded join: with choice 1 (= "the timer fires" at StJoin) every own step of a Stop caller is enabled in
   EVERY shared state. This is the model's reading of "Stop returns within its grace period"; it rests on the modelling
   decision that the startMu / dataChanMux critical sections contain no blocking operation and no callback (Model header),
   which the Go harness tests with sinks that block or re-enter while a Stop or a channel expansion is pending (family B). *)
Definition stop_own (p : lpc) : bool :=
  match p with StBegin | StFlag | StClose | StWindow | StNil | StJoin | StFlush | StFlushing | StReturn _ => true | _ => false end.
Definition stop_rank (p : lpc) : nat :=
  match p with StBegin => 8 | StFlag => 7 | StClose => 6 | StWindow => 5 | StNil => 4 | StJoin => 3 | StFlush => 2
             | StFlushing => 2 | StReturn _ => 1 | _ => 0 end.

Lemma stop_never_waits : forall c tid a s p, stop_own p = true -> exists r, lpstep c tid 1 p a s = Some r.
Proof.
  intros c tid a s p H. destruct p; simpl in H; try discriminate; simpl; eauto.
  - destruct (stopped s); eauto.
  - destruct (c_cep c); eauto.
Qed.

(* one own step with choice 1, no CEP flush: the rank decreases, the code stays empty, nobody else is touched *)
Lemma stop_own_step : forall c st tid a p, c_cep c = false ->
  nth_error (ths st) tid = Some (lmk p [] a) -> stop_own p = true ->
  exists st' p', lstep c tid 1 st = Some st' /\ nth_error (ths st') tid = Some (lmk p' [] a) /\
                 stop_rank p' < stop_rank p /\ (stop_own p' = true \/ p' = LDone).
Proof.
  intros c st tid a p Hc Hn Hp. unfold lstep. rewrite Hn. unfold ltstep. simpl.
  destruct p; simpl in Hp; try discriminate; simpl.
  all: try (eexists; eexists; split; [reflexivity|]; simpl; split;
            [eapply nth_error_set_nth_eq; eauto | split; [simpl; lia | simpl; auto]]).
  - (* StFlag *) destruct (stopped (sh st)); eexists; eexists; (split; [reflexivity|]); simpl; (split;
      [eapply nth_error_set_nth_eq; eauto | split; [simpl; lia | simpl; auto]]).
  - (* StFlush *) rewrite Hc. eexists; eexists; split; [reflexivity|]; simpl; split;
      [eapply nth_error_set_nth_eq; eauto | split; [simpl; lia | simpl; auto]].
Qed.

Lemma done_stays : forall c n st tid a, nth_error (ths st) tid = Some (lmk LDone [] a) ->
  lrun c (rep n (tid, 1)) st = st.
Proof.
  induction n; intros st tid a Hn; auto.
  change (lrun c (rep (S n) (tid, 1)) st) with (lrun c (rep n (tid, 1)) (lstep_or_skip c st (tid, 1))).
  assert (E : lstep_or_skip c st (tid, 1) = st).
  { unfold lstep_or_skip, lstep. simpl. rewrite Hn. rewrite done_never_steps. reflexivity. }
  rewrite E. apply IHn with (a := a). exact Hn.
Qed.

Lemma stop_returns_alone : forall c n st tid a p, c_cep c = false ->
  nth_error (ths st) tid = Some (lmk p [] a) -> stop_own p = true -> stop_rank p <= n ->
  nth_error (ths (lrun c (rep n (tid, 1)) st)) tid = Some (lmk LDone [] a).
Proof.
  intros c n. induction n; intros st tid a p Hc Hn Hp Hr.
  - destruct p; simpl in Hp; try discriminate; simpl in Hr; lia.
  - change (lrun c (rep (S n) (tid, 1)) st) with (lrun c (rep n (tid, 1)) (lstep_or_skip c st (tid, 1))).
    destruct (stop_own_step c st tid a p Hc Hn Hp) as [st' [p' [Hs [Hn' [Hlt Ho]]]]].
    assert (E : lstep_or_skip c st (tid, 1) = st'). { unfold lstep_or_skip. simpl. rewrite Hs. reflexivity. }
    rewrite E.
    destruct Ho as [Ho|Ho].
    + apply IHn with (p := p'); auto. lia.
    + subst p'. rewrite (done_stays c n st' tid a Hn'). exact Hn'.
Qed.

(* ------------------------------------------------------------------ EmitSync takes part in the lifecycle whatever the
   sink lists contain when it begins (ProcessSync registers under startMu before anything else): the transition of
   SyBegin does not read asinks / ssinks, and the sinks it will call are the snapshot taken LATER by IExpand. *)
Lemma emitsync_always_registers : forall c tid ch a s, c_track_sync c = true -> stopped s = false ->
  exists p' code', lpstep c tid ch SyBegin a s = Some (p', code', upd_life s (life s + 1) (tokens s), [ESyncBegin tid])
                   /\ lweight p' = 1.
Proof.
  intros c tid ch a s Ht Hs. simpl. rewrite Ht, Hs. destruct ch; eauto.
Qed.

(* witness for family W: EmitSync begins with NO sink registered, a synchronous sink is registered while the call is in
   flight, Stop is called and cannot pass its join (choice 0 disabled) until the call, which does invoke the new sink,
   has ended; the trace is accepted *)
Definition inflight_mid : lstate :=
  lrun (cfg_of true true true false false) ([(0,0)] ++ rep 3 (1,0) ++ rep 5 (2,0)) (linit 4 [] [] [RSync; RAdd true; RStopper]).
Definition inflight_run : lstate :=
  lrun (cfg_of true true true false false) (rep 8 (0,0) ++ rep 4 (2,0)) inflight_mid.
Lemma inflight_joined :
  lstep (cfg_of true true true false false) 2 0 inflight_mid = None /\ life (sh inflight_mid) = 1 /\
  rev (ltrace inflight_run) =
    [ESyncBegin 0; EStopBegin 2; ESinkBegin 0 false; ESinkEnd 0; ESyncEnd 0 true; EStopReturn 2 true] /\
  chk_state inflight_run = None.
Proof. vm_compute. auto. Qed.

(* family D: no schedule of the repaired protocol makes the monitor report a blocked second Stop (the harness-only event
   EStopAgainOver is never produced: a Stop caller that finds `stopped` set returns through straight-line code) *)
Lemma second_stop_never_blocked : forall c cap0 async sync roles sched, c_track_sync c = true ->
  chk_state (lrun c sched (linit cap0 async sync roles)) <> Some ClSecondStopBlocked.
Proof.
  intros c cap0 async sync roles sched Ht.
  destruct (stop_barrier c cap0 async sync roles sched Ht) as [H | H]; rewrite H; discriminate.
Qed.
