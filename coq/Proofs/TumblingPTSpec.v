(* The executable processing-time checker of Spec/WinSpec.v (chk_C01_pt: the clauses the harness applies to the real
   window's trace) accepts every trace of the processing-time model under the ticker's schedule: the model satisfies
   the whole clause list, and an implementation whose trace equals the model's is never flagged. *)
From Coq Require Import Lia Arith.
From SV Require Import Model.Tumbling Spec.WinSpec Proofs.TumblingProofs Proofs.TumblingComplete Proofs.TumblingPT.

Section PTSpec.
  Variable c : cfg.
  Hypothesis Hsize : 0 < size c.

  Definition pids (h : list pop) : list Z := flat_map (fun o => match o with PAdd id _ => [id] | PTrigger => [] end) h.

  Record J (s : pst) (seen : list row) (emitted : list Z) (last : option Z) : Prop := {
    j_fresh : p_init s = false -> seen = [] /\ last = None /\ emitted = [];
    j_data : p_init s = true -> p_data s = filter (fun r => p_slot s <=? rts r) seen;
    j_emitted : forall i, In i emitted -> exists r, In r seen /\ rid r = i /\ rts r < p_slot s;
    j_last : forall l, last = Some l -> l + size c <= p_slot s }.

  Lemma row_in_In r l : In r l -> row_in r l = true.
  Proof.
    intros H. unfold row_in. apply existsb_exists. exists r. split; [exact H|].
    rewrite !Z.eqb_refl. reflexivity.
  Qed.

  Lemma id_in_In r l : In r l -> id_in (rid r) l = true.
  Proof. intros H. unfold id_in. apply existsb_exists. exists r. split; [exact H|]. apply Z.eqb_refl. Qed.

  Lemma filter_filter_ge (a b : Z) (l : list row) : a <= b ->
    filter (fun r => negb (rts r <? b)) (filter (fun r => a <=? rts r) l) = filter (fun r => b <=? rts r) l.
  Proof.
    intros Hab. induction l as [|x l IH]; cbn [filter]; [reflexivity|].
    destruct (a <=? rts x) eqn:E1; cbn [filter].
    - rewrite IH. destruct (rts x <? b) eqn:E2; cbn [negb].
      + apply Z.ltb_lt in E2. assert (E3: (b <=? rts x) = false) by (apply Z.leb_gt; lia). rewrite E3. reflexivity.
      + apply Z.ltb_ge in E2. assert (E3: (b <=? rts x) = true) by (apply Z.leb_le; lia). rewrite E3. reflexivity.
    - rewrite IH. apply Z.leb_gt in E1. assert (E3: (b <=? rts x) = false) by (apply Z.leb_gt; lia). rewrite E3. reflexivity.
  Qed.

  Lemma NoDup_app_l {A} (l1 l2 : list A) : NoDup (l1 ++ l2) -> NoDup l1.
  Proof.
    induction l1 as [|x l1 IH]; cbn [app]; intros H; [constructor|].
    inversion H as [|a b Hni Hnd]; subst. constructor; [|apply IH; exact Hnd].
    intros Hin. apply Hni. apply in_or_app. left. exact Hin.
  Qed.

  Lemma NoDup_ids_eq (l : list row) r1 r2 :
    NoDup (map rid l) -> In r1 l -> In r2 l -> rid r1 = rid r2 -> r1 = r2.
  Proof.
    induction l as [|x l IH]; intros Hnd H1 H2 He; [contradiction|].
    cbn [map] in Hnd. inversion Hnd as [|a b Hni Hnd']; subst.
    destruct H1 as [H1|H1], H2 as [H2|H2]; subst.
    - reflexivity.
    - exfalso. apply Hni. rewrite He. apply in_map. exact H2.
    - exfalso. apply Hni. rewrite <- He. apply in_map. exact H1.
    - apply IH; assumption.
  Qed.

  Ltac ap H E := first [exact (H E) | exact (H eq_refl)].

  Lemma chk_pt_sound h : forall s seen emitted last,
    InvP c s -> J s seen emitted last -> sched_ok c s h -> NoDup (map rid seen ++ pids h) ->
    chk_pt c seen emitted last (snd (prun c s h)) = None.
  Proof.
    induction h as [|o h IH]; intros s seen emitted last Hinv HJ Hs Hnd; [reflexivity|].
    cbn [prun]. destruct Hs as [Hok Hs]. pose proof (pstep_InvP c Hsize s o Hinv Hok) as Hinv1.
    destruct (pstep c s o) as [s1 e1] eqn:E1. cbn [fst] in Hs, Hinv1.
    specialize (IH s1). destruct (prun c s1 h) as [s2 e2] eqn:E2. cbn [snd] in *.
    destruct HJ as [Jf Jd Je Jl].
    destruct o as [id now|]; cbn [pstep] in E1.
    - (* Add *)
      injection E1 as <- <-. cbn [app chk_pt]. destruct Hok as [Hn Hslot].
      assert (Hl : match last with Some l => now <? l + size c | None => false end = false).
      { destruct last as [l|]; [|reflexivity]. apply Z.ltb_ge. destruct (p_init s) eqn:Ei.
        - specialize (Jl l eq_refl). assert (Hsl : p_slot s <= now) by ap Hslot Ei. lia.
        - destruct (ltac:(ap Jf Ei) : _ /\ _ /\ _) as (_ & Hx & _). discriminate. }
      rewrite Hl. apply IH; [exact Hinv1| |exact Hs|].
      + constructor; cbn [p_init p_slot p_data].
        * discriminate.
        * intros _. rewrite filter_app. cbn [filter]. destruct (p_init s) eqn:Ei.
          -- rewrite (ltac:(ap Jd Ei) : p_data s = _). assert (E: (p_slot s <=? rts (id, now)) = true) by (apply Z.leb_le; cbn; auto).
             rewrite E. reflexivity.
          -- destruct (ltac:(ap Jf Ei) : _ /\ _ /\ _) as (Hseen & _ & _). subst seen. destruct Hinv as [H0 _]. rewrite (ltac:(ap H0 Ei) : p_data s = []). cbn [filter app].
             assert (E: (align now (size c) <=? rts (id, now)) = true).
             { apply Z.leb_le. cbn. pose proof (align_le now (size c) Hsize Hn). lia. }
             rewrite E. reflexivity.
        * intros i Hi. destruct (p_init s) eqn:Ei.
          -- destruct (Je i Hi) as (r & Hr & Hid & Hts). exists r. split; [apply in_or_app; left; exact Hr|auto].
          -- destruct (ltac:(ap Jf Ei) : _ /\ _ /\ _) as (_ & _ & Hem). subst emitted. contradiction.
        * intros l Hlast. destruct (p_init s) eqn:Ei; [apply Jl; exact Hlast|].
          destruct (ltac:(ap Jf Ei) : _ /\ _ /\ _) as (_ & Hx & _). rewrite Hx in Hlast. discriminate.
      + rewrite map_app. cbn [map rid fst]. cbn [pids flat_map app] in Hnd. rewrite <- app_assoc. exact Hnd.
    - (* Trigger *)
      cbn [pids flat_map app] in Hnd.
      destruct (p_init s) eqn:Ei; cbn [negb] in E1.
      2:{ injection E1 as <- <-. cbn [app chk_pt]. apply IH; [exact Hinv| |exact Hs|exact Hnd].
          constructor; [intros _; ap Jf Ei|intros H; try rewrite Ei in H; discriminate|exact Je|exact Jl]. }
      injection E1 as <- <-.
      destruct Hinv as [_ H1]. destruct (ltac:(ap H1 Ei) : _ /\ _) as [[k Hk] Hge]. rewrite Forall_forall in Hge.
      assert (Hdata : p_data s = filter (fun r => p_slot s <=? rts r) seen) by ap Jd Ei.
      remember (filter (fun r => inwin c (p_slot s) (rts r)) (p_data s)) as res eqn:Er.
      assert (Hres : forall r, In r res -> In r seen /\ p_slot s <= rts r < p_slot s + size c).
      { intros r Hr. rewrite Er in Hr. apply filter_In in Hr as [Hr Hw]. unfold inwin in Hw. split; [|lia].
        rewrite Hdata in Hr. apply filter_In in Hr as [Hr _]. exact Hr. }
      assert (HJ' : forall em' last', (forall i, In i em' -> In i emitted \/ exists r, In r res /\ rid r = i) ->
                                 (forall l, last' = Some l -> l = p_slot s \/ last = Some l) ->
                    J {| p_init := true; p_slot := p_slot s + size c; p_data := filter (fun r => negb (rts r <? p_slot s + size c)) (p_data s) |}
                      seen em' last').
      { intros em' last' Hem Hla. constructor; cbn [p_init p_slot p_data].
        - discriminate.
        - intros _. rewrite Hdata. apply filter_filter_ge. lia.
        - intros i Hi. destruct (Hem i Hi) as [Ho|(r & Hr & Hid)].
          + destruct (Je i Ho) as (r & Hr & Hid & Hts). exists r. repeat split; auto. lia.
          + destruct (Hres r Hr) as [Hs' Hb]. exists r. repeat split; auto. lia.
        - intros l Hl. destruct (Hla l Hl) as [->|Ho]; [lia|]. specialize (Jl l Ho). lia. }
      destruct res as [|r0 rl].
      + cbn [app chk_pt]. apply IH; [exact Hinv1| |exact Hs|exact Hnd].
        apply HJ'; [intros i Hi; left; exact Hi|intros l Hl; right; exact Hl].
      + cbn [app chk_pt b_start b_end b_rows].
        (* the five clauses *)
        assert (C1 : (p_slot s + size c =? p_slot s + size c) && (p_slot s mod size c =? 0)
                     && forallb (fun x => inwin c (p_slot s) (rts x)) (r0 :: rl) = true).
        { rewrite Z.eqb_refl. cbn [andb]. apply andb_true_iff. split.
          - apply Z.eqb_eq. rewrite Hk. apply Z_mod_mult.
          - apply forallb_forall. intros x Hx. rewrite Er in Hx. apply filter_In in Hx as [_ Hx]. exact Hx. }
        rewrite C1. cbn [negb].
        assert (C2 : forallb (fun x => row_in x seen) (r0 :: rl) = true).
        { apply forallb_forall. intros x Hx. apply row_in_In. apply (Hres x Hx). }
        rewrite C2. cbn [negb].
        assert (Hnd1 : NoDup (map rid seen)) by (apply NoDup_app_l in Hnd; exact Hnd).
        assert (C3 : existsb (fun x => existsb (Z.eqb (rid x)) emitted) (r0 :: rl) = false).
        { apply not_true_iff_false. intros H. apply existsb_exists in H as (x & Hx & Hex).
          apply existsb_exists in Hex as (i & Hi & Heq). apply Z.eqb_eq in Heq. subst i.
          destruct (Je _ Hi) as (r & Hr & Hid & Hts). destruct (Hres x Hx) as [Hxs Hxb].
          assert (r = x) by (apply (NoDup_ids_eq seen); auto). subst r. lia. }
        rewrite C3.
        assert (C4 : match last with Some l => p_slot s <=? l | None => false end = false).
        { destruct last as [l|]; [|reflexivity]. apply Z.leb_gt. specialize (Jl l eq_refl). lia. }
        rewrite C4.
        assert (C5 : forallb (fun x => negb (inwin c (p_slot s) (rts x)) || id_in (rid x) (r0 :: rl)) seen = true).
        { apply forallb_forall. intros x Hx. destruct (inwin c (p_slot s) (rts x)) eqn:Ew; cbn [negb orb]; [|reflexivity].
          apply id_in_In. rewrite Er. apply filter_In. split; [|exact Ew].
          rewrite Hdata. apply filter_In. split; [exact Hx|]. unfold inwin in Ew. apply andb_true_iff in Ew as [Ew _]. exact Ew. }
        rewrite C5. cbn [negb].
        apply IH; [exact Hinv1| |exact Hs|exact Hnd].
        apply HJ'.
        * intros i Hi. apply in_app_or in Hi as [Hi|Hi]; [left; exact Hi|right].
          apply in_map_iff in Hi as (r & Hid & Hr). exists r. auto.
        * intros l Hl. injection Hl as <-. left. reflexivity.
  Qed.

  (* every processing-time trace of the model, under the ticker's schedule and with distinct row ids, satisfies
     every clause of the executable checker the harness applies to the real window *)
  Theorem pt_model_passes_checker h :
    sched_ok c pst0 h -> NoDup (pids h) -> chk_C01_pt c (snd (prun c pst0 h)) = None.
  Proof.
    intros Hs Hnd. unfold chk_C01_pt. apply chk_pt_sound; [apply InvP_0| |exact Hs|exact Hnd].
    constructor; cbn; [auto|discriminate|intros i []|discriminate].
  Qed.
End PTSpec.
