(* C06 — lpad / rpad: the model's value is the documented one (length, the string kept, the pad
   repeated cyclically from its first byte). *)
From Coq Require Import List Arith Lia.
Import ListNotations.
From SV Require Import Model.ExprEval.
Local Open Scope nat_scope.

Lemma pad_cycle_length : forall (k : nat) (pad cur : bytes), pad <> [] -> length (pad_cycle pad cur k) = k.
Proof.
  induction k as [|k IH]; intros pad cur Hp; simpl; [reflexivity|].
  destruct cur as [|c r]; simpl.
  - destruct pad as [|c r]; [contradiction|]. simpl. rewrite IH; [reflexivity|discriminate].
  - rewrite IH; [reflexivity|exact Hp].
Qed.

(* cur is what is left of the current repetition: pad = pre ++ cur *)
Lemma pad_cycle_nth : forall (k : nat) (pad pre cur : bytes) (i : nat) (d : byte),
  pad <> [] -> pad = pre ++ cur -> i < k ->
  nth i (pad_cycle pad cur k) d = nth ((length pre + i) mod length pad) pad d.
Proof.
  induction k as [|k IH]; intros pad pre cur i d Hp Hs Hi; [lia|].
  assert (Hl : length pad <> 0) by (destruct pad; [contradiction|simpl; lia]).
  simpl. destruct cur as [|c r].
  - (* repetition exhausted: pad = pre *)
    rewrite app_nil_r in Hs. subst pre.
    destruct pad as [|c r] eqn:Ep; [contradiction|]. rewrite <- Ep in *.
    destruct i as [|i].
    + rewrite Nat.add_0_r, Nat.mod_same by exact Hl. rewrite Ep. reflexivity.
    + simpl. rewrite (IH pad [c] r i d Hp); [|rewrite Ep; reflexivity|lia].
      f_equal. simpl.
      replace (length pad + S i) with (S i + 1 * length pad) by lia.
      rewrite Nat.mod_add by exact Hl. reflexivity.
  - destruct i as [|i].
    + rewrite Nat.add_0_r.
      assert (Hlt : length pre < length pad) by (rewrite Hs, app_length; simpl; lia).
      rewrite Nat.mod_small by exact Hlt.
      rewrite Hs, app_nth2 by lia. rewrite Nat.sub_diag. reflexivity.
    + simpl. rewrite (IH pad (pre ++ [c]) r i d Hp); [|rewrite <- app_assoc; exact Hs|lia].
      f_equal. rewrite app_length. simpl. f_equal. lia.
Qed.

Lemma pad_fill_length : forall (pad : bytes) (k : nat), length (pad_fill pad k) = k.
Proof. intros pad k. unfold pad_fill. apply pad_cycle_length. destruct pad; discriminate. Qed.

Lemma pad_fill_nth : forall (pad : bytes) (k i : nat) (d : byte), pad <> [] -> i < k ->
  nth i (pad_fill pad k) d = nth (i mod length pad) pad d.
Proof.
  intros pad k i d Hp Hi. unfold pad_fill. destruct pad as [|c r] eqn:E; [contradiction|]. rewrite <- E.
  rewrite (pad_cycle_nth k pad [] pad i d); [reflexivity|rewrite E; discriminate|reflexivity|exact Hi].
Qed.

(* the documented value *)
Theorem pad_value_spec : forall (left : bool) (s : bytes) (n : nat) (pad : bytes),
  (n <= length s -> pad_value left s n pad = s) /\
  (length s < n ->
     exists fill, pad_value left s n pad = (if left then fill ++ s else s ++ fill) /\
       length fill = n - length s /\
       length (pad_value left s n pad) = n /\
       (pad <> [] -> forall (i : nat) (d : byte), i < n - length s -> nth i fill d = nth (i mod length pad) pad d)).
Proof.
  intros left s n pad. unfold pad_value. split; intros H.
  - apply Nat.leb_le in H. rewrite H. reflexivity.
  - assert (E : Nat.leb n (length s) = false) by (apply Nat.leb_gt; exact H). rewrite E.
    exists (pad_fill pad (n - length s)). split; [reflexivity|]. split; [apply pad_fill_length|]. split.
    + destruct left; rewrite app_length, pad_fill_length; lia.
    + intros Hp i d Hi. apply pad_fill_nth; assumption.
Qed.

(* the call itself, on text arguments and a natural length *)
Theorem fn_call_pad : forall (left : bool) (s : bytes) (n : nat) (pad : bytes),
  fn_call (if left then nm_lpad else nm_rpad) [VStr s; VNum (inject_Z (Z.of_nat n)); VStr pad]
  = FOk (VStr (pad_value left s n pad)).
Proof.
  intros left s n pad.
  assert (Hr : forall z : Z, Qred (inject_Z z) = inject_Z z).
  { intros z. unfold Qred, inject_Z.
    pose proof (Z.ggcd_gcd z 1) as G. pose proof (Z.ggcd_correct_divisors z 1) as D.
    destruct (Z.ggcd z 1) as [g [a b]]. simpl in *. rewrite Z.gcd_1_r in G. subst g.
    destruct D as [D1 D2]. rewrite Z.mul_1_l in D1, D2. subst. reflexivity. }
  assert (Hq : qis_nat (inject_Z (Z.of_nat n)) = Some n).
  { unfold qis_nat. rewrite Hr. unfold inject_Z. simpl. destruct n as [|n]; simpl; [reflexivity|].
    rewrite SuccNat2Pos.id_succ. reflexivity. }
  destruct left; unfold fn_call; simpl; unfold fn_pad; simpl; rewrite Hq; reflexivity.
Qed.
