(* C14 — the engine of stream/analytic.go on EVERY history, the number of partitions above the cap included:
   the result for a row is the state machine applied to the counted rows of its partition's current RESIDENCY
   EPOCH (the rows since which the partition has always been among the `cap` most recently used partitions); a row
   failing WHEN repeats the last result of that epoch, the default when the epoch is empty - in particular when the
   partition was evicted: state and remembered result go together.  Instantiated with the item machines this
   gives: the model of EmitSync = the declarative specification Spec/AnalyticEpochSpec.v, with no hypothesis on the
   number of partitions. *)
From Coq Require Import Lia.
From SV Require Import Model.Analytic Model.AnalyticMulti Spec.AnalyticSpec Spec.AnalyticEpochSpec
  Proofs.AnalyticSeq Proofs.AnalyticKey Proofs.AnalyticEngine Proofs.AnalyticQuery Proofs.AnalyticField
  Proofs.AnalyticMulti Proofs.AnalyticGated.

(* ---------------------------------------------------------------- lists *)
Lemma filter_rev_l (A : Type) (f : A -> bool) (l : list A) : filter f (rev l) = rev (filter f l).
Proof.
  induction l as [|a l IH]; [reflexivity|]. simpl. rewrite filter_app, IH. simpl.
  destruct (f a); simpl; [reflexivity|apply app_nil_r].
Qed.

Lemma in_firstn_l (A : Type) (n : nat) (l : list A) x : In x (firstn n l) -> In x l.
Proof. intros H. rewrite <- (firstn_skipn n l). apply in_or_app. left. exact H. Qed.

Lemma NoDup_firstn_l (A : Type) : forall n (l : list A), NoDup l -> NoDup (firstn n l).
Proof.
  induction n as [|n IH]; intros [|x l] H; simpl; try constructor.
  - inversion H; subst. intros Hin. apply in_firstn_l in Hin. contradiction.
  - inversion H; subst. apply IH. assumption.
Qed.

Lemma removelast_cons_ne (A : Type) (x : A) (m : list A) : m <> [] -> removelast (x :: m) = x :: removelast m.
Proof. destruct m; [congruence|reflexivity]. Qed.

Lemma last_cons_ne (A : Type) (x d : A) (m : list A) : m <> [] -> last (x :: m) d = last m d.
Proof. destruct m; [congruence|reflexivity]. Qed.

Lemma last_in_l (A : Type) (d : A) : forall l, l <> [] -> In (last l d) l.
Proof.
  induction l as [|a [|b t] IH]; intros H; [congruence|left; reflexivity|].
  right. apply IH. discriminate.
Qed.

Lemma last_notin_removelast (A : Type) (d : A) : forall l, NoDup l -> l <> [] -> ~ In (last l d) (removelast l).
Proof.
  induction l as [|a [|b t] IH]; intros Hnd Hne; [congruence|simpl; tauto|].
  change (last (a :: b :: t) d) with (last (b :: t) d).
  change (removelast (a :: b :: t)) with (a :: removelast (b :: t)).
  inversion Hnd as [|? ? Ha Hnd']; subst. intros [H|H].
  - apply Ha. rewrite H. apply last_in_l. discriminate.
  - apply (IH Hnd'); [discriminate|exact H].
Qed.

Lemma in_removelast_or_last (A : Type) (d : A) x : forall l, In x l -> In x (removelast l) \/ x = last l d.
Proof.
  induction l as [|a [|b t] IH]; intros H; [contradiction| |].
  - destruct H as [H|[]]. right. symmetry. exact H.
  - change (last (a :: b :: t) d) with (last (b :: t) d).
    change (removelast (a :: b :: t)) with (a :: removelast (b :: t)).
    destruct H as [H|H]; [left; left; exact H|].
    destruct (IH H) as [H'|H']; [left; right; exact H'|right; exact H'].
Qed.

Lemma akeys_last (V : Type) (d : bytes * V) : forall m, fst (last m d) = last (akeys m) (fst d).
Proof.
  induction m as [|a [|b t] IH]; try reflexivity.
  change (last (a :: b :: t) d) with (last (b :: t) d). rewrite IH. reflexivity.
Qed.

Lemma alookup_removelast_in (V : Type) k : forall (m : list (bytes * V)),
  In k (akeys (removelast m)) -> alookup k (removelast m) = alookup k m.
Proof.
  induction m as [|[k1 v1] [|b t] IH]; intros H; try contradiction.
  change (removelast ((k1, v1) :: b :: t)) with ((k1, v1) :: removelast (b :: t)) in *.
  change (akeys ((k1, v1) :: removelast (b :: t))) with (k1 :: akeys (removelast (b :: t))) in H.
  cbn [alookup]. destruct (bytes_eqb k k1) eqn:E; [reflexivity|].
  apply IH. destruct H as [H|H]; [subst; rewrite bytes_eqb_refl in E; discriminate|exact H].
Qed.

Lemma alookup_aremove_same (V : Type) (m : list (bytes * V)) k : alookup k (aremove k m) = None.
Proof. apply alookup_none. rewrite akeys_aremove. apply filter_neq_notin. Qed.

(* ---------------------------------------------------------------- the engine with PARTITION BY, any history *)
Section Epoch.
  Variables St Out : Type.
  Variable init : St.
  Variable apply : St -> arow -> St * Out.
  Variable dflt : Out.
  Variable gate : arow -> bool.
  Variable pkey : arow -> bytes.
  Variable cap : nat.

  Notation eng := (aeng St Out).
  Notation step := (an_eng_step St Out init apply dflt gate pkey true cap).
  Notation run := (an_eng_run St Out init apply dflt gate pkey true cap).
  Notation e0 := (an_eng0 St Out).
  Notation recency := (recency gate pkey).
  Notation st_after := (st_after St Out apply).
  Notation last_of := (last_of St Out init apply).
  Notation some_after := (some_after St Out init apply).

  (* partition k is among the cap most recently used ones after history h *)
  Definition residentb (h : list arow) (k : bytes) : bool := existsb (bytes_eqb k) (firstn cap (recency h)).

  Lemma residentb_in h k : residentb h k = true <-> In k (firstn cap (recency h)).
  Proof.
    unfold residentb. rewrite existsb_exists. split.
    - intros (x & Hx & E). apply bytes_eqb_eq in E. subst. exact Hx.
    - intros H. exists k. split; [exact H|apply bytes_eqb_refl].
  Qed.

  (* the counted rows of partition k in its current residency epoch; [revl] = history, most recent first *)
  Fixpoint gepoch_r (k : bytes) (revl : list arow) : list arow :=
    match revl with
    | [] => []
    | e :: t => if gate e then
                  if bytes_eqb (pkey e) k then e :: gepoch_r k t
                  else if residentb (rev (e :: t)) k then gepoch_r k t else []
                else gepoch_r k t
    end.

  Definition gepoch (k : bytes) (h : list arow) : list arow := rev (gepoch_r k (rev h)).

  Lemma gepoch_snoc_off k h r : gate r = false -> gepoch k (h ++ [r]) = gepoch k h.
  Proof. intros Hg. unfold gepoch. rewrite rev_app_distr. cbn [rev app gepoch_r]. rewrite Hg. reflexivity. Qed.

  Lemma gepoch_snoc_same k h r : gate r = true -> pkey r = k -> gepoch k (h ++ [r]) = gepoch k h ++ [r].
  Proof.
    intros Hg Hk. unfold gepoch. rewrite rev_app_distr. cbn [rev app gepoch_r].
    rewrite Hg, Hk, bytes_eqb_refl. reflexivity.
  Qed.

  Lemma gepoch_snoc_other k h r : gate r = true -> pkey r <> k ->
    gepoch k (h ++ [r]) = if residentb (h ++ [r]) k then gepoch k h else [].
  Proof.
    intros Hg Hk. unfold gepoch. rewrite rev_app_distr. cbn [rev app gepoch_r].
    rewrite Hg, (bytes_eqb_neq _ _ Hk), rev_involutive. destruct (residentb (h ++ [r]) k); reflexivity.
  Qed.

  Lemma recency_snoc_on h r : gate r = true ->
    recency (h ++ [r]) = pkey r :: filter (fun y => negb (bytes_eqb (pkey r) y)) (recency h).
  Proof.
    intros Hg. unfold AnalyticEngine.recency, ckeys. rewrite filter_app, map_app. simpl. rewrite Hg. simpl.
    rewrite rev_app_distr. reflexivity.
  Qed.

  Lemma recency_snoc_off h r : gate r = false -> recency (h ++ [r]) = recency h.
  Proof.
    intros Hg. unfold AnalyticEngine.recency, ckeys. rewrite filter_app, map_app. simpl. rewrite Hg. simpl.
    rewrite app_nil_r. reflexivity.
  Qed.

  (* the specification of the engine: as Proofs/AnalyticGated.v gspec, over the epoch *)
  Definition xgspec (earlier : list arow) (r : arow) : Out :=
    let m := gepoch (pkey r) earlier in
    if gate r then snd (apply (st_after init m) r)
    else match last_of m with Some o => o | None => dflt end.

  Definition xinv (h0 : list arow) (e : eng) : Prop :=
    akeys (ae_parts e) = firstn cap (recency h0) /\
    (forall k, alookup k (ae_parts e) = some_after (gepoch k h0)) /\
    (forall k, alookup k (ae_last e) = last_of (gepoch k h0)).

  Lemma some_after_none m : some_after m = None -> m = [].
  Proof. destruct m; [reflexivity|discriminate]. Qed.

  Lemma some_after_some m s : some_after m = Some s -> s = st_after init m.
  Proof. destruct m; [discriminate|]. unfold AnalyticGated.some_after. intros H. injection H as H. symmetry. exact H. Qed.

  Lemma some_after_snoc m r : some_after (m ++ [r]) = Some (fst (apply (st_after init m) r)).
  Proof.
    unfold AnalyticGated.some_after. destruct (m ++ [r]) eqn:E; [destruct m; discriminate|].
    rewrite <- E, st_after_snoc. reflexivity.
  Qed.

  Lemma xstep_on h0 e r : 1 <= cap -> xinv h0 e -> gate r = true ->
    xinv (h0 ++ [r]) (fst (step e r)) /\ snd (step e r) = snd (apply (st_after init (gepoch (pkey r) h0)) r).
  Proof.
    intros Hcap (HK & Hp & Hl) Hg. unfold xinv.
    pose proof (step_keys St Out init apply dflt gate pkey cap e r (recency h0) Hcap (dedup_nodup _) HK) as HK1.
    rewrite Hg in HK1. rewrite <- (recency_snoc_on h0 r Hg) in HK1.
    assert (Hnd : NoDup (akeys (ae_parts e))) by (rewrite HK; apply NoDup_firstn_l, dedup_nodup).
    assert (Hres : forall k, residentb (h0 ++ [r]) k = false ->
                             ~ In k (akeys (ae_parts (fst (step e r))))).
    { intros k Er Hin. rewrite HK1 in Hin. apply residentb_in in Hin. congruence. }
    assert (Hres' : forall k, residentb (h0 ++ [r]) k = true ->
                              In k (akeys (ae_parts (fst (step e r))))).
    { intros k Er. rewrite HK1. apply residentb_in. exact Er. }
    pose proof (Hp (pkey r)) as Hpk.
    destruct (alookup (pkey r) (ae_parts e)) as [s|] eqn:El.
    - (* hit: MoveToFront *)
      symmetry in Hpk. apply some_after_some in Hpk. subst s.
      destruct (apply (st_after init (gepoch (pkey r) h0)) r) as [s' o] eqn:Ea.
      assert (Hstep : step e r =
                ({| ae_nopart := ae_nopart e; ae_parts := (pkey r, s') :: aremove (pkey r) (ae_parts e);
                    ae_last := aset (pkey r) o (ae_last e) |}, o)).
      { unfold an_eng_step. rewrite Hg. cbn [negb]. rewrite El, Ea. reflexivity. }
      rewrite Hstep in *. cbn [fst snd ae_parts ae_last] in *.
      change (akeys ((pkey r, s') :: aremove (pkey r) (ae_parts e)))
        with (pkey r :: akeys (aremove (pkey r) (ae_parts e))) in *.
      split; [|reflexivity]. split; [exact HK1|]. split; intros k.
      + destruct (bytes_dec k (pkey r)) as [->|Hne].
        * cbn [alookup]. rewrite bytes_eqb_refl, (gepoch_snoc_same (pkey r) h0 r Hg eq_refl), some_after_snoc, Ea.
          reflexivity.
        * rewrite (gepoch_snoc_other k h0 r Hg (fun E => Hne (eq_sym E))).
          destruct (residentb (h0 ++ [r]) k) eqn:Er.
          -- cbn [alookup]. rewrite (bytes_eqb_neq _ _ Hne), alookup_aremove_other by exact Hne. apply Hp.
          -- apply alookup_none. apply Hres. exact Er.
      + destruct (bytes_dec k (pkey r)) as [->|Hne].
        * rewrite alookup_aset_same, (gepoch_snoc_same (pkey r) h0 r Hg eq_refl), last_of_snoc, Ea. reflexivity.
        * rewrite alookup_aset_other by exact Hne. rewrite Hl.
          rewrite (gepoch_snoc_other k h0 r Hg (fun E => Hne (eq_sym E))).
          destruct (residentb (h0 ++ [r]) k) eqn:Er; [reflexivity|].
          assert (Hnil : gepoch k h0 = []).
          { apply some_after_none. rewrite <- Hp. apply alookup_none. intros Hin. apply (Hres k Er).
            right. rewrite akeys_aremove. apply filter_In. split; [exact Hin|].
            rewrite (bytes_eqb_neq (pkey r) k (fun E => Hne (eq_sym E))). reflexivity. }
          rewrite Hnil. reflexivity.
    - (* miss: a new (or returning) partition starts from the initial state *)
      symmetry in Hpk. apply some_after_none in Hpk. rewrite Hpk. cbn [AnalyticGated.st_after].
      destruct (apply init r) as [s' o] eqn:Ea.
      destruct (cap <? S (length (ae_parts e)))%nat eqn:Ec.
      + (* the table is full: the least recently used partition goes, with its remembered result *)
        assert (HPne : ae_parts e <> []).
        { intros E. rewrite E in Ec. simpl in Ec. apply Nat.ltb_lt in Ec. lia. }
        assert (HKne : akeys (ae_parts e) <> []).
        { intros E. apply HPne. destruct (ae_parts e); [reflexivity|discriminate]. }
        set (evk := last (akeys (ae_parts e)) (pkey r)).
        assert (Hstep : step e r =
                  ({| ae_nopart := ae_nopart e; ae_parts := (pkey r, s') :: removelast (ae_parts e);
                      ae_last := aset (pkey r) o (aremove evk (ae_last e)) |}, o)).
        { unfold an_eng_step. rewrite Hg. cbn [negb]. rewrite El, Ea. unfold an_insert. cbn [length]. rewrite Ec.
          rewrite (removelast_cons_ne _ _ _ HPne), (last_cons_ne _ _ _ _ HPne), akeys_last. reflexivity. }
        rewrite Hstep in *. cbn [fst snd ae_parts ae_last] in *.
        change (akeys ((pkey r, s') :: removelast (ae_parts e)))
          with (pkey r :: akeys (removelast (ae_parts e))) in *.
        split; [|reflexivity]. split; [exact HK1|]. split; intros k.
        * destruct (bytes_dec k (pkey r)) as [->|Hne].
          -- cbn [alookup]. rewrite bytes_eqb_refl, (gepoch_snoc_same (pkey r) h0 r Hg eq_refl), some_after_snoc, Hpk.
             cbn [AnalyticGated.st_after]. rewrite Ea. reflexivity.
          -- rewrite (gepoch_snoc_other k h0 r Hg (fun E => Hne (eq_sym E))).
             destruct (residentb (h0 ++ [r]) k) eqn:Er.
             ++ destruct (Hres' k Er) as [Hin|Hin]; [exfalso; apply Hne; symmetry; exact Hin|].
                cbn [alookup]. rewrite (bytes_eqb_neq _ _ Hne), (alookup_removelast_in _ _ _ Hin). apply Hp.
             ++ apply alookup_none. apply Hres. exact Er.
        * destruct (bytes_dec k (pkey r)) as [->|Hne].
          -- rewrite alookup_aset_same, (gepoch_snoc_same (pkey r) h0 r Hg eq_refl), last_of_snoc, Hpk.
             cbn [AnalyticGated.st_after]. rewrite Ea. reflexivity.
          -- rewrite alookup_aset_other by exact Hne.
             rewrite (gepoch_snoc_other k h0 r Hg (fun E => Hne (eq_sym E))).
             destruct (residentb (h0 ++ [r]) k) eqn:Er.
             ++ destruct (Hres' k Er) as [Hin|Hin]; [exfalso; apply Hne; symmetry; exact Hin|].
                assert (Hne2 : k <> evk).
                { intros E. subst k. apply (last_notin_removelast _ (pkey r) _ Hnd HKne).
                  rewrite <- akeys_removelast. exact Hin. }
                rewrite alookup_aremove_other by exact Hne2. apply Hl.
             ++ destruct (bytes_dec k evk) as [->|Hne2]; [apply alookup_aremove_same|].
                rewrite alookup_aremove_other by exact Hne2. rewrite Hl.
                assert (Hnil : gepoch k h0 = []).
                { apply some_after_none. rewrite <- Hp. apply alookup_none. intros Hin.
                  destruct (in_removelast_or_last _ (pkey r) k _ Hin) as [H|H]; [|apply Hne2; exact H].
                  apply (Hres k Er). right. rewrite akeys_removelast. exact H. }
                rewrite Hnil. reflexivity.
      + (* room left *)
        assert (Hstep : step e r =
                  ({| ae_nopart := ae_nopart e; ae_parts := (pkey r, s') :: ae_parts e;
                      ae_last := aset (pkey r) o (ae_last e) |}, o)).
        { unfold an_eng_step. rewrite Hg. cbn [negb]. rewrite El, Ea. unfold an_insert. cbn [length]. rewrite Ec.
          reflexivity. }
        rewrite Hstep in *. cbn [fst snd ae_parts ae_last] in *.
        change (akeys ((pkey r, s') :: ae_parts e)) with (pkey r :: akeys (ae_parts e)) in *.
        split; [|reflexivity]. split; [exact HK1|]. split; intros k.
        * destruct (bytes_dec k (pkey r)) as [->|Hne].
          -- cbn [alookup]. rewrite bytes_eqb_refl, (gepoch_snoc_same (pkey r) h0 r Hg eq_refl), some_after_snoc, Hpk.
             cbn [AnalyticGated.st_after]. rewrite Ea. reflexivity.
          -- rewrite (gepoch_snoc_other k h0 r Hg (fun E => Hne (eq_sym E))).
             destruct (residentb (h0 ++ [r]) k) eqn:Er.
             ++ cbn [alookup]. rewrite (bytes_eqb_neq _ _ Hne). apply Hp.
             ++ apply alookup_none. apply Hres. exact Er.
        * destruct (bytes_dec k (pkey r)) as [->|Hne].
          -- rewrite alookup_aset_same, (gepoch_snoc_same (pkey r) h0 r Hg eq_refl), last_of_snoc, Hpk.
             cbn [AnalyticGated.st_after]. rewrite Ea. reflexivity.
          -- rewrite alookup_aset_other by exact Hne. rewrite Hl.
             rewrite (gepoch_snoc_other k h0 r Hg (fun E => Hne (eq_sym E))).
             destruct (residentb (h0 ++ [r]) k) eqn:Er; [reflexivity|].
             assert (Hnil : gepoch k h0 = []).
             { apply some_after_none. rewrite <- Hp. apply alookup_none. intros Hin. apply (Hres k Er).
               right. exact Hin. }
             rewrite Hnil. reflexivity.
  Qed.

  Lemma xstep_off h0 e r : xinv h0 e -> gate r = false ->
    step e r = (e, match last_of (gepoch (pkey r) h0) with Some o => o | None => dflt end) /\ xinv (h0 ++ [r]) e.
  Proof.
    intros (HK & Hp & Hl) Hg. split.
    - unfold an_eng_step. rewrite Hg. cbn [negb]. rewrite Hl. reflexivity.
    - split; [rewrite (recency_snoc_off h0 r Hg); exact HK|].
      split; intros k; rewrite (gepoch_snoc_off k h0 r Hg); [apply Hp|apply Hl].
  Qed.

  Lemma epoch_part : 1 <= cap -> forall h h0 e, xinv h0 e -> snd (run e h) = map_prefix_aux xgspec h0 h.
  Proof.
    intros Hcap. induction h as [|r t IH]; intros h0 e Hinv; [reflexivity|].
    cbn [an_eng_run map_prefix_aux]. destruct (gate r) eqn:Hg.
    - destruct (xstep_on h0 e r Hcap Hinv Hg) as [Hinv1 Ho].
      specialize (IH (h0 ++ [r]) _ Hinv1).
      destruct (step e r) as [e1 o1]. cbn [fst snd] in *.
      destruct (run e1 t) as [e2 os]. cbn [snd] in *.
      rewrite IH. f_equal. unfold xgspec. rewrite Hg. exact Ho.
    - destruct (xstep_off h0 e r Hinv Hg) as [Hs Hinv1]. rewrite Hs.
      specialize (IH (h0 ++ [r]) e Hinv1).
      destruct (run e t) as [e2 os]. cbn [snd] in *.
      rewrite IH. f_equal. unfold xgspec. rewrite Hg. reflexivity.
  Qed.

  Lemma xinv0 : xinv [] e0.
  Proof. split; [destruct cap; reflexivity|]. split; intros k; reflexivity. Qed.

  (* engine_epoch: for every state machine plugged into the engine and EVERY history - no bound on the number of
     partitions - the result for a row is the machine applied to the counted rows of the current residency epoch
     of its partition; a row failing WHEN repeats the epoch's last result, the default when there is none *)
  Theorem engine_epoch : forall h, 1 <= cap -> snd (run e0 h) = map_prefix xgspec h.
  Proof. intros h Hcap. unfold map_prefix. apply epoch_part; [exact Hcap|apply xinv0]. Qed.

  Lemma run_xinv : 1 <= cap -> forall h, xinv h (fst (run e0 h)).
  Proof.
    intros Hcap h. induction h as [|r h IH] using rev_ind; [apply xinv0|].
    rewrite (run_snoc St Out init apply dflt gate pkey cap). destruct (gate r) eqn:Hg.
    - apply (xstep_on h _ r Hcap IH Hg).
    - destruct (xstep_off h _ r IH Hg) as [Hs Hi]. rewrite Hs. exact Hi.
  Qed.

  (* the remembered result is evicted with the state: a row failing WHEN whose partition is not among the cap
     most recently used ones gets the default, whatever the partition produced before it was evicted *)
  Theorem evicted_forgets : forall h r, 1 <= cap -> gate r = false -> ~ In (pkey r) (firstn cap (recency h)) ->
    snd (step (fst (run e0 h)) r) = dflt.
  Proof.
    intros h r Hcap Hg Hnot. pose proof (run_xinv Hcap h) as Hinv.
    destruct (xstep_off h _ r Hinv Hg) as [Hs _]. rewrite Hs. cbn [snd].
    destruct Hinv as (HK & Hp & _).
    assert (Hnil : gepoch (pkey r) h = []).
    { apply some_after_none. rewrite <- Hp. apply alookup_none. rewrite HK. exact Hnot. }
    rewrite Hnil. reflexivity.
  Qed.

  (* without PARTITION BY there is one partition: the epoch is the whole counted history *)
  Variable k0 : bytes.
  Hypothesis Hconst : forall r, pkey r = k0.

  Lemma gepoch_const h : gepoch k0 h = mine gate pkey k0 h.
  Proof.
    assert (H1 : forall l, gepoch_r k0 l = filter gate l).
    { induction l as [|e t IH]; [reflexivity|]. cbn [gepoch_r filter]. rewrite (Hconst e), bytes_eqb_refl, IH.
      destruct (gate e); reflexivity. }
    unfold gepoch, mine. rewrite H1, filter_rev_l, rev_involutive. apply filter_ext. intros e.
    rewrite (Hconst e), bytes_eqb_refl. reflexivity.
  Qed.

  Lemma xgspec_const earlier r : gspec St Out init apply dflt gate pkey earlier r = xgspec earlier r.
  Proof. unfold gspec, xgspec. rewrite (Hconst r), gepoch_const. reflexivity. Qed.
End Epoch.

(* ---------------------------------------------------------------- one item: engine = epoch specification *)
Lemma key_eqb x y : bytes_eqb (an_key_of_vals x) (an_key_of_vals y) = avals_eqb x y.
Proof.
  destruct (avals_eqb x y) eqn:E.
  - apply avals_eqb_eq in E. subst. apply bytes_eqb_refl.
  - apply bytes_eqb_neq. intros H. apply partition_key_injective in H. subst.
    rewrite (proj2 (avals_eqb_eq y y) eq_refl) in E. discriminate.
Qed.

Lemma filter_map_key x : forall u,
  filter (fun y => negb (bytes_eqb (an_key_of_vals x) y)) (map an_key_of_vals u) =
  map an_key_of_vals (filter (fun y => negb (avals_eqb x y)) u).
Proof.
  induction u as [|y u IHu]; [reflexivity|]. simpl. rewrite key_eqb.
  destruct (avals_eqb x y); simpl; rewrite IHu; reflexivity.
Qed.

Lemma dedup_map_key : forall l, dedup (map an_key_of_vals l) = map an_key_of_vals (an_distinct l).
Proof.
  induction l as [|x t IH]; [reflexivity|]. simpl. rewrite IH, filter_map_key. reflexivity.
Qed.

Lemma existsb_map_key v : forall X, existsb (bytes_eqb (an_key_of_vals v)) (map an_key_of_vals X) = existsb (avals_eqb v) X.
Proof. induction X as [|y u IH]; [reflexivity|]. simpl. rewrite key_eqb, IH. reflexivity. Qed.

Lemma resident_bridge cap f l r :
  residentb (an_gate f) (an_pkey (af_part f)) cap (rev l) (an_pkey (af_part f) r) = an_resident cap f l r.
Proof.
  unfold residentb, an_resident, recency, ckeys, an_recent.
  rewrite filter_rev_l, map_rev, rev_involutive.
  assert (Hm : forall L, map (an_pkey (af_part f)) L = map an_key_of_vals (map (an_part_vals (af_part f)) L)).
  { intros L. rewrite map_map. reflexivity. }
  rewrite Hm, dedup_map_key, firstn_map. unfold an_pkey at 1. apply existsb_map_key.
Qed.

Lemma epoch_bridge cap f r : forall l,
  gepoch_r (an_gate f) (an_pkey (af_part f)) cap (an_pkey (af_part f) r) l = an_epoch_r cap f r l.
Proof.
  induction l as [|e t IH]; [reflexivity|]. cbn [gepoch_r an_epoch_r].
  rewrite same_part_key, resident_bridge, IH. reflexivity.
Qed.

Lemma epoch_r_incl cap f r : forall l, incl (an_epoch_r cap f r l) l.
Proof.
  induction l as [|e t IH]; [apply incl_refl|]. cbn [an_epoch_r].
  destruct (an_gate f e).
  - destruct (an_same_part f r e).
    + intros x [Hx|Hx]; [left; exact Hx|right; apply IH; exact Hx].
    + destruct (an_resident cap f (e :: t) r); [|intros x []].
      intros x Hx. right. apply IH. exact Hx.
  - intros x Hx. right. apply IH. exact Hx.
Qed.

Lemma epoch_rows_ok cap f earlier r : Forall row_ok earlier -> Forall row_ok (an_epoch cap f earlier r).
Proof.
  intros H. apply Forall_forall. intros x Hx. unfold an_epoch in Hx. apply in_rev in Hx.
  apply epoch_r_incl in Hx. apply in_rev in Hx. rewrite Forall_forall in H. apply H. exact Hx.
Qed.

Lemma xgspec_field cap f : an_fkind_wf (af_kind f) = true -> forall earlier r, Forall row_ok earlier -> row_ok r ->
  xgspec afstate aout (an_field_init (af_kind f)) (an_field_apply (af_kind f)) (an_field_dflt (af_kind f))
         (an_gate f) (an_pkey (af_part f)) cap earlier r = an_xgated_spec cap f earlier r.
Proof.
  intros Hwf earlier r He Hr. unfold xgspec, an_xgated_spec, an_xgated_spec_g.
  assert (Hm : gepoch (an_gate f) (an_pkey (af_part f)) cap (an_pkey (af_part f) r) earlier = an_epoch cap f earlier r).
  { unfold gepoch, an_epoch. rewrite epoch_bridge. reflexivity. }
  rewrite Hm. set (m := an_epoch cap f earlier r).
  assert (Hmok : Forall row_ok m) by (apply epoch_rows_ok; exact He).
  destruct (an_gate f r).
  - apply (proj2 (field_step false (af_kind f) m _ r Hwf Hr (field_inv_after _ Hwf m Hmok))).
  - unfold last_of. destruct (rev m) as [|l before] eqn:Erev; [reflexivity|].
    assert (Hm2 : m = rev before ++ [l]) by (rewrite <- (rev_involutive m), Erev; reflexivity).
    rewrite Hm2 in Hmok. apply Forall_app in Hmok. destruct Hmok as [Hb Hl]. inversion Hl; subst.
    apply (proj2 (field_step false (af_kind f) (rev before) _ l Hwf H1 (field_inv_after _ Hwf _ Hb))).
Qed.

(* xfrun_gated: the engine of one item over ANY history, whatever the number of partitions *)
Theorem xfrun_gated : forall cap f h, an_fkind_wf (af_kind f) = true -> Forall row_ok h -> 1 <= cap ->
  snd (an_frun cap f (an_eng0 _ _) h) = map_prefix (an_xgated_spec cap f) h.
Proof.
  intros cap f h Hwf Hh Hcap. unfold map_prefix.
  rewrite <- (map_prefix_aux_ext _ _ row_ok _ _ h [] (fun e x He Hx => xgspec_field cap f Hwf e x He Hx) (Forall_nil _) Hh).
  unfold an_frun. destruct (an_partitioned f) eqn:Ep.
  - apply epoch_part; [exact Hcap|apply xinv0].
  - assert (Hconst : forall r, an_pkey (af_part f) r = []).
    { intros r. unfold an_partitioned in Ep. destruct (af_part f); [reflexivity|discriminate]. }
    etransitivity; [apply (gated_nopart _ _ _ _ _ _ _ cap [] Hconst h []); split; reflexivity|].
    apply (map_prefix_aux_ext _ _ (fun _ => True)).
    + intros e x _ _. apply (xgspec_const _ _ _ _ _ _ _ cap [] Hconst).
    + constructor.
    + apply Forall_forall. intros; exact I.
Qed.

(* ---------------------------------------------------------------- the whole query = its specification, always *)
Lemma item_rows_xspec cap h : Forall row_ok h -> 1 <= cap -> forall fs,
  Forall (fun f => an_fkind_wf (af_kind f) = true) fs ->
  item_rows cap fs (map (fun _ => an_eng0 afstate aout) fs) h =
  map_prefix (fun e r => map (fun f => an_xgated_spec cap f e r) fs) h.
Proof.
  intros Hh Hcap. induction fs as [|f ft IH]; intros Hfs.
  - simpl. apply map_nil_prefix.
  - inversion Hfs as [|f' ft' Hwf Hft]; subst. cbn [map item_rows].
    rewrite (xfrun_gated cap f h Hwf Hh Hcap), (IH Hft). unfold map_prefix. apply zipcons_prefix.
Qed.

Lemma xmask_spec q wf tst : mq_wan q = Some (wf, tst) -> forall h l0,
  mask (fun r w => an_mcolpass q r && an_wtest tst w) h
       (map_prefix_aux (an_xgated_spec (mq_cap q) wf) l0 h)
       (map_prefix_aux (fun e r => map (fun f => an_xgated_spec (mq_cap q) f e r) (mq_items q)) l0 h) =
  an_xmspec_aux false q l0 h.
Proof.
  intros Hw. induction h as [|r t IH]; intros l0; [reflexivity|].
  cbn [map_prefix_aux mask an_xmspec_aux]. rewrite Hw. rewrite IH. reflexivity.
Qed.

Lemma xspread_spec q : mq_wan q = None -> forall h l0,
  spread_g (an_mcolpass q) h
           (map_prefix_aux (fun e r => map (fun f => an_xgated_spec (mq_cap q) f e r) (mq_items q)) l0
                           (filter (an_mcolpass q) h)) =
  an_xmspec_aux false q l0 h.
Proof.
  intros Hw. induction h as [|r t IH]; intros l0; [reflexivity|].
  cbn [filter spread_g an_xmspec_aux]. rewrite Hw. destruct (an_mcolpass q r).
  - cbn [map_prefix_aux]. rewrite IH. reflexivity.
  - rewrite IH. reflexivity.
Qed.

(* msync_xspec: the model of EmitSync IS the declarative specification on every history of rows - the number of
   partitions of any item may exceed the cap *)
Theorem msync_xspec : forall q h, mquery_wf q = true -> Forall row_ok h -> 1 <= mq_cap q ->
  an_msync q h = an_xmspec_query false q h.
Proof.
  intros q h Hwf Hh Hcap. rewrite mwhere_order. unfold an_xmspec_query, m_eng0s.
  unfold mquery_wf in Hwf. apply andb_prop in Hwf. destruct Hwf as [Hwi Hww].
  rewrite forallb_forall in Hwi.
  assert (Hitems : Forall (fun f => an_fkind_wf (af_kind f) = true) (mq_items q)) by (apply Forall_forall; exact Hwi).
  destruct (mq_wan q) as [[wf tst]|] eqn:Hw.
  - rewrite (item_rows_xspec (mq_cap q) h Hh Hcap _ Hitems).
    rewrite (xfrun_gated (mq_cap q) wf h Hww Hh Hcap). apply xmask_spec. exact Hw.
  - rewrite (item_rows_xspec (mq_cap q) _ (Forall_filter_l _ _ _ _ Hh) Hcap _ Hitems).
    apply xspread_spec. exact Hw.
Qed.

Lemma xspec_none q : aq_where q = AWNone -> forall h l0,
  map Some (map_prefix_aux (an_xgated_spec (aq_cap q) (aq_field q)) l0 h) = an_xspec_aux q l0 h.
Proof.
  intros Hw. induction h as [|r t IH]; intros l0; [reflexivity|].
  cbn [map_prefix_aux map an_xspec_aux]. rewrite Hw, IH. reflexivity.
Qed.

Lemma xspec_col q n : aq_where q = AWCol n -> forall h l0,
  spread (fun r => an_pos r n) h
         (map_prefix_aux (an_xgated_spec (aq_cap q) (aq_field q)) l0 (filter (fun r => an_pos r n) h)) =
  an_xspec_aux q l0 h.
Proof.
  intros Hw. induction h as [|r t IH]; intros l0; [reflexivity|].
  cbn [filter spread an_xspec_aux]. rewrite Hw. destruct (an_pos r n).
  - cbn [map_prefix_aux]. rewrite IH. reflexivity.
  - rewrite IH. reflexivity.
Qed.

Lemma xspec_analytic q wf : aq_where q = AWAnalytic wf -> forall h l0,
  keep_true (map_prefix_aux (an_xgated_spec (aq_cap q) (aq_field q)) l0 h)
            (map_prefix_aux (an_xgated_spec (aq_cap q) wf) l0 h) =
  an_xspec_aux q l0 h.
Proof.
  intros Hw. induction h as [|r t IH]; intros l0; [reflexivity|].
  cbn [map_prefix_aux keep_true an_xspec_aux]. rewrite Hw, IH. reflexivity.
Qed.

Theorem sync_xspec : forall q h, query_wf q = true -> Forall row_ok h -> 1 <= aq_cap q ->
  an_sync q h = an_xspec_query q h.
Proof.
  intros q h Hwf Hh Hcap. rewrite where_order. unfold an_xspec_query.
  unfold query_wf in Hwf. apply andb_prop in Hwf. destruct Hwf as [Hwi Hww].
  destruct (aq_where q) as [|n|wf] eqn:Hw.
  - rewrite (xfrun_gated _ _ h Hwi Hh Hcap). apply xspec_none. exact Hw.
  - rewrite (xfrun_gated _ _ _ Hwi (Forall_filter_l _ _ _ _ Hh) Hcap). apply xspec_col. exact Hw.
  - rewrite (xfrun_gated _ _ h Hwi Hh Hcap), (xfrun_gated _ _ h Hww Hh Hcap). apply xspec_analytic. exact Hw.
Qed.

(* within the cap nothing is ever evicted: the specification of all histories is the specification of
   Spec/AnalyticSpec.v there *)
Theorem xspec_within_cap : forall q h, query_wf q = true -> Forall row_ok h -> 1 <= aq_cap q ->
  an_within_cap q h = true -> an_xspec_query q h = an_spec_query q h.
Proof. intros q h Hwf Hh Hcap Hin. rewrite <- (sync_xspec q h Hwf Hh Hcap). apply sync_spec; assumption. Qed.

Theorem xmspec_within_cap : forall q h, mquery_wf q = true -> Forall row_ok h -> 1 <= mq_cap q ->
  an_mwithin_cap q h = true -> an_xmspec_query false q h = an_mspec_query false q h.
Proof. intros q h Hwf Hh Hcap Hin. rewrite <- (msync_xspec q h Hwf Hh Hcap). apply msync_spec; assumption. Qed.

(* ---------------------------------------------------------------- the witness of the clause *)
(* cap 2, acc_sum(v) OVER (PARTITION BY p WHEN g > 0): A counted (10), A gated off (repeats 10), B, C - A is
   evicted -, A gated off: NULL, not the 10 computed from rows that are gone; A counted: 5, from scratch *)
Definition xw_p : bytes := [112]%N.
Definition xw_g : bytes := [103]%N.
Definition xw_q : aquery :=
  {| aq_field := {| af_kind := AKSingle {| ca_fn := AFAcc AKSum; ca_args := [AEField colv] |};
                    af_part := [xw_p]; af_when := Some xw_g |};
     aq_where := AWNone; aq_cap := 2 |}.
Definition xw_row (p : N) (v g : Z) : arow := [(xw_p, AVStr [p]); (colv, AVInt v); (xw_g, AVInt g)].
Definition xw_h : list arow :=
  [xw_row 65 10 1; xw_row 65 99 0; xw_row 66 1 1; xw_row 67 2 1; xw_row 65 5 0; xw_row 65 5 1; xw_row 65 7 0].

Lemma xw_rows_ok : Forall row_ok xw_h.
Proof.
  assert (H : forall p v g, row_ok (xw_row p v g)).
  { intros p v g. unfold row_ok, xw_row. simpl.
    constructor; [intros [H|[H|[]]]; discriminate|].
    constructor; [intros [H|[]]; discriminate|].
    constructor; [intros []|constructor]. }
  unfold xw_h. repeat (constructor; [apply H|]). constructor.
Qed.

Theorem evicted_witness :
  query_wf xw_q = true /\ Forall row_ok xw_h /\ an_within_cap xw_q xw_h = false /\
  an_sync xw_q xw_h = map Some [AOV (AVFlt 10); AOV (AVFlt 10); AOV (AVFlt 1); AOV (AVFlt 2);
                                 AOV AVNull; AOV (AVFlt 5); AOV (AVFlt 5)] /\
  an_xevicted xw_q xw_h = [false; false; false; false; true; false; false].
Proof.
  split; [reflexivity|]. split; [apply xw_rows_ok|]. split; [vm_compute; reflexivity|].
  split; vm_compute; reflexivity.
Qed.
