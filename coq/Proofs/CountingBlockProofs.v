(* Proofs about Model/CountingBlock.v (the "block" overflow strategy of the counting window's output channel):
   for every threshold, capacity and schedule the batches received, then those still waiting, are the window's
   batch sequence with whole batches removed -- and a batch is removed only by a send that found the channel
   FULL; with room (a channel that holds the run's batches, or a consumer that receives every batch at once)
   every batch is delivered, in order. *)
From Coq Require Import Lia List.
Import ListNotations.
From SV Require Import Model.GroupKey Model.Counting Model.CountingLag Model.CountingBlock Spec.GroupSpec
  Proofs.GroupKeyProofs Proofs.CountingProofs Proofs.CountingLagProofs.

(* ---- one send ------------------------------------------------------------------------------------ *)
(* the timeout branch needs a full channel: with a free slot the batch is enqueued and nothing is counted as
   dropped (the statement a re-used, un-drained timer breaks) *)
Lemma blk_send_room : forall cap s b, length (lg_queue s) < cap ->
  lg_queue (blk_send cap s b) = lg_queue s ++ [b]
  /\ lg_dropped (blk_send cap s b) = lg_dropped s
  /\ lg_sent (blk_send cap s b) = S (lg_sent s)
  /\ lg_taken (blk_send cap s b) = lg_taken s.
Proof.
  intros cap s b H. unfold blk_send. apply Nat.ltb_lt in H. rewrite H. simpl. repeat split; reflexivity.
Qed.

Lemma blk_send_full : forall cap s b, cap <= length (lg_queue s) ->
  lg_queue (blk_send cap s b) = lg_queue s
  /\ lg_dropped (blk_send cap s b) = S (lg_dropped s)
  /\ lg_sent (blk_send cap s b) = lg_sent s
  /\ lg_taken (blk_send cap s b) = lg_taken s.
Proof.
  intros cap s b H. unfold blk_send. apply Nat.ltb_ge in H. rewrite H. simpl. repeat split; reflexivity.
Qed.

(* ---- the invariant ------------------------------------------------------------------------------ *)
Definition blk_ok (cap : nat) (s : lag_state) (B : list kbatch) : Prop :=
  sublist (lg_taken s ++ lg_queue s) B
  /\ length (lg_taken s) + length (lg_queue s) + lg_dropped s = length B
  /\ lg_sent s = length (lg_taken s) + length (lg_queue s)
  /\ length (lg_queue s) <= cap
  /\ lg_evicted s = 0
  /\ (lg_dropped s = 0 \/ cap < length B).

Lemma blk_send_ok : forall cap s B b, blk_ok cap s B ->
  blk_ok cap (blk_send cap s b) (B ++ [b]) /\ lg_win (blk_send cap s b) = lg_win s.
Proof.
  intros cap s B b (HS & HC & HN & HQ & HE & HZ). unfold blk_send.
  destruct (length (lg_queue s) <? cap) eqn:E.
  - apply Nat.ltb_lt in E. split; [|reflexivity]. unfold blk_ok; simpl.
    rewrite !app_length. simpl. repeat split; try lia.
    rewrite app_assoc. apply sublist_snoc. exact HS.
  - apply Nat.ltb_ge in E. split; [|reflexivity]. unfold blk_ok; simpl.
    rewrite !app_length. simpl. repeat split; try lia.
    apply sublist_app_r. exact HS.
Qed.

Lemma blk_sendall_ok : forall cap o s B, blk_ok cap s B ->
  blk_ok cap (fold_left (blk_send cap) o s) (B ++ o) /\ lg_win (fold_left (blk_send cap) o s) = lg_win s.
Proof.
  induction o as [|b o IH]; intros s B H; simpl.
  - rewrite app_nil_r. split; [exact H|reflexivity].
  - destruct (blk_send_ok cap s B b H) as [H1 W1].
    destruct (IH _ _ H1) as [H2 W2]. rewrite <- app_assoc in H2. simpl in H2.
    split; [exact H2|]. rewrite W2. exact W1.
Qed.

Theorem blk_invariant : forall key n cap sched,
  lg_win (blk_run key n cap sched) = fst (cw_steps key n [] (lag_adds sched))
  /\ blk_ok cap (blk_run key n cap sched) (snd (cw_steps key n [] (lag_adds sched))).
Proof.
  intros key n cap sched. induction sched as [|x sched IH] using rev_ind.
  - simpl. split; [reflexivity|]. unfold blk_ok; simpl. repeat split; try lia. constructor.
  - destruct IH as [HW HOK]. unfold blk_run in *. rewrite fold_left_app. simpl.
    set (s := fold_left (blk_do key n cap) sched lag_init) in *.
    rewrite lag_adds_app. destruct x as [r|]; simpl.
    + rewrite cw_steps_app. simpl.
      rewrite <- HW.
      destruct (cw_add key n (lg_win s) r) as [w o] eqn:EA. simpl.
      rewrite app_nil_r.
      assert (H0 : blk_ok cap (mkLag w (lg_queue s) (lg_taken s) (lg_sent s) (lg_dropped s) (lg_evicted s))
                          (snd (cw_steps key n [] (lag_adds sched)))) by exact HOK.
      destruct (blk_sendall_ok cap o _ _ H0) as [H1 W1].
      split; [rewrite W1; reflexivity|exact H1].
    + rewrite app_nil_r. destruct (lg_queue s) as [|b q] eqn:EQ.
      * split; [exact HW|exact HOK].
      * split; [exact HW|].
        destruct HOK as (HS & HC & HN & HQ & HE & HZ). rewrite EQ in *.
        unfold blk_ok; simpl in *. rewrite !app_length in *. simpl in *.
        repeat split; try lia.
        rewrite <- app_assoc. simpl. exact HS.
Qed.

(* ---- statements ---------------------------------------------------------------------------------- *)
Theorem blk_never_merges : forall key n cap sched,
  let s := blk_run key n cap sched in
  let B := snd (cw_steps key n [] (lag_adds sched)) in
  sublist (lg_taken s ++ lg_queue s) B
  /\ length (lg_taken s) + length (lg_queue s) + lg_dropped s = length B
  /\ lg_sent s = length (lg_taken s) + length (lg_queue s)
  /\ length (lg_queue s) <= cap
  /\ lg_evicted s = 0.
Proof.
  intros key n cap sched s B. destruct (blk_invariant key n cap sched) as [_ (H1 & H2 & H3 & H4 & H5 & _)].
  repeat split; assumption.
Qed.

Theorem blk_exact_without_drop : forall key n cap sched,
  let s := blk_run key n cap sched in
  lg_dropped s = 0 ->
  lg_taken s ++ lg_queue s = snd (cw_steps key n [] (lag_adds sched)).
Proof.
  intros key n cap sched s D. subst s. destruct (blk_invariant key n cap sched) as [_ (H1 & H2 & _)].
  apply sublist_same_length; [exact H1|]. rewrite app_length. lia.
Qed.

Theorem blk_exact_within_capacity : forall key n cap sched,
  let s := blk_run key n cap sched in
  length (snd (cw_steps key n [] (lag_adds sched))) <= cap ->
  lg_dropped s = 0 /\ lg_sent s = length (snd (cw_steps key n [] (lag_adds sched)))
  /\ lg_taken s ++ lg_queue s = snd (cw_steps key n [] (lag_adds sched)).
Proof.
  intros key n cap sched s L. subst s.
  destruct (blk_invariant key n cap sched) as [_ (H1 & H2 & H3 & _ & _ & HZ)].
  set (s := blk_run key n cap sched) in *. assert (Z0 : lg_dropped s = 0) by (destruct HZ; lia).
  repeat split; try lia.
  apply sublist_same_length; [exact H1|]. rewrite app_length. lia.
Qed.

(* per key tuple: what is received / waiting are N-blocks of the tuple's rows in increasing order, also when
   full-channel timeouts dropped batches *)
Theorem blk_blocks_per_key : forall n cap sch sched t, 1 <= n ->
  Forall (fun r => conforms sch (ktuple_of r)) (lag_adds sched) -> conforms sch t ->
  let s := blk_run cnt_key n cap sched in
  sublist (map (map krid) (kbatches_of (tuple_key s_global t) (lg_taken s ++ lg_queue s)))
          (let ids := map krid (krows_of t (lag_adds sched)) in chunks (length ids) n ids).
Proof.
  intros n cap sch sched t N HC HT s.
  rewrite <- (counting_matches_spec_blocks n sch (lag_adds sched) t N HC HT).
  apply sublist_map. unfold kbatches_of. apply sublist_map. apply sublist_filter.
  destruct (blk_invariant cnt_key n cap sched) as [_ (H1 & _)]. exact H1.
Qed.

(* ---- a consumer that receives every batch at once ------------------------------------------------- *)
Lemma cw_add_out : forall key n st r,
  snd (cw_add key n st r) = [] \/ exists b, snd (cw_add key n st r) = [b].
Proof.
  intros key n st r. unfold cw_add.
  destruct (cw_cut n (cw_buf_get st (key r) ++ [r])) as [rest [d|]]; simpl.
  - right. eexists. reflexivity.
  - left. reflexivity.
Qed.

Lemma blk_prompt_from : forall key n cap rows s0, 1 <= cap -> lg_queue s0 = [] ->
  let s1 := fold_left (blk_do key n cap) (blk_prompt rows) s0 in
  lg_queue s1 = [] /\ lg_dropped s1 = lg_dropped s0
  /\ lg_taken s1 = lg_taken s0 ++ snd (cw_steps key n (lg_win s0) rows)
  /\ lg_sent s1 = lg_sent s0 + length (snd (cw_steps key n (lg_win s0) rows)).
Proof.
  intros key n cap rows. induction rows as [|r rows IH]; intros s0 HC HQ; simpl.
  - rewrite app_nil_r. repeat split; try assumption; lia.
  - destruct (cw_add_out key n (lg_win s0) r) as [E|[b E]];
      destruct (cw_add key n (lg_win s0) r) as [w o] eqn:EA; simpl in E; subst o; simpl.
    + (* nothing cut: the LTake finds an empty channel *)
      rewrite HQ. simpl.
      specialize (IH (mkLag w [] (lg_taken s0) (lg_sent s0) (lg_dropped s0) (lg_evicted s0)) HC eq_refl).
      simpl in IH. destruct (cw_steps key n w rows) as [st2 o2] eqn:ES. simpl in *. exact IH.
    + (* one batch cut: sent into the empty channel, received at once *)
      unfold blk_send. simpl. rewrite HQ. simpl.
      assert (HL : (0 <? cap) = true) by (apply Nat.ltb_lt; lia). rewrite HL. simpl.
      specialize (IH (mkLag w [] (lg_taken s0 ++ [b]) (S (lg_sent s0)) (lg_dropped s0) (lg_evicted s0)) HC eq_refl).
      simpl in IH. destruct (cw_steps key n w rows) as [st2 o2] eqn:ES. simpl in *.
      destruct IH as (I1 & I2 & I3 & I4). repeat split; try assumption.
      * rewrite I3. rewrite <- app_assoc. reflexivity.
      * lia.
Qed.

Theorem blk_prompt_exact : forall key n cap rows, 1 <= cap ->
  let s := blk_run key n cap (blk_prompt rows) in
  lg_queue s = [] /\ lg_dropped s = 0
  /\ lg_taken s = snd (cw_steps key n [] rows)
  /\ lg_sent s = length (snd (cw_steps key n [] rows)).
Proof.
  intros key n cap rows HC. unfold blk_run.
  destruct (blk_prompt_from key n cap rows lag_init HC eq_refl) as (H1 & H2 & H3 & H4).
  simpl in *. repeat split; assumption.
Qed.

(* ---- the timeout branch exists: a channel of 2 slots that nobody reads while rows 1..10 of one key arrive
   (N = 2) keeps [1;2] [3;4]; [5;6] [7;8] [9;10] run into the timeout and are counted --------------------- *)
Definition blk_witness : list lag_step :=
  let row i := mkKRow i [Some (KStr [97%N])] in
  blk_episode (map row [1; 2; 3; 4; 5; 6; 7; 8; 9; 10]%Z) 3.

Lemma blk_full_drops_new :
  let s := blk_run cnt_key 2 2 blk_witness in
  lg_queue s = [] /\ lg_dropped s = 3 /\ lg_evicted s = 0 /\ lg_sent s = 2
  /\ map (fun b => map krid (snd b)) (lg_taken s) = [[1; 2]; [3; 4]]%Z.
Proof. repeat split; reflexivity. Qed.
