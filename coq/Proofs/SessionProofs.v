(* Session-window model: what every reported session looks like, each accepted event is reported
   at most once and never lost, a session is delivered only under a watermark >= its end. *)
From Coq Require Import Lia Arith.
From SV Require Import Model.Session.

Definition flat_rows (l : list (Z * sess)) : list krow := flat_map (fun kv => se_rows (snd kv)) l.
Definition occ (i : Z) (l : list krow) : nat := length (filter (fun r => kid r =? i) l).

Lemma flat_rows_cons x l : flat_rows (x :: l) = se_rows (snd x) ++ flat_rows l.
Proof. reflexivity. Qed.
Lemma flat_rows_nil : flat_rows [] = [].
Proof. reflexivity. Qed.
Lemma occ_nil i : occ i [] = O.
Proof. reflexivity. Qed.
Arguments occ : simpl never.
Arguments flat_rows : simpl never.

Lemma occ_app i a b : occ i (a ++ b) = (occ i a + occ i b)%nat.
Proof. unfold occ. rewrite filter_app, app_length. reflexivity. Qed.

Definition keys {A} (l : list (Z * A)) : list Z := map fst l.

Lemma remove_key_not_in {A} k (l : list (Z * A)) : ~ In k (keys (remove_key k l)).
Proof.
  induction l as [|[k' v] r IH]; cbn; [tauto|]. destruct (k =? k') eqn:E; [exact IH|].
  cbn. intros [H|H]; [apply Z.eqb_neq in E; congruence|tauto].
Qed.

Lemma remove_key_incl {A} k (l : list (Z * A)) x : In x (keys (remove_key k l)) -> In x (keys l).
Proof.
  induction l as [|[k' v] r IH]; cbn; [tauto|]. destruct (k =? k'); cbn; [tauto|]. intros [H|H]; auto.
Qed.

Lemma remove_key_nodup {A} k (l : list (Z * A)) : NoDup (keys l) -> NoDup (keys (remove_key k l)).
Proof.
  induction l as [|[k' v] r IH]; cbn; intros H; [constructor|]. inversion H; subst.
  destruct (k =? k'); [auto|]. cbn. constructor; [|auto]. intros Hin. apply H2. eapply remove_key_incl; eauto.
Qed.

Lemma put_nodup {A} k (v : A) l : NoDup (keys l) -> NoDup (keys (put k v l)).
Proof. intros H. unfold put. cbn. constructor; [apply remove_key_not_in|apply remove_key_nodup, H]. Qed.

Lemma lookup_none_remove {A} k (l : list (Z * A)) : lookup k l = None -> remove_key k l = l.
Proof.
  induction l as [|[k' v] r IH]; cbn; [reflexivity|]. destruct (k =? k'); [discriminate|]. intros H. rewrite IH; auto.
Qed.

Lemma nodup_lookup_none {A} k (r : list (Z * A)) : ~ In k (keys r) -> lookup k r = None.
Proof.
  induction r as [|[k2 v2] r IH]; cbn; intros H; [reflexivity|]. destruct (k =? k2) eqn:E.
  - apply Z.eqb_eq in E. subst. exfalso. apply H. left. reflexivity.
  - apply IH. intros Hin. apply H. right. exact Hin.
Qed.

Lemma lookup_some_occ i k l se :
  NoDup (keys l) -> lookup k l = Some se ->
  occ i (flat_rows l) = (occ i (se_rows se) + occ i (flat_rows (remove_key k l)))%nat.
Proof.
  induction l as [|[k' v] r IH]; cbn [lookup remove_key keys map fst]; intros Hn H; [discriminate|]. inversion Hn; subst.
  rewrite flat_rows_cons, occ_app. cbn [snd].
  destruct (k =? k') eqn:E.
  - inversion H; subst. apply Z.eqb_eq in E. subst k'.
    rewrite (lookup_none_remove _ _ (nodup_lookup_none _ _ H2)). reflexivity.
  - rewrite flat_rows_cons, occ_app. cbn [snd]. rewrite (IH H3 H). lia.
Qed.

Lemma kins_occ i x l : occ i (flat_rows (kins x l)) = (occ i (se_rows (snd x)) + occ i (flat_rows l))%nat.
Proof.
  induction l as [|y r IH]; cbn [kins].
  - rewrite flat_rows_cons, occ_app. reflexivity.
  - destruct (fst x <=? fst y).
    + rewrite flat_rows_cons, occ_app. reflexivity.
    + rewrite !flat_rows_cons, !occ_app, IH. lia.
Qed.

Lemma ksort_occ i l : occ i (flat_rows (ksort l)) = occ i (flat_rows l).
Proof.
  induction l as [|x r IH]; [reflexivity|]. cbn [ksort fold_right]. fold (ksort r).
  rewrite kins_occ, flat_rows_cons, occ_app, IH. reflexivity.
Qed.

Lemma filter_split_occ i (f : Z * sess -> bool) l :
  (occ i (flat_rows (filter f l)) + occ i (flat_rows (filter (fun x => negb (f x)) l)) = occ i (flat_rows l))%nat.
Proof.
  induction l as [|x r IH]; [reflexivity|]. cbn [filter]. rewrite flat_rows_cons, occ_app.
  destruct (f x); cbn [negb]; rewrite flat_rows_cons, occ_app; lia.
Qed.

Lemma filter_nodup_keys {A} (f : Z * A -> bool) l : NoDup (keys l) -> NoDup (keys (filter f l)).
Proof.
  induction l as [|x r IH]; cbn; intros H; [constructor|]. inversion H; subst. destruct (f x); cbn; [|auto].
  constructor; [|auto]. intros Hin. apply H2. clear - Hin. induction r as [|y r IH]; cbn in *; [tauto|].
  destruct (f y); cbn in *; tauto.
Qed.

(* first-firing rows of a trace: results emitted by nfire (late updates are emitted by nadd) *)
Definition fired_rows (evs : list sev) : list krow :=
  flat_map (fun e => match e with SvBatch _ _ _ rows => rows | _ => [] end) evs.

Section SessionInv.
  Variable c : ncfg.

  Definition NInv (s : nst) : Prop := NoDup (keys (n_sess s)).

  (* rows placed into open sessions by one op *)
  Definition accepted (s : nst) (o : nop) : list krow :=
    match o with
    | NAdd id ts key now =>
        if now + nooo c + day <? ts then []
        else if is_late ts (update_event_time (nooo c) now ts (n_w s)) then [] else [(id, ts, key)]
    | _ => []
    end.

  (* first firings produced by one op *)
  Definition step_fired (o : nop) (evs : list sev) : list krow :=
    match o with NFire => fired_rows evs | _ => [] end.

  Lemma map_batch_rows l :
    fired_rows (map (fun kv : Z * sess => SvBatch (fst kv) (se_start (snd kv)) (se_end (snd kv)) (se_rows (snd kv))) l ++ [SvDE])
    = flat_rows l.
  Proof.
    unfold fired_rows. rewrite flat_map_app. cbn [flat_map]. rewrite !app_nil_r.
    induction l as [|x r IH]; [reflexivity|]. cbn [map flat_map]. rewrite IH, flat_rows_cons. reflexivity.
  Qed.

  Lemma nstep_conserve s o s' evs i :
    NInv s -> nstep c s o = (s', evs) ->
    NInv s' /\
    (occ i (flat_rows (n_sess s')) + occ i (step_fired o evs) = occ i (flat_rows (n_sess s)) + occ i (accepted s o))%nat.
  Proof.
    intros Hinv. destruct o as [id ts key now|id| | |now]; cbn [nstep accepted step_fired].
    - unfold nadd. destruct (now + nooo c + day <? ts); [intros [= <- <-]; cbn [n_sess]; rewrite !occ_nil; split; [exact Hinv|lia]|].
      destruct (is_late ts _).
      + destruct (0 <? nlateness c); [|intros [= <- <-]; cbn [n_sess]; rewrite !occ_nil; split; [exact Hinv|lia]].
        destruct (lookup key (n_trig s)) as [t|]; [|intros [= <- <-]; cbn [n_sess]; rewrite !occ_nil; split; [exact Hinv|lia]].
        destruct (in_sess _ ts); intros [= <- <-]; cbn [n_sess]; rewrite !occ_nil; (split; [exact Hinv|lia]).
      + intros [= <- <-]. cbn [n_sess]. split; [apply put_nodup, Hinv|].
        unfold put. rewrite flat_rows_cons, occ_app, occ_nil. cbn [snd].
        assert (Hnew: occ i [(id, ts, key)] = occ i [(id, ts, key)]) by reflexivity.
        destruct (lookup key (n_sess s)) as [se|] eqn:El.
        * rewrite (lookup_some_occ i key _ se Hinv El).
          destruct (se_last se <? ts); cbn [se_rows]; rewrite occ_app; lia.
        * rewrite (lookup_none_remove _ _ El). cbn [se_rows]. lia.
    - intros [= <- <-]. rewrite !occ_nil. split; [exact Hinv|lia].
    - destruct (n_pend s); [intros [= <- <-]; rewrite !occ_nil; split; [exact Hinv|lia]|].
      destruct (pop_chan (n_w s)) as [[x w']|]; intros [= <- <-]; cbn [n_sess]; rewrite !occ_nil; (split; [exact Hinv|lia]).
    - unfold nfire. destruct (n_pend s) as [wmk|]; [|intros [= <- <-]; rewrite !occ_nil; split; [exact Hinv|lia]].
      intros [= <- <-]. cbn [n_sess]. split; [apply filter_nodup_keys, Hinv|].
      rewrite map_batch_rows, ksort_occ, occ_nil.
      pose proof (filter_split_occ i (fun kv => se_end (snd kv) <=? wmk) (n_sess s)). lia.
    - intros [= <- <-]. cbn [n_sess]. rewrite !occ_nil. split; [exact Hinv|lia].
  Qed.

  (* accepted rows and first firings of a whole run *)
  Fixpoint run_accepted (s : nst) (h : list nop) : list krow :=
    match h with [] => [] | o :: r => accepted s o ++ run_accepted (fst (nstep c s o)) r end.
  Fixpoint run_fired (s : nst) (h : list nop) : list krow :=
    match h with [] => [] | o :: r => step_fired o (snd (nstep c s o)) ++ run_fired (fst (nstep c s o)) r end.

  Theorem nrun_conserve h : forall s i,
    NInv s ->
    (occ i (flat_rows (n_sess (fst (nrun c s h)))) + occ i (run_fired s h)
     = occ i (flat_rows (n_sess s)) + occ i (run_accepted s h))%nat.
  Proof.
    induction h as [|o r IH]; intros s i Hinv; cbn [nrun run_fired run_accepted]; [cbn [fst]; rewrite !occ_nil; lia|].
    destruct (nstep c s o) as [s1 e1] eqn:E1. cbn [fst snd].
    destruct (nstep_conserve s o s1 e1 i Hinv E1) as [Hi1 Hc].
    specialize (IH s1 i Hi1). destruct (nrun c s1 r) as [s2 e2]. cbn [fst] in *. rewrite !occ_app. lia.
  Qed.

  (* ids of the rows an op may accept *)
  Definition op_ids (o : nop) : list Z := match o with NAdd id _ _ _ => [id] | _ => [] end.

  Lemma occ_accepted_le s o i : (occ i (accepted s o) <= length (filter (Z.eqb i) (op_ids o)))%nat.
  Proof.
    destruct o as [id ts key now| | | |]; cbn [accepted op_ids]; try (rewrite occ_nil; cbn; lia).
    destruct (_ <? ts); [rewrite occ_nil; cbn; lia|]. destruct (is_late ts _); [rewrite occ_nil; cbn; lia|].
    unfold occ, kid. cbn. rewrite Z.eqb_sym. destruct (i =? id); cbn; lia.
  Qed.

  Lemma occ_run_accepted_le h : forall s i,
    (occ i (run_accepted s h) <= length (filter (Z.eqb i) (flat_map op_ids h)))%nat.
  Proof.
    induction h as [|o r IH]; intros s i; cbn [run_accepted flat_map]; [rewrite occ_nil; cbn; lia|].
    rewrite occ_app, filter_app, app_length. pose proof (occ_accepted_le s o i). specialize (IH (fst (nstep c s o)) i). lia.
  Qed.

  Lemma nodup_count (l : list Z) i : NoDup l -> (length (filter (Z.eqb i) l) <= 1)%nat.
  Proof.
    induction 1 as [|x l Hx Hn IH]; cbn; [lia|]. destruct (i =? x) eqn:E; [|exact IH].
    apply Z.eqb_eq in E. subst x. cbn.
    assert (filter (Z.eqb i) l = []).
    { clear - Hx. induction l as [|y l IH]; cbn; [reflexivity|]. destruct (i =? y) eqn:E.
      - apply Z.eqb_eq in E. subst. exfalso. apply Hx. left. reflexivity.
      - apply IH. intros H. apply Hx. right. exact H. }
    rewrite H. cbn. lia.
  Qed.

  (* C10: with distinct event ids, no event is reported in two sessions (nor twice in one) *)
  Theorem session_at_most_once h i :
    NoDup (flat_map op_ids h) -> (occ i (run_fired nst0 h) <= 1)%nat.
  Proof.
    intros Hn. pose proof (nrun_conserve h nst0 i ltac:(constructor)) as Hc. cbn [nst0 n_sess] in Hc. rewrite flat_rows_nil, occ_nil in Hc.
    pose proof (occ_run_accepted_le h nst0 i). pose proof (nodup_count _ i Hn). lia.
  Qed.

  (* C10: an accepted (on-time) event is never lost: it is in an open session of the state or has been reported *)
  Theorem session_never_lost h i :
    (1 <= occ i (run_accepted nst0 h))%nat ->
    (1 <= occ i (flat_rows (n_sess (fst (nrun c nst0 h)))) + occ i (run_fired nst0 h))%nat.
  Proof.
    intros Ha. pose proof (nrun_conserve h nst0 i ltac:(constructor)) as Hc. cbn [nst0 n_sess] in Hc. rewrite flat_rows_nil, occ_nil in Hc. lia.
  Qed.
End SessionInv.

(* ---- what a reported session looks like ---- *)
Section SessionShape.
  Variable c : ncfg.

  Fixpoint max_ts (d : Z) (l : list krow) : Z := match l with [] => d | r :: t => Z.max (kts r) (max_ts (kts r) t) end.

  Definition wf_sess (k : Z) (se : sess) : Prop :=
    se_rows se <> [] /\ Forall (fun r => kkey r = k) (se_rows se) /\
    se_end se = se_last se + ntimeout c /\
    (forall r, In r (se_rows se) -> kts r <= se_last se) /\ (exists r, In r (se_rows se) /\ kts r = se_last se) /\
    (exists r0 rest, se_rows se = r0 :: rest /\ se_start se = kts r0).

  Definition NWf (s : nst) : Prop := Forall (fun kv => wf_sess (fst kv) (snd kv)) (n_sess s).

  Lemma lookup_in {A} k (l : list (Z * A)) v : lookup k l = Some v -> In (k, v) l.
  Proof.
    induction l as [|[k' v'] r IH]; cbn; [discriminate|]. destruct (k =? k') eqn:E.
    - intros [= ->]. apply Z.eqb_eq in E. subst. left. reflexivity.
    - intros H. right. auto.
  Qed.

  Lemma remove_key_forall {A} (P : Z * A -> Prop) k l : Forall P l -> Forall P (remove_key k l).
  Proof. induction 1 as [|[k' v] r Hx Hr IH]; cbn; [constructor|]. destruct (k =? k'); [exact IH|constructor; assumption]. Qed.

  Lemma nstep_wf s o s' evs : NWf s -> nstep c s o = (s', evs) -> NWf s'.
  Proof.
    intros Hwf. destruct o as [id ts key now|id| | |now]; cbn [nstep].
    - unfold nadd. destruct (now + nooo c + day <? ts); [intros [= <- <-]; exact Hwf|].
      destruct (is_late ts _).
      + destruct (0 <? nlateness c); [|intros [= <- <-]; exact Hwf].
        destruct (lookup key (n_trig s)) as [t|]; [|intros [= <- <-]; exact Hwf].
        destruct (in_sess _ ts); intros [= <- <-]; exact Hwf.
      + intros [= <- <-]. unfold NWf, put. cbn [n_sess]. constructor; [|apply remove_key_forall, Hwf].
        cbn [fst snd]. destruct (lookup key (n_sess s)) as [se|] eqn:El.
        * apply lookup_in in El. unfold NWf in Hwf. rewrite Forall_forall in Hwf. specialize (Hwf _ El). cbn in Hwf.
          destruct Hwf as (Hne & Hk & He & Hle & [rm [Hrm Hrm']] & [r0 [rest [Hr Hs]]]).
          destruct (se_last se <? ts) eqn:Elt.
          -- apply Z.ltb_lt in Elt. split; [cbn; intros H; apply app_eq_nil in H as [_ H]; discriminate|]. cbn.
             split; [apply Forall_app; split; [exact Hk|constructor; [reflexivity|constructor]]|].
             split; [lia|]. split; [intros r Hin; apply in_app_or in Hin as [Hin|[<-|[]]]; [specialize (Hle r Hin); lia|cbn; lia]|].
             split; [exists (id, ts, key); split; [apply in_or_app; right; left; reflexivity|reflexivity]|].
             exists r0, (rest ++ [(id, ts, key)]). rewrite Hr. split; [reflexivity|exact Hs].
          -- apply Z.ltb_ge in Elt. split; [cbn; intros H; apply app_eq_nil in H as [_ H]; discriminate|]. cbn.
             split; [apply Forall_app; split; [exact Hk|constructor; [reflexivity|constructor]]|].
             split; [exact He|]. split; [intros r Hin; apply in_app_or in Hin as [Hin|[<-|[]]]; [auto|cbn; lia]|].
             split; [exists rm; split; [apply in_or_app; left; exact Hrm|exact Hrm']|].
             exists r0, (rest ++ [(id, ts, key)]). rewrite Hr. split; [reflexivity|exact Hs].
        * split; [cbn; discriminate|]. cbn. split; [constructor; [reflexivity|constructor]|]. split; [reflexivity|].
          split; [intros r [<-|[]]; cbn; lia|]. split; [exists (id, ts, key); split; [left; reflexivity|reflexivity]|].
          exists (id, ts, key), []. auto.
    - intros [= <- <-]. exact Hwf.
    - destruct (n_pend s); [intros [= <- <-]; exact Hwf|].
      destruct (pop_chan (n_w s)) as [[x w']|]; intros [= <- <-]; exact Hwf.
    - unfold nfire. destruct (n_pend s) as [wmk|]; [|intros [= <- <-]; exact Hwf].
      intros [= <- <-]. unfold NWf. cbn [n_sess]. unfold NWf in Hwf. clear - Hwf.
      induction Hwf as [|x r Hx Hr IH]; cbn; [constructor|]. destruct (negb _); [constructor; assumption|exact IH].
    - intros [= <- <-]. exact Hwf.
  Qed.

  Lemma kins_in {A} (x y : Z * A) l : In y (kins x l) -> y = x \/ In y l.
  Proof.
    induction l as [|z r IH]; cbn; [intros [H|[]]; auto|]. destruct (fst x <=? fst z); cbn.
    - intros [H|H]; auto.
    - intros [H|H]; [right; left; exact H|]. destruct (IH H); auto.
  Qed.
  Lemma ksort_in {A} (y : Z * A) l : In y (ksort l) -> In y l.
  Proof.
    induction l as [|x r IH]; cbn; [tauto|]. intros H. apply kins_in in H as [H|H]; [left; auto|right; apply IH, H].
  Qed.

  (* every session result delivered by the trigger step: own key only, end = latest + timeout,
     start = timestamp of its first-arrived event, delivered under a watermark >= its end; and every
     session still open afterwards ends after that watermark *)
  Theorem nfire_shape s s' evs wmk :
    NWf s -> n_pend s = Some wmk -> nfire c s = (s', evs) ->
    (forall k st en rows, In (SvBatch k st en rows) evs ->
        rows <> [] /\ Forall (fun r => kkey r = k) rows /\
        (exists r, In r rows /\ en = kts r + ntimeout c) /\ (forall r, In r rows -> kts r + ntimeout c <= en) /\
        (exists r0 rest, rows = r0 :: rest /\ st = kts r0) /\ en <= wmk) /\
    (forall k se, In (k, se) (n_sess s') -> wmk < se_end se) /\ n_pend s' = None.
  Proof.
    intros Hwf Hp. unfold nfire. rewrite Hp. intros [= <- <-]. split; [|split; [|reflexivity]].
    - intros k st en rows Hin. apply in_app_or in Hin as [Hin|[H|[]]]; [|discriminate].
      apply in_map_iff in Hin as [[k' se] [Heq Hin]]. cbn in Heq. inversion Heq; subst. clear Heq.
      apply ksort_in, filter_In in Hin as [Hin Hexp]. cbn in Hexp. apply Z.leb_le in Hexp.
      unfold NWf in Hwf. rewrite Forall_forall in Hwf. specialize (Hwf _ Hin). cbn in Hwf.
      destruct Hwf as (Hne & Hk & He & Hle & [rm [Hrm Hrm']] & Hfirst).
      split; [exact Hne|]. split; [exact Hk|]. split; [exists rm; split; [exact Hrm|lia]|].
      split; [intros r Hr; specialize (Hle r Hr); lia|]. split; [exact Hfirst|exact Hexp].
    - cbn [n_sess]. intros k se Hin. apply filter_In in Hin as [_ H]. cbn in H. apply negb_true_iff, Z.leb_gt in H. exact H.
  Qed.
End SessionShape.

(* ---- the recorded findings, as refutations on the model (which reproduces the code) ---- *)
Definition ncfg1 : ncfg := {| ntimeout := 1000; nooo := 0; nlateness := 0 |}.
Definition drainN : list nop := [NDeliverBegin; NFire; NDeliverBegin; NFire; NDeliverBegin; NFire; NDeliverBegin; NFire].

(* F3a: a key's events 10.0, 10.1, 15.0 (timeout 1.0) are reported as ONE session [10.0, 16.0) *)
Lemma gap_not_split_witness :
  snd (nrun ncfg1 nst0 ([NAdd 1 10000 1 0; NAdd 2 10100 1 0; NAdd 3 15000 1 0] ++ drainN ++ [NAdd 4 30000 99 0] ++ drainN))
  = [SvAdd 1 10000 1; SvAdd 2 10100 1; SvAdd 3 15000 1; SvDB 10000; SvDE; SvDB 10100; SvDE; SvDB 15000; SvDE; SvD0; SvAdd 4 30000 99;
     SvDB 30000; SvBatch 1 10000 16000 [(1, 10000, 1); (2, 10100, 1); (3, 15000, 1)]; SvDE; SvD0; SvD0; SvD0].
Proof. vm_compute. reflexivity. Qed.

(* ... and the outcome depends on the relative speed: another key's traffic in between splits it *)
Lemma speed_dependence_witness :
  fired_rows (snd (nrun ncfg1 nst0 ([NAdd 1 10000 1 0; NAdd 2 10100 1 0; NAdd 5 12000 2 0] ++ drainN ++ [NAdd 3 15000 1 0] ++ drainN)))
  = [(1, 10000, 1); (2, 10100, 1); (5, 12000, 2)].
Proof. vm_compute. reflexivity. Qed.

(* F3c: window_start is the first-arrived timestamp, not the earliest *)
Lemma start_not_earliest_witness :
  snd (nrun {| ntimeout := 1000; nooo := 500; nlateness := 0 |} nst0
         ([NAdd 1 10400 1 0; NAdd 2 10100 1 0; NAdd 3 30000 99 0] ++ drainN))
  = [SvAdd 1 10400 1; SvAdd 2 10100 1; SvAdd 3 30000 99; SvDB 9900; SvDE; SvDB 29500;
     SvBatch 1 10400 11400 [(1, 10400, 1); (2, 10100, 1)]; SvDE; SvD0; SvD0].
Proof. vm_compute. reflexivity. Qed.

Lemma nrun_wf c h : forall s, NWf c s -> NWf c (fst (nrun c s h)).
Proof.
  induction h as [|o r IH]; intros s Hwf; cbn [nrun]; [exact Hwf|].
  destruct (nstep c s o) as [s1 e1] eqn:E1. pose proof (nstep_wf c s o s1 e1 Hwf E1) as H1.
  specialize (IH s1 H1). destruct (nrun c s1 r) as [s2 e2]. exact IH.
Qed.

Lemma NWf_0 c : NWf c nst0.
Proof. constructor. Qed.

(* the property's "consecutive events of a session differ by at most the timeout" fails on the model *)
Lemma gap_splits_refuted :
  exists h k st en r1 r2 rows,
    In (SvBatch k st en rows) (snd (nrun ncfg1 nst0 h)) /\ In r1 rows /\ In r2 rows /\
    kts r1 + ntimeout ncfg1 < kts r2 /\ (forall r, In r rows -> kts r <= kts r1 \/ kts r2 <= kts r).
Proof.
  eexists. exists 1, 10000, 16000, (2, 10100, 1), (3, 15000, 1). eexists.
  rewrite gap_not_split_witness. split; [do 12 right; left; reflexivity|].
  split; [right; left; reflexivity|]. split; [right; right; left; reflexivity|]. split; [cbn; lia|].
  intros r [<-|[<-|[<-|[]]]]; cbn; lia.
Qed.

Lemma start_is_earliest_refuted :
  exists h k st en rows r, In (SvBatch k st en rows) (snd (nrun {| ntimeout := 1000; nooo := 500; nlateness := 0 |} nst0 h)) /\
    In r rows /\ kts r < st.
Proof.
  eexists. exists 1, 10400, 11400. eexists. exists (2, 10100, 1).
  rewrite start_not_earliest_witness. split; [do 6 right; left; reflexivity|]. split; [right; left; reflexivity|cbn; lia].
Qed.

(* same events of key 1, fed at different relative speeds (another key's row handled in between):
   one session in one run, two sessions in the other *)
Lemma speed_independent_refuted :
  exists h1 h2,
    fired_rows (snd (nrun ncfg1 nst0 h1)) = [(1, 10000, 1); (2, 10100, 1); (5, 12000, 2)] /\
    In (SvBatch 1 10000 16000 [(1, 10000, 1); (2, 10100, 1); (3, 15000, 1)]) (snd (nrun ncfg1 nst0 h2)).
Proof.
  eexists. eexists. split; [apply speed_dependence_witness|].
  rewrite gap_not_split_witness. do 12 right. left. reflexivity.
Qed.
