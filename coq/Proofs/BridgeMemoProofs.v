(* C20 — proofs about Model/BridgeMemo.v: a memo table keyed by the expression text is transparent
   exactly for decisions that do not look at the row; the concat verdict looks at the row. *)
From Coq Require Import List Bool.
From SV Require Import Base.Bytes Model.Isolation Model.BridgeMemo Proofs.IsolationProofs.
Import ListNotations.

Lemma bm_find_same : forall A (t t' : bytes) (m : bm_memo A), bytes_eqb t t' = true -> bm_find t m = bm_find t' m.
Proof. intros A t t' m H. apply iso_bytes_eqb_eq in H. subst. reflexivity. Qed.

(* one evaluation through a table that is ok returns the decision's value and leaves the table ok *)
Lemma bm_eval_ok : forall A (d : bytes -> irow -> A) m t r,
  (forall t r r', d t r = d t r') -> bm_ok d m ->
  fst (bm_eval d m t r) = d t r /\ bm_ok d (snd (bm_eval d m t r)).
Proof.
  intros A d m t r Hd Hok. unfold bm_eval. destruct (bm_find t m) as [v|] eqn:Hf; simpl.
  - split; [symmetry; apply (Hok t v Hf) | exact Hok].
  - split; [reflexivity|]. intros t' v'. simpl. destruct (bytes_eqb t' t) eqn:He.
    + intros Hv r'. injection Hv as Hv. subst v'. apply iso_bytes_eqb_eq in He. subst t'. apply Hd.
    + intros Hv. apply (Hok t' v' Hv).
Qed.

Lemma bm_nil_ok : forall A (d : bytes -> irow -> A), bm_ok d [].
Proof. intros A d t v H. discriminate. Qed.

Lemma bm_run_ok : forall A (d : bytes -> irow -> A) evs m,
  (forall t r r', d t r = d t r') -> bm_ok d m ->
  fst (bm_run d m evs) = bm_fresh d evs /\ bm_ok d (snd (bm_run d m evs)).
Proof.
  intros A d evs. induction evs as [|[t r] evs IH]; intros m Hd Hok; simpl.
  - split; [reflexivity | exact Hok].
  - destruct (bm_eval_ok A d m t r Hd Hok) as [Hv Hok1].
    destruct (bm_eval d m t r) as [v m1] eqn:He. simpl in Hv, Hok1.
    destruct (IH m1 Hd Hok1) as [Hvs Hok2].
    destruct (bm_run d m1 evs) as [vs m2] eqn:Hr. simpl in Hvs, Hok2. simpl.
    split; [rewrite Hv, Hvs; reflexivity | exact Hok2].
Qed.

(* text-only decision: after ANY history of evaluations (other instances, other rows, other texts) an
   evaluation returns what it returns in a fresh process *)
Lemma bm_transparent_after_history : forall A (d : bytes -> irow -> A),
  (forall t r r', d t r = d t r') ->
  forall evs t r, fst (bm_eval d (snd (bm_run d [] evs)) t r) = d t r.
Proof.
  intros A d Hd evs t r.
  destruct (bm_run_ok A d evs [] Hd (bm_nil_ok A d)) as [_ Hok].
  apply (bm_eval_ok A d _ t r Hd Hok).
Qed.

(* row-dependent decision: the two-evaluation history (t, r), (t, r') hands the second evaluation
   the first one's value *)
Lemma bm_two_step : forall A (d : bytes -> irow -> A) t r r',
  fst (bm_run d [] [(t, r); (t, r')]) = [d t r; d t r].
Proof.
  intros A d t r r'. unfold bm_run, bm_eval. simpl. rewrite iso_bytes_eqb_refl. reflexivity.
Qed.

Lemma bm_transparent_iff : forall A (d : bytes -> irow -> A),
  (forall evs, fst (bm_run d [] evs) = bm_fresh d evs) <-> (forall t r r', d t r = d t r').
Proof.
  intros A d. split.
  - intros H t r r'. specialize (H [(t, r); (t, r')]). rewrite bm_two_step in H.
    unfold bm_fresh in H. simpl in H. injection H as H. exact H.
  - intros Hd evs. apply (bm_run_ok A d evs [] Hd (bm_nil_ok A d)).
Qed.

(* the concat verdict of a text without a literal operand and with at least one column operand depends
   on the row: a row where that column is a string, a row where every column is absent / a number *)
Lemma bm_existsb_nil_row : forall fs, existsb (fun f => bm_is_str (iso_lookup f [])) fs = false.
Proof. induction fs as [|f fs IH]; simpl; auto. Qed.

Lemma bm_concat_row_dependent : forall lit ops t f,
  lit t = false -> In f (ops t) ->
  bm_concat_verdict lit ops t [(f, IStr [])] = true /\ bm_concat_verdict lit ops t [] = false.
Proof.
  intros lit ops t f Hl Hin. unfold bm_concat_verdict. rewrite Hl. simpl. split.
  - apply existsb_exists. exists f. split; [exact Hin|]. simpl. rewrite iso_bytes_eqb_refl. reflexivity.
  - apply bm_existsb_nil_row.
Qed.

(* ... so memoising it by the text is not transparent: instance A evaluates t on a row where the column
   is a string, then instance B on a row where it is not; B is told "string concatenation", alone it
   is told "not" *)
Lemma bm_concat_memo_refuted : forall lit ops t f,
  lit t = false -> In f (ops t) ->
  exists rA rB,
    fst (bm_eval (bm_concat_verdict lit ops) (snd (bm_run (bm_concat_verdict lit ops) [] [(t, rA)])) t rB) = true /\
    fst (bm_eval (bm_concat_verdict lit ops) [] t rB) = false.
Proof.
  intros lit ops t f Hl Hin. destruct (bm_concat_row_dependent lit ops t f Hl Hin) as [H1 H2].
  exists [(f, IStr [])], []. split.
  - unfold bm_run, bm_eval. simpl. rewrite iso_bytes_eqb_refl. simpl. exact H1.
  - unfold bm_eval. simpl. exact H2.
Qed.
