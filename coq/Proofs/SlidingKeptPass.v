(* C08: the clause of Spec/SlideKeptSpec.v, proved of the model over ALL histories (not only the one firing step of
   Proofs/SlidingKept.v).  A row that is in the buffer while a watermark wmk is being handled - whenever and however it
   got there: on time, late but inside the current slot, ingested during the callback of an earlier firing of the same
   pass - is reported in EVERY interval [a, a+size) on the slot grid at or after the current slot that covers it and
   whose end the watermark has passed, BEFORE the handling of that watermark can end (the step that would emit EvDE):
     1. srun_track_or: along any history the row either has been reported in [a, a+size) or is still buffered with the
        interval at or after the slot (sstep_track, lifted over histories without the "slot moved past" premise);
     2. srun_pend_kept: the pending watermark stays pending as long as no EvDE is emitted;
     3. sfire_not_DE: while such a row is buffered the fire step cannot end the pass. *)
From Coq Require Import Lia Arith Sorted.
From SV Require Import Model.Sliding Proofs.TumblingProofs Proofs.TumblingComplete Proofs.SlidingProofs Proofs.SlidingComplete.
From SV Require Proofs.SlidingKept.

Section SKeptPass.
  Variable c : scfg.
  Hypothesis Hslide : 0 < sslide c.
  Hypothesis Hsize : 0 < ssize c.

  Lemma srun_track_or h : forall s s' tr r a k,
    SInv c s -> Forall nonneg_op h -> s_init s = true -> In r (s_data s) ->
    0 <= k -> a = s_slot s + k * sslide c -> a <= rts r < a + ssize c ->
    srun c s h = (s', tr) ->
    sreported r a tr \/
    (In r (s_data s') /\ s_init s' = true /\ SInv c s' /\ exists k', 0 <= k' /\ a = s_slot s' + k' * sslide c).
  Proof.
    induction h as [|o rest IH]; intros s s' tr r a k Hinv Hh Hi Hin Hk Ha Hcov; cbn [srun].
    - intros [= <- <-]. right. split; [exact Hin|]. split; [exact Hi|]. split; [exact Hinv|]. exists k; auto.
    - destruct (sstep c s o) as [s1 e1] eqn:E1. destruct (srun c s1 rest) as [s2 e2] eqn:E2. intros [= <- <-].
      inversion Hh; subst. pose proof (sstep_SInv c Hslide Hsize _ _ _ _ Hinv H1 E1) as Hi1.
      destruct (sstep_track c Hslide Hsize _ _ _ _ r _ k Hinv H1 Hi Hin Hk eq_refl Hcov E1) as [(Hd & Hi' & k' & Hk' & Ha')|Hrep].
      + assert (Hcov' : s_slot s1 + k' * sslide c <= rts r < s_slot s1 + k' * sslide c + ssize c) by (rewrite <- Ha'; exact Hcov).
        destruct (IH s1 s2 e2 r _ k' Hi1 H2 Hi' Hd Hk' eq_refl Hcov' E2) as [Hrep|Hrest].
        * left. apply sreported_app_r. rewrite Ha'. exact Hrep.
        * right. rewrite Ha'. exact Hrest.
      + left. apply sreported_app_l, Hrep.
  Qed.

  Lemma sstep_pend_kept s o s' evs w :
    s_pend s = Some w -> sstep c s o = (s', evs) -> ~ In EvDE evs -> s_pend s' = Some w.
  Proof.
    intros Hp E Hn. destruct o as [id ts now|id| | |now]; cbn [sstep] in E.
    - unfold sadd in E. destruct (sadd_core c id ts now s) as [s1 bs] eqn:E1. inversion E; subst s' evs.
      destruct (sadd_core_shape c _ _ _ _ _ _ E1) as (_ & _ & Sp & _). rewrite Sp. exact Hp.
    - inversion E; subst. exact Hp.
    - rewrite Hp in E. inversion E; subst. exact Hp.
    - unfold sfire_step in E. rewrite Hp in E.
      destruct (negb (s_init s)); [inversion E; subst; exfalso; apply Hn; left; reflexivity|].
      destruct (omin_list _) as [am|].
      + destruct (am + ssize c <=? w).
        * inversion E; subst. reflexivity.
        * inversion E; subst; exfalso; apply Hn; left; reflexivity.
      + inversion E; subst; exfalso; apply Hn; left; reflexivity.
    - inversion E; subst. cbn. exact Hp.
  Qed.

  Lemma srun_pend_kept h : forall s s' tr w,
    s_pend s = Some w -> srun c s h = (s', tr) -> ~ In EvDE tr -> s_pend s' = Some w.
  Proof.
    induction h as [|o rest IH]; intros s s' tr w Hp; cbn [srun].
    - intros [= <- <-] _. exact Hp.
    - destruct (sstep c s o) as [s1 e1] eqn:E1. destruct (srun c s1 rest) as [s2 e2] eqn:E2. intros [= <- <-] Hn.
      apply (IH s1 s2 e2 w); auto.
      + eapply sstep_pend_kept; eauto. intro Hx. apply Hn, in_or_app. left. exact Hx.
      + intro Hx. apply Hn, in_or_app. right. exact Hx.
  Qed.

  (* the pass cannot end while a buffered row has a covering interval at or after the slot that the watermark passed *)
  Lemma sfire_not_DE s wmk r a k :
    s_init s = true -> s_pend s = Some wmk -> In r (s_data s) ->
    0 <= k -> a = s_slot s + k * sslide c -> a <= rts r < a + ssize c -> a + ssize c <= wmk ->
    exists b, snd (sfire_step c s) = [EvBatch b] /\ b_start b <= a.
  Proof.
    intros Hi Hp Hin Hk Ha Hcov Hw.
    destruct (first_win_min c Hslide Hsize (s_slot s) (rts r) a k Hk Ha Hcov) as (a0 & k0 & Hfw & Ha0 & Hk0).
    assert (Hle : a0 <= a) by nia.
    destruct (SlidingKept.sfire_step_fires_for_buffered c s wmk r a0 Hp Hi Hin Hfw ltac:(lia)) as (b & Hb & Hs & _).
    exists b. split; [exact Hb|lia].
  Qed.

  (* state after the Add of a row with a timestamp inside the current slot while a watermark is pending *)
  Theorem sliding_kept_row_reported_before_pass_ends h1 id ts now h2 s1 tr1 s2 tr2 wmk a k :
    Forall nonneg_op (h1 ++ Add id ts now :: h2) ->
    srun c sst0 h1 = (s1, tr1) ->
    s_pend s1 = Some wmk -> s_init s1 = true -> sinwin c (s_slot s1) ts = true ->
    0 <= k -> a = s_slot s1 + k * sslide c -> a <= ts < a + ssize c -> a + ssize c <= wmk ->
    srun c s1 (Add id ts now :: h2) = (s2, tr2) ->
    ~ In EvDE tr2 ->
    sreported (id, ts) a tr2 \/ exists b, snd (sfire_step c s2) = [EvBatch b] /\ b_start b <= a.
  Proof.
    intros Hnn Hr1 Hp Hi Hin Hk Ha Hcov Hw Hrun Hn.
    apply Forall_app in Hnn as [Hn1 Hn2]. inversion Hn2 as [|? ? Hts Hn3]; subst.
    pose proof (srun_SInv c Hslide Hsize _ _ _ _ (SInv_0 c) Hn1 Hr1) as Hi1.
    cbn [srun] in Hrun. destruct (sstep c s1 (Add id ts now)) as [sa ea] eqn:Ea.
    destruct (srun c sa h2) as [sb eb] eqn:Eb. inversion Hrun; subst s2 tr2. clear Hrun.
    pose proof (sstep_SInv c Hslide Hsize _ _ _ _ Hi1 Hts Ea) as Hia.
    assert (Hpa : s_pend sa = Some wmk).
    { eapply sstep_pend_kept; eauto. intro Hx. apply Hn, in_or_app. left. exact Hx. }
    assert (Hkept : In (id, ts) (s_data sa) /\ s_slot sa = s_slot s1 /\ s_init sa = true).
    { cbn [sstep] in Ea. unfold sadd in Ea. destruct (sadd_core c id ts now s1) as [sx bx] eqn:Ex.
      destruct (SlidingKept.sadd_in_slot_kept c s1 id ts now sx bx Hi Hin Ex) as (H1 & H2 & H3 & _). inversion Ea; subst. auto. }
    destruct Hkept as (Hd & Hs & Hia').
    assert (Hcov' : s_slot sa + k * sslide c <= rts (id, ts) < s_slot sa + k * sslide c + ssize c) by (rewrite Hs; exact Hcov).
    destruct (srun_track_or h2 sa sb eb (id, ts) _ k Hia Hn3 Hia' Hd Hk eq_refl Hcov' Eb) as [Hrep|(Hdb & Hib & _ & k' & Hk' & Ha')].
    - left. apply sreported_app_r. rewrite <- Hs. exact Hrep.
    - right. assert (Hpb : s_pend sb = Some wmk).
      { eapply srun_pend_kept; eauto. intro Hx. apply Hn, in_or_app. right. exact Hx. }
      rewrite <- Hs.
      apply (sfire_not_DE sb wmk (id, ts) _ k' Hib Hpb Hdb Hk' Ha'); [exact Hcov'|rewrite Hs; exact Hw].
  Qed.

  (* corollary in the shape of the checker's clause: if the step after the history ends the pass, the row HAS been
     reported in [a, a+size) *)
  Corollary sliding_kept_row_reported_at_pass_end h1 id ts now h2 s1 tr1 s2 tr2 wmk a k :
    Forall nonneg_op (h1 ++ Add id ts now :: h2) ->
    srun c sst0 h1 = (s1, tr1) ->
    s_pend s1 = Some wmk -> s_init s1 = true -> sinwin c (s_slot s1) ts = true ->
    0 <= k -> a = s_slot s1 + k * sslide c -> a <= ts < a + ssize c -> a + ssize c <= wmk ->
    srun c s1 (Add id ts now :: h2) = (s2, tr2) ->
    ~ In EvDE tr2 ->
    snd (sfire_step c s2) = [EvDE] ->
    sreported (id, ts) a tr2.
  Proof.
    intros Hnn Hr1 Hp Hi Hin Hk Ha Hcov Hw Hrun Hn Hde.
    destruct (sliding_kept_row_reported_before_pass_ends h1 id ts now h2 s1 tr1 s2 tr2 wmk a k
                Hnn Hr1 Hp Hi Hin Hk Ha Hcov Hw Hrun Hn) as [Hrep|(b & Hb & _)]; [exact Hrep|].
    rewrite Hb in Hde. discriminate.
  Qed.
End SKeptPass.
