(* The executable event-time checker of Spec/WinSpec.v (chk_C01 = chk_trace: the clauses the harness applies to the
   real tumbling window's trace) accepts every trace of the model: for every history of atomic steps with distinct row
   ids, non-negative timestamps, a fixed wall clock and the idle mechanism off, no clause is violated.  So the model
   satisfies the whole clause list, and an implementation whose traces equal the model's is never flagged. *)
From Coq Require Import Lia Arith Sorted.
From SV Require Import Model.Tumbling Spec.WinSpec Proofs.TumblingProofs Proofs.TumblingComplete Proofs.TumblingWatermark Proofs.TumblingPTSpec.

Section SpecSound.
  Variable c : cfg.
  Variable base : Z.
  Hypothesis Hsize : 0 < size c.
  Hypothesis Hooo : 0 <= ooo c.
  Hypothesis Hidle : idle c = 0.

  (* ---------------- the watermark object against the checker's bookkeeping ---------------- *)
  Definition Osee (seen : list row) (x : Z) : Prop :=
    exists r, In r seen /\ sane c base (rts r) = true /\ rts r - ooo c = x.
  Definition olist (o : option Z) : list Z := match o with Some x => [x] | None => [] end.
  Definition lasto (l : list Z) (d : option Z) : option Z := match l with [] => d | _ => Some (last l 0) end.

  Record WK (w : wm) (seen : list row) (mx lastw : option Z) : Prop := {
    wk_max : maxEv w = mx;
    wk_cur : cur w = option_map (fun m => m - ooo c) mx;
    wk_maxseen : forall m, mx = Some m -> exists r, In r seen /\ sane c base (rts r) = true /\ rts r = m;
    wk_sorted : StronglySorted Z.lt (olist lastw ++ chan w);
    wk_sent : sent w = lasto (chan w) lastw;
    wk_orig : Forall (Osee seen) (chan w) }.

  Lemma Osee_mono seen r x : Osee seen x -> Osee (seen ++ [r]) x.
  Proof. intros (r0 & H1 & H2 & H3). exists r0. split; [apply in_or_app; left; exact H1|auto]. Qed.

  Lemma lasto_app l x d : lasto (l ++ [x]) d = Some x.
  Proof. unfold lasto. destruct (l ++ [x]) eqn:E; [destruct l; discriminate|]. rewrite <- E, last_last. reflexivity. Qed.

  Lemma sorted_snoc (l : list Z) x :
    StronglySorted Z.lt l -> (forall y, In y l -> y < x) -> StronglySorted Z.lt (l ++ [x]).
  Proof.
    induction 1 as [|a l Hs IH Hf]; intros Hlt; cbn [app]; [constructor; constructor|].
    constructor.
    - apply IH. intros y Hy. apply Hlt. right. exact Hy.
    - apply Forall_app. split; [exact Hf|]. constructor; [|constructor]. apply Hlt. left. reflexivity.
  Qed.

  Lemma sorted_last_max (l : list Z) : StronglySorted Z.lt l -> forall y, In y l -> y <= last l 0.
  Proof.
    induction 1 as [|a l Hs IH Hf]; intros y Hy; [contradiction|].
    destruct l as [|b l'].
    - destruct Hy as [<-|[]]. cbn. lia.
    - change (last (a :: b :: l') 0) with (last (b :: l') 0). destruct Hy as [<-|Hy].
      + rewrite Forall_forall in Hf. assert (a < b) by (apply Hf; left; reflexivity).
        specialize (IH b (or_introl eq_refl)). lia.
      + apply IH. exact Hy.
  Qed.

  (* sendWatermarkLocked keeps the invariant *)
  Lemma send_WK w seen mx lastw : WK w seen mx lastw -> WK (send w) seen mx lastw.
  Proof.
    intros H. pose proof H as [Hm Hc Hs Hso Hse Ho]. unfold send. destruct (cur w) as [cv|] eqn:Ec; [|exact H].
    destruct (ogt cv (sent w) && Nat.ltb (length (chan w)) chan_cap) eqn:E; [|exact H].
    apply andb_prop in E as [Eg _].
    constructor; cbn [maxEv cur sent chan]; try assumption.
    - rewrite app_assoc. apply sorted_snoc; [exact Hso|].
      intros y Hy. pose proof (sorted_last_max _ Hso y Hy) as Hle.
      assert (Hlast : sent w = Some (last (olist lastw ++ chan w) 0)).
      { rewrite Hse. unfold lasto. destruct (chan w) as [|a l] eqn:Ech.
        - destruct lastw as [lw|]; cbn in *; [reflexivity|contradiction].
        - f_equal. destruct lastw as [lw|]; cbn [olist app]; [|reflexivity].
          change (last (lw :: a :: l) 0) with (last (a :: l) 0). reflexivity. }
      rewrite Hlast in Eg. cbn in Eg. apply Z.ltb_lt in Eg. lia.
    - symmetry. apply lasto_app.
    - apply Forall_app. split; [exact Ho|]. constructor; [|constructor].
      destruct mx as [m|]; cbn [option_map] in Hc; [|discriminate].
      assert (Hcv : cv = m - ooo c) by congruence.
      destruct (Hs m eq_refl) as (r & Hr & Hsn & Hts). exists r. split; [exact Hr|split; [exact Hsn|lia]].
  Qed.

  Definition mx_add (ts : Z) (mx : option Z) : option Z :=
    if sane c base ts then Some (omax ts mx) else mx.

  Lemma uet_WK w seen mx lastw id ts :
    WK w seen mx lastw ->
    WK (update_event_time (ooo c) base ts w) (seen ++ [(id, ts)]) (mx_add ts mx) lastw.
  Proof.
    intros [Hm Hc Hs Hso Hse Ho]. unfold update_event_time, mx_add, sane. cbn [maxEv cur sent lastEv chan].
    assert (Ho' : Forall (Osee (seen ++ [(id, ts)])) (chan w)).
    { eapply Forall_impl; [|exact Ho]. intros x. apply Osee_mono. }
    assert (Hs' : forall m, mx = Some m -> exists r, In r (seen ++ [(id, ts)]) /\ sane c base (rts r) = true /\ rts r = m).
    { intros m Hmm. destruct (Hs m Hmm) as (r & Hr & A & B). exists r. split; [apply in_or_app; left; exact Hr|auto]. }
    destruct (base + ooo c + day <? ts) eqn:Ef.
    - assert (E : (ts <=? base + ooo c + day) = false) by (apply Z.leb_gt; apply Z.ltb_lt in Ef; lia).
      rewrite E. constructor; cbn [maxEv cur sent chan]; assumption.
    - assert (E : (ts <=? base + ooo c + day) = true) by (apply Z.leb_le; apply Z.ltb_ge in Ef; lia).
      rewrite E. apply send_WK.
      destruct (ogt ts (maxEv w)) eqn:Eg.
      + (* new maximum *)
        assert (Hmx : omax ts mx = ts).
        { unfold omax. rewrite <- Hm. destruct (maxEv w) as [b|]; [|reflexivity]. cbn in Eg. apply Z.ltb_lt in Eg. lia. }
        rewrite Hmx. constructor; cbn [maxEv cur sent chan option_map]; try assumption.
        * reflexivity.
        * unfold raise_cur. rewrite Hc. rewrite <- Hm. destruct (maxEv w) as [b|]; cbn [option_map ogt].
          -- cbn in Eg. apply Z.ltb_lt in Eg. assert (E2 : (b - ooo c <? ts - ooo c) = true) by (apply Z.ltb_lt; lia).
             rewrite E2. reflexivity.
          -- reflexivity.
        * intros m Hmm. injection Hmm as <-. exists (id, ts). split; [apply in_or_app; right; left; reflexivity|].
          split; [unfold sane; exact E|reflexivity].
      + assert (Hmx : Some (omax ts mx) = mx).
        { unfold omax. rewrite <- Hm. destruct (maxEv w) as [b|]; [|discriminate]. cbn in Eg. apply Z.ltb_ge in Eg. f_equal. lia. }
        rewrite Hmx. constructor; cbn [maxEv cur sent chan]; assumption.
  Qed.

  Lemma tick_WK w seen mx lastw now : WK w seen mx lastw -> WK (tick (ooo c) (idle c) now w) seen mx lastw.
  Proof.
    intros H. pose proof H as [Hm Hc Hs Hso Hse Ho]. unfold tick. rewrite Hidle.
    destruct (maxEv w) as [m|] eqn:Em; [|exact H].
    assert (Hnw : match lastEv w with Some l => if (0 <? 0) && (0 <? now - l) then now - ooo c else m - ooo c | None => m - ooo c end = m - ooo c).
    { destruct (lastEv w); reflexivity. }
    rewrite Hnw. apply send_WK.
    assert (Hcur : raise_cur (m - ooo c) (cur w) = cur w).
    { rewrite Hc, <- Hm. cbn. unfold raise_cur. cbn. rewrite Z.ltb_irrefl. reflexivity. }
    rewrite Hcur. constructor; cbn [maxEv cur sent chan]; assumption.
  Qed.

  Lemma pop_WK w seen mx lastw x w' :
    WK w seen mx lastw -> pop_chan w = Some (x, w') ->
    WK w' seen mx (Some x) /\ Osee seen x /\ match lastw with Some l => l < x | None => True end.
  Proof.
    intros [Hm Hc Hs Hso Hse Ho]. unfold pop_chan. destruct (chan w) as [|y r] eqn:Ech; [discriminate|].
    intros [= <- <-]. split; [|split].
    - constructor; cbn [maxEv cur sent chan]; try assumption.
      + destruct lastw as [l|]; cbn [olist app] in *; [inversion Hso; assumption|exact Hso].
      + rewrite Hse. unfold lasto. destruct r; reflexivity.
      + inversion Ho; assumption.
    - inversion Ho; assumption.
    - destruct lastw as [l|]; [|exact I]. cbn [olist app] in Hso. inversion Hso as [|a b Hs1 Hf]; subst.
      inversion Hf; assumption.
  Qed.

  (* ---------------- small list facts ---------------- *)
  Lemma filter_all {A} (f : A -> bool) l : (forall x, In x l -> f x = true) -> filter f l = l.
  Proof.
    induction l as [|a l IH]; intros H; cbn [filter]; [reflexivity|].
    rewrite (H a (or_introl eq_refl)). f_equal. apply IH. intros x Hx. apply H. right. exact Hx.
  Qed.

  Lemma filter_none' {A} (f : A -> bool) l : (forall x, In x l -> f x = false) -> filter f l = [].
  Proof.
    induction l as [|a l IH]; intros H; cbn [filter]; [reflexivity|].
    rewrite (H a (or_introl eq_refl)). apply IH. intros x Hx. apply H. right. exact Hx.
  Qed.

  Lemma rows_eqb_refl (l : list row) : rows_eqb l l = true.
  Proof.
    unfold rows_eqb. rewrite Nat.eqb_refl. cbn [andb]. induction l as [|a l IH]; cbn; [reflexivity|].
    rewrite !Z.eqb_refl. cbn. exact IH.
  Qed.

  Lemma NoDup_snoc {A} (l : list A) x : NoDup l -> ~ In x l -> NoDup (l ++ [x]).
  Proof.
    induction 1 as [|a l Hni Hnd IH]; intros Hx; cbn [app]; [constructor; [intros []|constructor]|].
    constructor.
    - intros Hin. apply in_app_or in Hin as [Hin|[Hin|[]]]; [contradiction|]. subst. apply Hx. left. reflexivity.
    - apply IH. intros Hin. apply Hx. right. exact Hin.
  Qed.

  Lemma id_in_false r l : id_in (rid r) l = false -> ~ In r l.
  Proof. intros H Hin. rewrite (id_in_In r l Hin) in H. discriminate. Qed.

  Lemma id_in_map i (l : list row) : id_in i l = true <-> In i (map rid l).
  Proof.
    unfold id_in. split.
    - intros H. apply existsb_exists in H as (x & Hx & He). apply Z.eqb_eq in He. subst i. apply in_map. exact Hx.
    - intros H. apply in_map_iff in H as (x & He & Hx). apply existsb_exists. exists x. split; [exact Hx|]. apply Z.eqb_eq. exact He.
  Qed.

  (* ---------------- fired list ---------------- *)
  Lemma find_fired_none fired sl a :
    Forall (fun b => b_start b + size c <= sl) fired -> sl <= a -> find_fired a fired = None.
  Proof.
    intros H Hle. unfold find_fired. induction H as [|b l Hb Hl IH]; cbn [find]; [reflexivity|].
    assert (E : (b_start b =? a) = false) by (apply Z.eqb_neq; lia). rewrite E. exact IH.
  Qed.

  Lemma find_fired_replace_same b l p :
    find_fired (b_start b) l = Some p -> find_fired (b_start b) (replace_fired b l) = Some b.
  Proof.
    unfold find_fired. induction l as [|x l IH]; cbn [find replace_fired]; [discriminate|].
    destruct (b_start x =? b_start b) eqn:E.
    - intros _. cbn [find]. rewrite Z.eqb_refl. reflexivity.
    - intros H. cbn [find]. rewrite E. apply IH. exact H.
  Qed.

  Lemma find_fired_replace_other b l a :
    a <> b_start b -> find_fired a (replace_fired b l) = find_fired a l.
  Proof.
    intros Hne. unfold find_fired. induction l as [|x l IH]; cbn [find replace_fired]; [reflexivity|].
    destruct (b_start x =? b_start b) eqn:E.
    - cbn [find]. apply Z.eqb_eq in E.
      assert (E1 : (b_start b =? a) = false) by (apply Z.eqb_neq; lia).
      assert (E2 : (b_start x =? a) = false) by (apply Z.eqb_neq; lia).
      rewrite E1, E2. reflexivity.
    - cbn [find]. destruct (b_start x =? a); [reflexivity|exact IH].
  Qed.

  Lemma Forall_replace_fired (P : batch -> Prop) b l : Forall P l -> P b -> Forall P (replace_fired b l).
  Proof.
    intros H Hb. induction H as [|x l Hx Hl IH]; cbn [replace_fired]; [constructor|].
    destruct (b_start x =? b_start b); constructor; auto.
  Qed.

  (* ---------------- model state against checker state ---------------- *)
  Definition KT (fired : list batch) (seen : list row) (t : twin) : Prop :=
    t_end t = t_start t + size c /\ aligned c (t_start t) /\
    Forall (fun r => in_twin t (rts r) = true /\ In r seen) (t_snap t) /\
    exists b, find_fired (t_start t) fired = Some b /\ b_rows b = t_snap t.

  Record K (s : st) (cs : cst) : Prop := {
    k_inv : Inv c s;
    k_wk : WK (w s) (seen cs) (maxts cs) (lastw cs);
    k_nodup : NoDup (map rid (seen cs));
    k_nonneg : Forall (fun r => 0 <= rts r) (seen cs);
    k_data : Forall (fun r => In r (seen cs)) (data s);
    k_owed : Forall (fun r => In r (data s)) (owed cs ++ owed_new cs);
    k_dw : dw cs = pend s;
    k_emit_seen : incl (emitted cs) (map rid (seen cs));
    k_emit_data : Forall (fun r => ~ In (rid r) (emitted cs)) (data s);
    k_trig : Forall (KT (fired cs) (seen cs)) (trig s);
    k_trig_nd : NoDup (map t_start (trig s));
    k_fired : Forall (fun b => b_start b + size c <= slot s) (fired cs);
    k_fired0 : adv s = false -> fired cs = [] }.

  Fixpoint chk_evs (cs : cst) (evs : list ev) : cst + clause :=
    match evs with
    | [] => inl cs
    | e :: r => match chk_ev c base cs e with inr cl => inr cl | inl cs' => chk_evs cs' r end
    end.

  Lemma chk_trace_app cs a b :
    chk_trace c base cs (a ++ b) = match chk_evs cs a with inr cl => Some cl | inl cs' => chk_trace c base cs' b end.
  Proof.
    revert cs. induction a as [|e a IH]; intros cs; cbn [app chk_trace chk_evs]; [reflexivity|].
    destruct (chk_ev c base cs e) as [cs'|cl]; [apply IH|reflexivity].
  Qed.

  Lemma K_clear_last s cs : K s cs -> K s (clear_last cs).
  Proof. intros [? ? ? ? ? ? ? ? ? ? ? ? ?]. constructor; cbn; assumption. Qed.

  Definition op_okc (cs : cst) (o : op) : Prop :=
    match o with Add id ts now => now = base /\ 0 <= ts /\ ~ In id (map rid (seen cs)) | _ => True end.
  Definition op_ids (o : op) : list Z := match o with Add id _ _ => [id] | _ => [] end.

  Lemma okc_nonneg cs o : op_okc cs o -> nonneg_op o.
  Proof. destruct o; cbn; tauto. Qed.

  Lemma winstart_grid sl ts : aligned c sl -> 0 <= ts -> sl <= ts ->
    winstart c ts = sl + ((ts - sl) / size c) * size c.
  Proof.
    intros [k Hk] Hts Hle. unfold winstart. symmetry.
    pose proof (grid_floor sl (size c) ts Hsize Hle) as [G1 G2].
    apply aligned_unique; [exact Hsize|exact Hts| |exact G2].
    exists (k + (ts - sl) / size c). lia.
  Qed.

  Lemma NoDup_map_filter {A B} (f : A -> B) g (l : list A) : NoDup (map f l) -> NoDup (map f (filter g l)).
  Proof.
    induction l as [|a l IH]; cbn [map filter]; intros H; [constructor|].
    inversion H as [|x y Hni Hnd]; subst. destruct (g a); cbn [map]; [|apply IH; exact Hnd].
    constructor; [|apply IH; exact Hnd]. intros Hin. apply Hni. apply in_map_iff in Hin as (z & Hz & Hin).
    apply filter_In in Hin as [Hin _]. rewrite <- Hz. apply in_map. exact Hin.
  Qed.

  Lemma rest_slot_ge sl wmk : sl <= rest_slot c sl wmk.
  Proof.
    unfold rest_slot. destruct (sl + size c <=? wmk) eqn:E; [|lia]. apply Z.leb_le in E.
    assert (0 <= (wmk - sl) / size c) by (apply Z.div_pos; lia). nia.
  Qed.

  (* the trigger goroutine's steps: DeliverBegin, FireStep, Tick, AddNoTs *)
  Lemma deliver_begin_sound s cs s' evs :
    K s cs -> step c s DeliverBegin = (s', evs) -> exists cs', chk_evs cs evs = inl cs' /\ K s' cs' /\ seen cs' = seen cs.
  Proof.
    intros HK Hst. pose proof (step_Inv c Hsize s DeliverBegin s' evs (k_inv _ _ HK) I Hst) as Hinv'.
    cbn [step] in Hst. destruct (pend s) as [p|] eqn:Ep.
    - injection Hst as <- <-. exists cs. cbn. auto.
    - destruct (pop_chan (w s)) as [[x w']|] eqn:Epop; injection Hst as <- <-.
      + destruct (pop_WK _ _ _ _ _ _ (k_wk _ _ HK) Epop) as (Hwk & (r & Hr & Hsn & Hx) & Hlt).
        cbn [chk_evs chk_ev].
        assert (E1 : existsb (fun r => sane c base (rts r) && (rts r - ooo c =? x)) (seen cs) = true).
        { apply existsb_exists. exists r. split; [exact Hr|]. rewrite Hsn. cbn. apply Z.eqb_eq. exact Hx. }
        rewrite E1. cbn [negb].
        assert (E2 : match lastw cs with Some l => x <=? l | None => false end = false).
        { destruct (lastw cs) as [l|]; [apply Z.leb_gt; exact Hlt|reflexivity]. }
        rewrite E2. eexists. split; [reflexivity|]. split; [|reflexivity].
        destruct HK as [? ? ? ? ? Ho ? ? ? ? ? ? ?].
        constructor; cbn [seen maxts owed owed_new dw lastw fired lastadd emitted init slot data trig w pend adv]; try assumption.
        * rewrite app_nil_r. exact Ho.
        * reflexivity.
      + cbn [chk_evs chk_ev]. eexists. split; [reflexivity|]. split; [apply K_clear_last; exact HK|reflexivity].
  Qed.

  Lemma tick_sound s cs now s' evs :
    K s cs -> step c s (Tick now) = (s', evs) -> exists cs', chk_evs cs evs = inl cs' /\ K s' cs' /\ seen cs' = seen cs.
  Proof.
    intros HK Hst. pose proof (step_Inv c Hsize s (Tick now) s' evs (k_inv _ _ HK) I Hst) as Hinv'.
    cbn [step] in Hst. injection Hst as <- <-. cbn [chk_evs chk_ev]. eexists. split; [reflexivity|]. split; [|reflexivity].
    apply K_clear_last. destruct HK as [? Hwk ? ? ? ? ? ? ? ? ? ? ?].
    constructor; cbn [set_w init slot data trig w pend adv]; try assumption. apply tick_WK. exact Hwk.
  Qed.

  Lemma close_expired_data wmk s sl :
    Forall (fun r => sl <= rts r) (data s) -> Forall (fun t => t_end t <= sl) (trig s) ->
    data (close_expired wmk s) = data s.
  Proof.
    intros Hd Ht. unfold close_expired. cbn [data].
    destruct (filter (fun t => t_close t <=? wmk) (trig s)) as [|t0 tl] eqn:Ef; [reflexivity|].
    apply filter_all. intros r Hr. apply negb_true_iff. apply not_true_iff_false. intros Hex.
    apply existsb_exists in Hex as (t & Hin & Hw). rewrite <- Ef in Hin. apply filter_In in Hin as [Hin _].
    rewrite Forall_forall in Hd, Ht. specialize (Hd r Hr). specialize (Ht t Hin).
    unfold in_twin in Hw. lia.
  Qed.

  Lemma KT_cons_other fired seen t b :
    KT fired seen t -> b_start b <> t_start t -> KT (b :: fired) seen t.
  Proof.
    intros (A & B & C & p & Hf & Hr) Hne. split; [exact A|]. split; [exact B|]. split; [exact C|].
    exists p. split; [|exact Hr]. unfold find_fired in *. cbn [find].
    assert (E : (b_start b =? t_start t) = false) by (apply Z.eqb_neq; exact Hne). rewrite E. exact Hf.
  Qed.

  Lemma fire_step_sound s cs s' evs :
    K s cs -> step c s FireStep = (s', evs) -> exists cs', chk_evs cs evs = inl cs' /\ K s' cs' /\ seen cs' = seen cs.
  Proof.
    intros HK Hst. pose proof (step_Inv c Hsize s FireStep s' evs (k_inv _ _ HK) I Hst) as Hinv'.
    cbn [step] in Hst. unfold fire_step in Hst.
    pose proof (k_dw _ _ HK) as Hdw.
    destruct (pend s) as [wmk|] eqn:Ep.
    2:{ injection Hst as <- <-. exists cs. cbn. auto. }
    pose proof (k_inv _ _ HK) as (I0 & I1 & Ia & Ina & Iw & Ip).
    destruct (init s) eqn:Ei; cbn [negb] in Hst.
    2:{ (* not initialised: nothing buffered *)
      injection Hst as <- <-. cbn [chk_evs chk_ev]. rewrite Hdw.
      destruct (ltac:(first [exact (I0 Ei)|exact (I0 eq_refl)]) : _ /\ _ /\ _) as (Hd0 & Ht0 & Ha0).
      pose proof (k_owed _ _ HK) as Ho. rewrite Hd0 in Ho.
      assert (Hoe : owed cs = []).
      { destruct (owed cs) as [|r l]; [reflexivity|]. inversion Ho as [|x y Hx]; contradiction. }
      rewrite Hoe. cbn [existsb]. eexists. split; [reflexivity|]. split; [|reflexivity].
      destruct HK as [? ? ? ? ? Ho' ? ? ? ? ? ? ?].
      constructor; cbn [seen maxts owed owed_new dw lastw fired lastadd emitted init slot data trig w pend adv]; try assumption.
      - rewrite Hoe in Ho'. exact Ho'.
      - reflexivity. }
    destruct (ltac:(first [exact (I1 Ei)|exact (I1 eq_refl)]) : _ /\ _ /\ _) as (Hal & Hd & Ht).
    destruct (minl (cand c (slot s) wmk (data s))) as [a|] eqn:Em.
    - (* a first firing *)
      injection Hst as <- <-.
      pose proof (minl_in _ _ Em) as Hac. destruct (cand_aligned c (slot s) wmk (data s) a Hal Hac) as ([k Hk] & Hsa & Haw).
      set (ins := filter (fun r => inwin c a (rts r)) (data s)) in *.
      set (outs := filter (fun r => negb (inwin c a (rts r))) (data s)) in *.
      cbn [chk_evs chk_ev b_start b_end b_rows].
      assert (C1 : (a + size c =? a + size c) && (0 <? size c) && (a mod size c =? 0)
                   && forallb (fun r => inwin c a (rts r)) ins = true).
      { rewrite Z.eqb_refl. assert (E : (0 <? size c) = true) by (apply Z.ltb_lt; exact Hsize). rewrite E. cbn [andb].
        apply andb_true_iff. split; [apply Z.eqb_eq; rewrite Hk; apply Z_mod_mult|].
        apply forallb_forall. intros x Hx. apply filter_In in Hx as [_ Hx]. exact Hx. }
      rewrite C1. cbn [negb].
      pose proof (k_data _ _ HK) as Hds. rewrite Forall_forall in Hds.
      assert (C2 : forallb (fun r => row_in r (seen cs)) ins = true).
      { apply forallb_forall. intros x Hx. apply row_in_In. apply Hds. apply filter_In in Hx as [Hx _]. exact Hx. }
      rewrite C2. cbn [negb].
      pose proof (k_fired _ _ HK) as Hf.
      rewrite (find_fired_none (fired cs) (slot s) a Hf Hsa).
      pose proof (k_emit_data _ _ HK) as Hed. rewrite Forall_forall in Hed.
      assert (C3 : existsb (fun r => existsb (Z.eqb (rid r)) (emitted cs)) ins = false).
      { apply not_true_iff_false. intros H. apply existsb_exists in H as (x & Hx & Hex).
        apply existsb_exists in Hex as (i & Hi & Heq). apply Z.eqb_eq in Heq. subst i.
        apply filter_In in Hx as [Hx _]. exact (Hed x Hx Hi). }
      rewrite C3.
      assert (C4 : match fired cs with f :: _ => a <=? b_start f | [] => false end = false).
      { destruct (fired cs) as [|f fl]; [reflexivity|]. inversion Hf; subst. apply Z.leb_gt. lia. }
      rewrite C4. rewrite Hdw.
      assert (C5 : negb (a + size c <=? wmk) = false) by (apply negb_false_iff, Z.leb_le; exact Haw).
      rewrite C5. eexists. split; [reflexivity|]. split; [|reflexivity].
      pose proof (k_nodup _ _ HK) as Hnd.
      destruct HK as [? Hwk ? Hnn ? Ho ? Hes ? Htr Htnd ? Hf0].
      assert (Hold : forall t, In t (trig s) -> t_start t < a).
      { intros t Hin. rewrite Forall_forall in Ht, Htr. specialize (Ht t Hin). destruct (Htr t Hin) as (A & _). lia. }
      constructor; cbn [seen maxts owed owed_new dw lastw fired lastadd emitted init slot data trig w pend adv]; try assumption.
      + apply Forall_forall. intros r Hr. apply Hds. apply filter_In in Hr as [Hr _]. exact Hr.
      + rewrite <- filter_app. apply Forall_forall. intros r Hr. apply filter_In in Hr as [Hr Hid].
        rewrite Forall_forall in Ho. specialize (Ho r Hr). apply filter_In. split; [exact Ho|].
        apply negb_true_iff in Hid. apply id_in_false in Hid. apply negb_true_iff. apply not_true_iff_false. intros Hw.
        apply Hid. apply filter_In. split; [exact Ho|exact Hw].
      + reflexivity.
      + intros i Hi. apply in_app_or in Hi as [Hi|Hi]; [apply Hes; exact Hi|].
        apply in_map_iff in Hi as (r & <- & Hr). apply in_map. apply Hds. apply filter_In in Hr as [Hr _]. exact Hr.
      + apply Forall_forall. intros r Hr. apply filter_In in Hr as [Hr Hw]. intros Hi.
        apply in_app_or in Hi as [Hi|Hi]; [exact (Hed r Hr Hi)|].
        apply in_map_iff in Hi as (r' & Hid & Hr'). apply filter_In in Hr' as [Hr' Hw'].
        assert (r' = r) by (apply (NoDup_ids_eq (seen cs)); auto). subst r'. rewrite Hw' in Hw. discriminate.
      + (* triggered windows *)
        assert (Hko : Forall (KT ({| b_start := a; b_end := a + size c; b_rows := ins; b_late := false |} :: fired cs) (seen cs)) (trig s)).
        { apply Forall_forall. intros t Hin. rewrite Forall_forall in Htr. apply KT_cons_other; [apply Htr; exact Hin|].
          cbn. specialize (Hold t Hin). lia. }
        destruct (0 <? lateness c); [|exact Hko].
        apply Forall_app. split; [exact Hko|]. constructor; [|constructor].
        split; [reflexivity|]. split; [exists k; exact Hk|]. cbn [t_start t_end t_snap]. split.
        * apply Forall_forall. intros r Hr. apply filter_In in Hr as [Hr Hw]. split; [|apply Hds; exact Hr].
          unfold in_twin, inwin in *. cbn [t_start t_end]. exact Hw.
        * eexists. split; [unfold find_fired; cbn [find b_start]; rewrite Z.eqb_refl; reflexivity|reflexivity].
      + destruct (0 <? lateness c); [|exact Htnd]. rewrite map_app. cbn [map t_start]. apply NoDup_snoc; [exact Htnd|].
        intros Hin. apply in_map_iff in Hin as (t & Hts & Hin). specialize (Hold t Hin). lia.
      + constructor; [cbn; lia|]. eapply Forall_impl; [|exact Hf]. intros b Hb. cbn beta in Hb. lia.
      + discriminate.
    - (* nothing (more) to fire under this watermark *)
      injection Hst as <- <-. cbn [chk_evs chk_ev]. rewrite Hdw.
      pose proof (minl_none _ Em) as Hcn.
      pose proof (k_owed _ _ HK) as Ho. pose proof (k_data _ _ HK) as Hds. pose proof (k_nonneg _ _ HK) as Hnn.
      rewrite Forall_forall in Ho, Hds, Hnn, Hd.
      assert (E : existsb (fun r => winstart c (rts r) + size c <=? wmk) (owed cs) = false).
      { apply not_true_iff_false. intros H. apply existsb_exists in H as (r & Hr & Hle). apply Z.leb_le in Hle.
        assert (Hrd : In r (data s)) by (apply Ho; apply in_or_app; left; exact Hr).
        pose proof (cand_none c Hsize (slot s) wmk (data s) r Hcn Hrd (Hd r Hrd)) as Hlt.
        rewrite (winstart_grid (slot s) (rts r) Hal (Hnn r (Hds r Hrd)) (Hd r Hrd)) in Hle. lia. }
      rewrite E. eexists. split; [reflexivity|]. split; [|reflexivity].
      set (s1 := {| init := true; slot := rest_slot c (slot s) wmk; data := data s; trig := trig s; w := w s; pend := None;
                    adv := adv s || (slot s + size c <=? wmk) |}) in *.
      assert (Hdat : data (close_expired wmk s1) = data s).
      { apply (close_expired_data wmk s1 (slot s)); cbn [data slot trig s1]; [apply Forall_forall; exact Hd|exact Ht]. }
      pose proof (k_nodup _ _ HK) as Hnd.
      destruct HK as [? Hwk ? ? ? Ho' ? Hes Hed Htr Htnd Hf Hf0].
      constructor; cbn [seen maxts owed owed_new dw lastw fired lastadd emitted]; try assumption.
      + rewrite Hdat. assumption.
      + rewrite Hdat. assumption.
      + reflexivity.
      + rewrite Hdat. assumption.
      + unfold close_expired. cbn [trig s1]. apply Forall_filter. exact Htr.
      + unfold close_expired. cbn [trig s1]. apply NoDup_map_filter. exact Htnd.
      + unfold close_expired. cbn [slot s1]. eapply Forall_impl; [|exact Hf]. intros b Hb. cbn beta in Hb.
        pose proof (rest_slot_ge (slot s) wmk). lia.
      + unfold close_expired. cbn [adv s1]. intros Hadv. apply orb_false_iff in Hadv as [Hadv _]. apply Hf0. exact Hadv.
  Qed.

  (* ---------------- Add ---------------- *)
  Lemma add_core_cases id ts now s s' bs : add_core c id ts now s = (s', bs) ->
    let w' := update_event_time (ooo c) now ts (w s) in
    let sl0 := if init s then slot s else align ts (size c) in
    let late := is_late ts w' in
    let sl := if init s && negb late && (ts <? sl0) then align ts (size c) else sl0 in
    init s' = true /\ slot s' = sl /\ w s' = w' /\ pend s' = pend s /\ adv s' = adv s /\
    ( (data s' = data s ++ [(id, ts)] /\ trig s' = trig s /\ bs = [] /\ (late = false \/ inwin c sl ts = true))
      \/ (data s' = data s /\ trig s' = trig s /\ bs = [] /\ late = true)
      \/ (exists t, late = true /\ (0 <? lateness c) = true /\ find (fun t => in_twin t ts) (trig s) = Some t /\
            data s' = filter (fun r => negb (in_twin t (rts r))) (data s ++ [(id, ts)]) /\
            trig s' = update_snap (trig s) t (t_snap t ++ filter (fun r => in_twin t (rts r)) (data s ++ [(id, ts)])) /\
            bs = [{| b_start := t_start t; b_end := t_end t;
                     b_rows := t_snap t ++ filter (fun r => in_twin t (rts r)) (data s ++ [(id, ts)]); b_late := true |}]) ).
  Proof.
    unfold add_core. cbn zeta.
    destruct (is_late ts (update_event_time (ooo c) now ts (w s))) eqn:El.
    - destruct (inwin c _ ts) eqn:Ew.
      + intros [= <- <-]. cbn [init slot w pend adv data trig].
        refine (conj eq_refl (conj eq_refl (conj eq_refl (conj eq_refl (conj eq_refl _))))).
        left. refine (conj eq_refl (conj eq_refl (conj eq_refl _))). right. first [exact Ew | reflexivity].
      + destruct (0 <? lateness c) eqn:E0.
        * destruct (find (fun t => in_twin t ts) (trig s)) as [t|] eqn:Ef.
          -- intros [= <- <-]. cbn [init slot w pend adv data trig].
             refine (conj eq_refl (conj eq_refl (conj eq_refl (conj eq_refl (conj eq_refl _))))).
             right. right. exists t. refine (conj eq_refl (conj eq_refl (conj eq_refl (conj eq_refl (conj eq_refl eq_refl))))).
          -- intros [= <- <-]. cbn [init slot w pend adv data trig].
             refine (conj eq_refl (conj eq_refl (conj eq_refl (conj eq_refl (conj eq_refl _))))).
             right. left. refine (conj eq_refl (conj eq_refl (conj eq_refl eq_refl))).
        * intros [= <- <-]. cbn [init slot w pend adv data trig].
          refine (conj eq_refl (conj eq_refl (conj eq_refl (conj eq_refl (conj eq_refl _))))).
          right. left. refine (conj eq_refl (conj eq_refl (conj eq_refl eq_refl))).
    - intros [= <- <-]. cbn [init slot w pend adv data trig].
      refine (conj eq_refl (conj eq_refl (conj eq_refl (conj eq_refl (conj eq_refl _))))).
      left. refine (conj eq_refl (conj eq_refl (conj eq_refl _))). left. reflexivity.
  Qed.

  Lemma KT_mono fired seen r t : KT fired seen t -> KT fired (seen ++ [r]) t.
  Proof.
    intros (A & B & C & D). split; [exact A|]. split; [exact B|]. split; [|exact D].
    eapply Forall_impl; [|exact C]. intros x [H1 H2]. split; [exact H1|apply in_or_app; left; exact H2].
  Qed.

  Lemma update_snap_starts l t snap : map t_start (update_snap l t snap) = map t_start l.
  Proof. induction l as [|x l IH]; cbn [update_snap map]; [reflexivity|]. destruct (t_end x =? t_end t); cbn [map t_start]; congruence. Qed.

  Lemma KT_replace_other fired seen y b' :
    KT fired seen y -> t_start y <> b_start b' -> KT (replace_fired b' fired) seen y.
  Proof.
    intros (A & B & C & p & Hf & Hr) Hne. split; [exact A|]. split; [exact B|]. split; [exact C|].
    exists p. split; [|exact Hr]. rewrite find_fired_replace_other; [exact Hf|exact Hne].
  Qed.

  Lemma KT_update fired seen l t res b' :
    Forall (KT fired seen) l -> NoDup (map t_start l) -> In t l ->
    (forall r, In r res -> in_twin t (rts r) = true /\ In r seen) ->
    b_start b' = t_start t -> b_rows b' = res ->
    Forall (KT (replace_fired b' fired) seen) (update_snap l t res).
  Proof.
    intros HF. induction HF as [|x l Hx Hl IH]; intros Hnd Hin Hres Hbs Hbr; [contradiction|].
    cbn [map] in Hnd. inversion Hnd as [|a b Hni Hnd']; subst a b.
    assert (Hkt : KT fired seen t).
    { destruct Hin as [<-|Hin]; [exact Hx|]. rewrite Forall_forall in Hl. apply Hl. exact Hin. }
    destruct Hx as (Ax & Bx & Cx & px & Hfx & Hrx). destruct Hkt as (At & Bt & Ct & pt & Hft & Hrt).
    cbn [update_snap]. destruct (t_end x =? t_end t) eqn:Ee.
    - apply Z.eqb_eq in Ee. assert (Hst : t_start x = t_start t) by lia.
      constructor.
      + split; [exact Ax|]. split; [exact Bx|]. cbn [t_start t_end t_snap]. split.
        * apply Forall_forall. intros r Hr. destruct (Hres r Hr) as [H1 H2]. split; [|exact H2].
          unfold in_twin in *. cbn [t_start t_end]. rewrite Hst, Ee. exact H1.
        * exists b'. split; [|exact Hbr]. rewrite Hst, <- Hbs. apply (find_fired_replace_same b' fired pt).
          rewrite Hbs. exact Hft.
      + apply Forall_forall. intros y Hy. rewrite Forall_forall in Hl. apply KT_replace_other; [apply Hl; exact Hy|].
        rewrite Hbs, <- Hst. intros Heq. apply Hni. rewrite <- Heq. apply in_map. exact Hy.
    - apply Z.eqb_neq in Ee. constructor.
      + apply KT_replace_other; [split; [exact Ax|]; split; [exact Bx|]; split; [exact Cx|]; exists px; auto|].
        rewrite Hbs. lia.
      + apply IH; auto. destruct Hin as [<-|Hin]; [lia|exact Hin].
  Qed.

  Lemma ontime_not_late w seen mx lastw (id : Z) ts :
    WK w seen mx lastw ->
    sane c base ts && (match mx with None => true | Some m => m - ooo c <=? ts end) = true ->
    is_late ts (update_event_time (ooo c) base ts w) = false.
  Proof.
    intros Hwk Hon. apply andb_prop in Hon as [Hsn Hle].
    pose proof (uet_WK w seen mx lastw id ts Hwk) as [_ Hc _ _ _ _].
    unfold is_late. rewrite Hc. unfold mx_add. rewrite Hsn. cbn [option_map]. apply Z.ltb_ge.
    unfold omax. destruct mx as [m|]; [apply Z.leb_le in Hle; lia|lia].
  Qed.

  Lemma in_twin_inwin t ts : t_end t = t_start t + size c -> inwin c (t_start t) ts = in_twin t ts.
  Proof. intros H. unfold inwin, in_twin. rewrite H. reflexivity. Qed.

  Lemma add_sound s cs id ts s' evs :
    K s cs -> 0 <= ts -> ~ In id (map rid (seen cs)) -> step c s (Add id ts base) = (s', evs) ->
    exists cs', chk_evs cs evs = inl cs' /\ K s' cs' /\ seen cs' = seen cs ++ [(id, ts)].
  Proof.
    intros HK Hts Hfresh Hst. cbn [step] in Hst. unfold add in Hst.
    destruct (add_core c id ts base s) as [s1 bs] eqn:Ea. injection Hst as <- <-.
    pose proof (add_core_Inv c Hsize id ts base s s1 bs (k_inv _ _ HK) Hts Ea) as Hinv'.
    pose proof (uet_WK (w s) (seen cs) (maxts cs) (lastw cs) id ts (k_wk _ _ HK)) as Hwk'.
    pose proof (ontime_not_late (w s) (seen cs) (maxts cs) (lastw cs) id ts (k_wk _ _ HK)) as Hont.
    destruct (add_core_cases _ _ _ _ _ _ Ea) as (Hi' & Hsl' & Hw' & Hp' & Ha' & Hcases).
    pose proof (k_inv _ _ HK) as (I0 & I1 & Ia & Ina & Iw & Ip).
    set (w' := update_event_time (ooo c) base ts (w s)) in *.
    set (late := is_late ts w') in *.
    set (ontime := sane c base ts && (match maxts cs with None => true | Some m => m - ooo c <=? ts end)) in *.
    (* fired windows stay behind the slot: the slot is re-aligned backwards only before anything has fired *)
    assert (Hfired' : Forall (fun b => b_start b + size c <= slot s1) (fired cs)).
    { rewrite Hsl'. destruct (init s) eqn:Ei.
      - cbn [andb]. destruct (negb late && (ts <? slot s)) eqn:Er.
        + apply andb_prop in Er as [Enl Elt]. apply negb_true_iff in Enl. apply Z.ltb_lt in Elt.
          destruct (adv s) eqn:Eadv.
          * exfalso. pose proof (ltac:(first [exact (Ia Eadv)|exact (Ia eq_refl)]) : ole (slot s) (cur (w s))) as Hole.
            pose proof (uet_mono (ooo c) base ts (w s) (slot s) Hole) as Hole'. fold w' in Hole'.
            unfold late, is_late in Enl. unfold ole in Hole'. destruct (cur w') as [cw|]; [|contradiction].
            apply Z.ltb_ge in Enl. lia.
          * rewrite (ltac:(first [exact (k_fired0 _ _ HK Eadv)|exact (k_fired0 _ _ HK eq_refl)]) : fired cs = []). constructor.
        + exact (k_fired _ _ HK).
      - cbn [andb]. destruct (ltac:(first [exact (I0 Ei)|exact (I0 eq_refl)]) : _ /\ _ /\ _) as (_ & _ & Hadv).
        rewrite (k_fired0 _ _ HK Hadv). constructor. }
    assert (Hnd' : NoDup (map rid (seen cs ++ [(id, ts)]))).
    { rewrite map_app. cbn [map rid fst]. apply NoDup_snoc; [exact (k_nodup _ _ HK)|exact Hfresh]. }
    assert (Hnn' : Forall (fun r => 0 <= rts r) (seen cs ++ [(id, ts)])).
    { apply Forall_app. split; [exact (k_nonneg _ _ HK)|constructor; [exact Hts|constructor]]. }
    assert (Hes' : forall em, incl em (map rid (seen cs)) -> incl em (map rid (seen cs ++ [(id, ts)]))).
    { intros em H i Hi. rewrite map_app. apply in_or_app. left. apply H. exact Hi. }
    assert (Hds' : Forall (fun r => In r (seen cs ++ [(id, ts)])) (data s)).
    { eapply Forall_impl; [|exact (k_data _ _ HK)]. intros r Hr. apply in_or_app. left. exact Hr. }
    assert (Hidnew : forall r, In r (data s) -> rid r <> id).
    { intros r Hr Heq. apply Hfresh. rewrite <- Heq. apply in_map. pose proof (k_data _ _ HK) as H. rewrite Forall_forall in H. apply H. exact Hr. }
    assert (Hednew : ~ In id (emitted cs)).
    { intros Hi. apply Hfresh. apply (k_emit_seen _ _ HK). exact Hi. }
    cbn [map chk_evs chk_ev]. fold ontime.
    destruct Hcases as [(Hd' & Ht' & -> & Hkeep)|[(Hd' & Ht' & -> & Hlate)|(t & Hlate & Hlat & Hfind & Hd' & Ht' & ->)]].
    - (* kept in the buffer *)
      cbn [map chk_evs]. eexists. split; [reflexivity|]. split; [|reflexivity].
      constructor; cbn [seen maxts owed owed_new dw lastw fired lastadd emitted]; try assumption.
      + rewrite Hw'. exact Hwk'.
      + rewrite Hd'. apply Forall_app. split; [exact Hds'|constructor; [apply in_or_app; right; left; reflexivity|constructor]].
      + rewrite Hd'. destruct ontime.
        * rewrite app_assoc. apply Forall_app. split.
          -- eapply Forall_impl; [|exact (k_owed _ _ HK)]. intros r Hr. apply in_or_app. left. exact Hr.
          -- constructor; [apply in_or_app; right; left; reflexivity|constructor].
        * eapply Forall_impl; [|exact (k_owed _ _ HK)]. intros r Hr. apply in_or_app. left. exact Hr.
      + rewrite Hp'. exact (k_dw _ _ HK).
      + apply Hes'. exact (k_emit_seen _ _ HK).
      + rewrite Hd'. apply Forall_app. split; [exact (k_emit_data _ _ HK)|constructor; [exact Hednew|constructor]].
      + rewrite Ht'. eapply Forall_impl; [|exact (k_trig _ _ HK)]. intros x. apply KT_mono.
      + rewrite Ht'. exact (k_trig_nd _ _ HK).
      + rewrite Ha'. exact (k_fired0 _ _ HK).
    - (* dropped: late, so not owed *)
      assert (Hno : ontime = false).
      { destruct ontime eqn:Eo; [|reflexivity]. exfalso. pose proof (Hont eq_refl) as Hnl. change (late = true) in Hlate. change (late = false) in Hnl. congruence. }
      rewrite Hno. cbn [map chk_evs]. eexists. split; [reflexivity|]. split; [|reflexivity].
      constructor; cbn [seen maxts owed owed_new dw lastw fired lastadd emitted]; try assumption.
      + rewrite Hw'. exact Hwk'.
      + rewrite Hd'. exact Hds'.
      + rewrite Hd'. exact (k_owed _ _ HK).
      + rewrite Hp'. exact (k_dw _ _ HK).
      + apply Hes'. exact (k_emit_seen _ _ HK).
      + rewrite Hd'. exact (k_emit_data _ _ HK).
      + rewrite Ht'. eapply Forall_impl; [|exact (k_trig _ _ HK)]. intros x. apply KT_mono.
      + rewrite Ht'. exact (k_trig_nd _ _ HK).
      + rewrite Ha'. exact (k_fired0 _ _ HK).
    - (* absorbed by a fired window that is still open: one re-delivery *)
      assert (Hno : ontime = false).
      { destruct ontime eqn:Eo; [|reflexivity]. exfalso. pose proof (Hont eq_refl) as Hnl. change (late = true) in Hlate. change (late = false) in Hnl. congruence. }
      rewrite Hno. apply find_some in Hfind as [Hint Htw].
      pose proof (k_trig _ _ HK) as Htr. pose proof Htr as Htr0. rewrite Forall_forall in Htr0.
      destruct (Htr0 t Hint) as (At & Bt & Ct & pt & Hft & Hrt).
      (* the window lies behind the slot, the buffer at or after it *)
      assert (Hinit : init s = true).
      { destruct (init s) eqn:Ei; [reflexivity|]. destruct (ltac:(first [exact (I0 Ei)|exact (I0 eq_refl)]) : _ /\ _ /\ _) as (_ & Htn & _).
        rewrite Htn in Hint. contradiction. }
      destruct (I1 Hinit) as (Hal & Hdge & Htle). rewrite Forall_forall in Hdge, Htle.
      assert (Hout : forall r, In r (data s) -> in_twin t (rts r) = false).
      { intros r Hr. specialize (Hdge r Hr). specialize (Htle t Hint). unfold in_twin. apply andb_false_iff. right. apply Z.ltb_ge. lia. }
      assert (Hfin : filter (fun r => in_twin t (rts r)) (data s ++ [(id, ts)]) = [(id, ts)]).
      { rewrite filter_app. rewrite (filter_none' _ (data s) Hout). cbn [filter app rts snd]. rewrite Htw. reflexivity. }
      assert (Hfout : filter (fun r => negb (in_twin t (rts r))) (data s ++ [(id, ts)]) = data s).
      { rewrite filter_app. rewrite filter_all; [|intros r Hr; rewrite (Hout r Hr); reflexivity].
        cbn [filter rts snd]. rewrite Htw. cbn [negb]. apply app_nil_r. }
      rewrite Hfin in *. rewrite Hfout in Hd'.
      set (res := t_snap t ++ [(id, ts)]) in *.
      cbn [map chk_evs chk_ev b_start b_end b_rows seen fired lastadd emitted owed owed_new].
      assert (Hresin : forall r, In r res -> in_twin t (rts r) = true /\ In r (seen cs ++ [(id, ts)])).
      { intros r Hr. apply in_app_or in Hr as [Hr|[<-|[]]].
        - rewrite Forall_forall in Ct. destruct (Ct r Hr) as [H1 H2]. split; [exact H1|apply in_or_app; left; exact H2].
        - split; [exact Htw|apply in_or_app; right; left; reflexivity]. }
      assert (C1 : (t_end t =? t_start t + size c) && (0 <? size c) && (t_start t mod size c =? 0)
                   && forallb (fun r => inwin c (t_start t) (rts r)) res = true).
      { rewrite At, Z.eqb_refl. assert (E : (0 <? size c) = true) by (apply Z.ltb_lt; exact Hsize). rewrite E. cbn [andb].
        apply andb_true_iff. split; [destruct Bt as [k Hk]; apply Z.eqb_eq; rewrite Hk; apply Z_mod_mult|].
        apply forallb_forall. intros r Hr. rewrite (in_twin_inwin t (rts r) At). apply (Hresin r Hr). }
      rewrite C1. cbn [negb].
      assert (C2 : forallb (fun r => row_in r (seen cs ++ [(id, ts)])) res = true).
      { apply forallb_forall. intros r Hr. apply row_in_In. apply (Hresin r Hr). }
      rewrite C2. cbn [negb]. rewrite Hft.
      assert (C3 : (lateness c <=? 0) = false) by (apply Z.leb_gt; apply Z.ltb_lt in Hlat; exact Hlat).
      rewrite C3. rewrite Hrt. unfold res. rewrite rows_eqb_refl.
      eexists. split; [reflexivity|]. split; [|reflexivity].
      constructor; cbn [seen maxts owed owed_new dw lastw fired lastadd emitted]; try assumption.
      + rewrite Hw'. exact Hwk'.
      + rewrite Hd'. exact Hds'.
      + rewrite Hd'. rewrite <- filter_app. apply Forall_filter. exact (k_owed _ _ HK).
      + rewrite Hp'. exact (k_dw _ _ HK).
      + intros i Hi. apply in_app_or in Hi as [Hi|[<-|[]]].
        * apply (Hes' (emitted cs) (k_emit_seen _ _ HK)). exact Hi.
        * rewrite map_app. apply in_or_app. right. left. reflexivity.
      + rewrite Hd'. apply Forall_forall. intros r Hr Hi. apply in_app_or in Hi as [Hi|[Hi|[]]].
        * pose proof (k_emit_data _ _ HK) as H. rewrite Forall_forall in H. exact (H r Hr Hi).
        * exact (Hidnew r Hr (eq_sym Hi)).
      + rewrite Ht'. fold res. apply (KT_update (fired cs) (seen cs ++ [(id, ts)]) (trig s) t res).
        * eapply Forall_impl; [|exact Htr]. intros x. apply KT_mono.
        * exact (k_trig_nd _ _ HK).
        * exact Hint.
        * exact Hresin.
        * reflexivity.
        * reflexivity.
      + rewrite Ht'. rewrite update_snap_starts. exact (k_trig_nd _ _ HK).
      + apply Forall_replace_fired; [exact Hfired'|]. cbn [b_start]. rewrite Hsl'. rewrite Hinit. cbn [andb].
        fold late. rewrite Hlate. cbn [negb andb]. specialize (Htle t Hint). lia.
      + rewrite Ha'. intros Hadv. pose proof (k_fired0 _ _ HK Hadv) as Hf0. rewrite Hf0 in Hft. discriminate.
  Qed.

  (* ---------------- every step, every history ---------------- *)
  Lemma step_sound s cs o s' evs :
    K s cs -> op_okc cs o -> step c s o = (s', evs) ->
    exists cs', chk_evs cs evs = inl cs' /\ K s' cs' /\ map rid (seen cs') = map rid (seen cs) ++ op_ids o.
  Proof.
    intros HK Hok Hst. destruct o as [id ts now|id| | |now].
    - destruct Hok as (-> & Hts & Hfresh). destruct (add_sound s cs id ts s' evs HK Hts Hfresh Hst) as (cs' & A & B & C).
      exists cs'. split; [exact A|]. split; [exact B|]. rewrite C, map_app. reflexivity.
    - cbn [step] in Hst. injection Hst as <- <-. cbn [chk_evs chk_ev]. eexists. split; [reflexivity|].
      split; [apply K_clear_last; exact HK|]. cbn [op_ids]. rewrite app_nil_r. reflexivity.
    - destruct (deliver_begin_sound s cs s' evs HK Hst) as (cs' & A & B & C).
      exists cs'. split; [exact A|]. split; [exact B|]. rewrite C. cbn [op_ids]. rewrite app_nil_r. reflexivity.
    - destruct (fire_step_sound s cs s' evs HK Hst) as (cs' & A & B & C).
      exists cs'. split; [exact A|]. split; [exact B|]. rewrite C. cbn [op_ids]. rewrite app_nil_r. reflexivity.
    - destruct (tick_sound s cs now s' evs HK Hst) as (cs' & A & B & C).
      exists cs'. split; [exact A|]. split; [exact B|]. rewrite C. cbn [op_ids]. rewrite app_nil_r. reflexivity.
  Qed.

  Definition hist_op_ok (o : op) : Prop := match o with Add _ ts now => now = base /\ 0 <= ts | _ => True end.
  Definition hids (h : list op) : list Z := flat_map op_ids h.

  Lemma run_sound h : forall s cs,
    K s cs -> Forall hist_op_ok h -> NoDup (map rid (seen cs) ++ hids h) ->
    chk_trace c base cs (snd (run c s h)) = None.
  Proof.
    induction h as [|o h IH]; intros s cs HK Hok Hnd; [reflexivity|].
    inversion Hok as [|o' h' Ho Hh]; subst. cbn [run].
    destruct (step c s o) as [s1 e1] eqn:E1. destruct (run c s1 h) as [s2 e2] eqn:E2. cbn [snd].
    assert (Hokc : op_okc cs o).
    { destruct o as [id ts now| | | |]; cbn; auto. destruct Ho as [Hn Ht]. split; [exact Hn|]. split; [exact Ht|].
      cbn [hids flat_map op_ids app] in Hnd. intros Hin. apply NoDup_remove_2 in Hnd. apply Hnd. apply in_or_app. left. exact Hin. }
    destruct (step_sound s cs o s1 e1 HK Hokc E1) as (cs' & A & B & C).
    rewrite chk_trace_app, A. specialize (IH s1 cs' B Hh). rewrite E2 in IH. cbn [snd] in IH. apply IH.
    rewrite C. cbn [hids flat_map] in Hnd. rewrite <- app_assoc. exact Hnd.
  Qed.

  Lemma K0 : K st0 cst0.
  Proof.
    constructor; cbn; try (constructor; fail); auto.
    - apply Inv_st0.
    - constructor; cbn; try constructor; try reflexivity. intros m H; discriminate.
    - intros i [].
  Qed.

  (* every clause of the executable checker the harness applies to the real window's trace holds of every trace of
     the model, for all histories of atomic steps *)
  Theorem model_passes_checker h :
    Forall hist_op_ok h -> NoDup (hids h) -> chk_C01 c base (snd (run c st0 h)) = None.
  Proof. intros Hok Hnd. unfold chk_C01. apply (run_sound h st0 cst0 K0 Hok). exact Hnd. Qed.
End SpecSound.
