(* The executable session-window checker of Spec/SessionSpec.v (chk_C10 = nchk_trace: the clauses the harness applies to
   the real session window's trace, returning the LIST of all violated clauses) against the model of
   window/session_window.go (Model/Session.v): for every history of atomic steps with distinct row ids, one wall clock,
   a positive timeout and a non-negative out-of-order tolerance, the only clauses that can ever be reported on a trace of
   the model are NGapNotSplit and NStartNotEarliest (the recorded findings F3a / F3c, both reachable: witnesses below).
   Every other clause - NWrongKey, NUnknownRow, NTwice, NEndNotLatestPlusTimeout, NSplitWithinTimeout, NEarlyDelivery,
   NWatermarkOrigin, NOnTimeLost, NLateUpdateShape, NFarFuture - is never violated by the model.
   Same method as Proofs/TumblingSpecSound.v: a simulation invariant NK between model state and checker state, one lemma
   per kind of step; the watermark sub-invariant WK is reused from there (Model/Watermark.v is shared). *)
From Coq Require Import Lia Arith Sorted Permutation.
From SV Require Import Model.Tumbling Spec.WinSpec Proofs.TumblingProofs Proofs.TumblingComplete Proofs.TumblingPTSpec
     Proofs.TumblingSpecSound.
From SV Require Import Model.Session Spec.SessionSpec Proofs.SessionProofs.

(* ---------------- small list facts ---------------- *)
Lemma find_none_all {A} (p : A -> bool) l : (forall x, In x l -> p x = false) -> find p l = None.
Proof.
  induction l as [|a l IH]; intros H; cbn [find]; [reflexivity|].
  rewrite (H a (or_introl eq_refl)). apply IH. intros x Hx. apply H. right. exact Hx.
Qed.

Lemma existsb_false_all {A} (p : A -> bool) l : (forall x, In x l -> p x = false) -> existsb p l = false.
Proof.
  intros H. apply not_true_iff_false. intros E. apply existsb_exists in E as (x & Hx & Hp).
  rewrite (H x Hx) in Hp. discriminate.
Qed.

Lemma zmax_list_ge l : forall d x, In x l -> x <= zmax_list d l.
Proof.
  induction l as [|a l IH]; intros d x Hx; [contradiction|]. cbn [zmax_list].
  destruct Hx as [<-|Hx]; [lia|]. specialize (IH a x Hx). lia.
Qed.

Lemma zmax_list_in l : forall d, l <> [] -> In (zmax_list d l) l.
Proof.
  induction l as [|a l IH]; intros d Hne; [contradiction|]. cbn [zmax_list].
  destruct l as [|b l'].
  - cbn. left. lia.
  - assert (Hin : In (zmax_list a (b :: l')) (b :: l')) by (apply IH; discriminate).
    destruct (Z.max_spec a (zmax_list a (b :: l'))) as [[_ E]|[_ E]]; rewrite E; [right; exact Hin|left; reflexivity].
Qed.

Lemma zmax_list_eq l d m : In m l -> (forall x, In x l -> x <= m) -> zmax_list d l = m.
Proof.
  intros Hm Hle. assert (Hne : l <> []) by (intros ->; contradiction).
  pose proof (zmax_list_in l d Hne) as H1. pose proof (zmax_list_ge l d m Hm) as H2. specialize (Hle _ H1). lia.
Qed.

(* ---------------- key/value lists ---------------- *)
Lemma remove_key_in {A} k (l : list (Z * A)) k' v : In (k', v) (remove_key k l) -> k' <> k /\ In (k', v) l.
Proof.
  induction l as [|[k0 v0] r IH]; cbn [remove_key]; [contradiction|]. destruct (k =? k0) eqn:E.
  - intros H. destruct (IH H) as [A1 A2]. split; [exact A1|right; exact A2].
  - intros [H|H].
    + injection H as <- <-. split; [apply Z.eqb_neq in E; congruence|left; reflexivity].
    + destruct (IH H) as [A1 A2]. split; [exact A1|right; exact A2].
Qed.

Lemma remove_key_keep {A} k (l : list (Z * A)) k' v : In (k', v) l -> k' <> k -> In (k', v) (remove_key k l).
Proof.
  induction l as [|[k0 v0] r IH]; cbn [remove_key]; [contradiction|]. intros [H|H] Hne.
  - injection H as -> ->. assert (E : (k =? k') = false) by (apply Z.eqb_neq; congruence). rewrite E. left. reflexivity.
  - destruct (k =? k0); [apply IH; assumption|right; apply IH; assumption].
Qed.

Lemma put_in {A} k (v : A) l k' v' : In (k', v') (put k v l) -> (k' = k /\ v' = v) \/ (k' <> k /\ In (k', v') l).
Proof.
  unfold put. intros [H|H]; [injection H as <- <-; left; split; reflexivity|right; apply remove_key_in; exact H].
Qed.

Lemma keys_in {A} k (v : A) l : In (k, v) l -> In k (keys l).
Proof. intros H. unfold keys. change k with (fst (k, v)). apply in_map. exact H. Qed.

Lemma nodup_keys_inj {A} (l : list (Z * A)) k v1 v2 : NoDup (keys l) -> In (k, v1) l -> In (k, v2) l -> v1 = v2.
Proof.
  induction l as [|[k0 v0] r IH]; cbn [keys map fst]; intros Hnd H1 H2; [contradiction|].
  inversion Hnd as [|a b Hni Hnd']; subst. destruct H1 as [H1|H1]; destruct H2 as [H2|H2].
  - congruence.
  - injection H1 as -> ->. exfalso. apply Hni. apply (keys_in k v2). exact H2.
  - injection H2 as -> ->. exfalso. apply Hni. apply (keys_in k v1). exact H1.
  - apply IH; assumption.
Qed.

Lemma nodup_lookup_in {A} (l : list (Z * A)) k v : NoDup (keys l) -> In (k, v) l -> lookup k l = Some v.
Proof.
  intros Hnd Hin. destruct (lookup k l) as [v'|] eqn:E.
  - f_equal. apply (nodup_keys_inj l k); [exact Hnd|apply lookup_in; exact E|exact Hin].
  - exfalso. revert E. clear Hnd. induction l as [|[k0 v0] r IH]; [contradiction|]. cbn [lookup].
    destruct Hin as [H|H].
    + injection H as -> ->. rewrite Z.eqb_refl. discriminate.
    + destruct (k =? k0); [discriminate|apply IH; exact H].
Qed.

Lemma kins_perm {A} (x : Z * A) l : Permutation (kins x l) (x :: l).
Proof.
  induction l as [|y r IH]; cbn [kins]; [apply Permutation_refl|]. destruct (fst x <=? fst y); [apply Permutation_refl|].
  eapply Permutation_trans; [apply perm_skip; exact IH|apply perm_swap].
Qed.

Lemma ksort_perm {A} (l : list (Z * A)) : Permutation (ksort l) l.
Proof.
  induction l as [|x r IH]; [apply Permutation_refl|]. cbn [ksort fold_right]. fold (ksort r).
  eapply Permutation_trans; [apply kins_perm|apply perm_skip; exact IH].
Qed.

Lemma fold_put_in {A B} (g : Z * A -> B) ex : forall tr k t,
  In (k, t) (fold_left (fun tr kv => put (fst kv) (g kv) tr) ex tr) ->
  (exists kv, In kv ex /\ k = fst kv /\ t = g kv) \/ In (k, t) tr.
Proof.
  induction ex as [|x ex IH]; intros tr k t H; cbn [fold_left] in H; [right; exact H|].
  destruct (IH _ _ _ H) as [(kv & H1 & H2 & H3)|H1].
  - left. exists kv. split; [right; exact H1|auto].
  - apply put_in in H1 as [[-> ->]|[_ H1]]; [left; exists x; split; [left; reflexivity|auto]|right; exact H1].
Qed.

(* ---------------- rows ---------------- *)
Lemma krow_in_In r l : krow_in r l = true <-> In r l.
Proof.
  unfold krow_in. split.
  - intros H. apply existsb_exists in H as (x & Hx & He). apply andb_prop in He as [He E3]. apply andb_prop in He as [E1 E2].
    apply Z.eqb_eq in E1, E2, E3. destruct x as [[a b] d], r as [[a' b'] d']. unfold kid, kts, kkey in *. cbn in *. subst. exact Hx.
  - intros H. apply existsb_exists. exists r. split; [exact H|]. rewrite !Z.eqb_refl. reflexivity.
Qed.

Lemma krows_eqb_refl l : krows_eqb l l = true.
Proof.
  unfold krows_eqb. rewrite Nat.eqb_refl. cbn [andb]. induction l as [|a l IH]; cbn; [reflexivity|].
  rewrite !Z.eqb_refl. cbn. exact IH.
Qed.

Lemma nodup_kid_eq (l : list krow) a b : NoDup (map kid l) -> In a l -> In b l -> kid a = kid b -> a = b.
Proof.
  induction l as [|x l IH]; cbn [map]; intros Hnd Ha Hb He; [contradiction|].
  inversion Hnd as [|y z Hni Hnd']; subst. destruct Ha as [Ha|Ha]; destruct Hb as [Hb|Hb].
  - congruence.
  - subst x. exfalso. apply Hni. rewrite He. apply in_map. exact Hb.
  - subst x. exfalso. apply Hni. rewrite <- He. apply in_map. exact Ha.
  - apply IH; assumption.
Qed.

Lemma eqb_in_iff i l : existsb (Z.eqb i) l = true <-> In i l.
Proof.
  split.
  - intros H. apply existsb_exists in H as (x & Hx & He). apply Z.eqb_eq in He. subst. exact Hx.
  - intros H. apply existsb_exists. exists i. split; [exact H|apply Z.eqb_refl].
Qed.

(* ---------------- reported sessions ---------------- *)
Definition ks (f : fsess) : Z * Z := (f_key f, f_start f).

Lemma replace_fsess_ks f l : map ks (replace_fsess f l) = map ks l.
Proof.
  induction l as [|x l IH]; cbn [replace_fsess map]; [reflexivity|].
  destruct ((f_key x =? f_key f) && (f_start x =? f_start f)) eqn:E; cbn [map].
  - apply andb_prop in E as [E1 E2]. apply Z.eqb_eq in E1, E2. unfold ks. rewrite E1, E2. reflexivity.
  - rewrite IH. reflexivity.
Qed.

Lemma replace_fsess_in f l g : In g (replace_fsess f l) -> g = f \/ In g l.
Proof.
  induction l as [|x l IH]; cbn [replace_fsess]; [contradiction|].
  destruct ((f_key x =? f_key f) && (f_start x =? f_start f)).
  - intros [H|H]; [left; auto|right; right; exact H].
  - intros [H|H]; [right; left; exact H|]. destruct (IH H) as [A|A]; [left; exact A|right; right; exact A].
Qed.

Lemma replace_fsess_keep f l g : In g l -> ks g <> ks f -> In g (replace_fsess f l).
Proof.
  induction l as [|x l IH]; cbn [replace_fsess]; [contradiction|]. intros Hin Hne.
  destruct ((f_key x =? f_key f) && (f_start x =? f_start f)) eqn:E.
  - destruct Hin as [Hin|Hin]; [|right; exact Hin]. subst x. exfalso. apply Hne.
    apply andb_prop in E as [E1 E2]. apply Z.eqb_eq in E1, E2. unfold ks. rewrite E1, E2. reflexivity.
  - destruct Hin as [Hin|Hin]; [left; exact Hin|right; apply IH; assumption].
Qed.

Lemma replace_fsess_new f l g : In g l -> ks g = ks f -> In f (replace_fsess f l).
Proof.
  induction l as [|x l IH]; cbn [replace_fsess]; [contradiction|]. intros Hin He.
  destruct ((f_key x =? f_key f) && (f_start x =? f_start f)) eqn:E; [left; reflexivity|].
  destruct Hin as [Hin|Hin]; [|right; apply IH; assumption]. subst x. exfalso.
  unfold ks in He. injection He as E1 E2. rewrite E1, E2, !Z.eqb_refl in E. discriminate.
Qed.

Lemma find_fsess_nodup l f :
  NoDup (map ks l) -> In f l ->
  find (fun g => (f_key g =? f_key f) && (f_start g =? f_start f) && (f_end g =? f_end f)) l = Some f.
Proof.
  induction l as [|x l IH]; cbn [map find]; intros Hnd Hin; [contradiction|].
  inversion Hnd as [|a b Hni Hnd']; subst.
  destruct ((f_key x =? f_key f) && (f_start x =? f_start f) && (f_end x =? f_end f)) eqn:E.
  - destruct Hin as [Hin|Hin]; [congruence|]. exfalso. apply Hni.
    apply andb_prop in E as [E _]. apply andb_prop in E as [E1 E2]. apply Z.eqb_eq in E1, E2.
    assert (Hk : ks x = ks f) by (unfold ks; rewrite E1, E2; reflexivity). rewrite Hk. apply in_map. exact Hin.
  - destruct Hin as [Hin|Hin]; [|apply IH; assumption]. subst x. rewrite !Z.eqb_refl in E. discriminate.
Qed.

Section SessSound.
  Variable c : ncfg.
  Variable base : Z.
  Hypothesis Htmo : 0 < ntimeout c.
  Hypothesis Hooo : 0 <= nooo c.

  (* the tumbling configuration whose watermark object is the session window's *)
  Definition tc : cfg := {| size := 1; ooo := nooo c; lateness := 0; idle := 0 |}.
  Definition rw (r : krow) : row := (kid r, kts r).

  Definition okcl (cl : nclause) : Prop := cl = NGapNotSplit \/ cl = NStartNotEarliest.

  Lemma okcl_gap b : Forall okcl (cl_if b NGapNotSplit).
  Proof. destruct b; cbn; [constructor; [left; reflexivity|constructor]|constructor]. Qed.
  Lemma okcl_start b : Forall okcl (cl_if b NStartNotEarliest).
  Proof. destruct b; cbn; [constructor; [right; reflexivity|constructor]|constructor]. Qed.

  Fixpoint nchk_evs (cs : ncst) (evs : list sev) : ncst * list nclause :=
    match evs with
    | [] => (cs, [])
    | e :: r => let '(cs1, cl1) := nchk_ev c base cs e in let '(cs2, cl2) := nchk_evs cs1 r in (cs2, cl1 ++ cl2)
    end.

  Lemma nchk_trace_app cs a b :
    nchk_trace c base cs (a ++ b) = snd (nchk_evs cs a) ++ nchk_trace c base (fst (nchk_evs cs a)) b.
  Proof.
    revert cs. induction a as [|e a IH]; intros cs; cbn [app nchk_trace nchk_evs]; [reflexivity|].
    destruct (nchk_ev c base cs e) as [cs1 cl1]. rewrite IH. destruct (nchk_evs cs1 a) as [cs2 cl2]. cbn [fst snd].
    rewrite app_assoc. reflexivity.
  Qed.

  (* what the checker knows of a reported session: its rows are of its key, have been seen, are not far-future, and
     the on-time ones are at least a timeout before its end *)
  Definition fshape (seen ont : list krow) (f : fsess) : Prop :=
    f_start f < f_end f /\
    forall a, In a (f_rows f) -> kkey a = f_key f /\ In a seen /\ nsane c base (kts a) = true /\
                                (In a ont -> kts a + ntimeout c <= f_end f).

  Definition fs_of (kv : Z * sess) : fsess :=
    {| f_key := fst kv; f_start := se_start (snd kv); f_end := se_end (snd kv); f_rows := se_rows (snd kv) |}.
  Definition bev (kv : Z * sess) : sev := SvBatch (fst kv) (se_start (snd kv)) (se_end (snd kv)) (se_rows (snd kv)).
  Definition ex_ids (ex : list (Z * sess)) : list Z := flat_map (fun kv => map kid (se_rows (snd kv))) ex.

  Record NK (s : nst) (cs : ncst) : Prop := {
    nk_keys : NoDup (keys (n_sess s));
    nk_wf : NWf c s;
    nk_wk : WK tc base (n_w s) (map rw (m_seen cs)) (m_maxts cs) (m_lastw cs);
    nk_wmok : wm_ok (n_w s);
    nk_pend : forall p, n_pend s = Some p -> ole p (cur (n_w s));
    nk_dw : m_dw cs = n_pend s;
    nk_nodup : NoDup (map kid (m_seen cs));
    nk_ont : forall r, In r (m_ontime cs) -> In r (m_seen cs) /\ nsane c base (kts r) = true;
    nk_emit_seen : incl (m_emitted cs) (map kid (m_seen cs));
    nk_sess : forall k se r, In (k, se) (n_sess s) -> In r (se_rows se) -> In r (m_ontime cs) /\ ~ In (kid r) (m_emitted cs);
    nk_cover : forall r, In r (m_ontime cs) ->
                 In (kid r) (m_emitted cs) \/ exists se, In (kkey r, se) (n_sess s) /\ In r (se_rows se);
    nk_fcur : forall f, In f (m_fired cs) -> ole (f_end f) (cur (n_w s));
    nk_fsess : forall f k se r, In f (m_fired cs) -> In (k, se) (n_sess s) -> f_key f = k -> In r (se_rows se) -> f_end f <= kts r;
    nk_fshape : forall f, In f (m_fired cs) -> fshape (m_seen cs) (m_ontime cs) f;
    nk_fnd : NoDup (map ks (m_fired cs));
    nk_trig : forall k t, In (k, t) (n_trig s) ->
                exists f, In f (m_fired cs) /\ f_key f = k /\ f_start f = se_start (ts_sess t) /\
                          f_end f = se_end (ts_sess t) /\ f_rows f = se_rows (ts_sess t) }.

  (* ---------------- one first delivery ---------------- *)
  Lemma batch_first cs k se wmk :
    m_dw cs = Some wmk -> wf_sess c k se -> se_end se <= wmk ->
    (forall r, In r (m_ontime cs) -> In r (m_seen cs) /\ nsane c base (kts r) = true) ->
    (forall r, In r (se_rows se) -> In r (m_ontime cs) /\ ~ In (kid r) (m_emitted cs)) ->
    (forall f r, In f (m_fired cs) -> f_key f = k -> In r (se_rows se) -> f_end f <= kts r) ->
    (forall f, In f (m_fired cs) -> fshape (m_seen cs) (m_ontime cs) f) ->
    exists cls, Forall okcl cls /\
      nchk_ev c base cs (bev (k, se)) =
      ({| m_seen := m_seen cs; m_maxts := m_maxts cs; m_ontime := m_ontime cs; m_dw := m_dw cs; m_lastw := m_lastw cs;
          m_fired := fs_of (k, se) :: m_fired cs; m_lastadd := None; m_emitted := m_emitted cs ++ map kid (se_rows se) |}, cls).
  Proof.
    intros Hdw (Hne & Hk & He & Hle & (rm & Hrm & Hrm') & (r0 & rest & Hr0 & Hst)) Hexp Hont Hrows Hfs Hfsh.
    assert (Hr0in : In r0 (se_rows se)) by (rewrite Hr0; left; reflexivity).
    unfold bev. cbn [nchk_ev fst snd].
    rewrite find_none_all.
    2:{ intros f Hf. destruct (f_key f =? k) eqn:Ek; [|reflexivity]. apply Z.eqb_eq in Ek.
        pose proof (Hfs f r0 Hf Ek Hr0in) as H1. destruct (Hfsh f Hf) as [H2 _].
        assert (E : (f_start f =? se_start se) = false) by (apply Z.eqb_neq; lia). rewrite E. reflexivity. }
    rewrite Forall_forall in Hk.
    assert (C1 : forallb (fun r => kkey r =? k) (se_rows se) = true).
    { apply forallb_forall. intros r Hr. apply Z.eqb_eq. apply Hk. exact Hr. }
    assert (C2 : forallb (fun r => krow_in r (m_seen cs)) (se_rows se) = true).
    { apply forallb_forall. intros r Hr. apply krow_in_In. apply Hont. apply Hrows. exact Hr. }
    assert (C3 : existsb (fun r => negb (nsane c base (kts r))) (se_rows se) = false).
    { apply existsb_false_all. intros r Hr. destruct (Hont r (proj1 (Hrows r Hr))) as [_ Hs]. rewrite Hs. reflexivity. }
    assert (C4 : existsb (fun r => existsb (Z.eqb (kid r)) (m_emitted cs)) (se_rows se) = false).
    { apply existsb_false_all. intros r Hr. apply not_true_iff_false. intros H. apply eqb_in_iff in H.
      exact (proj2 (Hrows r Hr) H). }
    assert (C5 : negb (se_end se <=? wmk) = false) by (apply negb_false_iff, Z.leb_le; exact Hexp).
    assert (C6 : negb (se_end se =? zmax_list 0 (map kts (se_rows se)) + ntimeout c) = false).
    { apply negb_false_iff, Z.eqb_eq. rewrite (zmax_list_eq (map kts (se_rows se)) 0 (se_last se)); [exact He| |].
      - rewrite <- Hrm'. apply in_map. exact Hrm.
      - intros x Hx. apply in_map_iff in Hx as (r & <- & Hr). apply Hle. exact Hr. }
    assert (C7 : existsb (fun f => (f_key f =? k) &&
                   existsb (fun a => existsb (fun b => Z.abs (a - b) <? ntimeout c)
                                             (map kts (filter (fun r => krow_in r (m_ontime cs)) (se_rows se))))
                           (map kts (filter (fun r => krow_in r (m_ontime cs)) (f_rows f)))) (m_fired cs) = false).
    { apply existsb_false_all. intros f Hf. destruct (f_key f =? k) eqn:Ek; [|reflexivity]. apply Z.eqb_eq in Ek. cbn [andb].
      apply existsb_false_all. intros a Ha. apply in_map_iff in Ha as (ra & <- & Hra). apply filter_In in Hra as [Hra Hao].
      apply krow_in_In in Hao. destruct (Hfsh f Hf) as [_ Hall]. destruct (Hall ra Hra) as (_ & _ & _ & Hbound).
      specialize (Hbound Hao).
      apply existsb_false_all. intros b Hb. apply in_map_iff in Hb as (rb & <- & Hrb). apply filter_In in Hrb as [Hrb _].
      pose proof (Hfs f rb Hf Ek Hrb) as H1. apply Z.ltb_ge. lia. }
    rewrite C1, C2, C3, C4, Hdw, C5, C6, C7. cbn [negb cl_if app].
    eexists. split; [|reflexivity]. apply Forall_app. split; [apply okcl_gap|].
    apply Forall_app. split; [apply okcl_start|constructor].
  Qed.
  Lemma wf_fshape seen ont k se :
    wf_sess c k se -> (forall r, In r (se_rows se) -> In r ont) ->
    (forall r, In r ont -> In r seen /\ nsane c base (kts r) = true) -> fshape seen ont (fs_of (k, se)).
  Proof.
    intros (Hne & Hk & He & Hle & (rm & Hrm & Hrm') & (r0 & rest & Hr0 & Hst)) Hrows Hont.
    assert (Hr0in : In r0 (se_rows se)) by (rewrite Hr0; left; reflexivity).
    unfold fshape, fs_of. cbn [f_start f_end f_rows f_key fst snd]. split.
    - pose proof (Hle r0 Hr0in). lia.
    - intros a Ha. rewrite Forall_forall in Hk. split; [apply Hk; exact Ha|].
      destruct (Hont a (Hrows a Ha)) as [H1 H2]. split; [exact H1|]. split; [exact H2|].
      intros _. pose proof (Hle a Ha). lia.
  Qed.

  Lemma nchk_evs_app cs a b :
    nchk_evs cs (a ++ b) = let '(cs1, cl1) := nchk_evs cs a in let '(cs2, cl2) := nchk_evs cs1 b in (cs2, cl1 ++ cl2).
  Proof.
    revert cs. induction a as [|e a IH]; intros cs; cbn [app nchk_evs].
    - destruct (nchk_evs cs b) as [cs2 cl2]. reflexivity.
    - destruct (nchk_ev c base cs e) as [cs1 cl1]. rewrite IH. destruct (nchk_evs cs1 a) as [cs2 cl2].
      destruct (nchk_evs cs2 b) as [cs3 cl3]. rewrite app_assoc. reflexivity.
  Qed.

  Lemma ex_ids_in i ex : In i (ex_ids ex) <-> exists k se r, In (k, se) ex /\ In r (se_rows se) /\ kid r = i.
  Proof.
    unfold ex_ids. rewrite in_flat_map. split.
    - intros ([k se] & Hin & Hi). cbn [snd] in Hi. apply in_map_iff in Hi as (r & Hr & Hrin). exists k, se, r. auto.
    - intros (k & se & r & Hin & Hr & Hi). exists (k, se). split; [exact Hin|]. cbn [snd]. rewrite <- Hi. apply in_map. exact Hr.
  Qed.

  (* all first deliveries of one expiry step *)
  Lemma batches_sound wmk : forall ex cs,
    NoDup (keys ex) -> m_dw cs = Some wmk -> NoDup (map kid (m_seen cs)) ->
    (forall r, In r (m_ontime cs) -> In r (m_seen cs) /\ nsane c base (kts r) = true) ->
    (forall k se, In (k, se) ex -> wf_sess c k se /\ se_end se <= wmk /\
        (forall r, In r (se_rows se) -> In r (m_ontime cs) /\ ~ In (kid r) (m_emitted cs)) /\
        (forall f r, In f (m_fired cs) -> f_key f = k -> In r (se_rows se) -> f_end f <= kts r)) ->
    (forall f, In f (m_fired cs) -> fshape (m_seen cs) (m_ontime cs) f) ->
    NoDup (map ks (m_fired cs)) ->
    exists cs' cls, nchk_evs cs (map bev ex) = (cs', cls) /\ Forall okcl cls /\
      m_seen cs' = m_seen cs /\ m_maxts cs' = m_maxts cs /\ m_ontime cs' = m_ontime cs /\ m_dw cs' = m_dw cs /\
      m_lastw cs' = m_lastw cs /\ m_fired cs' = rev (map fs_of ex) ++ m_fired cs /\
      m_emitted cs' = m_emitted cs ++ ex_ids ex /\
      (forall f, In f (m_fired cs') -> fshape (m_seen cs) (m_ontime cs) f) /\ NoDup (map ks (m_fired cs')).
  Proof.
    induction ex as [|[k se] ex IH]; intros cs Hnd Hdw Hids Hont Hex Hfsh Hfnd.
    - exists cs, []. cbn [map nchk_evs rev app ex_ids flat_map]. rewrite app_nil_r.
      split; [reflexivity|]. split; [constructor|]. repeat (split; [reflexivity|]). split; [exact Hfsh|exact Hfnd].
    - cbn [map nchk_evs]. destruct (Hex k se (or_introl eq_refl)) as (Hwf & Hexp & Hrows & Hfs).
      destruct (batch_first cs k se wmk Hdw Hwf Hexp Hont Hrows Hfs Hfsh) as (cl1 & Hok1 & Hev). rewrite Hev.
      cbn [keys map fst] in Hnd. inversion Hnd as [|a b Hni Hnd']; subst a b.
      pose proof Hwf as (_ & Hkk & _ & Hle & _ & (r0 & rest & Hr0 & Hst)). rewrite Forall_forall in Hkk.
      assert (Hr0in : In r0 (se_rows se)) by (rewrite Hr0; left; reflexivity).
      match goal with |- context [nchk_evs ?x _] => set (cs1 := x) end.
      assert (Hclash : forall k' se', In (k', se') ex -> k' <> k).
      { intros k' se' Hin Heq. subst k'. apply Hni. apply (keys_in k se'). exact Hin. }
      destruct (IH cs1) as (cs' & cls & Hevs & Hok & E1 & E2 & E3 & E4 & E5 & E6 & E7 & E8 & E9).
      + exact Hnd'.
      + exact Hdw.
      + exact Hids.
      + exact Hont.
      + intros k' se' Hin. destruct (Hex k' se' (or_intror Hin)) as (Hwf' & Hexp' & Hrows' & Hfs').
        split; [exact Hwf'|]. split; [exact Hexp'|]. split.
        * intros r Hr. destruct (Hrows' r Hr) as [H1 H2]. split; [exact H1|]. cbn [m_emitted cs1].
          intros Hi. apply in_app_or in Hi as [Hi|Hi]; [exact (H2 Hi)|].
          apply in_map_iff in Hi as (r2 & Hid & Hr2).
          assert (r2 = r).
          { apply (nodup_kid_eq (m_seen cs)); [exact Hids|apply Hont, Hrows; exact Hr2|apply Hont; exact H1|exact Hid]. }
          subst r2. destruct Hwf' as (_ & Hkk' & _). rewrite Forall_forall in Hkk'.
          apply (Hclash k' se' Hin). rewrite <- (Hkk' r Hr). apply Hkk. exact Hr2.
        * intros f r Hf Hfk Hr. cbn [m_fired cs1] in Hf. destruct Hf as [Hf|Hf]; [|exact (Hfs' f r Hf Hfk Hr)].
          exfalso. subst f. cbn [fs_of f_key fst] in Hfk. apply (Hclash k' se' Hin). symmetry. exact Hfk.
      + intros f Hf. cbn [m_fired cs1] in Hf. destruct Hf as [Hf|Hf]; [|exact (Hfsh f Hf)]. subst f.
        apply wf_fshape; [exact Hwf| |exact Hont]. intros r Hr. apply Hrows. exact Hr.
      + cbn [m_fired cs1 map]. constructor; [|exact Hfnd]. intros Hin. apply in_map_iff in Hin as (f & Hkf & Hf).
        unfold ks, fs_of in Hkf. cbn [f_key f_start fst snd] in Hkf. injection Hkf as Hk1 Hk2.
        pose proof (Hfs f r0 Hf Hk1 Hr0in). destruct (Hfsh f Hf) as [Hlt _]. lia.
      + rewrite Hevs. exists cs', (cl1 ++ cls). split; [reflexivity|]. split; [apply Forall_app; split; assumption|].
        cbn [m_seen m_maxts m_ontime m_dw m_lastw m_fired m_emitted cs1] in *.
        split; [exact E1|]. split; [exact E2|]. split; [exact E3|]. split; [exact E4|]. split; [exact E5|].
        split; [rewrite E6; cbn [map rev]; rewrite <- app_assoc; reflexivity|].
        split; [rewrite E7; unfold ex_ids; cbn [flat_map snd]; rewrite <- app_assoc; reflexivity|].
        split; [exact E8|exact E9].
  Qed.

  (* ---------------- the expiry step ---------------- *)
  Lemma fire_sound s cs s' evs :
    NK s cs -> nstep c s NFire = (s', evs) ->
    exists cs' cls, nchk_evs cs evs = (cs', cls) /\ Forall okcl cls /\ NK s' cs' /\ m_seen cs' = m_seen cs.
  Proof.
    intros HK Hst. pose proof (nstep_wf c s NFire s' evs (nk_wf _ _ HK) Hst) as Hwf'.
    cbn [nstep] in Hst. unfold nfire in Hst. destruct (n_pend s) as [wmk|] eqn:Ep.
    2:{ injection Hst as <- <-. exists cs, []. cbn [nchk_evs]. split; [reflexivity|]. split; [constructor|]. split; [exact HK|reflexivity]. }
    injection Hst as <- <-.
    set (expired := ksort (filter (fun kv => se_end (snd kv) <=? wmk) (n_sess s))) in *.
    set (live := filter (fun kv => negb (se_end (snd kv) <=? wmk)) (n_sess s)) in *.
    assert (Hperm : Permutation expired (filter (fun kv => se_end (snd kv) <=? wmk) (n_sess s))) by apply ksort_perm.
    assert (Hexin : forall k se, In (k, se) expired <-> In (k, se) (n_sess s) /\ se_end se <= wmk).
    { intros k se. split.
      - intros H. apply (Permutation_in _ Hperm) in H. apply filter_In in H as [H1 H2]. cbn [snd] in H2. apply Z.leb_le in H2. auto.
      - intros [H1 H2]. apply (Permutation_in _ (Permutation_sym Hperm)). apply filter_In. split; [exact H1|]. cbn [snd]. apply Z.leb_le. exact H2. }
    assert (Hlivein : forall k se, In (k, se) live <-> In (k, se) (n_sess s) /\ wmk < se_end se).
    { intros k se. unfold live. rewrite filter_In. cbn [snd]. rewrite negb_true_iff, Z.leb_gt. reflexivity. }
    assert (Hexnd : NoDup (keys expired)).
    { unfold keys. apply (Permutation_NoDup (Permutation_map fst (Permutation_sym Hperm))).
      apply (filter_nodup_keys _ _ (nk_keys _ _ HK)). }
    pose proof (nk_wf _ _ HK) as Hwf. unfold NWf in Hwf. rewrite Forall_forall in Hwf.
    pose proof (nk_dw _ _ HK) as Hdw. rewrite Ep in Hdw.
    change (map (fun kv : Z * sess => SvBatch (fst kv) (se_start (snd kv)) (se_end (snd kv)) (se_rows (snd kv))) expired)
      with (map bev expired).
    destruct (batches_sound wmk expired cs Hexnd Hdw (nk_nodup _ _ HK) (nk_ont _ _ HK)) as
      (cs1 & cls & Hevs & Hok & E1 & E2 & E3 & E4 & E5 & E6 & E7 & E8 & E9).
    { intros k se Hin. apply Hexin in Hin as [Hin Hle]. split; [exact (Hwf _ Hin)|]. split; [exact Hle|]. split.
      - intros r Hr. exact (nk_sess _ _ HK k se r Hin Hr).
      - intros f r Hf Hfk Hr. exact (nk_fsess _ _ HK f k se r Hf Hin Hfk Hr). }
    { exact (nk_fshape _ _ HK). }
    { exact (nk_fnd _ _ HK). }
    (* the state after the deliveries *)
    assert (Hsame : forall k se1 se2, In (k, se1) (n_sess s) -> In (k, se2) (n_sess s) -> se1 = se2).
    { intros k se1 se2. apply nodup_keys_inj. exact (nk_keys _ _ HK). }
    assert (Hrowkey : forall k se r, In (k, se) (n_sess s) -> In r (se_rows se) -> kkey r = k).
    { intros k se r Hin Hr. destruct (Hwf _ Hin) as (_ & Hkk & _). cbn [fst snd] in Hkk. rewrite Forall_forall in Hkk. apply Hkk. exact Hr. }
    assert (Hsess' : forall k se r, In (k, se) live -> In r (se_rows se) ->
                       In r (m_ontime cs) /\ ~ In (kid r) (m_emitted cs ++ ex_ids expired)).
    { intros k se r Hin Hr. apply Hlivein in Hin as [Hin Hgt]. destruct (nk_sess _ _ HK k se r Hin Hr) as [H1 H2].
      split; [exact H1|]. intros Hi. apply in_app_or in Hi as [Hi|Hi]; [exact (H2 Hi)|].
      apply ex_ids_in in Hi as (k2 & se2 & r2 & Hin2 & Hr2 & Hid). apply Hexin in Hin2 as [Hin2 Hle2].
      assert (r2 = r).
      { apply (nodup_kid_eq (m_seen cs)); [exact (nk_nodup _ _ HK)| | |exact Hid].
        - apply (nk_ont _ _ HK). apply (nk_sess _ _ HK k2 se2 r2 Hin2 Hr2).
        - apply (nk_ont _ _ HK). exact H1. }
      subst r2. assert (k2 = k) by (rewrite <- (Hrowkey k2 se2 r Hin2 Hr2); apply (Hrowkey k se r Hin Hr)). subst k2.
      rewrite (Hsame k se2 se Hin2 Hin) in Hle2. lia. }
    assert (Hcover' : forall r, In r (m_ontime cs) ->
                        In (kid r) (m_emitted cs ++ ex_ids expired) \/ exists se, In (kkey r, se) live /\ In r (se_rows se)).
    { intros r Hr. destruct (nk_cover _ _ HK r Hr) as [Hem|(se & Hin & Hrin)]; [left; apply in_or_app; left; exact Hem|].
      destruct (Z_le_gt_dec (se_end se) wmk) as [Hle|Hgt].
      - left. apply in_or_app. right. apply ex_ids_in. exists (kkey r), se, r. split; [apply Hexin; auto|auto].
      - right. exists se. split; [apply Hlivein; split; [exact Hin|lia]|exact Hrin]. }
    rewrite nchk_evs_app, Hevs. cbn [nchk_evs nchk_ev]. rewrite E4, Hdw.
    assert (C : existsb (fun r => forallb (fun r0 => negb (kkey r0 =? kkey r) || (kts r0 + ntimeout c <=? wmk)) (m_ontime cs1)
                                 && negb (existsb (Z.eqb (kid r)) (m_emitted cs1))) (m_ontime cs1) = false).
    { apply existsb_false_all. intros r Hr. rewrite E3 in *. rewrite E7.
      destruct (Hcover' r Hr) as [Hem|(se & Hin & Hrin)].
      - apply eqb_in_iff in Hem. rewrite Hem. apply andb_false_r.
      - apply andb_false_iff. left. apply not_true_iff_false. intros Hkd. rewrite forallb_forall in Hkd.
        pose proof (proj1 (Hlivein _ _) Hin) as [Hin0 Hgt].
        destruct (Hwf _ Hin0) as (_ & _ & He & _ & (rm & Hrm & Hrm') & _). cbn [fst snd] in *.
        destruct (Hsess' _ _ rm Hin Hrm) as [Hrmo _]. specialize (Hkd rm Hrmo).
        rewrite (Hrowkey _ _ rm Hin0 Hrm), Z.eqb_refl in Hkd. cbn [negb orb] in Hkd. apply Z.leb_le in Hkd. lia. }
    rewrite C. cbn [cl_if]. rewrite app_nil_r. eexists. exists cls. split; [reflexivity|]. split; [exact Hok|].
    split; [|exact E1].
    constructor; cbn [n_sess n_trig n_w n_pend m_seen m_maxts m_ontime m_dw m_lastw m_fired m_emitted].
    - apply filter_nodup_keys. exact (nk_keys _ _ HK).
    - exact Hwf'.
    - rewrite E1, E2, E5. exact (nk_wk _ _ HK).
    - exact (nk_wmok _ _ HK).
    - intros p Hp. discriminate.
    - reflexivity.
    - rewrite E1. exact (nk_nodup _ _ HK).
    - rewrite E1, E3. exact (nk_ont _ _ HK).
    - rewrite E1, E7. intros i Hi. apply in_app_or in Hi as [Hi|Hi]; [exact (nk_emit_seen _ _ HK i Hi)|].
      apply ex_ids_in in Hi as (k2 & se2 & r2 & Hin2 & Hr2 & <-). apply Hexin in Hin2 as [Hin2 _]. apply in_map.
      apply (nk_ont _ _ HK). apply (nk_sess _ _ HK k2 se2 r2 Hin2 Hr2).
    - rewrite E3, E7. exact Hsess'.
    - rewrite E3, E7. exact Hcover'.
    - rewrite E6. intros f Hf. apply in_app_or in Hf as [Hf|Hf]; [|exact (nk_fcur _ _ HK f Hf)].
      apply in_rev, in_map_iff in Hf as ([k se] & <- & Hin). apply Hexin in Hin as [_ Hle]. cbn [fs_of f_end snd].
      apply (ole_trans _ wmk); [exact Hle|]. apply (nk_pend _ _ HK). exact Ep.
    - rewrite E6. intros f k se r Hf Hin Hfk Hr. apply Hlivein in Hin as [Hin Hgt].
      apply in_app_or in Hf as [Hf|Hf]; [|exact (nk_fsess _ _ HK f k se r Hf Hin Hfk Hr)].
      apply in_rev, in_map_iff in Hf as ([k2 se2] & <- & Hin2). apply Hexin in Hin2 as [Hin2 Hle2].
      cbn [fs_of f_key fst] in Hfk. subst k2. rewrite (Hsame k se2 se Hin2 Hin) in Hle2. lia.
    - rewrite E1, E3. exact E8.
    - exact E9.
    - intros k t Hin. rewrite E6.
      assert (Hcases : (exists se, In (k, se) expired /\ t = {| ts_sess := se; ts_close := se_end se + nlateness c |})
                       \/ In (k, t) (n_trig s)).
      { apply filter_In in Hin as [Hin _]. destruct (0 <? nlateness c); [|right; exact Hin].
        apply fold_put_in in Hin as [([k2 se2] & H1 & H2 & H3)|Hin]; [|right; exact Hin].
        cbn [fst snd] in H2, H3. subst k2. left. exists se2. auto. }
      destruct Hcases as [(se & Hex & ->)|Hold].
      + exists (fs_of (k, se)). split; [apply in_or_app; left; apply -> in_rev; apply in_map; exact Hex|].
        cbn. auto.
      + destruct (nk_trig _ _ HK k t Hold) as (f & Hf & Hrest). exists f. split; [apply in_or_app; right; exact Hf|exact Hrest].
  Qed.
End SessSound.
