(* The executable session-window checker of Spec/SessionSpec.v (chk_C10 = nchk_trace: the clauses the harness applies to
   the real session window's trace, returning the LIST of all violated clauses) against the model of
   window/session_window.go (Model/Session.v): for every history of atomic steps with distinct row ids, one wall clock,
   a positive timeout and a non-negative out-of-order tolerance, the only clauses that can ever be reported on a trace of
   the model are NGapNotSplit and NStartNotEarliest (the recorded findings F3a / F3c, both reachable: witnesses below).
   Every other clause - NWrongKey, NUnknownRow, NTwice, NEndNotLatestPlusTimeout, NSplitWithinTimeout, NEarlyDelivery,
   NWatermarkOrigin, NOnTimeLost, NLateUpdateShape, NFarFuture - is never violated by the model.
   Same method as Proofs/TumblingSpecSound.v: a simulation invariant NK between model state and checker state, one lemma
   per kind of step; the watermark sub-invariant WK is reused from there (Model/Watermark.v is shared). *)
From Coq Require Import Lia Arith Sorted Permutation.
From SV Require Import Model.Tumbling Spec.WinSpec Proofs.TumblingProofs Proofs.TumblingComplete Proofs.TumblingPTSpec
     Proofs.TumblingSpecSound.
From SV Require Import Model.Session Spec.SessionSpec Proofs.SessionProofs.

(* ---------------- small list facts ---------------- *)
Lemma find_none_all {A} (p : A -> bool) l : (forall x, In x l -> p x = false) -> find p l = None.
Proof.
  induction l as [|a l IH]; intros H; cbn [find]; [reflexivity|].
  rewrite (H a (or_introl eq_refl)). apply IH. intros x Hx. apply H. right. exact Hx.
Qed.

Lemma existsb_false_all {A} (p : A -> bool) l : (forall x, In x l -> p x = false) -> existsb p l = false.
Proof.
  intros H. apply not_true_iff_false. intros E. apply existsb_exists in E as (x & Hx & Hp).
  rewrite (H x Hx) in Hp. discriminate.
Qed.

Lemma zmax_list_ge l : forall d x, In x l -> x <= zmax_list d l.
Proof.
  induction l as [|a l IH]; intros d x Hx; [contradiction|]. cbn [zmax_list].
  destruct Hx as [<-|Hx]; [lia|]. specialize (IH a x Hx). lia.
Qed.

Lemma zmax_list_in l : forall d, l <> [] -> In (zmax_list d l) l.
Proof.
  induction l as [|a l IH]; intros d Hne; [contradiction|]. cbn [zmax_list].
  destruct l as [|b l'].
  - cbn. left. lia.
  - assert (Hin : In (zmax_list a (b :: l')) (b :: l')) by (apply IH; discriminate).
    destruct (Z.max_spec a (zmax_list a (b :: l'))) as [[_ E]|[_ E]]; rewrite E; [right; exact Hin|left; reflexivity].
Qed.

Lemma zmax_list_eq l d m : In m l -> (forall x, In x l -> x <= m) -> zmax_list d l = m.
Proof.
  intros Hm Hle. assert (Hne : l <> []) by (intros ->; contradiction).
  pose proof (zmax_list_in l d Hne) as H1. pose proof (zmax_list_ge l d m Hm) as H2. specialize (Hle _ H1). lia.
Qed.

(* ---------------- key/value lists ---------------- *)
Lemma remove_key_in {A} k (l : list (Z * A)) k' v : In (k', v) (remove_key k l) -> k' <> k /\ In (k', v) l.
Proof.
  induction l as [|[k0 v0] r IH]; cbn [remove_key]; [contradiction|]. destruct (k =? k0) eqn:E.
  - intros H. destruct (IH H) as [A1 A2]. split; [exact A1|right; exact A2].
  - intros [H|H].
    + injection H as <- <-. split; [apply Z.eqb_neq in E; congruence|left; reflexivity].
    + destruct (IH H) as [A1 A2]. split; [exact A1|right; exact A2].
Qed.

Lemma remove_key_keep {A} k (l : list (Z * A)) k' v : In (k', v) l -> k' <> k -> In (k', v) (remove_key k l).
Proof.
  induction l as [|[k0 v0] r IH]; cbn [remove_key]; [contradiction|]. intros [H|H] Hne.
  - injection H as -> ->. assert (E : (k =? k') = false) by (apply Z.eqb_neq; congruence). rewrite E. left. reflexivity.
  - destruct (k =? k0); [apply IH; assumption|right; apply IH; assumption].
Qed.

Lemma put_in {A} k (v : A) l k' v' : In (k', v') (put k v l) -> (k' = k /\ v' = v) \/ (k' <> k /\ In (k', v') l).
Proof.
  unfold put. intros [H|H]; [injection H as <- <-; left; split; reflexivity|right; apply remove_key_in; exact H].
Qed.

Lemma keys_in {A} k (v : A) l : In (k, v) l -> In k (keys l).
Proof. intros H. unfold keys. change k with (fst (k, v)). apply in_map. exact H. Qed.

Lemma nodup_keys_inj {A} (l : list (Z * A)) k v1 v2 : NoDup (keys l) -> In (k, v1) l -> In (k, v2) l -> v1 = v2.
Proof.
  induction l as [|[k0 v0] r IH]; cbn [keys map fst]; intros Hnd H1 H2; [contradiction|].
  inversion Hnd as [|a b Hni Hnd']; subst. destruct H1 as [H1|H1]; destruct H2 as [H2|H2].
  - congruence.
  - injection H1 as -> ->. exfalso. apply Hni. apply (keys_in k v2). exact H2.
  - injection H2 as -> ->. exfalso. apply Hni. apply (keys_in k v1). exact H1.
  - apply IH; assumption.
Qed.

Lemma nodup_lookup_in {A} (l : list (Z * A)) k v : NoDup (keys l) -> In (k, v) l -> lookup k l = Some v.
Proof.
  intros Hnd Hin. destruct (lookup k l) as [v'|] eqn:E.
  - f_equal. apply (nodup_keys_inj l k); [exact Hnd|apply lookup_in; exact E|exact Hin].
  - exfalso. revert E. clear Hnd. induction l as [|[k0 v0] r IH]; [contradiction|]. cbn [lookup].
    destruct Hin as [H|H].
    + injection H as -> ->. rewrite Z.eqb_refl. discriminate.
    + destruct (k =? k0); [discriminate|apply IH; exact H].
Qed.

Lemma kins_perm {A} (x : Z * A) l : Permutation (kins x l) (x :: l).
Proof.
  induction l as [|y r IH]; cbn [kins]; [apply Permutation_refl|]. destruct (fst x <=? fst y); [apply Permutation_refl|].
  eapply Permutation_trans; [apply perm_skip; exact IH|apply perm_swap].
Qed.

Lemma ksort_perm {A} (l : list (Z * A)) : Permutation (ksort l) l.
Proof.
  induction l as [|x r IH]; [apply Permutation_refl|]. cbn [ksort fold_right]. fold (ksort r).
  eapply Permutation_trans; [apply kins_perm|apply perm_skip; exact IH].
Qed.

Lemma fold_put_in {A B} (g : Z * A -> B) ex : forall tr k t,
  In (k, t) (fold_left (fun tr kv => put (fst kv) (g kv) tr) ex tr) ->
  (exists kv, In kv ex /\ k = fst kv /\ t = g kv) \/ In (k, t) tr.
Proof.
  induction ex as [|x ex IH]; intros tr k t H; cbn [fold_left] in H; [right; exact H|].
  destruct (IH _ _ _ H) as [(kv & H1 & H2 & H3)|H1].
  - left. exists kv. split; [right; exact H1|auto].
  - apply put_in in H1 as [[-> ->]|[_ H1]]; [left; exists x; split; [left; reflexivity|auto]|right; exact H1].
Qed.

(* ---------------- rows ---------------- *)
Lemma krow_in_In r l : krow_in r l = true <-> In r l.
Proof.
  unfold krow_in. split.
  - intros H. apply existsb_exists in H as (x & Hx & He). apply andb_prop in He as [He E3]. apply andb_prop in He as [E1 E2].
    apply Z.eqb_eq in E1, E2, E3. destruct x as [[a b] d], r as [[a' b'] d']. unfold kid, kts, kkey in *. cbn in *. subst. exact Hx.
  - intros H. apply existsb_exists. exists r. split; [exact H|]. rewrite !Z.eqb_refl. reflexivity.
Qed.

Lemma krows_eqb_refl l : krows_eqb l l = true.
Proof.
  unfold krows_eqb. rewrite Nat.eqb_refl. cbn [andb]. induction l as [|a l IH]; cbn; [reflexivity|].
  rewrite !Z.eqb_refl. cbn. exact IH.
Qed.

Lemma nodup_kid_eq (l : list krow) a b : NoDup (map kid l) -> In a l -> In b l -> kid a = kid b -> a = b.
Proof.
  induction l as [|x l IH]; cbn [map]; intros Hnd Ha Hb He; [contradiction|].
  inversion Hnd as [|y z Hni Hnd']; subst. destruct Ha as [Ha|Ha]; destruct Hb as [Hb|Hb].
  - congruence.
  - subst x. exfalso. apply Hni. rewrite He. apply in_map. exact Hb.
  - subst x. exfalso. apply Hni. rewrite <- He. apply in_map. exact Ha.
  - apply IH; assumption.
Qed.

Lemma eqb_in_iff i l : existsb (Z.eqb i) l = true <-> In i l.
Proof.
  split.
  - intros H. apply existsb_exists in H as (x & Hx & He). apply Z.eqb_eq in He. subst. exact Hx.
  - intros H. apply existsb_exists. exists i. split; [exact H|apply Z.eqb_refl].
Qed.

(* ---------------- reported sessions ---------------- *)
Definition ks (f : fsess) : Z * Z := (f_key f, f_start f).

Lemma replace_fsess_ks f l : map ks (replace_fsess f l) = map ks l.
Proof.
  induction l as [|x l IH]; cbn [replace_fsess map]; [reflexivity|].
  destruct ((f_key x =? f_key f) && (f_start x =? f_start f)) eqn:E; cbn [map].
  - apply andb_prop in E as [E1 E2]. apply Z.eqb_eq in E1, E2. unfold ks. rewrite E1, E2. reflexivity.
  - rewrite IH. reflexivity.
Qed.

Lemma replace_fsess_in f l g : In g (replace_fsess f l) -> g = f \/ In g l.
Proof.
  induction l as [|x l IH]; cbn [replace_fsess]; [contradiction|].
  destruct ((f_key x =? f_key f) && (f_start x =? f_start f)).
  - intros [H|H]; [left; auto|right; right; exact H].
  - intros [H|H]; [right; left; exact H|]. destruct (IH H) as [A|A]; [left; exact A|right; right; exact A].
Qed.

Lemma replace_fsess_keep f l g : In g l -> ks g <> ks f -> In g (replace_fsess f l).
Proof.
  induction l as [|x l IH]; cbn [replace_fsess]; [contradiction|]. intros Hin Hne.
  destruct ((f_key x =? f_key f) && (f_start x =? f_start f)) eqn:E.
  - destruct Hin as [Hin|Hin]; [|right; exact Hin]. subst x. exfalso. apply Hne.
    apply andb_prop in E as [E1 E2]. apply Z.eqb_eq in E1, E2. unfold ks. rewrite E1, E2. reflexivity.
  - destruct Hin as [Hin|Hin]; [left; exact Hin|right; apply IH; assumption].
Qed.

Lemma replace_fsess_new f l g : In g l -> ks g = ks f -> In f (replace_fsess f l).
Proof.
  induction l as [|x l IH]; cbn [replace_fsess]; [contradiction|]. intros Hin He.
  destruct ((f_key x =? f_key f) && (f_start x =? f_start f)) eqn:E; [left; reflexivity|].
  destruct Hin as [Hin|Hin]; [|right; apply IH; assumption]. subst x. exfalso.
  unfold ks in He. injection He as E1 E2. rewrite E1, E2, !Z.eqb_refl in E. discriminate.
Qed.

Lemma find_fsess_nodup l f :
  NoDup (map ks l) -> In f l ->
  find (fun g => (f_key g =? f_key f) && (f_start g =? f_start f) && (f_end g =? f_end f)) l = Some f.
Proof.
  induction l as [|x l IH]; cbn [map find]; intros Hnd Hin; [contradiction|].
  inversion Hnd as [|a b Hni Hnd']; subst.
  destruct ((f_key x =? f_key f) && (f_start x =? f_start f) && (f_end x =? f_end f)) eqn:E.
  - destruct Hin as [Hin|Hin]; [congruence|]. exfalso. apply Hni.
    apply andb_prop in E as [E _]. apply andb_prop in E as [E1 E2]. apply Z.eqb_eq in E1, E2.
    assert (Hk : ks x = ks f) by (unfold ks; rewrite E1, E2; reflexivity). rewrite Hk. apply in_map. exact Hin.
  - destruct Hin as [Hin|Hin]; [|apply IH; assumption]. subst x. rewrite !Z.eqb_refl in E. discriminate.
Qed.

Section SessSound.
  Variable c : ncfg.
  Variable base : Z.
  Hypothesis Htmo : 0 < ntimeout c.
  Hypothesis Hooo : 0 <= nooo c.

  (* the tumbling configuration whose watermark object is the session window's *)
  Definition tc : cfg := {| size := 1; ooo := nooo c; lateness := 0; idle := 0 |}.
  Definition rw (r : krow) : row := (kid r, kts r).

  Definition okcl (cl : nclause) : Prop := cl = NGapNotSplit \/ cl = NStartNotEarliest.

  Lemma okcl_gap b : Forall okcl (cl_if b NGapNotSplit).
  Proof. destruct b; cbn; [constructor; [left; reflexivity|constructor]|constructor]. Qed.
  Lemma okcl_start b : Forall okcl (cl_if b NStartNotEarliest).
  Proof. destruct b; cbn; [constructor; [right; reflexivity|constructor]|constructor]. Qed.

  Fixpoint nchk_evs (cs : ncst) (evs : list sev) : ncst * list nclause :=
    match evs with
    | [] => (cs, [])
    | e :: r => let '(cs1, cl1) := nchk_ev c base cs e in let '(cs2, cl2) := nchk_evs cs1 r in (cs2, cl1 ++ cl2)
    end.

  Lemma nchk_trace_app cs a b :
    nchk_trace c base cs (a ++ b) = snd (nchk_evs cs a) ++ nchk_trace c base (fst (nchk_evs cs a)) b.
  Proof.
    revert cs. induction a as [|e a IH]; intros cs; cbn [app nchk_trace nchk_evs]; [reflexivity|].
    destruct (nchk_ev c base cs e) as [cs1 cl1]. rewrite IH. destruct (nchk_evs cs1 a) as [cs2 cl2]. cbn [fst snd].
    rewrite app_assoc. reflexivity.
  Qed.

  (* what the checker knows of a reported session: its rows are of its key, have been seen, are not far-future, and
     the on-time ones are at least a timeout before its end *)
  Definition fshape (seen ont : list krow) (f : fsess) : Prop :=
    f_start f < f_end f /\
    forall a, In a (f_rows f) -> kkey a = f_key f /\ In a seen /\ nsane c base (kts a) = true /\
                                (In a ont -> kts a + ntimeout c <= f_end f).

  Definition fs_of (kv : Z * sess) : fsess :=
    {| f_key := fst kv; f_start := se_start (snd kv); f_end := se_end (snd kv); f_rows := se_rows (snd kv) |}.
  Definition bev (kv : Z * sess) : sev := SvBatch (fst kv) (se_start (snd kv)) (se_end (snd kv)) (se_rows (snd kv)).
  Definition ex_ids (ex : list (Z * sess)) : list Z := flat_map (fun kv => map kid (se_rows (snd kv))) ex.

  Record NK (s : nst) (cs : ncst) : Prop := {
    nk_keys : NoDup (keys (n_sess s));
    nk_wf : NWf c s;
    nk_wk : WK tc base (n_w s) (map rw (m_seen cs)) (m_maxts cs) (m_lastw cs);
    nk_wmok : wm_ok (n_w s);
    nk_pend : forall p, n_pend s = Some p -> ole p (cur (n_w s));
    nk_dw : m_dw cs = n_pend s;
    nk_nodup : NoDup (map kid (m_seen cs));
    nk_ont : forall r, In r (m_ontime cs) -> In r (m_seen cs) /\ nsane c base (kts r) = true;
    nk_emit_seen : incl (m_emitted cs) (map kid (m_seen cs));
    nk_sess : forall k se r, In (k, se) (n_sess s) -> In r (se_rows se) -> In r (m_ontime cs) /\ ~ In (kid r) (m_emitted cs);
    nk_cover : forall r, In r (m_ontime cs) ->
                 In (kid r) (m_emitted cs) \/ exists se, In (kkey r, se) (n_sess s) /\ In r (se_rows se);
    nk_fcur : forall f, In f (m_fired cs) -> ole (f_end f) (cur (n_w s));
    nk_fsess : forall f k se r, In f (m_fired cs) -> In (k, se) (n_sess s) -> f_key f = k -> In r (se_rows se) -> f_end f <= kts r;
    nk_fshape : forall f, In f (m_fired cs) -> fshape (m_seen cs) (m_ontime cs) f;
    nk_fnd : NoDup (map ks (m_fired cs));
    nk_trig : forall k t, In (k, t) (n_trig s) ->
                exists f, In f (m_fired cs) /\ f_key f = k /\ f_start f = se_start (ts_sess t) /\
                          f_end f = se_end (ts_sess t) /\ f_rows f = se_rows (ts_sess t) }.

  (* ---------------- one first delivery ---------------- *)
  Lemma batch_first cs k se wmk :
    m_dw cs = Some wmk -> wf_sess c k se -> se_end se <= wmk ->
    (forall r, In r (m_ontime cs) -> In r (m_seen cs) /\ nsane c base (kts r) = true) ->
    (forall r, In r (se_rows se) -> In r (m_ontime cs) /\ ~ In (kid r) (m_emitted cs)) ->
    (forall f r, In f (m_fired cs) -> f_key f = k -> In r (se_rows se) -> f_end f <= kts r) ->
    (forall f, In f (m_fired cs) -> fshape (m_seen cs) (m_ontime cs) f) ->
    exists cls, Forall okcl cls /\
      nchk_ev c base cs (bev (k, se)) =
      ({| m_seen := m_seen cs; m_maxts := m_maxts cs; m_ontime := m_ontime cs; m_dw := m_dw cs; m_lastw := m_lastw cs;
          m_fired := fs_of (k, se) :: m_fired cs; m_lastadd := None; m_emitted := m_emitted cs ++ map kid (se_rows se) |}, cls).
  Proof.
    intros Hdw (Hne & Hk & He & Hle & (rm & Hrm & Hrm') & (r0 & rest & Hr0 & Hst)) Hexp Hont Hrows Hfs Hfsh.
    assert (Hr0in : In r0 (se_rows se)) by (rewrite Hr0; left; reflexivity).
    unfold bev. cbn [nchk_ev fst snd].
    rewrite find_none_all.
    2:{ intros f Hf. destruct (f_key f =? k) eqn:Ek; [|reflexivity]. apply Z.eqb_eq in Ek.
        pose proof (Hfs f r0 Hf Ek Hr0in) as H1. destruct (Hfsh f Hf) as [H2 _].
        assert (E : (f_start f =? se_start se) = false) by (apply Z.eqb_neq; lia). rewrite E. reflexivity. }
    rewrite Forall_forall in Hk.
    assert (C1 : forallb (fun r => kkey r =? k) (se_rows se) = true).
    { apply forallb_forall. intros r Hr. apply Z.eqb_eq. apply Hk. exact Hr. }
    assert (C2 : forallb (fun r => krow_in r (m_seen cs)) (se_rows se) = true).
    { apply forallb_forall. intros r Hr. apply krow_in_In. apply Hont. apply Hrows. exact Hr. }
    assert (C3 : existsb (fun r => negb (nsane c base (kts r))) (se_rows se) = false).
    { apply existsb_false_all. intros r Hr. destruct (Hont r (proj1 (Hrows r Hr))) as [_ Hs]. rewrite Hs. reflexivity. }
    assert (C4 : existsb (fun r => existsb (Z.eqb (kid r)) (m_emitted cs)) (se_rows se) = false).
    { apply existsb_false_all. intros r Hr. apply not_true_iff_false. intros H. apply eqb_in_iff in H.
      exact (proj2 (Hrows r Hr) H). }
    assert (C5 : negb (se_end se <=? wmk) = false) by (apply negb_false_iff, Z.leb_le; exact Hexp).
    assert (C6 : negb (se_end se =? zmax_list 0 (map kts (se_rows se)) + ntimeout c) = false).
    { apply negb_false_iff, Z.eqb_eq. rewrite (zmax_list_eq (map kts (se_rows se)) 0 (se_last se)); [exact He| |].
      - rewrite <- Hrm'. apply in_map. exact Hrm.
      - intros x Hx. apply in_map_iff in Hx as (r & <- & Hr). apply Hle. exact Hr. }
    assert (C7 : existsb (fun f => (f_key f =? k) &&
                   existsb (fun a => existsb (fun b => Z.abs (a - b) <? ntimeout c)
                                             (map kts (filter (fun r => krow_in r (m_ontime cs)) (se_rows se))))
                           (map kts (filter (fun r => krow_in r (m_ontime cs)) (f_rows f)))) (m_fired cs) = false).
    { apply existsb_false_all. intros f Hf. destruct (f_key f =? k) eqn:Ek; [|reflexivity]. apply Z.eqb_eq in Ek. cbn [andb].
      apply existsb_false_all. intros a Ha. apply in_map_iff in Ha as (ra & <- & Hra). apply filter_In in Hra as [Hra Hao].
      apply krow_in_In in Hao. destruct (Hfsh f Hf) as [_ Hall]. destruct (Hall ra Hra) as (_ & _ & _ & Hbound).
      specialize (Hbound Hao).
      apply existsb_false_all. intros b Hb. apply in_map_iff in Hb as (rb & <- & Hrb). apply filter_In in Hrb as [Hrb _].
      pose proof (Hfs f rb Hf Ek Hrb) as H1. apply Z.ltb_ge. lia. }
    rewrite C1, C2, C3, C4, Hdw, C5, C6, C7. cbn [negb cl_if app].
    eexists. split; [|reflexivity]. apply Forall_app. split; [apply okcl_gap|].
    apply Forall_app. split; [apply okcl_start|constructor].
  Qed.
  Lemma wf_fshape seen ont k se :
    wf_sess c k se -> (forall r, In r (se_rows se) -> In r ont) ->
    (forall r, In r ont -> In r seen /\ nsane c base (kts r) = true) -> fshape seen ont (fs_of (k, se)).
  Proof.
    intros (Hne & Hk & He & Hle & (rm & Hrm & Hrm') & (r0 & rest & Hr0 & Hst)) Hrows Hont.
    assert (Hr0in : In r0 (se_rows se)) by (rewrite Hr0; left; reflexivity).
    unfold fshape, fs_of. cbn [f_start f_end f_rows f_key fst snd]. split.
    - pose proof (Hle r0 Hr0in). lia.
    - intros a Ha. rewrite Forall_forall in Hk. split; [apply Hk; exact Ha|].
      destruct (Hont a (Hrows a Ha)) as [H1 H2]. split; [exact H1|]. split; [exact H2|].
      intros _. pose proof (Hle a Ha). lia.
  Qed.

  Lemma nchk_evs_app cs a b :
    nchk_evs cs (a ++ b) = let '(cs1, cl1) := nchk_evs cs a in let '(cs2, cl2) := nchk_evs cs1 b in (cs2, cl1 ++ cl2).
  Proof.
    revert cs. induction a as [|e a IH]; intros cs; cbn [app nchk_evs].
    - destruct (nchk_evs cs b) as [cs2 cl2]. reflexivity.
    - destruct (nchk_ev c base cs e) as [cs1 cl1]. rewrite IH. destruct (nchk_evs cs1 a) as [cs2 cl2].
      destruct (nchk_evs cs2 b) as [cs3 cl3]. rewrite app_assoc. reflexivity.
  Qed.

  Lemma ex_ids_in i ex : In i (ex_ids ex) <-> exists k se r, In (k, se) ex /\ In r (se_rows se) /\ kid r = i.
  Proof.
    unfold ex_ids. rewrite in_flat_map. split.
    - intros ([k se] & Hin & Hi). cbn [snd] in Hi. apply in_map_iff in Hi as (r & Hr & Hrin). exists k, se, r. auto.
    - intros (k & se & r & Hin & Hr & Hi). exists (k, se). split; [exact Hin|]. cbn [snd]. rewrite <- Hi. apply in_map. exact Hr.
  Qed.

  (* all first deliveries of one expiry step *)
  Lemma batches_sound wmk : forall ex cs,
    NoDup (keys ex) -> m_dw cs = Some wmk -> NoDup (map kid (m_seen cs)) ->
    (forall r, In r (m_ontime cs) -> In r (m_seen cs) /\ nsane c base (kts r) = true) ->
    (forall k se, In (k, se) ex -> wf_sess c k se /\ se_end se <= wmk /\
        (forall r, In r (se_rows se) -> In r (m_ontime cs) /\ ~ In (kid r) (m_emitted cs)) /\
        (forall f r, In f (m_fired cs) -> f_key f = k -> In r (se_rows se) -> f_end f <= kts r)) ->
    (forall f, In f (m_fired cs) -> fshape (m_seen cs) (m_ontime cs) f) ->
    NoDup (map ks (m_fired cs)) ->
    exists cs' cls, nchk_evs cs (map bev ex) = (cs', cls) /\ Forall okcl cls /\
      m_seen cs' = m_seen cs /\ m_maxts cs' = m_maxts cs /\ m_ontime cs' = m_ontime cs /\ m_dw cs' = m_dw cs /\
      m_lastw cs' = m_lastw cs /\ m_fired cs' = rev (map fs_of ex) ++ m_fired cs /\
      m_emitted cs' = m_emitted cs ++ ex_ids ex /\
      (forall f, In f (m_fired cs') -> fshape (m_seen cs) (m_ontime cs) f) /\ NoDup (map ks (m_fired cs')).
  Proof.
    induction ex as [|[k se] ex IH]; intros cs Hnd Hdw Hids Hont Hex Hfsh Hfnd.
    - exists cs, []. cbn [map nchk_evs rev app ex_ids flat_map]. rewrite app_nil_r.
      split; [reflexivity|]. split; [constructor|]. repeat (split; [reflexivity|]). split; [exact Hfsh|exact Hfnd].
    - cbn [map nchk_evs]. destruct (Hex k se (or_introl eq_refl)) as (Hwf & Hexp & Hrows & Hfs).
      destruct (batch_first cs k se wmk Hdw Hwf Hexp Hont Hrows Hfs Hfsh) as (cl1 & Hok1 & Hev). rewrite Hev.
      cbn [keys map fst] in Hnd. inversion Hnd as [|a b Hni Hnd']; subst a b.
      pose proof Hwf as (_ & Hkk & _ & Hle & _ & (r0 & rest & Hr0 & Hst)). rewrite Forall_forall in Hkk.
      assert (Hr0in : In r0 (se_rows se)) by (rewrite Hr0; left; reflexivity).
      match goal with |- context [nchk_evs ?x _] => set (cs1 := x) end.
      assert (Hclash : forall k' se', In (k', se') ex -> k' <> k).
      { intros k' se' Hin Heq. subst k'. apply Hni. apply (keys_in k se'). exact Hin. }
      destruct (IH cs1) as (cs' & cls & Hevs & Hok & E1 & E2 & E3 & E4 & E5 & E6 & E7 & E8 & E9).
      + exact Hnd'.
      + exact Hdw.
      + exact Hids.
      + exact Hont.
      + intros k' se' Hin. destruct (Hex k' se' (or_intror Hin)) as (Hwf' & Hexp' & Hrows' & Hfs').
        split; [exact Hwf'|]. split; [exact Hexp'|]. split.
        * intros r Hr. destruct (Hrows' r Hr) as [H1 H2]. split; [exact H1|]. cbn [m_emitted cs1].
          intros Hi. apply in_app_or in Hi as [Hi|Hi]; [exact (H2 Hi)|].
          apply in_map_iff in Hi as (r2 & Hid & Hr2).
          assert (r2 = r).
          { apply (nodup_kid_eq (m_seen cs)); [exact Hids|apply Hont, Hrows; exact Hr2|apply Hont; exact H1|exact Hid]. }
          subst r2. destruct Hwf' as (_ & Hkk' & _). rewrite Forall_forall in Hkk'.
          apply (Hclash k' se' Hin). rewrite <- (Hkk' r Hr). apply Hkk. exact Hr2.
        * intros f r Hf Hfk Hr. cbn [m_fired cs1] in Hf. destruct Hf as [Hf|Hf]; [|exact (Hfs' f r Hf Hfk Hr)].
          exfalso. subst f. cbn [fs_of f_key fst] in Hfk. apply (Hclash k' se' Hin). symmetry. exact Hfk.
      + intros f Hf. cbn [m_fired cs1] in Hf. destruct Hf as [Hf|Hf]; [|exact (Hfsh f Hf)]. subst f.
        apply wf_fshape; [exact Hwf| |exact Hont]. intros r Hr. apply Hrows. exact Hr.
      + cbn [m_fired cs1 map]. constructor; [|exact Hfnd]. intros Hin. apply in_map_iff in Hin as (f & Hkf & Hf).
        unfold ks, fs_of in Hkf. cbn [f_key f_start fst snd] in Hkf. injection Hkf as Hk1 Hk2.
        pose proof (Hfs f r0 Hf Hk1 Hr0in). destruct (Hfsh f Hf) as [Hlt _]. lia.
      + rewrite Hevs. exists cs', (cl1 ++ cls). split; [reflexivity|]. split; [apply Forall_app; split; assumption|].
        cbn [m_seen m_maxts m_ontime m_dw m_lastw m_fired m_emitted cs1] in *.
        split; [exact E1|]. split; [exact E2|]. split; [exact E3|]. split; [exact E4|]. split; [exact E5|].
        split; [rewrite E6; cbn [map rev]; rewrite <- app_assoc; reflexivity|].
        split; [rewrite E7; unfold ex_ids; cbn [flat_map snd]; rewrite <- app_assoc; reflexivity|].
        split; [exact E8|exact E9].
  Qed.

  (* ---------------- the expiry step ---------------- *)
  Lemma fire_sound s cs s' evs :
    NK s cs -> nstep c s NFire = (s', evs) ->
    exists cs' cls, nchk_evs cs evs = (cs', cls) /\ Forall okcl cls /\ NK s' cs' /\ m_seen cs' = m_seen cs.
  Proof.
    intros HK Hst. pose proof (nstep_wf c s NFire s' evs (nk_wf _ _ HK) Hst) as Hwf'.
    cbn [nstep] in Hst. unfold nfire in Hst. destruct (n_pend s) as [wmk|] eqn:Ep.
    2:{ injection Hst as <- <-. exists cs, []. cbn [nchk_evs]. split; [reflexivity|]. split; [constructor|]. split; [exact HK|reflexivity]. }
    injection Hst as <- <-.
    set (expired := ksort (filter (fun kv => se_end (snd kv) <=? wmk) (n_sess s))) in *.
    set (live := filter (fun kv => negb (se_end (snd kv) <=? wmk)) (n_sess s)) in *.
    assert (Hperm : Permutation expired (filter (fun kv => se_end (snd kv) <=? wmk) (n_sess s))) by apply ksort_perm.
    assert (Hexin : forall k se, In (k, se) expired <-> In (k, se) (n_sess s) /\ se_end se <= wmk).
    { intros k se. split.
      - intros H. apply (Permutation_in _ Hperm) in H. apply filter_In in H as [H1 H2]. cbn [snd] in H2. apply Z.leb_le in H2. auto.
      - intros [H1 H2]. apply (Permutation_in _ (Permutation_sym Hperm)). apply filter_In. split; [exact H1|]. cbn [snd]. apply Z.leb_le. exact H2. }
    assert (Hlivein : forall k se, In (k, se) live <-> In (k, se) (n_sess s) /\ wmk < se_end se).
    { intros k se. unfold live. rewrite filter_In. cbn [snd]. rewrite negb_true_iff, Z.leb_gt. reflexivity. }
    assert (Hexnd : NoDup (keys expired)).
    { unfold keys. apply (Permutation_NoDup (Permutation_map fst (Permutation_sym Hperm))).
      apply (filter_nodup_keys _ _ (nk_keys _ _ HK)). }
    pose proof (nk_wf _ _ HK) as Hwf. unfold NWf in Hwf. rewrite Forall_forall in Hwf.
    pose proof (nk_dw _ _ HK) as Hdw. rewrite Ep in Hdw.
    change (map (fun kv : Z * sess => SvBatch (fst kv) (se_start (snd kv)) (se_end (snd kv)) (se_rows (snd kv))) expired)
      with (map bev expired).
    destruct (batches_sound wmk expired cs Hexnd Hdw (nk_nodup _ _ HK) (nk_ont _ _ HK)) as
      (cs1 & cls & Hevs & Hok & E1 & E2 & E3 & E4 & E5 & E6 & E7 & E8 & E9).
    { intros k se Hin. apply Hexin in Hin as [Hin Hle]. split; [exact (Hwf _ Hin)|]. split; [exact Hle|]. split.
      - intros r Hr. exact (nk_sess _ _ HK k se r Hin Hr).
      - intros f r Hf Hfk Hr. exact (nk_fsess _ _ HK f k se r Hf Hin Hfk Hr). }
    { exact (nk_fshape _ _ HK). }
    { exact (nk_fnd _ _ HK). }
    (* the state after the deliveries *)
    assert (Hsame : forall k se1 se2, In (k, se1) (n_sess s) -> In (k, se2) (n_sess s) -> se1 = se2).
    { intros k se1 se2. apply nodup_keys_inj. exact (nk_keys _ _ HK). }
    assert (Hrowkey : forall k se r, In (k, se) (n_sess s) -> In r (se_rows se) -> kkey r = k).
    { intros k se r Hin Hr. destruct (Hwf _ Hin) as (_ & Hkk & _). cbn [fst snd] in Hkk. rewrite Forall_forall in Hkk. apply Hkk. exact Hr. }
    assert (Hsess' : forall k se r, In (k, se) live -> In r (se_rows se) ->
                       In r (m_ontime cs) /\ ~ In (kid r) (m_emitted cs ++ ex_ids expired)).
    { intros k se r Hin Hr. apply Hlivein in Hin as [Hin Hgt]. destruct (nk_sess _ _ HK k se r Hin Hr) as [H1 H2].
      split; [exact H1|]. intros Hi. apply in_app_or in Hi as [Hi|Hi]; [exact (H2 Hi)|].
      apply ex_ids_in in Hi as (k2 & se2 & r2 & Hin2 & Hr2 & Hid). apply Hexin in Hin2 as [Hin2 Hle2].
      assert (r2 = r).
      { apply (nodup_kid_eq (m_seen cs)); [exact (nk_nodup _ _ HK)| | |exact Hid].
        - apply (nk_ont _ _ HK). apply (nk_sess _ _ HK k2 se2 r2 Hin2 Hr2).
        - apply (nk_ont _ _ HK). exact H1. }
      subst r2. assert (k2 = k) by (rewrite <- (Hrowkey k2 se2 r Hin2 Hr2); apply (Hrowkey k se r Hin Hr)). subst k2.
      rewrite (Hsame k se2 se Hin2 Hin) in Hle2. lia. }
    assert (Hcover' : forall r, In r (m_ontime cs) ->
                        In (kid r) (m_emitted cs ++ ex_ids expired) \/ exists se, In (kkey r, se) live /\ In r (se_rows se)).
    { intros r Hr. destruct (nk_cover _ _ HK r Hr) as [Hem|(se & Hin & Hrin)]; [left; apply in_or_app; left; exact Hem|].
      destruct (Z_le_gt_dec (se_end se) wmk) as [Hle|Hgt].
      - left. apply in_or_app. right. apply ex_ids_in. exists (kkey r), se, r. split; [apply Hexin; auto|auto].
      - right. exists se. split; [apply Hlivein; split; [exact Hin|lia]|exact Hrin]. }
    rewrite nchk_evs_app, Hevs. cbn [nchk_evs nchk_ev]. rewrite E4, Hdw.
    assert (C : existsb (fun r => forallb (fun r0 => negb (kkey r0 =? kkey r) || (kts r0 + ntimeout c <=? wmk)) (m_ontime cs1)
                                 && negb (existsb (Z.eqb (kid r)) (m_emitted cs1))) (m_ontime cs1) = false).
    { apply existsb_false_all. intros r Hr. rewrite E3 in *. rewrite E7.
      destruct (Hcover' r Hr) as [Hem|(se & Hin & Hrin)].
      - apply eqb_in_iff in Hem. rewrite Hem. apply andb_false_r.
      - apply andb_false_iff. left. apply not_true_iff_false. intros Hkd. rewrite forallb_forall in Hkd.
        pose proof (proj1 (Hlivein _ _) Hin) as [Hin0 Hgt].
        destruct (Hwf _ Hin0) as (_ & _ & He & _ & (rm & Hrm & Hrm') & _). cbn [fst snd] in *.
        destruct (Hsess' _ _ rm Hin Hrm) as [Hrmo _]. specialize (Hkd rm Hrmo).
        rewrite (Hrowkey _ _ rm Hin0 Hrm), Z.eqb_refl in Hkd. cbn [negb orb] in Hkd. apply Z.leb_le in Hkd. lia. }
    rewrite C. cbn [cl_if]. rewrite app_nil_r. eexists. exists cls. split; [reflexivity|]. split; [exact Hok|].
    split; [|exact E1].
    constructor; cbn [n_sess n_trig n_w n_pend m_seen m_maxts m_ontime m_dw m_lastw m_fired m_emitted].
    - apply filter_nodup_keys. exact (nk_keys _ _ HK).
    - exact Hwf'.
    - rewrite E1, E2, E5. exact (nk_wk _ _ HK).
    - exact (nk_wmok _ _ HK).
    - intros p Hp. discriminate.
    - reflexivity.
    - rewrite E1. exact (nk_nodup _ _ HK).
    - rewrite E1, E3. exact (nk_ont _ _ HK).
    - rewrite E1, E7. intros i Hi. apply in_app_or in Hi as [Hi|Hi]; [exact (nk_emit_seen _ _ HK i Hi)|].
      apply ex_ids_in in Hi as (k2 & se2 & r2 & Hin2 & Hr2 & <-). apply Hexin in Hin2 as [Hin2 _]. apply in_map.
      apply (nk_ont _ _ HK). apply (nk_sess _ _ HK k2 se2 r2 Hin2 Hr2).
    - rewrite E3, E7. exact Hsess'.
    - rewrite E3, E7. exact Hcover'.
    - rewrite E6. intros f Hf. apply in_app_or in Hf as [Hf|Hf]; [|exact (nk_fcur _ _ HK f Hf)].
      apply in_rev, in_map_iff in Hf as ([k se] & <- & Hin). apply Hexin in Hin as [_ Hle]. cbn [fs_of f_end snd].
      apply (ole_trans _ wmk); [exact Hle|]. apply (nk_pend _ _ HK). exact Ep.
    - rewrite E6. intros f k se r Hf Hin Hfk Hr. apply Hlivein in Hin as [Hin Hgt].
      apply in_app_or in Hf as [Hf|Hf]; [|exact (nk_fsess _ _ HK f k se r Hf Hin Hfk Hr)].
      apply in_rev, in_map_iff in Hf as ([k2 se2] & <- & Hin2). apply Hexin in Hin2 as [Hin2 Hle2].
      cbn [fs_of f_key fst] in Hfk. subst k2. rewrite (Hsame k se2 se Hin2 Hin) in Hle2. lia.
    - rewrite E1, E3. exact E8.
    - exact E9.
    - intros k t Hin. rewrite E6.
      assert (Hcases : (exists se, In (k, se) expired /\ t = {| ts_sess := se; ts_close := se_end se + nlateness c |})
                       \/ In (k, t) (n_trig s)).
      { apply filter_In in Hin as [Hin _]. destruct (0 <? nlateness c); [|right; exact Hin].
        apply fold_put_in in Hin as [([k2 se2] & H1 & H2 & H3)|Hin]; [|right; exact Hin].
        cbn [fst snd] in H2, H3. subst k2. left. exists se2. auto. }
      destruct Hcases as [(se & Hex & ->)|Hold].
      + exists (fs_of (k, se)). split; [apply in_or_app; left; apply -> in_rev; apply in_map; exact Hex|].
        cbn. auto.
      + destruct (nk_trig _ _ HK k t Hold) as (f & Hf & Hrest). exists f. split; [apply in_or_app; right; exact Hf|exact Hrest].
  Qed.
  (* ---------------- Add ---------------- *)
  Definition ontime_b (cs : ncst) (ts : Z) : bool :=
    nsane c base ts && (match m_maxts cs with None => true | Some m => m - nooo c <=? ts end).
  Definition cs_add (cs : ncst) (id ts key : Z) : ncst :=
    {| m_seen := m_seen cs ++ [(id, ts, key)];
       m_maxts := if nsane c base ts then Some (omaxz ts (m_maxts cs)) else m_maxts cs;
       m_ontime := if ontime_b cs ts then m_ontime cs ++ [(id, ts, key)] else m_ontime cs;
       m_dw := m_dw cs; m_lastw := m_lastw cs; m_fired := m_fired cs; m_lastadd := Some (id, ts, key);
       m_emitted := m_emitted cs |}.

  Lemma add_ev cs id ts key : nchk_ev c base cs (SvAdd id ts key) = (cs_add cs id ts key, []).
  Proof. reflexivity. Qed.

  Lemma add_WK s cs id ts key :
    NK s cs ->
    WK tc base (update_event_time (nooo c) base ts (n_w s)) (map rw (m_seen (cs_add cs id ts key)))
       (m_maxts (cs_add cs id ts key)) (m_lastw cs).
  Proof.
    intros HK. pose proof (uet_WK tc base (n_w s) (map rw (m_seen cs)) (m_maxts cs) (m_lastw cs) id ts (nk_wk _ _ HK)) as H.
    cbn [cs_add m_seen m_maxts]. rewrite map_app. exact H.
  Qed.

  Lemma late_iff_not_ontime s cs ts :
    NK s cs -> nsane c base ts = true ->
    is_late ts (update_event_time (nooo c) base ts (n_w s)) = negb (ontime_b cs ts).
  Proof.
    intros HK Hsn. pose proof (add_WK s cs 0 ts 0 HK) as [_ Hc _ _ _ _]. cbn [cs_add m_maxts] in Hc. rewrite Hsn in Hc.
    cbn [option_map tc ooo] in Hc. unfold is_late. rewrite Hc. unfold ontime_b. rewrite Hsn. cbn [andb].
    destruct (m_maxts cs) as [m|]; cbn [omaxz negb].
    - destruct (m - nooo c <=? ts) eqn:E; cbn [negb]; [apply Z.leb_le in E; apply Z.ltb_ge; lia|apply Z.leb_gt in E; apply Z.ltb_lt; lia].
    - apply Z.ltb_ge. lia.
  Qed.

  Lemma fshape_seen seen ont f r : fshape seen ont f -> fshape (seen ++ [r]) ont f.
  Proof.
    intros [H1 H2]. split; [exact H1|]. intros a Ha. destruct (H2 a Ha) as (A & B & C & D).
    split; [exact A|]. split; [apply in_or_app; left; exact B|]. split; [exact C|exact D].
  Qed.

  Lemma fshape_both seen ont f r : ~ In (kid r) (map kid seen) -> fshape seen ont f -> fshape (seen ++ [r]) (ont ++ [r]) f.
  Proof.
    intros Hfresh [H1 H2]. split; [exact H1|]. intros a Ha. destruct (H2 a Ha) as (A & B & C & D).
    split; [exact A|]. split; [apply in_or_app; left; exact B|]. split; [exact C|].
    intros Hin. apply in_app_or in Hin as [Hin|[Hin|[]]]; [exact (D Hin)|]. subst a. exfalso. apply Hfresh. apply in_map. exact B.
  Qed.

  (* the row changes neither the open nor the retained sessions (far-future, or late and dropped) *)
  Lemma NK_inert s cs id ts key :
    NK s cs -> ~ In id (map kid (m_seen cs)) -> ontime_b cs ts = false ->
    NK {| n_sess := n_sess s; n_trig := n_trig s; n_w := update_event_time (nooo c) base ts (n_w s); n_pend := n_pend s |}
       (cs_add cs id ts key).
  Proof.
    intros HK Hfresh Hno. pose proof (add_WK s cs id ts key HK) as Hwk.
    constructor; cbn [n_sess n_trig n_w n_pend]; try exact Hwk; cbn [cs_add m_seen m_maxts m_ontime m_dw m_lastw m_fired m_emitted];
      try rewrite Hno.
    - exact (nk_keys _ _ HK).
    - exact (nk_wf _ _ HK).
    - apply uet_ok. exact (nk_wmok _ _ HK).
    - intros p Hp. apply uet_mono. exact (nk_pend _ _ HK p Hp).
    - exact (nk_dw _ _ HK).
    - rewrite map_app. apply NoDup_snoc; [exact (nk_nodup _ _ HK)|exact Hfresh].
    - intros r Hr. destruct (nk_ont _ _ HK r Hr) as [H1 H2]. split; [apply in_or_app; left; exact H1|exact H2].
    - intros i Hi. rewrite map_app. apply in_or_app. left. exact (nk_emit_seen _ _ HK i Hi).
    - exact (nk_sess _ _ HK).
    - exact (nk_cover _ _ HK).
    - intros f Hf. apply uet_mono. exact (nk_fcur _ _ HK f Hf).
    - exact (nk_fsess _ _ HK).
    - intros f Hf. apply fshape_seen. exact (nk_fshape _ _ HK f Hf).
    - exact (nk_fnd _ _ HK).
    - exact (nk_trig _ _ HK).
  Qed.

  (* an on-time row joins (or opens) the session of its key *)
  Lemma NK_accept s cs id ts key se' :
    NK s cs -> ~ In id (map kid (m_seen cs)) -> ontime_b cs ts = true ->
    se' = match lookup key (n_sess s) with
          | None => {| se_rows := [(id, ts, key)]; se_last := ts; se_start := ts; se_end := ts + ntimeout c |}
          | Some se =>
              if se_last se <? ts
              then {| se_rows := se_rows se ++ [(id, ts, key)]; se_last := ts; se_start := se_start se;
                      se_end := Z.max (se_end se) (ts + ntimeout c) |}
              else {| se_rows := se_rows se ++ [(id, ts, key)]; se_last := se_last se; se_start := se_start se; se_end := se_end se |}
          end ->
    NWf c {| n_sess := put key se' (n_sess s); n_trig := n_trig s; n_w := update_event_time (nooo c) base ts (n_w s); n_pend := n_pend s |} ->
    NK {| n_sess := put key se' (n_sess s); n_trig := n_trig s; n_w := update_event_time (nooo c) base ts (n_w s); n_pend := n_pend s |}
       (cs_add cs id ts key).
  Proof.
    intros HK Hfresh Hon Hse' Hwf'. pose proof (add_WK s cs id ts key HK) as Hwk.
    set (row := (id, ts, key)) in *.
    assert (Hsn : nsane c base ts = true) by (unfold ontime_b in Hon; apply andb_prop in Hon as [H _]; exact H).
    assert (Hnl : is_late ts (update_event_time (nooo c) base ts (n_w s)) = false).
    { rewrite (late_iff_not_ontime s cs ts HK Hsn), Hon. reflexivity. }
    assert (Hrows : forall r, In r (se_rows se') -> (exists se, In (key, se) (n_sess s) /\ In r (se_rows se)) \/ r = row).
    { intros r Hr. rewrite Hse' in Hr. destruct (lookup key (n_sess s)) as [se|] eqn:El.
      - apply lookup_in in El. destruct (se_last se <? ts); cbn [se_rows] in Hr;
          (apply in_app_or in Hr as [Hr|[Hr|[]]]; [left; exists se; auto|right; auto]).
      - cbn [se_rows] in Hr. destruct Hr as [Hr|[]]. right. auto. }
    assert (Hrows2 : forall se r, In (key, se) (n_sess s) -> In r (se_rows se) -> In r (se_rows se')).
    { intros se r Hin Hr. rewrite Hse'. rewrite (nodup_lookup_in _ _ _ (nk_keys _ _ HK) Hin).
      destruct (se_last se <? ts); cbn [se_rows]; apply in_or_app; left; exact Hr. }
    assert (Hrow : In row (se_rows se')).
    { rewrite Hse'. destruct (lookup key (n_sess s)) as [se|]; [destruct (se_last se <? ts)|]; cbn [se_rows];
        [apply in_or_app; right; left; reflexivity|apply in_or_app; right; left; reflexivity|left; reflexivity]. }
    assert (Hnotem : ~ In id (m_emitted cs)) by (intros Hi; apply Hfresh; exact (nk_emit_seen _ _ HK id Hi)).
    constructor; cbn [n_sess n_trig n_w n_pend]; try exact Hwk; try exact Hwf';
      cbn [cs_add m_seen m_maxts m_ontime m_dw m_lastw m_fired m_emitted]; try rewrite Hon.
    - apply put_nodup. exact (nk_keys _ _ HK).
    - apply uet_ok. exact (nk_wmok _ _ HK).
    - intros p Hp. apply uet_mono. exact (nk_pend _ _ HK p Hp).
    - exact (nk_dw _ _ HK).
    - rewrite map_app. apply NoDup_snoc; [exact (nk_nodup _ _ HK)|exact Hfresh].
    - intros r Hr. apply in_app_or in Hr as [Hr|[Hr|[]]].
      + destruct (nk_ont _ _ HK r Hr) as [H1 H2]. split; [apply in_or_app; left; exact H1|exact H2].
      + subst r. split; [apply in_or_app; right; left; reflexivity|exact Hsn].
    - intros i Hi. rewrite map_app. apply in_or_app. left. exact (nk_emit_seen _ _ HK i Hi).
    - intros k se r Hin Hr. apply put_in in Hin as [[-> ->]|[Hne Hin]].
      + destruct (Hrows r Hr) as [(se & Hin & Hr0)| ->].
        * destruct (nk_sess _ _ HK key se r Hin Hr0) as [H1 H2]. split; [apply in_or_app; left; exact H1|exact H2].
        * split; [apply in_or_app; right; left; reflexivity|exact Hnotem].
      + destruct (nk_sess _ _ HK k se r Hin Hr) as [H1 H2]. split; [apply in_or_app; left; exact H1|exact H2].
    - intros r Hr. apply in_app_or in Hr as [Hr|[Hr|[]]].
      + destruct (nk_cover _ _ HK r Hr) as [Hem|(se & Hin & Hrin)]; [left; exact Hem|]. right.
        destruct (Z.eq_dec (kkey r) key) as [Hk|Hk].
        * exists se'. rewrite Hk in *. split; [left; reflexivity|exact (Hrows2 se r Hin Hrin)].
        * exists se. split; [right; apply remove_key_keep; assumption|exact Hrin].
      + subst r. right. exists se'. split; [left; reflexivity|exact Hrow].
    - intros f Hf. apply uet_mono. exact (nk_fcur _ _ HK f Hf).
    - intros f k se r Hf Hin Hfk Hr. apply put_in in Hin as [[-> ->]|[Hne Hin]].
      + destruct (Hrows r Hr) as [(se & Hin & Hr0)| ->]; [exact (nk_fsess _ _ HK f key se r Hf Hin Hfk Hr0)|].
        pose proof (uet_mono (nooo c) base ts (n_w s) (f_end f) (nk_fcur _ _ HK f Hf)) as Hole.
        unfold is_late in Hnl. unfold ole in Hole. destruct (cur (update_event_time (nooo c) base ts (n_w s))) as [cv|]; [|contradiction].
        apply Z.ltb_ge in Hnl. cbn. lia.
      + exact (nk_fsess _ _ HK f k se r Hf Hin Hfk Hr).
    - intros f Hf. apply fshape_both; [exact Hfresh|exact (nk_fshape _ _ HK f Hf)].
    - exact (nk_fnd _ _ HK).
    - exact (nk_trig _ _ HK).
  Qed.

  (* ---------------- a late row absorbed by the retained session of its key: one re-delivery ---------------- *)
  Lemma batch_redeliver cs f row key st en rows :
    f_key f = key -> f_start f = st -> f_end f = en -> f_rows f = rows ->
    m_lastadd cs = Some row -> In f (m_fired cs) -> NoDup (map ks (m_fired cs)) -> (0 <? nlateness c) = true ->
    kkey row = key -> st <= kts row -> kts row < en ->
    fshape (m_seen cs) (m_ontime cs) f -> In row (m_seen cs) -> nsane c base (kts row) = true ->
    nchk_ev c base cs (SvBatch key st en (rows ++ [row])) =
      ({| m_seen := m_seen cs; m_maxts := m_maxts cs; m_ontime := m_ontime cs; m_dw := m_dw cs; m_lastw := m_lastw cs;
          m_fired := replace_fsess {| f_key := key; f_start := st; f_end := en; f_rows := rows ++ [row] |} (m_fired cs);
          m_lastadd := None; m_emitted := m_emitted cs ++ [kid row] |}, []).
  Proof.
    intros <- <- <- <- Hlast Hf Hnd Hlat Hk Hst Hen [_ Hsh] Hseen Hsn.
    cbn [nchk_ev]. rewrite (find_fsess_nodup _ f Hnd Hf). rewrite Hlast.
    assert (C1 : forallb (fun r => kkey r =? f_key f) (f_rows f ++ [row]) = true).
    { apply forallb_forall. intros r Hr. apply Z.eqb_eq. apply in_app_or in Hr as [Hr|[<-|[]]]; [apply (Hsh r Hr)|exact Hk]. }
    assert (C2 : forallb (fun r => krow_in r (m_seen cs)) (f_rows f ++ [row]) = true).
    { apply forallb_forall. intros r Hr. apply krow_in_In. apply in_app_or in Hr as [Hr|[<-|[]]]; [apply (Hsh r Hr)|exact Hseen]. }
    assert (C3 : existsb (fun r => negb (nsane c base (kts r))) (f_rows f ++ [row]) = false).
    { apply existsb_false_all. intros r Hr. apply negb_false_iff. apply in_app_or in Hr as [Hr|[<-|[]]]; [apply (Hsh r Hr)|exact Hsn]. }
    assert (C4 : (0 <? nlateness c) && krows_eqb (f_rows f ++ [row]) (f_rows f ++ [row]) && (kkey row =? f_key f)
                 && (f_start f <=? kts row) && (kts row <? f_end f) = true).
    { rewrite Hlat, krows_eqb_refl. cbn [andb]. apply andb_true_iff. split; [apply andb_true_iff; split|].
      - apply Z.eqb_eq. exact Hk.
      - apply Z.leb_le. exact Hst.
      - apply Z.ltb_lt. exact Hen. }
    rewrite C1, C2, C3, C4. reflexivity.
  Qed.

  Lemma NK_absorb s1 cs1 key t f row :
    NK s1 cs1 -> In f (m_fired cs1) -> f_key f = key -> f_start f = se_start (ts_sess t) -> f_end f = se_end (ts_sess t) ->
    f_rows f = se_rows (ts_sess t) ->
    kkey row = key -> In row (m_seen cs1) -> ~ In row (m_ontime cs1) -> nsane c base (kts row) = true ->
    NK {| n_sess := n_sess s1;
          n_trig := put key {| ts_sess := {| se_rows := se_rows (ts_sess t) ++ [row]; se_last := se_last (ts_sess t);
                                             se_start := se_start (ts_sess t); se_end := se_end (ts_sess t) |};
                               ts_close := ts_close t |} (n_trig s1);
          n_w := n_w s1; n_pend := n_pend s1 |}
       {| m_seen := m_seen cs1; m_maxts := m_maxts cs1; m_ontime := m_ontime cs1; m_dw := m_dw cs1; m_lastw := m_lastw cs1;
          m_fired := replace_fsess {| f_key := key; f_start := se_start (ts_sess t); f_end := se_end (ts_sess t);
                                      f_rows := se_rows (ts_sess t) ++ [row] |} (m_fired cs1);
          m_lastadd := None; m_emitted := m_emitted cs1 ++ [kid row] |}.
  Proof.
    intros HK Hf Hfk Hfs Hfe Hfr Hk Hseen Hnot Hsn.
    set (f' := {| f_key := key; f_start := se_start (ts_sess t); f_end := se_end (ts_sess t); f_rows := se_rows (ts_sess t) ++ [row] |}).
    assert (Hks : ks f = ks f') by (unfold ks, f'; cbn [f_key f_start]; rewrite Hfk, Hfs; reflexivity).
    assert (Hnew : In f' (replace_fsess f' (m_fired cs1))) by (apply (replace_fsess_new f' _ f Hf Hks)).
    assert (Hnotsess : forall k se r, In (k, se) (n_sess s1) -> In r (se_rows se) -> kid r <> kid row).
    { intros k se r Hin Hr Heq. destruct (nk_sess _ _ HK k se r Hin Hr) as [H1 _].
      assert (r = row) by (apply (nodup_kid_eq (m_seen cs1)); [exact (nk_nodup _ _ HK)|apply (nk_ont _ _ HK); exact H1|exact Hseen|exact Heq]).
      subst r. exact (Hnot H1). }
    constructor; cbn [n_sess n_trig n_w n_pend m_seen m_maxts m_ontime m_dw m_lastw m_fired m_emitted].
    - exact (nk_keys _ _ HK).
    - exact (nk_wf _ _ HK).
    - exact (nk_wk _ _ HK).
    - exact (nk_wmok _ _ HK).
    - exact (nk_pend _ _ HK).
    - exact (nk_dw _ _ HK).
    - exact (nk_nodup _ _ HK).
    - exact (nk_ont _ _ HK).
    - intros i Hi. apply in_app_or in Hi as [Hi|[<-|[]]]; [exact (nk_emit_seen _ _ HK i Hi)|apply in_map; exact Hseen].
    - intros k se r Hin Hr. destruct (nk_sess _ _ HK k se r Hin Hr) as [H1 H2]. split; [exact H1|].
      intros Hi. apply in_app_or in Hi as [Hi|[Hi|[]]]; [exact (H2 Hi)|]. exact (Hnotsess k se r Hin Hr (eq_sym Hi)).
    - intros r Hr. destruct (nk_cover _ _ HK r Hr) as [Hem|Hex]; [left; apply in_or_app; left; exact Hem|right; exact Hex].
    - intros g Hg. apply replace_fsess_in in Hg as [->|Hg]; [|exact (nk_fcur _ _ HK g Hg)].
      cbn [f' f_end]. rewrite <- Hfe. exact (nk_fcur _ _ HK f Hf).
    - intros g k se r Hg Hin Hgk Hr. apply replace_fsess_in in Hg as [->|Hg]; [|exact (nk_fsess _ _ HK g k se r Hg Hin Hgk Hr)].
      cbn [f' f_end f_key] in *. rewrite <- Hfe. apply (nk_fsess _ _ HK f k se r Hf Hin); [congruence|exact Hr].
    - intros g Hg. apply replace_fsess_in in Hg as [->|Hg]; [|exact (nk_fshape _ _ HK g Hg)].
      destruct (nk_fshape _ _ HK f Hf) as [H1 H2]. split; [cbn [f' f_start f_end]; lia|].
      cbn [f' f_rows f_key f_end]. intros a Ha. apply in_app_or in Ha as [Ha|[<-|[]]].
      + rewrite <- Hfr in Ha. destruct (H2 a Ha) as (A & B & C0 & D). split; [congruence|]. split; [exact B|]. split; [exact C0|].
        intros Hao. rewrite <- Hfe. exact (D Hao).
      + split; [exact Hk|]. split; [exact Hseen|]. split; [exact Hsn|]. intros Hao. contradiction.
    - rewrite replace_fsess_ks. exact (nk_fnd _ _ HK).
    - intros k t2 Hin. apply put_in in Hin as [[-> ->]|[Hne Hin]].
      + exists f'. split; [exact Hnew|]. cbn. auto.
      + destruct (nk_trig _ _ HK k t2 Hin) as (g & Hg & Hgk & Hrest). exists g. split; [|auto].
        apply replace_fsess_keep; [exact Hg|]. unfold ks, f'. cbn [f_key f_start]. intros Heq. injection Heq as H1 _. congruence.
  Qed.

  Lemma add_sound s cs id ts key s' evs :
    NK s cs -> ~ In id (map kid (m_seen cs)) -> nstep c s (NAdd id ts key base) = (s', evs) ->
    exists cs' cls, nchk_evs cs evs = (cs', cls) /\ Forall okcl cls /\ NK s' cs' /\ m_seen cs' = m_seen cs ++ [(id, ts, key)].
  Proof.
    intros HK Hfresh Hst. pose proof (nstep_wf c s _ s' evs (nk_wf _ _ HK) Hst) as Hwf'.
    cbn [nstep] in Hst. unfold nadd in Hst.
    assert (Hinert : ontime_b cs ts = false ->
              exists cs' cls, nchk_evs cs [SvAdd id ts key] = (cs', cls) /\ Forall okcl cls /\
                NK {| n_sess := n_sess s; n_trig := n_trig s; n_w := update_event_time (nooo c) base ts (n_w s); n_pend := n_pend s |} cs' /\
                m_seen cs' = m_seen cs ++ [(id, ts, key)]).
    { intros Hno. cbn [nchk_evs]. rewrite add_ev. exists (cs_add cs id ts key), []. split; [reflexivity|]. split; [constructor|].
      split; [apply NK_inert; assumption|reflexivity]. }
    destruct (base + nooo c + day <? ts) eqn:Efar.
    - injection Hst as <- <-. apply Hinert. unfold ontime_b, nsane.
      assert (E : (ts <=? base + nooo c + day) = false) by (apply Z.leb_gt; apply Z.ltb_lt in Efar; lia). rewrite E. reflexivity.
    - assert (Hsn : nsane c base ts = true) by (unfold nsane; apply Z.leb_le; apply Z.ltb_ge in Efar; lia).
      rewrite (late_iff_not_ontime s cs ts HK Hsn) in Hst. destruct (ontime_b cs ts) eqn:Eo; cbn [negb] in Hst.
      + injection Hst as <- <-. cbn [nchk_evs]. rewrite add_ev. exists (cs_add cs id ts key), []. split; [reflexivity|].
        split; [constructor|]. split; [|reflexivity].
        eapply NK_accept; [exact HK|exact Hfresh|exact Eo|reflexivity|exact Hwf'].
      + destruct (0 <? nlateness c) eqn:Elat; [|injection Hst as <- <-; apply Hinert; reflexivity].
        destruct (lookup key (n_trig s)) as [t|] eqn:Elk; [|injection Hst as <- <-; apply Hinert; reflexivity].
        destruct (in_sess (ts_sess t) ts) eqn:Ein; [|injection Hst as <- <-; apply Hinert; reflexivity].
        injection Hst as <- <-. cbn [se_start se_end se_rows].
        pose proof (NK_inert s cs id ts key HK Hfresh Eo) as HK1.
        apply lookup_in in Elk. destruct (nk_trig _ _ HK key t Elk) as (f & Hf & Hfk & Hfs & Hfe & Hfr).
        unfold in_sess in Ein. apply andb_prop in Ein as [Ein1 Ein2]. apply Z.leb_le in Ein1. apply Z.ltb_lt in Ein2.
        set (row := (id, ts, key)) in *.
        assert (Hrowseen : In row (m_seen (cs_add cs id ts key))).
        { cbn [cs_add m_seen]. apply in_or_app. right. left. reflexivity. }
        assert (Hrownot : ~ In row (m_ontime (cs_add cs id ts key))).
        { cbn [cs_add m_ontime]. rewrite Eo. intros Hin. apply Hfresh. apply (nk_ont _ _ HK) in Hin as [Hin _].
          change id with (kid row). apply in_map. exact Hin. }
        cbn [nchk_evs]. rewrite add_ev. cbn [nchk_evs].
        pose proof (batch_redeliver (cs_add cs id ts key) f row key (se_start (ts_sess t)) (se_end (ts_sess t)) (se_rows (ts_sess t))
                   Hfk Hfs Hfe Hfr eq_refl Hf (nk_fnd _ _ HK1) Elat eq_refl Ein1 Ein2 (nk_fshape _ _ HK1 f Hf) Hrowseen Hsn) as X.
        unfold krow in X |- *. rewrite X.
        eexists. exists []. split; [reflexivity|]. split; [constructor|]. split; [|reflexivity].
        exact (NK_absorb _ _ key t f row HK1 Hf Hfk Hfs Hfe Hfr eq_refl Hrowseen Hrownot Hsn).
  Qed.
  (* ---------------- the other steps ---------------- *)
  Lemma clear_NK s cs : NK s cs -> NK s (clear_nlast cs).
  Proof. intros [? ? ? ? ? ? ? ? ? ? ? ? ? ? ? ?]. constructor; cbn; assumption. Qed.

  Lemma deliver_begin_sound s cs s' evs :
    NK s cs -> nstep c s NDeliverBegin = (s', evs) ->
    exists cs' cls, nchk_evs cs evs = (cs', cls) /\ Forall okcl cls /\ NK s' cs' /\ m_seen cs' = m_seen cs.
  Proof.
    intros HK Hst. cbn [nstep] in Hst. destruct (n_pend s) as [p|] eqn:Ep.
    - injection Hst as <- <-. exists cs, []. cbn [nchk_evs]. split; [reflexivity|]. split; [constructor|]. split; [exact HK|reflexivity].
    - destruct (pop_chan (n_w s)) as [[x w']|] eqn:Epop; injection Hst as <- <-.
      + destruct (pop_WK tc base _ _ _ _ _ _ (nk_wk _ _ HK) Epop) as (Hwk & (r & Hr & Hsn & Hx) & Hlt).
        assert (Hpop : cur w' = cur (n_w s) /\ chan (n_w s) = x :: chan w').
        { unfold pop_chan in Epop. destruct (chan (n_w s)) as [|y l] eqn:Ech; [discriminate|]. injection Epop as <- <-. cbn. auto. }
        destruct Hpop as [Hcur Hch].
        pose proof (nk_wmok _ _ HK) as Hok. unfold wm_ok in Hok. rewrite Hch in Hok. inversion Hok as [|y l Hx0 Hrest]; subst y l.
        cbn [nchk_evs nchk_ev].
        assert (E1 : existsb (fun r => nsane c base (kts r) && (kts r - nooo c =? x)) (m_seen cs) = true).
        { apply in_map_iff in Hr as (kr & <- & Hkr). apply existsb_exists. exists kr. split; [exact Hkr|].
          apply andb_true_iff. split; [exact Hsn|apply Z.eqb_eq; exact Hx]. }
        assert (E2 : match m_lastw cs with Some l => x <=? l | None => false end = false).
        { destruct (m_lastw cs) as [l|]; [apply Z.leb_gt; exact Hlt|reflexivity]. }
        rewrite E1, E2. cbn [negb orb cl_if app]. eexists. exists []. split; [reflexivity|]. split; [constructor|].
        split; [|reflexivity].
        destruct HK as [? ? ? ? ? ? ? ? ? ? ? Hfc ? ? ? ?].
        constructor; cbn [n_sess n_trig n_w n_pend m_seen m_maxts m_ontime m_dw m_lastw m_fired m_emitted]; try assumption.
        * unfold wm_ok. rewrite Hcur. exact Hrest.
        * intros p [= <-]. rewrite Hcur. exact Hx0.
        * reflexivity.
        * intros f Hf. rewrite Hcur. exact (Hfc f Hf).
      + cbn [nchk_evs nchk_ev]. eexists. exists []. split; [reflexivity|]. split; [constructor|].
        split; [apply clear_NK; exact HK|reflexivity].
  Qed.

  Lemma tick_sound s cs now s' evs :
    NK s cs -> nstep c s (NTick now) = (s', evs) ->
    exists cs' cls, nchk_evs cs evs = (cs', cls) /\ Forall okcl cls /\ NK s' cs' /\ m_seen cs' = m_seen cs.
  Proof.
    intros HK Hst. cbn [nstep] in Hst. injection Hst as <- <-. cbn [nchk_evs nchk_ev].
    eexists. exists []. split; [reflexivity|]. split; [constructor|]. split; [|reflexivity]. apply clear_NK.
    pose proof (tick_WK tc base eq_refl (n_w s) _ _ _ now (nk_wk _ _ HK)) as Hwk.
    destruct HK as [? ? ? Hok Hp ? ? ? ? ? ? Hfc ? ? ? ?].
    constructor; cbn [n_sess n_trig n_w n_pend]; try assumption.
    - apply tick_ok. exact Hok.
    - intros p Hpp. apply tick_mono. exact (Hp p Hpp).
    - intros f Hf. apply tick_mono. exact (Hfc f Hf).
  Qed.

  (* ---------------- every step, every history ---------------- *)
  Definition nop_okc (cs : ncst) (o : nop) : Prop :=
    match o with NAdd id _ _ now => now = base /\ ~ In id (map kid (m_seen cs)) | _ => True end.

  Lemma step_sound s cs o s' evs :
    NK s cs -> nop_okc cs o -> nstep c s o = (s', evs) ->
    exists cs' cls, nchk_evs cs evs = (cs', cls) /\ Forall okcl cls /\ NK s' cs' /\
                    map kid (m_seen cs') = map kid (m_seen cs) ++ op_ids o.
  Proof.
    intros HK Hok Hst. destruct o as [id ts key now|id| | |now].
    - destruct Hok as (-> & Hfresh). destruct (add_sound s cs id ts key s' evs HK Hfresh Hst) as (cs' & cls & A & B & C0 & D).
      exists cs', cls. split; [exact A|]. split; [exact B|]. split; [exact C0|]. rewrite D, map_app. reflexivity.
    - cbn [nstep] in Hst. injection Hst as <- <-. cbn [nchk_evs nchk_ev]. eexists. exists []. split; [reflexivity|].
      split; [constructor|]. split; [apply clear_NK; exact HK|]. cbn [op_ids clear_nlast m_seen]. rewrite app_nil_r. reflexivity.
    - destruct (deliver_begin_sound s cs s' evs HK Hst) as (cs' & cls & A & B & C0 & D).
      exists cs', cls. split; [exact A|]. split; [exact B|]. split; [exact C0|]. rewrite D. cbn [op_ids]. rewrite app_nil_r. reflexivity.
    - destruct (fire_sound s cs s' evs HK Hst) as (cs' & cls & A & B & C0 & D).
      exists cs', cls. split; [exact A|]. split; [exact B|]. split; [exact C0|]. rewrite D. cbn [op_ids]. rewrite app_nil_r. reflexivity.
    - destruct (tick_sound s cs now s' evs HK Hst) as (cs' & cls & A & B & C0 & D).
      exists cs', cls. split; [exact A|]. split; [exact B|]. split; [exact C0|]. rewrite D. cbn [op_ids]. rewrite app_nil_r. reflexivity.
  Qed.

  Definition nhist_ok (o : nop) : Prop := match o with NAdd _ _ _ now => now = base | _ => True end.

  Lemma run_sound h : forall s cs,
    NK s cs -> Forall nhist_ok h -> NoDup (map kid (m_seen cs) ++ flat_map op_ids h) ->
    Forall okcl (nchk_trace c base cs (snd (nrun c s h))).
  Proof.
    induction h as [|o h IH]; intros s cs HK Hok Hnd; [constructor|].
    inversion Hok as [|o' h' Ho Hh]; subst. cbn [nrun].
    destruct (nstep c s o) as [s1 e1] eqn:E1. destruct (nrun c s1 h) as [s2 e2] eqn:E2. cbn [snd].
    assert (Hokc : nop_okc cs o).
    { destruct o as [id ts key now| | | |]; cbn; auto. split; [exact Ho|].
      cbn [flat_map op_ids app] in Hnd. intros Hin. apply NoDup_remove_2 in Hnd. apply Hnd. apply in_or_app. left. exact Hin. }
    destruct (step_sound s cs o s1 e1 HK Hokc E1) as (cs' & cls & A & B & C0 & D).
    rewrite nchk_trace_app, A. cbn [fst snd]. apply Forall_app. split; [exact B|].
    specialize (IH s1 cs' C0 Hh). rewrite E2 in IH. cbn [snd] in IH. apply IH.
    rewrite D. cbn [flat_map] in Hnd. rewrite <- app_assoc. exact Hnd.
  Qed.

  Lemma NK0 : NK nst0 ncst0.
  Proof.
    constructor; cbn; try (constructor; fail); try (intros; contradiction); try (intros; discriminate); auto.
    - constructor; cbn; try constructor; try reflexivity. intros m H; discriminate.
    - intros i [].
  Qed.

  (* on every trace of the model the checker reports no clause other than the two recorded findings *)
  Theorem model_only_known_clauses h :
    Forall nhist_ok h -> NoDup (flat_map op_ids h) ->
    forall cl, In cl (chk_C10 c base (snd (nrun c nst0 h))) -> cl = NGapNotSplit \/ cl = NStartNotEarliest.
  Proof.
    intros Hok Hnd cl Hin. pose proof (run_sound h nst0 ncst0 NK0 Hok Hnd) as H. rewrite Forall_forall in H. exact (H cl Hin).
  Qed.

  (* the same, with the hypothesis on the wall clock spelled out *)
  Corollary model_only_known_clauses_clock h :
    (forall id ts key now, In (NAdd id ts key now) h -> now = base) -> NoDup (flat_map op_ids h) ->
    forall cl, In cl (chk_C10 c base (snd (nrun c nst0 h))) -> cl = NGapNotSplit \/ cl = NStartNotEarliest.
  Proof.
    intros Hclk. apply model_only_known_clauses. apply Forall_forall. intros o Ho.
    destruct o as [id ts key now| | | |]; cbn; auto. exact (Hclk id ts key now Ho).
  Qed.
End SessSound.

(* both remaining clauses are reachable: the recorded findings F3a and F3c, as seen by the checker itself *)
Example gap_clause_reachable :
  chk_C10 ncfg1 0 (snd (nrun ncfg1 nst0 ([NAdd 1 10000 1 0; NAdd 2 10100 1 0; NAdd 3 15000 1 0] ++ drainN ++ [NAdd 4 30000 99 0] ++ drainN)))
  = [NGapNotSplit].
Proof. vm_compute. reflexivity. Qed.

Example start_clause_reachable :
  chk_C10 {| ntimeout := 1000; nooo := 500; nlateness := 0 |} 0
    (snd (nrun {| ntimeout := 1000; nooo := 500; nlateness := 0 |} nst0 ([NAdd 1 10400 1 0; NAdd 2 10100 1 0; NAdd 3 30000 99 0] ++ drainN)))
  = [NStartNotEarliest].
Proof. vm_compute. reflexivity. Qed.
