(* Proofs about Model/GroupKey.v: the repaired key encoder is injective on tuples (decode-free:
   the length prefix determines the split), hence grouping by the encoded key is grouping by
   the tuple. The separator-joined encoders the code used before are not injective. *)
From Coq Require Import Lia Decimal DecimalN DecimalZ.
From SV Require Import Model.GroupKey.

(* ---- decidable equalities ---------------------------------------------------------------- *)
Lemma bytes_eqb_iff : forall a b, bytes_eqb a b = true <-> a = b.
Proof.
  induction a as [|x a IH]; destruct b as [|y b]; simpl; split; intro H; try discriminate; auto.
  - apply andb_true_iff in H. destruct H as [H1 H2]. apply N.eqb_eq in H1. apply IH in H2. congruence.
  - injection H as -> ->. rewrite N.eqb_refl. simpl. apply IH. reflexivity.
Qed.

Lemma bytes_eqb_refl : forall a, bytes_eqb a a = true.
Proof. intro a. apply bytes_eqb_iff. reflexivity. Qed.

Lemma bytes_eqb_neq : forall a b, bytes_eqb a b = false <-> a <> b.
Proof.
  intros a b. split.
  - intros H E. apply bytes_eqb_iff in E. congruence.
  - intro H. destruct (bytes_eqb a b) eqn:E; auto. apply bytes_eqb_iff in E. contradiction.
Qed.

Lemma kvalue_eqb_iff : forall a b, kvalue_eqb a b = true <-> a = b.
Proof.
  intros a b. split.
  - destruct a, b; unfold kvalue_eqb; intro H; try discriminate H; try reflexivity;
      try (apply bytes_eqb_iff in H; congruence); try (apply Z.eqb_eq in H; congruence);
      try (apply Bool.eqb_prop in H; congruence).
  - intros <-. destruct a; unfold kvalue_eqb; auto using bytes_eqb_refl, Z.eqb_refl, Bool.eqb_reflx.
Qed.

Lemma ktuple_eqb_iff : forall a b, ktuple_eqb a b = true <-> a = b.
Proof.
  induction a as [|x a IH]; destruct b as [|y b]; simpl; split; intro H; try discriminate; auto.
  - apply andb_true_iff in H. destruct H as [H1 H2]. apply kvalue_eqb_iff in H1. apply IH in H2. congruence.
  - injection H as -> ->. apply andb_true_iff. split; [apply kvalue_eqb_iff | apply IH]; reflexivity.
Qed.

Lemma ktuple_eqb_refl : forall a, ktuple_eqb a a = true.
Proof. intro a. apply ktuple_eqb_iff. reflexivity. Qed.

(* ---- decimal printing is injective and produces digits only ------------------------------ *)
Definition is_digit (x : byte) : Prop := (48 <= x <= 57)%N.

Lemma uint_bytes_digits : forall d, Forall is_digit (k_uint_bytes d).
Proof. induction d; simpl; constructor; auto; unfold is_digit; lia. Qed.

Lemma uint_bytes_inj : forall a b, k_uint_bytes a = k_uint_bytes b -> a = b.
Proof.
  induction a; destruct b; simpl; intro H; try discriminate H; try reflexivity;
    injection H as H; f_equal; auto.
Qed.

Lemma dec_N_inj : forall a b, k_dec_N a = k_dec_N b -> a = b.
Proof.
  unfold k_dec_N. intros a b H. apply uint_bytes_inj in H.
  rewrite <- (DecimalN.Unsigned.of_to a), <- (DecimalN.Unsigned.of_to b). congruence.
Qed.

Lemma uint_bytes_no_minus : forall d x, k_uint_bytes d <> 45%N :: x.
Proof. destruct d; simpl; intros x H; discriminate H. Qed.

Lemma dec_Z_inj : forall a b, k_dec_Z a = k_dec_Z b -> a = b.
Proof.
  unfold k_dec_Z. intros a b H.
  rewrite <- (DecimalZ.of_to a), <- (DecimalZ.of_to b).
  destruct (Z.to_int a) as [da|da], (Z.to_int b) as [db|db].
  - apply uint_bytes_inj in H. congruence.
  - exfalso. exact (uint_bytes_no_minus _ _ H).
  - exfalso. symmetry in H. exact (uint_bytes_no_minus _ _ H).
  - injection H as H. apply uint_bytes_inj in H. congruence.
Qed.

Lemma dec_N_no_colon : forall n, Forall (fun x => x <> k_colon) (k_dec_N n).
Proof.
  intro n. unfold k_dec_N. eapply Forall_impl; [|apply uint_bytes_digits].
  unfold is_digit, k_colon. intros x Hx. lia.
Qed.

(* ---- list lemmas -------------------------------------------------------------------------- *)
(* the first occurrence of a separator that the prefix cannot contain determines the split *)
Lemma split_at_sep : forall (c : byte) a a' r r',
  Forall (fun x => x <> c) a -> Forall (fun x => x <> c) a' ->
  a ++ c :: r = a' ++ c :: r' -> a = a' /\ r = r'.
Proof.
  induction a as [|x a IH]; intros a' r r' Ha Ha' H.
  - destruct a' as [|y a']; simpl in H.
    + injection H as ->. auto.
    + injection H as Hc _. inversion Ha' as [|? ? Hy _]; subst. congruence.
  - destruct a' as [|y a']; simpl in H.
    + injection H as Hc _. inversion Ha as [|? ? Hx _]; subst. congruence.
    + injection H as -> H. inversion Ha; inversion Ha'; subst.
      destruct (IH a' r r') as [-> ->]; auto.
Qed.

Lemma app_inv_length : forall (A : Type) (a a' b b' : list A),
  length a = length a' -> a ++ b = a' ++ b' -> a = a' /\ b = b'.
Proof.
  induction a as [|x a IH]; destruct a' as [|y a']; simpl; intros b b' L H; try discriminate L; auto.
  injection H as -> H. injection L as L. destruct (IH a' b b' L H) as [-> ->]. auto.
Qed.

Lemma NoDup_app_snoc : forall (A : Type) (l : list A) x, NoDup l -> ~ In x l -> NoDup (l ++ [x]).
Proof.
  induction l as [|y l IH]; simpl; intros x ND Hn.
  - constructor; [intros []|constructor].
  - inversion ND as [|? ? Hy ND']; subst. constructor.
    + intro H. apply in_app_or in H. destruct H as [H|[H|[]]].
      * exact (Hy H).
      * subst. apply Hn. left. reflexivity.
    + apply IH; [exact ND'|]. intro H. apply Hn. right. exact H.
Qed.

(* ---- the encoder -------------------------------------------------------------------------- *)
Lemma type_key_inj : forall v w, k_type_key v = k_type_key w -> v = w.
Proof.
  intros v w H.
  destruct v as [|s|z|t|[|]], w as [|s'|z'|t'|[|]]; simpl in H;
    try discriminate H; try reflexivity.
  - injection H as ->. reflexivity.
  - injection H as H. apply dec_Z_inj in H. congruence.
  - injection H as ->. reflexivity.
Qed.

(* one segment is self-delimiting: whatever follows it *)
Lemma key_part_app_inj : forall v w x y,
  k_key_part v ++ x = k_key_part w ++ y -> v = w /\ x = y.
Proof.
  unfold k_key_part. intros v w x y H.
  rewrite <- !app_assoc in H. simpl in H.
  apply split_at_sep in H; try apply dec_N_no_colon.
  destruct H as [HL H].
  apply dec_N_inj in HL. apply Nat2N.inj in HL.
  rewrite <- !app_assoc in H.
  apply app_inv_length in H; [|exact HL].
  destruct H as [HT H]. apply type_key_inj in HT. simpl in H. injection H as H. auto.
Qed.

Lemma key_part_nonempty : forall v x, k_key_part v ++ x <> [].
Proof.
  unfold k_key_part. intros v x H. destruct (k_dec_N (N.of_nat (length (k_type_key v)))); discriminate H.
Qed.

(* MAIN: the composite key is injective on tuples of any lengths *)
Theorem enc_tuple_inj : forall a b, enc_tuple a = enc_tuple b -> a = b.
Proof.
  unfold enc_tuple.
  induction a as [|v a IH]; destruct b as [|w b]; simpl; intro H.
  - reflexivity.
  - exfalso. symmetry in H. exact (key_part_nonempty _ _ H).
  - exfalso. exact (key_part_nonempty _ _ H).
  - apply key_part_app_inj in H. destruct H as [-> H]. f_equal. auto.
Qed.

Lemma ktuple_of_length : forall r, length (ktuple_of r) = length (kvals r).
Proof. intro r. unfold ktuple_of. apply map_length. Qed.

(* ---- the escaping encoder of the window sites ------------------------------------------------
   well-escaped text: every '|' and every backslash is the second byte of a pair that starts with a backslash;
   so a bare '|' never occurs *)
Inductive wesc : bytes -> Prop :=
| wesc_nil : wesc []
| wesc_plain : forall c l, c <> k_bslash -> c <> k_bar -> wesc l -> wesc (c :: l)
| wesc_pair : forall c l, wesc l -> wesc (k_bslash :: c :: l).

Lemma esc_wesc : forall s, wesc (k_esc s).
Proof.
  induction s as [|c s IH]; simpl; [constructor|].
  destruct (N.eqb c k_bslash) eqn:E1; simpl.
  - apply wesc_pair. exact IH.
  - destruct (N.eqb c k_bar) eqn:E2; simpl.
    + apply wesc_pair. exact IH.
    + apply N.eqb_neq in E1. apply N.eqb_neq in E2. apply wesc_plain; auto.
Qed.

Lemma col_wesc : forall v, wesc (k_col_text v).
Proof.
  destruct v as [|s|z|t|[|]]; simpl; try apply esc_wesc.
  - apply wesc_pair. constructor.
  - repeat (apply wesc_plain; [unfold k_bslash; discriminate|unfold k_bar; discriminate|]). constructor.
  - repeat (apply wesc_plain; [unfold k_bslash; discriminate|unfold k_bar; discriminate|]). constructor.
Qed.

(* the first bare '|' after a well-escaped text is the column boundary *)
Lemma wesc_split : forall a, wesc a -> forall a' r r', wesc a' ->
  a ++ k_bar :: r = a' ++ k_bar :: r' -> a = a' /\ r = r'.
Proof.
  induction 1 as [|c l Hc1 Hc2 Hl IH|c l Hl IH]; intros a' r r' Ha' H.
  - inversion Ha' as [|c' l' Hd1 Hd2 Hl'|c' l' Hl']; subst; simpl in H.
    + injection H as ->. auto.
    + injection H as Hc _. congruence.
    + discriminate H.
  - inversion Ha' as [|c' l' Hd1 Hd2 Hl'|c' l' Hl']; subst; simpl in H.
    + injection H as Hc _. congruence.
    + injection H as -> H. destruct (IH _ _ _ Hl' H) as [-> ->]. auto.
    + injection H as Hc _. congruence.
  - inversion Ha' as [|c' l' Hd1 Hd2 Hl'|c' l' Hl']; subst; simpl in H.
    + discriminate H.
    + injection H as Hc _. congruence.
    + injection H as -> H. destruct (IH _ _ _ Hl' H) as [-> ->]. auto.
Qed.

Lemma esc_inj : forall s s', k_esc s = k_esc s' -> s = s'.
Proof.
  induction s as [|c s IH]; destruct s' as [|c' s']; simpl; intro H.
  - reflexivity.
  - destruct (N.eqb c' k_bslash || N.eqb c' k_bar); discriminate H.
  - destruct (N.eqb c k_bslash || N.eqb c k_bar); discriminate H.
  - destruct (N.eqb c k_bslash || N.eqb c k_bar) eqn:E; destruct (N.eqb c' k_bslash || N.eqb c' k_bar) eqn:E'.
    + injection H as -> H. f_equal. auto.
    + injection H as Hc _. subst c'. rewrite N.eqb_refl in E'. discriminate E'.
    + injection H as Hc _. subst c. rewrite N.eqb_refl in E. discriminate E.
    + injection H as -> H. f_equal. auto.
Qed.

(* no escaped text is the NULL marker: after a backslash comes a backslash or a '|', never 'N' *)
Lemma esc_not_null : forall s, k_esc s <> k_null_mark.
Proof.
  intros s H. destruct s as [|c s]; simpl in H; [discriminate H|].
  destruct (N.eqb c k_bslash) eqn:E1; simpl in H.
  - apply N.eqb_eq in E1. subst c. discriminate H.
  - destruct (N.eqb c k_bar) eqn:E2; simpl in H.
    + apply N.eqb_eq in E2. subst c. discriminate H.
    + injection H as Hc _. subst c. discriminate E1.
Qed.

(* two values of one column: both NULL-or-of-the-column's-kind *)
Definition same_kind (v w : kvalue) : Prop := exists k, of_kind k v /\ of_kind k w.

Lemma col_text_inj : forall v w, same_kind v w -> k_col_text v = k_col_text w -> v = w.
Proof.
  intros v w [k [Hv Hw]] H.
  destruct v as [|s|z|t|b], w as [|s'|z'|t'|b']; destruct k; simpl in Hv, Hw; try contradiction;
    simpl in H; try reflexivity;
    try (exfalso; eapply esc_not_null; eassumption);
    try (exfalso; eapply esc_not_null; symmetry; eassumption).
  all: try (apply esc_inj in H; try apply dec_Z_inj in H; congruence).
  all: try (destruct b; discriminate H).
  all: try (destruct b'; discriminate H).
  destruct b, b'; try reflexivity; discriminate H.
Qed.

Lemma enc_win_inj : forall a b, Forall2 same_kind a b -> enc_win a = enc_win b -> a = b.
Proof.
  unfold enc_win. induction 1 as [|x y a b Hxy Hab IH]; intro H; [reflexivity|].
  inversion Hab as [|x2 y2 a2 b2 Hxy2 Hab2]; subst.
  - simpl in H. f_equal. apply col_text_inj; auto.
  - change (k_col_text x ++ k_bar :: k_join_bar (map k_col_text (x2 :: a2))
            = k_col_text y ++ k_bar :: k_join_bar (map k_col_text (y2 :: b2))) in H.
    apply wesc_split in H; try apply col_wesc.
    destruct H as [H1 H2]. f_equal; [apply col_text_inj; auto|apply IH; exact H2].
Qed.

Lemma Forall_same_kind : forall k a b,
  Forall (fun v => of_kind k v) a -> Forall (fun v => of_kind k v) b -> length a = length b ->
  Forall2 same_kind a b.
Proof.
  induction a as [|x a IH]; destruct b as [|y b]; intros Ha Hb L; try discriminate L; [constructor|].
  inversion Ha; inversion Hb; subst. injection L as L.
  constructor; [exists k; auto|apply IH; auto].
Qed.

(* all columns strings-or-NULL (any bytes), resp. numbers-or-NULL *)
Lemma enc_win_inj_strings : forall a b,
  Forall (fun v => of_kind KdStr v) a -> Forall (fun v => of_kind KdStr v) b -> length a = length b ->
  enc_win a = enc_win b -> a = b.
Proof. intros a b Ha Hb L. apply enc_win_inj. eapply Forall_same_kind; eauto. Qed.

Lemma enc_win_inj_numbers : forall a b,
  Forall (fun v => of_kind KdInt v) a -> Forall (fun v => of_kind KdInt v) b -> length a = length b ->
  enc_win a = enc_win b -> a = b.
Proof. intros a b Ha Hb L. apply enc_win_inj. eapply Forall_same_kind; eauto. Qed.

Lemma conforms_same_kind : forall sch a b, conforms sch a -> conforms sch b -> Forall2 same_kind a b.
Proof.
  unfold conforms. induction sch as [|k sch IH]; intros a b Ha Hb; inversion Ha; inversion Hb; subst.
  - constructor.
  - constructor; [exists k; auto|apply IH; auto].
Qed.

Lemma tuple_key_inj : forall g a b, Forall2 same_kind a b -> tuple_key g a = tuple_key g b -> a = b.
Proof.
  intros g a b F H. inversion F; subst; [reflexivity|].
  unfold tuple_key in H. apply enc_win_inj; auto.
Qed.

Lemma win_key_iff : forall g sch r1 r2, conforms sch (ktuple_of r1) -> conforms sch (ktuple_of r2) ->
  (win_key g r1 = win_key g r2 <-> ktuple_of r1 = ktuple_of r2).
Proof.
  intros g sch r1 r2 C1 C2. unfold win_key. split.
  - apply tuple_key_inj. eapply conforms_same_kind; eauto.
  - intros ->. reflexivity.
Qed.

Lemma agg_key_iff : forall r1 r2, agg_key r1 = agg_key r2 <-> ktuple_of r1 = ktuple_of r2.
Proof.
  intros r1 r2. unfold agg_key. split; [apply enc_tuple_inj | intros ->; reflexivity].
Qed.

(* ---- grouping by an injective key is grouping by the tuple -------------------------------- *)
Section Grouping.
  Variable kf : list kvalue -> bytes.
  Variable P : list kvalue -> Prop.
  Hypothesis kf_inj : forall a b, P a -> P b -> kf a = kf b -> a = b.
  Let key (r : krow) : bytes := kf (ktuple_of r).
  Let sel (t : list kvalue) (rows : list krow) : list krow :=
    filter (fun r => ktuple_eqb (ktuple_of r) t) rows.

  Lemma g_add_keys_in : forall st k t r, In k (map fst st) -> map fst (kg_add st k t r) = map fst st.
  Proof.
    induction st as [|[k0 [t0 rs0]] st IH]; simpl; intros k t r Hin; [contradiction|].
    destruct (bytes_eqb k k0) eqn:E; simpl; [reflexivity|].
    f_equal. apply IH. destruct Hin as [->|Hin]; auto. rewrite bytes_eqb_refl in E. discriminate.
  Qed.

  Lemma g_add_keys_new : forall st k t r, ~ In k (map fst st) -> map fst (kg_add st k t r) = map fst st ++ [k].
  Proof.
    induction st as [|[k0 [t0 rs0]] st IH]; simpl; intros k t r Hin; [reflexivity|].
    destruct (bytes_eqb k k0) eqn:E; simpl.
    - apply bytes_eqb_iff in E. subst. exfalso. apply Hin. auto.
    - f_equal. apply IH. intro. apply Hin. auto.
  Qed.

  Lemma g_add_in_inv : forall st k t r k' t' rs', NoDup (map fst st) ->
    In (k', (t', rs')) (kg_add st k t r) ->
    (k' <> k /\ In (k', (t', rs')) st)
    \/ (k' = k /\ exists rs, In (k, (t', rs)) st /\ rs' = rs ++ [r])
    \/ (k' = k /\ ~ In k (map fst st) /\ t' = t /\ rs' = [r]).
  Proof.
    induction st as [|[k0 [t0 rs0]] st IH]; simpl; intros k t r k' t' rs' ND Hin.
    - destruct Hin as [Hin|[]]. injection Hin as <- <- <-. right. right. auto.
    - inversion ND as [|? ? Hnot ND']; subst.
      destruct (bytes_eqb k k0) eqn:E.
      + apply bytes_eqb_iff in E. subst k0. destruct Hin as [Hin|Hin].
        * injection Hin as <- <- <-. right. left. split; auto. exists rs0. auto.
        * left. split; auto. intros ->. apply Hnot. change k with (fst (k, (t', rs'))). apply in_map. exact Hin.
      + apply bytes_eqb_neq in E. destruct Hin as [Hin|Hin].
        * injection Hin as <- <- <-. left. split; auto.
        * destruct (IH k t r k' t' rs' ND' Hin) as [[H1 H2]|[[H1 [rs [H2 H3]]]|[H1 [H2 [H3 H4]]]]].
          -- left. auto.
          -- right. left. split; auto. exists rs. auto.
          -- right. right. split; auto. split; auto. intros [H|H]; auto.
  Qed.

  Lemma g_add_has : forall st k t r, exists t' rs, In (k, (t', rs)) (kg_add st k t r).
  Proof.
    induction st as [|[k0 [t0 rs0]] st IH]; simpl; intros k t r.
    - exists t, [r]. auto.
    - destruct (bytes_eqb k k0) eqn:E.
      + apply bytes_eqb_iff in E. subst. exists t0, (rs0 ++ [r]). left. reflexivity.
      + destruct (IH k t r) as [t' [rs H]]. exists t', rs. right. exact H.
  Qed.

  Lemma g_add_keeps : forall st k t r k' t' rs, In (k', (t', rs)) st ->
    exists rs2, In (k', (t', rs2)) (kg_add st k t r).
  Proof.
    induction st as [|[k0 [t0 rs0]] st IH]; simpl; intros k t r k' t' rs Hin; [contradiction|].
    destruct (bytes_eqb k k0) eqn:E.
    - destruct Hin as [Hin|Hin].
      + injection Hin as <- <- <-. exists (rs0 ++ [r]). left. reflexivity.
      + exists rs. right. exact Hin.
    - destruct Hin as [Hin|Hin].
      + exists rs. left. exact Hin.
      + destruct (IH k t r k' t' rs Hin) as [rs2 H]. exists rs2. right. exact H.
  Qed.

  Definition GInv (st : kg_state) (rows : list krow) : Prop :=
    (forall k t rs, In (k, (t, rs)) st -> k = kf t /\ P t /\ rs = sel t rows /\ rs <> [])
    /\ NoDup (map fst st)
    /\ (forall r, In r rows -> exists rs, In (key r, (ktuple_of r, rs)) st).

  Lemma sel_app : forall t a b, sel t (a ++ b) = sel t a ++ sel t b.
  Proof. intros. unfold sel. apply filter_app. Qed.

  Lemma filter_none : forall (A : Type) (f : A -> bool) l, (forall x, In x l -> f x = false) -> filter f l = [].
  Proof.
    induction l as [|x l IH]; simpl; intro H; [reflexivity|].
    rewrite (H x) by auto. apply IH. intros. apply H. auto.
  Qed.

  Lemma GInv_step : forall st rows r, GInv st rows -> P (ktuple_of r) ->
    GInv (kg_step key st r) (rows ++ [r]).
  Proof.
    intros st rows r [I1 [I2 I3]] HP. unfold kg_step. fold (key r). split; [|split].
    - intros k t rs Hin. apply g_add_in_inv in Hin; [|exact I2].
      destruct Hin as [[Hne Hin]|[[-> [rs0 [Hin ->]]]|[-> [Hnot [-> ->]]]]].
      + destruct (I1 _ _ _ Hin) as [Hk [HPt [Hrs Hnn]]]. repeat split; auto.
        rewrite sel_app. unfold sel at 2. simpl.
        destruct (ktuple_eqb (ktuple_of r) t) eqn:E.
        * apply ktuple_eqb_iff in E. exfalso. apply Hne. unfold key. congruence.
        * rewrite app_nil_r. exact Hrs.
      + destruct (I1 _ _ _ Hin) as [Hk [HPt [Hrs Hnn]]].
        assert (t = ktuple_of r) as -> by (apply kf_inj; auto).
        repeat split; auto.
        * rewrite sel_app. unfold sel at 2. simpl. rewrite ktuple_eqb_refl. congruence.
        * intro H. destruct rs0; discriminate H.
      + repeat split; auto.
        * rewrite sel_app. unfold sel at 2. simpl. rewrite ktuple_eqb_refl.
          unfold sel. rewrite filter_none; [reflexivity|].
          intros x Hx. destruct (ktuple_eqb (ktuple_of x) (ktuple_of r)) eqn:E; auto.
          apply ktuple_eqb_iff in E. exfalso. apply Hnot.
          destruct (I3 x Hx) as [rs Hin]. unfold key in Hin. rewrite E in Hin.
          change (key r) with (fst (key r, (ktuple_of r, rs))). apply in_map. exact Hin.
        * discriminate.
    - destruct (in_dec (list_eq_dec N.eq_dec) (key r) (map fst st)) as [Hin|Hnot].
      + rewrite g_add_keys_in; auto.
      + rewrite g_add_keys_new; auto. apply NoDup_app_snoc; auto.
    - intros x Hx. apply in_app_or in Hx. destruct Hx as [Hx|[<-|[]]].
      + destruct (I3 x Hx) as [rs Hin]. eapply g_add_keeps. exact Hin.
      + destruct (g_add_has st (key r) (ktuple_of r) r) as [t' [rs Hin]].
        assert (Hin' := Hin). apply g_add_in_inv in Hin'; [|exact I2].
        destruct Hin' as [[Hne _]|[[_ [rs0 [Hin0 _]]]|[_ [_ [-> _]]]]].
        * congruence.
        * destruct (I1 _ _ _ Hin0) as [Hk [HPt _]].
          assert (t' = ktuple_of r) as -> by (apply kf_inj; auto).
          exists rs. exact Hin.
        * exists rs. exact Hin.
  Qed.

  Lemma GInv_run : forall rows st rows0, GInv st rows0 -> Forall (fun r => P (ktuple_of r)) rows ->
    GInv (fold_left (kg_step key) rows st) (rows0 ++ rows).
  Proof.
    induction rows as [|r rows IH]; simpl; intros st rows0 HI HP.
    - rewrite app_nil_r. exact HI.
    - inversion HP; subst.
      replace (rows0 ++ r :: rows) with ((rows0 ++ [r]) ++ rows) by (rewrite <- app_assoc; reflexivity).
      apply IH; auto. apply GInv_step; auto.
  Qed.

  Lemma GInv_init : GInv [] [].
  Proof. split; [|split]; simpl; try constructor; intros; contradiction. Qed.

  (* the grouping theorem, for any key that is injective on the tuples that occur *)
  Theorem group_by_partition : forall rows, Forall (fun r => P (ktuple_of r)) rows ->
    let res := kgroup_by key rows in
    NoDup (map fst res)
    /\ (forall t, In t (map fst res) <-> exists r, In r rows /\ ktuple_of r = t)
    /\ (forall t rs, In (t, rs) res -> rs = sel t rows /\ rs <> []).
  Proof.
    intros rows HP res.
    destruct (GInv_run rows [] [] GInv_init HP) as [I1 [I2 I3]]. simpl in *.
    set (st := fold_left (kg_step key) rows []) in *.
    assert (Hres : res = map snd st) by reflexivity.
    split; [|split].
    - rewrite Hres, map_map.
      assert (E : map fst st = map kf (map (fun e => fst (snd e)) st)).
      { rewrite map_map. apply map_ext_in. intros [k [t rs]] Hin. simpl.
        destruct (I1 _ _ _ Hin) as [Hk _]. exact Hk. }
      rewrite E in I2. eapply NoDup_map_inv. exact I2.
    - intro t. rewrite Hres, map_map. split.
      + intro Hin. apply in_map_iff in Hin. destruct Hin as [[k [t' rs]] [Ht Hin]]. simpl in Ht. subst t'.
        destruct (I1 _ _ _ Hin) as [_ [_ [Hrs Hnn]]].
        destruct rs as [|r rs]; [contradiction|].
        assert (Hr : In r (sel t rows)) by (rewrite <- Hrs; left; reflexivity).
        unfold sel in Hr. apply filter_In in Hr. destruct Hr as [Hr Ht]. apply ktuple_eqb_iff in Ht.
        exists r. auto.
      + intros [r [Hr <-]]. destruct (I3 r Hr) as [rs Hin].
        apply in_map_iff. exists (key r, (ktuple_of r, rs)). auto.
    - intros t rs Hin. rewrite Hres in Hin. apply in_map_iff in Hin.
      destruct Hin as [[k [t' rs']] [E Hin]]. simpl in E. injection E as -> ->.
      destruct (I1 _ _ _ Hin) as [_ [_ [Hrs Hnn]]]. auto.
  Qed.
End Grouping.

(* aggregator: all tuples *)
Theorem group_partition : forall rows,
  let res := kgroup rows in
  NoDup (map fst res)
  /\ (forall t, In t (map fst res) <-> exists r, In r rows /\ ktuple_of r = t)
  /\ (forall t rs, In (t, rs) res ->
        rs = filter (fun r => ktuple_eqb (ktuple_of r) t) rows /\ rs <> []).
Proof.
  intro rows.
  apply (group_by_partition enc_tuple (fun _ => True)).
  - intros a b _ _. apply enc_tuple_inj.
  - apply Forall_forall. auto.
Qed.

(* the per-key maps of the keyed windows (sessions, global groups, counting buffers): the rows of
   one query conform to one schema (same number of grouping columns, one scalar type per column) *)
Theorem group_partition_win : forall g sch rows,
  Forall (fun r => conforms sch (ktuple_of r)) rows ->
  let res := kgroup_by (win_key g) rows in
  NoDup (map fst res)
  /\ (forall t, In t (map fst res) <-> exists r, In r rows /\ ktuple_of r = t)
  /\ (forall t rs, In (t, rs) res ->
        rs = filter (fun r => ktuple_eqb (ktuple_of r) t) rows /\ rs <> []).
Proof.
  intros g sch rows HC.
  apply (group_by_partition (tuple_key g) (conforms sch)).
  - intros a b Ha Hb. apply tuple_key_inj. eapply conforms_same_kind; eauto.
  - exact HC.
Qed.

(* output naming: the i-th grouping value is reported under the i-th output name *)
Lemma report_lookup : forall names t i n,
  NoDup names -> length names = length t -> nth_error names i = Some n ->
  klookup n (kreport names t) = nth_error t i.
Proof.
  unfold kreport.
  induction names as [|m names IH]; intros t i n ND L Hn.
  - destruct i; discriminate Hn.
  - destruct t as [|v t]; [discriminate L|]. simpl in L. injection L as L.
    inversion ND as [|? ? Hnot ND']; subst. simpl.
    destruct i as [|i]; simpl in *.
    + injection Hn as ->. rewrite bytes_eqb_refl. reflexivity.
    + destruct (bytes_eqb n m) eqn:E.
      * apply bytes_eqb_iff in E. subst. exfalso. apply Hnot. eapply nth_error_In. exact Hn.
      * apply IH; auto.
Qed.

(* ---- history: the encoders before the repair were not injective (F2) ---------------------- *)
Lemma enc_old_agg_sep_refuted :
  exists a b, a <> b /\ length a = length b /\ enc_old_agg a = enc_old_agg b.
Proof.
  (* ("a\x1fb","c") vs ("a","b\x1fc") *)
  exists [KStr [97; 31; 98]; KStr [99]]%N, [KStr [97]; KStr [98; 31; 99]]%N.
  split; [discriminate|split; reflexivity].
Qed.

Lemma enc_old_agg_null_refuted :
  exists a b, a <> b /\ length a = length b /\ enc_old_agg a = enc_old_agg b.
Proof.
  (* the string "\x00NULL" vs NULL *)
  exists [KStr [0; 78; 85; 76; 76]]%N, [KNull].
  split; [discriminate|split; reflexivity].
Qed.

Lemma enc_old_win_sep_refuted :
  exists a b, a <> b /\ length a = length b /\ enc_old_win a = enc_old_win b.
Proof.
  (* ("a|b","c") vs ("a","b|c") *)
  exists [KStr [97; 124; 98]; KStr [99]]%N, [KStr [97]; KStr [98; 124; 99]]%N.
  split; [discriminate|split; reflexivity].
Qed.

Lemma enc_old_win_null_refuted :
  exists a b, a <> b /\ length a = length b /\ enc_old_win a = enc_old_win b.
Proof.
  (* NULL vs "" *)
  exists [KNull], [KStr []].
  split; [discriminate|split; reflexivity].
Qed.
