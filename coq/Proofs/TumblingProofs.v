(* Invariants of the tumbling-window model and the C01 theorems (event time). *)
From Coq Require Import Lia Arith.
From SV Require Import Model.Tumbling.

Definition batches (tr : list ev) : list batch :=
  flat_map (fun e => match e with EvBatch b => [b] | _ => [] end) tr.

Lemma batches_app a b : batches (a ++ b) = batches a ++ batches b.
Proof. unfold batches. apply flat_map_app. Qed.

Lemma in_batches b tr : In b (batches tr) <-> In (EvBatch b) tr.
Proof.
  unfold batches. rewrite in_flat_map. split.
  - intros [e [He Hb]]. destruct e; cbn in Hb; try contradiction. destruct Hb as [->|[]]. exact He.
  - intros H. exists (EvBatch b). split; [exact H|left; reflexivity].
Qed.

Lemma Forall_filter {A} (P : A -> Prop) f l : Forall P l -> Forall P (filter f l).
Proof. induction 1; cbn; [constructor|]. destruct (f x); [constructor|]; assumption. Qed.

Lemma Forall_filter_both {A} (P : A -> Prop) f l : Forall P l -> Forall (fun x => P x /\ f x = true) (filter f l).
Proof. induction 1; cbn; [constructor|]. destruct (f x) eqn:E; [constructor; auto|assumption]. Qed.

Lemma minl_in l m : minl l = Some m -> In m l.
Proof.
  revert m; induction l as [|x r IH]; cbn; intros m H; [discriminate|].
  destruct (minl r) as [m'|] eqn:E.
  - inversion H; subst. destruct (Z.min_spec x m') as [[_ ->]|[_ ->]]; auto.
  - inversion H; auto.
Qed.

Lemma minl_le l m : minl l = Some m -> forall x, In x l -> m <= x.
Proof.
  revert m; induction l as [|y r IH]; cbn; intros m H x Hx; [contradiction|].
  destruct (minl r) as [m'|] eqn:E.
  - inversion H; subst. destruct Hx as [->|Hx]; [lia|]. specialize (IH m' eq_refl x Hx). lia.
  - inversion H; subst. destruct Hx as [->|Hx]; [lia|]. destruct r; [contradiction|]. cbn in E. destruct (minl r); discriminate.
Qed.

Lemma minl_none l : minl l = None -> l = [].
Proof. destruct l as [|x r]; [reflexivity|]. cbn. destruct (minl r); discriminate. Qed.

Section Membership.
  Variable c : cfg.
  Hypothesis Hsize : 0 < size c.
  Variable P : row -> Prop.

  Definition aligned (a : Z) : Prop := exists k, a = k * size c.

  Definition batch_ok (b : batch) : Prop :=
    b_end b = b_start b + size c /\ aligned (b_start b) /\
    forall r, In r (b_rows b) -> b_start b <= rts r < b_end b /\ P r.

  Definition wf_twin (t : twin) : Prop :=
    t_end t = t_start t + size c /\ aligned (t_start t) /\
    Forall (fun r => in_twin t (rts r) = true /\ P r) (t_snap t).

  Definition InvM (s : st) : Prop :=
    Forall P (data s) /\ Forall wf_twin (trig s) /\ (init s = true -> aligned (slot s)).

  Lemma align_aligned ts : aligned (align ts (size c)).
  Proof. unfold align. destruct (size c <=? 0) eqn:E; [lia|]. eexists; reflexivity. Qed.

  Lemma in_twin_same t x ts : wf_twin t -> wf_twin x -> t_end x = t_end t -> in_twin x ts = in_twin t ts.
  Proof. intros [H1 _] [H2 _] E. unfold in_twin. replace (t_start x) with (t_start t) by lia. rewrite E. reflexivity. Qed.

  Lemma update_snap_wf l t snap :
    Forall wf_twin l -> wf_twin t -> Forall (fun r => in_twin t (rts r) = true /\ P r) snap ->
    Forall wf_twin (update_snap l t snap).
  Proof.
    intros Hl Ht Hs. induction Hl as [|x r Hx Hr IH]; cbn; [constructor|].
    destruct (t_end x =? t_end t) eqn:E.
    - constructor; [|exact Hr]. apply Z.eqb_eq in E. destruct Hx as [H1 [H2 _]].
      split; [exact H1|]. split; [exact H2|]. cbn.
      eapply Forall_impl; [|exact Hs]. cbn. intros a [Ha Hp]. split; [|exact Hp].
      rewrite <- Ha. unfold in_twin. cbn. destruct Ht as [Ht _]. replace (t_start x) with (t_start t) by lia. rewrite E. reflexivity.
    - constructor; assumption.
  Qed.

  Lemma add_core_inv id ts now s s' bs :
    InvM s -> P (id, ts) -> add_core c id ts now s = (s', bs) ->
    InvM s' /\ Forall batch_ok bs.
  Proof.
    intros [Hd [Ht Hi]] Hp. unfold add_core.
    set (w' := update_event_time (ooo c) now ts (w s)).
    set (sl0 := if init s then slot s else align ts (size c)).
    set (sl := if init s && negb (is_late ts w') && (ts <? sl0) then align ts (size c) else sl0).
    assert (Hsl: aligned sl).
    { unfold sl. destruct (init s && negb (is_late ts w') && (ts <? sl0)); [apply align_aligned|].
      unfold sl0. destruct (init s) eqn:E; [auto|apply align_aligned]. }
    assert (Hd': Forall P (data s ++ [(id, ts)])) by (apply Forall_app; split; [exact Hd|constructor; [exact Hp|constructor]]).
    assert (Hkeep: InvM {| init := true; slot := sl; data := data s ++ [(id, ts)]; trig := trig s; w := w'; pend := pend s; adv := adv s |}).
    { split; [exact Hd'|]. split; [exact Ht|]. intros _; exact Hsl. }
    assert (Hdrop: InvM {| init := true; slot := sl; data := data s; trig := trig s; w := w'; pend := pend s; adv := adv s |}).
    { split; [exact Hd|]. split; [exact Ht|]. intros _; exact Hsl. }
    destruct (is_late ts w'); [|intros [= <- <-]; split; [exact Hkeep|constructor]].
    destruct (inwin c sl ts); [intros [= <- <-]; split; [exact Hkeep|constructor]|].
    destruct (0 <? lateness c); [|intros [= <- <-]; split; [exact Hdrop|constructor]].
    destruct (find (fun t => in_twin t ts) (trig s)) as [t|] eqn:Ef; [|intros [= <- <-]; split; [exact Hdrop|constructor]].
    apply find_some in Ef as [Hin Hts]. rewrite Forall_forall in Ht. pose proof (Ht t Hin) as Hwt.
    assert (Hres: Forall (fun r => in_twin t (rts r) = true /\ P r)
                    (t_snap t ++ filter (fun r => in_twin t (rts r)) (data s ++ [(id, ts)]))).
    { apply Forall_app. split; [apply Hwt|].
      eapply Forall_impl; [|apply Forall_filter_both; exact Hd']. cbn. tauto. }
    intros [= <- <-]. split.
    - split; [apply Forall_filter; exact Hd'|]. split; [|intros _; exact Hsl]. cbn.
      apply update_snap_wf; [apply Forall_forall; exact Ht|exact Hwt|exact Hres].
    - constructor; [|constructor]. destruct Hwt as [H1 [H2 _]]. split; [exact H1|]. split; [exact H2|].
      cbn. intros r Hr. rewrite Forall_forall in Hres. destruct (Hres r Hr) as [Hin' Hp']. split; [|exact Hp'].
      unfold in_twin in Hin'. apply andb_true_iff in Hin' as [A B]. lia.
  Qed.

  Lemma cand_aligned sl wmk d a : aligned sl -> In a (cand c sl wmk d) -> aligned a /\ sl <= a /\ a + size c <= wmk.
  Proof.
    intros [k Hk] Hin. unfold cand in Hin. apply filter_In in Hin as [Hin Hc].
    apply in_map_iff in Hin as [r [<- _]]. apply andb_true_iff in Hc as [A B].
    split; [|lia]. exists (k + (rts r - sl) / size c). lia.
  Qed.

  Lemma close_expired_inv wmk s : InvM s -> InvM (close_expired wmk s).
  Proof.
    intros [Hd [Ht Hi]]. unfold close_expired. split; [|split]; cbn.
    - destruct (filter (fun t => t_close t <=? wmk) (trig s)); [exact Hd|apply Forall_filter; exact Hd].
    - apply Forall_filter; exact Ht.
    - exact Hi.
  Qed.

  Lemma fire_step_inv s s' evs :
    InvM s -> fire_step c s = (s', evs) -> InvM s' /\ forall b, In (EvBatch b) evs -> batch_ok b.
  Proof.
    intros Hinv. pose proof Hinv as [Hd [Ht Hi]]. unfold fire_step.
    destruct (pend s) as [wmk|]; [|intros [= <- <-]; split; [exact Hinv|intros b []]].
    destruct (init s) eqn:Ei; cbn [negb].
    2:{ intros [= <- <-]. split; [|intros b [H|[]]; discriminate]. split; [exact Hd|]. split; [exact Ht|]. cbn. try rewrite Ei. discriminate. }
    specialize (Hi eq_refl).
    destruct (minl (cand c (slot s) wmk (data s))) as [a|] eqn:Em.
    - apply minl_in in Em. apply (cand_aligned _ _ _ _ Hi) in Em as [Ha [Hle Hw]].
      intros [= <- <-]. split.
      + split; [apply Forall_filter; exact Hd|]. split; cbn.
        * destruct (0 <? lateness c); [|exact Ht]. apply Forall_app. split; [exact Ht|].
          constructor; [|constructor]. split; [reflexivity|]. split; [exact Ha|]. cbn.
          eapply Forall_impl; [|apply Forall_filter_both; exact Hd]. cbn. intros r [Hp Hr]. split; [|exact Hp].
          unfold in_twin, inwin in *. cbn. exact Hr.
        * intros _. destruct Ha as [k Hk]. exists (k + 1). lia.
      + intros b [Hb|[]]. inversion Hb; subst b. split; [reflexivity|]. split; [exact Ha|]. cbn.
        intros r Hr. apply filter_In in Hr as [Hr Hw']. rewrite Forall_forall in Hd. split; [|apply Hd, Hr].
        unfold inwin in Hw'. apply andb_true_iff in Hw' as [A B]. lia.
    - intros [= <- <-]. split; [|intros b [H|[]]; discriminate]. apply close_expired_inv.
      split; [exact Hd|]. split; [exact Ht|]. cbn. intros _.
      unfold rest_slot. destruct (slot s + size c <=? wmk); [|exact Hi].
      destruct Hi as [k Hk]. exists (k + (wmk - slot s) / size c). lia.
  Qed.

  Definition op_ok (o : op) : Prop := match o with Add id ts _ => P (id, ts) | _ => True end.

  Lemma step_inv s o s' evs :
    InvM s -> op_ok o -> step c s o = (s', evs) -> InvM s' /\ forall b, In (EvBatch b) evs -> batch_ok b.
  Proof.
    intros Hinv Hop. destruct o as [id ts now|id| | |now]; cbn [step].
    - unfold add. destruct (add_core c id ts now s) as [s1 bs] eqn:E. intros [= <- <-].
      destruct (add_core_inv _ _ _ _ _ _ Hinv Hop E) as [H1 H2]. split; [exact H1|].
      intros b [Hb|Hb]; [discriminate|]. apply in_map_iff in Hb as [b' [Hb' Hin]]. inversion Hb'; subst.
      rewrite Forall_forall in H2. apply H2, Hin.
    - intros [= <- <-]. split; [exact Hinv|intros b [H|[]]; discriminate].
    - destruct (pend s); [intros [= <- <-]; split; [exact Hinv|intros b []]|].
      destruct (pop_chan (w s)) as [[x w']|]; intros [= <- <-].
      + split; [|intros b [H|[]]; discriminate]. destruct Hinv as [A [B C]]. split; [|split]; assumption.
      + split; [exact Hinv|intros b [H|[]]; discriminate].
    - apply fire_step_inv, Hinv.
    - intros [= <- <-]. split; [|intros b [H|[]]; discriminate]. destruct Hinv as [A [B C]]. split; [|split]; assumption.
  Qed.

  Lemma run_inv h : forall s s' tr,
    InvM s -> Forall op_ok h -> run c s h = (s', tr) -> InvM s' /\ Forall batch_ok (batches tr).
  Proof.
    induction h as [|o r IH]; intros s s' tr Hinv Hh; cbn [run].
    - intros [= <- <-]. split; [exact Hinv|constructor].
    - destruct (step c s o) as [s1 e1] eqn:E1. destruct (run c s1 r) as [s2 e2] eqn:E2. intros [= <- <-].
      inversion Hh; subst.
      destruct (step_inv _ _ _ _ Hinv H1 E1) as [Hi1 Hb1].
      destruct (IH _ _ _ Hi1 H2 E2) as [Hi2 Hb2]. split; [exact Hi2|].
      rewrite batches_app. apply Forall_app. split; [|exact Hb2].
      apply Forall_forall. intros b Hb. apply Hb1, in_batches, Hb.
  Qed.
End Membership.

Lemma InvM_st0 c P : InvM c P st0.
Proof. split; [constructor|]. split; [constructor|]. cbn. discriminate. Qed.

Definition added (h : list op) (r : row) : Prop := exists now, In (Add (rid r) (rts r) now) h.

Theorem tumbling_membership c h s tr :
  0 < size c -> run c st0 h = (s, tr) ->
  forall b, In (EvBatch b) tr ->
    b_end b = b_start b + size c /\ (exists k, b_start b = k * size c) /\
    forall r, In r (b_rows b) -> b_start b <= rts r < b_end b /\ added h r.
Proof.
  intros Hs Hr b Hb.
  assert (Hok: Forall (op_ok (added h)) h).
  { apply Forall_forall. intros o Ho. destruct o; cbn; auto. exists now. exact Ho. }
  destruct (run_inv c Hs (added h) h _ _ _ (InvM_st0 c _) Hok Hr) as [_ HB].
  rewrite Forall_forall in HB. apply HB, in_batches, Hb.
Qed.
