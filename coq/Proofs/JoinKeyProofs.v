(* C16 — the repaired key encoder is injective modulo the property's key equality.
   A: decimal printing round-trips.  B: digits-then-delimiter splits uniquely.  C: numbers: canonical
   form vs numeric equality.  D: enc_num is injective on canonical forms.  E: encodeOne.  F: encodeKey. *)
From Coq Require Import Lia.
From SV Require Import Model.Join.
Import JoinM.
Open Scope Z_scope.

(* ------------------------------------------------------------------ A. decimal digits *)
Definition digit (c : byte) : Prop := (48 <= c <= 57)%N.

(* lia is used on goals where quotients, remainders and powers are opaque atoms *)
Ltac absn := repeat match goal with
  | |- context [N.modulo ?a ?b] => let x := fresh "x" in set (x := N.modulo a b) in *; clearbody x
  | H : context [N.modulo ?a ?b] |- _ => let x := fresh "x" in set (x := N.modulo a b) in *; clearbody x
  | |- context [N.div ?a ?b] => let x := fresh "x" in set (x := N.div a b) in *; clearbody x
  | H : context [N.div ?a ?b] |- _ => let x := fresh "x" in set (x := N.div a b) in *; clearbody x
  | |- context [N.pow ?a ?b] => let x := fresh "x" in set (x := N.pow a b) in *; clearbody x
  | H : context [N.pow ?a ?b] |- _ => let x := fresh "x" in set (x := N.pow a b) in *; clearbody x
  end.

Lemma digit_of_mod : forall n, digit (48 + n mod 10)%N.
Proof.
  intros n. unfold digit. pose proof (N.mod_upper_bound n 10 ltac:(discriminate)). absn. lia.
Qed.

Lemma digits_fuel_app : forall f n acc, digits_fuel f n acc = digits_fuel f n [] ++ acc.
Proof.
  induction f as [|f IH]; intros n acc; simpl; [reflexivity|].
  destruct (N.eqb (n / 10) 0); [reflexivity|].
  rewrite IH. rewrite (IH _ [_]). rewrite <- app_assoc. reflexivity.
Qed.

Lemma digits_fuel_S : forall f n acc, digits_fuel (S f) n acc =
  if N.eqb (n / 10) 0 then (48 + n mod 10)%N :: acc else digits_fuel f (n / 10)%N ((48 + n mod 10)%N :: acc).
Proof. reflexivity. Qed.

Lemma undec_snoc : forall l c, undec (l ++ [c]) = (10 * undec l + (c - 48))%N.
Proof. intros l c. unfold undec. rewrite fold_left_app. reflexivity. Qed.

Lemma digits_fuel_ok : forall f n, (n < 2 ^ N.of_nat f)%N ->
  undec (digits_fuel (S f) n []) = n /\ Forall digit (digits_fuel (S f) n []) /\ digits_fuel (S f) n [] <> [].
Proof.
  induction f as [|f IH]; intros n Hn.
  - assert (n = 0%N) by (simpl in Hn; lia). subst n. cbn. repeat split.
    + repeat constructor; unfold digit; lia.
    + discriminate.
  - rewrite digits_fuel_S. destruct (N.eqb (n / 10) 0) eqn:Eq.
    + apply N.eqb_eq in Eq. repeat split.
      * unfold undec. cbn [fold_left].
        pose proof (N.div_mod n 10 ltac:(discriminate)) as Hd. rewrite Eq in Hd. absn. lia.
      * constructor; [apply digit_of_mod|constructor].
      * discriminate.
    + apply N.eqb_neq in Eq. rewrite digits_fuel_app.
      assert (Hq : (n / 10 < 2 ^ N.of_nat f)%N).
      { rewrite Nat2N.inj_succ, N.pow_succ_r' in Hn.
        apply N.div_lt_upper_bound; [discriminate|]. absn. lia. }
      destruct (IH _ Hq) as (Hu & Hd & Hne). repeat split.
      * rewrite undec_snoc, Hu. pose proof (N.div_mod n 10 ltac:(discriminate)). absn. lia.
      * apply Forall_app. split; [exact Hd|]. constructor; [apply digit_of_mod|constructor].
      * intros H. apply app_eq_nil in H. destruct H as [_ H]. discriminate.
Qed.

Lemma pbits_bound : forall p, (Npos p < 2 ^ N.of_nat (pbits p))%N.
Proof.
  induction p as [p IH|p IH|]; cbn [pbits].
  - rewrite Nat2N.inj_succ, N.pow_succ_r'. lia.
  - rewrite Nat2N.inj_succ, N.pow_succ_r'. lia.
  - cbn. lia.
Qed.
Lemma nbits_bound : forall n, (n < 2 ^ N.of_nat (nbits n))%N.
Proof. destruct n as [|p]; [cbn; lia|apply pbits_bound]. Qed.

Lemma undec_dec : forall n, undec (dec n) = n.
Proof. intros n. apply (digits_fuel_ok (nbits n) n (nbits_bound n)). Qed.
Lemma dec_digits : forall n, Forall digit (dec n).
Proof. intros n. apply (digits_fuel_ok (nbits n) n (nbits_bound n)). Qed.
Lemma dec_nonempty : forall n, dec n <> [].
Proof. intros n. apply (digits_fuel_ok (nbits n) n (nbits_bound n)). Qed.
Lemma dec_inj : forall a b, dec a = dec b -> a = b.
Proof. intros a b H. rewrite <- (undec_dec a), <- (undec_dec b), H. reflexivity. Qed.
Lemma dec_head : forall n, exists d tl, dec n = d :: tl /\ digit d.
Proof.
  intros n. pose proof (dec_digits n) as Hd. pose proof (dec_nonempty n) as Hn.
  destruct (dec n) as [|d tl]; [congruence|]. exists d, tl. split; [reflexivity|]. inversion Hd; assumption.
Qed.

Lemma lowdigits_app : forall k n acc, lowdigits k n acc = lowdigits k n [] ++ acc.
Proof.
  induction k as [|k IH]; intros n acc; simpl; [reflexivity|].
  rewrite IH. rewrite (IH _ [_]). rewrite <- app_assoc. reflexivity.
Qed.
Lemma lowdigits_ok : forall k n,
  length (lowdigits k n []) = k /\ Forall digit (lowdigits k n []) /\
  undec (lowdigits k n []) = (n mod 10 ^ N.of_nat k)%N.
Proof.
  induction k as [|k IH]; intros n.
  - cbn. repeat split; [constructor|]. rewrite N.mod_1_r. reflexivity.
  - cbn [lowdigits]. rewrite lowdigits_app. destruct (IH (n / 10)%N) as (Hl & Hd & Hu). repeat split.
    + rewrite app_length, Hl. simpl. lia.
    + apply Forall_app. split; [exact Hd|]. constructor; [apply digit_of_mod|constructor].
    + rewrite undec_snoc, Hu. rewrite Nat2N.inj_succ, N.pow_succ_r'.
      rewrite (N.mod_mul_r n 10 (10 ^ N.of_nat k)); [absn; lia|discriminate|].
      apply N.pow_nonzero. discriminate.
Qed.

(* ------------------------------------------------------------------ B. unique split *)
Lemma split_digits : forall a b c d r1 r2,
  Forall digit a -> Forall digit b -> ~ digit c -> ~ digit d ->
  a ++ c :: r1 = b ++ d :: r2 -> a = b /\ c = d /\ r1 = r2.
Proof.
  induction a as [|x a IH]; intros b c d r1 r2 Ha Hb Hc Hd H.
  - destruct b as [|y b]; simpl in H.
    + inversion H. auto.
    + inversion H; subst. inversion Hb; subst. contradiction.
  - destruct b as [|y b]; simpl in H.
    + inversion H; subst. inversion Ha; subst. contradiction.
    + inversion H; subst. inversion Ha; subst. inversion Hb; subst.
      destruct (IH b c d r1 r2) as (E1 & E2 & E3); auto. subst. auto.
Qed.

Lemma app_same_length : forall (a b r1 r2 : bytes),
  length a = length b -> a ++ r1 = b ++ r2 -> a = b /\ r1 = r2.
Proof.
  induction a as [|x a IH]; intros [|y b] r1 r2 Hl H; simpl in *; try discriminate; auto.
  inversion H; subst. destruct (IH b r1 r2) as [E1 E2]; [lia|assumption|]. subst. auto.
Qed.

(* ------------------------------------------------------------------ C. numbers *)
(* m1*2^e1 = m2*2^e2, both scaled to the smaller exponent *)
Definition deq (m1 e1 m2 e2 : Z) : Prop :=
  m1 * 2 ^ (e1 - Z.min e1 e2) = m2 * 2 ^ (e2 - Z.min e1 e2).

Lemma num_eqb_deq : forall m1 e1 m2 e2, num_eqb m1 e1 m2 e2 = true <-> deq m1 e1 m2 e2.
Proof. intros. unfold num_eqb, deq. apply Z.eqb_eq. Qed.

(* scaling by any common power of two large enough gives the same relation *)
Lemma deq_scaled : forall m1 e1 m2 e2 t, - e1 <= t -> - e2 <= t ->
  (deq m1 e1 m2 e2 <-> m1 * 2 ^ (e1 + t) = m2 * 2 ^ (e2 + t)).
Proof.
  intros m1 e1 m2 e2 t H1 H2. unfold deq. set (d := Z.min e1 e2).
  assert (Hd1 : 0 <= e1 - d) by (unfold d; lia). assert (Hd2 : 0 <= e2 - d) by (unfold d; lia).
  assert (Ht : 0 <= t + d) by (unfold d; lia).
  assert (E1 : 2 ^ (e1 + t) = 2 ^ (e1 - d) * 2 ^ (t + d)).
  { rewrite <- Z.pow_add_r by assumption. f_equal. lia. }
  assert (E2 : 2 ^ (e2 + t) = 2 ^ (e2 - d) * 2 ^ (t + d)).
  { rewrite <- Z.pow_add_r by assumption. f_equal. lia. }
  rewrite E1, E2. rewrite !Z.mul_assoc.
  assert (Hp : 0 < 2 ^ (t + d)) by (apply Z.pow_pos_nonneg; lia).
  split; intros H.
  - rewrite H. reflexivity.
  - apply Z.mul_cancel_r in H; [exact H|lia].
Qed.

Lemma deq_refl : forall m e, deq m e m e.
Proof. intros. unfold deq. reflexivity. Qed.
Lemma deq_sym : forall m1 e1 m2 e2, deq m1 e1 m2 e2 -> deq m2 e2 m1 e1.
Proof. intros m1 e1 m2 e2 H. unfold deq in *. rewrite (Z.min_comm e2 e1). symmetry. exact H. Qed.
Lemma deq_trans : forall m1 e1 m2 e2 m3 e3, deq m1 e1 m2 e2 -> deq m2 e2 m3 e3 -> deq m1 e1 m3 e3.
Proof.
  intros m1 e1 m2 e2 m3 e3 H12 H23.
  set (t := Z.max (- e1) (Z.max (- e2) (- e3))).
  apply (deq_scaled m1 e1 m2 e2 t) in H12; [|unfold t; lia|unfold t; lia].
  apply (deq_scaled m2 e2 m3 e3 t) in H23; [|unfold t; lia|unfold t; lia].
  apply (deq_scaled m1 e1 m3 e3 t); [unfold t; lia|unfold t; lia|]. congruence.
Qed.

Definition canonical (c : Z * nat) : Prop := snd c = O \/ Z.odd (fst c) = true.

Lemma strip_spec : forall n p p' k, strip p n = (p', k) ->
  (k <= n)%nat /\ Zpos p = Zpos p' * 2 ^ (Z.of_nat n - Z.of_nat k) /\ (k = O \/ Z.odd (Zpos p') = true).
Proof.
  induction n as [|n IH]; intros p p' k H.
  - simpl in H. inversion H; subst. repeat split; [lia| |left; reflexivity].
    rewrite Z.sub_diag, Z.pow_0_r, Z.mul_1_r. reflexivity.
  - cbn [strip] in H. destruct p as [q|q|].
    + inversion H; subst. repeat split; [lia| |right; reflexivity].
      rewrite Z.sub_diag, Z.pow_0_r, Z.mul_1_r. reflexivity.
    + destruct (IH q p' k H) as (Hk & Hv & Ho). repeat split; [lia| |exact Ho].
      replace (Z.of_nat (S n) - Z.of_nat k) with (Z.succ (Z.of_nat n - Z.of_nat k)) by lia.
      rewrite Z.pow_succ_r by lia. change (Zpos q~0) with (2 * Zpos q). rewrite Hv. ring.
    + inversion H; subst. repeat split; [lia| |right; reflexivity].
      rewrite Z.sub_diag, Z.pow_0_r, Z.mul_1_r. reflexivity.
Qed.

Lemma canon_spec : forall m e z k, canon m e = (z, k) ->
  canonical (z, k) /\ deq m e z (- Z.of_nat k).
Proof.
  intros m e z k H. unfold canon in H. destruct m as [|p|p].
  - injection H as Hz Hk; subst z k. split; [left; reflexivity|]. unfold deq. rewrite !Z.mul_0_l. reflexivity.
  - destruct (0 <=? e) eqn:He.
    + apply Z.leb_le in He. injection H as Hz Hk; subst z k. split; [left; reflexivity|].
      unfold deq. cbn [Z.of_nat Z.opp]. rewrite Z.min_r by lia. rewrite !Z.sub_0_r. rewrite Z.pow_0_r, Z.mul_1_r. reflexivity.
    + apply Z.leb_gt in He. destruct (strip p (Z.to_nat (- e))) as [p' k'] eqn:Es. injection H as Hz Hk; subst z k'.
      destruct (strip_spec _ _ _ _ Es) as (Hk & Hv & Ho). rewrite Z2Nat.id in Hv by lia.
      split; [unfold canonical; simpl; destruct Ho; auto|].
      unfold deq. rewrite Z.min_l by lia. rewrite Z.sub_diag. cbn [Z.pow].
      replace (- Z.of_nat k - e) with (- e - Z.of_nat k) by lia. lia.
  - destruct (0 <=? e) eqn:He.
    + apply Z.leb_le in He. injection H as Hz Hk; subst z k. split; [left; reflexivity|].
      unfold deq. cbn [Z.of_nat Z.opp]. rewrite Z.min_r by lia. rewrite !Z.sub_0_r. rewrite Z.pow_0_r, Z.mul_1_r. reflexivity.
    + apply Z.leb_gt in He. destruct (strip p (Z.to_nat (- e))) as [p' k'] eqn:Es. injection H as Hz Hk; subst z k'.
      destruct (strip_spec _ _ _ _ Es) as (Hk & Hv & Ho). rewrite Z2Nat.id in Hv by lia.
      split; [unfold canonical; simpl; destruct Ho; auto|].
      unfold deq. rewrite Z.min_l by lia. rewrite Z.sub_diag. cbn [Z.pow].
      replace (- Z.of_nat k - e) with (- e - Z.of_nat k) by lia.
      change (Zneg p) with (- Zpos p). change (Zneg p') with (- Zpos p'). rewrite Hv. ring.
Qed.

Lemma odd_times_pow2 : forall z j, 0 < j -> Z.odd (z * 2 ^ j) = false.
Proof.
  intros z j Hj. replace j with (Z.succ (j - 1)) by lia. rewrite Z.pow_succ_r by lia.
  rewrite Z.mul_assoc, (Z.mul_comm z 2), <- Z.mul_assoc. rewrite Z.odd_mul. reflexivity.
Qed.

Lemma canonical_unique : forall z1 k1 z2 k2,
  canonical (z1, k1) -> canonical (z2, k2) ->
  deq z1 (- Z.of_nat k1) z2 (- Z.of_nat k2) -> (z1, k1) = (z2, k2).
Proof.
  intros z1 k1 z2 k2 C1 C2 H. unfold canonical in *; simpl in *. unfold deq in H.
  destruct (Nat.compare_spec k1 k2) as [E|L|G].
  - subst k2. rewrite Z.min_id, Z.sub_diag in H. cbn [Z.pow] in H. f_equal. lia.
  - exfalso. rewrite Z.min_r in H by lia. rewrite Z.sub_diag in H. cbn [Z.pow] in H.
    destruct C2 as [C2|C2]; [lia|].
    rewrite Z.mul_1_r in H. rewrite <- H in C2. rewrite odd_times_pow2 in C2 by lia. discriminate.
  - exfalso. rewrite Z.min_l in H by lia. rewrite Z.sub_diag in H. cbn [Z.pow] in H.
    destruct C1 as [C1|C1]; [lia|].
    rewrite Z.mul_1_r in H. rewrite H in C1. rewrite odd_times_pow2 in C1 by lia. discriminate.
Qed.

(* numeric equality of two dyadics = equality of their canonical forms *)
Lemma canon_eq_iff : forall m1 e1 m2 e2, canon m1 e1 = canon m2 e2 <-> deq m1 e1 m2 e2.
Proof.
  intros m1 e1 m2 e2. destruct (canon m1 e1) as [z1 k1] eqn:E1. destruct (canon m2 e2) as [z2 k2] eqn:E2.
  destruct (canon_spec _ _ _ _ E1) as [C1 D1]. destruct (canon_spec _ _ _ _ E2) as [C2 D2]. split; intros H.
  - inversion H; subst. eapply deq_trans; [exact D1|]. apply deq_sym. exact D2.
  - apply canonical_unique; try assumption.
    eapply deq_trans; [apply deq_sym; exact D1|]. eapply deq_trans; [exact H|exact D2].
Qed.

Lemma canon_int : forall z, canon z 0 = (z, O).
Proof. intros [|p|p]; cbn; try reflexivity; rewrite Pos.mul_1_r; reflexivity. Qed.

(* ------------------------------------------------------------------ D. enc_num *)
Lemma minus_not_digit : ~ digit minus. Proof. unfold digit, minus. lia. Qed.
Lemma dot_not_digit : ~ digit dot. Proof. unfold digit, dot. lia. Qed.
Lemma colon_not_digit : ~ digit colon. Proof. unfold digit, colon. lia. Qed.

Lemma decZ_inj : forall a b, decZ a = decZ b -> a = b.
Proof.
  intros a b H. destruct a as [|p|p], b as [|q|q]; cbn [decZ] in H; try reflexivity;
    try (apply dec_inj in H; congruence).
  - destruct (dec_head 0) as (d & tl & E & Hd). rewrite E in H. inversion H; subst. destruct (minus_not_digit Hd).
  - destruct (dec_head (Npos p)) as (d & tl & E & Hd). rewrite E in H. inversion H; subst. destruct (minus_not_digit Hd).
  - destruct (dec_head 0) as (d & tl & E & Hd). rewrite E in H. inversion H; subst. destruct (minus_not_digit Hd).
  - destruct (dec_head (Npos q)) as (d & tl & E & Hd). rewrite E in H. inversion H; subst. destruct (minus_not_digit Hd).
  - inversion H as [H1]. apply dec_inj in H1. congruence.
Qed.

Lemma decZ_no_dot : forall z, ~ In dot (decZ z).
Proof.
  intros z Hin.
  assert (Hf : forall n, ~ In dot (dec n)).
  { intros n Hn. pose proof (dec_digits n) as Hd. rewrite Forall_forall in Hd. apply dot_not_digit. apply Hd. exact Hn. }
  destruct z; cbn [decZ] in Hin; try (eapply Hf; exact Hin).
  destruct Hin as [E|Hin]; [discriminate|]. eapply Hf; exact Hin.
Qed.

Definition frac_part (z : Z) (k : nat) : N := (Z.abs_N z mod 2 ^ N.of_nat k * 5 ^ N.of_nat k)%N.
Definition int_part (z : Z) (k : nat) : N := (Z.abs_N z / 2 ^ N.of_nat k)%N.
Definition sign_of (z : Z) : bytes := if z <? 0 then [minus] else [].

Lemma enc_num_frac : forall z k, enc_num (z, S k) =
  sign_of z ++ dec (int_part z (S k)) ++ dot :: lowdigits (S k) (frac_part z (S k)) [].
Proof. reflexivity. Qed.

Lemma frac_lt : forall z k, (frac_part z k < 10 ^ N.of_nat k)%N.
Proof.
  intros z k. unfold frac_part. replace 10%N with (2 * 5)%N by reflexivity. rewrite N.pow_mul_l.
  apply N.mul_lt_mono_pos_r.
  - apply N.neq_0_lt_0. apply N.pow_nonzero. discriminate.
  - apply N.mod_upper_bound. apply N.pow_nonzero. discriminate.
Qed.

Lemma sign_split : forall z1 z2 n1 n2 r1 r2,
  sign_of z1 ++ dec n1 ++ r1 = sign_of z2 ++ dec n2 ++ r2 ->
  (z1 <? 0) = (z2 <? 0) /\ dec n1 ++ r1 = dec n2 ++ r2.
Proof.
  intros z1 z2 n1 n2 r1 r2 H. unfold sign_of in H.
  destruct (dec_head n1) as (d1 & t1 & E1 & D1). destruct (dec_head n2) as (d2 & t2 & E2 & D2).
  destruct (z1 <? 0), (z2 <? 0); simpl in H.
  - inversion H. auto.
  - exfalso. rewrite E2 in H. inversion H; subst. exact (minus_not_digit D2).
  - exfalso. rewrite E1 in H. inversion H; subst. exact (minus_not_digit D1).
  - auto.
Qed.

Lemma enc_num_inj : forall c1 c2, canonical c1 -> canonical c2 -> enc_num c1 = enc_num c2 -> c1 = c2.
Proof.
  intros [z1 k1] [z2 k2] C1 C2 H. destruct k1 as [|k1], k2 as [|k2].
  - cbn in H. apply decZ_inj in H. congruence.
  - exfalso. rewrite enc_num_frac in H. cbn [enc_num] in H. apply (decZ_no_dot z1). rewrite H.
    apply in_or_app. right. apply in_or_app. right. left. reflexivity.
  - exfalso. rewrite enc_num_frac in H. cbn [enc_num] in H. apply (decZ_no_dot z2). rewrite <- H.
    apply in_or_app. right. apply in_or_app. right. left. reflexivity.
  - rewrite !enc_num_frac in H. apply sign_split in H. destruct H as [Hs H].
    apply split_digits in H; try apply dec_digits; try apply dot_not_digit.
    destruct H as (Hi & _ & Hl). apply dec_inj in Hi.
    destruct (lowdigits_ok (S k1) (frac_part z1 (S k1))) as (L1 & _ & U1).
    destruct (lowdigits_ok (S k2) (frac_part z2 (S k2))) as (L2 & _ & U2).
    assert (Hk : S k1 = S k2) by (rewrite <- L1, <- L2, Hl; reflexivity).
    rewrite Hl in U1. rewrite U1 in U2. rewrite Hk in *.
    rewrite !N.mod_small in U2 by apply frac_lt.
    unfold frac_part in U2. apply N.mul_cancel_r in U2; [|apply N.pow_nonzero; discriminate].
    unfold int_part in Hi.
    assert (Ha : Z.abs_N z1 = Z.abs_N z2).
    { rewrite (N.div_mod (Z.abs_N z1) (2 ^ N.of_nat (S k2))) by (apply N.pow_nonzero; discriminate).
      rewrite (N.div_mod (Z.abs_N z2) (2 ^ N.of_nat (S k2))) by (apply N.pow_nonzero; discriminate).
      rewrite Hi, U2. reflexivity. }
    f_equal. destruct (z1 <? 0) eqn:S1; symmetry in Hs.
    + apply Z.ltb_lt in S1, Hs. lia.
    + apply Z.ltb_ge in S1, Hs. lia.
Qed.

(* ------------------------------------------------------------------ E. encodeOne *)
Definition numc (v : kv) : option (Z * nat) :=
  match v with KInt z => Some (canon z 0) | KFlt m e => Some (canon m e) | _ => None end.

Lemma encodeOne_num : forall v c, numc v = Some c -> encodeOne v = tag_n ++ enc_num c.
Proof.
  intros [|z|m e|s|b] c H; simpl in H; inversion H; subst; try reflexivity.
  rewrite canon_int. reflexivity.
Qed.

Lemma canon_canonical : forall m e, canonical (canon m e).
Proof. intros m e. destruct (canon m e) as [z k] eqn:E. apply (canon_spec _ _ _ _ E). Qed.

Lemma key_eqb_num : forall a b ca cb, numc a = Some ca -> numc b = Some cb ->
  (key_eqb a b = true <-> ca = cb).
Proof.
  intros a b ca cb Ha Hb.
  destruct a as [|x|m e|s|x]; simpl in Ha; inversion Ha; subst; clear Ha;
  destruct b as [|y|m' e'|s'|y]; simpl in Hb; inversion Hb; subst; clear Hb; cbn [key_eqb].
  - rewrite !canon_int. rewrite Z.eqb_eq. split; [congruence|intros H; inversion H; reflexivity].
  - rewrite num_eqb_deq. symmetry. apply canon_eq_iff.
  - rewrite num_eqb_deq. symmetry. apply canon_eq_iff.
  - rewrite num_eqb_deq. symmetry. apply canon_eq_iff.
Qed.

Theorem encodeOne_inj : forall a b, encodeOne a = encodeOne b <-> key_eqb a b = true.
Proof.
  intros a b. destruct (numc a) as [ca|] eqn:Na; destruct (numc b) as [cb|] eqn:Nb.
  - rewrite (encodeOne_num _ _ Na), (encodeOne_num _ _ Nb). rewrite (key_eqb_num _ _ _ _ Na Nb). split; intros H.
    + apply app_inv_head in H. apply enc_num_inj in H; [exact H| |].
      * destruct a; simpl in Na; inversion Na; apply canon_canonical.
      * destruct b; simpl in Nb; inversion Nb; apply canon_canonical.
    + subst. reflexivity.
  - rewrite (encodeOne_num _ _ Na).
    destruct a as [|x|m e|s|x]; simpl in Na; try discriminate;
      destruct b as [|y|m' e'|s'|y]; simpl in Nb; try discriminate; cbn; split; intros H; discriminate.
  - rewrite (encodeOne_num _ _ Nb).
    destruct b as [|y|m' e'|s'|y]; simpl in Nb; try discriminate;
      destruct a as [|x|m e|s|x]; simpl in Na; try discriminate; cbn; split; intros H; discriminate.
  - destruct a as [|x|m e|s|x]; simpl in Na; try discriminate;
      destruct b as [|y|m' e'|s'|y]; simpl in Nb; try discriminate; cbn [encodeOne key_eqb];
      try (split; intros H; [discriminate H|discriminate H]).
    + split; reflexivity.
    + split; intros H.
      * apply app_inv_head in H. subst. clear. induction s' as [|c s IH]; cbn; [reflexivity|].
        rewrite N.eqb_refl. exact IH.
      * f_equal. revert s' H. induction s as [|c s IH]; intros [|c' s'] H; cbn in H; try discriminate; [reflexivity|].
        apply andb_prop in H. destruct H as [H1 H2]. apply N.eqb_eq in H1. subst. f_equal. apply IH. exact H2.
    + destruct x, y; cbn; split; intros H; try reflexivity; discriminate.
Qed.

(* ------------------------------------------------------------------ F. encodeKey *)
Lemma enc_comp_prefix_free : forall p1 p2 r1 r2,
  enc_comp p1 ++ r1 = enc_comp p2 ++ r2 -> p1 = p2 /\ r1 = r2.
Proof.
  intros p1 p2 r1 r2 H. unfold enc_comp in H. rewrite <- !app_assoc in H. simpl in H.
  apply split_digits in H; try apply dec_digits; try apply colon_not_digit.
  destruct H as (Hl & _ & H). apply dec_inj in Hl. apply Nat2N.inj in Hl.
  apply app_same_length; assumption.
Qed.

Lemma bytes_eqb_eq : forall a b : bytes, bytes_eqb a b = true <-> a = b.
Proof.
  induction a as [|x a IH]; intros [|y b]; cbn; split; intros H; try discriminate; try reflexivity.
  - apply andb_prop in H. destruct H as [H1 H2]. apply N.eqb_eq in H1. apply IH in H2. subst. reflexivity.
  - inversion H; subst. rewrite N.eqb_refl. apply IH. reflexivity.
Qed.

Theorem encodeKey_inj : forall a b, encodeKey a = encodeKey b <-> tuple_eqb a b = true.
Proof.
  induction a as [|x a IH]; intros [|y b]; cbn [encodeKey tuple_eqb].
  - split; reflexivity.
  - split; intros H; [|discriminate]. exfalso. unfold enc_comp in H.
    destruct (dec (N.of_nat (length (encodeOne y)))); discriminate.
  - split; intros H; [|discriminate]. exfalso. unfold enc_comp in H.
    destruct (dec (N.of_nat (length (encodeOne x)))); discriminate.
  - split; intros H.
    + apply enc_comp_prefix_free in H. destruct H as [H1 H2].
      apply encodeOne_inj in H1. apply IH in H2. rewrite H1, H2. reflexivity.
    + apply andb_prop in H. destruct H as [H1 H2]. apply encodeOne_inj in H1. apply IH in H2.
      rewrite H1, H2. reflexivity.
Qed.

(* the form used by the refinement proof: equality of the encodings decides the key equality *)
Corollary encodeKey_eqb : forall a b, bytes_eqb (encodeKey a) (encodeKey b) = tuple_eqb a b.
Proof.
  intros a b. destruct (tuple_eqb a b) eqn:E.
  - apply bytes_eqb_eq. apply encodeKey_inj. exact E.
  - destruct (bytes_eqb (encodeKey a) (encodeKey b)) eqn:B; [|reflexivity].
    apply bytes_eqb_eq in B. apply encodeKey_inj in B. congruence.
Qed.

(* key equality is an equivalence relation (it is the kernel of encodeOne / encodeKey) *)
Lemma key_eqb_refl : forall a, key_eqb a a = true.
Proof. intros a. apply encodeOne_inj. reflexivity. Qed.
Lemma key_eqb_sym : forall a b, key_eqb a b = key_eqb b a.
Proof.
  intros a b. destruct (key_eqb a b) eqn:E1; destruct (key_eqb b a) eqn:E2; try reflexivity.
  - apply encodeOne_inj in E1. symmetry in E1. apply encodeOne_inj in E1. congruence.
  - apply encodeOne_inj in E2. symmetry in E2. apply encodeOne_inj in E2. congruence.
Qed.
Lemma tuple_eqb_refl : forall a, tuple_eqb a a = true.
Proof. intros a. apply encodeKey_inj. reflexivity. Qed.
Lemma tuple_eqb_sym : forall a b, tuple_eqb a b = tuple_eqb b a.
Proof.
  intros a b. rewrite <- !encodeKey_eqb.
  destruct (bytes_eqb (encodeKey a) (encodeKey b)) eqn:E1; destruct (bytes_eqb (encodeKey b) (encodeKey a)) eqn:E2;
    try reflexivity.
  - apply bytes_eqb_eq in E1. symmetry in E1. apply bytes_eqb_eq in E1. congruence.
  - apply bytes_eqb_eq in E2. symmetry in E2. apply bytes_eqb_eq in E2. congruence.
Qed.
Lemma tuple_eqb_trans : forall a b c, tuple_eqb a b = true -> tuple_eqb b c = true -> tuple_eqb a c = true.
Proof.
  intros a b c H1 H2. apply encodeKey_inj in H1. apply encodeKey_inj in H2. apply encodeKey_inj. congruence.
Qed.
