(* C06 — proofs about the evaluators of the hand-written expression engine (Model/ExprEval.v)
   against the reference semantics (Model/Sem.v). *)
From SV Require Import Model.Sem.
From Coq Require Import Lia.
Local Open Scope nat_scope.

(* ---- induction principle for the nested type xexpr ---- *)
Section Ind.
Variable P : xexpr -> Prop.
Hypothesis HNum : forall q, P (ENum q).
Hypothesis HStr : forall s, P (EStr s).
Hypothesis HCol : forall s, P (ECol s).
Hypothesis HNeg : forall e, P e -> P (ENeg e).
Hypothesis HBin : forall o l r, P l -> P r -> P (EBin o l r).
Hypothesis HCmp : forall c l r, P l -> P r -> P (ECmp c l r).
Hypothesis HAnd : forall l r, P l -> P r -> P (EAnd l r).
Hypothesis HOr : forall l r, P l -> P r -> P (EOr l r).
Hypothesis HCall : forall g args, Forall P args -> P (ECall g args).
Hypothesis HParen : forall e, P e -> P (EParen e).
Fixpoint xexpr_ind' (e : xexpr) : P e :=
  match e with
  | ENum q => HNum q
  | EStr s => HStr s
  | ECol s => HCol s
  | ENeg x => HNeg x (xexpr_ind' x)
  | EBin o l r => HBin o l r (xexpr_ind' l) (xexpr_ind' r)
  | ECmp c l r => HCmp c l r (xexpr_ind' l) (xexpr_ind' r)
  | EAnd l r => HAnd l r (xexpr_ind' l) (xexpr_ind' r)
  | EOr l r => HOr l r (xexpr_ind' l) (xexpr_ind' r)
  | ECall g args =>
      HCall g args ((fix go (l : list xexpr) : Forall P l :=
                       match l with
                       | [] => Forall_nil P
                       | x :: r => Forall_cons x (xexpr_ind' x) (go r)
                       end) args)
  | EParen x => HParen x (xexpr_ind' x)
  end.
End Ind.

Section WithRow.
Variable row : xrow.


(* ---- unfolding equations of the mutually recursive evaluators ---- *)
Lemma ev_NNum q : ev row (NNum q) = OVal (VNum q). Proof. reflexivity. Qed.
Lemma ev_NStr s : ev row (NStr s) = OVal (VStr s). Proof. reflexivity. Qed.
Lemma ev_NField f : ev row (NField f) = match xlookup row f with Some v => OVal v | None => OErr end. Proof. reflexivity. Qed.
Lemma ev_NParen e : ev row (NParen e) = ev row e. Proof. reflexivity. Qed.
Lemma ev_NBin o l r : ev row (NBin o l r) = bin_body o (evn row l) (evn row r). Proof. reflexivity. Qed.
Lemma ev_NCmp c l r : ev row (NCmp c l r) = wrap_bool (cmp_body c (ev row l) (ev row r)). Proof. reflexivity. Qed.
Lemma ev_NAnd l r : ev row (NAnd l r) = wrap_bool (and_body (eb row l) (eb row r)). Proof. reflexivity. Qed.
Lemma ev_NOr l r : ev row (NOr l r) = wrap_bool (or_body (eb row l) (eb row r)). Proof. reflexivity. Qed.
Lemma ev_NFun g a : ev row (NFun g a) = obind (mapM (ev row) a) (call g). Proof. reflexivity. Qed.
Lemma evn_NNum q : evn row (NNum q) = OVal (VNum q, false). Proof. reflexivity. Qed.
Lemma evn_NStr s : evn row (NStr s) = OVal (VStr s, false). Proof. reflexivity. Qed.
Lemma evn_NField f : evn row (NField f) =
  match xlookup row f with None => OVal (VNull, true) | Some VNull => OVal (VNull, true) | Some v => OVal (v, false) end.
Proof. reflexivity. Qed.
Lemma evn_NParen e : evn row (NParen e) = evn row e. Proof. reflexivity. Qed.
Lemma evn_NBin o l r : evn row (NBin o l r) = not_null (bin_body o (evn row l) (evn row r)). Proof. reflexivity. Qed.
Lemma evn_NCmp c l r : evn row (NCmp c l r) = not_null (wrap_bool (cmp_body c (ev row l) (ev row r))). Proof. reflexivity. Qed.
Lemma evn_NAnd l r : evn row (NAnd l r) = not_null (wrap_bool (and_body (eb row l) (eb row r))). Proof. reflexivity. Qed.
Lemma evn_NOr l r : evn row (NOr l r) = not_null (wrap_bool (or_body (eb row l) (eb row r))). Proof. reflexivity. Qed.
Lemma evn_NFun g a : evn row (NFun g a) = null_if_nil (obind (mapM (ev row) a) (call g)). Proof. reflexivity. Qed.
Lemma eb_NNum q : eb row (NNum q) = OVal (negb (qzero q)). Proof. reflexivity. Qed.
Lemma eb_NStr s : eb row (NStr s) = OVal (match s with [] => false | _ => true end). Proof. reflexivity. Qed.
Lemma eb_NField f : eb row (NField f) = match xlookup row f with Some v => OVal (to_bool v) | None => OVal false end. Proof. reflexivity. Qed.
Lemma eb_NParen e : eb row (NParen e) = eb row e. Proof. reflexivity. Qed.
Lemma eb_NBin o l r : eb row (NBin o l r) = OErr. Proof. reflexivity. Qed.
Lemma eb_NCmp c l r : eb row (NCmp c l r) = cmp_body c (ev row l) (ev row r). Proof. reflexivity. Qed.
Lemma eb_NAnd l r : eb row (NAnd l r) = and_body (eb row l) (eb row r). Proof. reflexivity. Qed.
Lemma eb_NOr l r : eb row (NOr l r) = or_body (eb row l) (eb row r). Proof. reflexivity. Qed.
Lemma eb_NFun g a : eb row (NFun g a) = obind (obind (mapM (ev row) a) (call g)) (fun v => OVal (to_bool v)). Proof. reflexivity. Qed.
Hint Rewrite ev_NNum ev_NStr ev_NField ev_NParen ev_NBin ev_NCmp ev_NAnd ev_NOr ev_NFun
  evn_NNum evn_NStr evn_NField evn_NParen evn_NBin evn_NCmp evn_NAnd evn_NOr evn_NFun
  eb_NNum eb_NStr eb_NField eb_NParen eb_NBin eb_NCmp eb_NAnd eb_NOr eb_NFun : evdb.
Ltac sev := simpl; autorewrite with evdb.
(* ---- parentheses are transparent to every evaluator ---- *)
Lemma elab_cases : forall p e, elab p e = elab 0 e \/ elab p e = NParen (elab 0 e).
Proof.
  intros p e. destruct e; try destruct o; simpl; destruct (Nat.leb p _); auto.
Qed.

Lemma ev_elab : forall p e, ev row (elab (S p) e) = ev row (elab 0 e).
Proof. intros p e. destruct (elab_cases (S p) e) as [H|H]; rewrite H; reflexivity. Qed.
Lemma evn_elab : forall p e, evn row (elab (S p) e) = evn row (elab 0 e).
Proof. intros p e. destruct (elab_cases (S p) e) as [H|H]; rewrite H; reflexivity. Qed.
Lemma eb_elab : forall p e, eb row (elab (S p) e) = eb row (elab 0 e).
Proof. intros p e. destruct (elab_cases (S p) e) as [H|H]; rewrite H; reflexivity. Qed.
Lemma en_elab : forall p e, en row (elab (S p) e) = en row (elab 0 e).
Proof. intros p e. destruct (elab_cases (S p) e) as [H|H]; rewrite H; reflexivity. Qed.
Lemma enn_elab : forall p e, enn row (elab (S p) e) = enn row (elab 0 e).
Proof. intros p e. destruct (elab_cases (S p) e) as [H|H]; rewrite H; reflexivity. Qed.

(* ---- compareValues decides the reference comparison ---- *)
Lemma looks_numeric_false : forall s, looks_numeric s = false -> parse_dec s = None.
Proof. unfold looks_numeric. intros s. destruct (parse_dec s); congruence. Qed.

Lemma cmp_values_sem : forall c a b t, sem_cmp c a b = Some t -> cmp_values c a b = XOk t.
Proof.
  intros c a b t H.
  destruct a as [|qa|sa|ba], b as [|qb|sb|bb]; simpl in H; try discriminate; try (inversion H; subst; reflexivity).
  destruct (looks_numeric sa) eqn:Ea; [discriminate|].
  destruct (looks_numeric sb) eqn:Eb; [discriminate|].
  simpl in H. inversion H; subst.
  unfold cmp_values. sev.
  rewrite (looks_numeric_false _ Ea), (looks_numeric_false _ Eb). reflexivity.
Qed.

Lemma sem_arith_arith : forall o a b q, sem_arith o a b = Some q -> arith o a b = OVal q.
Proof. unfold sem_arith. intros o a b q. destruct (arith o a b); congruence. Qed.

Definition value_of (x : xvalue) (n : bool) : xvalue := if n then VNull else x.

(* one arithmetic operand as evaluateNodeValueWithNull returns it, against its reference value *)
Definition operand_ok (r : xout (xvalue * bool)) (v : xvalue) : Prop :=
  exists x n, r = OVal (x, n) /\ value_of x n = v.

Lemma bin_body_sem : forall o ra rb va vb v,
  operand_ok ra va -> operand_ok rb vb ->
  match va, vb with
  | VNull, (VNull | VNum _) | VNum _, VNull => Some VNull
  | VNum a, VNum b => option_map VNum (sem_arith o a b)
  | _, _ => None
  end = Some v ->
  bin_body o ra rb = OVal v.
Proof.
  intros o ra rb va vb v (xa & na & Ha & Hva) (xb & nb & Hb & Hvb) H. subst ra rb.
  unfold bin_body, obind. sev.
  destruct va as [|qa| |]; try discriminate.
  - (* left NULL *)
    assert (E : na || nb || is_vnull xa || is_vnull xb = true).
    { unfold value_of in Hva. destruct na; sev; [reflexivity|]. subst xa. sev.
      destruct nb; reflexivity. }
    rewrite E. destruct vb; try discriminate; inversion H; reflexivity.
  - destruct vb as [|qb| |]; try discriminate.
    + assert (E : na || nb || is_vnull xa || is_vnull xb = true).
      { unfold value_of in Hvb. destruct nb; sev.
        - destruct na; reflexivity.
        - subst xb. destruct na; sev; [reflexivity|]. destruct (is_vnull xa); reflexivity. }
      rewrite E. inversion H; reflexivity.
    + unfold value_of in Hva, Hvb. destruct na; [discriminate|]. destruct nb; [discriminate|]. subst xa xb.
      sev. destruct (sem_arith o qa qb) as [q|] eqn:Eq; simpl in H; [|discriminate].
      inversion H; subst. rewrite (sem_arith_arith _ _ _ _ Eq). reflexivity.
Qed.

(* arguments of a call *)
Lemma args_sem : forall args vs,
  Forall (fun e => forall v, sem row e = Some v -> cols_ok row Strict e = true -> ev row (elab 0 e) = OVal v) args ->
  omapM (sem row) args = Some vs ->
  forallb (cols_ok row Strict) args = true ->
  mapM (ev row) (map (elab 0) args) = OVal vs.
Proof.
  induction args as [|a args IH]; intros vs HF Hs Hc; simpl in *.
  - inversion Hs; reflexivity.
  - inversion HF as [|? ? Ha HF']; subst.
    destruct (sem row a) as [va|] eqn:Ea; [|discriminate].
    destruct (omapM (sem row) args) as [vs'|] eqn:Eas; [|discriminate].
    inversion Hs; subst.
    apply andb_prop in Hc. destruct Hc as [Hc1 Hc2].
    rewrite (Ha _ eq_refl Hc1). sev. rewrite (IH _ HF' eq_refl Hc2). reflexivity.
Qed.

(* ---- the evaluators compute the reference value ---- *)
Definition agree (e : xexpr) : Prop :=
  (forall v, sem row e = Some v -> cols_ok row Strict e = true -> ev row (elab 0 e) = OVal v)
  /\ (forall v, sem row e = Some v -> cols_ok row Lax e = true -> operand_ok (evn row (elab 0 e)) v)
  /\ (forall v b, sem row e = Some v -> as_bool v = Some b -> is_cond e = true ->
                  cols_ok row Lax e = true -> eb row (elab 0 e) = OVal b).

Lemma evn_ebin : forall o l r, evn row (elab 0 (EBin o l r)) = not_null (ev row (elab 0 (EBin o l r))).
Proof. intros o l r. destruct o; reflexivity. Qed.

Lemma not_null_ok : forall r v, r = OVal v -> operand_ok (not_null r) v.
Proof. intros r v ->. exists v, false. split; reflexivity. Qed.

Lemma agree_all : forall e, agree e.
Proof.
  induction e using xexpr_ind'; unfold agree.
  - (* ENum *) sev. repeat split.
    + intros v H _. inversion H; reflexivity.
    + intros v H _. inversion H; subst. exists (VNum q), false. split; reflexivity.
    + intros v b H Hb Hc. discriminate.
  - (* EStr *) sev. repeat split.
    + intros v H _. inversion H; reflexivity.
    + intros v H _. inversion H; subst. exists (VStr s), false. split; reflexivity.
    + intros v b H Hb Hc. discriminate.
  - (* ECol *) sev. repeat split.
    + intros v H Hc. destruct (xlookup row s) as [x|]; [inversion H; reflexivity|discriminate].
    + intros v H _. destruct (xlookup row s) as [x|]; inversion H; subst.
      * destruct v; [exists VNull, true|eexists _, false|eexists _, false|eexists _, false]; split; reflexivity.
      * exists VNull, true. split; reflexivity.
    + intros v b H Hb _ _. destruct (xlookup row s) as [x|]; inversion H; subst.
      * destruct v; simpl in Hb; try discriminate; inversion Hb; reflexivity.
      * simpl in Hb. inversion Hb; reflexivity.
  - (* ENeg *)
    destruct IHe as (_ & IHB & _).
    assert (A : forall v, sem row (ENeg e) = Some v -> cols_ok row Lax e = true ->
                          ev row (elab 0 (ENeg e)) = OVal v).
    { intros v H Hc. simpl in H. sev. rewrite evn_elab.
      destruct (sem row e) as [sv|] eqn:Es; [|discriminate].
      apply (bin_body_sem OSub _ _ (VNum zeroQ) sv v).
      - exists (VNum zeroQ), false. split; reflexivity.
      - apply IHB; auto.
      - destruct sv; try discriminate; sev; auto. }
    repeat split.
    + intros v H Hc. apply A; auto.
    + intros v H Hc. apply not_null_ok. apply (A v H Hc).
    + intros v b H Hb Hcond. discriminate.
  - (* EBin *)
    destruct IHe1 as (_ & IHB1 & _). destruct IHe2 as (_ & IHB2 & _).
    assert (A : forall v, sem row (EBin o e1 e2) = Some v -> cols_ok row Lax e1 && cols_ok row Lax e2 = true ->
                          ev row (elab 0 (EBin o e1 e2)) = OVal v).
    { intros v H Hc. apply andb_prop in Hc. destruct Hc as [Hc1 Hc2]. simpl in H.
      destruct (sem row e1) as [v1|] eqn:E1; [|discriminate].
      destruct (sem row e2) as [v2|] eqn:E2; [|destruct v1; discriminate].
      assert (O1 := IHB1 _ eq_refl Hc1). assert (O2 := IHB2 _ eq_refl Hc2).
      destruct o; sev; rewrite ?evn_elab;
        apply (bin_body_sem _ _ _ v1 v2 v); auto;
        destruct v1; try discriminate; destruct v2; try discriminate; auto. }
    repeat split.
    + intros v H Hc. apply A; auto.
    + intros v H Hc. rewrite evn_ebin. apply not_null_ok. apply (A v H Hc).
    + intros v b H Hb Hcond. discriminate.
  - (* ECmp *)
    destruct IHe1 as (IHA1 & _ & _). destruct IHe2 as (IHA2 & _ & _).
    assert (A : forall t, sem row (ECmp c e1 e2) = Some (VBool t) -> cols_ok row Strict e1 && cols_ok row Strict e2 = true ->
                          cmp_body c (ev row (elab 3 e1)) (ev row (elab 3 e2)) = OVal t).
    { intros t H Hc. apply andb_prop in Hc. destruct Hc as [Hc1 Hc2]. simpl in H.
      destruct (sem row e1) as [v1|] eqn:E1; [|discriminate].
      destruct (sem row e2) as [v2|] eqn:E2; [|discriminate].
      destruct (sem_cmp c v1 v2) as [t'|] eqn:Et; simpl in H; [|discriminate]. inversion H; subst t'.
      rewrite !ev_elab, (IHA1 _ eq_refl Hc1), (IHA2 _ eq_refl Hc2). unfold cmp_body. sev.
      rewrite (cmp_values_sem _ _ _ _ Et). reflexivity. }
    assert (V : forall v, sem row (ECmp c e1 e2) = Some v -> exists t, v = VBool t).
    { intros v H. simpl in H. destruct (sem row e1); [|discriminate]. destruct (sem row e2); [|discriminate].
      destruct (sem_cmp c x x0); simpl in H; inversion H. eexists; reflexivity. }
    repeat split.
    + intros v H Hc. destruct (V v H) as [t ->]. sev. rewrite (A t H Hc). reflexivity.
    + intros v H Hc. destruct (V v H) as [t ->]. sev. apply not_null_ok. rewrite (A t H Hc). reflexivity.
    + intros v b H Hb _ Hc. destruct (V v H) as [t ->]. simpl in Hb. inversion Hb; subst. sev. apply (A b H Hc).
  - (* EAnd *)
    destruct IHe1 as (_ & _ & IHC1). destruct IHe2 as (_ & _ & IHC2).
    assert (A : forall v, sem row (EAnd e1 e2) = Some v -> cols_ok row Lax e1 && cols_ok row Lax e2 = true ->
                 exists t, v = VBool t /\ and_body (eb row (elab 1 e1)) (eb row (elab 2 e2)) = OVal t).
    { intros v H Hc. apply andb_prop in Hc. destruct Hc as [Hc1 Hc2]. simpl in H.
      destruct (is_cond e1 && is_cond e2) eqn:Ec; [|discriminate]. apply andb_prop in Ec. destruct Ec as [Ec1 Ec2].
      destruct (sem row e1) as [v1|] eqn:E1; [|discriminate].
      destruct (sem row e2) as [v2|] eqn:E2; [|discriminate].
      destruct (as_bool v1) as [x|] eqn:B1; [|discriminate].
      destruct (as_bool v2) as [y|] eqn:B2; [|discriminate].
      inversion H; subst. exists (x && y). split; [reflexivity|].
      rewrite !eb_elab, (IHC1 _ _ eq_refl B1 Ec1 Hc1), (IHC2 _ _ eq_refl B2 Ec2 Hc2).
      unfold and_body. sev. destruct x; reflexivity. }
    repeat split.
    + intros v H Hc. destruct (A v H Hc) as (t & -> & Ht). sev. rewrite Ht. reflexivity.
    + intros v H Hc. destruct (A v H Hc) as (t & -> & Ht). sev. apply not_null_ok. rewrite Ht. reflexivity.
    + intros v b H Hb _ Hc. destruct (A v H Hc) as (t & -> & Ht). simpl in Hb. inversion Hb; subst. sev. exact Ht.
  - (* EOr *)
    destruct IHe1 as (_ & _ & IHC1). destruct IHe2 as (_ & _ & IHC2).
    assert (A : forall v, sem row (EOr e1 e2) = Some v -> cols_ok row Lax e1 && cols_ok row Lax e2 = true ->
                 exists t, v = VBool t /\ or_body (eb row (elab 0 e1)) (eb row (elab 1 e2)) = OVal t).
    { intros v H Hc. apply andb_prop in Hc. destruct Hc as [Hc1 Hc2]. simpl in H.
      destruct (is_cond e1 && is_cond e2) eqn:Ec; [|discriminate]. apply andb_prop in Ec. destruct Ec as [Ec1 Ec2].
      destruct (sem row e1) as [v1|] eqn:E1; [|discriminate].
      destruct (sem row e2) as [v2|] eqn:E2; [|discriminate].
      destruct (as_bool v1) as [x|] eqn:B1; [|discriminate].
      destruct (as_bool v2) as [y|] eqn:B2; [|discriminate].
      inversion H; subst. exists (x || y). split; [reflexivity|].
      rewrite !eb_elab, (IHC1 _ _ eq_refl B1 Ec1 Hc1), (IHC2 _ _ eq_refl B2 Ec2 Hc2).
      unfold or_body. sev. destruct x; reflexivity. }
    repeat split.
    + intros v H Hc. destruct (A v H Hc) as (t & -> & Ht). sev. rewrite Ht. reflexivity.
    + intros v H Hc. destruct (A v H Hc) as (t & -> & Ht). sev. apply not_null_ok. rewrite Ht. reflexivity.
    + intros v b H Hb _ Hc. destruct (A v H Hc) as (t & -> & Ht). simpl in Hb. inversion Hb; subst. sev. exact Ht.
  - (* ECall *)
    assert (A : forall v, sem row (ECall g args) = Some v -> forallb (cols_ok row Strict) args = true ->
                          obind (mapM (ev row) (map (elab 0) args)) (call g) = OVal v).
    { intros v Hs Hc. simpl in Hs.
      destruct (omapM (sem row) args) as [vs|] eqn:Ea; [|discriminate].
      rewrite (args_sem args vs); auto.
      - sev. unfold call. destruct (fn_call g vs); inversion Hs; reflexivity.
      - eapply Forall_impl; [|exact H]. intros a (Ha & _). exact Ha. }
    repeat split.
    + intros v Hs Hc. sev. apply A; auto.
    + intros v Hs Hc. sev. rewrite (A v Hs Hc). sev.
      exists v, (match v with VNull => true | _ => false end). split; [reflexivity|].
      destruct v; reflexivity.
    + intros v b Hs Hb Hcond. discriminate.
  - (* EParen *)
    destruct IHe as (IHA & IHB & IHC). repeat split.
    + intros v H Hc. sev. apply IHA; auto.
    + intros v H Hc. sev. apply IHB; auto.
    + intros v b H Hb Hcond Hc. sev. apply IHC with v; auto.
Qed.

(* SELECT path (EvaluateValueWithNull) *)
Theorem evn_agrees_sem : forall e v,
  sem row e = Some v -> cols_ok row Lax e = true ->
  select_value (evn row (elab 0 e)) = Some v.
Proof.
  intros e v H Hc. destruct (agree_all e) as (_ & B & _).
  destruct (B v H Hc) as (x & n & -> & <-). reflexivity.
Qed.

(* conditions (EvaluateBool, CASE WHEN) *)
Theorem eb_agrees_sem : forall e v b,
  sem row e = Some v -> as_bool v = Some b -> is_cond e = true -> cols_ok row Lax e = true ->
  eb row (elab 0 e) = OVal b.
Proof. intros e v b H Hb Hcond Hc. destruct (agree_all e) as (_ & _ & C). eapply C; eauto. Qed.

(* ---- searched CASE ---- *)
Lemma case_search_n_sem : forall ws els v,
  sem_case row ws els = Some v ->
  forallb (fun w => cols_ok row Lax (fst w) && cols_ok row Lax (snd w)) ws = true ->
  match els with Some x => cols_ok row Lax x | None => true end = true ->
  select_value (case_search_n row (map (fun w => (elab 0 (fst w), elab 0 (snd w))) ws) (option_map (elab 0) els)) = Some v.
Proof.
  induction ws as [|[c x] ws IH]; intros els v H Hc He; simpl in *.
  - destruct els as [e|]; sev.
    + apply evn_agrees_sem; auto.
    + inversion H; reflexivity.
  - apply andb_prop in Hc. destruct Hc as [Hc1 Hc2]. apply andb_prop in Hc1. destruct Hc1 as [Hcc Hcx].
    destruct (is_cond c) eqn:Ec; simpl in H; [|discriminate].
    destruct (sem row c) as [vc|] eqn:Es; [|discriminate].
    destruct (as_bool vc) as [t|] eqn:Eb; [|discriminate].
    rewrite (eb_agrees_sem c vc t Es Eb Ec Hcc). sev.
    destruct t.
    + apply evn_agrees_sem; auto.
    + apply IH; auto.
Qed.

Theorem top_agrees_sem : forall t v,
  sem_top row t = Some v -> cols_ok_top row t = true ->
  select_value (top_value_null row (xelab t)) = Some v.
Proof.
  intros [e|cv ws els] v H Hc; simpl in *.
  - apply evn_agrees_sem; auto.
  - destruct cv as [x|]; [discriminate|]. sev.
    apply andb_prop in Hc. destruct Hc as [Hc He]. simpl in Hc.
    apply case_search_n_sem; auto.
Qed.

(* CASE returns the first branch whose condition is true, else ELSE, else NULL — code level, no typing
   hypothesis: it holds whenever every condition evaluates without an error *)
Fixpoint first_true (ws : list (xnode * xnode)) : option xnode :=
  match ws with
  | [] => None
  | (c, x) :: ws' => match eb row c with OVal true => Some x | _ => first_true ws' end
  end.

Theorem case_first_true : forall ws els,
  Forall (fun w => exists b, eb row (fst w) = OVal b) ws ->
  case_search_n row ws els =
  match first_true ws with
  | Some x => evn row x
  | None => match els with Some e => evn row e | None => OVal (VNull, true) end
  end.
Proof.
  induction ws as [|[c x] ws IH]; intros els HF; sev.
  - reflexivity.
  - inversion HF as [|? ? (b & Hb) HF']; subst. simpl in Hb. rewrite Hb. sev.
    destruct b; [reflexivity|]. apply IH; auto.
Qed.

(* ---- NULL rules, code level (no typing hypothesis) ---- *)
(* an arithmetic expression over columns, numbers and parentheses *)
Fixpoint arith_only (e : xexpr) : bool :=
  match e with
  | ENum _ | ECol _ => true
  | ENeg x | EParen x => arith_only x
  | EBin _ l r => arith_only l && arith_only r
  | _ => false
  end.
(* mentions a column that is NULL or missing in the row *)
Fixpoint has_null_col (e : xexpr) : bool :=
  match e with
  | ECol c => match xlookup row c with None | Some VNull => true | _ => false end
  | ENeg x | EParen x => has_null_col x
  | EBin _ l r => has_null_col l || has_null_col r
  | _ => false
  end.

Definition nullish (r : xout (xvalue * bool)) : Prop :=
  r = OErr \/ r = OUnm \/ (exists x n, r = OVal (x, n) /\ value_of x n = VNull).

Lemma bin_body_nullish : forall o ra rb,
  (nullish ra \/ nullish rb) ->
  (exists p, rb = OVal p) \/ rb = OErr \/ rb = OUnm ->
  bin_body o ra rb = OErr \/ bin_body o ra rb = OUnm \/ bin_body o ra rb = OVal VNull.
Proof.
  intros o ra rb H Hrb. unfold bin_body, obind.
  destruct ra as [[xa na]| |]; auto.
  destruct rb as [[xb nb]| |]; auto.
  destruct H as [H|H]; destruct H as [H|[H|(x & n & H & Hv)]]; try discriminate; inversion H; subst; sev.
  - unfold value_of in Hv. destruct n; sev; auto. subst x. sev. destruct nb; auto.
  - unfold value_of in Hv. destruct n; sev.
    + destruct na; auto.
    + subst x. sev. destruct na; sev; auto. destruct (is_vnull xa); auto.
Qed.

Lemma out_cases : forall A (r : xout A), (exists p, r = OVal p) \/ r = OErr \/ r = OUnm.
Proof. intros A [a| |]; eauto. Qed.

Lemma evn_null_col : forall e, arith_only e = true -> has_null_col e = true -> nullish (evn row (elab 0 e)).
Proof.
  induction e using xexpr_ind'; intros Ha Hn; simpl in *; autorewrite with evdb; try discriminate.
  - (* ECol *) right; right. destruct (xlookup row s) as [v|]; [destruct v; try discriminate|];
      exists VNull, true; split; reflexivity.
  - (* ENeg *) rewrite evn_elab.
    pose proof (bin_body_nullish OSub (OVal (VNum zeroQ, false)) (evn row (elab 0 e))
                  (or_intror (IHe Ha Hn)) (out_cases _ _)) as [E|[E|E]];
      unfold nullish; rewrite E; unfold not_null, obind; auto.
    right; right. exists VNull, false. split; reflexivity.
  - (* EBin *) apply andb_prop in Ha. destruct Ha as [Ha1 Ha2].
    assert (N : nullish (evn row (elab 0 e1)) \/ nullish (evn row (elab 0 e2))).
    { apply orb_prop in Hn. destruct Hn; auto. }
    assert (G : forall l r, evn row l = evn row (elab 0 e1) -> evn row r = evn row (elab 0 e2) ->
                nullish (not_null (bin_body o (evn row l) (evn row r)))).
    { intros l r -> ->.
      destruct (bin_body_nullish o _ _ N (out_cases _ _)) as [E|[E|E]]; unfold nullish; rewrite E;
        unfold not_null, obind; auto.
      right; right. exists VNull, false. split; reflexivity. }
    destruct o; simpl; rewrite evn_NBin; apply G; apply evn_elab.
  - (* EParen *) auto.
Qed.

(* a NULL or missing column makes an arithmetic expression NULL at the SELECT level *)
Theorem null_propagates : forall e r,
  arith_only e = true -> has_null_col e = true ->
  select_value (evn row (elab 0 e)) = Some r -> r = VNull.
Proof.
  intros e r Ha Hn H. destruct (evn_null_col e Ha Hn) as [E|[E|(x & n & E & Hv)]]; rewrite E in H; simpl in H.
  - inversion H; reflexivity.
  - discriminate.
  - inversion H; subst. exact Hv.
Qed.

(* ... and a comparison with such an operand is never true *)
Lemma ev_null_col : forall e, arith_only e = true -> has_null_col e = true ->
  ev row (elab 0 e) = OErr \/ ev row (elab 0 e) = OUnm \/ ev row (elab 0 e) = OVal VNull.
Proof.
  induction e using xexpr_ind'; intros Ha Hn; simpl in *; autorewrite with evdb; try discriminate.
  - destruct (xlookup row s) as [v|]; [destruct v; try discriminate|]; auto.
  - rewrite evn_elab. apply bin_body_nullish; auto using out_cases. right. apply evn_null_col; auto.
  - apply andb_prop in Ha. destruct Ha as [Ha1 Ha2].
    assert (N : nullish (evn row (elab 0 e1)) \/ nullish (evn row (elab 0 e2))).
    { apply orb_prop in Hn. destruct Hn; [left|right]; apply evn_null_col; auto. }
    destruct o; simpl; rewrite ?ev_NBin, ?evn_elab; apply bin_body_nullish; auto using out_cases.
  - auto.
Qed.

Lemma cmp_values_null_l : forall c v, cmp_values c VNull v = XOk false.
Proof. intros c v. destruct v; reflexivity. Qed.
Lemma cmp_values_null_r : forall c v, cmp_values c v VNull = XOk false.
Proof. intros c v. destruct v; reflexivity. Qed.

Theorem cmp_null_not_true : forall c l r,
  (arith_only l = true /\ has_null_col l = true) \/ (arith_only r = true /\ has_null_col r = true) ->
  eb row (elab 0 (ECmp c l r)) <> OVal true.
Proof.
  intros c l r H. sev. rewrite !ev_elab. unfold cmp_body, obind.
  destruct H as [[Ha Hn]|[Ha Hn]].
  - destruct (ev_null_col l Ha Hn) as [E|[E|E]]; rewrite E; try discriminate.
    destruct (ev row (elab 0 r)); try discriminate.
  - destruct (ev row (elab 0 l)); try discriminate.
    destruct (ev_null_col r Ha Hn) as [E|[E|E]]; rewrite E; try discriminate.
    rewrite cmp_values_null_r. discriminate.
Qed.

End WithRow.
