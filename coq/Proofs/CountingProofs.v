(* Proofs about Model/Counting.v, for every threshold n >= 1 and every Add sequence (every
   interleaving of keys): the batches cut for a key are a function of that key's subsequence
   alone (key isolation), the i-th of them is rows i*n+1 .. (i+1)*n of the subsequence, a
   trailing partial group is never emitted, and emitted + still buffered rows are exactly the
   rows added (nothing lost, nothing duplicated). *)
From Coq Require Import Lia Permutation.
From SV Require Import Model.GroupKey Model.Counting Proofs.GroupKeyProofs.

(* ---- keyed buffers ------------------------------------------------------------------------ *)
Lemma buf_get_set_same : forall st k v, cw_buf_get (cw_buf_set st k v) k = v.
Proof.
  induction st as [|[k0 b0] st IH]; simpl; intros k v.
  - rewrite bytes_eqb_refl. reflexivity.
  - destruct (bytes_eqb k k0) eqn:E; simpl; rewrite E; auto.
Qed.

Lemma buf_get_set_other : forall st k v k', k' <> k -> cw_buf_get (cw_buf_set st k v) k' = cw_buf_get st k'.
Proof.
  induction st as [|[k0 b0] st IH]; simpl; intros k v k' Hne.
  - apply bytes_eqb_neq in Hne. rewrite Hne. reflexivity.
  - destruct (bytes_eqb k k0) eqn:E; simpl.
    + apply bytes_eqb_iff in E. subst k0.
      apply bytes_eqb_neq in Hne. rewrite Hne. reflexivity.
    + destruct (bytes_eqb k' k0); auto.
Qed.

(* ---- the cut -------------------------------------------------------------------------------- *)
Definition fired_rows (f : option (list krow)) : list krow := match f with Some d => d | None => [] end.

Lemma cut_app : forall n b rest f, cw_cut n b = (rest, f) -> fired_rows f ++ rest = b.
Proof.
  unfold cw_cut. intros n b rest f H.
  destruct (n <=? length b) eqn:E1.
  - destruct (n <? length b) eqn:E2; injection H as <- <-; simpl.
    + apply firstn_skipn.
    + apply Nat.leb_le in E1. apply Nat.ltb_ge in E2.
      rewrite app_nil_r. apply firstn_all2. lia.
  - injection H as <- <-. reflexivity.
Qed.

(* below the threshold before the row: either exactly n rows fire and nothing remains, or
   nothing fires and the buffer stays below the threshold *)
Lemma cut_small : forall n buf r, length buf < n ->
  (length (buf ++ [r]) = n /\ cw_cut n (buf ++ [r]) = ([], Some (buf ++ [r])))
  \/ (length (buf ++ [r]) < n /\ cw_cut n (buf ++ [r]) = (buf ++ [r], None)).
Proof.
  intros n buf r L. unfold cw_cut. rewrite app_length in *. simpl in *.
  destruct (n <=? length buf + 1) eqn:E1.
  - apply Nat.leb_le in E1. left. split; [lia|].
    assert (E2 : (n <? length buf + 1) = false) by (apply Nat.ltb_ge; lia).
    rewrite E2. f_equal. f_equal. apply firstn_all2. rewrite app_length. simpl. lia.
  - apply Nat.leb_gt in E1. right. split; [lia|reflexivity].
Qed.

Section Counting.
  Variable key : krow -> bytes.
  Variable n : nat.

  (* the window of ONE key: what c_add does to the buffer of k, on k's rows only *)
  Fixpoint run1 (k : bytes) (buf : list krow) (l : list krow) : list (bytes * list krow) :=
    match l with
    | [] => []
    | r :: l' =>
        let (rest, f) := cw_cut n (buf ++ [r]) in
        match f with
        | Some d => (k, d) :: run1 k rest l'
        | None => run1 k rest l'
        end
    end.

  Let proj (k : bytes) (out : list (bytes * list krow)) := filter (fun b => bytes_eqb (fst b) k) out.
  Let sub (k : bytes) (h : list krow) := filter (fun r => bytes_eqb (key r) k) h.

  Lemma c_run_proj : forall h st k,
    proj k (snd (cw_steps key n st h)) = run1 k (cw_buf_get st k) (sub k h).
  Proof.
    induction h as [|r h IH]; intros st k; simpl; [reflexivity|].
    destruct (cw_add key n st r) as [st1 o1] eqn:E1.
    destruct (cw_steps key n st1 h) as [st2 o2] eqn:E2. simpl.
    unfold proj. rewrite filter_app. fold (proj k o1) (proj k o2).
    specialize (IH st1 k). rewrite E2 in IH. simpl in IH. rewrite IH. clear IH E2.
    unfold cw_add in E1.
    destruct (cw_cut n (cw_buf_get st (key r) ++ [r])) as [rest f] eqn:EC.
    injection E1 as <- <-.
    destruct (bytes_eqb (key r) k) eqn:EK.
    - apply bytes_eqb_iff in EK. subst k. simpl. rewrite EC.
      rewrite buf_get_set_same.
      destruct f as [d|]; simpl; [rewrite bytes_eqb_refl|]; reflexivity.
    - assert (Hne : k <> key r) by (intro; subst; rewrite bytes_eqb_refl in EK; discriminate).
      rewrite buf_get_set_other by exact Hne.
      destruct f as [d|]; simpl; [rewrite EK|]; reflexivity.
  Qed.

  Lemma c_run_keys : forall h st b, In b (snd (cw_steps key n st h)) -> exists r, In r h /\ fst b = key r.
  Proof.
    induction h as [|r h IH]; intros st b; simpl; [contradiction|].
    destruct (cw_add key n st r) as [st1 o1] eqn:E1.
    destruct (cw_steps key n st1 h) as [st2 o2] eqn:E2. simpl.
    intro Hin. apply in_app_or in Hin. destruct Hin as [Hin|Hin].
    - unfold cw_add in E1. destruct (cw_cut n (cw_buf_get st (key r) ++ [r])) as [rest f].
      injection E1 as <- <-. destruct f as [d|]; [|contradiction].
      destruct Hin as [<-|[]]. exists r. auto.
    - specialize (IH st1 b). rewrite E2 in IH. destruct (IH Hin) as [r' [H1 H2]]. exists r'. auto.
  Qed.

  Lemma filter_all : forall (A : Type) (f : A -> bool) l, (forall x, In x l -> f x = true) -> filter f l = l.
  Proof.
    induction l as [|x l IH]; simpl; intro H; [reflexivity|].
    rewrite (H x) by auto. f_equal. apply IH. intros. apply H. auto.
  Qed.

  Lemma filter_idem : forall (A : Type) (f : A -> bool) l, filter f (filter f l) = filter f l.
  Proof.
    intros. apply filter_all. intros x Hx. apply filter_In in Hx. tauto.
  Qed.

  (* KEY ISOLATION: the batches of key k are what the window produces on k's rows alone *)
  Theorem key_isolation_gen : forall h k,
    proj k (snd (cw_steps key n [] h)) = snd (cw_steps key n [] (sub k h)).
  Proof.
    intros h k. rewrite c_run_proj. simpl.
    assert (H : proj k (snd (cw_steps key n [] (sub k h))) = snd (cw_steps key n [] (sub k h))).
    { apply filter_all. intros b Hb. apply c_run_keys in Hb. destruct Hb as [r [Hr ->]].
      unfold sub in Hr. apply filter_In in Hr. tauto. }
    rewrite <- H, c_run_proj. simpl. unfold sub. rewrite filter_idem. reflexivity.
  Qed.

  (* every row of a batch carries the key the batch was cut for *)
  Lemma c_run_rows_key : forall h st,
    (forall k r, In r (cw_buf_get st k) -> key r = k) ->
    (forall b r, In b (snd (cw_steps key n st h)) -> In r (snd b) -> key r = fst b)
    /\ (forall k r, In r (cw_buf_get (fst (cw_steps key n st h)) k) -> key r = k).
  Proof.
    induction h as [|r h IH]; intros st HI; simpl; [split; [contradiction|exact HI]|].
    destruct (cw_add key n st r) as [st1 o1] eqn:E1.
    destruct (cw_steps key n st1 h) as [st2 o2] eqn:E2. simpl.
    unfold cw_add in E1. destruct (cw_cut n (cw_buf_get st (key r) ++ [r])) as [rest f] eqn:EC.
    injection E1 as <- <-.
    assert (Hb : forall x, In x (cw_buf_get st (key r) ++ [r]) -> key x = key r).
    { intros x Hx. apply in_app_or in Hx. destruct Hx as [Hx|[<-|[]]]; auto. }
    apply cut_app in EC.
    assert (HI1 : forall k x, In x (cw_buf_get (cw_buf_set st (key r) rest) k) -> key x = k).
    { intros k x Hx. destruct (list_eq_dec N.eq_dec k (key r)) as [->|Hne].
      - rewrite buf_get_set_same in Hx. apply Hb. rewrite <- EC. apply in_or_app. auto.
      - rewrite buf_get_set_other in Hx by exact Hne. auto. }
    specialize (IH _ HI1). rewrite E2 in IH. simpl in IH. destruct IH as [IH1 IH2].
    split; [|exact IH2].
    intros b x Hin Hx. apply in_app_or in Hin. destruct Hin as [Hin|Hin]; [|eauto].
    destruct f as [d|]; [|contradiction]. destruct Hin as [<-|[]]. simpl in *.
    apply Hb. rewrite <- EC. apply in_or_app. auto.
  Qed.

  (* ---- closed form of the one-key window ---- *)
  Hypothesis Hn : 1 <= n.

  Lemma run1_nth : forall l k buf i, length buf < n ->
    nth_error (map snd (run1 k buf l)) i =
      if S i * n <=? length (buf ++ l) then Some (firstn n (skipn (i * n) (buf ++ l))) else None.
  Proof.
    induction l as [|r l IH]; intros k buf i L; simpl.
    - rewrite app_nil_r.
      assert (E : (n + i * n <=? length buf) = false) by (apply Nat.leb_gt; lia).
      rewrite E. destruct i; reflexivity.
    - destruct (cut_small n buf r L) as [[Lb ->]|[Lb ->]].
      + simpl. destruct i as [|i]; simpl.
        * assert (E : (n + 0 <=? length (buf ++ r :: l)) = true).
          { apply Nat.leb_le. rewrite app_length in *. simpl in *. lia. }
          rewrite E. f_equal.
          replace (buf ++ r :: l) with ((buf ++ [r]) ++ l) by (rewrite <- app_assoc; reflexivity).
          rewrite firstn_app, Lb, Nat.sub_diag. simpl. rewrite app_nil_r.
          symmetry. apply firstn_all2. lia.
        * rewrite (IH k [] i) by (simpl; lia). simpl.
          replace (buf ++ r :: l) with ((buf ++ [r]) ++ l) by (rewrite <- app_assoc; reflexivity).
          rewrite (app_length (buf ++ [r])), Lb.
          destruct (n + i * n <=? length l) eqn:E1.
          -- assert (E2 : (n + (n + i * n) <=? n + length l) = true) by (apply Nat.leb_le; apply Nat.leb_le in E1; lia).
             rewrite E2. f_equal. f_equal.
             rewrite skipn_app, Lb.
             rewrite (skipn_all2 (buf ++ [r])) by lia. simpl. f_equal. lia.
          -- assert (E2 : (n + (n + i * n) <=? n + length l) = false) by (apply Nat.leb_gt; apply Nat.leb_gt in E1; lia).
             rewrite E2. reflexivity.
      + rewrite (IH k (buf ++ [r]) i Lb). rewrite <- app_assoc. reflexivity.
  Qed.

  Lemma nth_closed_length : forall (L : list (list krow)) (l : list krow),
    (forall i, nth_error L i =
       if S i * n <=? length l then Some (firstn n (skipn (i * n) l)) else None) ->
    length L = length l / n /\ Forall (fun b => length b = n) L.
  Proof.
    intros L l H. split.
    - assert (A : forall i, length L <= i <-> length l / n <= i).
      { intro i. rewrite <- nth_error_None, H.
        destruct (S i * n <=? length l) eqn:E.
        - apply Nat.leb_le in E. split; [discriminate|]. intro D. exfalso.
          assert (S i <= length l / n) by (apply Nat.div_le_lower_bound; lia). lia.
        - apply Nat.leb_gt in E. split; [|reflexivity]. intros _.
          assert (length l / n < S i) by (apply Nat.div_lt_upper_bound; lia). lia. }
      apply Nat.le_antisymm; [apply A|apply A]; lia.
    - apply Forall_forall. intros b Hb. apply In_nth_error in Hb. destruct Hb as [i Hi].
      rewrite H in Hi. destruct (S i * n <=? length l) eqn:E; [|discriminate].
      injection Hi as <-. apply Nat.leb_le in E.
      rewrite firstn_length, skipn_length. lia.
  Qed.

  (* nothing lost, nothing duplicated: emitted rows + rows still buffered = rows added *)
  Definition all_rows (st : cw_state) : list krow := concat (map snd st).

  Lemma buf_split : forall st k, exists C,
    Permutation (all_rows st) (cw_buf_get st k ++ C)
    /\ forall v, Permutation (all_rows (cw_buf_set st k v)) (v ++ C).
  Proof.
    unfold all_rows.
    induction st as [|[k0 b0] st IH]; intro k; simpl.
    - exists []. split; [constructor|]. intro v. rewrite !app_nil_r. apply Permutation_refl.
    - destruct (bytes_eqb k k0) eqn:E; simpl.
      + exists (concat (map snd st)). split; [apply Permutation_refl|]. intro v. apply Permutation_refl.
      + destruct (IH k) as [C [H1 H2]]. exists (b0 ++ C). split.
        * rewrite H1. rewrite !app_assoc. apply Permutation_app_tail. apply Permutation_app_comm.
        * intro v. rewrite (H2 v). rewrite !app_assoc. apply Permutation_app_tail. apply Permutation_app_comm.
  Qed.

  Lemma c_add_conserves : forall st r st1 o1, cw_add key n st r = (st1, o1) ->
    Permutation (concat (map snd o1) ++ all_rows st1) (all_rows st ++ [r]).
  Proof.
    intros st r st1 o1 E. unfold cw_add in E.
    destruct (cw_cut n (cw_buf_get st (key r) ++ [r])) as [rest f] eqn:EC.
    injection E as <- <-. apply cut_app in EC.
    destruct (buf_split st (key r)) as [C [H1 H2]].
    rewrite (H2 rest), H1.
    assert (E : concat (map snd match f with Some d => [(key r, d)] | None => [] end) = fired_rows f).
    { destruct f; simpl; [apply app_nil_r|reflexivity]. }
    rewrite E, app_assoc, EC, <- !app_assoc.
    apply Permutation_app_head. apply Permutation_app_comm.
  Qed.

  Theorem c_run_conserves : forall h st,
    Permutation (concat (map snd (snd (cw_steps key n st h))) ++ all_rows (fst (cw_steps key n st h)))
                (all_rows st ++ h).
  Proof.
    induction h as [|r h IH]; intro st; simpl.
    - rewrite app_nil_r. apply Permutation_refl.
    - destruct (cw_add key n st r) as [st1 o1] eqn:E1.
      specialize (IH st1). destruct (cw_steps key n st1 h) as [st2 o2]. simpl in *.
      rewrite map_app, concat_app, <- app_assoc, IH.
      rewrite app_assoc, (c_add_conserves _ _ _ _ E1), <- app_assoc. reflexivity.
  Qed.
End Counting.

(* ---- the counting window as configured by SQL (keyed by getKey, started empty) ------------- *)
Lemma bool_eq_iff : forall a b : bool, (a = true <-> b = true) -> a = b.
Proof. intros [|] [|] H; auto; [symmetry|]; apply H; reflexivity. Qed.

Lemma sub_rows_of : forall sch h t, Forall (fun r => conforms sch (ktuple_of r)) h -> conforms sch t ->
  filter (fun r => bytes_eqb (cnt_key r) (tuple_key s_global t)) h = krows_of t h.
Proof.
  intros sch h t HC Ct. unfold krows_of. apply filter_ext_in. intros r Hr.
  apply bool_eq_iff. rewrite bytes_eqb_iff, ktuple_eqb_iff.
  rewrite Forall_forall in HC. specialize (HC r Hr).
  unfold cnt_key, win_key. split.
  - apply tuple_key_inj. eapply conforms_same_kind; eauto.
  - intros ->. reflexivity.
Qed.

Theorem counting_key_isolation : forall n h k,
  filter (fun b => bytes_eqb (fst b) k) (cw_run n h)
  = cw_run n (filter (fun r => bytes_eqb (cnt_key r) k) h).
Proof. intros. unfold cw_run. apply key_isolation_gen. Qed.

Theorem counting_ith_batch : forall n sch h t i, 1 <= n ->
  Forall (fun r => conforms sch (ktuple_of r)) h -> conforms sch t ->
  nth_error (kbatches_of (tuple_key s_global t) (cw_run n h)) i =
    if S i * n <=? length (krows_of t h)
    then Some (firstn n (skipn (i * n) (krows_of t h))) else None.
Proof.
  intros n sch h t i Hn HC Lt. unfold kbatches_of, cw_run.
  rewrite c_run_proj. simpl cw_buf_get.
  rewrite (sub_rows_of sch h t HC Lt).
  rewrite run1_nth by (simpl; lia). reflexivity.
Qed.

Theorem counting_no_partial : forall n sch h t, 1 <= n ->
  Forall (fun r => conforms sch (ktuple_of r)) h -> conforms sch t ->
  length (kbatches_of (tuple_key s_global t) (cw_run n h)) = length (krows_of t h) / n
  /\ Forall (fun b => length b = n) (kbatches_of (tuple_key s_global t) (cw_run n h)).
Proof.
  intros n sch h t Hn HC Lt. apply nth_closed_length; [exact Hn|].
  intro i. apply (counting_ith_batch n sch h t i Hn HC Lt).
Qed.

Theorem counting_batch_one_tuple : forall n h k rs r,
  In (k, rs) (cw_run n h) -> In r rs -> k = cnt_key r.
Proof.
  intros n h k rs r Hin Hr. unfold cw_run in Hin.
  destruct (c_run_rows_key cnt_key n h []) as [H _]; [intros ? ? []|].
  symmetry. apply (H (k, rs) r Hin Hr).
Qed.

Lemma NoDup_app_left : forall (A : Type) (a b : list A), NoDup (a ++ b) -> NoDup a.
Proof.
  induction a as [|x a IH]; simpl; intros b H; [constructor|].
  inversion H as [|? ? Hx H']; subst. constructor.
  - intro Hin. apply Hx. apply in_or_app. left. exact Hin.
  - eapply IH. exact H'.
Qed.

Theorem counting_once : forall n h,
  NoDup (map krid h) -> NoDup (map krid (concat (map snd (cw_run n h)))).
Proof.
  intros n h ND. unfold cw_run.
  assert (P := c_run_conserves cnt_key n h []). simpl in P.
  apply (Permutation_map krid) in P. rewrite map_app in P.
  apply Permutation_sym in P. apply (Permutation_NoDup P) in ND.
  apply NoDup_app_left in ND. exact ND.
Qed.

Theorem counting_conservation : forall n h,
  Permutation (concat (map snd (cw_run n h)) ++ all_rows (fst (cw_steps cnt_key n [] h))) h.
Proof. intros n h. apply (c_run_conserves cnt_key n h []). Qed.

(* ---- the checker's declarative N-blocks (Spec/GroupSpec.v [chunks]) are the closed form ------ *)
From SV Require Import Spec.GroupSpec.

Lemma skipn_add : forall (A : Type) a b (l : list A), skipn (a + b) l = skipn b (skipn a l).
Proof.
  induction a as [|a IH]; intros b l; simpl; [reflexivity|].
  destruct l as [|x l]; [destruct b; reflexivity|apply IH].
Qed.

Lemma chunks_nth : forall fuel n l i, 1 <= n -> length l <= fuel ->
  nth_error (chunks fuel n l) i =
    if S i * n <=? length l then Some (firstn n (skipn (i * n) l)) else None.
Proof.
  induction fuel as [|f IH]; intros n l i Hn L; simpl.
  - assert (E : (n + i * n <=? length l) = false) by (apply Nat.leb_gt; lia).
    rewrite E. destruct i; reflexivity.
  - destruct (n <=? length l) eqn:E0.
    + apply Nat.leb_le in E0. destruct i as [|i]; simpl.
      * assert (E : (n + 0 <=? length l) = true) by (apply Nat.leb_le; lia). rewrite E. reflexivity.
      * rewrite IH by (try rewrite skipn_length; lia). rewrite skipn_length. simpl.
        rewrite skipn_add.
        destruct (n + i * n <=? length l - n) eqn:E1.
        -- assert (E2 : (n + (n + i * n) <=? length l) = true) by (apply Nat.leb_le; apply Nat.leb_le in E1; lia).
           rewrite E2. reflexivity.
        -- assert (E2 : (n + (n + i * n) <=? length l) = false) by (apply Nat.leb_gt; apply Nat.leb_gt in E1; lia).
           rewrite E2. reflexivity.
    + apply Nat.leb_gt in E0.
      assert (E : (n + i * n <=? length l) = false) by (apply Nat.leb_gt; lia).
      rewrite E. destruct i; reflexivity.
Qed.

Lemma nth_error_eq_ext : forall (A : Type) (a b : list A),
  (forall i, nth_error a i = nth_error b i) -> a = b.
Proof.
  induction a as [|x a IH]; destruct b as [|y b]; intro H; auto.
  - specialize (H 0). discriminate H.
  - specialize (H 0). discriminate H.
  - assert (H0 := H 0). simpl in H0. injection H0 as ->. f_equal.
    apply IH. intro i. exact (H (S i)).
Qed.

(* what the checker expects for a key (clause ith_batch) is exactly what the model delivers *)
Theorem counting_matches_spec_blocks : forall n sch h t, 1 <= n ->
  Forall (fun r => conforms sch (ktuple_of r)) h -> conforms sch t ->
  map (map krid) (kbatches_of (tuple_key s_global t) (cw_run n h))
  = let ids := map krid (krows_of t h) in chunks (length ids) n ids.
Proof.
  intros n sch h t Hn HC Lt. simpl. apply nth_error_eq_ext. intro i.
  rewrite nth_error_map, (counting_ith_batch n sch h t i Hn HC Lt).
  rewrite chunks_nth by (auto; lia). rewrite map_length.
  destruct (S i * n <=? length (krows_of t h)); simpl; [|reflexivity].
  rewrite skipn_map, firstn_map. reflexivity.
Qed.
