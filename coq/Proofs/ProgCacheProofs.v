(* C05 — proofs about the bridge's program cache (Model/ProgCache.v) and about spelling an item with
   further parentheses (Model/Direct.v expr_item_value) *)
From SV Require Import Model.ProgCache Proofs.ExprEvalProofs.
From Coq Require Import List Bool Lia.
Import ListNotations.

(* ---- the fallback makes the cache invisible, whatever a cached program accepts ---- *)
Theorem cache_invisible : forall cache row e,
  fst (cached_eval true cache row e) = bx (terase row) e.
Proof.
  intros cache row e. unfold cached_eval, run_prog. simpl.
  destruct (fits _ row e); destruct (bx (terase row) e); reflexivity.
Qed.

Theorem cache_history_free : forall h cache row e,
  after_history true cache h row e = bx (terase row) e.
Proof.
  induction h as [|r h IH]; intros cache row e; simpl.
  - apply cache_invisible.
  - apply IH.
Qed.

(* ---- a program runs on the row it was compiled against: the first row of a text, and the row of a
   text nothing else was evaluated with, never see the cache either way ---- *)
Lemma gokind_eqb_refl : forall g, gokind_eqb g g = true.
Proof. destruct g; reflexivity. Qed.

Lemma fits_self : forall row e, fits row row e = true.
Proof.
  intros row e. induction e using xexpr_ind'; simpl; auto.
  - rewrite IHe1, IHe2. reflexivity.
  - rewrite IHe1, IHe2. simpl. destruct (is_equality c); [|reflexivity].
    unfold okind_is.
    destruct (okind row e1) as [[| | | | |]|]; destruct (okind row e2) as [[| | | | |]|]; reflexivity.
  - induction H as [|a args Ha Hargs IH]; simpl; [reflexivity|]. rewrite Ha. exact IH.
Qed.

Theorem cache_first_row : forall fallback row e,
  fst (cached_eval fallback None row e) = bx (terase row) e.
Proof.
  intros fallback row e. unfold cached_eval, run_prog. simpl. rewrite fits_self.
  destruct (bx (terase row) e); destruct fallback; reflexivity.
Qed.

(* without the fallback a result is the row's own value or an error (NULL in the column), never another value *)
Theorem cache_no_fallback_value_or_error : forall cache row e,
  fst (cached_eval false cache row e) = bx (terase row) e \/ fst (cached_eval false cache row e) = OErr.
Proof.
  intros cache row e. unfold cached_eval, run_prog. simpl.
  destruct (fits _ row e); [left|right; reflexivity].
  destruct (bx (terase row) e); reflexivity.
Qed.

(* ---- further parentheses around a parenthesised item: same evaluator, same value ---- *)
Theorem item_extra_parens : forall row e,
  expr_item_value row (ETop (EParen (EParen e))) = expr_item_value row (ETop (EParen e)).
Proof.
  intros row e. unfold expr_item_value, expr_path. simpl. unfold bridge_eval. simpl.
  reflexivity.
Qed.

Theorem direct_extra_parens : forall row e out items1 items2 w,
  direct {| q_items := items1 ++ IExpr (ETop (EParen (EParen e))) out :: items2; q_where := w |} row =
  direct {| q_items := items1 ++ IExpr (ETop (EParen e)) out :: items2; q_where := w |} row.
Proof.
  intros row e out items1 items2 w. unfold direct, where_ok, project. simpl.
  destruct (match w with Some e0 => where_true row e0 | None => Some true end) as [[|]|]; try reflexivity.
  assert (G : forall acc, project_items row acc (items1 ++ IExpr (ETop (EParen (EParen e))) out :: items2)
                        = project_items row acc (items1 ++ IExpr (ETop (EParen e)) out :: items2)).
  { induction items1 as [|i items1 IH]; intros acc.
    - simpl app. unfold project_items; fold project_items. unfold project_item.
      rewrite item_extra_parens. reflexivity.
    - simpl. destruct (project_item row acc i); [apply IH|reflexivity]. }
  rewrite G. reflexivity.
Qed.
