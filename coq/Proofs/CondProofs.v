(* C12: the compiled shortcuts (repaired code) decide exactly as the general evaluator. *)
From Coq Require Import List NArith ZArith Bool Lia.
From SV Require Import Base.Bytes Model.Cond Spec.CondSpec.
Import ListNotations.
Open Scope Z_scope.

(* ------------------------------------------------------------------ numbers *)
(* float64(x) is exact up to 2^53 (inclusive) *)
Lemma round64Z_exact : forall z, Z.abs z <= two53 -> round64Z z = z.
Proof.
  intros z Hz. unfold round64Z.
  destruct (Z.abs z <? two53) eqn:E; [reflexivity|].
  apply Z.ltb_ge in E.
  assert (Hc : z = two53 \/ z = - two53) by (unfold two53 in *; lia).
  destruct Hc as [Hc|Hc]; subst z; vm_compute; reflexivity.
Qed.

Lemma fcompare_ints : forall a b, fcompare (FFin a 0) (FFin b 0) = Some (a ?= b).
Proof.
  intros a b. unfold fcompare.
  change (Z.min 0 0) with 0. change (0 - 0) with 0. change (2 ^ 0) with 1.
  rewrite !Z.mul_1_r. reflexivity.
Qed.

Lemma to_int_small : forall k z, Z.abs z <= two53 -> to_int k z = z.
Proof.
  intros k z Hz. destruct k; simpl; try reflexivity;
    (destruct (two63 <=? z) eqn:E; [apply Z.leb_le in E; unfold two63, two53 in *; lia | reflexivity]).
Qed.

(* integers up to 2^53 on both sides: comparing the float64 conversions = comparing the integers *)
Lemma small_ints_compare : forall k z n,
  Z.abs z <= two53 -> Z.abs n <= two53 ->
  fcompare (fl_of_Z z) (fl_of_Z n) = Some (to_int k z ?= n).
Proof.
  intros k z n Hz Hn. unfold fl_of_Z.
  rewrite (round64Z_exact z Hz), (round64Z_exact n Hn), fcompare_ints, (to_int_small k z Hz).
  reflexivity.
Qed.

(* ------------------------------------------------------------------ string literals *)
Definition bs_or_cr (c : N) : bool := N.eqb c 92 || N.eqb c 13.

Lemma norm_newlines_id : forall s, existsb bs_or_cr s = false -> norm_newlines s = s.
Proof.
  induction s as [|c r IH]; intros H; [reflexivity|].
  simpl in H. apply orb_false_iff in H. destruct H as [Hc Hr].
  unfold bs_or_cr in Hc. apply orb_false_iff in Hc. destruct Hc as [_ H13].
  simpl. rewrite H13. rewrite (IH Hr). reflexivity.
Qed.

Lemma unescape_id : forall s, existsb bs_or_cr s = false -> unescape s = UOk s.
Proof.
  unfold unescape.
  induction s as [|c r IH]; intros H; [reflexivity|].
  simpl in H. apply orb_false_iff in H. destruct H as [Hc Hr].
  unfold bs_or_cr in Hc. apply orb_false_iff in Hc. destruct Hc as [H92 _].
  simpl. rewrite H92. rewrite (IH Hr). reflexivity.
Qed.

(* the raw text of a plain literal is the value expr-lang gives it *)
Lemma str_value_plain : forall raw u, str_plain raw = true -> str_value raw = UOk u -> u = raw.
Proof.
  intros raw u Hp Hv. unfold str_plain in Hp. apply andb_true_iff in Hp. destruct Hp as [Hn Hu].
  apply negb_true_iff in Hn. fold bs_or_cr in Hn.
  unfold str_value in Hv.
  destruct (existsb (N.eqb 10) raw); [discriminate|].
  rewrite Hu in Hv. simpl in Hv.
  rewrite (norm_newlines_id raw Hn), (unescape_id raw Hn) in Hv. congruence.
Qed.

Lemma cmp_status_str : forall c raw,
  cmp_status c = 0%N -> c_lit c = LStr raw -> exists u, str_value raw = UOk u.
Proof.
  intros c raw Hs Hl. unfold cmp_status in Hs. rewrite Hl in Hs.
  destruct (c_op c); try discriminate;
    (destruct (bytes_eqb (c_field c) w_true || bytes_eqb (c_field c) w_false); [discriminate|];
     simpl in Hs;
     destruct (bytes_eqb (c_field c) w_nil); simpl in Hs; try discriminate;
     destruct (str_value raw) as [u| |]; try discriminate; exists u; reflexivity).
Qed.

(* ------------------------------------------------------------------ one comparison *)
Lemma fast_cmp_agrees : forall c fc r b,
  cmp_status c = 0%N ->
  compile_fast_cmp c = Some fc ->
  fast_cmp_eval fc r = Some b ->
  gcmp c r = GB b.
Proof.
  intros c fc r b Hst Hc He.
  unfold compile_fast_cmp in Hc.
  destruct (bytes_eqb (c_field c) w_nil || bytes_eqb (c_field c) w_true || bytes_eqb (c_field c) w_false) eqn:Ew;
    [discriminate|].
  apply orb_false_iff in Ew. destruct Ew as [Ew _]. apply orb_false_iff in Ew. destruct Ew as [Enil _].
  unfold gcmp, gvalue. rewrite Enil.
  unfold fast_cmp_eval, fast_cmp_eval_with in He.
  destruct (c_lit c) as [n|neg n k|raw] eqn:El.
  - (* integer literal, at most 2^53 in absolute value *)
    destruct (Z.abs n <=? two53) eqn:En; [|discriminate].
    apply Z.leb_le in En. inversion Hc; subst fc; clear Hc. simpl in He.
    destruct (lookup (c_field c) r) as [| |k z|f|f|s|bb|] eqn:Ev; simpl in He; try discriminate.
    + destruct (fast_kind k); [|discriminate].
      destruct (Z.abs z <=? two53) eqn:Ez; [|discriminate].
      apply Z.leb_le in Ez. inversion He; subst b; clear He.
      unfold general_cmp. rewrite !Z.mul_1_r, (round64Z_exact z Ez), (round64Z_exact n En), (to_int_small k z Ez).
      reflexivity.
    + inversion He; subst b. reflexivity.
    + inversion He; subst b. reflexivity.
  - (* literal with a fraction: both sides compare float64(x) with the same parsed literal *)
    assert (Hf : exists f, fc = mkF (c_field c) (c_op c) (FLNum f) /\ frac_float neg n k = f).
    { destruct (frac_float neg n k) eqn:Ef; try discriminate; inversion Hc; eauto. }
    destruct Hf as [f [Hfc Hf]]. subst fc. simpl in He.
    destruct (lookup (c_field c) r) as [| |kk z|g|g|s|bb|] eqn:Ev; simpl in He; try discriminate.
    + destruct (fast_kind kk); [|discriminate].
      destruct (Z.abs z <=? two53); [|discriminate].
      inversion He; subst b. unfold general_cmp, lit_float. rewrite Hf. reflexivity.
    + inversion He; subst b. unfold general_cmp, lit_float. rewrite Hf. reflexivity.
    + inversion He; subst b. unfold general_cmp, lit_float. rewrite Hf. reflexivity.
  - (* plain string literal *)
    destruct (str_plain raw) eqn:Ep; [|discriminate].
    inversion Hc; subst fc; clear Hc. simpl in He.
    destruct (cmp_status_str c raw Hst El) as [u Hu].
    pose proof (str_value_plain raw u Ep Hu) as Heq. subst u.
    destruct (lookup (c_field c) r) as [| |kk z|g|g|s|bb|] eqn:Ev; simpl in He; try discriminate.
    inversion He; subst b. unfold general_cmp. rewrite Hu. reflexivity.
Qed.

(* ------------------------------------------------------------------ chains *)
Lemma chain_status_cons : forall c rest,
  chain_status (c :: rest) = 0%N -> cmp_status c = 0%N /\ chain_status rest = 0%N.
Proof.
  intros c rest H. simpl in H.
  destruct (cmp_status c) as [|p]; [split; [reflexivity|exact H]|].
  destruct p; try discriminate; destruct (chain_status rest) as [|q]; try discriminate; destruct q; discriminate.
Qed.

Definition join (a x y : bool) : bool := if a then x && y else x || y.

Lemma gchain_cons : forall a c rest r b1 g,
  gcmp c r = GB b1 -> gchain a rest r = GB g -> gchain a (c :: rest) r = GB (join a b1 g).
Proof.
  intros a c rest r b1 g Hc Hr. destruct rest as [|c2 rest'].
  - simpl in Hr. inversion Hr; subst g. simpl. rewrite Hc. unfold join.
    destruct a, b1; reflexivity.
  - change (gchain a (c :: c2 :: rest') r) with
      (match gcmp c r with
       | GErr => GErr
       | GB b => if a then (if b then gchain a (c2 :: rest') r else GB false)
                 else (if b then GB true else gchain a (c2 :: rest') r)
       end).
    rewrite Hc, Hr. unfold join. destruct a, b1; reflexivity.
Qed.

Lemma chain_agrees : forall a cs fcs r,
  chain_status cs = 0%N ->
  compile_all compile_fast_cmp cs = Some fcs ->
  forall acc b, chain_eval_with to_float_fast a fcs r acc = Some b ->
  exists g, gchain a cs r = GB g /\ b = join a acc g.
Proof.
  intros a cs. induction cs as [|c rest IH]; intros fcs r Hst Hc acc b He.
  - simpl in Hc. inversion Hc; subst fcs. simpl in He. inversion He; subst b.
    exists a. split; [reflexivity|]. unfold join. destruct a, acc; reflexivity.
  - apply chain_status_cons in Hst. destruct Hst as [Hs1 Hs2].
    simpl in Hc.
    destruct (compile_fast_cmp c) as [fc|] eqn:Ec; [|discriminate].
    destruct (compile_all compile_fast_cmp rest) as [fcs'|] eqn:Er; [|discriminate].
    inversion Hc; subst fcs; clear Hc.
    simpl in He.
    destruct (fast_cmp_eval_with to_float_fast fc r) as [b1|] eqn:E1; [|discriminate].
    pose proof (fast_cmp_agrees c fc r b1 Hs1 Ec E1) as Hg1.
    destruct (IH fcs' r Hs2 eq_refl _ _ He) as [g' [Hg' Hb]].
    exists (join a b1 g'). split.
    + apply gchain_cons; assumption.
    + subst b. unfold join. destruct a, acc, b1, g'; reflexivity.
Qed.

(* ------------------------------------------------------------------ the property *)
Theorem fast_agrees : forall s r b,
  compiles s = true -> fast s r = Some b -> general s r = GB b.
Proof.
  intros s r b Hc Hf. unfold compiles in Hc. apply N.eqb_eq in Hc.
  unfold fast, compile_fast, compile_fast_with in Hf.
  destruct s as [c|a cs]; simpl in Hc.
  - destruct (compile_fast_cmp c) as [fc|] eqn:Ec; [|discriminate]. simpl in Hf.
    simpl. exact (fast_cmp_agrees c fc r b Hc Ec Hf).
  - destruct (compile_all compile_fast_cmp cs) as [fcs|] eqn:Ec; [|discriminate]. simpl in Hf.
    destruct (chain_agrees a cs fcs r Hc Ec a b Hf) as [g [Hg Hb]].
    simpl. rewrite Hg. subst b. unfold join. destruct a, g; reflexivity.
Qed.

Theorem evaluate_agrees : forall s r, compiles s = true -> evaluate s r = eval_general s r.
Proof.
  intros s r Hc. unfold evaluate, eval_general.
  destruct (fast s r) as [b|] eqn:Ef; [|reflexivity].
  rewrite (fast_agrees s r b Hc Ef). reflexivity.
Qed.

(* a predicate whose evaluation fails rejects the row; in particular no shortcut answers for it *)
Theorem error_rejects : forall s r,
  compiles s = true -> general s r = GErr -> evaluate s r = false /\ fast s r = None.
Proof.
  intros s r Hc Hg. split.
  - rewrite (evaluate_agrees s r Hc). unfold eval_general. rewrite Hg. reflexivity.
  - destruct (fast s r) as [b|] eqn:Ef; [|reflexivity].
    rewrite (fast_agrees s r b Hc Ef) in Hg. discriminate.
Qed.

(* flat chains, spelled out: when every part's shortcut answers, the general evaluator's
   short-circuit evaluation of the chain is the conjunction / disjunction of those answers *)
Lemma chain_eval_fold : forall a fcs r bs,
  Forall2 (fun fc b => fast_cmp_eval fc r = Some b) fcs bs ->
  forall acc, chain_eval_with to_float_fast a fcs r acc = Some (fold_left (join a) bs acc).
Proof.
  intros a fcs r bs H. induction H as [|fc b fcs' bs' H1 _ IH]; intros acc; [reflexivity|].
  simpl. unfold fast_cmp_eval in H1. rewrite H1. apply IH.
Qed.

Lemma fold_join : forall a bs acc,
  fold_left (join a) bs acc = join a acc (if a then forallb (fun x : bool => x) bs else existsb (fun x : bool => x) bs).
Proof.
  intros a bs. induction bs as [|x bs IH]; intros acc; simpl.
  - unfold join. destruct a, acc; reflexivity.
  - rewrite IH. unfold join. destruct a, acc, x; simpl; reflexivity.
Qed.

Theorem compound_agrees : forall (a : bool) cs fcs r (bs : list bool),
  chain_status cs = 0%N ->
  compile_all compile_fast_cmp cs = Some fcs ->
  Forall2 (fun fc b => fast_cmp_eval fc r = Some b) fcs bs ->
  let v := if a then forallb (fun x : bool => x) bs else existsb (fun x : bool => x) bs in
  fast (SChain a cs) r = Some v /\ general (SChain a cs) r = GB v.
Proof.
  intros a cs fcs r bs Hst Hc Hall v.
  assert (Hf : fast (SChain a cs) r = Some v).
  { unfold fast, compile_fast, compile_fast_with. rewrite Hc. simpl.
    rewrite (chain_eval_fold a fcs r bs Hall a), fold_join. unfold join, v. destruct a; reflexivity. }
  split; [exact Hf|].
  apply fast_agrees; [|exact Hf]. unfold compiles. simpl. rewrite Hst. reflexivity.
Qed.

(* one part without an answer: the whole chain is left to the general evaluator *)
Theorem chain_declines : forall a fcs r acc,
  (exists fc, In fc fcs /\ fast_cmp_eval fc r = None) ->
  chain_eval_with to_float_fast a fcs r acc = None.
Proof.
  intros a fcs r. induction fcs as [|fc rest IH]; intros acc [x [Hin Hx]]; [destruct Hin|].
  simpl. destruct Hin as [Heq|Hin].
  - subst x. unfold fast_cmp_eval in Hx. rewrite Hx. reflexivity.
  - destruct (fast_cmp_eval_with to_float_fast fc r); [|reflexivity]. apply IH. exists x. split; assumption.
Qed.

Theorem chain_not_compiled : forall a cs,
  (exists c, In c cs /\ compile_fast_cmp c = None) -> compile_fast (SChain a cs) = None.
Proof.
  intros a cs [c [Hin Hc]]. unfold compile_fast, compile_fast_with.
  assert (H : compile_all compile_fast_cmp cs = None).
  { induction cs as [|c0 rest IH]; [destruct Hin|]. simpl. destruct Hin as [Heq|Hin].
    - subst c0. rewrite Hc. reflexivity.
    - destruct (compile_fast_cmp c0); [|reflexivity]. rewrite (IH Hin). reflexivity. }
  rewrite H. reflexivity.
Qed.

(* ------------------------------------------------------------------ the checker *)
Lemma chk_C12_sound : forall plain paren f,
  chk_C12 plain paren f = None <->
  (plain <> ObsNoCompile -> paren <> ObsNoCompile ->
   plain = paren /\ forall b, f = Some b -> paren = obs_of_bool b).
Proof.
  intros plain paren f. split.
  - intros H Hp Hq. destruct plain, paren; try congruence; destruct f as [[|]|]; simpl in H; try discriminate;
      (split; [reflexivity|intros b Hb; inversion Hb; reflexivity]) || (split; [reflexivity|intros b Hb; discriminate]).
  - intros H. destruct plain, paren; try reflexivity;
      (destruct H as [Heq Hf]; [discriminate|discriminate|]);
      try discriminate;
      destruct f as [[|]|]; simpl; try reflexivity;
      (specialize (Hf _ eq_refl); discriminate).
Qed.

(* the checker of the concurrent family (K lines): silent exactly when no evaluation aborted and no
   concurrent evaluation answered the opposite of the expected decision *)
Lemma chk_C12K_sound : forall e nt nf np,
  chk_C12K e nt nf np = None <->
  (np = 0%N /\ (e = true -> nf = 0%N) /\ (e = false -> nt = 0%N)).
Proof.
  intros e nt nf np. unfold chk_C12K.
  destruct (N.eqb np 0) eqn:Hp; simpl.
  - apply N.eqb_eq in Hp. destruct e.
    + destruct (N.eqb nf 0) eqn:Hf.
      * apply N.eqb_eq in Hf. split; [intros _; repeat split; auto; discriminate|reflexivity].
      * apply N.eqb_neq in Hf. split; [discriminate|intros (_ & H & _); elim Hf; auto].
    + destruct (N.eqb nt 0) eqn:Ht.
      * apply N.eqb_eq in Ht. split; [intros _; repeat split; auto; discriminate|reflexivity].
      * apply N.eqb_neq in Ht. split; [discriminate|intros (_ & _ & H); elim Ht; auto].
  - apply N.eqb_neq in Hp. split; [discriminate|intros (H & _); elim Hp; exact H].
Qed.

(* counts of the decisions a list of (concurrent) evaluations of one row gave *)
Fixpoint ncount (b : bool) (ds : list bool) : N :=
  match ds with
  | [] => 0%N
  | d :: ds' => ((if Bool.eqb d b then 1 else 0) + ncount b ds')%N
  end.

Lemma ncount_zero : forall b ds, ncount b ds = 0%N <-> (forall d, In d ds -> d <> b).
Proof.
  intros b ds. induction ds as [|d ds IH]; simpl.
  - split; [intros _ d []|reflexivity].
  - destruct (Bool.eqb d b) eqn:Hd.
    + apply Bool.eqb_prop in Hd. split.
      * intros H. destruct (ncount b ds); discriminate.
      * intros H. elim (H d); auto.
    + apply Bool.eqb_false_iff in Hd. rewrite N.add_0_l, IH. split.
      * intros H d' [<-|Hin]; auto.
      * intros H d' Hin. apply H. auto.
Qed.

(* fed with the counts of the decisions observed for one row and no abort, the checker is silent exactly
   when every one of them is the decision the model gives for the predicate and that row *)
Lemma chk_C12K_counts : forall (s : shape) (r : row) (ds : list bool),
  chk_C12K (evaluate s r) (ncount true ds) (ncount false ds) 0%N = None <->
  (forall d, In d ds -> d = evaluate s r).
Proof.
  intros s r ds. rewrite chk_C12K_sound, !ncount_zero. destruct (evaluate s r); split.
  - intros (_ & H & _) d Hin. specialize (H eq_refl d Hin). destruct d; congruence.
  - intros H. repeat split; try discriminate. intros _ d Hin. rewrite (H d Hin). discriminate.
  - intros (_ & _ & H) d Hin. specialize (H eq_refl d Hin). destruct d; congruence.
  - intros H. repeat split; try discriminate. intros _ d Hin. rewrite (H d Hin). discriminate.
Qed.

(* ------------------------------------------------------------------ the code as found (F9 and neighbours) *)
Definition fx : bytes := [120%N].                      (* "x" *)
Definition row1 (v : value) : row := [(fx, v)].

(* F9: x == 9007199254740993 with x = int64(2^53): the shortcut compared float64s and accepted *)
Lemma fast_asis_big_int_refuted :
  let s := SCmp (mkCmp fx OEq2 (LInt 9007199254740993)) in
  let r := row1 (VI KInt64 9007199254740992) in
  compiles s = true /\ fast_asis s r = Some true /\ general s r = GB false /\ fast s r = None.
Proof. vm_compute. repeat split; reflexivity. Qed.

(* x > 5 with x = uint64(2^64-1): expr-lang compares int(x) = -1 *)
Lemma fast_asis_uint64_refuted :
  let s := SCmp (mkCmp fx OGt (LInt 5)) in
  let r := row1 (VI KUint64 18446744073709551615) in
  compiles s = true /\ fast_asis s r = Some true /\ general s r = GB false /\ fast s r = None.
Proof. vm_compute. repeat split; reflexivity. Qed.

(* x == 'a\\b' (an escaped backslash) with x = a\b: the shortcut compared with the raw text *)
Lemma fast_asis_escape_refuted :
  let s := SCmp (mkCmp fx OEq2 (LStr [97; 92; 92; 98]%N)) in
  let r := row1 (VStr [97; 92; 98]%N) in
  compiles s = true /\ fast_asis s r = Some false /\ general s r = GB true /\ fast s r = None.
Proof. vm_compute. repeat split; reflexivity. Qed.

(* nil == 1 on a row that has a column named nil *)
Lemma fast_asis_nil_refuted :
  let s := SCmp (mkCmp w_nil OEq2 (LInt 1)) in
  let r := [(w_nil, VI KInt 1)] in
  compiles s = true /\ fast_asis s r = Some true /\ general s r = GB false /\ fast s r = None.
Proof. vm_compute. repeat split; reflexivity. Qed.

(* ------------------------------------------------------------------ round64Z is round-to-nearest-even *)
Lemma pos_log2_nonneg : forall p, 0 <= pos_log2 p.
Proof. induction p as [q IH|q IH|]; cbn [pos_log2]; lia. Qed.

Lemma pos_log2_spec : forall p, 2 ^ pos_log2 p <= Zpos p < 2 ^ (pos_log2 p + 1).
Proof.
  induction p as [q IH|q IH|]; cbn [pos_log2].
  - pose proof (pos_log2_nonneg q) as Hn.
    replace (1 + pos_log2 q + 1) with (Z.succ (pos_log2 q + 1)) by lia.
    replace (1 + pos_log2 q) with (Z.succ (pos_log2 q)) by lia.
    rewrite !Z.pow_succ_r by lia. change (Z.pos q~1) with (2 * Z.pos q + 1).
    set (A := 2 ^ pos_log2 q) in *. set (B := 2 ^ (pos_log2 q + 1)) in *. lia.
  - pose proof (pos_log2_nonneg q) as Hn.
    replace (1 + pos_log2 q + 1) with (Z.succ (pos_log2 q + 1)) by lia.
    replace (1 + pos_log2 q) with (Z.succ (pos_log2 q)) by lia.
    rewrite !Z.pow_succ_r by lia. change (Z.pos q~0) with (2 * Z.pos q).
    set (A := 2 ^ pos_log2 q) in *. set (B := 2 ^ (pos_log2 q + 1)) in *. lia.
  - change (2 ^ 0) with 1. change (2 ^ (0 + 1)) with 2. lia.
Qed.

Lemma zlog2_spec : forall a, 0 < a -> 2 ^ zlog2 a <= a < 2 ^ (zlog2 a + 1).
Proof. intros a Ha. destruct a as [|p|p]; try lia. apply pos_log2_spec. Qed.

(* round-to-nearest-even to 53 significant bits, for |z| >= 2^53:
   with sh = floor(log2 |z|) - 52 >= 1, the result is +-q' * 2^sh where q' has at most 53 bits
   (2^52 <= q' <= 2^53), is a nearest such multiple of 2^sh, and is even when z is half-way *)
Theorem round64Z_nearest_even : forall z,
  two53 <= Z.abs z ->
  let a := Z.abs z in
  let sh := zlog2 a - 52 in
  1 <= sh /\
  exists q', round64Z z = Z.sgn z * (q' * 2 ^ sh) /\
             2 ^ 52 <= q' <= 2 ^ 53 /\
             2 * Z.abs (q' * 2 ^ sh - a) <= 2 ^ sh /\
             (2 * Z.abs (q' * 2 ^ sh - a) = 2 ^ sh -> Z.even q' = true).
Proof.
  intros z Hz a sh.
  assert (Ha : 0 < a) by (unfold two53 in Hz; unfold a; lia).
  pose proof (zlog2_spec a Ha) as [Hlo Hhi].
  assert (Hl53 : 53 <= zlog2 a).
  { destruct (Z_lt_le_dec (zlog2 a) 53) as [Hlt|]; [|assumption]. exfalso.
    assert (2 ^ (zlog2 a + 1) <= 2 ^ 53) by (apply Z.pow_le_mono_r; lia).
    unfold two53, a in *. change (2 ^ 53) with 9007199254740992 in H. lia. }
  assert (Hsh : 1 <= sh) by (unfold sh; lia).
  split; [exact Hsh|].
  unfold round64Z. fold a.
  destruct (a <? two53) eqn:E; [apply Z.ltb_lt in E; unfold a in *; lia|]. clear E.
  fold sh.
  set (P := 2 ^ sh). set (half := 2 ^ (sh - 1)).
  assert (HP : P = 2 * half).
  { unfold P, half. replace sh with (Z.succ (sh - 1)) at 1 by lia. rewrite Z.pow_succ_r by lia. reflexivity. }
  assert (Hhalf : 0 < half) by (unfold half; apply Z.pow_pos_nonneg; lia).
  assert (HPpos : 0 < P) by lia.
  pose proof (Z.div_mod a P ltac:(lia)) as Hdm.
  pose proof (Z.mod_pos_bound a P HPpos) as Hr.
  set (q := a / P) in *. set (r := a mod P) in *.
  assert (Hq : 2 ^ 52 <= q < 2 ^ 53).
  { assert (E1 : 2 ^ zlog2 a = 2 ^ 52 * P).
    { unfold P. rewrite <- Z.pow_add_r by lia. f_equal. unfold sh. lia. }
    assert (E2 : 2 ^ (zlog2 a + 1) = 2 ^ 53 * P).
    { unfold P. rewrite <- Z.pow_add_r by lia. f_equal. unfold sh. lia. }
    rewrite E1 in Hlo. rewrite E2 in Hhi. split.
    - apply Z.div_le_lower_bound; lia.
    - apply Z.div_lt_upper_bound; lia. }
  destruct (half <? r) eqn:E1.
  - apply Z.ltb_lt in E1. exists (q + 1). repeat split; try lia.
  - apply Z.ltb_ge in E1. destruct (r =? half) eqn:E2.
    + apply Z.eqb_eq in E2. destruct (Z.odd q) eqn:Eo; cbn [andb].
      * exists (q + 1). repeat split; try lia.
        intros _. rewrite Z.add_1_r, Z.even_succ. exact Eo.
      * exists q. repeat split; try lia.
        intros _. rewrite <- Z.negb_odd, Eo. reflexivity.
    + apply Z.eqb_neq in E2. cbn [andb]. exists q. repeat split; try lia.
Qed.

(* ------------------------------------------------------------------ round64Z against the kernel's binary64 *)
From Coq Require Import Uint63 PrimFloat.
Definition prim_agrees (z : Z) : bool :=
  PrimFloat.eqb (PrimFloat.of_uint63 (Uint63.of_Z z)) (PrimFloat.of_uint63 (Uint63.of_Z (round64Z z))).
Example round64Z_is_binary64_conversion :
  forallb prim_agrees
    [0; 1; 5; 9007199254740991; 9007199254740992; 9007199254740993; 9007199254740994; 9007199254740995;
     9007199254740997; 18014398509481985; 18014398509481986; 18014398509481987; 4611686018427387903;
     4611686018427387904; 4611686018427388415; 4611686018427388416; 4611686018427388417;
     9223372036854775295; 9223372036854774784; 9223372036854775290; 1152921504606846977; 123456789012345678] = true
  /\ round64Z 9007199254740993 = 9007199254740992 /\ round64Z 9007199254740995 = 9007199254740996
  /\ round64Z (-9007199254740993) = -9007199254740992 /\ round64Z 18446744073709551615 = 18446744073709551616.
Proof. vm_compute. repeat split; reflexivity. Qed.

(* ------------------------------------------------------------------ escaped string literals *)
(* a literal that contains a backslash gets no shortcut, alone or as a part of a chain *)
Definition has_escaped_lit (c : ccmp) : Prop := exists raw, c_lit c = LStr raw /\ In 92%N raw.

Lemma existsb_bs : forall raw, In 92%N raw -> existsb (fun c => N.eqb c 92 || N.eqb c 13) raw = true.
Proof.
  intros raw H. apply existsb_exists. exists 92%N. split; [assumption|reflexivity].
Qed.

Lemma escaped_cmp_not_compiled : forall c, has_escaped_lit c -> compile_fast_cmp c = None.
Proof.
  intros c [raw [Hl Hin]]. unfold compile_fast_cmp. rewrite Hl.
  destruct (bytes_eqb (c_field c) w_nil || bytes_eqb (c_field c) w_true || bytes_eqb (c_field c) w_false); [reflexivity|].
  unfold str_plain. rewrite (existsb_bs raw Hin). reflexivity.
Qed.

Theorem escaped_literal_never_shortcut : forall (s : shape) (r : row),
  match s with
  | SCmp c => has_escaped_lit c
  | SChain _ cs => exists c, In c cs /\ has_escaped_lit c
  end ->
  compile_fast s = None /\ fast s r = None /\ evaluate s r = eval_general s r.
Proof.
  intros s r H.
  assert (Hc : compile_fast s = None).
  { destruct s as [c|a cs].
    - unfold compile_fast, compile_fast_with. rewrite (escaped_cmp_not_compiled c H). reflexivity.
    - destruct H as [c [Hin He]]. apply chain_not_compiled. exists c. split; [assumption|].
      apply escaped_cmp_not_compiled. assumption. }
  assert (Hf : fast s r = None) by (unfold fast; rewrite Hc; reflexivity).
  split; [assumption|]. split; [assumption|]. unfold evaluate. rewrite Hf. reflexivity.
Qed.

(* the digits *)
Lemma hex_val_lt16 : forall c d, hex_val c = Some d -> (d < 16)%N.
Proof.
  intros c d H. unfold hex_val, in_rng in H.
  destruct ((48 <=? c)%N && (c <=? 57)%N) eqn:E1.
  { apply andb_true_iff in E1. destruct E1 as [A B]. apply N.leb_le in A. apply N.leb_le in B.
    inversion H; subst d. lia. }
  destruct ((97 <=? c)%N && (c <=? 102)%N) eqn:E2.
  { apply andb_true_iff in E2. destruct E2 as [A B]. apply N.leb_le in A. apply N.leb_le in B.
    inversion H; subst d. lia. }
  destruct ((65 <=? c)%N && (c <=? 70)%N) eqn:E3; [|discriminate].
  apply andb_true_iff in E3. destruct E3 as [A B]. apply N.leb_le in A. apply N.leb_le in B.
  inversion H; subst d. lia.
Qed.

Lemma oct_val_lt8 : forall c d, oct_val c = Some d -> (d < 8)%N.
Proof.
  intros c d H. unfold oct_val, in_rng in H.
  destruct ((48 <=? c)%N && (c <=? 55)%N) eqn:E1; [|discriminate].
  apply andb_true_iff in E1. destruct E1 as [A B]. apply N.leb_le in A. apply N.leb_le in B.
  inversion H; subst d. lia.
Qed.

Lemma esc_value_small : forall kind v, kind <> 2%N -> (v <= max_rune)%N -> esc_value kind v = Some (utf8_encode v).
Proof.
  intros kind v Hk Hv. unfold esc_value.
  destruct (N.eqb kind 2) eqn:E; [apply N.eqb_eq in E; contradiction|]. simpl.
  destruct (max_rune <? v)%N eqn:E2; [apply N.ltb_lt in E2; lia|reflexivity].
Qed.

Lemma uapp_nil : forall u, uapp [] u = u.
Proof. intros u. destruct u; reflexivity. Qed.

Lemma unesc_step : forall st c r st' out,
  estep st c = Some (st', out) -> unesc st (c :: r) = uapp out (unesc st' r).
Proof. intros st c r st' out H. simpl. rewrite H. reflexivity. Qed.

(* \xHH inside a literal is the CODE POINT HH written as UTF-8 *)
Theorem unescape_hex_escape : forall h l hv lv rest,
  hex_val h = Some hv -> hex_val l = Some lv ->
  unescape (92 :: 120 :: h :: l :: rest)%N = uapp (utf8_encode (hv * 16 + lv)%N) (unescape rest).
Proof.
  intros h l hv lv rest Hh Hl. unfold unescape.
  pose proof (hex_val_lt16 h hv Hh) as Bh. pose proof (hex_val_lt16 l lv Hl) as Bl.
  rewrite (unesc_step ESText 92%N _ ESEsc []) by reflexivity. rewrite uapp_nil.
  rewrite (unesc_step ESEsc 120%N _ (ESHex 0 2 0) []) by reflexivity. rewrite uapp_nil.
  rewrite (unesc_step (ESHex 0 2 0) h _ (ESHex 0 1 hv) []).
  2:{ simpl. unfold hex_step. rewrite Hh. reflexivity. }
  rewrite uapp_nil.
  rewrite (unesc_step (ESHex 0 1 hv) l _ ESText (utf8_encode (hv * 16 + lv)%N)).
  2:{ simpl. unfold hex_step. rewrite Hl.
      rewrite (esc_value_small 0%N); [reflexivity | discriminate | unfold max_rune; lia]. }
  reflexivity.
Qed.

(* \ooo (first digit 0-3) likewise *)
Theorem unescape_octal_escape : forall a b c av bv cv rest,
  oct_val a = Some av -> (av < 4)%N -> oct_val b = Some bv -> oct_val c = Some cv ->
  unescape (92 :: a :: b :: c :: rest)%N = uapp (utf8_encode ((av * 8 + bv) * 8 + cv)%N) (unescape rest).
Proof.
  intros a b c av bv cv rest Ha Ha4 Hb Hc. unfold unescape.
  pose proof (oct_val_lt8 b bv Hb) as Bb. pose proof (oct_val_lt8 c cv Hc) as Bc.
  assert (Ea : estep ESEsc a = Some (ESOct 2 av, [])).
  { unfold oct_val, in_rng in Ha.
    destruct ((48 <=? a)%N && (a <=? 55)%N) eqn:E1; [|discriminate].
    apply andb_true_iff in E1. destruct E1 as [A B]. apply N.leb_le in A. apply N.leb_le in B.
    inversion Ha; subst av.
    assert (Hr : (a = 48 \/ a = 49 \/ a = 50 \/ a = 51)%N) by lia.
    destruct Hr as [Hr|[Hr|[Hr|Hr]]]; subst a; reflexivity. }
  rewrite (unesc_step ESText 92%N _ ESEsc []) by reflexivity. rewrite uapp_nil.
  rewrite (unesc_step ESEsc a _ _ _ Ea). rewrite uapp_nil.
  rewrite (unesc_step (ESOct 2 av) b _ (ESOct 1 (av * 8 + bv)%N) []).
  2:{ simpl. rewrite Hb. reflexivity. }
  rewrite uapp_nil.
  rewrite (unesc_step (ESOct 1 (av * 8 + bv)%N) c _ ESText (utf8_encode ((av * 8 + bv) * 8 + cv)%N)).
  2:{ simpl. rewrite Hc.
      rewrite (esc_value_small 4%N); [reflexivity | discriminate | unfold max_rune; lia]. }
  reflexivity.
Qed.

(* ... and a code point above ASCII never is one byte (strconv.Unquote would give the byte HH) *)
Theorem utf8_encode_above_ascii : forall v, (128 <= v)%N -> (2 <= length (utf8_encode v))%nat.
Proof.
  intros v Hv. unfold utf8_encode.
  destruct (v <? 128)%N eqn:E; [apply N.ltb_lt in E; lia|].
  destruct (v <? 2048)%N; [simpl; lia|].
  destruct (in_rng 55296 57343 v || (max_rune <? v)%N); [simpl; lia|].
  destruct (v <? 65536)%N; simpl; lia.
Qed.

(* x == 'caf\xe9': the general evaluator accepts "café" (UTF-8) and rejects the Latin-1 bytes; a shortcut
   that compared with the byte reading of the literal would answer the opposite on both rows; the
   shortcut of the code declines *)
Lemma escaped_hex_byte_reading_refuted :
  let lit := [99; 97; 102; 92; 120; 101; 57]%N in
  let s := SCmp (mkCmp fx OEq2 (LStr lit)) in
  let utf := row1 (VStr [99; 97; 102; 195; 169]%N) in
  let lat := row1 (VStr [99; 97; 102; 233]%N) in
  let bytefast := mkF fx OEq2 (FLStr [99; 97; 102; 233]%N) in
  compiles s = true /\ str_value lit = UOk [99; 97; 102; 195; 169]%N /\
  general s utf = GB true /\ general s lat = GB false /\
  fast_cmp_eval bytefast utf = Some false /\ fast_cmp_eval bytefast lat = Some true /\
  fast s utf = None /\ fast s lat = None.
Proof. vm_compute. repeat split; reflexivity. Qed.

(* ------------------------------------------------------------------ comparisons written literal-first *)
Lemma mirror_op_involutive : forall o, mirror_op (mirror_op o) = o.
Proof. destruct o; reflexivity. Qed.

(* `lit OP v` (the three-way comparison seen from the literal: CompOpp) holds exactly when `v mirror(OP) lit` does *)
Lemma mirror_op_swaps_operands : forall o c,
  op_holds (mirror_op o) (option_map CompOpp c) = op_holds o c.
Proof. destruct o; destruct c as [[| |]|]; reflexivity. Qed.

Lemma mixed_mirror : forall o, mixed (mirror_op o) = mixed o.
Proof. destruct o; reflexivity. Qed.

Lemma take_while_head : forall p c r a b x, take_while p (c :: r) = (x :: a, b) -> p c = true.
Proof.
  intros p c r a b x H. simpl in H. destruct (p c) eqn:Hp; [reflexivity|discriminate].
Qed.

(* a literal starts with a quote, a minus sign or a digit *)
Lemma parse_lit_head : forall c r l rest, parse_lit (c :: r) = Some (l, rest) ->
  c = 39%N \/ c = 45%N \/ is_digit c = true.
Proof.
  intros c r l rest H. unfold parse_lit in H.
  destruct (N.eqb c 39) eqn:H39; [left; apply N.eqb_eq; exact H39|].
  destruct (N.eqb c 45) eqn:H45; [right; left; apply N.eqb_eq; exact H45|].
  right; right.
  destruct (take_while is_digit (c :: r)) as [ds s2] eqn:Htw.
  destruct ds as [|d ds']; [discriminate|].
  eapply take_while_head; exact Htw.
Qed.

Lemma lit_head_not_ident : forall c, c = 39%N \/ c = 45%N \/ is_digit c = true -> is_id0 c = false.
Proof.
  intros c [H|[H|H]]; try (subst c; reflexivity).
  unfold is_digit, in_rng in H. apply andb_prop in H. destruct H as [H1 H2].
  apply N.leb_le in H1. apply N.leb_le in H2.
  unfold is_id0, in_rng.
  assert (E1 : N.leb 65 c && N.leb c 90 = false).
  { apply andb_false_iff. left. apply N.leb_gt. lia. }
  assert (E2 : N.leb 97 c && N.leb c 122 = false).
  { apply andb_false_iff. left. apply N.leb_gt. lia. }
  assert (E3 : N.eqb c 95 = false) by (apply N.eqb_neq; lia).
  rewrite E1, E2, E3. reflexivity.
Qed.

(* a comparison written literal-first is not of the shortcut shape *)
Lemma literal_first_not_a_shape : forall s c, parse_cmp_lf s = Some c -> parse_cmp s = None.
Proof.
  intros s c H. unfold parse_cmp_lf in H. unfold parse_cmp.
  destruct (skip_ws s) as [|c0 r0] eqn:Hs; [simpl in H; discriminate|].
  destruct (parse_lit (c0 :: r0)) as [[l s1]|] eqn:Hl; [|discriminate].
  apply parse_lit_head in Hl. apply lit_head_not_ident in Hl.
  unfold parse_ident. rewrite Hl. reflexivity.
Qed.

Lemma map_opt_none : forall {A B} (f : A -> option B) l x, In x l -> f x = None -> map_opt f l = None.
Proof.
  intros A B f l x. induction l as [|y l IH]; intros Hin Hf; [destruct Hin|].
  simpl. destruct Hin as [->|Hin].
  - rewrite Hf. reflexivity.
  - destruct (f y); [|reflexivity]. rewrite (IH Hin Hf). reflexivity.
Qed.

(* ... so no shortcut is compiled for it, alone or as a part of a flat chain: Evaluate takes the general path *)
Theorem literal_first_never_shortcut : forall s c, parse_cmp_lf s = Some c ->
  try_fast_compare s = None /\
  (forall t, In s (split_logic [] t) -> try_fast_compound t = None).
Proof.
  intros s c H. apply literal_first_not_a_shape in H.
  assert (Hc : try_fast_compare s = None) by (unfold try_fast_compare; rewrite H; reflexivity).
  split; [exact Hc|].
  intros t Hin. unfold try_fast_compound. destruct (chain_op t); [|reflexivity].
  rewrite (map_opt_none try_fast_compare _ s Hin Hc). reflexivity.
Qed.
