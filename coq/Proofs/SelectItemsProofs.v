(* C05 — proofs about select items with quoted parts (Model/SelectItems.v): the "field:alias" spec split is
   exact for every text whose quoted sections are closed, whatever those sections contain; the texts the
   statement allows (names, quoted map keys, string literals) are such texts; the result of a query has
   exactly the columns named by its items. *)
From SV Require Import Model.Direct Model.NestedPath Model.SelectItems Proofs.DirectProofs Proofs.NestedPathProofs.
From Coq Require Import Lia ZArith NArith List Bool.
Local Open Scope N_scope.

(* ---- the scanner ---- *)
Lemma fs_split_end : forall s st st' u,
  fs_end st s = Some st' ->
  fs_split_st st (s ++ u) = (s ++ fst (fs_split_st st' u), snd (fs_split_st st' u)).
Proof.
  induction s as [|c s IH]; intros st st' u H; simpl in *.
  - inversion H; subst. destruct (fs_split_st st' u); reflexivity.
  - destruct st as [q|].
    + rewrite (IH _ _ u H). reflexivity.
    + destruct (fs_is_quote c).
      * rewrite (IH _ _ u H). reflexivity.
      * destruct (c =? 58); [discriminate|]. rewrite (IH _ _ u H). reflexivity.
Qed.

Lemma fs_end_app : forall a st b,
  fs_end st (a ++ b) = match fs_end st a with Some st' => fs_end st' b | None => None end.
Proof.
  induction a as [|c a IH]; intros st b; simpl.
  - reflexivity.
  - destruct st as [q|].
    + apply IH.
    + destruct (fs_is_quote c); [apply IH|]. destruct (c =? 58); [reflexivity|apply IH].
Qed.

(* a closed text followed by ':' and an alias splits into exactly the text and the alias *)
Theorem fs_split_alias : forall t a, fs_closed t = true -> fs_split (t ++ 58 :: a) = (t, Some a).
Proof.
  intros t a H. unfold fs_closed in H. destruct (fs_end None t) as [[q|]|] eqn:E; try discriminate.
  unfold fs_split. rewrite (fs_split_end t None None (58 :: a) E). simpl. rewrite app_nil_r. reflexivity.
Qed.
(* a closed text alone has no separator *)
Theorem fs_split_plain : forall t, fs_closed t = true -> fs_split t = (t, None).
Proof.
  intros t H. unfold fs_closed in H. destruct (fs_end None t) as [[q|]|] eqn:E; try discriminate.
  unfold fs_split. rewrite <- (app_nil_r t) at 1. rewrite (fs_split_end t None None [] E). simpl.
  rewrite app_nil_r. reflexivity.
Qed.
(* no ':' at all: no separator, in any scanner state *)
Lemma fs_split_nocolon : forall s st, ~ In 58 s -> fs_split_st st s = (s, None).
Proof.
  induction s as [|c s IH]; intros st H; simpl; [reflexivity|].
  assert (Hc : c =? 58 = false) by (apply N.eqb_neq; intros ->; apply H; left; reflexivity).
  assert (Hs : ~ In 58 s) by (intros X; apply H; right; exact X).
  destruct st as [q|].
  - rewrite (IH _ Hs). reflexivity.
  - destruct (fs_is_quote c); [rewrite (IH _ Hs); reflexivity|]. rewrite Hc. rewrite (IH _ Hs). reflexivity.
Qed.

(* ---- closed texts ---- *)
Lemma fs_closed_app : forall a b, fs_closed a = true -> fs_closed b = true -> fs_closed (a ++ b) = true.
Proof.
  intros a b Ha Hb. unfold fs_closed in *. rewrite fs_end_app.
  destruct (fs_end None a) as [[q|]|]; try discriminate. exact Hb.
Qed.
Lemma fs_closed_nil : fs_closed [] = true.
Proof. reflexivity. Qed.

(* a text without quote characters and without ':' *)
Definition fs_plain (s : bytes) : Prop := forall c, In c s -> fs_is_quote c = false /\ c <> 58.
Lemma fs_closed_plain : forall s, fs_plain s -> fs_closed s = true.
Proof.
  intros s H. unfold fs_closed. assert (E : fs_end None s = Some None).
  { induction s as [|c s IH]; simpl; [reflexivity|].
    destruct (H c (or_introl eq_refl)) as [Hq Hc]. rewrite Hq.
    apply N.eqb_neq in Hc. rewrite Hc. apply IH. intros x Hx. apply H. right. exact Hx. }
  rewrite E. reflexivity.
Qed.
(* a quoted section: opened by a quote character, closed by the same one, anything else in between *)
Lemma fs_end_inside : forall c q, ~ In q c -> fs_end (Some q) c = Some (Some q).
Proof.
  induction c as [|x c IH]; intros q H; simpl; [reflexivity|].
  assert (Hx : x =? q = false) by (apply N.eqb_neq; intros ->; apply H; left; reflexivity).
  rewrite Hx. apply IH. intros X. apply H. right. exact X.
Qed.
Lemma fs_closed_quoted : forall q c, fs_is_quote q = true -> ~ In q c -> fs_closed (q :: c ++ [q]) = true.
Proof.
  intros q c Hq Hc. unfold fs_closed. simpl. rewrite Hq. rewrite fs_end_app. rewrite (fs_end_inside c q Hc).
  simpl. rewrite N.eqb_refl. reflexivity.
Qed.

(* the canonical spelling of a structured path (Model/NestedPath.v np_render) whose names are plain and
   whose bracket contents are plain (an index) or one quoted section (a key in either quote style,
   holding anything but its own quote character) *)
Definition seg_ok (s : nseg) : Prop :=
  match s with
  | SName n => fs_plain n
  | SBr c => fs_plain c \/ exists q k, (q = 39 \/ q = 34) /\ ~ In q k /\ c = q :: k ++ [q]
  end.
Lemma fs_plain_single : forall c, fs_is_quote c = false -> c <> 58 -> fs_plain [c].
Proof. intros c H1 H2 x [<-|[]]. split; assumption. Qed.
Lemma fs_closed_seg : forall b s, seg_ok s -> fs_closed (np_render_seg b s) = true.
Proof.
  intros b [n|c] H; simpl in *.
  - destruct b; [apply fs_closed_plain; exact H|].
    change (46 :: n) with ([46] ++ n). apply fs_closed_app; [reflexivity|apply fs_closed_plain; exact H].
  - change (91 :: c ++ [93]) with ([91] ++ c ++ [93]).
    apply fs_closed_app; [reflexivity|]. apply fs_closed_app; [|reflexivity].
    destruct H as [H|[q [k [Hq [Hk ->]]]]].
    + apply fs_closed_plain. exact H.
    + apply fs_closed_quoted; [destruct Hq as [-> | ->]; reflexivity|exact Hk].
Qed.
Theorem fs_closed_render : forall ss, Forall seg_ok ss -> fs_closed (np_render ss) = true.
Proof.
  intros ss H. destruct ss as [|s ss]; [reflexivity|]. simpl.
  inversion H as [|? ? Hs Hss]; subst. apply fs_closed_app; [apply fs_closed_seg; exact Hs|].
  clear Hs H. induction ss as [|s' ss IH]; simpl; [reflexivity|].
  inversion Hss as [|? ? Hs' Hss']; subst. apply fs_closed_app; [apply fs_closed_seg; exact Hs'|apply IH; exact Hss'].
Qed.

(* ---- compileSimpleFieldInfo on the spec of a well-formed item ---- *)
Definition si_wf (i : sitem) : Prop :=
  match i with
  | SPath t a => fs_closed t = true /\ fs_strip_bt t = t /\
                 match a with Some x => fs_strip_bt x = x | None => True end
  | SLit q c a => (q = 39 \/ q = 34) /\ ~ In q c /\
                  match a with Some x => fs_strip_bt x = x | None => fs_strip_bt c = c /\ c <> [] end
  end.

Lemma fs_strip_bt_other : forall c s, c <> 96 -> fs_strip_bt (c :: s) = c :: s.
Proof.
  intros c s H. unfold fs_strip_bt. destruct s; [reflexivity|].
  apply N.eqb_neq in H. rewrite H. reflexivity.
Qed.

Lemma fs_compile_alias : forall t x, fs_closed t = true ->
  fi_field (fs_compile (t ++ 58 :: x)) = fs_strip_bt t /\ fi_out (fs_compile (t ++ 58 :: x)) = fs_strip_bt x.
Proof. intros t x H. unfold fs_compile. rewrite (fs_split_alias t x H). simpl. auto. Qed.
Lemma fs_compile_plain : forall t, fs_split t = (t, None) ->
  fi_field (fs_compile t) = fs_strip_bt t /\ fi_out (fs_compile t) = fs_strip_bt t.
Proof. intros t H. unfold fs_compile. rewrite H. simpl. auto. Qed.

Lemma fs_compile_names : forall i, si_wf i ->
  fi_out (fs_compile (si_spec i)) = si_name i /\
  fi_field (fs_compile (si_spec i)) = si_text i.
Proof.
  intros [t a|q c a] H; simpl in H.
  - destruct H as [Hc [Ht Ha]]. destruct a as [x|].
    + change (si_spec (SPath t (Some x))) with (t ++ 58 :: x).
      destruct (fs_compile_alias t x Hc) as [F O]. rewrite F, O, Ht, Ha. simpl. auto.
    + change (si_spec (SPath t None)) with t.
      destruct (fs_compile_plain t (fs_split_plain t Hc)) as [F O]. rewrite F, O, Ht. simpl. auto.
  - destruct H as [Hq [Hc Ha]].
    assert (Hq96 : q <> 96) by (destruct Hq as [-> | ->]; discriminate).
    assert (Hquote : fs_is_quote q = true) by (destruct Hq as [-> | ->]; reflexivity).
    destruct a as [x|].
    + change (si_spec (SLit q c (Some x))) with ((q :: c ++ [q]) ++ 58 :: x).
      destruct (fs_compile_alias (q :: c ++ [q]) x (fs_closed_quoted q c Hquote Hc)) as [F O].
      rewrite F, O, Ha. rewrite (fs_strip_bt_other q (c ++ [q]) Hq96). simpl. auto.
    + destruct Ha as [Hbt Hne]. destruct c as [|c0 c']; [congruence|].
      change (si_spec (SLit q (c0 :: c') None)) with ((q :: (c0 :: c') ++ [q]) ++ 58 :: (c0 :: c')).
      destruct (fs_compile_alias (q :: (c0 :: c') ++ [q]) (c0 :: c') (fs_closed_quoted q (c0 :: c') Hquote Hc)) as [F O].
      rewrite F, O, Hbt. rewrite (fs_strip_bt_other q ((c0 :: c') ++ [q]) Hq96). simpl. auto.
Qed.

(* ---- the key set of a result ---- *)
Definition si_is_expr (i : sitem) : bool :=
  match i with
  | SLit _ _ _ => true
  | SPath t _ => match si_route t with RExpr => true | _ => false end
  end.

Lemma si_expr_cells_keys : forall is acc ex, si_expr_cells is acc = Some ex ->
  forall k, nc_lookup ex k <> None <-> (nc_lookup acc k <> None \/ In k (map si_name (filter si_is_expr is))).
Proof.
  induction is as [|i is IH]; intros acc ex H k; simpl in H.
  - inversion H; subst. simpl. tauto.
  - assert (Hset : forall c ex', si_expr_cells is (nc_set acc (si_name i) c) = Some ex' ->
              (nc_lookup ex' k <> None <-> nc_lookup acc k <> None \/ si_name i = k \/ In k (map si_name (filter si_is_expr is)))).
    { intros c ex' He. rewrite (IH _ _ He k). rewrite nc_lookup_set.
      destruct (bytes_eqb k (si_name i)) eqn:E.
      - apply bytes_eqb_eq in E. subst. split; auto. intros _. left. discriminate.
      - split; [intros [A|A]; auto|intros [A|[A|A]]; auto]. subst. rewrite bytes_eqb_refl in E. discriminate. }
    destruct i as [t a|q c a]; simpl.
    + destruct (si_route t) eqn:R; try discriminate.
      * rewrite (IH _ _ H k). tauto.
      * simpl. apply (Hset _ _ H).
    + simpl. apply (Hset _ _ H).
Qed.

Lemma si_simple_cells_keys : forall row ex is acc r,
  Forall (fun i => fi_out (fs_compile (si_spec i)) = si_name i) is ->
  si_simple_cells row ex is acc = SpRow r ->
  (forall k, nc_lookup ex k <> None -> nc_lookup acc k <> None) ->
  forall k, nc_lookup r k <> None <-> (nc_lookup acc k <> None \/ In k (map si_name is)).
Proof.
  induction is as [|i is IH]; intros acc r HF H Hex k; simpl in H.
  - inversion H; subst. simpl. tauto.
  - inversion HF as [|? ? Hi HF']; subst. rewrite Hi in H. simpl.
    destruct (nc_lookup ex (si_name i)) eqn:L.
    + rewrite (IH _ _ HF' H Hex k). split; [tauto|]. intros [A|[A|A]]; auto.
      subst. left. apply Hex. rewrite L. discriminate.
    + assert (Hset : forall c r', si_simple_cells row ex is (nc_set acc (si_name i) c) = SpRow r' ->
                (nc_lookup r' k <> None <-> nc_lookup acc k <> None \/ si_name i = k \/ In k (map si_name is))).
      { intros c r' Hr'.
        assert (Hex' : forall k0, nc_lookup ex k0 <> None -> nc_lookup (nc_set acc (si_name i) c) k0 <> None).
        { intros k0 Hk0. rewrite nc_lookup_set. destruct (bytes_eqb k0 (si_name i)); [discriminate|auto]. }
        rewrite (IH _ _ HF' Hr' Hex' k). rewrite nc_lookup_set.
        destruct (bytes_eqb k (si_name i)) eqn:E.
        - apply bytes_eqb_eq in E. subst. split; auto. intros _. left. discriminate.
        - split; [intros [A|A]; auto|intros [A|[A|A]]; auto]. subst. rewrite bytes_eqb_refl in E. discriminate. }
      destruct (fi_lit (fs_compile (si_spec i))); [apply (Hset _ _ H)|].
      destruct (fi_call (fs_compile (si_spec i))); [discriminate|].
      destruct (ni_value row (fi_field (fs_compile (si_spec i)))); try discriminate; apply (Hset _ _ H).
Qed.

(* the result of a query over well-formed items has exactly the columns its items name: the alias, else
   the text of the item, a literal without alias under its content *)
Theorem sdirect_columns : forall q row r,
  Forall si_wf (sq_items q) -> sdirect q row = SDRow r ->
  forall k, nc_lookup r k <> None <-> In k (sq_columns q).
Proof.
  intros q row r Hwf H k. unfold sdirect in H.
  destruct (nwhere_ok _ row) as [[|]|]; try discriminate.
  destruct (si_expr_cells (sq_items q) []) as [ex|] eqn:Eex; try discriminate.
  destruct (si_simple_cells row ex (sq_items q) ex) as [r'| |] eqn:Es; try discriminate.
  inversion H; subst r'. clear H.
  assert (HF : Forall (fun i => fi_out (fs_compile (si_spec i)) = si_name i) (sq_items q)).
  { eapply Forall_impl; [|exact Hwf]. intros i Hi. apply (fs_compile_names i Hi). }
  rewrite (si_simple_cells_keys _ _ _ _ _ HF Es (fun _ h => h) k).
  rewrite (si_expr_cells_keys _ _ _ Eex k). simpl. unfold sq_columns.
  split; [|tauto]. intros [[A|A]|A]; [congruence| |exact A].
  apply in_map_iff in A. destruct A as [i [Hn Hi]]. apply filter_In in Hi. apply in_map_iff. exists i. tauto.
Qed.

(* a filtered row gives no result, whatever the items *)
Theorem sdirect_none_iff : forall q row,
  sdirect q row = SDNone <-> nwhere_ok {| nq_items := []; nq_where := sq_where q |} row = Some false.
Proof.
  intros q row. unfold sdirect. destruct (nwhere_ok _ row) as [[|]|]; split; try discriminate; auto.
  destruct (si_expr_cells (sq_items q) []); [|discriminate].
  destruct (si_simple_cells row n (sq_items q) n); discriminate.
Qed.

(* ---- values: with pairwise distinct names, a literal's column holds the literal's content ---- *)
Lemma si_simple_cells_keeps : forall row ex is acc r,
  si_simple_cells row ex is acc = SpRow r ->
  forall k, nc_lookup ex k <> None -> nc_lookup r k = nc_lookup acc k.
Proof.
  induction is as [|i is IH]; intros acc r H k Hk; simpl in H.
  - inversion H; subst. reflexivity.
  - destruct (nc_lookup ex (fi_out (fs_compile (si_spec i)))) eqn:L; [apply (IH _ _ H k Hk)|].
    assert (Hne : bytes_eqb k (fi_out (fs_compile (si_spec i))) = false).
    { apply bytes_eqb_neq. intros ->. apply Hk. exact L. }
    assert (Hset : forall c r', si_simple_cells row ex is (nc_set acc (fi_out (fs_compile (si_spec i))) c) = SpRow r' ->
                   nc_lookup r' k = nc_lookup acc k).
    { intros c r' Hr'. rewrite (IH _ _ Hr' k Hk). apply nc_lookup_set_other. exact Hne. }
    destruct (fi_lit (fs_compile (si_spec i))); [apply (Hset _ _ H)|].
    destruct (fi_call (fs_compile (si_spec i))); [discriminate|].
    destruct (ni_value row (fi_field (fs_compile (si_spec i)))); try discriminate; apply (Hset _ _ H).
Qed.

Lemma si_expr_cells_literal : forall is acc ex q c a,
  si_expr_cells is acc = Some ex -> NoDup (map si_name is) -> In (SLit q c a) is ->
  nc_lookup ex (si_name (SLit q c a)) = Some (CVal (JS (VStr c))).
Proof.
  induction is as [|i is IH]; intros acc ex q c a H Hnd Hin; simpl in *; [contradiction|].
  inversion Hnd as [|? ? Hnin Hnd']; subst.
  assert (Hlater : forall acc' v, si_expr_cells is acc' = Some ex -> ~ In (si_name i) (map si_name is) ->
            nc_lookup acc' (si_name i) = Some v -> nc_lookup ex (si_name i) = Some v).
  { clear. induction is as [|j is IHl]; intros acc' v He Hn Hl; simpl in *.
    - inversion He; subst. exact Hl.
    - assert (Hj : si_name j <> si_name i) by (intros X; apply Hn; left; exact X).
      assert (Hn' : ~ In (si_name i) (map si_name is)) by (intros X; apply Hn; right; exact X).
      assert (Hstep : forall cc, nc_lookup (nc_set acc' (si_name j) cc) (si_name i) = Some v).
      { intros cc. rewrite nc_lookup_set_other; [exact Hl|]. apply bytes_eqb_neq. congruence. }
      destruct j as [t b|q' c' b]; simpl in He.
      + destruct (si_route t); try discriminate.
        * apply (IHl _ _ He Hn' Hl).
        * apply (IHl _ _ He Hn' (Hstep _)).
      + apply (IHl _ _ He Hn' (Hstep _)). }
  destruct Hin as [->|Hin].
  - simpl in H. apply (Hlater _ _ H Hnin). apply nc_lookup_set_same.
  - destruct i as [t b|q' c' b]; simpl in H.
    + destruct (si_route t); try discriminate; eapply IH; eauto.
    + eapply IH; eauto.
Qed.

Theorem sdirect_literal_value : forall q row r qt c a,
  sdirect q row = SDRow r -> NoDup (sq_columns q) -> In (SLit qt c a) (sq_items q) ->
  nc_lookup r (si_name (SLit qt c a)) = Some (CVal (JS (VStr c))).
Proof.
  intros q row r qt c a H Hnd Hin. unfold sdirect in H.
  destruct (nwhere_ok _ row) as [[|]|]; try discriminate.
  destruct (si_expr_cells (sq_items q) []) as [ex|] eqn:Eex; try discriminate.
  destruct (si_simple_cells row ex (sq_items q) ex) as [r'| |] eqn:Es; try discriminate.
  inversion H; subst r'. clear H.
  pose proof (si_expr_cells_literal _ _ _ qt c a Eex Hnd Hin) as L.
  rewrite (si_simple_cells_keeps _ _ _ _ _ Es (si_name (SLit qt c a))); [exact L|]. rewrite L. discriminate.
Qed.

(* the result for a row is a function of the row and the query *)
Theorem sdirect_history_free : forall q h row,
  nth (length h) (map (sdirect q) (h ++ [row])) SDNone = sdirect q row.
Proof.
  intros q h row. rewrite map_app. rewrite app_nth2; rewrite map_length; [|lia].
  rewrite Nat.sub_diag. reflexivity.
Qed.

(* ---- a scanner that forgets which quote opened the section (any quote character toggles) ---- *)
Fixpoint fs_split_toggle (inq : bool) (s : bytes) : bytes * option bytes :=
  match s with
  | [] => ([], None)
  | c :: s' =>
      if fs_is_quote c then let (a, b) := fs_split_toggle (negb inq) s' in (c :: a, b)
      else if (c =? 58) && negb inq then ([], Some s')
      else let (a, b) := fs_split_toggle inq s' in (c :: a, b)
  end.
