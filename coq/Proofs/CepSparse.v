(* C15 — sparse rows. Events are heterogeneous maps: a row may lack column c (class code >= 5) or
   column v ([r_vnull]). A DEFINE condition that reads a column the candidate row (or, through
   PREV, the previous row of the run) lacks is NULL = not true, whatever earlier rows carried; so
   no reference match labels such a row with that variable. *)
From Coq Require Import List ZArith NArith Bool Arith Lia.
From SV Require Import Model.Cep Spec.CepSpec Proofs.CepProofs.
Import ListNotations.

Lemma cls_ok_absent : forall mask cls, (mask < 31)%N -> (5 <= cls)%N -> cls_ok mask cls = false.
Proof.
  intros mask cls Hm Hc. unfold cls_ok. apply orb_false_iff. split.
  - apply N.eqb_neq. lia.
  - destruct (N.eq_dec mask 0) as [E|Hz]; [subst mask; apply N.bits_0|].
    apply N.bits_above_log2. apply N.log2_lt_pow2; [lia|].
    assert (E5 : (2 ^ 5 = 32)%N) by reflexivity.
    apply N.lt_le_trans with (2 ^ 5)%N; [lia|apply N.pow_le_mono_r; lia].
Qed.

Lemma cls_ok_no_test : forall cls, cls_ok 31 cls = true.
Proof. intro cls. reflexivity. Qed.

Lemma cmp_ok_null : forall c prev r, (c = 1 \/ c = 2)%N ->
  (r_vnull r = true \/ exists q, prev = Some q /\ r_vnull q = true) -> cmp_ok c prev r = false.
Proof.
  intros c prev r Hc Hn. unfold cmp_ok.
  destruct Hc as [Hc|Hc]; subst c; (destruct prev as [q|]; [|reflexivity]);
    (destruct Hn as [Hn|[q' [Eq Hn]]]; [rewrite Hn; rewrite andb_false_r; reflexivity
                                       |inversion Eq; subst q'; rewrite Hn; reflexivity]).
Qed.

(* the DEFINE of variable [v] reads a column that the candidate row [r] (class test, comparison)
   or the previous row of the run (PREV) does not carry *)
Definition reads_missing (defs : list cdef) (prev : option crow) (r : crow) (v : N) : Prop :=
  exists d, nth_error defs (N.to_nat v) = Some d /\
    (((d_mask d < 31)%N /\ (5 <= r_cls r)%N) \/
     ((d_cmp d = 1 \/ d_cmp d = 2)%N /\ (r_vnull r = true \/ exists q, prev = Some q /\ r_vnull q = true))).

Lemma sat_reads_missing : forall defs prev r v, reads_missing defs prev r v -> sat defs prev r v = false.
Proof.
  intros defs prev r v [d [Hd H]]. unfold sat. rewrite Hd.
  destruct H as [[Hm Hc]|[Hc Hn]].
  - rewrite (cls_ok_absent _ _ Hm Hc). reflexivity.
  - rewrite (cmp_ok_null _ _ _ Hc Hn). apply andb_false_r.
Qed.

(* the previous row of the match for the row at offset i *)
Definition prev_at (prev : option crow) (seg : list crow) (i : nat) : option crow :=
  match i with 0 => prev | S j => nth_error seg j end.

Lemma spells_no_missing : forall defs prev seg w, spells defs prev seg w ->
  forall i r v, nth_error seg i = Some r -> nth_error w i = Some v ->
  ~ reads_missing defs (prev_at prev seg i) r v.
Proof.
  intros defs prev seg w H. induction H as [prev|prev r0 t v0 w0 Hs Ht IH]; intros i r v Hr Hv.
  - destruct i; discriminate.
  - destruct i as [|j].
    + simpl in Hr, Hv. inversion Hr; inversion Hv; subst. simpl. intro M.
      apply sat_reads_missing in M. congruence.
    + simpl in Hr, Hv. specialize (IH j r v Hr Hv). intro M. apply IH.
      destruct j as [|j']; simpl in *; exact M.
Qed.

Lemma spells_length : forall defs prev seg w, spells defs prev seg w -> length w = length seg.
Proof. intros defs prev seg w H. induction H; simpl; congruence. Qed.

(* every reference match has a classification (a word of PATTERN, one variable per row) in which no
   row is labelled with a variable whose DEFINE reads a column that row / its PREV row lacks *)
Theorem ref_sparse_rows : forall c rows q k, In (q, k) (ref_matches c rows) ->
  exists w, word_in (c_pat c) w /\ length w = k /\
    forall i r v, nth_error (firstn k (skipn q rows)) i = Some r -> nth_error w i = Some v ->
      ~ reads_missing (c_defs c) (prev_at None (firstn k (skipn q rows)) i) r v.
Proof.
  intros c rows q k Hin. destruct (ref_valid _ _ _ _ Hin) as [K [B V]].
  unfold valid in V. destruct (firstn k (skipn q rows)) as [|r0 t] eqn:E; [destruct V|].
  destruct V as [[w [Hw Hs]] _]. exists w. split; [assumption|]. split.
  - rewrite (spells_length _ _ _ _ Hs). rewrite <- E. rewrite firstn_length, skipn_length. lia.
  - apply (spells_no_missing _ _ _ _ Hs).
Qed.

(* MEASURES over bare columns read the LAST row of the match and nothing else *)
Lemma bare_obs_last : forall seg r, bare_obs (seg ++ [r]) = Some (bare_of r).
Proof. intros seg r. unfold bare_obs. rewrite rev_app_distr. reflexivity. Qed.

Lemma bare_obs_absent : forall seg r, (5 <= r_cls r)%N -> r_vnull r = true ->
  bare_obs (seg ++ [r]) = Some (5%N, None).
Proof.
  intros seg r Hc Hn. rewrite bare_obs_last. unfold bare_of. rewrite Hn.
  destruct (N.ltb (r_cls r) 5) eqn:E; [apply N.ltb_lt in E; lia|reflexivity].
Qed.
