(* C14 — PARTITION BY paths into tree rows: proofs (Model/AnalyticPath.v, Spec/AnalyticPathSpec.v). *)
From Coq Require Import Lia.
From SV Require Import Model.Analytic Model.AnalyticMulti Model.AnalyticPath Spec.AnalyticSpec Spec.AnalyticPathSpec
  Proofs.AnalyticEngine Proofs.AnalyticField Proofs.AnalyticMulti Proofs.AnalyticGated.

(* ---------------------------------------------------------------- the resolved value *)

(* a key whose path leads somewhere is resolved to the value at the path, with or without the fallback *)
Lemma resolve_at_path fb r key x :
  alookup key r = None -> an_path_get (an_split_dot key) (ANMap r) = Some x ->
  an_resolve fb r key = an_scalar (Some x).
Proof.
  intros Hd Hp. unfold an_resolve, an_resolve_x. rewrite Hd, Hp. reflexivity.
Qed.

(* ... and that value depends on the row only through the column the path starts at: two rows that carry the same
   object under that column are in the same partition whatever else they hold (a top-level column named like the
   leaf included) *)
Theorem nested_key_own_path : forall fb r1 r2 key p t x,
  an_split_dot key = p :: t -> alookup key r1 = None -> alookup key r2 = None ->
  alookup p r1 = alookup p r2 -> an_path_get (p :: t) (ANMap r1) = Some x ->
  an_resolve fb r1 key = an_scalar (Some x) /\ an_resolve fb r2 key = an_scalar (Some x).
Proof.
  intros fb r1 r2 key p t x Hs H1 H2 Hp Hg. split.
  - apply resolve_at_path; [exact H1|rewrite Hs; exact Hg].
  - apply resolve_at_path; [exact H2|]. rewrite Hs. cbn [an_path_get] in *. rewrite <- Hp. exact Hg.
Qed.

(* without a fallback hit the code's resolution is the declarative one *)
Lemma resolve_no_hit r key : an_fallback_hit r key = false -> an_resolve true r key = an_resolve false r key.
Proof.
  unfold an_fallback_hit, an_resolve, an_resolve_x. intros H.
  destruct (alookup key r) as [x|]; [reflexivity|].
  destruct (an_path_get (an_split_dot key) (ANMap r)) as [x|]; [reflexivity|].
  destruct (an_suffix_get r key); [discriminate|reflexivity].
Qed.

(* ---------------------------------------------------------------- an_dedup / an_mem *)
Lemma mem_in k l : an_mem k l = true <-> In k l.
Proof.
  unfold an_mem. rewrite existsb_exists. split.
  - intros [y [Hin He]]. apply bytes_eqb_eq in He. subst y. exact Hin.
  - intros Hin. exists k. split; [exact Hin|apply bytes_eqb_refl].
Qed.

Lemma dedup_in k l : In k (an_dedup l) -> In k l.
Proof.
  induction l as [|a t IH]; simpl; [tauto|].
  destruct (an_mem a t); simpl; intros H.
  - right. apply IH. exact H.
  - destruct H as [H|H]; [left; exact H|right; apply IH; exact H].
Qed.

Lemma dedup_nodup l : NoDup (an_dedup l).
Proof.
  induction l as [|a t IH]; simpl; [constructor|].
  destruct (an_mem a t) eqn:E; [exact IH|].
  constructor; [|exact IH]. intros Hin. apply dedup_in in Hin. apply mem_in in Hin. congruence.
Qed.

Lemma dotted_in k keys : In k (an_dotted keys) -> In k keys.
Proof.
  unfold an_dotted. intros H. apply dedup_in in H. apply filter_In in H. tauto.
Qed.

(* ---------------------------------------------------------------- the flat row is a map *)
Definition nrow_ok (r : anrow) : Prop := NoDup (map fst r).

Lemma leaves_fst_in r k : In k (map fst (an_leaves r)) -> In k (map fst r).
Proof.
  unfold an_leaves. induction r as [|[n x] t IH]; simpl; [tauto|].
  rewrite map_app, in_app_iff. intros [H|H].
  - destruct x; simpl in H; [destruct H as [H|[]]; left; exact H|contradiction].
  - right. apply IH. exact H.
Qed.

Lemma leaves_nodup r : nrow_ok r -> NoDup (map fst (an_leaves r)).
Proof.
  unfold nrow_ok, an_leaves. induction r as [|[n x] t IH]; simpl; intros Hnd; [constructor|].
  inversion Hnd as [|a l Hnin Hnd']; subst.
  destruct x as [v|m]; simpl.
  - constructor; [|apply IH; exact Hnd']. intros Hin. apply Hnin. apply leaves_fst_in. exact Hin.
  - apply IH. exact Hnd'.
Qed.

Lemma filter_fst_nodup (f : bytes * aval -> bool) (l : arow) : NoDup (map fst l) -> NoDup (map fst (filter f l)).
Proof.
  induction l as [|a t IH]; simpl; intros Hnd; [constructor|].
  inversion Hnd as [|b l' Hnin Hnd']; subst.
  destruct (f a); simpl.
  - constructor; [|apply IH; exact Hnd']. intros Hin. apply Hnin.
    apply in_map_iff in Hin. destruct Hin as [y [Hy Hin]]. apply filter_In in Hin.
    apply in_map_iff. exists y. tauto.
  - apply IH. exact Hnd'.
Qed.

Lemma nodup_app_disj (A : Type) (a b : list A) :
  NoDup a -> NoDup b -> (forall x, In x a -> ~ In x b) -> NoDup (a ++ b).
Proof.
  induction a as [|x t IH]; simpl; intros Ha Hb Hd; [exact Hb|].
  inversion Ha as [|y l Hnin Ha']; subst.
  constructor.
  - rewrite in_app_iff. intros [H|H]; [exact (Hnin H)|exact (Hd x (or_introl eq_refl) H)].
  - apply IH; [exact Ha'|exact Hb|]. intros z Hz. apply Hd. right. exact Hz.
Qed.

Lemma flatten_row_ok fb keys r : nrow_ok r -> row_ok (an_flatten fb keys r).
Proof.
  intros Hr. unfold row_ok, an_flatten. rewrite map_app, map_map. cbn [fst]. rewrite map_id.
  apply nodup_app_disj.
  - apply dedup_nodup.
  - apply filter_fst_nodup. apply leaves_nodup. exact Hr.
  - intros k Hk Hin. apply in_map_iff in Hin. destruct Hin as [[n v] [Hn Hin]]. cbn [fst] in Hn. subst n.
    apply filter_In in Hin. destruct Hin as [_ Hf]. cbn [fst] in Hf.
    apply mem_in in Hk. unfold an_dotted in Hf. fold (an_dotted keys) in Hf. rewrite Hk in Hf. discriminate.
Qed.

Lemma nflat_rows_ok fb q h : Forall nrow_ok h -> Forall row_ok (an_nflat fb q h).
Proof.
  intros Hh. unfold an_nflat. apply Forall_forall. intros r Hin.
  apply in_map_iff in Hin. destruct Hin as [x [<- Hx]]. apply flatten_row_ok.
  rewrite Forall_forall in Hh. apply Hh. exact Hx.
Qed.

(* ---------------------------------------------------------------- queries over tree rows *)

(* the model of EmitSync on tree rows IS the extracted specification over the code's resolution, for every query
   of the second family, every history of tree rows and every interleaving within the cap *)
Theorem nested_msync_spec : forall q h, mquery_wf q = true -> Forall nrow_ok h -> an_nmwithin true q h = true ->
  an_nmsync q h = an_nmspec true false q h.
Proof.
  intros q h Hwf Hh Hcap. unfold an_nmsync, an_nmspec.
  apply msync_spec; [exact Hwf|apply nflat_rows_ok; exact Hh|exact Hcap].
Qed.

Definition no_fallback (q : amquery) (h : list anrow) : Prop :=
  forall r k, In r h -> In k (an_mkeys q) -> an_fallback_hit r k = false.

Lemma flatten_no_hit keys r : (forall k, In k keys -> an_fallback_hit r k = false) ->
  an_flatten true keys r = an_flatten false keys r.
Proof.
  intros H. unfold an_flatten. f_equal. apply map_ext_in. intros k Hk.
  rewrite (resolve_no_hit r k); [reflexivity|]. apply H. apply dotted_in. exact Hk.
Qed.

Lemma nflat_no_hit q h : no_fallback q h -> an_nflat true q h = an_nflat false q h.
Proof.
  intros H. unfold an_nflat. apply map_ext_in. intros r Hr. apply flatten_no_hit. intros k Hk. apply H; assumption.
Qed.

(* ... and it is the DECLARATIVE specification (partition value = value at the path, NULL when the path leads
   nowhere) on every history in which no row takes the suffix fallback: every row whose keys are plain columns,
   literally named columns, paths that lead to a value (NULL included), or paths that lead nowhere while the row
   has no top-level column named like the leaf *)
Theorem nested_msync_strict : forall q h, mquery_wf q = true -> Forall nrow_ok h -> no_fallback q h ->
  an_nmwithin false q h = true -> an_nmsync q h = an_nmspec false false q h.
Proof.
  intros q h Hwf Hh Hnf Hcap. unfold an_nmwithin in Hcap. unfold an_nmspec. rewrite <- (nflat_no_hit q h Hnf) in *.
  apply nested_msync_spec; assumption.
Qed.

Theorem nested_msync_async_same : forall q sch h, an_nmasync q sch h = an_nmsync q h.
Proof.
  intros q sch h. unfold an_nmasync, an_nmsync. apply msync_async_same.
Qed.

(* the finding: a row whose path leads nowhere is keyed by its top-level column named like the leaf.
   PARTITION BY meta.site, rows {meta:{site:"A"}, v:1} and {site:"A", v:100}: acc_sum(v) is 1, 101 in the code
   (the second row joined partition "A"), 1, 100 by the statement (its meta.site is NULL) *)
Definition ex_key : bytes := [109; 101; 116; 97; 46; 115; 105; 116; 101]%N.   (* "meta.site" *)
Definition ex_meta : bytes := [109; 101; 116; 97]%N.
Definition ex_site : bytes := [115; 105; 116; 101]%N.
Definition ex_v : bytes := [118]%N.
Definition ex_q : amquery :=
  {| mq_items := [ {| af_kind := AKSingle {| ca_fn := AFAcc AKSum; ca_args := [AEField ex_v] |};
                      af_part := [ex_key]; af_when := None |} ];
     mq_wcol := None; mq_wan := None; mq_cap := 5 |}.
Definition ex_h : list anrow :=
  [ [(ex_meta, ANMap [(ex_site, ANLeaf (AVStr [65]%N))]); (ex_v, ANLeaf (AVInt 1))];
    [(ex_site, ANLeaf (AVStr [65]%N)); (ex_v, ANLeaf (AVInt 100))] ].

Theorem nested_missing_fallback_asis_refuted :
  an_split_dot ex_key = [ex_meta; ex_site] /\
  an_nmsync ex_q ex_h = [Some [AOV (AVFlt 1)]; Some [AOV (AVFlt 101)]] /\
  an_nmspec false false ex_q ex_h = [Some [AOV (AVFlt 1)]; Some [AOV (AVFlt 100)]] /\
  an_nmwithin true ex_q ex_h = true /\ an_nmwithin false ex_q ex_h = true.
Proof. repeat split; vm_compute; reflexivity. Qed.
