(* C07: the insertion sort of Sorter.Sort — permutation, sortedness, stability — and the order
   induced by compareOrderValues on columns of homogeneous type. *)
From Coq Require Import QArith Permutation Sorted Lia.
From SV Require Import Model.PostAgg.

(* ------------------------------------------------------------------ generic insertion sort *)
Section Isort.
  Variable A : Type.
  Variable less : A -> A -> bool.

  Lemma pa_ins_perm : forall x rp, Permutation (pa_ins less x rp) (x :: rp).
  Proof.
    induction rp as [|y r IH]; simpl; [reflexivity|].
    destruct (less x y) eqn:E; [|reflexivity].
    rewrite IH. apply perm_swap.
  Qed.

  Lemma pa_fold_perm : forall l rp,
    Permutation (fold_left (fun rp x => pa_ins less x rp) l rp) (rev l ++ rp).
  Proof.
    induction l as [|x l IH]; intro rp; simpl; [reflexivity|].
    rewrite IH. rewrite <- app_assoc. simpl.
    apply Permutation_app_head. apply pa_ins_perm.
  Qed.

  Lemma pa_isort_perm : forall l, Permutation (pa_isort less l) l.
  Proof.
    intro l. unfold pa_isort. rewrite <- Permutation_rev.
    rewrite pa_fold_perm. rewrite app_nil_r. symmetry. apply Permutation_rev.
  Qed.

  (* sortedness, relative to a set P of elements on which [less] is asymmetric and its negation
     is transitive *)
  Variable P : A -> Prop.
  Hypothesis asym : forall a b, P a -> P b -> less a b = true -> less b a = false.
  Hypothesis ntrans : forall a b c, P a -> P b -> P c ->
    less b a = false -> less c b = false -> less c a = false.

  (* the reversed prefix: an element that is later in the real order is never less than an earlier one *)
  Definition pa_rsorted (rp : list A) : Prop := StronglySorted (fun y x => less y x = false) rp.

  Lemma pa_ins_in : forall x rp z, In z (pa_ins less x rp) -> z = x \/ In z rp.
  Proof.
    intros x rp z H. apply (Permutation_in _ (pa_ins_perm x rp)) in H. simpl in H.
    destruct H; auto.
  Qed.

  Lemma pa_ins_rsorted : forall x rp, P x -> Forall P rp -> pa_rsorted rp -> pa_rsorted (pa_ins less x rp).
  Proof.
    induction rp as [|y r IH]; intros Px Pr S; simpl.
    - constructor; constructor.
    - inversion Pr as [|? ? Py Pr']; subst. inversion S as [|? ? Sr Fy]; subst.
      destruct (less x y) eqn:E.
      + constructor; [apply IH; assumption|].
        rewrite Forall_forall. intros z Hz. apply pa_ins_in in Hz. destruct Hz as [->|Hz].
        * apply asym; assumption.
        * rewrite Forall_forall in Fy. apply Fy; assumption.
      + constructor; [assumption|].
        constructor; [assumption|].
        rewrite Forall_forall. intros z Hz.
        rewrite Forall_forall in Fy, Pr'.
        (* z earlier than y, y not after x ... : less y z = false, less x y = false => less x z = false *)
        apply (ntrans z y x); auto.
  Qed.

  Lemma pa_fold_rsorted : forall l rp, Forall P l -> Forall P rp -> pa_rsorted rp ->
    pa_rsorted (fold_left (fun rp x => pa_ins less x rp) l rp)
    /\ Forall P (fold_left (fun rp x => pa_ins less x rp) l rp).
  Proof.
    induction l as [|x l IH]; intros rp Pl Pr S; simpl; [split; assumption|].
    inversion Pl; subst.
    apply IH; [assumption| |apply pa_ins_rsorted; assumption].
    rewrite Forall_forall. intros z Hz. apply pa_ins_in in Hz. destruct Hz as [->|Hz]; [assumption|].
    rewrite Forall_forall in Pr. auto.
  Qed.

  Lemma pa_ss_snoc : forall (R : A -> A -> Prop) l a,
    StronglySorted R l -> Forall (fun x => R x a) l -> StronglySorted R (l ++ [a]).
  Proof.
    induction l as [|y l IH]; intros a S F; simpl.
    - constructor; constructor.
    - inversion S; subst. inversion F; subst. constructor; [apply IH; assumption|].
      apply Forall_app. split; [assumption|]. constructor; [assumption|constructor].
  Qed.

  Lemma pa_ss_rev : forall (R : A -> A -> Prop) l,
    StronglySorted (fun y x => R x y) l -> StronglySorted R (rev l).
  Proof.
    induction l as [|y l IH]; intro S; simpl; [constructor|].
    inversion S as [|? ? S' F]; subst. apply pa_ss_snoc; [apply IH; assumption|].
    rewrite Forall_forall in *. intros x Hx. apply in_rev in Hx. apply F; assumption.
  Qed.

  (* a before b in the result  ==>  b is not less than a *)
  Lemma pa_isort_sorted : forall l, Forall P l ->
    StronglySorted (fun a b => less b a = false) (pa_isort less l).
  Proof.
    intros l Pl. unfold pa_isort. apply pa_ss_rev.
    apply pa_fold_rsorted; [assumption|constructor|constructor].
  Qed.
End Isort.

(* stability: any set of elements none of which is less than another keeps its relative order.
   (No assumption on [less]: this is a property of the algorithm.) *)
Section Stable.
  Variable A : Type.
  Variable less : A -> A -> bool.
  Variable S : A -> bool.
  Hypothesis Sless : forall x y, S x = true -> S y = true -> less x y = false.

  Lemma pa_ins_filter : forall x rp, filter S (pa_ins less x rp) = filter S (x :: rp).
  Proof.
    induction rp as [|y r IH]; [reflexivity|].
    simpl pa_ins. destruct (less x y) eqn:E; [|reflexivity].
    simpl. rewrite IH. simpl.
    destruct (S x) eqn:Sx; destruct (S y) eqn:Sy; try reflexivity.
    rewrite (Sless x y Sx Sy) in E. discriminate.
  Qed.

  Lemma pa_filter_rev : forall (l : list A), filter S (rev l) = rev (filter S l).
  Proof.
    induction l as [|x l IH]; [reflexivity|]. simpl. rewrite filter_app, IH. simpl.
    destruct (S x); simpl; [reflexivity|apply app_nil_r].
  Qed.

  Lemma pa_fold_filter : forall l rp,
    filter S (fold_left (fun rp x => pa_ins less x rp) l rp) = rev (filter S l) ++ filter S rp.
  Proof.
    induction l as [|x l IH]; intro rp; [reflexivity|].
    simpl fold_left. rewrite IH, pa_ins_filter. simpl.
    destruct (S x); simpl; [|reflexivity]. rewrite <- app_assoc. reflexivity.
  Qed.

  Lemma pa_isort_stable : forall l, filter S (pa_isort less l) = filter S l.
  Proof.
    intro l. unfold pa_isort. rewrite pa_filter_rev, pa_fold_filter. simpl.
    rewrite app_nil_r. apply rev_involutive.
  Qed.
End Stable.

(* ------------------------------------------------------------------ compareOrderValues *)
Lemma pa_bytes_cmp_antisym : forall a b, pa_bytes_cmp b a = CompOpp (pa_bytes_cmp a b).
Proof.
  induction a as [|x a IH]; destruct b as [|y b]; simpl; try reflexivity.
  rewrite (N.compare_antisym x y). destruct (N.compare x y); simpl; auto.
Qed.

Lemma pa_bytes_cmp_eq : forall a b, pa_bytes_cmp a b = Eq -> a = b.
Proof.
  induction a as [|x a IH]; destruct b as [|y b]; simpl; intro H; try discriminate; [reflexivity|].
  destruct (N.compare x y) eqn:E; try discriminate.
  apply N.compare_eq in E. subst. f_equal. auto.
Qed.

Lemma pa_bytes_cmp_refl : forall a, pa_bytes_cmp a a = Eq.
Proof. induction a as [|x a IH]; simpl; [reflexivity|]. rewrite N.compare_refl. assumption. Qed.

Lemma pa_bytes_cmp_lt_trans : forall a b c,
  pa_bytes_cmp a b = Lt -> pa_bytes_cmp b c = Lt -> pa_bytes_cmp a c = Lt.
Proof.
  induction a as [|x a IH]; destruct b as [|y b]; destruct c as [|z c]; simpl; intros H1 H2;
    try discriminate; try reflexivity.
  destruct (N.compare x y) eqn:E1; try discriminate;
  destruct (N.compare y z) eqn:E2; try discriminate.
  - apply N.compare_eq in E1. apply N.compare_eq in E2. subst. rewrite N.compare_refl. eauto.
  - apply N.compare_eq in E1. subst. rewrite E2. reflexivity.
  - apply N.compare_eq in E2. subst. rewrite E1. reflexivity.
  - rewrite N.compare_lt_iff in *. assert (x < z)%N by lia.
    apply N.compare_lt_iff in H. rewrite H. reflexivity.
Qed.

(* the two homogeneous classes of a column: numbers (or missing), and everything else (or missing) *)
Definition pa_numc (v : option pa_val) : bool :=
  match v with None | Some (PaNum _) => true | _ => false end.
Definition pa_strc (v : option pa_val) : bool :=
  match v with None | Some (PaStr _) | Some PaNull | Some (PaBool _) => true | _ => false end.

(* antisymmetry holds for all values, also across types *)
Lemma pa_cmp_val_antisym : forall a b, pa_cmp_val b a = CompOpp (pa_cmp_val a b).
Proof.
  intros [[x|s| |bx]|] [[y|t| |by']|]; cbv beta iota delta [pa_cmp_val]; try reflexivity;
    try apply pa_bytes_cmp_antisym; symmetry; apply Qcompare_antisym.
Qed.

Definition pa_same_class (a b c : option pa_val) : Prop :=
  (pa_numc a = true /\ pa_numc b = true /\ pa_numc c = true)
  \/ (pa_strc a = true /\ pa_strc b = true /\ pa_strc c = true).

Ltac pa_cases a b c :=
  destruct a as [[?x|?s| |?bx]|]; destruct b as [[?y|?t| |?bx]|]; destruct c as [[?z|?u| |?bx]|];
  cbv beta iota delta [pa_cmp_val pa_numc pa_strc pa_order_string] in *;
  try discriminate; try congruence.

Lemma pa_cmp_val_eq_l : forall a b c r, pa_same_class a b c ->
  pa_cmp_val a b = Eq -> pa_cmp_val b c = r -> pa_cmp_val a c = r.
Proof.
  intros a b c r [[Ha [Hb Hc]]|[Ha [Hb Hc]]] H1 H2.
  - pa_cases a b c.
    apply Qeq_alt in H1. subst r.
    destruct (Qcompare y z) eqn:E.
    + apply Qeq_alt in E. apply Qeq_alt. rewrite H1. assumption.
    + apply Qlt_alt in E. apply Qlt_alt. rewrite H1. assumption.
    + apply Qgt_alt in E. apply Qgt_alt. rewrite H1. assumption.
  - pa_cases a b c; apply pa_bytes_cmp_eq in H1; try rewrite H1; try rewrite <- H1; congruence.
Qed.

Lemma pa_cmp_val_lt_trans : forall a b c, pa_same_class a b c ->
  pa_cmp_val a b = Lt -> pa_cmp_val b c = Lt -> pa_cmp_val a c = Lt.
Proof.
  intros a b c [[Ha [Hb Hc]]|[Ha [Hb Hc]]] H1 H2.
  - pa_cases a b c.
    apply Qlt_alt in H1. apply Qlt_alt in H2. apply Qlt_alt. eapply Qlt_trans; eassumption.
  - pa_cases a b c; eapply pa_bytes_cmp_lt_trans; eassumption.
Qed.

(* ------------------------------------------------------------------ Sorter.less as a lexicographic comparison *)
Definition pa_flip (d : pa_dir) (c : comparison) : comparison :=
  match d with PaAsc => c | PaDesc => CompOpp c end.

Fixpoint pa_lex (keys : pa_keys) (a b : pa_row) : comparison :=
  match keys with
  | [] => Eq
  | (k, d) :: ks =>
      match pa_cmp_val (pa_lookup k a) (pa_lookup k b) with
      | Eq => pa_lex ks a b
      | c => pa_flip d c
      end
  end.

Lemma pa_less_lex : forall keys a b, pa_less keys a b = true <-> pa_lex keys a b = Lt.
Proof.
  induction keys as [|[k d] ks IH]; intros a b; simpl; [split; discriminate|].
  destruct (pa_cmp_val (pa_lookup k a) (pa_lookup k b)); [apply IH| |];
    destruct d; simpl; split; intro H; try reflexivity; try discriminate.
Qed.

Lemma pa_lex_antisym : forall keys a b, pa_lex keys b a = CompOpp (pa_lex keys a b).
Proof.
  induction keys as [|[k d] ks IH]; intros a b; simpl; [reflexivity|].
  rewrite (pa_cmp_val_antisym (pa_lookup k a) (pa_lookup k b)).
  destruct (pa_cmp_val (pa_lookup k a) (pa_lookup k b)); simpl; [apply IH| |]; destruct d; reflexivity.
Qed.

(* asymmetry needs no assumption on the column types *)
Lemma pa_less_asym : forall keys a b, pa_less keys a b = true -> pa_less keys b a = false.
Proof.
  intros keys a b H. apply pa_less_lex in H.
  destruct (pa_less keys b a) eqn:E; [|reflexivity].
  apply pa_less_lex in E. rewrite pa_lex_antisym, H in E. discriminate.
Qed.

(* a row respects the classes chosen for the key columns ([true] = numeric column) *)
Fixpoint pa_row_class (keys : pa_keys) (cls : list bool) (r : pa_row) : Prop :=
  match keys, cls with
  | [], _ => True
  | (k, _) :: ks, c :: cs =>
      (if c then pa_numc (pa_lookup k r) else pa_strc (pa_lookup k r)) = true /\ pa_row_class ks cs r
  | _ :: _, [] => False
  end.

Lemma pa_lex_trans : forall keys cls a b c,
  pa_row_class keys cls a -> pa_row_class keys cls b -> pa_row_class keys cls c ->
  (pa_lex keys a b = Eq -> pa_lex keys b c = pa_lex keys a c)
  /\ (pa_lex keys a b = Lt -> pa_lex keys b c <> Gt -> pa_lex keys a c = Lt).
Proof.
  induction keys as [|[k d] ks IH]; intros cls a b c Ca Cb Cc.
  - simpl. split; [reflexivity|discriminate].
  - destruct cls as [|cl cs]; [destruct Ca|]. simpl in Ca, Cb, Cc.
    destruct Ca as [Ka Ca], Cb as [Kb Cb], Cc as [Kc Cc].
    assert (SC : pa_same_class (pa_lookup k a) (pa_lookup k b) (pa_lookup k c)).
    { destruct cl; [left|right]; auto. }
    assert (SC' : pa_same_class (pa_lookup k c) (pa_lookup k b) (pa_lookup k a)).
    { destruct cl; [left|right]; auto. }
    assert (SC'' : pa_same_class (pa_lookup k b) (pa_lookup k c) (pa_lookup k a)).
    { destruct cl; [left|right]; auto. }
    destruct (IH cs a b c Ca Cb Cc) as [IHe IHl].
    simpl.
    destruct (pa_cmp_val (pa_lookup k a) (pa_lookup k b)) eqn:Eab.
    + (* first key equal *)
      rewrite (pa_cmp_val_eq_l _ _ _ _ SC Eab eq_refl).
      destruct (pa_cmp_val (pa_lookup k b) (pa_lookup k c)) eqn:Ebc; split; auto; try discriminate.
      * intros H1 H2. destruct d; simpl in *; congruence.
      * intros H1 H2. destruct d; simpl in *; congruence.
    + (* a < b on the first key *)
      assert (Eba : pa_cmp_val (pa_lookup k b) (pa_lookup k a) = Gt).
      { rewrite pa_cmp_val_antisym, Eab. reflexivity. }
      destruct (pa_cmp_val (pa_lookup k b) (pa_lookup k c)) eqn:Ebc.
      * (* b = c : a ? c = a ? b *)
        assert (Ecb : pa_cmp_val (pa_lookup k c) (pa_lookup k b) = Eq).
        { rewrite pa_cmp_val_antisym, Ebc. reflexivity. }
        pose proof (pa_cmp_val_eq_l _ _ _ _ SC' Ecb Eba) as Eca.
        assert (Eac : pa_cmp_val (pa_lookup k a) (pa_lookup k c) = Lt).
        { rewrite pa_cmp_val_antisym, Eca. reflexivity. }
        rewrite Eac. split; [destruct d; discriminate|]. auto.
      * rewrite (pa_cmp_val_lt_trans _ _ _ SC Eab Ebc).
        split; [destruct d; discriminate|]. auto.
      * split; [destruct d; discriminate|].
        destruct d; simpl; intros H1 H2; try discriminate; congruence.
    + (* a > b on the first key *)
      destruct (pa_cmp_val (pa_lookup k b) (pa_lookup k c)) eqn:Ebc.
      * assert (Ecb : pa_cmp_val (pa_lookup k c) (pa_lookup k b) = Eq).
        { rewrite pa_cmp_val_antisym, Ebc. reflexivity. }
        assert (Eba : pa_cmp_val (pa_lookup k b) (pa_lookup k a) = Lt).
        { rewrite pa_cmp_val_antisym, Eab. reflexivity. }
        pose proof (pa_cmp_val_eq_l _ _ _ _ SC' Ecb Eba) as Eca.
        assert (Eac : pa_cmp_val (pa_lookup k a) (pa_lookup k c) = Gt).
        { rewrite pa_cmp_val_antisym, Eca. reflexivity. }
        rewrite Eac. split; [destruct d; discriminate|]. auto.
      * split; [destruct d; discriminate|].
        destruct d; simpl; intros H1 H2; try discriminate; congruence.
      * (* c < b < a *)
        assert (Ecb : pa_cmp_val (pa_lookup k c) (pa_lookup k b) = Lt).
        { rewrite pa_cmp_val_antisym, Ebc. reflexivity. }
        assert (Eba : pa_cmp_val (pa_lookup k b) (pa_lookup k a) = Lt).
        { rewrite pa_cmp_val_antisym, Eab. reflexivity. }
        pose proof (pa_cmp_val_lt_trans _ _ _ SC' Ecb Eba) as Eca.
        assert (Eac : pa_cmp_val (pa_lookup k a) (pa_lookup k c) = Gt).
        { rewrite pa_cmp_val_antisym, Eca. reflexivity. }
        rewrite Eac. split; [destruct d; discriminate|]. auto.
Qed.

(* "not less" is transitive on rows of one class assignment *)
Lemma pa_less_ntrans : forall keys cls a b c,
  pa_row_class keys cls a -> pa_row_class keys cls b -> pa_row_class keys cls c ->
  pa_less keys b a = false -> pa_less keys c b = false -> pa_less keys c a = false.
Proof.
  intros keys cls a b c Ca Cb Cc H1 H2.
  destruct (pa_less keys c a) eqn:E; [|reflexivity].
  apply pa_less_lex in E.
  (* c < a. Compare c with b. *)
  destruct (pa_lex keys c b) eqn:Ecb.
  - (* c = b, so b < a *)
    destruct (pa_lex_trans keys cls c b a Cc Cb Ca) as [He _].
    rewrite <- (He Ecb) in E. assert (pa_less keys b a = true) by (apply pa_less_lex; assumption). congruence.
  - assert (pa_less keys c b = true) by (apply pa_less_lex; assumption). congruence.
  - (* b < c < a *)
    assert (Ebc : pa_lex keys b c = Lt) by (rewrite pa_lex_antisym, Ecb; reflexivity).
    destruct (pa_lex_trans keys cls b c a Cb Cc Ca) as [_ Hl].
    assert (pa_lex keys b a = Lt) by (apply Hl; [assumption|rewrite E; discriminate]).
    assert (pa_less keys b a = true) by (apply pa_less_lex; assumption). congruence.
Qed.
