(* C11 -- the reference parser inverts the printer on well-formed statement skeletons. *)
From SV Require Import Model.Lexer Model.Stmt Proofs.LexerProofs.
From Coq Require Import Lia.
Local Open Scope N_scope.

(* ---------- generic: separated lists ---------- *)
Section SepByProof.
  Context {A : Type} (p : list token -> option (A * list token)) (pr : A -> list token) (sep : N) (sepT : token).
  Variable ok : list token -> Prop.
  Hypothesis sep_ty : ty_is sep sepT = true.

  Lemma sep_by_S : forall f toks, sep_by p sep (S f) toks =
    match p toks with
    | None => None
    | Some (x, r) =>
      if hd_is (ty_is sep) r
      then match sep_by p sep f (tl r) with Some (xs, r') => Some (x :: xs, r') | None => None end
      else Some ([x], r)
    end.
  Proof. reflexivity. Qed.

  Lemma sep_by_print : forall xs fuel rest,
    xs <> [] -> (List.length xs <= fuel)%nat ->
    (forall x r, In x xs -> ok r -> p (pr x ++ r) = Some (x, r)) ->
    (forall r, ok (sepT :: r)) -> ok rest -> hd_is (ty_is sep) rest = false ->
    sep_by p sep fuel (pr_sep pr sepT xs ++ rest) = Some (xs, rest).
  Proof.
    induction xs as [|x xs IH]; intros fuel rest Hne Hf Hp Hs Hr Hh; [congruence|].
    destruct fuel as [|f]; [simpl in Hf; lia|]. simpl in Hf.
    destruct xs as [|y xs'].
    - simpl pr_sep. rewrite app_nil_r. rewrite sep_by_S. rewrite (Hp x rest (or_introl eq_refl) Hr). rewrite Hh. reflexivity.
    - change (pr_sep pr sepT (x :: y :: xs')) with (pr x ++ sepT :: pr_sep pr sepT (y :: xs')).
      rewrite <- app_assoc. rewrite <- app_comm_cons.
      rewrite sep_by_S. rewrite (Hp x _ (or_introl eq_refl) (Hs _)).
      cbn [hd_is tl]. rewrite sep_ty.
      rewrite (IH f rest); [reflexivity|discriminate|simpl; simpl in Hf; lia| |exact Hs|exact Hr|exact Hh].
      intros x0 r0 Hin. apply Hp. right. exact Hin.
  Qed.
End SepByProof.

Lemma pr_sep_length : forall {A : Type} (pr : A -> list token) sepT xs,
  (forall x, In x xs -> (1 <= List.length (pr x))%nat) -> (List.length xs <= List.length (pr_sep pr sepT xs))%nat.
Proof.
  induction xs as [|x xs IH]; intro H; [simpl; lia|].
  assert (H1 := H x (or_introl eq_refl)).
  assert (H2 : (List.length xs <= List.length (pr_sep pr sepT xs))%nat) by (apply IH; intros y Hy; apply H; right; exact Hy).
  simpl. rewrite app_length. destruct xs as [|y xs']; simpl in *; lia.
Qed.

(* ---------- select items ---------- *)
Lemma take_expr_scan : forall e d d' rest, scan d e = Some d' ->
  take_expr d (e ++ rest) = let (a, b) := take_expr d' rest in (e ++ a, b).
Proof.
  induction e as [|t e IH]; intros d d' rest H; simpl in *.
  - inversion H; subst. destruct (take_expr d' rest). reflexivity.
  - destruct (Nat.eqb d 0 && item_stop t); [discriminate|].
    destruct (ty_is T_RParen t && Nat.eqb d 0); [discriminate|].
    rewrite (IH _ _ rest H). destruct (take_expr d' rest). reflexivity.
Qed.

Definition item_follow (r : list token) : Prop :=
  match r with [] => True | t :: _ => item_stop t = true /\ ty_is T_AS t = false end.

Lemma p_item_print : forall i r, wf_expr (it_expr i) = true -> item_follow r -> p_item (pr_item i ++ r) = Some (i, r).
Proof.
  intros [e a] r W F. unfold wf_expr in W. simpl in W.
  apply andb_prop in W. destruct W as [W Wscan]. apply andb_prop in W. destruct W as [W _].
  apply andb_prop in W. destruct W as [Wne _].
  destruct (scan 0 e) as [[|n]|] eqn:Hs; try discriminate.
  unfold p_item, pr_item. simpl it_expr. simpl it_alias. rewrite <- app_assoc.
  rewrite (take_expr_scan _ _ _ _ Hs).
  assert (T : take_expr 0 (pr_alias a ++ r) = ([], pr_alias a ++ r)).
  { destruct a as [x|]; simpl; [reflexivity|]. destruct r as [|t r']; [reflexivity|].
    destruct F as [F _]. simpl. rewrite F. reflexivity. }
  rewrite T. rewrite app_nil_r. destruct e as [|t0 e0]; [discriminate|].
  destruct a as [x|]; [reflexivity|]. cbn [pr_alias app].
  destruct r as [|t r']; [reflexivity|]. destruct F as [_ F]. unfold p_alias. rewrite F. reflexivity.
Qed.

(* ---------- joins ---------- *)
Lemma p_pair_print : forall p r, p_pair (pr_pair p ++ r) = Some (p, r).
Proof. intros [a b] r. reflexivity. Qed.

Lemma p_alias2_print : forall a r, hd_is (fun t => ty_is T_AS t || (ty_is T_Ident t && negb (is_boundary_ident t))) r = false ->
  p_alias2 (pr_alias a ++ r) = Some (a, r).
Proof.
  intros [x|] r H; [reflexivity|]. cbn [pr_alias app]. destruct r as [|t r']; [reflexivity|]. cbn [hd_is] in H.
  apply Bool.orb_false_elim in H. destruct H as [H1 H2]. unfold p_alias2. rewrite H1, H2. reflexivity.
Qed.

Definition join_follow (r : list token) : Prop :=
  hd_is (ty_is T_AND) r = false /\ hd_is join_start r = false.

Lemma p_join_print : forall j fuel r, wf_join j = true -> (List.length (j_on j) <= fuel)%nat ->
  hd_is (ty_is T_AND) r = false -> p_join fuel (pr_join j ++ r) = Some (j, r).
Proof.
  intros [lf tb al on] fuel r W Hf Hr. unfold wf_join in W. simpl in W, Hf.
  assert (Hon : on <> []) by (destruct on; [discriminate|discriminate]).
  unfold p_join, pr_join. simpl j_left. simpl j_table. simpl j_alias. simpl j_on.
  assert (E : forall rest, p_join_head ((if lf then [ident W_LEFT] else []) ++ ident W_JOIN :: rest) = Some (lf, rest))
    by (intro rest; destruct lf; reflexivity).
  rewrite <- app_assoc. rewrite <- app_comm_cons. rewrite E. simpl expect.
  rewrite <- app_assoc. rewrite p_alias2_print; [|reflexivity].
  rewrite <- app_comm_cons. simpl expect.
  cbv beta iota.
  rewrite (sep_by_print p_pair pr_pair T_AND (kw T_AND) (fun _ => True)); try reflexivity; auto.
  intros x r0 _ _. apply p_pair_print.
Qed.

Lemma pr_join_start : forall j r, hd_is join_start (pr_join j ++ r) = true.
Proof. intros [lf tb al on] r. destruct lf; reflexivity. Qed.

Lemma pr_join_not_and : forall j r, hd_is (ty_is T_AND) (pr_join j ++ r) = false.
Proof. intros [lf tb al on] r. destruct lf; reflexivity. Qed.

Lemma p_joins_print : forall js fuel r,
  (List.length js < fuel)%nat -> forallb wf_join js = true ->
  (forall j, In j js -> (List.length (j_on j) + List.length js <= fuel)%nat) -> join_follow r ->
  p_joins fuel (concat (map pr_join js) ++ r) = Some (js, r).
Proof.
  induction js as [|j js IH]; intros fuel r Hf W Hon [F1 F2].
  - destruct fuel; [simpl in Hf; lia|]. simpl. rewrite F2. reflexivity.
  - destruct fuel as [|f]; [simpl in Hf; lia|]. simpl in Hf, W. apply andb_prop in W. destruct W as [W1 W2].
    simpl concat. rewrite <- app_assoc. cbn [p_joins]. rewrite pr_join_start.
    assert (Hj := Hon j (or_introl eq_refl)). simpl in Hj.
    rewrite (p_join_print j (S f)); [|exact W1|lia|].
    + rewrite (IH f r); [reflexivity|lia|exact W2| |split; assumption].
      intros j0 Hj0. assert (H := Hon j0 (or_intror Hj0)). simpl in H. lia.
    + destruct js as [|j' js']; [exact F1|]. simpl. rewrite <- app_assoc. apply pr_join_not_and.
Qed.

Lemma pr_join_length : forall j, (List.length (j_on j) + 1 <= List.length (pr_join j))%nat.
Proof.
  intros [lf tb al on].
  assert (P1 : (List.length on <= List.length (pr_sep pr_pair (kw T_AND) on))%nat)
    by (apply pr_sep_length; intros [a b] _; simpl; lia).
  unfold pr_join. cbn [j_left j_table j_alias j_on]. destruct lf; destruct al; cbn [pr_alias app List.length];
    repeat (rewrite app_length; cbn [List.length]); lia.
Qed.

Lemma joins_count : forall js, (List.length js <= List.length (concat (map pr_join js)))%nat.
Proof.
  induction js as [|j js IH]; [simpl; lia|]. simpl. rewrite app_length. pose proof (pr_join_length j). lia.
Qed.

Lemma joins_length : forall js j, In j js ->
  (List.length (j_on j) + List.length js <= List.length (concat (map pr_join js)))%nat.
Proof.
  induction js as [|j0 js IH]; intros j Hin; [destruct Hin|].
  simpl. rewrite app_length. pose proof (pr_join_length j0) as L0. pose proof (joins_count js) as C.
  destruct Hin as [Hin|Hin].
  - subst j0. lia.
  - specialize (IH j Hin). lia.
Qed.

(* ---------- conditions ---------- *)
Definition stop_follow (r : list token) : Prop := match r with [] => True | t :: _ => cond_stop t = true end.

Lemma break_at_print : forall f c r, forallb (fun t => negb (f t)) c = true ->
  match r with [] => True | t :: _ => f t = true end -> break_at f (c ++ r) = (c, r).
Proof.
  induction c as [|t c IH]; simpl; intros r H Hr.
  - destruct r as [|t r']; [reflexivity|]. simpl. rewrite Hr. reflexivity.
  - apply andb_prop in H. destruct H as [H1 H2]. destruct (f t); [discriminate|]. rewrite (IH r H2 Hr). reflexivity.
Qed.

Lemma p_cond_print : forall k c r, wf_cond c = true -> stop_follow r -> hd_is (ty_is k) r = false ->
  p_cond k (pr_clause [kw k] c ++ r) = (c, r).
Proof.
  intros k c r W F H. unfold p_cond. destruct c as [|t c].
  - simpl. rewrite H. reflexivity.
  - unfold pr_clause. cbn [app hd_is tl]. unfold ty_is at 1. simpl ttype. rewrite N.eqb_refl.
    unfold wf_cond in W. apply andb_prop in W. destruct W as [_ W].
    apply (break_at_print cond_stop (t :: c) r W F).
Qed.

(* ---------- GROUP BY ---------- *)
Definition gitem_ok (fuel : nat) (g : gitem) : Prop :=
  match g with GCol _ => True | GWin w => wf_win w = true /\ (List.length (w_params w) <= fuel)%nat end.

Lemma win_kind_not_ident : forall k, is_win_kind k = true -> N.eqb k T_Ident = false.
Proof.
  intros k H. unfold is_win_kind in H.
  destruct (N.eqb k T_Tumbling) eqn:E1; [apply N.eqb_eq in E1; subst; reflexivity|].
  destruct (N.eqb k T_Sliding) eqn:E2; [apply N.eqb_eq in E2; subst; reflexivity|].
  destruct (N.eqb k T_Counting) eqn:E3; [apply N.eqb_eq in E3; subst; reflexivity|].
  destruct (N.eqb k T_Session) eqn:E4; [apply N.eqb_eq in E4; subst; reflexivity|]. discriminate.
Qed.

Lemma p_gitem_print : forall g fuel r, gitem_ok fuel g -> p_gitem fuel (pr_gitem g ++ r) = Some (g, r).
Proof.
  intros [c|[k ps]] fuel r H; [reflexivity|]. destruct H as [W Hf]. unfold wf_win in W. simpl in W, Hf.
  apply andb_prop in W. destruct W as [W W3]. apply andb_prop in W. destruct W as [W1 W2].
  assert (Hne : ps <> []) by (destruct ps; [discriminate|discriminate]).
  unfold pr_gitem, pr_win. cbn [w_kind w_params]. unfold p_gitem.
  rewrite <- app_comm_cons. unfold ty_is at 1. cbn [kw ttype]. rewrite (win_kind_not_ident _ W1). rewrite W1.
  rewrite <- app_comm_cons. cbn [expect]. unfold ty_is at 1. cbn [t_lp ttype]. rewrite N.eqb_refl.
  rewrite <- app_assoc.
  rewrite (sep_by_print p_param (fun p => [p]) T_Comma t_comma (fun _ => True)); try reflexivity; auto.
  intros x r0 Hin _. rewrite forallb_forall in W3. specialize (W3 _ Hin). cbn [app]. unfold p_param, expect. rewrite W3. reflexivity.
Qed.

Lemma g_cols_gitems : forall cols w, g_cols (gitems cols w) = cols.
Proof. induction cols as [|c cols IH]; intro w; [destruct w; reflexivity|]. unfold gitems in *. simpl. f_equal. apply IH. Qed.
Lemma g_win_gitems : forall cols w, g_win (gitems cols w) = w.
Proof. induction cols as [|c cols IH]; intro w; [destruct w; reflexivity|]. unfold gitems in *. simpl. apply IH. Qed.

Definition kw_follow (tys : list N) (r : list token) : Prop :=
  match r with [] => True | t :: _ => existsb (N.eqb (ttype t)) tys = true end.

Lemma kw_follow_not : forall tys r k, kw_follow tys r -> existsb (N.eqb k) tys = false -> hd_is (ty_is k) r = false.
Proof.
  intros tys r k F H. destruct r as [|t r']; [reflexivity|]. simpl in *. unfold ty_is.
  destruct (N.eqb (ttype t) k) eqn:E; [|reflexivity]. apply N.eqb_eq in E. rewrite E in F. congruence.
Qed.

Lemma pr_gitem_nonempty : forall g, pr_gitem g <> [].
Proof. intros [c|w]; simpl; discriminate. Qed.

Lemma pr_sep_nonempty : forall {A : Type} (pr : A -> list token) sepT x xs, pr x <> [] -> pr_sep pr sepT (x :: xs) <> [].
Proof. intros A pr sepT x xs H. simpl. destruct (pr x); [congruence|discriminate]. Qed.

Lemma pr_clause_nonempty : forall k b, b <> [] -> pr_clause k b = k ++ b.
Proof. intros k b H. destruct b; [congruence|reflexivity]. Qed.

Lemma p_group_print : forall gs fuel r,
  (List.length gs <= fuel)%nat -> (forall g, In g gs -> gitem_ok fuel g) ->
  kw_follow [T_HAVING; T_WITH; T_Order; T_LIMIT] r ->
  p_group fuel (pr_clause [kw T_GROUP; kw T_BY] (pr_sep pr_gitem t_comma gs) ++ r) = Some (gs, r).
Proof.
  intros gs fuel r Hf Hg F.
  assert (NG : hd_is (ty_is T_GROUP) r = false) by (eapply kw_follow_not; [exact F|reflexivity]).
  assert (NC : hd_is (ty_is T_Comma) r = false) by (eapply kw_follow_not; [exact F|reflexivity]).
  destruct gs as [|g gs].
  - simpl. unfold p_group. destruct r as [|t r']; [reflexivity|]. simpl in NG. destruct r'; rewrite NG; reflexivity.
  - rewrite pr_clause_nonempty by (apply pr_sep_nonempty; apply pr_gitem_nonempty).
    cbn [app]. unfold p_group. unfold ty_is at 1 2. cbn [kw ttype]. rewrite !N.eqb_refl.
    rewrite (sep_by_print (p_gitem fuel) pr_gitem T_Comma t_comma (fun _ => True)); try reflexivity; auto.
    + discriminate.
    + intros y r0 Hin _. apply p_gitem_print. apply Hg. exact Hin.
Qed.

(* ---------- WITH / ORDER BY / LIMIT ---------- *)
Lemma p_opt_print : forall o r, is_opt_kind (fst o) = true -> p_opt (pr_opt o ++ r) = Some (o, r).
Proof. intros [k v] r H. simpl in H. unfold p_opt, pr_opt. cbn [app fst snd kw ttype tval]. rewrite H. reflexivity. Qed.

Definition with_body (ws : list (N * bytes)) : list token :=
  match ws with [] => [] | l => pr_sep pr_opt t_comma l ++ [t_rp] end.

Lemma pr_opt_nonempty : forall o, pr_opt o <> [].
Proof. intros [k v]. discriminate. Qed.

Lemma p_with_print : forall ws fuel r, (List.length ws <= fuel)%nat -> forallb (fun o => is_opt_kind (fst o)) ws = true ->
  kw_follow [T_Order; T_LIMIT] r ->
  p_with fuel (pr_clause [kw T_WITH; t_lp] (with_body ws) ++ r) = Some (ws, r).
Proof.
  intros ws fuel r Hf W F.
  assert (NW : hd_is (ty_is T_WITH) r = false) by (eapply kw_follow_not; [exact F|reflexivity]).
  destruct ws as [|o ws].
  - simpl. unfold p_with. rewrite NW. reflexivity.
  - unfold with_body. rewrite pr_clause_nonempty.
    2:{ intro E. apply app_eq_nil in E. destruct E as [_ E]. discriminate. }
    cbn [app]. unfold p_with. cbn [hd_is tl]. unfold ty_is at 1. cbn [kw ttype]. rewrite N.eqb_refl.
    cbn [expect]. unfold ty_is at 1. cbn [t_lp ttype]. rewrite N.eqb_refl. rewrite <- app_assoc.
    rewrite (sep_by_print p_opt pr_opt T_Comma t_comma (fun _ => True)); try reflexivity; auto.
    + discriminate.
    + intros y r0 Hin _. apply p_opt_print. rewrite forallb_forall in W. apply W. exact Hin.
Qed.

Definition key_follow (r : list token) : Prop :=
  hd_is (ieq W_DESC) r = false /\ hd_is (ieq W_ASC) r = false.

Lemma p_key_print : forall k r, key_follow r -> p_key (pr_key k ++ r) = Some (k, r).
Proof.
  intros [c d] r [F1 F2]. unfold pr_key, p_key. cbn [ok_col ok_desc]. destruct d.
  - reflexivity.
  - cbn [app]. unfold ty_is at 1. cbn [ident ttype tval]. rewrite N.eqb_refl. rewrite F1, F2. reflexivity.
Qed.

Lemma pr_key_nonempty : forall k, pr_key k <> [].
Proof. intros [c d]. discriminate. Qed.

Lemma p_order_print : forall ks fuel r, (List.length ks <= fuel)%nat -> kw_follow [T_LIMIT] r ->
  p_order fuel (pr_clause [kw T_Order; kw T_BY] (pr_sep pr_key t_comma ks) ++ r) = Some (ks, r).
Proof.
  intros ks fuel r Hf F.
  assert (NO : hd_is (ty_is T_Order) r = false) by (eapply kw_follow_not; [exact F|reflexivity]).
  assert (NC : hd_is (ty_is T_Comma) r = false) by (eapply kw_follow_not; [exact F|reflexivity]).
  assert (FK : key_follow r).
  { destruct r as [|t r']; [split; reflexivity|]. simpl in F. rewrite Bool.orb_false_r in F. apply N.eqb_eq in F.
    unfold key_follow, ieq, ty_is. cbn [hd_is]. rewrite F. split; reflexivity. }
  destruct ks as [|k ks].
  - simpl. unfold p_order. destruct r as [|t r']; [reflexivity|]. simpl in NO. destruct r'; rewrite NO; reflexivity.
  - rewrite pr_clause_nonempty by (apply pr_sep_nonempty; apply pr_key_nonempty).
    cbn [app]. unfold p_order. unfold ty_is at 1 2. cbn [kw ttype]. rewrite !N.eqb_refl.
    rewrite (sep_by_print p_key pr_key T_Comma t_comma key_follow); try reflexivity; auto.
    + discriminate.
    + intros y r0 _ Hr0. apply p_key_print. exact Hr0.
    + intro r0. split; reflexivity.
Qed.

Lemma p_limit_print : forall n, p_limit (match n with Some x => [kw T_LIMIT; mkTok T_Number x] | None => [] end) = Some (n, []).
Proof. intros [x|]; reflexivity. Qed.

(* ---------- what follows each clause ---------- *)
Lemma kw_follow_mono : forall t1 t2 r, kw_follow t1 r -> forallb (fun ty => existsb (N.eqb ty) t2) t1 = true -> kw_follow t2 r.
Proof.
  intros t1 t2 r F H. destruct r as [|t r']; [exact I|]. simpl in *.
  apply existsb_exists in F. destruct F as [ty [Hin E]]. apply N.eqb_eq in E. subst ty.
  rewrite forallb_forall in H. apply H. exact Hin.
Qed.

Lemma kw_follow_clause : forall k ks body rest tys,
  existsb (N.eqb k) tys = true -> kw_follow tys rest -> kw_follow tys (pr_clause (kw k :: ks) body ++ rest).
Proof. intros k ks body rest tys H F. destruct body; [exact F|]. simpl. exact H. Qed.

Lemma kw_follow_stop : forall r, kw_follow [T_GROUP; T_HAVING; T_WITH; T_Order; T_LIMIT] r -> stop_follow r.
Proof.
  intros [|t r'] F; [exact I|]. unfold kw_follow in F. apply existsb_exists in F. destruct F as [ty [Hin E]].
  apply N.eqb_eq in E. unfold stop_follow, cond_stop, ty_is. rewrite E.
  simpl in Hin. destruct Hin as [H|[H|[H|[H|[H|[]]]]]]; subst ty; reflexivity.
Qed.

Definition tail_limit (st : stmt) : list token :=
  match s_limit st with Some n => [kw T_LIMIT; mkTok T_Number n] | None => [] end.
Definition tail_order (st : stmt) := pr_clause [kw T_Order; kw T_BY] (pr_sep pr_key t_comma (s_order st)) ++ tail_limit st.
Definition tail_with (st : stmt) := pr_clause [kw T_WITH; t_lp] (with_body (s_with st)) ++ tail_order st.
Definition tail_having (st : stmt) := pr_clause [kw T_HAVING] (s_having st) ++ tail_with st.
Definition tail_group (st : stmt) :=
  pr_clause [kw T_GROUP; kw T_BY] (pr_sep pr_gitem t_comma (gitems (s_group st) (s_window st))) ++ tail_having st.
Definition tail_where (st : stmt) := pr_clause [kw T_WHERE] (s_where st) ++ tail_group st.

Lemma follow_limit : forall st, kw_follow [T_LIMIT] (tail_limit st).
Proof. intro st. unfold tail_limit. destruct (s_limit st); [reflexivity|exact I]. Qed.
Lemma follow_order : forall st, kw_follow [T_Order; T_LIMIT] (tail_order st).
Proof. intro st. apply kw_follow_clause; [reflexivity|]. eapply kw_follow_mono; [apply follow_limit|reflexivity]. Qed.
Lemma follow_with : forall st, kw_follow [T_WITH; T_Order; T_LIMIT] (tail_with st).
Proof. intro st. apply kw_follow_clause; [reflexivity|]. eapply kw_follow_mono; [apply follow_order|reflexivity]. Qed.
Lemma follow_having : forall st, kw_follow [T_HAVING; T_WITH; T_Order; T_LIMIT] (tail_having st).
Proof. intro st. apply kw_follow_clause; [reflexivity|]. eapply kw_follow_mono; [apply follow_with|reflexivity]. Qed.
Lemma follow_group : forall st, kw_follow [T_GROUP; T_HAVING; T_WITH; T_Order; T_LIMIT] (tail_group st).
Proof. intro st. apply kw_follow_clause; [reflexivity|]. eapply kw_follow_mono; [apply follow_having|reflexivity]. Qed.
Lemma follow_where : forall st, kw_follow [T_WHERE; T_GROUP; T_HAVING; T_WITH; T_Order; T_LIMIT] (tail_where st).
Proof. intro st. apply kw_follow_clause; [reflexivity|]. eapply kw_follow_mono; [apply follow_group|reflexivity]. Qed.

Lemma not_ident_not_join : forall r, hd_is (ty_is T_Ident) r = false -> hd_is join_start r = false.
Proof.
  intros [|t r'] H; [reflexivity|]. simpl in *. unfold join_start, ieq. rewrite H. reflexivity.
Qed.

(* ---------- sizes: the fuel S (length tokens) is enough for every loop ---------- *)
Lemma pr_sep_elem_length : forall {A : Type} (pr : A -> list token) sepT xs x, In x xs ->
  (List.length (pr x) <= List.length (pr_sep pr sepT xs))%nat.
Proof.
  induction xs as [|y xs IH]; intros x Hin; [destruct Hin|]. simpl. rewrite app_length.
  destruct Hin as [->|Hin]; [lia|]. specialize (IH x Hin). destruct xs as [|z xs']; [destruct Hin|]. simpl in *. lia.
Qed.

Lemma pr_clause_length : forall k b, (List.length b <= List.length (pr_clause k b))%nat.
Proof. intros k b. destruct b; [simpl; lia|]. unfold pr_clause. rewrite app_length. lia. Qed.

Lemma print0_eq : forall st, print0 st =
  kw T_SELECT :: (if s_distinct st then [kw T_DISTINCT] else [])
  ++ pr_sep pr_item t_comma (s_items st)
  ++ kw T_FROM :: ident (s_source st) :: pr_alias (s_alias st)
  ++ concat (map pr_join (s_joins st)) ++ tail_where st.
Proof.
  intro st. unfold print0, tail_where, tail_group, tail_having, tail_with, tail_order, tail_limit, with_body.
  destruct (s_with st); reflexivity.
Qed.

Lemma wf_items_nonempty : forall items, forallb (fun i => wf_expr (it_expr i)) items = true ->
  forall x, In x items -> (1 <= List.length (pr_item x))%nat.
Proof.
  intros items H x Hin. rewrite forallb_forall in H. specialize (H _ Hin). unfold wf_expr in H.
  unfold pr_item. rewrite app_length. destruct (it_expr x); [discriminate|simpl; lia].
Qed.

Theorem parse_print_core : forall st, wf_stmt st = true -> parse_core (print0 st) = Some st.
Proof.
  intros st W. unfold wf_stmt in W.
  apply andb_prop in W. destruct W as [W Wopt]. apply andb_prop in W. destruct W as [W Wwin].
  apply andb_prop in W. destruct W as [W Whav]. apply andb_prop in W. destruct W as [W Wwh].
  apply andb_prop in W. destruct W as [W Wj]. apply andb_prop in W. destruct W as [Wne Wit].
  remember (S (List.length (print0 st))) as fuel eqn:Hfuel.
  assert (Tl : List.length (print0 st) = List.length (print0 st)) by reflexivity.
  (* size facts *)
  assert (Sz : (List.length (s_items st) <= fuel)%nat
    /\ (List.length (s_joins st) < fuel)%nat
    /\ (forall j, In j (s_joins st) -> (List.length (j_on j) + List.length (s_joins st) <= fuel)%nat)
    /\ (List.length (gitems (s_group st) (s_window st)) <= fuel)%nat
    /\ (forall g, In g (gitems (s_group st) (s_window st)) -> gitem_ok fuel g)
    /\ (List.length (s_with st) <= fuel)%nat
    /\ (List.length (s_order st) <= fuel)%nat).
  { rewrite Hfuel. rewrite print0_eq. cbn [List.length]. rewrite !app_length. cbn [List.length]. rewrite !app_length.
    pose proof (pr_sep_length pr_item t_comma (s_items st) (wf_items_nonempty _ Wit)) as A1.
    pose proof (joins_count (s_joins st)) as A2.
    unfold tail_where, tail_group, tail_having, tail_with, tail_order. rewrite !app_length.
    pose proof (pr_clause_length [kw T_GROUP; kw T_BY] (pr_sep pr_gitem t_comma (gitems (s_group st) (s_window st)))) as A3.
    assert (A4 : (List.length (gitems (s_group st) (s_window st)) <= List.length (pr_sep pr_gitem t_comma (gitems (s_group st) (s_window st))))%nat).
    { apply pr_sep_length. intros g _. pose proof (pr_gitem_nonempty g). destruct (pr_gitem g); [congruence|simpl; lia]. }
    pose proof (pr_clause_length [kw T_WITH; t_lp] (with_body (s_with st))) as A5.
    assert (A6 : (List.length (s_with st) <= List.length (with_body (s_with st)))%nat).
    { unfold with_body. destruct (s_with st) as [|o ws] eqn:E; [simpl; lia|]. rewrite app_length.
      assert (X : (List.length (o :: ws) <= List.length (pr_sep pr_opt t_comma (o :: ws)))%nat).
      { apply pr_sep_length. intros [k v] _. simpl. lia. } lia. }
    pose proof (pr_clause_length [kw T_Order; kw T_BY] (pr_sep pr_key t_comma (s_order st))) as A7.
    assert (A8 : (List.length (s_order st) <= List.length (pr_sep pr_key t_comma (s_order st)))%nat).
    { apply pr_sep_length. intros [c d] _. destruct d; simpl; lia. }
    repeat split; try lia.
    - intros j Hj. pose proof (joins_length _ _ Hj). lia.
    - intros g Hg. destruct g as [c|w]; [exact I|]. split.
      + unfold gitems in Hg. apply in_app_or in Hg. destruct Hg as [Hg|Hg].
        * apply in_map_iff in Hg. destruct Hg as [c [E _]]. discriminate.
        * destruct (s_window st) as [w0|]; [|destruct Hg]. destruct Hg as [E|[]]. inversion E; subst. exact Wwin.
      + pose proof (pr_sep_elem_length pr_gitem t_comma _ _ Hg) as B1.
        assert (B2 : (List.length (w_params w) <= List.length (pr_gitem (GWin w)))%nat).
        { simpl. unfold pr_win. cbn [List.length]. rewrite app_length.
          assert (X : (List.length (w_params w) <= List.length (pr_sep (fun p : token => [p]) t_comma (w_params w)))%nat)
            by (apply pr_sep_length; intros; simpl; lia). lia. }
        lia. }
  destruct Sz as [Z1 [Z2 [Z3 [Z4 [Z5 [Z6 Z7]]]]]].
  unfold parse_core. rewrite <- Hfuel. rewrite print0_eq.
  cbn [negb]. unfold ty_is at 1. cbn [kw ttype]. rewrite N.eqb_refl. cbn [negb].
  (* DISTINCT *)
  assert (D : forall rest, hd_is (ty_is T_DISTINCT) rest = false ->
     (if hd_is (ty_is T_DISTINCT) ((if s_distinct st then [kw T_DISTINCT] else []) ++ rest)
      then (true, tl ((if s_distinct st then [kw T_DISTINCT] else []) ++ rest))
      else (false, (if s_distinct st then [kw T_DISTINCT] else []) ++ rest)) = (s_distinct st, rest)).
  { intros rest Hr. destruct (s_distinct st); [reflexivity|]. cbn [app]. rewrite Hr. reflexivity. }
  assert (Ine : s_items st <> []) by (destruct (s_items st); [discriminate|discriminate]).
  assert (ND : hd_is (ty_is T_DISTINCT) (pr_sep pr_item t_comma (s_items st) ++ kw T_FROM :: ident (s_source st) :: pr_alias (s_alias st)
      ++ concat (map pr_join (s_joins st)) ++ tail_where st) = false).
  { destruct (s_items st) as [|i items] eqn:E; [congruence|]. cbn [forallb] in Wit. apply andb_prop in Wit. destruct Wit as [Wi _].
    unfold wf_expr in Wi. apply andb_prop in Wi. destruct Wi as [Wi _]. apply andb_prop in Wi. destruct Wi as [Wi Wk].
    destruct i as [e a]. cbn [it_expr] in *. destruct e as [|t e]; [discriminate|].
    cbn [forallb] in Wk. apply andb_prop in Wk. destruct Wk as [Wk _]. unfold clause_kw in Wk.
    cbn [pr_sep pr_item it_expr app hd_is]. 
    destruct (ty_is T_DISTINCT t); [|reflexivity]. rewrite Bool.orb_true_r in Wk. simpl in Wk. discriminate. }
  rewrite (D _ ND).
  (* items *)
  rewrite (sep_by_print p_item pr_item T_Comma t_comma item_follow); try reflexivity; auto.
  2:{ intros x r Hin Hr. apply p_item_print; [|exact Hr]. rewrite forallb_forall in Wit. apply Wit. exact Hin. }
  2:{ intro r. split; reflexivity. }
  2:{ split; reflexivity. }
  cbn [negb andb]. unfold ty_is at 1 2. cbn [kw ident ttype]. rewrite !N.eqb_refl. cbn [negb andb].
  (* source alias *)
  assert (FW := follow_where st).
  assert (NA : hd_is (fun t => ty_is T_AS t || (ty_is T_Ident t && negb (is_boundary_ident t)))
                 (concat (map pr_join (s_joins st)) ++ tail_where st) = false).
  { destruct (s_joins st) as [|[lf tb al on] js]; [|destruct lf; reflexivity]. cbn [map concat app].
    destruct (tail_where st) as [|t r']; [reflexivity|]. simpl in FW. cbn [hd_is]. unfold ty_is.
    assert (E1 : N.eqb (ttype t) T_AS = false).
    { destruct (N.eqb (ttype t) T_AS) eqn:E; [|reflexivity]. apply N.eqb_eq in E. rewrite E in FW. discriminate. }
    assert (E2 : N.eqb (ttype t) T_Ident = false).
    { destruct (N.eqb (ttype t) T_Ident) eqn:E; [|reflexivity]. apply N.eqb_eq in E. rewrite E in FW. discriminate. }
    rewrite E1, E2. reflexivity. }
  rewrite (p_alias2_print _ _ NA).
  (* joins *)
  assert (JF : join_follow (tail_where st)).
  { split; [eapply kw_follow_not; [exact FW|reflexivity]|]. apply not_ident_not_join. eapply kw_follow_not; [exact FW|reflexivity]. }
  rewrite (p_joins_print _ fuel _ Z2 Wj Z3 JF).
  (* WHERE *)
  assert (FG := follow_group st).
  unfold tail_where at 1.
  rewrite (p_cond_print T_WHERE (s_where st) (tail_group st) Wwh (kw_follow_stop _ FG)).
  2:{ eapply kw_follow_not; [exact FG|reflexivity]. }
  (* GROUP BY *)
  unfold tail_group at 1.
  rewrite (p_group_print _ fuel (tail_having st) Z4 Z5 (follow_having st)).
  (* HAVING *)
  assert (FWi := follow_with st).
  unfold tail_having at 1.
  rewrite (p_cond_print T_HAVING (s_having st) (tail_with st) Whav).
  2:{ apply kw_follow_stop. eapply kw_follow_mono; [exact FWi|reflexivity]. }
  2:{ eapply kw_follow_not; [exact FWi|reflexivity]. }
  (* WITH, ORDER BY, LIMIT *)
  unfold tail_with at 1. rewrite (p_with_print _ fuel (tail_order st) Z6 Wopt (follow_order st)).
  unfold tail_order at 1. rewrite (p_order_print _ fuel (tail_limit st) Z7 (follow_limit st)).
  unfold tail_limit. rewrite p_limit_print.
  rewrite g_cols_gitems, g_win_gitems. cbn [ident tval]. destruct st. reflexivity.
Qed.

(* ---------- keyword spelling (case) is irrelevant to the reference parser ---------- *)
Lemma canon_spell : forall t, is_canon t = true -> canon (spell t) = t.
Proof.
  intros [ty v] H. unfold is_canon, canon, spell in *. simpl in *.
  destruct (is_kw_type ty) eqn:K; simpl in *.
  - rewrite K. destruct v; [reflexivity|discriminate].
  - rewrite K. reflexivity.
Qed.

Lemma map_canon_spell : forall l, forallb is_canon l = true -> map canon (map spell l) = l.
Proof.
  induction l as [|t l IH]; simpl; intro H; [reflexivity|]. apply andb_prop in H. destruct H as [H1 H2].
  rewrite (canon_spell _ H1), (IH H2). reflexivity.
Qed.

Lemma canon_kw : forall k, is_canon (kw k) = true.
Proof. intro k. unfold is_canon, kw. simpl. apply Bool.orb_true_r. Qed.

Lemma canon_pr_sep : forall {A : Type} (pr : A -> list token) sepT xs, is_canon sepT = true ->
  (forall x, In x xs -> forallb is_canon (pr x) = true) -> forallb is_canon (pr_sep pr sepT xs) = true.
Proof.
  induction xs as [|x xs IH]; intros Hs H; [reflexivity|]. simpl. rewrite forallb_app.
  rewrite (H x (or_introl eq_refl)). simpl. destruct xs as [|y xs']; [reflexivity|].
  cbn [forallb]. rewrite Hs. apply IH; [exact Hs|]. intros z Hz. apply H. right. exact Hz.
Qed.

Lemma canon_pr_clause : forall k b, forallb is_canon k = true -> forallb is_canon b = true -> forallb is_canon (pr_clause k b) = true.
Proof. intros k b Hk Hb. destruct b; [reflexivity|]. unfold pr_clause. rewrite forallb_app, Hk, Hb. reflexivity. Qed.

Lemma canon_pr_alias : forall a, forallb is_canon (pr_alias a) = true.
Proof. intros [x|]; reflexivity. Qed.

Lemma print0_canon : forall st, wf_stmt st = true -> forallb is_canon (print0 st) = true.
Proof.
  intros st W. unfold wf_stmt in W.
  apply andb_prop in W. destruct W as [W Wopt]. apply andb_prop in W. destruct W as [W Wwin].
  apply andb_prop in W. destruct W as [W Whav]. apply andb_prop in W. destruct W as [W Wwh].
  apply andb_prop in W. destruct W as [W Wj]. apply andb_prop in W. destruct W as [Wne Wit].
  rewrite print0_eq.
  assert (A1 : forallb is_canon (if s_distinct st then [kw T_DISTINCT] else []) = true) by (destruct (s_distinct st); reflexivity).
  assert (A2 : forallb is_canon (pr_sep pr_item t_comma (s_items st)) = true).
  { apply canon_pr_sep; [reflexivity|]. intros i Hi. rewrite forallb_forall in Wit. specialize (Wit _ Hi).
    unfold wf_expr in Wit. apply andb_prop in Wit. destruct Wit as [Wi _]. apply andb_prop in Wi. destruct Wi as [Wi _].
    apply andb_prop in Wi. destruct Wi as [_ Wi]. unfold pr_item. rewrite forallb_app, Wi, canon_pr_alias. reflexivity. }
  assert (A3 : forallb is_canon (concat (map pr_join (s_joins st))) = true).
  { clear. induction (s_joins st) as [|[lf tb al on] js IH]; [reflexivity|]. simpl concat. rewrite forallb_app, IH.
    unfold pr_join. cbn [j_left j_table j_alias j_on]. rewrite forallb_app. cbn [forallb]. rewrite forallb_app. cbn [forallb].
    rewrite canon_pr_alias.
    assert (X : forallb is_canon (pr_sep pr_pair (kw T_AND) on) = true) by (apply canon_pr_sep; [reflexivity|intros [a b] _; reflexivity]).
    rewrite X. destruct lf; reflexivity. }
  assert (A4 : forallb is_canon (tail_where st) = true).
  { unfold tail_where, tail_group, tail_having, tail_with, tail_order, tail_limit. rewrite !forallb_app.
    unfold wf_cond in Wwh, Whav. apply andb_prop in Wwh. destruct Wwh as [Wwh _]. apply andb_prop in Whav. destruct Whav as [Whav _].
    rewrite (canon_pr_clause [kw T_WHERE] _ eq_refl Wwh), (canon_pr_clause [kw T_HAVING] _ eq_refl Whav).
    rewrite (canon_pr_clause [kw T_GROUP; kw T_BY]); [|reflexivity|].
    2:{ apply canon_pr_sep; [reflexivity|]. intros [c|[k ps]] Hg; [reflexivity|]. simpl. unfold pr_win. cbn [w_kind w_params forallb].
        rewrite canon_kw. cbn [andb]. rewrite forallb_app.
        assert (Wp : wf_win (mkWin k ps) = true).
        { unfold gitems in Hg. apply in_app_or in Hg. destruct Hg as [Hg|Hg].
          - apply in_map_iff in Hg. destruct Hg as [c [E _]]. discriminate.
          - destruct (s_window st) as [w0|]; [|destruct Hg]. destruct Hg as [E|[]]. inversion E; subst. exact Wwin. }
        unfold wf_win in Wp. cbn [w_kind w_params] in Wp. apply andb_prop in Wp. destruct Wp as [_ Wp].
        rewrite (canon_pr_sep (fun p : token => [p]) t_comma ps eq_refl); [reflexivity|].
        intros p Hp. rewrite forallb_forall in Wp. specialize (Wp _ Hp). cbn [forallb]. rewrite Bool.andb_true_r.
        unfold is_canon. unfold ty_is in Wp. apply Bool.orb_true_iff in Wp. destruct Wp as [Wp|Wp]; apply N.eqb_eq in Wp; rewrite Wp; reflexivity. }
    rewrite (canon_pr_clause [kw T_WITH; t_lp]); [|reflexivity|].
    2:{ unfold with_body. destruct (s_with st) as [|o ws]; [reflexivity|]. rewrite forallb_app.
        rewrite (canon_pr_sep pr_opt t_comma (o :: ws) eq_refl); [reflexivity|]. intros [k v] _. unfold pr_opt. cbn [forallb fst snd]. rewrite canon_kw. reflexivity. }
    rewrite (canon_pr_clause [kw T_Order; kw T_BY]); [|reflexivity|].
    2:{ apply canon_pr_sep; [reflexivity|]. intros [c d] _. destruct d; reflexivity. }
    destruct (s_limit st); reflexivity. }
  cbn [forallb]. rewrite !forallb_app. cbn [forallb]. rewrite !forallb_app.
  rewrite A1, A2, A3, A4, canon_pr_alias. reflexivity.
Qed.

Theorem parse_print_ref : forall st, wf_stmt st = true -> parse_ref (print st) = Some st.
Proof.
  intros st W. unfold parse_ref, print. rewrite (map_canon_spell _ (print0_canon _ W)). apply parse_print_core. exact W.
Qed.

Theorem parse_ref_case : forall st toks, wf_stmt st = true -> map canon toks = map canon (print st) -> parse_ref toks = Some st.
Proof. intros st toks W E. unfold parse_ref. rewrite E. apply (parse_print_ref st W). Qed.
