(* C03: the aggregator state machines compute the documented definitions. *)
From Coq Require Import Lia Permutation Setoid Morphisms Field Qfield.
From SV Require Import Model.Agg Spec.AggSpec.
Local Open Scope Q_scope.

(* results are compared up to == on rationals *)
Definition res_eq (a b : res) : Prop :=
  match a, b with
  | RNum p, RNum q => p == q
  | RSqrt p, RSqrt q => p == q
  | _, _ => a = b
  end.
Definition ores_eq (a b : option res) : Prop :=
  match a, b with
  | Some x, Some y => res_eq x y
  | None, None => True
  | _, _ => False
  end.

Lemma res_eq_refl : forall a, res_eq a a.
Proof. destruct a; simpl; reflexivity. Qed.

Lemma qadd_eq : forall a b, qadd a b == a + b. Proof. intros; apply Qred_correct. Qed.
Lemma qsub_eq : forall a b, qsub a b == a - b. Proof. intros; apply Qred_correct. Qed.
Lemma qmul_eq : forall a b, qmul a b == a * b. Proof. intros; apply Qred_correct. Qed.
Lemma qdiv_eq : forall a b, qdiv a b == a / b. Proof. intros; apply Qred_correct. Qed.

Global Instance qadd_proper : Proper (Qeq ==> Qeq ==> Qeq) qadd.
Proof. intros a b H c d H'. rewrite !qadd_eq. now rewrite H, H'. Qed.
Global Instance qsub_proper : Proper (Qeq ==> Qeq ==> Qeq) qsub.
Proof. intros a b H c d H'. rewrite !qsub_eq. now rewrite H, H'. Qed.
Global Instance qmul_proper : Proper (Qeq ==> Qeq ==> Qeq) qmul.
Proof. intros a b H c d H'. rewrite !qmul_eq. now rewrite H, H'. Qed.
Global Instance qdiv_proper : Proper (Qeq ==> Qeq ==> Qeq) qdiv.
Proof. intros a b H c d H'. rewrite !qdiv_eq. now rewrite H, H'. Qed.
Ltac qnorm := repeat (rewrite qadd_eq || rewrite qsub_eq || rewrite qmul_eq || rewrite qdiv_eq).

Lemma qnat_S : forall n, qnat (S n) == qnat n + 1.
Proof.
  intro n. unfold qnat. rewrite Nat2Z.inj_succ. unfold Z.succ.
  rewrite inject_Z_plus. reflexivity.
Qed.
Lemma qnat_pos : forall n, (0 < n)%nat -> 0 < qnat n.
Proof.
  intros n H. unfold qnat. change 0 with (inject_Z 0). rewrite <- Zlt_Qlt. lia.
Qed.
Lemma qnat_nonneg : forall n, 0 <= qnat n.
Proof.
  intros n. unfold qnat. change 0 with (inject_Z 0). rewrite <- Zle_Qle. lia.
Qed.
Lemma qnat_S_neq0 : forall n, ~ qnat (S n) == 0.
Proof.
  intros n H. pose proof (qnat_pos (S n) ltac:(lia)) as P. rewrite H in P. now apply Qlt_irrefl in P.
Qed.

(* ---------- sums ---------- *)
Lemma qsum_app : forall a b, qsum (a ++ b) == qsum a + qsum b.
Proof. induction a as [|x a IH]; intros b; simpl; [ring | rewrite IH; ring]. Qed.

Lemma fold_left_qadd_f : forall (g : Q -> Q) l a,
  fold_left (fun acc v => qadd acc (g v)) l a == a + qsum (map g l).
Proof.
  intros g l. induction l as [|x l IH]; intros a; simpl.
  - ring.
  - rewrite IH. rewrite qadd_eq. ring.
Qed.

Lemma loop_sum_eq : forall l, loop_sum l == qsum l.
Proof.
  intros l. unfold loop_sum.
  pose proof (fold_left_qadd_f (fun x => x) l 0) as H. rewrite map_id in H.
  rewrite H. ring.
Qed.

Lemma loop_mean_eq : forall l, loop_mean l == mean l.
Proof. intros l. unfold loop_mean, mean. rewrite qdiv_eq, loop_sum_eq. reflexivity. Qed.

Lemma qsum_map_ext : forall (g h : Q -> Q) l, (forall x, g x == h x) -> qsum (map g l) == qsum (map h l).
Proof. intros g h l E. induction l as [|x l IH]; simpl; [reflexivity | rewrite IH, E; reflexivity]. Qed.

Lemma loop_sqdev_eq : forall l, loop_sqdev l == sqdev l.
Proof.
  intros l. unfold loop_sqdev, sqdev.
  rewrite (fold_left_qadd_f (fun v => qmul (qsub v (loop_mean l)) (qsub v (loop_mean l))) l 0).
  rewrite Qplus_0_l. apply qsum_map_ext. intro x.
  rewrite qmul_eq, qsub_eq, loop_mean_eq. reflexivity.
Qed.

(* sum (x-a)^2 = sum x^2 - 2 a sum x + n a^2 *)
Definition qsumsq (l : list Q) : Q := qsum (map (fun x => x * x) l).
Lemma sqdev_any : forall a l,
  qsum (map (fun x => (x - a) * (x - a)) l) == qsumsq l - 2 * a * qsum l + qnat (length l) * a * a.
Proof.
  intros a l. unfold qsumsq. induction l as [|x l IH].
  - change (0 == 0 - 2 * a * 0 + 0 * a * a). ring.
  - change (qsum (map (fun x => (x - a) * (x - a)) (x :: l)))
      with ((x - a) * (x - a) + qsum (map (fun x => (x - a) * (x - a)) l)).
    change (qsum (map (fun x => x * x) (x :: l))) with (x * x + qsum (map (fun x => x * x) l)).
    change (qsum (x :: l)) with (x + qsum l).
    change (length (x :: l)) with (S (length l)).
    rewrite IH, qnat_S. ring.
Qed.

(* the textbook identity: sum (x-mu)^2 = sum x^2 - (sum x)^2 / n *)
Lemma sqdev_alt : forall l, l <> [] -> sqdev l == qsumsq l - qsum l * qsum l / qnat (length l).
Proof.
  intros l Hl. unfold sqdev. rewrite sqdev_any. unfold mean.
  destruct l as [|x l]; [congruence|].
  pose proof (qnat_S_neq0 (length l)) as N. cbn [length]. field. exact N.
Qed.

(* ---------- nums / nonnull ---------- *)
Lemma nums_cons : forall v vs,
  nums (v :: vs) = match to_float v with Some x => x :: nums vs | None => nums vs end.
Proof. intros v vs. unfold nums. simpl. destruct (to_float v); reflexivity. Qed.

Lemma nonnull_cons : forall v vs,
  nonnull (v :: vs) = if not_null v then v :: nonnull vs else nonnull vs.
Proof. reflexivity. Qed.

(* ---------- SUM / AVG / COUNT ---------- *)
Lemma fold_sum : forall vs a h,
  exists a', fold_left (add ASum) vs (SSum a h) = SSum a' (h || negb (Nat.eqb (length (nums vs)) 0))
             /\ a' == a + qsum (nums vs).
Proof.
  induction vs as [|v vs IH]; intros a h.
  - exists a. simpl. rewrite orb_false_r. split; [reflexivity | ring].
  - rewrite nums_cons. cbn [fold_left add]. destruct (to_float v) as [x|].
    + destruct (IH (qadd a x) true) as [a' [E Q]]. exists a'. split.
      * rewrite E. cbn [length Nat.eqb negb]. rewrite orb_true_r. reflexivity.
      * rewrite Q, qadd_eq. cbn [qsum fold_right]. fold (qsum (nums vs)). ring.
    + apply IH.
Qed.

Theorem sum_correct : forall vs, res_eq (run ASum vs) (spec ASum vs).
Proof.
  intros vs. unfold run. cbn [init]. destruct (fold_sum vs 0 false) as [a' [E Q]]. rewrite E.
  cbn [result spec orb]. destruct (nums vs) as [|x l] eqn:N; cbn [length Nat.eqb negb].
  - reflexivity.
  - cbn [res_eq]. rewrite Q. apply Qplus_0_l.
Qed.

Lemma fold_avg : forall vs a c,
  exists a', fold_left (add AAvg) vs (SAvg a c) = SAvg a' (c + length (nums vs)) /\ a' == a + qsum (nums vs).
Proof.
  induction vs as [|v vs IH]; intros a c.
  - exists a. simpl. rewrite Nat.add_0_r. split; [reflexivity | ring].
  - rewrite nums_cons. cbn [fold_left add]. destruct (to_float v) as [x|].
    + destruct (IH (qadd a x) (S c)) as [a' [E Q]]. exists a'. split.
      * rewrite E. cbn [length]. f_equal. lia.
      * rewrite Q, qadd_eq. cbn [qsum fold_right]. fold (qsum (nums vs)). ring.
    + apply IH.
Qed.

Theorem avg_correct : forall vs, res_eq (run AAvg vs) (spec AAvg vs).
Proof.
  intros vs. unfold run. cbn [init]. destruct (fold_avg vs 0 0%nat) as [a' [E Q]]. rewrite E.
  cbn [result spec]. destruct (nums vs) as [|x l] eqn:N.
  - reflexivity.
  - cbn [length Nat.add]. cbn [res_eq]. rewrite qdiv_eq, Q. unfold mean. cbn [length].
    rewrite Qplus_0_l. reflexivity.
Qed.

Lemma fold_count : forall vs c, fold_left (add ACount) vs (SCount c) = SCount (c + length (nonnull vs)).
Proof.
  induction vs as [|v vs IH]; intros c.
  - simpl. f_equal. lia.
  - cbn [fold_left]. rewrite nonnull_cons. destruct v; cbn [add not_null]; rewrite IH; cbn [length]; f_equal; lia.
Qed.

Theorem count_correct : forall vs, run ACount vs = spec ACount vs.
Proof. intros vs. unfold run. cbn [init]. rewrite fold_count. reflexivity. Qed.

(* ---------- MIN / MAX ---------- *)
Lemma fold_min_started : forall vs cur,
  fold_left (add AMin) vs (SExt cur false) = SExt (least cur (nums vs)) false.
Proof.
  induction vs as [|v vs IH]; intros cur.
  - reflexivity.
  - rewrite nums_cons. cbn [fold_left add]. destruct (to_float v) as [x|].
    + cbn [orb]. unfold least. cbn [fold_left]. fold (least (if qltb x cur then x else cur) (nums vs)).
      destruct (qltb x cur); apply IH.
    + apply IH.
Qed.
Lemma fold_min : forall vs cur,
  fold_left (add AMin) vs (SExt cur true) =
  match nums vs with [] => SExt cur true | x :: l => SExt (least x l) false end.
Proof.
  induction vs as [|v vs IH]; intros cur.
  - reflexivity.
  - rewrite nums_cons. cbn [fold_left add]. destruct (to_float v) as [x|].
    + cbn [orb]. apply fold_min_started.
    + apply IH.
Qed.
Theorem min_correct : forall vs, run AMin vs = spec AMin vs.
Proof.
  intros vs. unfold run. cbn [init]. rewrite fold_min. cbn [spec]. destruct (nums vs); reflexivity.
Qed.

Lemma fold_max_started : forall vs cur,
  fold_left (add AMax) vs (SExt cur false) = SExt (greatest cur (nums vs)) false.
Proof.
  induction vs as [|v vs IH]; intros cur.
  - reflexivity.
  - rewrite nums_cons. cbn [fold_left add]. destruct (to_float v) as [x|].
    + cbn [orb]. unfold greatest. cbn [fold_left]. fold (greatest (if qltb cur x then x else cur) (nums vs)).
      destruct (qltb cur x); apply IH.
    + apply IH.
Qed.
Lemma fold_max : forall vs cur,
  fold_left (add AMax) vs (SExt cur true) =
  match nums vs with [] => SExt cur true | x :: l => SExt (greatest x l) false end.
Proof.
  induction vs as [|v vs IH]; intros cur.
  - reflexivity.
  - rewrite nums_cons. cbn [fold_left add]. destruct (to_float v) as [x|].
    + cbn [orb]. apply fold_max_started.
    + apply IH.
Qed.
Theorem max_correct : forall vs, run AMax vs = spec AMax vs.
Proof.
  intros vs. unfold run. cbn [init]. rewrite fold_max. cbn [spec]. destruct (nums vs); reflexivity.
Qed.

(* what [least] / [greatest] mean: an element of the list that bounds all of them *)
Lemma qltb_false_le : forall a b, qltb a b = false -> b <= a.
Proof. intros a b H. unfold qltb in H. apply negb_false_iff in H. now apply Qle_bool_iff. Qed.
Lemma qltb_true_lt : forall a b, qltb a b = true -> a < b.
Proof.
  intros a b H. unfold qltb in H. apply negb_true_iff in H. apply Qnot_le_lt. intro L.
  apply Qle_bool_iff in L. congruence.
Qed.

Lemma least_spec : forall l x, In (least x l) (x :: l) /\ least x l <= x /\ forall y, In y l -> least x l <= y.
Proof.
  induction l as [|y l IH]; intros x.
  - simpl. split; [now left|]. split; [apply Qle_refl | intros y []].
  - unfold least. cbn [fold_left]. fold (least (if qltb y x then y else x) l).
    destruct (qltb y x) eqn:C.
    + destruct (IH y) as [I [Lx Ly]]. apply qltb_true_lt in C. split; [|split].
      * right. exact I.
      * eapply Qle_trans; [exact Lx | now apply Qlt_le_weak].
      * intros z [<-|Hz]; [exact Lx | now apply Ly].
    + destruct (IH x) as [I [Lx Ly]]. apply qltb_false_le in C. split; [|split].
      * destruct I as [I|I]; [now left | right; now right].
      * exact Lx.
      * intros z [<-|Hz]; [eapply Qle_trans; eauto | now apply Ly].
Qed.

Lemma greatest_spec : forall l x, In (greatest x l) (x :: l) /\ x <= greatest x l /\ forall y, In y l -> y <= greatest x l.
Proof.
  induction l as [|y l IH]; intros x.
  - simpl. split; [now left|]. split; [apply Qle_refl | intros y []].
  - unfold greatest. cbn [fold_left]. fold (greatest (if qltb x y then y else x) l).
    destruct (qltb x y) eqn:C.
    + destruct (IH y) as [I [Lx Ly]]. apply qltb_true_lt in C. split; [|split].
      * right. exact I.
      * eapply Qle_trans; [apply Qlt_le_weak; exact C | exact Lx].
      * intros z [<-|Hz]; [exact Lx | now apply Ly].
    + destruct (IH x) as [I [Lx Ly]]. apply qltb_false_le in C. split; [|split].
      * destruct I as [I|I]; [now left | right; now right].
      * exact Lx.
      * intros z [<-|Hz]; [eapply Qle_trans; eauto | now apply Ly].
Qed.

(* ---------- the value-collecting aggregators ---------- *)
Lemma fold_nums : forall f vs l,
  match f with AStdDev | AStdDevS | AVar | AVarS | AMedian | APercentile _ => True | _ => False end ->
  fold_left (add f) vs (SNums l) = SNums (l ++ nums vs).
Proof.
  intros f vs. induction vs as [|v vs IH]; intros l Hf.
  - simpl. now rewrite app_nil_r.
  - rewrite nums_cons. cbn [fold_left].
    assert (E : add f (SNums l) v = match to_float v with Some x => SNums (l ++ [x]) | None => SNums l end)
      by (destruct f; try contradiction; reflexivity).
    rewrite E. destruct (to_float v) as [x|].
    + rewrite IH by exact Hf. now rewrite <- app_assoc.
    + now apply IH.
Qed.

Lemma fold_vals : forall f vs l,
  match f with ANth _ | ACollect | AMerge => True | _ => False end ->
  fold_left (add f) vs (SVals l) = SVals (l ++ vs).
Proof.
  intros f vs. induction vs as [|v vs IH]; intros l Hf.
  - simpl. now rewrite app_nil_r.
  - cbn [fold_left].
    assert (E : add f (SVals l) v = SVals (l ++ [v])) by (destruct f; try contradiction; reflexivity).
    rewrite E, IH by exact Hf. now rewrite <- app_assoc.
Qed.

Theorem var_correct : forall vs, res_eq (run AVar vs) (spec AVar vs).
Proof.
  intros vs. unfold run. cbn [init]. rewrite fold_nums by exact I. cbn [app result spec].
  destruct (nums vs) as [|x l] eqn:N; [reflexivity|].
  cbn [length Nat.ltb Nat.leb]. cbn [res_eq]. rewrite qdiv_eq, loop_sqdev_eq. reflexivity.
Qed.

Theorem vars_correct : forall vs, res_eq (run AVarS vs) (spec AVarS vs).
Proof.
  intros vs. unfold run. cbn [init]. rewrite fold_nums by exact I. cbn [app result spec].
  destruct (Nat.ltb (length (nums vs)) 2); [reflexivity|].
  cbn [res_eq]. rewrite qdiv_eq, loop_sqdev_eq. reflexivity.
Qed.

Theorem stddevs_correct : forall vs, res_eq (run AStdDevS vs) (spec AStdDevS vs).
Proof.
  intros vs. unfold run. cbn [init]. rewrite fold_nums by exact I. cbn [app result spec].
  destruct (Nat.ltb (length (nums vs)) 2); [reflexivity|].
  cbn [res_eq]. rewrite qdiv_eq, loop_sqdev_eq. reflexivity.
Qed.

(* STDDEV as registered (StdDevAggregatorFunction) divides by n-1: it is the SAMPLE deviation *)
Theorem stddev_is_sample : forall vs, res_eq (run AStdDev vs) (spec AStdDevS vs).
Proof.
  intros vs. unfold run. cbn [init]. rewrite fold_nums by exact I. cbn [app result spec].
  destruct (Nat.ltb (length (nums vs)) 2); [reflexivity|].
  cbn [res_eq]. rewrite qdiv_eq, loop_sqdev_eq. reflexivity.
Qed.

Theorem stddev_population_refuted :
  exists vs, run AStdDev vs = RSqrt 1 /\ spec AStdDev vs = RSqrt (var_pop [1; 2; 3]) /\ var_pop [1; 2; 3] == 2 # 3.
Proof. exists [VInt 1; VInt 2; VInt 3]. split; [|split]; vm_compute; reflexivity. Qed.

Theorem median_correct : forall vs, run AMedian vs = spec AMedian vs.
Proof. intros vs. unfold run. cbn [init]. rewrite fold_nums by exact I. reflexivity. Qed.
Theorem percentile_correct : forall p vs, run (APercentile p) vs = spec (APercentile p) vs.
Proof. intros p vs. unfold run. cbn [init]. rewrite fold_nums by exact I. reflexivity. Qed.

(* ---------- Welford ---------- *)
Definition welf_inv (l : list Q) (c : nat) (mu m2 : Q) : Prop :=
  c = length l /\ mu * qnat c == qsum l /\ m2 * qnat c == qsumsq l * qnat c - qsum l * qsum l
  /\ (c = 0%nat -> mu == 0 /\ m2 == 0).

Lemma welf_step : forall l c mu m2 x,
  welf_inv l c mu m2 ->
  let mu' := mu + (x - mu) / qnat (S c) in
  welf_inv (l ++ [x]) (S c) mu' (m2 + (x - mu) * (x - mu')).
Proof.
  intros l c mu m2 x [Hc [Hmu [Hm2 H0]]] mu'. subst mu'.
  pose proof (qnat_S_neq0 c) as N.
  assert (Ls : qsum (l ++ [x]) == qsum l + x) by (rewrite qsum_app; simpl; ring).
  assert (Lq : qsumsq (l ++ [x]) == qsumsq l + x * x)
    by (unfold qsumsq; rewrite map_app, qsum_app; simpl; ring).
  pose proof (qnat_S c) as KS.
  assert (N1 : ~ qnat c + 1 == 0) by (rewrite <- KS; exact N).
  split; [rewrite app_length; simpl; lia|]. split; [|split; [|intros; lia]].
  - rewrite Ls, <- Hmu, KS. field. exact N1.
  - rewrite Ls, Lq.
    destruct c as [|c'].
    + destruct (H0 eq_refl) as [Z1 Z2].
      assert (S0 : qsum l == 0) by (rewrite <- Hmu; change (qnat 0) with 0; ring).
      assert (Q0 : qsumsq l == 0).
      { destruct l; [reflexivity | discriminate]. }
      rewrite Z1, Z2, S0, Q0. change (qnat 1) with 1. field.
    + pose proof (qnat_S_neq0 c') as N'.
      assert (Emu : mu == qsum l / qnat (S c')) by (rewrite <- Hmu; field; exact N').
      assert (Em2 : m2 == qsumsq l - qsum l * qsum l / qnat (S c')).
      { assert (m2 == (m2 * qnat (S c')) / qnat (S c')) as -> by (field; exact N').
        rewrite Hm2. field. exact N'. }
      rewrite Emu, Em2, KS. field. repeat split; assumption.
Qed.

Lemma fold_welf : forall f vs l c mu m2,
  match f with WStdDev | WStdDevS | WVar | WVarS => True | _ => False end ->
  welf_inv l c mu m2 ->
  exists mu' m2', fold_left (add f) vs (SWelf c mu m2) = SWelf (length (l ++ nums vs)) mu' m2'
                  /\ welf_inv (l ++ nums vs) (length (l ++ nums vs)) mu' m2'.
Proof.
  intros f vs. induction vs as [|v vs IH]; intros l c mu m2 Hf Inv.
  - exists mu, m2. simpl. rewrite app_nil_r. destruct Inv as [Hc R]. subst c. split; [reflexivity|].
    split; [reflexivity | exact R].
  - rewrite nums_cons. cbn [fold_left].
    assert (E : add f (SWelf c mu m2) v =
                match to_float v with
                | Some x => let c' := S c in let delta := qsub x mu in
                            let mean' := qadd mu (qdiv delta (qnat c')) in
                            let delta2 := qsub x mean' in SWelf c' mean' (qadd m2 (qmul delta delta2))
                | None => SWelf c mu m2 end)
      by (destruct f; try contradiction; reflexivity).
    rewrite E. destruct (to_float v) as [x|].
    + cbn zeta.
      assert (Inv' : welf_inv (l ++ [x]) (S c) (qadd mu (qdiv (qsub x mu) (qnat (S c))))
                       (qadd m2 (qmul (qsub x mu) (qsub x (qadd mu (qdiv (qsub x mu) (qnat (S c)))))))).
      { pose proof (welf_step l c mu m2 x Inv) as W. cbv zeta in W.
        destruct W as [W1 [W2 [W3 W4]]]. split; [exact W1|]. split; [|split; [|intros; lia]].
        - qnorm. exact W2.
        - qnorm. exact W3. }
      destruct (IH (l ++ [x]) _ _ _ Hf Inv') as [mu' [m2' [F I']]].
      exists mu', m2'. rewrite <- app_assoc in F, I'. exact (conj F I').
    + now apply IH.
Qed.

Lemma welf_init : welf_inv [] 0 0 0.
Proof. split; [reflexivity|]. unfold qnat, qsumsq. simpl. repeat split; try ring; reflexivity. Qed.

(* the m2 accumulator is sum (x - mean)^2 *)
Lemma welf_m2 : forall l mu m2, l <> [] -> welf_inv l (length l) mu m2 -> m2 == sqdev l.
Proof.
  intros l mu m2 Hl [_ [_ [H2 _]]]. rewrite sqdev_alt by exact Hl.
  destruct l as [|x l]; [congruence|]. pose proof (qnat_S_neq0 (length l)) as N. cbn [length] in *.
  assert (m2 == (m2 * qnat (S (length l))) / qnat (S (length l))) as -> by (field; exact N).
  rewrite H2. field. exact N.
Qed.

Theorem welford_var_correct : forall vs, res_eq (run WVar vs) (spec WVar vs).
Proof.
  intros vs. unfold run. cbn [init].
  destruct (fold_welf WVar vs [] 0%nat 0 0 I welf_init) as [mu [m2 [F Inv]]]. cbn [app] in F, Inv.
  rewrite F. cbn [result spec]. destruct (nums vs) as [|x l] eqn:N; [reflexivity|].
  cbn [length Nat.ltb Nat.leb res_eq]. rewrite qdiv_eq. unfold var_pop.
  rewrite (welf_m2 (x :: l) mu m2) by (congruence || exact Inv). reflexivity.
Qed.

Theorem welford_vars_correct : forall vs, res_eq (run WVarS vs) (spec WVarS vs).
Proof.
  intros vs. unfold run. cbn [init].
  destruct (fold_welf WVarS vs [] 0%nat 0 0 I welf_init) as [mu [m2 [F Inv]]]. cbn [app] in F, Inv.
  rewrite F. cbn [result spec]. destruct (Nat.ltb (length (nums vs)) 2) eqn:L; [reflexivity|].
  cbn [res_eq]. rewrite qdiv_eq. unfold var_samp.
  rewrite (welf_m2 (nums vs) mu m2); [reflexivity | | exact Inv].
  intro E. rewrite E in L. discriminate.
Qed.

Theorem welford_stddev_correct : forall vs, res_eq (run WStdDev vs) (spec WStdDev vs).
Proof.
  intros vs. unfold run. cbn [init].
  destruct (fold_welf WStdDev vs [] 0%nat 0 0 I welf_init) as [mu [m2 [F Inv]]]. cbn [app] in F, Inv.
  rewrite F. cbn [result spec]. destruct (nums vs) as [|x l] eqn:N; [reflexivity|].
  cbn [length Nat.ltb Nat.leb res_eq]. rewrite qdiv_eq. unfold var_pop.
  rewrite (welf_m2 (x :: l) mu m2) by (congruence || exact Inv). reflexivity.
Qed.

Theorem welford_stddevs_correct : forall vs, res_eq (run WStdDevS vs) (spec WStdDevS vs).
Proof.
  intros vs. unfold run. cbn [init].
  destruct (fold_welf WStdDevS vs [] 0%nat 0 0 I welf_init) as [mu [m2 [F Inv]]]. cbn [app] in F, Inv.
  rewrite F. cbn [result spec]. destruct (Nat.ltb (length (nums vs)) 2) eqn:L; [reflexivity|].
  cbn [res_eq]. rewrite qdiv_eq. unfold var_samp.
  rewrite (welf_m2 (nums vs) mu m2); [reflexivity | | exact Inv].
  intro E. rewrite E in L. discriminate.
Qed.
