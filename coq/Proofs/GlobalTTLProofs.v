(* STATETTL reaper of the global window: what a tick removes, and when it is invisible. *)
From Coq Require Import List ZArith Bool Lia.
From SV Require Import Model.GlobalWin Model.GlobalTTL Proofs.GlobalWinProofs.
Import ListNotations.

(* a tick removes exactly the groups idle for longer than the TTL and leaves every other group's state alone *)
Lemma gt_reap_find : forall ttl s k, (0 < ttl)%Z ->
  gw_find k (gt_reap ttl s) =
  if (gt_age_of k (snd s) <=? ttl)%Z then gw_find k (fst s) else None.
Proof.
  intros ttl [st a] k Hpos. unfold gt_reap. cbn [fst snd].
  assert (Hp : (0 <? ttl)%Z = true) by (apply Z.ltb_lt; exact Hpos). rewrite Hp.
  induction st as [|[k' g] t IH]; cbn [filter gw_find fst].
  - destruct (gt_age_of k a <=? ttl)%Z; reflexivity.
  - destruct (gw_key_eqb k' k) eqn:Ek.
    + apply gw_key_eqb_eq in Ek. subst k'.
      destruct (gt_age_of k a <=? ttl)%Z eqn:Ea.
      * cbn [gw_find]. rewrite gw_key_eqb_refl. reflexivity.
      * exact IH.
    + destruct (gt_age_of k' a <=? ttl)%Z.
      * cbn [gw_find]. rewrite Ek. exact IH.
      * exact IH.
Qed.

Lemma gt_reap_off : forall ttl s, (ttl <= 0)%Z -> gt_reap ttl s = fst s.
Proof.
  intros ttl s H. unfold gt_reap. assert (Hp : (0 <? ttl)%Z = false) by (apply Z.ltb_ge; exact H).
  rewrite Hp. reflexivity.
Qed.

Lemma gt_age_of_bound : forall ttl a k, (0 <= ttl)%Z ->
  forallb (fun ka => (snd ka <=? ttl)%Z) a = true -> (gt_age_of k a <= ttl)%Z.
Proof.
  intros ttl a k H0. induction a as [|[k' x] t IH]; cbn [forallb gt_age_of snd]; intros H.
  - exact H0.
  - apply andb_prop in H. destruct H as [Hx Ht].
    destruct (gw_key_eqb k' k).
    + apply Z.leb_le. exact Hx.
    + apply IH. exact Ht.
Qed.

Lemma gt_filter_all : forall (A : Type) (f : A -> bool) l, (forall x, f x = true) -> filter f l = l.
Proof.
  intros A f l H. induction l as [|x t IH]; cbn [filter]; [reflexivity|]. rewrite H, IH. reflexivity.
Qed.

Lemma gt_reap_quiet : forall ttl s,
  forallb (fun ka => (snd ka <=? ttl)%Z) (snd s) = true -> gt_reap ttl s = fst s.
Proof.
  intros ttl s H. unfold gt_reap. destruct (0 <? ttl)%Z eqn:Hp; [|reflexivity].
  apply Z.ltb_lt in Hp. apply gt_filter_all. intros kg. apply Z.leb_le.
  apply gt_age_of_bound; [lia | exact H].
Qed.

(* while no group is idle beyond the TTL at a tick, the reaper is invisible: the outputs are those of the
   window without a reaper on the same rows *)
Lemma gt_run_quiet_from : forall c ttl ops s,
  gt_quiet ttl (snd s) ops = true -> gt_run c ttl s ops = gw_run c (fst s) (gt_rows ops).
Proof.
  intros c ttl ops. induction ops as [|op t IH]; intros s H; [reflexivity|].
  destruct op as [r|d|]; cbn [gt_run gt_rows gt_step gw_run gt_quiet fst snd] in *.
  - f_equal. apply (IH (fst (gw_step c (fst s) r), gt_touch (gw_key r) (snd s))). exact H.
  - apply (IH (fst s, gt_pass d (snd s))). exact H.
  - apply andb_prop in H. destruct H as [Hq Ht].
    rewrite (gt_reap_quiet ttl s Hq). apply (IH (fst s, snd s)). exact Ht.
Qed.

Theorem gt_run_quiet : forall c ttl ops,
  gt_quiet0 ttl ops = true -> gt_run0 c ttl ops = gw_run0 c (gt_rows ops).
Proof. intros c ttl ops H. apply (gt_run_quiet_from c ttl ops ([], [])). exact H. Qed.

(* TTL <= 0: no reaper at all *)
Lemma gt_run_off_from : forall c ttl ops s, (ttl <= 0)%Z ->
  gt_run c ttl s ops = gw_run c (fst s) (gt_rows ops).
Proof.
  intros c ttl ops. induction ops as [|op t IH]; intros s H; [reflexivity|].
  destruct op as [r|d|]; cbn [gt_run gt_rows gt_step gw_run fst snd].
  - f_equal. apply (IH (fst (gw_step c (fst s) r), gt_touch (gw_key r) (snd s))). exact H.
  - apply (IH (fst s, gt_pass d (snd s))). exact H.
  - rewrite (gt_reap_off ttl s H). apply (IH (fst s, snd s)). exact H.
Qed.

Theorem gt_run_off : forall c ttl ops, (ttl <= 0)%Z -> gt_run0 c ttl ops = gw_run0 c (gt_rows ops).
Proof. intros c ttl ops H. apply (gt_run_off_from c ttl ops ([], [])). exact H. Qed.

(* a row resets the idle age of its own group only; the passage of time ages every group alike *)
Lemma gt_touch_same : forall k a, gt_age_of k (gt_touch k a) = 0%Z.
Proof. intros k a. unfold gt_touch. cbn [gt_age_of]. rewrite gw_key_eqb_refl. reflexivity. Qed.

Lemma gt_age_remove_other : forall k k2 a, gw_key_eqb k k2 = false ->
  gt_age_of k2 (gt_age_remove k a) = gt_age_of k2 a.
Proof.
  intros k k2 a Hk. induction a as [|[k' x] t IH]; cbn [gt_age_remove gt_age_of]; [reflexivity|].
  destruct (gw_key_eqb k' k) eqn:E1.
  - apply gw_key_eqb_eq in E1. subst k'. rewrite Hk. exact IH.
  - cbn [gt_age_of]. destruct (gw_key_eqb k' k2); [reflexivity | exact IH].
Qed.

Lemma gt_touch_other : forall k k2 a, gw_key_eqb k k2 = false -> gt_age_of k2 (gt_touch k a) = gt_age_of k2 a.
Proof.
  intros k k2 a Hk. unfold gt_touch. cbn [gt_age_of]. rewrite Hk. apply gt_age_remove_other. exact Hk.
Qed.

(* non-vacuity: a history with an idle group next to an active one is not quiet, and the reaper shows *)
Definition gt_w_cfg : gw_config :=
  {| gc_outs := [ {| gr_fn := GwCount; gr_fld := None |} ];
     gc_pred := GPAtom {| gr_fn := GwCount; gr_fld := None |} CmpGe (3 # 1)%Q;
     gc_bind := [Some 0%nat] |}.
Definition gt_w_row (k : N) : gw_row := {| gw_key := [k]; gw_vals := [] |}.
Definition gt_w_active : list gt_op :=
  [GtRow (gt_w_row 1); GtAge 6000; GtRow (gt_w_row 1); GtAge 6000; GtReap; GtRow (gt_w_row 1)].
Definition gt_w_idle : list gt_op :=
  [GtRow (gt_w_row 1); GtAge 6000; GtRow (gt_w_row 1); GtAge 6000; GtAge 6000; GtReap; GtRow (gt_w_row 1)].

Example gt_w_active_quiet : gt_quiet0 10500 gt_w_active = true /\
  gt_run0 gt_w_cfg 10500 gt_w_active = [None; None; Some ([1%N], [Some (3 # 1)%Q])].
Proof. split; vm_compute; reflexivity. Qed.
Example gt_w_idle_reaped : gt_quiet0 10500 gt_w_idle = false /\
  gt_run0 gt_w_cfg 10500 gt_w_idle = [None; None; None].
Proof. split; vm_compute; reflexivity. Qed.
