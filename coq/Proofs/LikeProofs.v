(* Proofs about Model/Like.v: the repaired two-pointer matcher equals the declarative LIKE,
   the matcher as written before the fix does not, and the LIKE rewriting is sound. *)
From Coq Require Import Arith Lia.
From SV Require Import Model.Like.

(* ---- spec helpers ---- *)
Fixpoint anyb (q s : bytes) : bool :=
  like q s || match s with [] => false | _ :: s' => anyb q s' end.

Lemma like_pct x p t : isp x = true -> like (x :: p) t = anyb p t.
Proof. intros H. cbn [like]. rewrite H. induction t as [|c t IH]; cbn; [reflexivity|]. rewrite IH. reflexivity. Qed.

Lemma like_lit x p c t : isp x = false -> like (x :: p) (c :: t) = lit x c && like p t.
Proof. intros H. cbn [like]. rewrite H. reflexivity. Qed.

Lemma like_lit_nil x p : isp x = false -> like (x :: p) [] = false.
Proof. intros H. cbn [like]. rewrite H. reflexivity. Qed.

Lemma like_nil_text p : like p [] = forallb isp p.
Proof.
  induction p as [|x p IH]; [reflexivity|]. cbn [forallb].
  destruct (isp x) eqn:E.
  - rewrite like_pct by assumption. cbn. rewrite IH, orb_false_r. reflexivity.
  - rewrite like_lit_nil by assumption. reflexivity.
Qed.

Definition nopct (L : bytes) : Prop := forallb (fun x => negb (isp x)) L = true.

Lemma like_len L p s : nopct L -> like (L ++ p) s = true -> length L <= length s.
Proof.
  revert s. induction L as [|x L IH]; intros s HL H; cbn; [lia|].
  unfold nopct in HL. cbn in HL. apply andb_true_iff in HL as [Hx HL].
  apply negb_true_iff in Hx. destruct s as [|c s].
  - cbn [app] in H. rewrite like_lit_nil in H by assumption. discriminate.
  - cbn [app] in H. rewrite like_lit in H by assumption. apply andb_true_iff in H as [_ H].
    apply IH in H; [cbn; lia|exact HL].
Qed.

Lemma anyb_false_short L p s : nopct L -> length s < length L -> anyb (L ++ p) s = false.
Proof.
  intros HL. induction s as [|c s IH]; intros Hlen; cbn [anyb].
  - destruct (like (L ++ p) []) eqn:E; [apply like_len in E; [cbn in *; lia|exact HL]|reflexivity].
  - destruct (like (L ++ p) (c :: s)) eqn:E; [apply like_len in E; [cbn in *; lia|exact HL]|].
    cbn. apply IH. cbn in Hlen. lia.
Qed.

Lemma anyb_skipn q k s : anyb q (skipn k s) = true -> anyb q s = true.
Proof.
  revert s. induction k as [|k IH]; intros s H; [exact H|].
  destruct s as [|c s]; [exact H|]. cbn [skipn] in H. apply IH in H.
  cbn [anyb]. rewrite H. apply orb_true_r.
Qed.

Lemma like_strip L p s : nopct L -> like (L ++ p) s = true -> like p (skipn (length L) s) = true.
Proof.
  revert s. induction L as [|x L IH]; intros s HL H; [exact H|].
  unfold nopct in HL. cbn in HL. apply andb_true_iff in HL as [Hx HL]. apply negb_true_iff in Hx.
  destruct s as [|c s]; cbn [app] in H.
  - rewrite like_lit_nil in H by assumption. discriminate.
  - rewrite like_lit in H by assumption. apply andb_true_iff in H as [_ H]. cbn. apply IH; assumption.
Qed.

Lemma anyb_exists q s : anyb q s = true -> exists k, like q (skipn k s) = true.
Proof.
  induction s as [|c s IH]; cbn [anyb]; intros H.
  - exists 0. rewrite orb_false_r in H. exact H.
  - apply orb_true_iff in H as [H|H]; [exists 0; exact H|]. destruct (IH H) as [k Hk]. exists (S k). exact Hk.
Qed.

Lemma like_anyb q s : like q s = true -> anyb q s = true.
Proof. intros H. destruct s; cbn [anyb]; rewrite H; reflexivity. Qed.

Lemma skipn_skipn' (A : Type) a b (l : list A) : skipn a (skipn b l) = skipn (b + a) l.
Proof. revert l; induction b as [|b IH]; intros l; [reflexivity|]. destruct l; cbn [skipn plus]; [apply skipn_nil|apply IH]. Qed.

Lemma later_implies L x p' tm t :
  isp x = true -> nopct L -> length L + length t = length tm -> t = skipn (length L) tm ->
  anyb (L ++ x :: p') (tl tm) = true -> anyb p' t = true.
Proof.
  intros Hx HL Hlen Ht H. apply anyb_exists in H as [k Hk].
  apply like_strip in Hk; [|exact HL]. rewrite like_pct in Hk by assumption.
  assert (E: skipn (length L) (skipn k (tl tm)) = skipn (S k) t).
  { subst t. destruct tm as [|c tm]; cbn [tl].
    - rewrite !skipn_nil. reflexivity.
    - rewrite !skipn_skipn'. replace (length L + S k) with (S (k + length L)) by lia. reflexivity. }
  rewrite E in Hk. eapply anyb_skipn; exact Hk.
Qed.

Definition W (ps tm : bytes) : nat := length tm * (length ps + length tm + 2).
Definition Phi (t p : bytes) (star : option (bytes * bytes)) : nat :=
  length t + length p + 1 + match star with None => W p t | Some (ps, tm) => W ps tm end.

Lemma nopct_snoc L x : nopct L -> isp x = false -> nopct (L ++ [x]).
Proof. unfold nopct. intros HL Hx. rewrite forallb_app, HL. cbn. rewrite Hx. reflexivity. Qed.

Lemma skipn_S_tl (A : Type) n (l : list A) : skipn (S n) l = tl (skipn n l).
Proof. revert l; induction n as [|n IH]; intros [|a l]; try reflexivity. cbn [skipn]. rewrite <- IH. reflexivity. Qed.

Lemma go_correct f : forall t p star, Phi t p star < f ->
  match star with
  | None => go true f t p None = Some (like p t)
  | Some (ps, tm) =>
      forall L, ps = L ++ p -> nopct L -> length L + length t = length tm ->
                t = skipn (length L) tm ->
                go true f t p (Some (ps, tm)) = Some (like p t || anyb ps (tl tm))
  end.
Proof.
  induction f as [|f IH]; intros t p star HPhi; [lia|].
  destruct star as [[ps tm]|].
  - intros L Hps HL Hlen Ht.
    destruct t as [|c t'].
    + cbn [go]. rewrite like_nil_text. f_equal.
      destruct L as [|l0 L'].
      * cbn in Hps, Hlen. subst ps. destruct tm; [|cbn in Hlen; lia].
        cbn [tl anyb]. rewrite like_nil_text. destruct (forallb isp p); reflexivity.
      * rewrite Hps, anyb_false_short; [rewrite orb_false_r; reflexivity|exact HL|].
        cbn in Hlen. destruct tm; cbn in *; lia.
    + destruct tm as [|c0 tm']; [cbn in Hlen; lia|].
      assert (Hback: go true f tm' ps (Some (ps, tm')) = Some (anyb ps tm')).
      { assert (HP: Phi tm' ps (Some (ps, tm')) < f).
        { unfold Phi, W in *. subst ps. rewrite app_length in *. cbn [length] in *. nia. }
        specialize (IH tm' ps (Some (ps, tm')) HP [] eq_refl eq_refl eq_refl eq_refl).
        rewrite IH. f_equal. destruct tm'; cbn [anyb tl]; [destruct (like ps [])|]; reflexivity. }
      destruct p as [|x p'].
      * cbn [go]. rewrite Hback. reflexivity.
      * cbn [go]. destruct (isp x) eqn:Ex.
        -- assert (HP: Phi (c :: t') p' (Some (p', c :: t')) < f).
           { unfold Phi, W in *. subst ps. rewrite app_length in *. cbn [length] in *. nia. }
           specialize (IH (c :: t') p' (Some (p', c :: t')) HP [] eq_refl eq_refl eq_refl eq_refl).
           rewrite IH. f_equal. rewrite like_pct by assumption.
           assert (E: like p' (c :: t') || anyb p' (tl (c :: t')) = anyb p' (c :: t')) by reflexivity.
           rewrite E.
           destruct (anyb ps (tl (c0 :: tm'))) eqn:El; [|rewrite orb_false_r; reflexivity].
           rewrite orb_true_r. subst ps.
           eapply later_implies with (tm := c0 :: tm'); eauto.
        -- rewrite like_lit by assumption. destruct (lit x c) eqn:El.
           ++ assert (HP: Phi t' p' (Some (ps, c0 :: tm')) < f).
              { unfold Phi, W in *. cbn [length] in *. lia. }
              specialize (IH t' p' (Some (ps, c0 :: tm')) HP (L ++ [x])).
              rewrite IH; [reflexivity| | | |].
              ** subst ps. rewrite <- app_assoc. reflexivity.
              ** apply nopct_snoc; assumption.
              ** rewrite app_length. cbn [length] in *. lia.
              ** rewrite app_length. cbn [length]. replace (length L + 1) with (S (length L)) by lia.
                 rewrite skipn_S_tl, <- Ht. reflexivity.
           ++ rewrite Hback. reflexivity.
  - destruct t as [|c t'].
    + cbn [go]. rewrite like_nil_text. reflexivity.
    + destruct p as [|x p']; [reflexivity|].
      cbn [go]. destruct (isp x) eqn:Ex.
      * assert (HP: Phi (c :: t') p' (Some (p', c :: t')) < f).
        { unfold Phi, W in *. cbn [length] in *. nia. }
        specialize (IH (c :: t') p' (Some (p', c :: t')) HP [] eq_refl eq_refl eq_refl eq_refl).
        rewrite IH. rewrite like_pct by assumption. reflexivity.
      * rewrite like_lit by assumption. destruct (lit x c) eqn:El; [|reflexivity].
        assert (HP: Phi t' p' None < f). { unfold Phi, W in *. cbn [length] in *. nia. }
        specialize (IH t' p' None HP). cbn in IH. rewrite IH. reflexivity.
Qed.

Lemma like_match_opt_correct t p : like_match_opt t p = Some (like p t).
Proof.
  unfold like_match_opt, like_fuel.
  pose proof (go_correct ((length t + 1) * (length t + length p + 2) + 1) t p None) as H.
  apply H. unfold Phi, W. nia.
Qed.

Lemma like_match_correct t p : like_match t p = like p t.
Proof. unfold like_match. rewrite like_match_opt_correct. reflexivity. Qed.

(* the matcher as it was before the fix (literal test first) is wrong: F4 *)
Lemma like_asis_refuted : exists t p, like_match_asis t p = Some false /\ like p t = true.
Proof. exists [pct; 98; 97; 98]%N, [pct; 97; us]%N. vm_compute. split; reflexivity. Qed.
