(* Watermark discipline of the tumbling model (C02): every watermark ever delivered is
   (timestamp of an accepted, not far-future event) - ooo; a window fires only under such a
   watermark >= its end; far-future timestamps leave the bookkeeping untouched. *)
From Coq Require Import Lia Arith.
From SV Require Import Model.Tumbling Proofs.TumblingProofs Proofs.TumblingComplete.

Lemma far_future_inert ooo now ts w :
  (now + ooo + day <? ts) = true ->
  let w' := update_event_time ooo now ts w in
  maxEv w' = maxEv w /\ cur w' = cur w /\ sent w' = sent w /\ chan w' = chan w.
Proof. intros H. unfold update_event_time. rewrite H. cbn. auto. Qed.

Lemma add_core_w c id ts now s s' bs :
  add_core c id ts now s = (s', bs) -> w s' = update_event_time (ooo c) now ts (w s) /\ pend s' = pend s.
Proof.
  unfold add_core.
  destruct (is_late ts _); [|intros [= <- <-]; cbn; auto].
  destruct (inwin c _ ts); [intros [= <- <-]; cbn; auto|].
  destruct (0 <? lateness c); [|intros [= <- <-]; cbn; auto].
  destruct (find _ _); intros [= <- <-]; cbn; auto.
Qed.

Section Origin.
  Variable c : cfg.
  Hypothesis Hidle : idle c = 0.
  Variable O : Z -> Prop.     (* "x is (an accepted event's timestamp) - ooo" *)

  Definition oall (o : option Z) : Prop := match o with Some x => O x | None => True end.

  Definition InvO (s : st) : Prop :=
    oall (cur (w s)) /\ Forall O (chan (w s)) /\ oall (pend s) /\
    (forall m, maxEv (w s) = Some m -> O (m - ooo c)).

  Definition op_orig (o : op) : Prop :=
    match o with Add _ ts now => (now + ooo c + day <? ts) = false -> O (ts - ooo c) | _ => True end.

  Lemma send_O w : oall (cur w) -> Forall O (chan w) -> Forall O (chan (send w)).
  Proof.
    intros Hc Hch. unfold send. destruct (cur w) as [x|]; [|exact Hch].
    destruct (_ && _); [|exact Hch]. cbn. apply Forall_app. split; [exact Hch|]. constructor; [exact Hc|constructor].
  Qed.

  Lemma raise_O v o : O v -> oall o -> oall (raise_cur v o).
  Proof. intros Hv Ho. unfold raise_cur. destruct (ogt v o); [exact Hv|exact Ho]. Qed.

  Lemma uet_O now ts w :
    ((now + ooo c + day <? ts) = false -> O (ts - ooo c)) ->
    oall (cur w) -> Forall O (chan w) -> (forall m, maxEv w = Some m -> O (m - ooo c)) ->
    let w' := update_event_time (ooo c) now ts w in
    oall (cur w') /\ Forall O (chan w') /\ (forall m, maxEv w' = Some m -> O (m - ooo c)).
  Proof.
    intros Hop Hc Hch Hm. unfold update_event_time. destruct (now + ooo c + day <? ts) eqn:E; cbn; [auto|].
    specialize (Hop eq_refl). rewrite send_cur.
    destruct (ogt ts (maxEv w)); cbn.
    - split; [apply raise_O; assumption|]. split.
      + apply send_O; cbn; [apply raise_O; assumption|exact Hch].
      + unfold send. cbn. destruct (raise_cur _ _); [destruct (_ && _)|]; cbn; intros m [= <-]; exact Hop.
    - split; [exact Hc|]. split; [apply send_O; assumption|].
      unfold send. cbn. destruct (cur w); [destruct (_ && _)|]; cbn; exact Hm.
  Qed.

  Lemma send_maxEv w : maxEv (send w) = maxEv w.
  Proof. unfold send. destruct (cur w); [destruct (_ && _)|]; reflexivity. Qed.

  Lemma tick_O now w :
    oall (cur w) -> Forall O (chan w) -> (forall m, maxEv w = Some m -> O (m - ooo c)) ->
    let w' := tick (ooo c) 0 now w in
    oall (cur w') /\ Forall O (chan w') /\ (forall m, maxEv w' = Some m -> O (m - ooo c)).
  Proof.
    intros Hc Hch Hm. unfold tick. destruct (maxEv w) as [m|] eqn:Em; [|cbn; rewrite Em; auto].
    assert (Hnw: O (match lastEv w with Some l => if (0 <? 0) && (0 <? now - l) then now - ooo c else m - ooo c | None => m - ooo c end)).
    { destruct (lastEv w); cbn; apply Hm; reflexivity. }
    cbn zeta. rewrite send_cur, send_maxEv. cbn [cur maxEv chan].
    split; [apply raise_O; assumption|]. split; [apply send_O; cbn; [apply raise_O; assumption|exact Hch]|].
    exact Hm.
  Qed.

  Lemma step_O s o s' evs :
    InvO s -> op_orig o -> step c s o = (s', evs) ->
    InvO s' /\ (forall x, In (EvDB x) evs -> O x) /\
    (forall b, In (EvBatch b) evs -> b_late b = false -> exists x, O x /\ b_end b <= x).
  Proof.
    intros (Hc & Hch & Hp & Hm) Hop. destruct o as [id ts now|id| | |now]; cbn [step].
    - unfold add. destruct (add_core c id ts now s) as [s1 bs] eqn:E. intros [= <- <-].
      destruct (uet_O now ts (w s) Hop Hc Hch Hm) as (A & B & C).
      pose proof (add_core_w _ _ _ _ _ _ _ E) as Hw.
      destruct Hw as [Hw1 Hw2]. split; [|split].
      + unfold InvO. rewrite Hw1, Hw2. auto.
      + intros x [H|H]; [discriminate|]. apply in_map_iff in H as [b [Hb _]]. discriminate.
      + intros b [H|H]; [discriminate|]. apply in_map_iff in H as [b' [Hb Hin]]. inversion Hb; subst b'.
        pose proof (add_core_late c _ _ _ _ _ _ E) as Hl. rewrite Forall_forall in Hl. rewrite (Hl b Hin). discriminate.
    - intros [= <- <-]. split; [unfold InvO; auto|]. split; [intros x [H|[]]; discriminate|intros b [H|[]]; discriminate].
    - destruct (pend s) eqn:Ep.
      + intros [= <- <-]. split; [unfold InvO; rewrite Ep; auto|]. split; [intros x []|intros b []].
      + unfold pop_chan. destruct (chan (w s)) as [|y r] eqn:Ec; intros [= <- <-].
        * split; [unfold InvO; rewrite Ep, Ec; auto|]. split; [intros x [H|[]]; discriminate|intros b [H|[]]; discriminate].
        * inversion Hch; subst. split; [unfold InvO; cbn; auto|]. split.
          -- intros x [H|[]]. inversion H; subst. assumption.
          -- intros b [H|[]]; discriminate.
    - unfold fire_step. destruct (pend s) as [wmk|] eqn:Ep.
      2:{ intros [= <- <-]. split; [unfold InvO; rewrite Ep; auto|]. split; [intros x []|intros b []]. }
      destruct (init s); cbn [negb].
      2:{ intros [= <- <-]. split; [unfold InvO; cbn; auto|]. split; [intros x [H|[]]; discriminate|intros b [H|[]]; discriminate]. }
      destruct (minl _) as [a|] eqn:Em.
      + intros [= <- <-]. split; [unfold InvO; cbn; auto|]. split; [intros x [H|[]]; discriminate|].
        intros b [H|[]] _. inversion H; subst b. cbn. exists wmk. split; [exact Hp|].
        apply minl_in in Em. unfold cand in Em. apply filter_In in Em as [_ Hc']. apply andb_true_iff in Hc' as [_ Hc'].
        apply Z.leb_le in Hc'. exact Hc'.
      + intros [= <- <-]. split; [unfold InvO, close_expired; cbn; auto|]. split; [intros x [H|[]]; discriminate|intros b [H|[]]; discriminate].
    - intros [= <- <-]. split; [|split; [intros x [H|[]]; discriminate|intros b [H|[]]; discriminate]].
      destruct (tick_O now (w s) Hc Hch Hm) as (A & B & C).
      unfold InvO, set_w. cbn. rewrite Hidle. auto.
  Qed.

  Lemma run_O h : forall s s' tr,
    InvO s -> Forall op_orig h -> run c s h = (s', tr) ->
    (forall x, In (EvDB x) tr -> O x) /\
    (forall b, In (EvBatch b) tr -> b_late b = false -> exists x, O x /\ b_end b <= x).
  Proof.
    induction h as [|o rest IH]; intros s s' tr Hinv Hh; cbn [run].
    - intros [= <- <-]. split; [intros x []|intros b []].
    - destruct (step c s o) as [s1 e1] eqn:E1. destruct (run c s1 rest) as [s2 e2] eqn:E2. intros [= <- <-].
      inversion Hh; subst. destruct (step_O _ _ _ _ Hinv H1 E1) as (Hi1 & Hd1 & Hb1).
      destruct (IH _ _ _ Hi1 H2 E2) as (Hd2 & Hb2). split.
      + intros x Hx. apply in_app_or in Hx as [Hx|Hx]; auto.
      + intros b Hb Hl. apply in_app_or in Hb as [Hb|Hb]; auto.
  Qed.
End Origin.

Definition accepted_wm (c : cfg) (h : list op) (x : Z) : Prop :=
  exists id ts now, In (Add id ts now) h /\ (now + ooo c + day <? ts) = false /\ x = ts - ooo c.

(* C02 for the tumbling window: delivered watermarks come from accepted events; a first firing
   of [s,e) happens only after an accepted event with ts >= e + ooo was ingested *)
Theorem tumbling_no_early_fire c h s tr :
  idle c = 0 -> run c st0 h = (s, tr) ->
  (forall x, In (EvDB x) tr -> accepted_wm c h x) /\
  (forall b, In (EvBatch b) tr -> b_late b = false ->
     exists id ts now, In (Add id ts now) h /\ (now + ooo c + day <? ts) = false /\ b_end b + ooo c <= ts).
Proof.
  intros Hidle Hrun.
  assert (Hops: Forall (op_orig c (accepted_wm c h)) h).
  { apply Forall_forall. intros o Ho. destruct o as [id ts now| | | |]; cbn; auto.
    intros Hs. exists id, ts, now. auto. }
  assert (Hinv: InvO c (accepted_wm c h) st0).
  { unfold InvO. cbn. repeat split; auto. discriminate. }
  destruct (run_O c Hidle _ h _ _ _ Hinv Hops Hrun) as [A B]. split; [exact A|].
  intros b Hb Hl. destruct (B b Hb Hl) as [x [[id [ts [now [H1 [H2 ->]]]]] Hle]].
  exists id, ts, now. repeat split; auto. lia.
Qed.

Lemma not_late_buffered c id ts now s :
  is_late ts (update_event_time (ooo c) now ts (w s)) = false ->
  In (id, ts) (data (fst (add_core c id ts now s))).
Proof.
  intros Hl. unfold add_core. rewrite Hl. cbn. apply in_or_app. right. left. reflexivity.
Qed.

(* ---- late updates (ALLOWEDLATENESS > 0) ---- *)
Lemma filter_none {A} (f : A -> bool) l : (forall x, In x l -> f x = false) -> filter f l = [].
Proof.
  induction l as [|a l IH]; cbn; intros H; [reflexivity|]. rewrite (H a (or_introl eq_refl)). apply IH.
  intros x Hx. apply H. right. exact Hx.
Qed.

(* a late row that falls in a fired window still registered produces, inside that Add, exactly one
   more batch with the same (start, end): the previous contents followed by the row *)
Lemma late_update_exact c id ts now s t :
  0 < size c -> Inv c s -> init s = true ->
  is_late ts (update_event_time (ooo c) now ts (w s)) = true ->
  inwin c (slot s) ts = false -> (0 <? lateness c) = true ->
  find (fun t => in_twin t ts) (trig s) = Some t ->
  snd (add_core c id ts now s) =
    [{| b_start := t_start t; b_end := t_end t; b_rows := t_snap t ++ [(id, ts)]; b_late := true |}].
Proof.
  intros Hs (H0 & H1 & _) Hi Hl Hw Hlt Hf. unfold add_core. rewrite Hi, Hl. cbn [negb andb]. rewrite Hw, Hlt, Hf. cbn [snd].
  destruct (H1 Hi) as (_ & Hd & Ht). apply find_some in Hf as [Hin Hts].
  rewrite Forall_forall in Ht. specialize (Ht t Hin).
  rewrite filter_app. cbn [filter rts snd]. rewrite Hts.
  rewrite (filter_none (fun r => in_twin t (rts r)) (data s)); [reflexivity|].
  intros r Hr. rewrite Forall_forall in Hd. specialize (Hd r Hr). unfold in_twin.
  apply andb_false_iff. right. apply Z.ltb_ge. lia.
Qed.

(* REFUTED (finding F8a): "an event older than watermark - ALLOWEDLATENESS never changes any result".
   10 s windows, lateness 1 s: +20.1, +25.0, then +20.5 (older than 25.0 - 1.0), +31.0: the first firing of
   [20,30) holds all three rows *)
Lemma beyond_lateness_inert_refuted :
  exists c h id ts,
    In (EvBatch {| b_start := 20000; b_end := 30000; b_rows := [(1, 20100); (2, 25000); (id, ts)]; b_late := false |})
       (snd (run c st0 h)) /\ ts < 25000 - ooo c - lateness c.
Proof.
  exists {| size := 10000; ooo := 0; lateness := 1000; idle := 0 |},
         [Add 1 20100 0; Add 2 25000 0; Add 3 20500 0; Add 4 31000 0;
          DeliverBegin; FireStep; DeliverBegin; FireStep; DeliverBegin; FireStep; FireStep], 3, 20500.
  split; [vm_compute; tauto|cbn; lia].
Qed.
