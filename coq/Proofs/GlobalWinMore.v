(* C17, second part: SQL's three-valued reading of TRIGGER WHEN (refuted in general, proved where
   the referenced aggregates are not NULL), what the aggregates of a row list are, and the
   relation between the extracted checker and the model. *)
From SV Require Import Spec.GlobalWinSpec Proofs.GlobalWinProofs.
From Coq Require Import Lia.

(* ------------------------------------------------------------------ three-valued reading *)
Definition gw_fires_at (c : gw_config) (h1 : list gw_row) (r : gw_row) (h2 : list gw_row) : Prop :=
  exists res, nth_error (gw_run0 c (h1 ++ r :: h2)) (length h1) = Some (Some res).

Theorem gw_fires_iff_sql3_partial : forall c, gw_bind_ok c -> forall h1 r h2,
  (forall a, In a (gw_calls (gc_pred c)) -> gw_agg_of a (gw_since0 c (gw_key r) h1 ++ [r]) <> None) ->
  (gw_fires_at c h1 r h2 <-> gw_holds3 (gc_pred c) (gw_since0 c (gw_key r) h1 ++ [r]) = true).
Proof.
  intros c Hok h1 r h2 H. unfold gw_fires_at. rewrite (gw_fires_iff c Hok).
  rewrite (gw_holds_holds3_nonnull _ _ H). reflexivity.
Qed.

(* ... in particular when the firing row itself carries a value for every referenced field *)
Theorem gw_fires_iff_sql3_row_values : forall c, gw_bind_ok c -> forall h1 r h2,
  (forall a, In a (gw_calls (gc_pred c)) -> gw_input a r <> None) ->
  (gw_fires_at c h1 r h2 <-> gw_holds3 (gc_pred c) (gw_since0 c (gw_key r) h1 ++ [r]) = true).
Proof.
  intros c Hok h1 r h2 H. apply (gw_fires_iff_sql3_partial c Hok). intros a Ha.
  apply (gw_agg_not_null a _ r).
  - apply in_or_app. right. left. reflexivity.
  - apply H. exact Ha.
Qed.

(* ... and for predicates over counts only *)
Theorem gw_fires_iff_sql3_counts : forall c, gw_bind_ok c -> forall h1 r h2,
  (forall a, In a (gw_calls (gc_pred c)) -> gr_fn a = GwCount) ->
  (gw_fires_at c h1 r h2 <-> gw_holds3 (gc_pred c) (gw_since0 c (gw_key r) h1 ++ [r]) = true).
Proof.
  intros c Hok h1 r h2 H. apply (gw_fires_iff_sql3_partial c Hok). intros [f l] Ha.
  pose proof (H _ Ha) as Hf. simpl in Hf. subst f. apply gw_count_not_null.
Qed.

(* witnesses: v is NULL in every row *)
Definition gw_w_null_row : gw_row := {| gw_key := [1%N]; gw_vals := [None] |}.
Definition gw_w_count : gw_ref := {| gr_fn := GwCount; gr_fld := None |}.
Definition gw_w_max : gw_ref := {| gr_fn := GwMax; gr_fld := Some 0%nat |}.
Definition gw_w_min : gw_ref := {| gr_fn := GwMin; gr_fld := Some 0%nat |}.
(* max(v) > 50 OR count( * ) >= 3 *)
Definition gw_w_cfg_or : gw_config :=
  {| gc_outs := [gw_w_count];
     gc_pred := GPOr (GPAtom gw_w_max CmpGt 50) (GPAtom gw_w_count CmpGe 3);
     gc_bind := [None; Some 0%nat] |}.
(* min(v) != 5 *)
Definition gw_w_cfg_ne : gw_config :=
  {| gc_outs := [gw_w_count; gw_w_min]; gc_pred := GPAtom gw_w_min CmpNe 5; gc_bind := [Some 1%nat] |}.
Lemma gw_w_cfg_or_ok : gw_bind_ok gw_w_cfg_or. Proof. reflexivity. Qed.
Lemma gw_w_cfg_ne_ok : gw_bind_ok gw_w_cfg_ne. Proof. reflexivity. Qed.

(* the third NULL row: count = 3, the predicate is (unknown OR true) = true, nothing is produced *)
Lemma gw_sql3_missed_fire :
  gw_holds3 (gc_pred gw_w_cfg_or) (gw_since0 gw_w_cfg_or [1%N] [gw_w_null_row; gw_w_null_row] ++ [gw_w_null_row]) = true /\
  nth_error (gw_run0 gw_w_cfg_or ([gw_w_null_row; gw_w_null_row] ++ gw_w_null_row :: [])) 2 = Some None.
Proof. split; vm_compute; reflexivity. Qed.

(* the first NULL row: min(v) is NULL, NULL != 5 is unknown, a result (count 1, min NULL) is produced *)
Lemma gw_sql3_spurious_fire :
  gw_holds3 (gc_pred gw_w_cfg_ne) (gw_since0 gw_w_cfg_ne [1%N] [] ++ [gw_w_null_row]) = false /\
  nth_error (gw_run0 gw_w_cfg_ne ([] ++ gw_w_null_row :: [])) 0 = Some (Some ([1%N], [Some 1; None])).
Proof. split; vm_compute; reflexivity. Qed.

Theorem gw_fires_iff_sql3_refuted :
  ~ (forall c, gw_bind_ok c -> forall h1 r h2,
       gw_fires_at c h1 r h2 <-> gw_holds3 (gc_pred c) (gw_since0 c (gw_key r) h1 ++ [r]) = true).
Proof.
  intro H. destruct gw_sql3_missed_fire as [H3 Hn].
  destruct (H gw_w_cfg_or gw_w_cfg_or_ok [gw_w_null_row; gw_w_null_row] gw_w_null_row []) as [_ Hb].
  destruct (Hb H3) as [res Hres]. simpl length in Hres. rewrite Hn in Hres. discriminate.
Qed.

Theorem gw_no_result_while_false_sql3_refuted :
  ~ (forall c, gw_bind_ok c -> forall h1 r h2,
       gw_holds3 (gc_pred c) (gw_since0 c (gw_key r) h1 ++ [r]) = false ->
       nth_error (gw_run0 c (h1 ++ r :: h2)) (length h1) = Some None).
Proof.
  intro H. destruct gw_sql3_spurious_fire as [H3 Hn].
  pose proof (H gw_w_cfg_ne gw_w_cfg_ne_ok [] gw_w_null_row [] H3) as Hb. simpl length in Hb.
  rewrite Hn in Hb. discriminate.
Qed.

(* ------------------------------------------------------------------ what the aggregates are *)
(* the non-NULL inputs of a call over a row list *)
Fixpoint gw_inputs (a : gw_ref) (seg : list gw_row) : list Q :=
  match seg with
  | [] => []
  | r :: t => match gw_input a r with Some x => x :: gw_inputs a t | None => gw_inputs a t end
  end.

Lemma gw_fold_inputs : forall a seg st,
  fold_left (gw_feed1 a) seg st = fold_left gw_add (gw_inputs a seg) st.
Proof.
  induction seg as [|r t IH]; simpl; intro st; auto.
  unfold gw_feed1 at 2. destruct (gw_input a r); simpl; apply IH.
Qed.

Fixpoint gw_qsum (l : list Q) : Q := match l with [] => 0 | x :: t => x + gw_qsum t end.

Lemma gw_fold_count : forall l n, fold_left gw_add l (AsCount n) = AsCount (n + Z.of_nat (length l)).
Proof.
  induction l as [|x t IH]; intro n.
  - simpl. f_equal. lia.
  - cbn [fold_left gw_add length]. rewrite IH. f_equal. lia.
Qed.

(* count = number of non-NULL inputs (count( * ): number of rows) *)
Theorem gw_count_is : forall f seg,
  gw_agg_of {| gr_fn := GwCount; gr_fld := f |} seg =
  Some (inject_Z (Z.of_nat (length (gw_inputs {| gr_fn := GwCount; gr_fld := f |} seg)))).
Proof.
  intros. unfold gw_agg_of. rewrite gw_fold_inputs. simpl gw_new. rewrite gw_fold_count. reflexivity.
Qed.

Lemma gw_count_star_inputs : forall fn seg, length (gw_inputs {| gr_fn := fn; gr_fld := None |} seg) = length seg.
Proof. induction seg as [|r t IH]; simpl; auto. Qed.

Lemma gw_fold_sum : forall l v has, exists v',
  fold_left gw_add l (AsSum v has) = AsSum v' (has || negb (Nat.eqb (length l) 0)) /\ v' == v + gw_qsum l.
Proof.
  induction l as [|x t IH]; intros v has.
  - exists v. simpl. split; [rewrite orb_false_r; reflexivity | ring].
  - cbn [fold_left gw_add]. destruct (IH (v + x) true) as [v' [H1 H2]]. exists v'. split.
    + rewrite H1. simpl. rewrite orb_true_r. reflexivity.
    + rewrite H2. simpl. ring.
Qed.

(* sum = NULL without a non-NULL input, else the sum of the inputs *)
Theorem gw_sum_is : forall f seg,
  match gw_agg_of {| gr_fn := GwSum; gr_fld := f |} seg with
  | None => gw_inputs {| gr_fn := GwSum; gr_fld := f |} seg = []
  | Some v => gw_inputs {| gr_fn := GwSum; gr_fld := f |} seg <> [] /\
              v == gw_qsum (gw_inputs {| gr_fn := GwSum; gr_fld := f |} seg)
  end.
Proof.
  intros. unfold gw_agg_of. rewrite gw_fold_inputs. simpl gw_new.
  destruct (gw_fold_sum (gw_inputs {| gr_fn := GwSum; gr_fld := f |} seg) 0 false) as [v' [H1 H2]].
  rewrite H1. simpl.
  destruct (gw_inputs {| gr_fn := GwSum; gr_fld := f |} seg) as [|x t]; simpl in *; auto.
  split; [discriminate | rewrite H2; ring].
Qed.

Lemma gw_fold_avg : forall l s n, exists s',
  fold_left gw_add l (AsAvg s n) = AsAvg s' (n + Z.of_nat (length l)) /\ s' == s + gw_qsum l.
Proof.
  induction l as [|x t IH]; intros s n.
  - exists s. simpl. split; [f_equal; lia | ring].
  - cbn [fold_left gw_add]. destruct (IH (s + x) (n + 1)%Z) as [s' [H1 H2]]. exists s'. split.
    + rewrite H1. f_equal. simpl length. lia.
    + rewrite H2. simpl. ring.
Qed.

(* avg = NULL without a non-NULL input, else sum / count of the inputs *)
Theorem gw_avg_is : forall f seg,
  match gw_agg_of {| gr_fn := GwAvg; gr_fld := f |} seg with
  | None => gw_inputs {| gr_fn := GwAvg; gr_fld := f |} seg = []
  | Some v => gw_inputs {| gr_fn := GwAvg; gr_fld := f |} seg <> [] /\
              v == gw_qsum (gw_inputs {| gr_fn := GwAvg; gr_fld := f |} seg) /
                   inject_Z (Z.of_nat (length (gw_inputs {| gr_fn := GwAvg; gr_fld := f |} seg)))
  end.
Proof.
  intros. unfold gw_agg_of. rewrite gw_fold_inputs. simpl gw_new.
  destruct (gw_fold_avg (gw_inputs {| gr_fn := GwAvg; gr_fld := f |} seg) 0 0) as [s' [H1 H2]].
  rewrite H1. cbn [gw_result].
  destruct (gw_inputs {| gr_fn := GwAvg; gr_fld := f |} seg) as [|x t] eqn:E.
  - simpl. reflexivity.
  - destruct (0 + Z.of_nat (length (x :: t)) =? 0)%Z eqn:E0.
    + apply Z.eqb_eq in E0. simpl length in E0. lia.
    + split; [discriminate|]. rewrite H2. rewrite Z.add_0_l. rewrite Qplus_0_l. reflexivity.
Qed.

(* min / max: NULL without a non-NULL input, else an input that bounds all inputs *)
Lemma gw_qlt_false_le : forall x y, gw_qlt x y = false -> y <= x.
Proof. intros x y H. unfold gw_qlt in H. apply negb_false_iff in H. apply Qle_bool_iff. exact H. Qed.
Lemma gw_qlt_true_lt : forall x y, gw_qlt x y = true -> x < y.
Proof.
  intros x y H. unfold gw_qlt in H. apply negb_true_iff in H. apply Qnot_le_lt. intro L.
  apply Qle_bool_iff in L. congruence.
Qed.

Lemma gw_fold_min : forall l v,
  exists m, fold_left gw_add l (AsMin v false) = AsMin m false /\
            In m (v :: l) /\ (forall x, In x (v :: l) -> m <= x).
Proof.
  induction l as [|y t IH]; intro v.
  - exists v. simpl. split; auto. split; auto. intros x [Hx|[]]. subst. apply Qle_refl.
  - cbn [fold_left gw_add orb]. destruct (gw_qlt y v) eqn:E.
    + destruct (IH y) as [m [H1 [H2 H3]]]. exists m. split; auto. split.
      * right. exact H2.
      * intros x [Hx|Hx].
        -- subst x. apply gw_qlt_true_lt in E. apply Qle_trans with y; [apply H3; left; reflexivity | apply Qlt_le_weak; exact E].
        -- apply H3. exact Hx.
    + destruct (IH v) as [m [H1 [H2 H3]]]. exists m. split; auto. split.
      * destruct H2 as [H2|H2]; [left; exact H2 | right; right; exact H2].
      * intros x [Hx|[Hx|Hx]].
        -- apply H3. left. exact Hx.
        -- subst x. apply gw_qlt_false_le in E. apply Qle_trans with v; [apply H3; left; reflexivity | exact E].
        -- apply H3. right. exact Hx.
Qed.

Theorem gw_min_is : forall f seg,
  match gw_agg_of {| gr_fn := GwMin; gr_fld := f |} seg with
  | None => gw_inputs {| gr_fn := GwMin; gr_fld := f |} seg = []
  | Some m => In m (gw_inputs {| gr_fn := GwMin; gr_fld := f |} seg) /\
              forall x, In x (gw_inputs {| gr_fn := GwMin; gr_fld := f |} seg) -> m <= x
  end.
Proof.
  intros. unfold gw_agg_of. rewrite gw_fold_inputs. simpl gw_new.
  destruct (gw_inputs {| gr_fn := GwMin; gr_fld := f |} seg) as [|y t]; [reflexivity|].
  cbn [fold_left gw_add orb]. destruct (gw_fold_min t y) as [m [H1 [H2 H3]]].
  rewrite H1. simpl. split; assumption.
Qed.

Lemma gw_fold_max : forall l v,
  exists m, fold_left gw_add l (AsMax v false) = AsMax m false /\
            In m (v :: l) /\ (forall x, In x (v :: l) -> x <= m).
Proof.
  induction l as [|y t IH]; intro v.
  - exists v. simpl. split; auto. split; auto. intros x [Hx|[]]. subst. apply Qle_refl.
  - cbn [fold_left gw_add orb]. destruct (gw_qlt v y) eqn:E.
    + destruct (IH y) as [m [H1 [H2 H3]]]. exists m. split; auto. split.
      * right. exact H2.
      * intros x [Hx|Hx].
        -- subst x. apply gw_qlt_true_lt in E. apply Qle_trans with y; [apply Qlt_le_weak; exact E | apply H3; left; reflexivity].
        -- apply H3. exact Hx.
    + destruct (IH v) as [m [H1 [H2 H3]]]. exists m. split; auto. split.
      * destruct H2 as [H2|H2]; [left; exact H2 | right; right; exact H2].
      * intros x [Hx|[Hx|Hx]].
        -- apply H3. left. exact Hx.
        -- subst x. apply gw_qlt_false_le in E. apply Qle_trans with v; [exact E | apply H3; left; reflexivity].
        -- apply H3. right. exact Hx.
Qed.

Theorem gw_max_is : forall f seg,
  match gw_agg_of {| gr_fn := GwMax; gr_fld := f |} seg with
  | None => gw_inputs {| gr_fn := GwMax; gr_fld := f |} seg = []
  | Some m => In m (gw_inputs {| gr_fn := GwMax; gr_fld := f |} seg) /\
              forall x, In x (gw_inputs {| gr_fn := GwMax; gr_fld := f |} seg) -> x <= m
  end.
Proof.
  intros. unfold gw_agg_of. rewrite gw_fold_inputs. simpl gw_new.
  destruct (gw_inputs {| gr_fn := GwMax; gr_fld := f |} seg) as [|y t]; [reflexivity|].
  cbn [fold_left gw_add orb]. destruct (gw_fold_max t y) as [m [H1 [H2 H3]]].
  rewrite H1. simpl. split; assumption.
Qed.

(* ------------------------------------------------------------------ the checker and the model *)
Definition gw_olist (o : option gw_res) : list gw_res := match o with Some r => [r] | None => [] end.

Lemma gw_close_refl : forall a, gw_close a a = true.
Proof.
  intros [x|]; simpl; auto.
  assert (H : Qle_bool (x - x) gw_tol = true).
  { apply Qle_bool_iff. unfold Qminus. rewrite Qplus_opp_r. unfold Qle, gw_tol. simpl. lia. }
  rewrite H. reflexivity.
Qed.

Lemma gw_all_close_refl : forall l, gw_all_close l l = true.
Proof. induction l as [|a t IH]; simpl; auto. rewrite gw_close_refl, IH. reflexivity. Qed.

Lemma gw_chk_row_spec : forall c s r,
  fst (fst (gw_chk_row c s r (gw_olist (snd (gw_spec_step c s r))))) = None /\
  snd (gw_chk_row c s r (gw_olist (snd (gw_spec_step c s r)))) = fst (gw_spec_step c s r).
Proof.
  intros c s r. unfold gw_chk_row, gw_spec_step.
  destruct (gw_holds (gc_pred c) (gw_seg_find (gw_key r) s ++ [r])) eqn:Hh; cbn [fst snd gw_olist negb].
  - unfold gw_result_of. cbn [fst snd]. rewrite gw_key_eqb_refl, gw_all_close_refl. cbn [negb]. split; reflexivity.
  - split; reflexivity.
Qed.

Lemma gw_chk_from_spec : forall c h s,
  fst (gw_chk_from c s h (map gw_olist (gw_spec_run c s h))) = None.
Proof.
  induction h as [|r t IH]; intro s; [reflexivity|].
  cbn [gw_spec_run map gw_chk_from].
  destruct (gw_chk_row_spec c s r) as [H1 H2].
  destruct (gw_chk_row c s r (gw_olist (snd (gw_spec_step c s r)))) as [[hard soft] s'] eqn:E.
  cbn [fst snd] in H1, H2. subst hard s'.
  pose proof (IH (fst (gw_spec_step c s r))) as IH'.
  destruct (gw_chk_from c (fst (gw_spec_step c s r)) t (map gw_olist (gw_spec_run c (fst (gw_spec_step c s r)) t))) as [hard' soft'].
  cbn [fst] in IH'. subst hard'. reflexivity.
Qed.

(* the model's own output passes the checker (engine reading) on every input *)
Theorem gw_model_passes_checker : forall c, gw_bind_ok c ->
  forall h, chk_C17_engine c h (map gw_olist (gw_run0 c h)) = None.
Proof. intros c Hok h. unfold chk_C17_engine. rewrite (gw_run0_spec c Hok). apply gw_chk_from_spec. Qed.

(* for every binding, the model's output passes the checker of the predicate as bound *)
Theorem gw_model_passes_checker_as_bound : forall c h,
  chk_C17_engine (gw_eff c) h (map gw_olist (gw_run0 c h)) = None.
Proof. intros c h. unfold chk_C17_engine. rewrite gw_run0_spec_eff. apply gw_chk_from_spec. Qed.

(* conversely: outputs that pass the checker are the model's outputs, row by row, up to the tolerance *)
Definition gw_same (o : list gw_res) (m : option gw_res) : Prop :=
  match m with
  | None => o = []
  | Some (k, vs) => exists vs', o = [(k, vs')] /\ gw_all_close vs vs' = true
  end.

Lemma gw_chk_from_complete : forall c h s obs,
  fst (gw_chk_from c s h obs) = None -> Forall2 gw_same obs (gw_spec_run c s h).
Proof.
  induction h as [|r t IH]; intros s obs H.
  - destruct obs; [constructor | simpl in H; discriminate].
  - destruct obs as [|o ot]; [simpl in H; discriminate|].
    cbn [gw_chk_from] in H.
    destruct (gw_chk_row c s r o) as [[hard soft] s'] eqn:E.
    destruct (gw_chk_from c s' t ot) as [hard' soft'] eqn:E2.
    cbn [fst] in H. destruct hard as [cl|]; [simpl in H; discriminate|]. simpl in H. subst hard'.
    cbn [gw_spec_run]. unfold gw_chk_row in E. unfold gw_spec_step.
    destruct (gw_holds (gc_pred c) (gw_seg_find (gw_key r) s ++ [r])) eqn:Hh.
    + destruct o as [|res [|res2 o']]; cbn [negb] in E; try (inversion E; fail).
      destruct (gw_key_eqb (fst res) (gw_key r)) eqn:Ek; cbn [negb] in E; [|inversion E].
      destruct (gw_all_close (map (fun a => gw_agg_of a (gw_seg_find (gw_key r) s ++ [r])) (gc_outs c)) (snd res)) eqn:Ec;
        cbn [negb] in E; [|inversion E].
      inversion E; subst s'. cbn [fst snd]. constructor.
      * unfold gw_same, gw_result_of. destruct res as [k' vs']. cbn [fst snd] in *.
        apply gw_key_eqb_eq in Ek. subst k'. exists vs'. split; auto.
      * apply IH. rewrite E2. reflexivity.
    + destruct o as [|res [|res2 o']]; cbn [negb] in E; try (inversion E; fail).
      inversion E; subst s'. cbn [fst snd]. constructor.
      * reflexivity.
      * apply IH. rewrite E2. reflexivity.
Qed.

Theorem gw_checker_complete : forall c, gw_bind_ok c -> forall h obs,
  chk_C17_engine c h obs = None -> Forall2 gw_same obs (gw_run0 c h).
Proof. intros c Hok h obs H. rewrite (gw_run0_spec c Hok). apply gw_chk_from_complete. exact H. Qed.

(* ------------------------------------------------------------------ any binding *)
(* For EVERY binding the window fires exactly when the predicate AS BOUND holds ... *)
Theorem gw_fires_iff_as_bound : forall c h1 r h2,
  (exists res, nth_error (gw_run0 c (h1 ++ r :: h2)) (length h1) = Some (Some res)) <->
  gw_holds (gw_eff_pred c) (gw_since0 c (gw_key r) h1 ++ [r]) = true.
Proof.
  intros c h1 r h2. rewrite (gw_run0_as_bound c (h1 ++ r :: h2)). rewrite <- gw_since0_as_bound.
  apply (gw_fires_iff (gw_eff c) (gw_eff_bind_ok c)).
Qed.

Theorem gw_result_exact_as_bound : forall c h1 r h2 res,
  nth_error (gw_run0 c (h1 ++ r :: h2)) (length h1) = Some (Some res) ->
  res = (gw_key r, map (fun a => gw_agg_of a (gw_since0 c (gw_key r) h1 ++ [r])) (gc_outs c)).
Proof.
  intros c h1 r h2 res H. rewrite (gw_run0_as_bound c (h1 ++ r :: h2)) in H. rewrite <- gw_since0_as_bound.
  apply (gw_result_exact (gw_eff c) (gw_eff_bind_ok c) h1 r h2 res H).
Qed.

Theorem gw_restart_empty_as_bound : forall c h1 r h2 res,
  nth_error (gw_run0 c (h1 ++ r :: h2)) (length h1) = Some (Some res) ->
  gw_since0 c (gw_key r) (h1 ++ [r]) = [] /\
  gw_project (gw_key r) (combine h2 (skipn (S (length h1)) (gw_run0 c (h1 ++ r :: h2)))) =
  gw_run0 c (filter (gw_is_group (gw_key r)) h2).
Proof.
  intros c h1 r h2 res H. rewrite <- gw_since0_as_bound.
  rewrite (gw_run0_as_bound c (h1 ++ r :: h2)) in *.
  rewrite (gw_run0_as_bound c (filter (gw_is_group (gw_key r)) h2)).
  apply (gw_restart_empty (gw_eff c) (gw_eff_bind_ok c) h1 r h2 res H).
Qed.

(* ... which is the predicate as written only for a faithful binding. Witness: columns 0 and 1 (say temp and
   Temp), SELECT count( * ), max(col0); TRIGGER WHEN max(col1) > 5 bound to the SELECT's max(col0), as
   findOutputSpec does when the two names differ in letter case only. Row (col0 = 9, col1 = 1):
   max(col1) = 1, the predicate is false, yet a result is produced. *)
Definition gw_w_twin_cfg : gw_config :=
  {| gc_outs := [gw_w_count; gw_w_max];
     gc_pred := GPAtom {| gr_fn := GwMax; gr_fld := Some 1%nat |} CmpGt 5;
     gc_bind := [Some 1%nat] |}.
Definition gw_w_twin_row : gw_row := {| gw_key := [1%N]; gw_vals := [Some 9; Some 1] |}.

Lemma gw_twin_spurious_fire :
  gw_holds (gc_pred gw_w_twin_cfg) (gw_since0 gw_w_twin_cfg [1%N] [] ++ [gw_w_twin_row]) = false /\
  nth_error (gw_run0 gw_w_twin_cfg ([] ++ gw_w_twin_row :: [])) 0 = Some (Some ([1%N], [Some 1; Some 9])).
Proof. split; vm_compute; reflexivity. Qed.

Theorem gw_fires_iff_any_binding_refuted :
  ~ (forall c h1 r h2,
       (exists res, nth_error (gw_run0 c (h1 ++ r :: h2)) (length h1) = Some (Some res)) <->
       gw_holds (gc_pred c) (gw_since0 c (gw_key r) h1 ++ [r]) = true).
Proof.
  intro H. destruct gw_twin_spurious_fire as [Hf Hn].
  destruct (H gw_w_twin_cfg [] gw_w_twin_row []) as [Ha _].
  assert (Ht : gw_holds (gc_pred gw_w_twin_cfg) (gw_since0 gw_w_twin_cfg (gw_key gw_w_twin_row) [] ++ [gw_w_twin_row]) = true).
  { apply Ha. eexists. simpl length. exact Hn. }
  change (gw_key gw_w_twin_row) with [1%N] in Ht. rewrite Hf in Ht. discriminate.
Qed.
