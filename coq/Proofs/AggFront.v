(* C03: the front end of GroupAggregator.Add, batches, Reset, permutation invariance. *)
From Coq Require Import Lia Permutation Setoid Morphisms Field Qfield.
From SV Require Import Model.Agg Spec.AggSpec Proofs.AggProofs.
Local Open Scope Q_scope.

(* ---------- FIRST / LAST / NTH / COLLECT / MERGE / DEDUPLICATE objects ---------- *)
Lemma fold_first_has : forall vs v, fold_left (add AFirst) vs (SFirst v true) = SFirst v true.
Proof. induction vs as [|x vs IH]; intros v; [reflexivity | apply IH]. Qed.
Theorem first_correct : forall vs, run AFirst vs = spec AFirst vs.
Proof.
  intros vs. unfold run. cbn [init]. destruct vs as [|x vs]; [reflexivity|].
  cbn [fold_left add]. rewrite fold_first_has. reflexivity.
Qed.

Lemma fold_last : forall vs v, fold_left (add ALast) vs (SLast v) = SLast (last vs v).
Proof.
  induction vs as [|x vs IH]; intros v; [reflexivity|].
  cbn [fold_left add]. rewrite IH. f_equal. destruct vs as [|y vs]; [reflexivity|].
  cbn [last]. clear IH. revert y. induction vs as [|z vs IH]; intros y; [reflexivity|]. cbn [last]. apply IH.
Qed.
Theorem last_correct : forall vs, run ALast vs = spec ALast vs.
Proof. intros vs. unfold run. cbn [init]. rewrite fold_last. reflexivity. Qed.

Lemma mem_bytes_app : forall k a b, mem_bytes k (a ++ b) = mem_bytes k a || mem_bytes k b.
Proof. intros k a b. induction a as [|x a IH]; simpl; [reflexivity | rewrite IH; apply orb_assoc]. Qed.

Definition dedup_step (out : list value) (v : value) : list value :=
  if mem_bytes (fmt_v v) (map fmt_v out) then out else out ++ [v].

Lemma fold_dedup : forall vs seen l,
  (forall k, mem_bytes k seen = mem_bytes k (map fmt_v l)) ->
  exists seen', fold_left (add ADedup) vs (SDedup seen l) = SDedup seen' (fold_left dedup_step vs l).
Proof.
  induction vs as [|v vs IH]; intros seen l Inv.
  - exists seen. reflexivity.
  - cbn [fold_left add]. unfold dedup_step at 2. rewrite <- Inv.
    destruct (mem_bytes (fmt_v v) seen) eqn:M.
    + apply IH. exact Inv.
    + apply IH. intros k. rewrite map_app, mem_bytes_app. cbn [map mem_bytes]. rewrite <- Inv.
      rewrite orb_false_r. apply orb_comm.
Qed.

(* objects that do not test for NULL themselves (the front end does) are correct on NULL-free input *)
Definition keeps_null (f : agg) : bool :=
  match f with ANth _ | ACollect | ADedup | AMerge => true | _ => false end.

Theorem run_correct : forall f vs,
  f <> AStdDev -> (keeps_null f = false \/ nonnull vs = vs) -> res_eq (run f vs) (spec f vs).
Proof.
  intros f vs NS H. destruct f; try congruence.
  - apply sum_correct.
  - apply avg_correct.
  - rewrite min_correct. apply res_eq_refl.
  - rewrite max_correct. apply res_eq_refl.
  - rewrite count_correct. apply res_eq_refl.
  - apply stddevs_correct.
  - apply var_correct.
  - apply vars_correct.
  - rewrite median_correct. apply res_eq_refl.
  - rewrite percentile_correct. apply res_eq_refl.
  - rewrite first_correct. apply res_eq_refl.
  - rewrite last_correct. apply res_eq_refl.
  - destruct H as [H|H]; [discriminate|]. unfold run. cbn [init]. rewrite fold_vals by exact I.
    cbn [app result spec]. rewrite H. apply res_eq_refl.
  - destruct H as [H|H]; [discriminate|]. unfold run. cbn [init]. rewrite fold_vals by exact I.
    cbn [app result spec]. rewrite H. apply res_eq_refl.
  - destruct H as [H|H]; [discriminate|]. unfold run. cbn [init].
    destruct (fold_dedup vs [] [] (fun k => eq_refl)) as [seen' E]. rewrite E.
    cbn [result spec]. rewrite H. apply res_eq_refl.
  - destruct H as [H|H]; [discriminate|]. unfold run. cbn [init]. rewrite fold_vals by exact I.
    cbn [app result spec]. rewrite H. destruct vs; apply res_eq_refl.
  - apply welford_stddev_correct.
  - apply welford_stddevs_correct.
  - apply welford_var_correct.
  - apply welford_vars_correct.
Qed.

(* ---------- what the front end hands to the object ---------- *)
Definition fed (f : agg) (m : mode) (cells : list cell) : list value := flat_map (feed f m) cells.

Lemma nums_app : forall a b, nums (a ++ b) = nums a ++ nums b.
Proof. intros a b. unfold nums. apply flat_map_app. Qed.
Lemma nonnull_app : forall a b, nonnull (a ++ b) = nonnull a ++ nonnull b.
Proof. intros a b. unfold nonnull. apply filter_app. Qed.
Lemma nonnull_idem : forall l, nonnull (nonnull l) = nonnull l.
Proof.
  induction l as [|v l IH]; [reflexivity|]. rewrite nonnull_cons. destruct (not_null v) eqn:E.
  - rewrite nonnull_cons, E, IH. reflexivity.
  - exact IH.
Qed.
Lemma nums_nonnull : forall l, nums (nonnull l) = nums l.
Proof.
  induction l as [|v l IH]; [reflexivity|]. rewrite nonnull_cons, (nums_cons v l).
  destruct v; cbn [not_null]; try (rewrite nums_cons, IH; reflexivity). cbn [to_float]. exact IH.
Qed.

Lemma spec_nonnull : forall f l, allow_null f = false -> spec f (nonnull l) = spec f l.
Proof.
  intros f l H. destruct f; try discriminate; cbn [spec]; rewrite ?nums_nonnull, ?nonnull_idem; reflexivity.
Qed.

Lemma fed_expr : forall f cells,
  fed f MExpr cells = if allow_null f then present cells else nonnull (present cells).
Proof.
  intros f cells. unfold fed, present. induction cells as [|c cells IH]; [destruct (allow_null f); reflexivity|].
  cbn [flat_map]. rewrite IH. destruct c as [|v]; [reflexivity|].
  destruct (allow_null f) eqn:A.
  - destruct v; cbn [feed app]; rewrite ?A; reflexivity.
  - rewrite nonnull_app. destruct v; cbn [feed app nonnull filter not_null]; rewrite ?A; reflexivity.
Qed.

Lemma fed_col_other : forall f cells, is_numeric f = false ->
  fed f MCol cells = if allow_null f then present cells else nonnull (present cells).
Proof.
  intros f cells NN. unfold fed, present. induction cells as [|c cells IH]; [destruct (allow_null f); reflexivity|].
  cbn [flat_map]. rewrite IH. destruct c as [|v]; [reflexivity|].
  assert (C : is_count f = false) by (destruct f; try discriminate; reflexivity).
  destruct (allow_null f) eqn:A.
  - destruct v; cbn [feed app]; rewrite ?A, ?C, ?NN; reflexivity.
  - rewrite nonnull_app. destruct v; cbn [feed app nonnull filter not_null]; rewrite ?A, ?C, ?NN; reflexivity.
Qed.

Lemma fed_col_count : forall cells, fed ACount MCol cells = nonnull (present cells).
Proof.
  intros cells. unfold fed, present. induction cells as [|c cells IH]; [reflexivity|].
  cbn [flat_map]. rewrite IH, nonnull_app. destruct c as [|v]; [reflexivity|]. destruct v; reflexivity.
Qed.

Lemma fed_col_numeric : forall f cells, is_numeric f = true -> is_count f = false ->
  nums (fed f MCol cells) = nums (present cells) /\ nonnull (fed f MCol cells) = fed f MCol cells.
Proof.
  intros f cells NN C. unfold fed, present. induction cells as [|c cells [IH1 IH2]]; [split; reflexivity|].
  cbn [flat_map]. rewrite !nums_app, nonnull_app, IH1, IH2. destruct c as [|v]; [split; reflexivity|].
  assert (A : allow_null f = false) by (destruct f; try discriminate; reflexivity).
  destruct v; cbn [feed]; rewrite ?A, ?C, ?NN; try (split; reflexivity).
  cbn [to_float]. unfold nums at 1 3. cbn [flat_map to_float]. rewrite !app_nil_r.
  destruct (parse_float s) as [x|]; split; reflexivity.
Qed.

(* numeric definitions only look at the usable numbers *)
Lemma spec_numeric_ext : forall f a b, is_numeric f = true -> is_count f = false ->
  nums a = nums b -> spec f a = spec f b.
Proof. intros f a b NN C E. destruct f; try discriminate; cbn [spec]; rewrite E; reflexivity. Qed.

Lemma ga_fold : forall f m cells s,
  fold_left (ga_add f m) cells (Some s) = Some (fold_left (add f) (fed f m cells) s).
Proof.
  intros f m cells. unfold fed. induction cells as [|c cells IH]; intros s; [reflexivity|].
  cbn [fold_left flat_map]. unfold ga_add at 2. rewrite IH, fold_left_app. reflexivity.
Qed.

Lemma batch_run : forall f m c cells, batch f m (c :: cells) = Some (run f (fed f m (c :: cells))).
Proof.
  intros f m c cells. unfold batch, batch_from. cbn [fold_left]. unfold ga_add at 2. rewrite ga_fold.
  cbn [ga_results]. unfold run, fed. cbn [flat_map]. rewrite fold_left_app. reflexivity.
Qed.

(* MAIN: every emitted value equals the definition applied to the present cells of the batch *)
Theorem batch_correct : forall f m cells,
  f <> AStdDev -> m <> MStar ->
  match f with WStdDev | WStdDevS | WVar | WVarS => False | _ => True end ->
  ores_eq (batch f m cells) (spec_batch f m cells).
Proof.
  intros f m cells NS NM Reg. destruct cells as [|c cells]; [exact I|].
  rewrite batch_run. cbn [spec_batch ores_eq]. set (cs := c :: cells).
  assert (G : forall vs, (keeps_null f = false \/ nonnull vs = vs) -> spec f vs = spec f (present cs) ->
              res_eq (run f vs) (match m with MStar => RNum (qnat (length cs)) | _ => spec f (present cs) end)).
  { intros vs K E. destruct m; try congruence; rewrite <- E; apply run_correct; assumption. }
  apply G; clear G.
  - destruct m; try congruence.
    + destruct (is_numeric f) eqn:NN.
      * destruct (is_count f) eqn:C.
        -- left. destruct f; try discriminate; reflexivity.
        -- right. apply fed_col_numeric; assumption.
      * rewrite fed_col_other by exact NN. destruct (allow_null f) eqn:A.
        -- left. destruct f; try discriminate; reflexivity.
        -- right. apply nonnull_idem.
    + rewrite fed_expr. destruct (allow_null f) eqn:A.
      * left. destruct f; try discriminate; reflexivity.
      * right. apply nonnull_idem.
  - destruct m; try congruence.
    + destruct (is_numeric f) eqn:NN.
      * destruct (is_count f) eqn:C.
        -- assert (f = ACount) as -> by (destruct f; try discriminate; reflexivity).
           rewrite fed_col_count. apply spec_nonnull. reflexivity.
        -- apply spec_numeric_ext; try assumption. apply fed_col_numeric; assumption.
      * rewrite fed_col_other by exact NN. destruct (allow_null f) eqn:A; [reflexivity | now apply spec_nonnull].
    + rewrite fed_expr. destruct (allow_null f) eqn:A; [reflexivity | now apply spec_nonnull].
Qed.

(* STDDEV as registered: the sample deviation of the usable inputs *)
Theorem batch_stddev_sample : forall m cells, m <> MStar ->
  ores_eq (batch AStdDev m cells) (spec_batch AStdDevS m cells).
Proof.
  intros m cells NM. destruct cells as [|c cells]; [exact I|].
  rewrite batch_run. cbn [spec_batch ores_eq]. set (cs := c :: cells).
  assert (E : nums (fed AStdDev m cs) = nums (present cs)).
  { destruct m; try congruence.
    - apply fed_col_numeric; reflexivity.
    - rewrite fed_expr. cbn [allow_null]. apply nums_nonnull. }
  assert (R : res_eq (run AStdDev (fed AStdDev m cs)) (spec AStdDevS (present cs))).
  { pose proof (stddev_is_sample (fed AStdDev m cs)) as S. cbn [spec] in S |- *. rewrite E in S. exact S. }
  destruct m; try congruence; exact R.
Qed.

(* count( * ) counts rows *)
Theorem count_star_counts_rows : forall f cells, cells <> [] ->
  batch ACount MStar cells = Some (RNum (qnat (length cells))) /\ spec_batch f MStar cells = Some (RNum (qnat (length cells))).
Proof.
  intros f cells NE. destruct cells as [|c cells]; [congruence|]. split; [|reflexivity].
  rewrite batch_run. unfold run. cbn [init]. rewrite fold_count. cbn [result Nat.add].
  assert (L : forall l, length (nonnull (fed ACount MStar l)) = length l).
  { induction l as [|x l IH]; [reflexivity|]. unfold fed in *. cbn [flat_map feed app].
    rewrite nonnull_cons. cbn [not_null length]. f_equal. exact IH. }
  rewrite L. reflexivity.
Qed.

(* no state leaks from one batch into the next: every batch's result is a function of that batch only *)
Theorem no_leak : forall f m bs, run_batches f m None bs = map (batch f m) bs.
Proof.
  intros f m bs. induction bs as [|b bs IH]; [reflexivity|].
  cbn [run_batches map]. rewrite IH. reflexivity.
Qed.
(* ... whatever group state the instance held before the Reset that precedes the first batch *)
Theorem no_leak_after_reset : forall f m g b bs,
  run_batches f m g (b :: bs) = batch_from f m g b :: map (batch f m) bs.
Proof. intros. cbn [run_batches]. rewrite no_leak. reflexivity. Qed.

(* empty input: SUM/AVG/MIN/MAX are NULL, COUNT is 0 *)
Theorem empty_group : forall vs, nums vs = [] ->
  spec ASum vs = RNull /\ spec AAvg vs = RNull /\ spec AMin vs = RNull /\ spec AMax vs = RNull.
Proof. intros vs E. cbn [spec]. rewrite E. repeat split. Qed.
Theorem empty_count : forall vs, nonnull vs = [] -> spec ACount vs = RNum 0.
Proof. intros vs E. cbn [spec]. rewrite E. reflexivity. Qed.

(* FIRST_VALUE / LAST_VALUE report an explicit NULL of the first / last present row *)
Theorem first_last_explicit_null : forall m cells, m <> MStar ->
  (forall rest, present cells = VNull :: rest -> batch AFirst m cells = Some (RVal VNull)) /\
  (forall front, present cells = front ++ [VNull] -> batch ALast m cells = Some (RVal VNull)).
Proof.
  intros m cells NM. split.
  - intros rest E. pose proof (batch_correct AFirst m cells ltac:(congruence) NM I) as B.
    destruct cells as [|c cells]; [discriminate|]. cbn [spec_batch] in B.
    destruct (batch AFirst m (c :: cells)) as [r|]; [|contradiction]. cbn [ores_eq] in B.
    destruct m; try congruence; cbn [spec] in B; rewrite E in B; cbn [hd] in B;
      destruct r; cbn [res_eq] in B; congruence.
  - intros front E. pose proof (batch_correct ALast m cells ltac:(congruence) NM I) as B.
    destruct cells as [|c cells]; [destruct front; discriminate|]. cbn [spec_batch] in B.
    destruct (batch ALast m (c :: cells)) as [r|]; [|contradiction]. cbn [ores_eq] in B.
    assert (L : last (front ++ [VNull]) VNull = VNull) by apply last_last.
    destruct m; try congruence; cbn [spec] in B; rewrite E, L in B;
      destruct r; cbn [res_eq] in B; congruence.
Qed.

(* ---------- permutation invariance ---------- *)
Lemma qsum_perm : forall a b, Permutation a b -> qsum a == qsum b.
Proof.
  intros a b P. induction P; simpl.
  - reflexivity.
  - rewrite IHP. reflexivity.
  - ring.
  - rewrite IHP1. exact IHP2.
Qed.

Lemma present_perm : forall a b, Permutation a b -> Permutation (present a) (present b).
Proof. intros a b P. unfold present. now apply Permutation_flat_map. Qed.
Lemma nums_perm : forall a b, Permutation a b -> Permutation (nums a) (nums b).
Proof. intros a b P. unfold nums. now apply Permutation_flat_map. Qed.
Lemma nonnull_perm : forall a b, Permutation a b -> Permutation (nonnull a) (nonnull b).
Proof.
  intros a b P. unfold nonnull. induction P; cbn [filter].
  - constructor.
  - destruct (not_null x); [now constructor | assumption].
  - destruct (not_null x), (not_null y); try apply Permutation_refl. apply perm_swap.
  - eapply Permutation_trans; eassumption.
Qed.

Lemma mean_perm : forall a b, Permutation a b -> mean a == mean b.
Proof.
  intros a b P. unfold mean. rewrite (qsum_perm a b P), (Permutation_length P). reflexivity.
Qed.
Lemma sqdev_perm : forall a b, Permutation a b -> sqdev a == sqdev b.
Proof.
  intros a b P. unfold sqdev.
  rewrite (qsum_map_ext (fun x => (x - mean a) * (x - mean a)) (fun x => (x - mean b) * (x - mean b)) a).
  - apply qsum_perm. now apply Permutation_map.
  - intro x. rewrite (mean_perm a b P). reflexivity.
Qed.

Definition order_free (f : agg) : bool :=
  match f with
  | ASum | AAvg | ACount | AVar | AVarS | AStdDev | AStdDevS | WVar | WVarS | WStdDev | WStdDevS => true
  | _ => false
  end.

Theorem spec_perm_invariant : forall f vs vs', order_free f = true -> Permutation vs vs' ->
  res_eq (spec f vs) (spec f vs').
Proof.
  intros f vs vs' O P. pose proof (nums_perm _ _ P) as PN.
  pose proof (Permutation_length PN) as LN.
  assert (Z : nums vs = [] <-> nums vs' = []).
  { split; intro E; rewrite E in LN; [symmetry in LN|]; now apply length_zero_iff_nil in LN. }
  assert (NZ : forall (A B : res), (nums vs <> [] -> nums vs' <> [] -> res_eq A B) ->
               forall r0, res_eq (match nums vs with [] => r0 | _ => A end) (match nums vs' with [] => r0 | _ => B end)).
  { intros A B HAB r0. destruct (nums vs) as [|x l] eqn:E1, (nums vs') as [|y l'] eqn:E2.
    - apply res_eq_refl.
    - destruct Z as [Z1 _]. specialize (Z1 eq_refl). discriminate.
    - destruct Z as [_ Z2]. specialize (Z2 eq_refl). discriminate.
    - apply HAB; congruence. }
  destruct f; try discriminate; cbn [spec].
  - apply NZ. intros _ _. cbn [res_eq]. now apply qsum_perm.
  - apply NZ. intros _ _. cbn [res_eq]. now apply mean_perm.
  - cbn [res_eq]. rewrite (Permutation_length (nonnull_perm _ _ P)). reflexivity.
  - apply NZ. intros _ _. cbn [res_eq]. unfold var_pop. rewrite (sqdev_perm _ _ PN), LN. reflexivity.
  - rewrite LN. destruct (Nat.ltb (length (nums vs')) 2); [apply res_eq_refl|].
    cbn [res_eq]. unfold var_samp. rewrite (sqdev_perm _ _ PN), LN. reflexivity.
  - apply NZ. intros _ _. cbn [res_eq]. unfold var_pop. rewrite (sqdev_perm _ _ PN), LN. reflexivity.
  - rewrite LN. destruct (Nat.ltb (length (nums vs')) 2); [apply res_eq_refl|].
    cbn [res_eq]. unfold var_samp. rewrite (sqdev_perm _ _ PN), LN. reflexivity.
  - apply NZ. intros _ _. cbn [res_eq]. unfold var_pop. rewrite (sqdev_perm _ _ PN), LN. reflexivity.
  - rewrite LN. destruct (Nat.ltb (length (nums vs')) 2); [apply res_eq_refl|].
    cbn [res_eq]. unfold var_samp. rewrite (sqdev_perm _ _ PN), LN. reflexivity.
  - apply NZ. intros _ _. cbn [res_eq]. unfold var_pop. rewrite (sqdev_perm _ _ PN), LN. reflexivity.
  - rewrite LN. destruct (Nat.ltb (length (nums vs')) 2); [apply res_eq_refl|].
    cbn [res_eq]. unfold var_samp. rewrite (sqdev_perm _ _ PN), LN. reflexivity.
Qed.

(* MIN / MAX: any two lower (upper) bounds that belong to permutations of one list are == *)
Theorem min_perm_invariant : forall x l y l', Permutation (x :: l) (y :: l') -> least x l == least y l'.
Proof.
  intros x l y l' P.
  destruct (least_spec l x) as [I1 [B1 C1]]. destruct (least_spec l' y) as [I2 [B2 C2]].
  assert (A1 : forall z, In z (x :: l) -> least x l <= z) by (intros z [<-|Hz]; auto).
  assert (A2 : forall z, In z (y :: l') -> least y l' <= z) by (intros z [<-|Hz]; auto).
  apply Qle_antisym.
  - apply A1. eapply Permutation_in; [apply Permutation_sym; exact P | exact I2].
  - apply A2. eapply Permutation_in; [exact P | exact I1].
Qed.
Theorem max_perm_invariant : forall x l y l', Permutation (x :: l) (y :: l') -> greatest x l == greatest y l'.
Proof.
  intros x l y l' P.
  destruct (greatest_spec l x) as [I1 [B1 C1]]. destruct (greatest_spec l' y) as [I2 [B2 C2]].
  assert (A1 : forall z, In z (x :: l) -> z <= greatest x l) by (intros z [<-|Hz]; auto).
  assert (A2 : forall z, In z (y :: l') -> z <= greatest y l') by (intros z [<-|Hz]; auto).
  apply Qle_antisym.
  - apply A2. eapply Permutation_in; [exact P | exact I1].
  - apply A1. eapply Permutation_in; [apply Permutation_sym; exact P | exact I2].
Qed.

(* the SQL-level defect: a two-argument aggregate over an arithmetic first argument sees no input *)
Theorem two_arg_expr_arg_lost_refuted :
  exists cells,
    batch (APercentile (1 # 2)) MExpr (sql_cells_asis ShMul2 (APercentile (1 # 2)) cells) = Some (RNum 0) /\
    spec_batch (APercentile (1 # 2)) MExpr (map (eval_arg ShMul2) cells) = Some (RNum 4).
Proof. exists [Cell (VInt 1); Cell (VInt 4); Cell (VInt 2)]. split; vm_compute; reflexivity. Qed.

(* ---------- select lists: every aggregate call of a query sees ITS OWN argument expression ---------- *)
Definition field_batch (cells : list cell) (fd : sfield) : option res :=
  let '(f, m, sh) := fd in batch f m (map (eval_arg sh) cells).

Lemma sel_fold_cons : forall cells f m sh fs g gs,
  fold_left (sel_add ((f, m, sh) :: fs)) cells (g :: gs) =
  fold_left (ga_add f m) (map (eval_arg sh) cells) g :: fold_left (sel_add fs) cells gs.
Proof.
  induction cells as [|c cells IH]; intros f m sh fs g gs; [reflexivity|].
  change (fold_left (sel_add ((f, m, sh) :: fs)) (c :: cells) (g :: gs))
    with (fold_left (sel_add ((f, m, sh) :: fs)) cells (ga_add f m g (eval_arg sh c) :: sel_add fs gs c)).
  rewrite IH. reflexivity.
Qed.

Lemma sel_results_from : forall fs cells,
  sel_results fs (fold_left (sel_add fs) cells (sel_init fs)) = map (field_batch cells) fs.
Proof.
  induction fs as [|[[f m] sh] fs IH]; intros cells; [reflexivity|].
  unfold sel_init. simpl map. rewrite sel_fold_cons. simpl sel_results.
  f_equal. apply IH.
Qed.

Theorem sel_batch_fields : forall fs cells, sel_batch fs cells = map (field_batch cells) fs.
Proof. intros fs cells. unfold sel_batch. apply sel_results_from. Qed.

Theorem sel_run_fields : forall fs bs,
  sel_run fs (sel_init fs) bs = map (fun b => map (field_batch b) fs) bs.
Proof.
  intros fs bs. induction bs as [|b bs IH]; [reflexivity|].
  simpl. rewrite sel_results_from, IH. reflexivity.
Qed.

(* the j-th call of the select list yields the definition applied to ITS argument, evaluated per row;
   the other calls of the list (their aggregates, their arguments) do not occur in the right-hand side *)
Theorem select_list_correct : forall fs cells j f m sh,
  nth_error fs j = Some (f, m, sh) ->
  f <> AStdDev -> m <> MStar ->
  match f with WStdDev | WStdDevS | WVar | WVarS => False | _ => True end ->
  exists r, nth_error (sel_batch fs cells) j = Some r /\
            ores_eq r (spec_batch f m (map (eval_arg sh) cells)).
Proof.
  intros fs cells j f m sh Hj Hf Hm Hw.
  exists (batch f m (map (eval_arg sh) cells)). split.
  - rewrite sel_batch_fields. apply (map_nth_error (field_batch cells) j fs Hj).
  - apply batch_correct; assumption.
Qed.

(* two calls over the same column with different arguments are not mixed up: sum(d.x * 2), sum(d.x + 1) over 1, -4, 10 *)
Lemma select_list_example :
  sel_batch [(ASum, MExpr, ShAff OMul 2); (ASum, MExpr, ShAff OAdd 1);
             (AMin, MExpr, ShAff OMul (5 # 2)); (AFirst, MExpr, ShAff OAdd 1)]
            [Cell (VInt 1); Cell (VInt (-4)); Cell VNull; Missing; Cell (VInt 10)]
  = [Some (RNum 14); Some (RNum 10); Some (RNum (-10)); Some (RVal (VFlt 2))].
Proof. vm_compute. reflexivity. Qed.

(* ---------- an event without any column ({}): every input of the row is missing ----------
   The row is still a row of the batch: the (empty-key) group is created, the state of every field other than
   count( * ) is left as it is, count( * ) is fed with a 1.  A batch of such events only has a result row. *)
Lemma ga_add_missing : forall f m g, m <> MStar ->
  ga_add f m g Missing = Some (match g with Some s => s | None => init f end).
Proof.
  intros f m g Hm. unfold ga_add. destruct m; [congruence | |]; destruct g; reflexivity.
Qed.
Lemma fold_ga_add_missing : forall f m, m <> MStar ->
  forall n s, fold_left (ga_add f m) (repeat Missing n) (Some s) = Some s.
Proof.
  intros f m Hm. induction n as [|n IH]; intros s; [reflexivity|].
  cbn [repeat fold_left]. rewrite ga_add_missing by assumption. apply IH.
Qed.
Theorem batch_of_empty_events : forall f m n, m <> MStar ->
  batch f m (repeat Missing (S n)) = Some (result f (init f)) /\
  batch ACount MStar (repeat Missing (S n)) = Some (RNum (qnat (S n))).
Proof.
  intros f m n Hm. split.
  - unfold batch, batch_from. cbn [repeat fold_left]. rewrite ga_add_missing by assumption.
    rewrite fold_ga_add_missing by assumption. reflexivity.
  - destruct (count_star_counts_rows ACount (repeat Missing (S n))) as [H _]; [discriminate|].
    rewrite repeat_length in H. exact H.
Qed.
(* anywhere in a batch: the row changes nothing for the fields that read a column (count( * ) counts it:
   count_star_counts_rows) *)
Lemma fold_ga_add_some : forall f m cells g, (g <> None \/ cells <> []) ->
  exists s, fold_left (ga_add f m) cells g = Some s.
Proof.
  intros f m. induction cells as [|c cells IH]; intros g H.
  - destruct H as [H|H]; [|congruence]. destruct g as [s|]; [exists s; reflexivity | congruence].
  - cbn [fold_left]. apply IH. left. unfold ga_add. discriminate.
Qed.
Theorem empty_event_in_batch : forall f m pre post, m <> MStar -> pre ++ post <> [] ->
  batch f m (pre ++ Missing :: post) = batch f m (pre ++ post).
Proof.
  intros f m pre post Hm Hne. unfold batch, batch_from. f_equal.
  rewrite !fold_left_app. cbn [fold_left]. rewrite ga_add_missing by assumption.
  destruct pre as [|c pre].
  - destruct post as [|d post]; [exfalso; apply Hne; reflexivity|]. reflexivity.
  - destruct (fold_ga_add_some f m (c :: pre) None) as [s Hs]; [right; discriminate|].
    rewrite Hs. reflexivity.
Qed.
