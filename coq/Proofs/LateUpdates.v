(* C02, late updates of the session and the sliding window: a late event that falls into a fired window (session) that is
   still retained causes a re-delivery of exactly that window: same interval, previous contents plus the event. *)
From Coq Require Import Lia Arith.
From SV Require Import Model.Session Model.Tumbling Model.Sliding.

(* session: the retained fired session of the event's own key that contains its timestamp *)
Lemma session_late_update c id ts key now s t :
  (now + nooo c + day <? ts) = false ->
  is_late ts (update_event_time (nooo c) now ts (n_w s)) = true ->
  (0 <? nlateness c) = true ->
  lookup key (n_trig s) = Some t -> in_sess (ts_sess t) ts = true ->
  snd (nadd c id ts key now s) =
    [SvAdd id ts key;
     SvBatch key (se_start (ts_sess t)) (se_end (ts_sess t)) (se_rows (ts_sess t) ++ [(id, ts, key)])].
Proof.
  intros Hf Hl H0 Hk Hin. unfold nadd. rewrite Hf, Hl, H0, Hk, Hin. reflexivity.
Qed.

(* ... and a late event outside it (or of a key without a retained session) changes nothing but the watermark's clock *)
Lemma session_late_drop c id ts key now s :
  (now + nooo c + day <? ts) = false ->
  is_late ts (update_event_time (nooo c) now ts (n_w s)) = true ->
  (match lookup key (n_trig s) with Some t => in_sess (ts_sess t) ts | None => false end) = false ->
  let '(s', evs) := nadd c id ts key now s in
  evs = [SvAdd id ts key] /\ n_sess s' = n_sess s /\ n_trig s' = n_trig s.
Proof.
  intros Hf Hl Hno. unfold nadd. rewrite Hf, Hl. destruct (0 <? nlateness c); [|cbn; auto].
  destruct (lookup key (n_trig s)) as [t|]; [|cbn; auto]. rewrite Hno. cbn. auto.
Qed.

(* sliding: every retained fired window that contains the timestamp is re-delivered, in window order, as its previous
   contents plus the buffered rows inside it that it did not hold yet; the other retained windows are untouched *)
Lemma late_updates_spec ts d l :
  let '(l', bs) := late_updates ts d l in
  bs = map (fun t => {| b_start := t_start t; b_end := t_end t;
                        b_rows := t_snap t ++ filter (fun x => in_twin t (rts x) && negb (existsb (fun y => rid y =? rid x) (t_snap t))) d;
                        b_late := true |})
           (filter (fun t => in_twin t ts) l) /\
  map t_start l' = map t_start l /\ map t_end l' = map t_end l /\
  Forall2 (fun t t' => if in_twin t ts
                       then t_snap t' = t_snap t ++ filter (fun x => in_twin t (rts x) && negb (existsb (fun y => rid y =? rid x) (t_snap t))) d
                       else t' = t) l l'.
Proof.
  induction l as [|t l IH]; cbn [late_updates filter map]; [repeat split; constructor|].
  destruct (late_updates ts d l) as [l' bs]. destruct IH as (A & B & C & D).
  destruct (in_twin t ts) eqn:E; cbn [map t_start t_end].
  - rewrite A, B, C. repeat split; auto. constructor; [rewrite E; reflexivity|exact D].
  - rewrite A, B, C. repeat split; auto. constructor; [rewrite E; reflexivity|exact D].
Qed.

Lemma sliding_late_update c id ts now s :
  is_late ts (update_event_time (sooo c) now ts (s_w s)) = true ->
  (0 <? slateness c) = true ->
  existsb (fun t => in_twin t ts) (s_trig s) = true ->
  snd (sadd_core c id ts now s) =
    map (fun t => {| b_start := t_start t; b_end := t_end t;
                     b_rows := t_snap t ++ filter (fun x => in_twin t (rts x) && negb (existsb (fun y => rid y =? rid x) (t_snap t)))
                                                  (s_data s ++ [(id, ts)]);
                     b_late := true |})
        (filter (fun t => in_twin t ts) (s_trig s)).
Proof.
  intros Hl H0 Hex. unfold sadd_core. rewrite Hl, H0, Hex.
  pose proof (late_updates_spec ts (s_data s ++ [(id, ts)]) (s_trig s)) as H.
  destruct (late_updates ts (s_data s ++ [(id, ts)]) (s_trig s)) as [tr bs]. destruct H as (A & _).
  destruct (sinwin c _ ts); cbn [snd]; exact A.
Qed.
