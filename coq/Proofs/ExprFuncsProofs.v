(* C06 — the documented values of the built-ins of Model/ExprFuncs.v: characteristic theorems. *)
From Coq Require Import List Arith Lia Bool QArith Qabs Qround SetoidList.
Import ListNotations.
From SV Require Import Model.ExprFuncs Proofs.ExprPadProofs.
Local Open Scope nat_scope.

(* ------------------------------------------------------------------ general *)
Lemma fx_call_total : forall n args,
  (exists v, fx_call n args = YOk v) \/ fx_call n args = YErr \/ fx_call n args = YUnm.
Proof. intros n args. destruct (fx_call n args) as [v| |]; [left; exists v; reflexivity|right; left; reflexivity|right; right; reflexivity]. Qed.

Lemma ysem_top_total : forall row t,
  (exists v, ysem_top row t = YOk v) \/ ysem_top row t = YErr \/ ysem_top row t = YUnm.
Proof. intros row t. destruct (ysem_top row t) as [v| |]; [left; exists v; reflexivity|right; left; reflexivity|right; right; reflexivity]. Qed.

Lemma fx_call_bad_arity : forall n a args,
  fx_arity n = Some a -> arity_ok a (length args) = false -> fx_call n args = YErr.
Proof. intros n a args Ha Hk. unfold fx_call. rewrite Ha, Hk. reflexivity. Qed.

Lemma fx_call_unknown : forall n args, fx_arity n = None -> fx_call n args = YUnm.
Proof. intros n args Ha. unfold fx_call. rewrite Ha. reflexivity. Qed.

(* ------------------------------------------------------------------ equality of values *)
Lemma bytes_eqb_iff : forall a b, bytes_eqb a b = true <-> a = b.
Proof.
  induction a as [|x a IH]; destruct b as [|y b]; simpl; split; intros H; try reflexivity; try discriminate.
  - apply andb_true_iff in H. destruct H as [H1 H2]. apply N.eqb_eq in H1. apply IH in H2. subst. reflexivity.
  - inversion H; subst. rewrite N.eqb_refl. simpl. apply IH. reflexivity.
Qed.

Definition veqP (a b : xvalue) : Prop := veq a b = true.

Lemma veq_refl : forall a, veq a a = true.
Proof.
  destruct a as [|q|s|b]; simpl; [reflexivity| | |].
  - unfold qeqb. apply Qeq_bool_iff. reflexivity.
  - apply bytes_eqb_iff. reflexivity.
  - destruct b; reflexivity.
Qed.
Lemma veq_sym : forall a b, veq a b = true -> veq b a = true.
Proof.
  intros x y. destruct x as [|q|s|b]; destruct y as [|q'|s'|b']; simpl; intros H; try discriminate; try reflexivity.
  - unfold qeqb in *. apply Qeq_bool_iff. apply Qeq_bool_iff in H. symmetry. exact H.
  - apply bytes_eqb_iff in H. subst. apply bytes_eqb_iff. reflexivity.
  - destruct b, b'; simpl in *; congruence.
Qed.
Lemma veq_trans : forall a b c, veq a b = true -> veq b c = true -> veq a c = true.
Proof.
  intros x y z. destruct x as [|q|s|b]; destruct y as [|q'|s'|b']; destruct z as [|q''|s''|b'']; simpl; intros H1 H2;
    try discriminate; try reflexivity.
  - unfold qeqb in *. apply Qeq_bool_iff. apply Qeq_bool_iff in H1. apply Qeq_bool_iff in H2.
    transitivity q'; assumption.
  - apply bytes_eqb_iff in H1. apply bytes_eqb_iff in H2. subst. apply bytes_eqb_iff. reflexivity.
  - destruct b, b', b''; simpl in *; congruence.
Qed.
#[global] Instance veqP_equiv : Equivalence veqP.
Proof.
  split.
  - intros a. apply veq_refl.
  - intros a b. apply veq_sym.
  - intros a b c. apply veq_trans.
Qed.

Lemma mem_v_InA : forall x l, mem_v x l = true <-> InA veqP x l.
Proof.
  intros x l. unfold mem_v. induction l as [|y l IH]; simpl.
  - split; [discriminate|intros H; inversion H].
  - rewrite orb_true_iff, IH. split.
    + intros [H|H]; [left; exact H|right; exact H].
    + intros H. inversion H; subst; [left; assumption|right; assumption].
Qed.
Lemma mem_v_false_InA : forall x l, mem_v x l = false <-> ~ InA veqP x l.
Proof. intros x l. rewrite <- mem_v_InA. destruct (mem_v x l); split; intros H; congruence. Qed.

(* ------------------------------------------------------------------ arrays *)
(* array_distinct: no two equal elements, the same elements, a subsequence, first occurrences kept *)
Inductive sublist {A : Type} : list A -> list A -> Prop :=
| sub_nil : sublist [] []
| sub_skip : forall x l m, sublist l m -> sublist l (x :: m)
| sub_keep : forall x l m, sublist l m -> sublist (x :: l) (x :: m).

Lemma sublist_refl : forall A (l : list A), sublist l l.
Proof. induction l; constructor; assumption. Qed.
Lemma sublist_filter : forall A (p : A -> bool) (l : list A), sublist (filter p l) l.
Proof. induction l as [|x l IH]; simpl; [constructor|]. destruct (p x); constructor; assumption. Qed.
Lemma sublist_trans : forall A (a b c : list A), sublist a b -> sublist b c -> sublist a c.
Proof.
  intros A a b c H1 H2. revert a H1. induction H2; intros a H1.
  - exact H1.
  - constructor. apply IHsublist. exact H1.
  - inversion H1; subst.
    + constructor. apply IHsublist. assumption.
    + apply sub_keep. apply IHsublist. assumption.
Qed.

Lemma distinct_v_sublist : forall l seen, sublist (distinct_v seen l) l.
Proof.
  induction l as [|x l IH]; intros seen; simpl; [constructor|].
  destruct (mem_v x seen); [apply sub_skip|apply sub_keep]; apply IH.
Qed.

Lemma distinct_v_InA : forall l seen x,
  InA veqP x (distinct_v seen l) <-> (InA veqP x l /\ ~ InA veqP x seen).
Proof.
  induction l as [|y l IH]; intros seen x; simpl.
  - split; [intros H; inversion H|intros [H _]; inversion H].
  - destruct (mem_v y seen) eqn:E.
    + rewrite IH. apply mem_v_InA in E. split.
      * intros [H1 H2]. split; [right; exact H1|exact H2].
      * intros [H1 H2]. split; [|exact H2]. inversion H1; subst; [|assumption].
        exfalso. apply H2. eapply InA_eqA; [exact veqP_equiv| |exact E]. symmetry. assumption.
    + apply mem_v_false_InA in E. split.
      * intros H. inversion H; subst.
        -- split; [left; assumption|]. intros Hs. apply E.
           eapply InA_eqA; [exact veqP_equiv| |exact Hs]. assumption.
        -- apply IH in H1. destruct H1 as [H1 H2]. split; [right; exact H1|].
           intros Hs. apply H2. right. exact Hs.
      * intros [H1 H2]. destruct (veq x y) eqn:Exy.
        -- left. exact Exy.
        -- right. apply IH. split.
           ++ inversion H1; subst; [unfold veqP in *; congruence|assumption].
           ++ intros Hs. inversion Hs; subst; [unfold veqP in *; congruence|]. apply H2. assumption.
Qed.

Lemma distinct_v_NoDupA : forall l seen, NoDupA veqP (distinct_v seen l).
Proof.
  induction l as [|y l IH]; intros seen; simpl; [constructor|].
  destruct (mem_v y seen) eqn:E; [apply IH|].
  constructor; [|apply IH].
  intros H. apply distinct_v_InA in H. destruct H as [_ H]. apply H. left. apply veq_refl.
Qed.

(* the first occurrence itself (not merely an equal element) is the one kept *)
Lemma distinct_v_first : forall l1 x l2 seen,
  mem_v x l1 = false -> mem_v x seen = false ->
  exists r1 r2, distinct_v seen (l1 ++ x :: l2) = r1 ++ x :: r2 /\ sublist r1 l1.
Proof.
  induction l1 as [|y l1 IH]; intros x l2 seen H1 Hs; simpl.
  - rewrite Hs. exists [], (distinct_v (x :: seen) l2). split; [reflexivity|constructor].
  - simpl in H1. unfold mem_v in H1. simpl in H1. apply orb_false_iff in H1. destruct H1 as [Hxy H1].
    destruct (mem_v y seen) eqn:E.
    + destruct (IH x l2 seen H1 Hs) as [r1 [r2 [Hr Hsub]]]. exists r1, r2. split; [exact Hr|constructor; exact Hsub].
    + assert (Hs' : mem_v x (y :: seen) = false).
      { unfold mem_v. simpl. rewrite Hxy. exact Hs. }
      destruct (IH x l2 (y :: seen) H1 Hs') as [r1 [r2 [Hr Hsub]]].
      exists (y :: r1), r2. split; [rewrite Hr; reflexivity|apply sub_keep; exact Hsub].
Qed.

Theorem arr_distinct_spec : forall l,
  NoDupA veqP (arr_distinct l) /\
  (forall x, InA veqP x (arr_distinct l) <-> InA veqP x l) /\
  sublist (arr_distinct l) l /\
  (forall l1 x l2, l = l1 ++ x :: l2 -> mem_v x l1 = false ->
     exists r1 r2, arr_distinct l = r1 ++ x :: r2 /\ sublist r1 l1).
Proof.
  intros l. unfold arr_distinct. split; [apply distinct_v_NoDupA|]. split; [|split].
  - intros x. rewrite distinct_v_InA. split; [intros [H _]; exact H|intros H; split; [exact H|intros Hn; inversion Hn]].
  - apply distinct_v_sublist.
  - intros l1 x l2 -> H. apply distinct_v_first; [exact H|reflexivity].
Qed.

(* array_remove: exactly the elements equal to the value disappear, the others keep their order *)
Theorem arr_remove_spec : forall l v,
  arr_remove l v = filter (fun x => negb (veq x v)) l /\
  sublist (arr_remove l v) l /\
  (forall x, In x (arr_remove l v) <-> In x l /\ veq x v = false) /\
  (mem_v v l = false -> arr_remove l v = l).
Proof.
  intros l v. unfold arr_remove. split; [reflexivity|]. split; [apply sublist_filter|]. split.
  - intros x. rewrite filter_In, negb_true_iff. reflexivity.
  - intros H. induction l as [|y l IH]; simpl; [reflexivity|].
    unfold mem_v in H. simpl in H. apply orb_false_iff in H. destruct H as [H1 H2].
    assert (E : veq y v = false).
    { destruct (veq y v) eqn:E; [|reflexivity]. apply veq_sym in E. congruence. }
    rewrite E. simpl. f_equal. apply IH. exact H2.
Qed.

(* array_contains / array_position *)
Lemma arr_position_from_spec : forall l v i,
  (arr_position_from l v i = O <-> mem_v v l = false) /\
  (forall p, arr_position_from l v i = S p ->
     exists k, p = i + k /\ k < length l /\ veq (nth k l VNull) v = true /\
               forall j, j < k -> veq (nth j l VNull) v = false).
Proof.
  induction l as [|y l IH]; intros v i; simpl.
  - split; [split; reflexivity|intros p H; discriminate].
  - unfold mem_v. simpl. destruct (veq y v) eqn:E.
    + assert (E' : veq v y = true) by (apply veq_sym; exact E). rewrite E'. simpl. split.
      * split; discriminate.
      * intros p H. inversion H; subst. exists O. repeat split; [lia|lia|exact E|intros j Hj; lia].
    + assert (E' : veq v y = false).
      { destruct (veq v y) eqn:E'; [|reflexivity]. apply veq_sym in E'. congruence. }
      rewrite E'. simpl. destruct (IH v (S i)) as [IH1 IH2]. split; [exact IH1|].
      intros p H. destruct (IH2 p H) as [k [Hp [Hk [Hv Hj]]]].
      exists (S k). repeat split; [lia|lia|exact Hv|].
      intros j Hlt. destruct j as [|j]; [exact E|apply Hj; lia].
Qed.

Theorem arr_position_spec : forall l v,
  (arr_position l v = O <-> mem_v v l = false) /\
  (forall p, arr_position l v = S p ->
     p < length l /\ veq (nth p l VNull) v = true /\ forall j, j < p -> veq (nth j l VNull) v = false).
Proof.
  intros l v. unfold arr_position. destruct (arr_position_from_spec l v O) as [H1 H2]. split; [exact H1|].
  intros p H. destruct (H2 p H) as [k [Hp [Hk [Hv Hj]]]]. simpl in Hp. subst k. repeat split; assumption.
Qed.

Theorem arr_contains_spec : forall l v,
  mem_v v l = true <-> exists y, In y l /\ veq v y = true.
Proof. intros l v. unfold mem_v. apply existsb_exists. Qed.

(* union / intersection / difference: duplicate-free, and the elements they should have *)
Lemma filter_InA : forall (p : xvalue -> bool) l x,
  (forall a b, veq a b = true -> p a = p b) ->
  (InA veqP x (filter p l) <-> InA veqP x l /\ p x = true).
Proof.
  intros p l x Hp. induction l as [|y l IH]; simpl.
  - split; [intros H; inversion H|intros [H _]; inversion H].
  - destruct (p y) eqn:E.
    + split.
      * intros H. inversion H; subst.
        -- split; [left; assumption|]. rewrite (Hp x y); assumption.
        -- apply IH in H1. destruct H1 as [H1 H2]. split; [right; exact H1|exact H2].
      * intros [H1 H2]. inversion H1; subst; [left; assumption|right; apply IH; split; assumption].
    + rewrite IH. split.
      * intros [H1 H2]. split; [right; exact H1|exact H2].
      * intros [H1 H2]. split; [|exact H2]. inversion H1; subst; [|assumption].
        rewrite (Hp x y) in H2 by assumption. congruence.
Qed.
Lemma mem_v_compat : forall l a b, veq a b = true -> mem_v a l = mem_v b l.
Proof.
  intros l a b H. destruct (mem_v a l) eqn:Ea; symmetry.
  - apply mem_v_InA. apply mem_v_InA in Ea. eapply InA_eqA; [exact veqP_equiv| |exact Ea]. exact H.
  - apply mem_v_false_InA. apply mem_v_false_InA in Ea. intros Hb. apply Ea.
    eapply InA_eqA; [exact veqP_equiv| |exact Hb]. apply veq_sym. exact H.
Qed.

Theorem arr_union_spec : forall a b,
  NoDupA veqP (arr_union a b) /\
  (forall x, InA veqP x (arr_union a b) <-> InA veqP x a \/ InA veqP x b).
Proof.
  intros a b. unfold arr_union. split; [apply distinct_v_NoDupA|].
  intros x. rewrite distinct_v_InA, InA_app_iff. split; [intros [H _]; exact H|intros H; split; [exact H|intros Hn; inversion Hn]].
Qed.
Theorem arr_intersect_spec : forall a b,
  NoDupA veqP (arr_intersect a b) /\ sublist (arr_intersect a b) a /\
  (forall x, InA veqP x (arr_intersect a b) <-> InA veqP x a /\ InA veqP x b).
Proof.
  intros a b. unfold arr_intersect. split; [apply distinct_v_NoDupA|]. split.
  - eapply sublist_trans; [apply distinct_v_sublist|apply sublist_filter].
  - intros x. rewrite distinct_v_InA, filter_InA, mem_v_InA.
    + split; [intros [H _]; exact H|intros H; split; [exact H|intros Hn; inversion Hn]].
    + intros u v H. apply mem_v_compat. exact H.
Qed.
Theorem arr_except_spec : forall a b,
  NoDupA veqP (arr_except a b) /\ sublist (arr_except a b) a /\
  (forall x, InA veqP x (arr_except a b) <-> InA veqP x a /\ ~ InA veqP x b).
Proof.
  intros a b. unfold arr_except. split; [apply distinct_v_NoDupA|]. split.
  - eapply sublist_trans; [apply distinct_v_sublist|apply sublist_filter].
  - intros x. rewrite distinct_v_InA, filter_InA, negb_true_iff, mem_v_false_InA.
    + split; [intros [H _]; exact H|intros H; split; [exact H|intros Hn; inversion Hn]].
    + intros u v H. f_equal. apply mem_v_compat. exact H.
Qed.

(* ------------------------------------------------------------------ strings *)
Lemma has_prefix_iff : forall p t, has_prefix t p = true <-> exists r, t = p ++ r.
Proof.
  induction p as [|x p IH]; intros t; simpl.
  - split; [intros _; exists t; reflexivity|reflexivity].
  - destruct t as [|c t].
    + split; [discriminate|intros [r H]; discriminate].
    + rewrite andb_true_iff, IH. split.
      * intros [H1 [r H2]]. apply N.eqb_eq in H1. subst. exists r. reflexivity.
      * intros [r H]. inversion H; subst. split; [apply N.eqb_refl|exists r; reflexivity].
Qed.

Lemma has_suffix_iff : forall p t, has_suffix t p = true <-> exists r, t = r ++ p.
Proof.
  intros p t. unfold has_suffix. rewrite has_prefix_iff. split; intros [r H].
  - exists (rev r). rewrite <- (rev_involutive t), H, rev_app_distr, rev_involutive. reflexivity.
  - exists (rev r). rewrite H, rev_app_distr. reflexivity.
Qed.

(* upper / lower *)
Definition is_lower_letter (c : byte) : bool := N.leb 97 c && N.leb c 122.
Definition is_upper_letter (c : byte) : bool := N.leb 65 c && N.leb c 90.

Lemma ascii_upper_not_lower : forall c, is_lower_letter (ascii_upper c) = false.
Proof.
  intros c. unfold ascii_upper, is_lower_letter. destruct (N.leb 97 c && N.leb c 122) eqn:E; [|exact E].
  apply andb_true_iff in E. destruct E as [E1 E2]. apply N.leb_le in E1. apply N.leb_le in E2.
  assert (H : N.leb 97 (c - 32) = false) by (apply N.leb_gt; lia). rewrite H. reflexivity.
Qed.
Lemma ascii_lower_not_upper : forall c, is_upper_letter (ascii_lower c) = false.
Proof.
  intros c. unfold ascii_lower, is_upper_letter. destruct (N.leb 65 c && N.leb c 90) eqn:E; [|exact E].
  apply andb_true_iff in E. destruct E as [E1 E2]. apply N.leb_le in E1. apply N.leb_le in E2.
  assert (H : N.leb (c + 32) 90 = false) by (apply N.leb_gt; lia). rewrite H. apply andb_false_r.
Qed.
Lemma ascii_upper_fix : forall c, is_lower_letter c = false -> ascii_upper c = c.
Proof. intros c H. unfold ascii_upper. unfold is_lower_letter in H. rewrite H. reflexivity. Qed.
Lemma ascii_lower_fix : forall c, is_upper_letter c = false -> ascii_lower c = c.
Proof. intros c H. unfold ascii_lower. unfold is_upper_letter in H. rewrite H. reflexivity. Qed.

Theorem upper_lower_spec : forall s,
  length (map ascii_upper s) = length s /\ length (map ascii_lower s) = length s /\
  map ascii_upper (map ascii_upper s) = map ascii_upper s /\
  map ascii_lower (map ascii_lower s) = map ascii_lower s /\
  forallb (fun c => negb (is_lower_letter c)) (map ascii_upper s) = true /\
  forallb (fun c => negb (is_upper_letter c)) (map ascii_lower s) = true /\
  (forallb (fun c => negb (is_lower_letter c)) s = true -> map ascii_upper s = s) /\
  (forallb (fun c => negb (is_upper_letter c)) s = true -> map ascii_lower s = s).
Proof.
  intros s. repeat split; try apply map_length.
  - rewrite map_map. apply map_ext. intros c. apply ascii_upper_fix. apply ascii_upper_not_lower.
  - rewrite map_map. apply map_ext. intros c. apply ascii_lower_fix. apply ascii_lower_not_upper.
  - apply forallb_forall. intros c H. apply in_map_iff in H. destruct H as [d [H _]]. subst.
    rewrite ascii_upper_not_lower. reflexivity.
  - apply forallb_forall. intros c H. apply in_map_iff in H. destruct H as [d [H _]]. subst.
    rewrite ascii_lower_not_upper. reflexivity.
  - intros H. rewrite <- (map_id s) at 2. apply map_ext_in. intros c Hc.
    apply ascii_upper_fix. rewrite forallb_forall in H. specialize (H c Hc). apply negb_true_iff in H. exact H.
  - intros H. rewrite <- (map_id s) at 2. apply map_ext_in. intros c Hc.
    apply ascii_lower_fix. rewrite forallb_forall in H. specialize (H c Hc). apply negb_true_iff in H. exact H.
Qed.

Lemma fx_upper_call : forall s, all_ascii s = true ->
  fx_call nm_upper [YS (VStr s)] = ystr (map ascii_upper s) /\
  fx_call nm_lower [YS (VStr s)] = ystr (map ascii_lower s).
Proof.
  intros s H. split; unfold fx_call; simpl; unfold fn_call; simpl; unfold fn_str1; simpl; rewrite H; reflexivity.
Qed.

(* trim *)
Definition head_not (p : byte -> bool) (s : bytes) : Prop :=
  match s with c :: _ => p c = false | [] => True end.

Lemma drop_while_spec : forall p s,
  exists pre, s = pre ++ drop_while p s /\ forallb p pre = true /\ head_not p (drop_while p s).
Proof.
  intros p. induction s as [|c s IH]; simpl.
  - exists []. repeat split.
  - destruct (p c) eqn:E.
    + destruct IH as [pre [H1 [H2 H3]]]. exists (c :: pre). simpl. rewrite E, H2. rewrite <- H1. repeat split. exact H3.
    + exists []. simpl. repeat split. exact E.
Qed.
Lemma drop_while_fix : forall p s, head_not p s -> drop_while p s = s.
Proof. intros p s H. destruct s as [|c s]; simpl in *; [reflexivity|rewrite H; reflexivity]. Qed.

Theorem trim_spec : forall p s,
  (exists pre, s = pre ++ trim_left p s /\ forallb p pre = true /\ head_not p (trim_left p s)) /\
  (exists post, s = trim_right p s ++ post /\ forallb p post = true /\ head_not p (rev (trim_right p s))) /\
  (exists pre post, s = pre ++ trim_both p s ++ post /\ forallb p pre = true /\ forallb p post = true /\
                    head_not p (trim_both p s) /\ head_not p (rev (trim_both p s))) /\
  trim_both p (trim_both p s) = trim_both p s.
Proof.
  intros p s.
  assert (R : forall u, exists post, u = trim_right p u ++ post /\ forallb p post = true /\ head_not p (rev (trim_right p u))).
  { intros u. unfold trim_right. destruct (drop_while_spec p (rev u)) as [pre [H1 [H2 H3]]].
    exists (rev pre). split; [|split].
    - rewrite <- rev_app_distr, <- H1, rev_involutive. reflexivity.
    - rewrite forallb_forall in *. intros x Hx. apply H2. apply in_rev. exact Hx.
    - rewrite rev_involutive. exact H3. }
  assert (B : exists pre post, s = pre ++ trim_both p s ++ post /\ forallb p pre = true /\ forallb p post = true /\
                    head_not p (trim_both p s) /\ head_not p (rev (trim_both p s))).
  { unfold trim_both, trim_left. destruct (drop_while_spec p s) as [pre [H1 [H2 H3]]].
    destruct (R (drop_while p s)) as [post [H4 [H5 H6]]].
    exists pre, post. split; [rewrite <- H4; exact H1|]. split; [exact H2|]. split; [exact H5|]. split; [|exact H6].
    destruct (trim_right p (drop_while p s)) as [|c t] eqn:E; simpl; [exact I|].
    rewrite H4 in H3. simpl in H3. exact H3. }
  split; [apply drop_while_spec|]. split; [apply R|]. split; [exact B|].
  destruct B as [pre [post [_ [_ [_ [H3 H4]]]]]].
  unfold trim_both at 1. unfold trim_left. rewrite (drop_while_fix p _ H3).
  unfold trim_right. rewrite (drop_while_fix p _ H4). apply rev_involutive.
Qed.

(* substring: a contiguous part of the string, of the documented length *)
Theorem substring_b_spec : forall s st len,
  (exists pre post, s = pre ++ substring_b s st len ++ post) /\
  (forall l, (0 <= st < Z.of_nat (length s))%Z -> (0 <= l)%Z -> len = Some l ->
     substring_b s st len = firstn (Z.to_nat l) (skipn (Z.to_nat st) s) /\
     Z.of_nat (length (substring_b s st len)) = Z.min l (Z.of_nat (length s) - st)) /\
  ((0 <= st < Z.of_nat (length s))%Z -> len = None -> substring_b s st len = skipn (Z.to_nat st) s) /\
  ((st < 0)%Z -> substring_b s st len = substring_b s (Z.max 0 (Z.of_nat (length s) + st)) len) /\
  ((Z.of_nat (length s) <= st)%Z -> substring_b s st len = []) /\
  (forall l, (l < 0)%Z -> len = Some l -> substring_b s st len = []).
Proof.
  intros s st len. split; [|split; [|split; [|split; [|split]]]].
  - unfold substring_b.
    set (k := if (st <? 0)%Z then (Z.of_nat (length s) + st)%Z else st).
    set (k' := if (k <? 0)%Z then 0%Z else k).
    destruct (Z.of_nat (length s) <=? k')%Z.
    + exists s, []. rewrite app_nil_r. reflexivity.
    + destruct len as [l|].
      * destruct (l <? 0)%Z.
        -- exists s, []. rewrite app_nil_r. reflexivity.
        -- exists (firstn (Z.to_nat k') s), (skipn (Z.to_nat l) (skipn (Z.to_nat k') s)).
           rewrite firstn_skipn. rewrite firstn_skipn. reflexivity.
      * exists (firstn (Z.to_nat k') s), []. rewrite app_nil_r, firstn_skipn. reflexivity.
  - intros l Hst Hl ->. unfold substring_b.
    assert (E1 : (st <? 0)%Z = false) by (apply Z.ltb_ge; lia). rewrite E1. rewrite E1.
    assert (E2 : (Z.of_nat (length s) <=? st)%Z = false) by (apply Z.leb_gt; lia). rewrite E2.
    assert (E3 : (l <? 0)%Z = false) by (apply Z.ltb_ge; lia). rewrite E3.
    split; [reflexivity|]. rewrite firstn_length, skipn_length. lia.
  - intros Hst ->. unfold substring_b.
    assert (E1 : (st <? 0)%Z = false) by (apply Z.ltb_ge; lia). rewrite E1. rewrite E1.
    assert (E2 : (Z.of_nat (length s) <=? st)%Z = false) by (apply Z.leb_gt; lia). rewrite E2. reflexivity.
  - intros Hst. unfold substring_b.
    assert (E1 : (st <? 0)%Z = true) by (apply Z.ltb_lt; lia). rewrite E1.
    set (m := Z.max 0 (Z.of_nat (length s) + st)).
    assert (E2 : (m <? 0)%Z = false) by (apply Z.ltb_ge; lia). rewrite E2. rewrite E2.
    destruct (Z.of_nat (length s) + st <? 0)%Z eqn:E3.
    + apply Z.ltb_lt in E3. replace m with 0%Z by lia. reflexivity.
    + apply Z.ltb_ge in E3. replace m with (Z.of_nat (length s) + st)%Z by lia. reflexivity.
  - intros Hst. unfold substring_b.
    assert (E1 : (st <? 0)%Z = false) by (apply Z.ltb_ge; lia). rewrite E1. rewrite E1.
    assert (E2 : (Z.of_nat (length s) <=? st)%Z = true) by (apply Z.leb_le; lia). rewrite E2. reflexivity.
  - intros l Hl ->. unfold substring_b.
    destruct (Z.of_nat (length s) <=? _)%Z; [reflexivity|].
    assert (E3 : (l <? 0)%Z = true) by (apply Z.ltb_lt; lia). rewrite E3. reflexivity.
Qed.

(* split / join / replace *)
Lemma split_go_nonempty : forall sep s k cur, split_go sep k cur s <> [].
Proof.
  induction s as [|c s IH]; intros k cur; simpl; [discriminate|].
  destruct k as [|k]; [|apply IH]. destruct (has_prefix (c :: s) sep); [discriminate|apply IH].
Qed.
Lemma join_b_cons : forall sep x l, l <> [] -> join_b sep (x :: l) = x ++ sep ++ join_b sep l.
Proof. intros sep x l H. destruct l as [|y l]; [contradiction|reflexivity]. Qed.

(* the separators put back between the pieces give the string *)
Lemma split_go_step0 : forall sep cur c s,
  split_go sep 0 cur (c :: s) =
  if has_prefix (c :: s) sep then rev cur :: split_go sep (length sep - 1) [] s else split_go sep 0 (c :: cur) s.
Proof. reflexivity. Qed.
Lemma split_go_stepS : forall sep k cur c s, split_go sep (S k) cur (c :: s) = split_go sep k cur s.
Proof. reflexivity. Qed.

Lemma split_go_join : forall sep s, sep <> [] ->
  (forall cur, join_b sep (split_go sep 0 cur s) = rev cur ++ s) /\
  (forall k t s', s = t ++ s' -> length t = k -> join_b sep (split_go sep k [] s) = s').
Proof.
  intros sep s Hsep. induction s as [|c s IH].
  - split.
    + intros cur. simpl. rewrite app_nil_r. reflexivity.
    + intros k t s' H Hk. destruct t; [|discriminate]. simpl in H. subst s'. reflexivity.
  - destruct IH as [IH1 IH2]. assert (G1 : forall cur, join_b sep (split_go sep 0 cur (c :: s)) = rev cur ++ c :: s).
    { intros cur. rewrite split_go_step0. destruct (has_prefix (c :: s) sep) eqn:E.
      - rewrite join_b_cons by apply split_go_nonempty.
        apply has_prefix_iff in E. destruct E as [r E].
        destruct sep as [|x sep']; [contradiction|]. simpl in E. inversion E; subst.
        match goal with |- context [length (?a :: sep') - 1] => replace (length (a :: sep') - 1) with (length sep') by (simpl; lia) end.
        rewrite (IH2 (length sep') sep' r) by reflexivity. reflexivity.
      - rewrite IH1. simpl. rewrite <- app_assoc. reflexivity. }
    split; [exact G1|].
    intros k t s' H Hk. destruct k as [|k].
    + destruct t; [|discriminate]. simpl in H. subst s'. rewrite G1. reflexivity.
    + destruct t as [|c' t]; [discriminate|]. simpl in H. inversion H; subst. rewrite split_go_stepS.
      apply (IH2 k t s'); [reflexivity|simpl in Hk; lia].
Qed.

Theorem split_join : forall s sep, sep <> [] -> join_b sep (split_b s sep) = s.
Proof.
  intros s sep H. unfold split_b. destruct sep as [|x sep']; [contradiction|].
  destruct (split_go_join (x :: sep') s) as [H1 _]; [discriminate|]. rewrite H1. reflexivity.
Qed.

Lemma contains_false_prefix : forall s p, contains s p = false -> has_prefix s p = false.
Proof. intros s p H. destruct s; simpl in H; apply orb_false_iff in H; destruct H as [H _]; exact H. Qed.

Lemma split_go_absent : forall sep s cur, contains s sep = false -> split_go sep 0 cur s = [rev cur ++ s].
Proof.
  intros sep. induction s as [|c s IH]; intros cur Hc.
  - simpl. rewrite app_nil_r. reflexivity.
  - rewrite split_go_step0. rewrite (contains_false_prefix _ _ Hc). rewrite IH.
    + simpl. rewrite <- app_assoc. reflexivity.
    + simpl in Hc. apply orb_false_iff in Hc. destruct Hc as [_ Hc]. exact Hc.
Qed.
Theorem split_absent : forall s sep, sep <> [] -> contains s sep = false -> split_b s sep = [s].
Proof.
  intros s sep H Hc. unfold split_b. destruct sep as [|x sep']; [contradiction|].
  rewrite split_go_absent by exact Hc. reflexivity.
Qed.

(* ReplaceAll(s, old, new) = Join(Split(s, old), new) *)
Lemma replace_go_split : forall old new s k cur, (k = 0 \/ cur = []) ->
  join_b new (split_go old k cur s) = rev cur ++ replace_go old new k s.
Proof.
  intros old new. induction s as [|c s IH]; intros k cur Hk; simpl.
  - rewrite app_nil_r. reflexivity.
  - destruct k as [|k].
    + destruct (has_prefix (c :: s) old) eqn:E.
      * rewrite join_b_cons by apply split_go_nonempty. rewrite IH by (right; reflexivity). reflexivity.
      * rewrite IH by (left; reflexivity). simpl. rewrite <- app_assoc. reflexivity.
    + destruct Hk as [Hk|Hk]; [discriminate|]. subst cur. apply IH. right. reflexivity.
Qed.

Theorem replace_spec : forall s old new, old <> [] ->
  replace_b s old new = join_b new (split_b s old) /\
  (contains s old = false -> replace_b s old new = s) /\
  replace_b s old old = s.
Proof.
  intros s old new H. destruct old as [|x old']; [contradiction|].
  assert (G : forall n, replace_b s (x :: old') n = join_b n (split_b s (x :: old'))).
  { intros n. unfold replace_b, split_b. rewrite replace_go_split by (left; reflexivity). reflexivity. }
  split; [apply G|]. split.
  - intros Hc. rewrite G, split_absent by (exact Hc || discriminate). reflexivity.
  - rewrite G. apply split_join. discriminate.
Qed.

Theorem replace_empty_spec : forall s new,
  replace_b s [] new = new ++ flat_map (fun c => c :: new) s /\
  length (replace_b s [] new) = length s + (length s + 1) * length new.
Proof.
  intros s new. unfold replace_b, replace_empty. split; [reflexivity|].
  rewrite app_length. induction s as [|c s IH]; simpl; [lia|]. rewrite app_length. lia.
Qed.

(* indexof: the first position at which the needle starts, -1 when there is none *)
Lemma index_from_spec : forall p s i,
  match index_from s p i with
  | Some j => exists k, j = i + k /\ k <= length s /\ has_prefix (skipn k s) p = true /\
                        forall m, m < k -> has_prefix (skipn m s) p = false
  | None => forall m, m <= length s -> has_prefix (skipn m s) p = false
  end.
Proof.
  intros p. induction s as [|c s IH]; intros i.
  - simpl. destruct (has_prefix [] p) eqn:E.
    + exists 0. repeat split; [lia|lia|exact E|intros m Hm; lia].
    + intros m Hm. destruct m; simpl; exact E.
  - unfold index_from; fold index_from. destruct (has_prefix (c :: s) p) eqn:E.
    + exists 0. repeat split; [lia|simpl; lia|exact E|intros m Hm; lia].
    + specialize (IH (S i)). destruct (index_from s p (S i)) as [j|].
      * destruct IH as [k [Hj [Hk [Hp Hm]]]]. exists (S k). repeat split; [lia|simpl; lia|exact Hp|].
        intros m Hlt. destruct m as [|m]; [exact E|]. simpl. apply Hm. lia.
      * intros m Hm. destruct m as [|m]; [exact E|]. simpl. apply IH. simpl in Hm. lia.
Qed.

Theorem index_b_spec : forall s p,
  ((index_b s p = -1)%Z <-> contains s p = false) /\
  (forall k, index_b s p = Z.of_nat k ->
     k <= length s /\ has_prefix (skipn k s) p = true /\ forall m, m < k -> has_prefix (skipn m s) p = false) /\
  (-1 <= index_b s p <= Z.of_nat (length s))%Z.
Proof.
  intros s p.
  assert (C : forall s i, index_from s p i = None <-> contains s p = false).
  { clear s. induction s as [|c s IH]; intros i.
    - simpl. destruct (has_prefix [] p); simpl; split; intros H; congruence.
    - unfold index_from; fold index_from. simpl contains. destruct (has_prefix (c :: s) p); simpl.
      + split; discriminate.
      + apply IH. }
  pose proof (index_from_spec p s 0) as S0. unfold index_b. destruct (index_from s p 0) as [j|] eqn:E.
  - destruct S0 as [k [Hj [Hk [Hp Hm]]]]. simpl in Hj. subst j. split; [|split].
    + split; [intros H; lia|]. intros H. apply (C s 0) in H. congruence.
    + intros k' Hk'. apply Nat2Z.inj in Hk'. subst k'. repeat split; assumption.
    + lia.
  - split; [|split].
    + split; [intros _; apply (C s 0); exact E|reflexivity].
    + intros k Hk. lia.
    + lia.
Qed.

(* concat *)
Lemma fn_concat_strings : forall l acc, fn_concat (map VStr l) acc = FOk (VStr (acc ++ concat l)).
Proof.
  induction l as [|s l IH]; intros acc; simpl; [rewrite app_nil_r; reflexivity|].
  rewrite IH, app_assoc. reflexivity.
Qed.
Theorem fx_concat_strings : forall l, l <> [] ->
  fx_call nm_concat (map (fun s => YS (VStr s)) l) = ystr (concat l).
Proof.
  intros l H. unfold fx_call. assert (Ha : fx_arity nm_concat = Some (1, None)) by reflexivity. rewrite Ha.
  assert (Hs : scalars (map (fun s => YS (VStr s)) l) = Some (map VStr l)).
  { clear H. induction l as [|s l IH]; simpl; [reflexivity|rewrite IH; reflexivity]. }
  rewrite Hs. destruct l as [|s l]; [contradiction|].
  assert (Hk : arity_ok (1, None) (length (map (fun s0 => YS (VStr s0)) (s :: l))) = true) by reflexivity.
  rewrite Hk. simpl negb. cbv iota.
  assert (Hc : fn_call nm_concat (map VStr (s :: l)) = FOk (VStr (concat (s :: l)))).
  { unfold fn_call. simpl. rewrite fn_concat_strings. reflexivity. }
  rewrite Hc. reflexivity.
Qed.

(* ------------------------------------------------------------------ numbers *)
From Coq Require Import Lqa.
Local Open Scope Q_scope.

Lemma qfloor_Qfloor : forall q, qfloor q = Qfloor q.
Proof. intros [n d]. reflexivity. Qed.
Lemma qceil_Qceiling : forall q, qceil q = Qceiling q.
Proof. intros [n d]. reflexivity. Qed.

(* floor / ceil / round bracket their argument *)
Theorem floor_ceil_round_bracket : forall q,
  (inject_Z (qfloor q) <= q /\ q < inject_Z (qfloor q) + 1) /\
  (q <= inject_Z (qceil q) /\ inject_Z (qceil q) - 1 < q) /\
  (inject_Z (qround q) - (1 # 2) <= q /\ q <= inject_Z (qround q) + (1 # 2)) /\
  (qfloor q <= qceil q)%Z.
Proof.
  intros q.
  assert (F : forall x, inject_Z (qfloor x) <= x /\ x < inject_Z (qfloor x) + 1).
  { intros x. rewrite qfloor_Qfloor. split; [apply Qfloor_le|].
    pose proof (Qlt_floor x) as H. rewrite inject_Z_plus in H. exact H. }
  assert (C : forall x, x <= inject_Z (qceil x) /\ inject_Z (qceil x) - 1 < x).
  { intros x. rewrite qceil_Qceiling. split; [apply Qle_ceiling|].
    pose proof (Qceiling_lt x) as H. unfold Z.sub in H. rewrite inject_Z_plus in H. exact H. }
  split; [apply F|]. split; [apply C|]. split.
  - unfold qround. destruct (Qle_bool 0 q) eqn:E.
    + destruct (F (q + (1 # 2))) as [H1 H2]. split; lra.
    + destruct (C (q - (1 # 2))) as [H1 H2]. split; lra.
  - destruct (F q) as [H1 _]. destruct (C q) as [H2 _].
    assert (H : inject_Z (qfloor q) <= inject_Z (qceil q)) by lra.
    rewrite <- Zle_Qle in H. exact H.
Qed.

Lemma fx_floor_call : forall q,
  fx_call nm_floor [YS (VNum q)] = ynum (qofz (qfloor q)) /\
  fx_call nm_ceil [YS (VNum q)] = ynum (qofz (qceil q)) /\
  fx_call nm_round [YS (VNum q)] = ynum (qofz (qround q)) /\
  fx_call nm_abs [YS (VNum q)] = ynum (qn (Qabs q)).
Proof. intros q. repeat split; reflexivity. Qed.

(* abs / sign *)
Theorem abs_sign_spec : forall q,
  0 <= qn (Qabs q) /\ (qn (Qabs q) == q \/ qn (Qabs q) == - q) /\
  exists s, fx_call nm_sign [YS (VNum q)] = ynum s /\
            ((0 < q /\ s = 1) \/ (q < 0 /\ s = inject_Z (-1)) \/ (q == 0 /\ s = 0)).
Proof.
  intros q. split; [|split].
  - unfold qn. rewrite Qred_correct. apply Qabs_nonneg.
  - unfold qn. rewrite Qred_correct. destruct (Qlt_le_dec q 0) as [H|H].
    + right. apply Qabs_neg. lra.
    + left. apply Qabs_pos. exact H.
  - unfold fx_call. simpl. unfold fn_call. simpl. unfold qltb.
    destruct (Qle_bool q 0) eqn:E1; simpl.
    + destruct (Qle_bool 0 q) eqn:E2; simpl.
      * exists 0. split; [reflexivity|]. right; right. apply Qle_bool_iff in E1. apply Qle_bool_iff in E2. split; [lra|reflexivity].
      * exists (inject_Z (-1)). split; [reflexivity|]. right; left. split; [|reflexivity].
        apply Qnot_le_lt. intros H. apply Qle_bool_iff in H. congruence.
    + exists 1. split; [reflexivity|]. left. split; [|reflexivity].
      apply Qnot_le_lt. intros H. apply Qle_bool_iff in H. congruence.
Qed.

Lemma qtrunc_Qeq : forall a b, a == b -> qtrunc a = qtrunc b.
Proof.
  intros [na da] [nb db] H. unfold Qeq in H. unfold qtrunc. simpl in *.
  rewrite <- (Z.quot_mul_cancel_r na (Z.pos da) (Z.pos db)) by discriminate.
  rewrite <- (Z.quot_mul_cancel_r nb (Z.pos db) (Z.pos da)) by discriminate.
  rewrite H. f_equal. apply Z.mul_comm.
Qed.

(* mod: the remainder of the division truncated toward zero *)
Theorem mod_spec : forall x y, ~ y == 0 ->
  qmod x y == x - y * inject_Z (qtrunc (x / y)) /\
  fx_call nm_mod [YS (VNum x); YS (VNum y)] = ynum (qmod x y) /\
  fx_call nm_mod [YS (VNum x); YS (VNum 0)] = YErr.
Proof.
  intros x y Hy. split; [|split].
  - unfold qmod, qsub, qmul, qdiv, qn, qofz. rewrite !Qred_correct.
    rewrite (qtrunc_Qeq (Qred (x / y)) (x / y)) by apply Qred_correct. reflexivity.
  - unfold fx_call. simpl. unfold fn_call. simpl.
    assert (E : qzero y = false).
    { unfold qzero. destruct (Qnum y =? 0)%Z eqn:E; [|reflexivity]. exfalso. apply Hy.
      apply Z.eqb_eq in E. unfold Qeq. simpl. rewrite E. reflexivity. }
    rewrite E. reflexivity.
  - reflexivity.
Qed.

(* power: natural exponents multiply, negative ones invert *)
Theorem power_spec : forall x (n m : nat),
  qpown x 0 = 1 /\ qpown x (S n) == x * qpown x n /\ qpown x (n + m) == qpown x n * qpown x m.
Proof.
  intros x n m. split; [reflexivity|]. split.
  - simpl. unfold qmul, qn. apply Qred_correct.
  - induction n as [|n IH]; simpl.
    + ring.
    + unfold qmul, qn. rewrite !Qred_correct. rewrite IH. ring.
Qed.

(* trunc(x, p): cut toward zero after p decimals *)
Lemma p10_pos : forall k, (0 < p10 k)%Z.
Proof. intros k. unfold p10. apply Z.pow_pos_nonneg; lia. Qed.

Definition trunc_val (q : Q) (k : nat) : Q :=
  if Qle_bool 0 q then qunscale (qfloor (qscale q k)) k else qunscale (qceil (qscale q k)) k.

Theorem trunc_spec : forall q k,
  let u := 1 / inject_Z (p10 k) in
  (0 <= q -> trunc_val q k <= q /\ q < trunc_val q k + u) /\
  (q < 0 -> q <= trunc_val q k /\ trunc_val q k - u < q).
Proof.
  intros q k u.
  assert (Hm : 0 < inject_Z (p10 k)).
  { replace 0 with (inject_Z 0) by reflexivity. rewrite <- Zlt_Qlt. apply p10_pos. }
  assert (Hs : qscale q k == q * inject_Z (p10 k)).
  { unfold qscale, qmul, qn, qofz. apply Qred_correct. }
  assert (Hu : forall z, qunscale z k == inject_Z z / inject_Z (p10 k)).
  { intros z. unfold qunscale, qdiv, qn, qofz. apply Qred_correct. }
  destruct (floor_ceil_round_bracket (qscale q k)) as [[F1' F2'] [[C1' C2'] _]].
  assert (F1 : inject_Z (qfloor (qscale q k)) <= q * inject_Z (p10 k)) by (rewrite <- Hs; exact F1').
  assert (F2 : q * inject_Z (p10 k) < inject_Z (qfloor (qscale q k)) + 1) by (rewrite <- Hs; exact F2').
  assert (C1 : q * inject_Z (p10 k) <= inject_Z (qceil (qscale q k))) by (rewrite <- Hs; exact C1').
  assert (C2 : inject_Z (qceil (qscale q k)) - 1 < q * inject_Z (p10 k)) by (rewrite <- Hs; exact C2').
  split; intros Hq; unfold trunc_val.
  - assert (E : Qle_bool 0 q = true) by (apply Qle_bool_iff; exact Hq). rewrite E. rewrite Hu. split.
    + apply Qle_shift_div_r; [exact Hm|exact F1].
    + unfold u. setoid_replace (inject_Z (qfloor (qscale q k)) / inject_Z (p10 k) + 1 / inject_Z (p10 k))
        with ((inject_Z (qfloor (qscale q k)) + 1) / inject_Z (p10 k)) by (field; lra).
      apply Qlt_shift_div_l; [exact Hm|exact F2].
  - assert (E : Qle_bool 0 q = false).
    { destruct (Qle_bool 0 q) eqn:E; [|reflexivity]. apply Qle_bool_iff in E. lra. }
    rewrite E. rewrite Hu. split.
    + apply Qle_shift_div_l; [exact Hm|exact C1].
    + unfold u. setoid_replace (inject_Z (qceil (qscale q k)) / inject_Z (p10 k) - 1 / inject_Z (p10 k))
        with ((inject_Z (qceil (qscale q k)) - 1) / inject_Z (p10 k)) by (field; lra).
      apply Qlt_shift_div_r; [exact Hm|exact C2].
Qed.

Lemma qtrunc_inject : forall z, qtrunc (inject_Z z) = z.
Proof. intros z. unfold qtrunc, inject_Z. simpl. apply Z.quot_1_r. Qed.
Lemma to_int64_Z : forall z, (Z.abs z < two63)%Z -> to_int64 (VNum (inject_Z z)) = OVal z.
Proof.
  intros z H. unfold to_int64, in_int64. rewrite qtrunc_inject.
  assert (E : (Z.abs z <? two63)%Z = true) by (apply Z.ltb_lt; exact H). rewrite E. reflexivity.
Qed.

Lemma fx_trunc_call : forall q (k : nat), (Z.of_nat k <= 15)%Z ->
  fx_call nm_trunc [YS (VNum q); YS (VNum (inject_Z (Z.of_nat k)))] = ynum (trunc_val q k).
Proof.
  intros q k Hk.
  assert (H63 : (Z.abs (Z.of_nat k) < two63)%Z) by (unfold two63; simpl; lia).
  unfold fx_call.
  assert (Ha : fx_arity nm_trunc = Some (2%nat, Some 2%nat)) by reflexivity. rewrite Ha.
  assert (Hf : fn_call nm_trunc [VNum q; VNum (inject_Z (Z.of_nat k))] = FUnmodelled) by reflexivity.
  simpl scalars. cbv beta iota. rewrite Hf. simpl negb. cbv iota.
  assert (Hb : fx_body nm_trunc [YS (VNum q); YS (VNum (inject_Z (Z.of_nat k)))] =
               with_float (YS (VNum q)) (fun q0 => with_int (YS (VNum (inject_Z (Z.of_nat k)))) (fun z =>
                 if (z <? 0)%Z then YErr else if (15 <? z)%Z then YUnm
                 else let k0 := Z.to_nat z in
                      ynum (if Qle_bool 0 q0 then qunscale (qfloor (qscale q0 k0)) k0 else qunscale (qceil (qscale q0 k0)) k0))))
    by reflexivity.
  rewrite Hb. unfold with_float, with_int. simpl to_float. rewrite (to_int64_Z _ H63).
  assert (E1 : (Z.of_nat k <? 0)%Z = false) by (apply Z.ltb_ge; lia). rewrite E1.
  assert (E2 : (15 <? Z.of_nat k)%Z = false) by (apply Z.ltb_ge; lia). rewrite E2.
  rewrite Nat2Z.id. reflexivity.
Qed.

(* bit operations on int64 values *)
Theorem bit_ops_spec : forall a b, (Z.abs a < two63)%Z -> (Z.abs b < two63)%Z ->
  fx_call nm_bitand [YS (VNum (inject_Z a)); YS (VNum (inject_Z b))] = yint (Z.land a b) /\
  fx_call nm_bitor [YS (VNum (inject_Z a)); YS (VNum (inject_Z b))] = yint (Z.lor a b) /\
  fx_call nm_bitxor [YS (VNum (inject_Z a)); YS (VNum (inject_Z b))] = yint (Z.lxor a b) /\
  fx_call nm_bitnot [YS (VNum (inject_Z a))] = yint (Z.lnot a) /\
  (forall i, (0 <= i)%Z ->
     Z.testbit (Z.land a b) i = Z.testbit a i && Z.testbit b i /\
     Z.testbit (Z.lor a b) i = Z.testbit a i || Z.testbit b i /\
     Z.testbit (Z.lxor a b) i = xorb (Z.testbit a i) (Z.testbit b i) /\
     Z.testbit (Z.lnot a) i = negb (Z.testbit a i)).
Proof.
  intros a b Ha Hb.
  assert (G2 : forall n (op : Z -> Z -> Z),
            fx_arity n = Some (2%nat, Some 2%nat) ->
            fn_call n [VNum (inject_Z a); VNum (inject_Z b)] = FUnmodelled ->
            fx_body n [YS (VNum (inject_Z a)); YS (VNum (inject_Z b))] =
              with_int (YS (VNum (inject_Z a))) (fun x => with_int (YS (VNum (inject_Z b))) (fun y => yint (op x y))) ->
            fx_call n [YS (VNum (inject_Z a)); YS (VNum (inject_Z b))] = yint (op a b)).
  { intros n op H1 H2 H3. unfold fx_call. rewrite H1. simpl scalars. cbv beta iota. rewrite H2. simpl negb. cbv iota.
    rewrite H3. unfold with_int. rewrite (to_int64_Z _ Ha), (to_int64_Z _ Hb). reflexivity. }
  split; [apply G2; reflexivity|]. split; [apply G2; reflexivity|]. split; [apply G2; reflexivity|]. split.
  - unfold fx_call. assert (H1 : fx_arity nm_bitnot = Some (1%nat, Some 1%nat)) by reflexivity. rewrite H1.
    assert (H2 : fn_call nm_bitnot [VNum (inject_Z a)] = FUnmodelled) by reflexivity.
    simpl scalars. cbv beta iota. rewrite H2. simpl negb. cbv iota.
    assert (H3 : fx_body nm_bitnot [YS (VNum (inject_Z a))] = with_int (YS (VNum (inject_Z a))) (fun x => yint (Z.lnot x))) by reflexivity.
    rewrite H3. unfold with_int. rewrite (to_int64_Z _ Ha). reflexivity.
  - intros i Hi. repeat split.
    + apply Z.land_spec.
    + apply Z.lor_spec.
    + apply Z.lxor_spec.
    + apply Z.lnot_spec. exact Hi.
Qed.

(* ------------------------------------------------------------------ conditionals *)
(* greatest / least over numbers: one of the arguments, and a bound of all of them *)
Lemma fn_extreme_nums : forall gt qs q0,
  exists qr, fn_extreme gt (VNum q0) (map VNum qs) = FOk (VNum qr) /\ In qr (q0 :: qs) /\
             forall q, In q (q0 :: qs) -> if gt then q <= qr else qr <= q.
Proof.
  intros gt. induction qs as [|b qs IH]; intros q0.
  - exists q0. split; [reflexivity|]. split; [left; reflexivity|].
    intros q [H|[]]. subst. destruct gt; apply Qle_refl.
  - simpl map. simpl fn_extreme.
    set (c := if gt then qltb q0 b else qltb b q0).
    destruct c eqn:Ec; subst c.
    + destruct (IH b) as [qr [H1 [H2 H3]]]. exists qr. split; [exact H1|]. split.
      * destruct H2 as [H2|H2]; [right; left; exact H2|right; right; exact H2].
      * intros q [Hq|[Hq|Hq]].
        -- subst q. assert (Hb := H3 b (or_introl eq_refl)).
           destruct gt; unfold qltb in Ec; apply negb_true_iff in Ec.
           ++ assert (q0 < b) by (apply Qnot_le_lt; intros H; apply Qle_bool_iff in H; congruence). lra.
           ++ assert (b < q0) by (apply Qnot_le_lt; intros H; apply Qle_bool_iff in H; congruence). lra.
        -- subst q. apply H3. left. reflexivity.
        -- apply H3. right. exact Hq.
    + destruct (IH q0) as [qr [H1 [H2 H3]]]. exists qr. split; [exact H1|]. split.
      * destruct H2 as [H2|H2]; [left; exact H2|right; right; exact H2].
      * intros q [Hq|[Hq|Hq]].
        -- subst q. apply H3. left. reflexivity.
        -- subst q. assert (Hb := H3 q0 (or_introl eq_refl)).
           destruct gt; unfold qltb in Ec; apply negb_false_iff in Ec; apply Qle_bool_iff in Ec; lra.
        -- apply H3. right. exact Hq.
Qed.

Theorem greatest_least_spec : forall (gt : bool) q0 qs,
  exists qr, fx_call (if gt then nm_greatest else nm_least) (map (fun q => YS (VNum q)) (q0 :: qs)) = ynum qr /\
             In qr (q0 :: qs) /\ forall q, In q (q0 :: qs) -> if gt then q <= qr else qr <= q.
Proof.
  intros gt q0 qs. destruct (fn_extreme_nums gt qs q0) as [qr [H1 H2]]. exists qr. split; [|exact H2].
  assert (Hs : scalars (map (fun q => YS (VNum q)) (q0 :: qs)) = Some (map VNum (q0 :: qs))).
  { generalize (q0 :: qs). induction l as [|x l IHl]; simpl; [reflexivity|rewrite IHl; reflexivity]. }
  unfold fx_call. rewrite Hs.
  destruct gt.
  - assert (Ha : fx_arity nm_greatest = Some (1%nat, None)) by reflexivity. rewrite Ha.
    assert (Hk : arity_ok (1%nat, None) (length (map (fun q => YS (VNum q)) (q0 :: qs))) = true) by reflexivity. rewrite Hk.
    simpl negb. cbv iota.
    assert (Hc : fn_call nm_greatest (map VNum (q0 :: qs)) = fn_extreme true (VNum q0) (map VNum qs)) by reflexivity.
    rewrite Hc, H1. reflexivity.
  - assert (Ha : fx_arity nm_least = Some (1%nat, None)) by reflexivity. rewrite Ha.
    assert (Hk : arity_ok (1%nat, None) (length (map (fun q => YS (VNum q)) (q0 :: qs))) = true) by reflexivity. rewrite Hk.
    simpl negb. cbv iota.
    assert (Hc : fn_call nm_least (map VNum (q0 :: qs)) = fn_extreme false (VNum q0) (map VNum qs)) by reflexivity.
    rewrite Hc, H1. reflexivity.
Qed.

(* coalesce: the first argument that is not NULL, NULL when there is none *)
Fixpoint first_non_null (l : list yvalue) : yvalue :=
  match l with
  | [] => YS VNull
  | YS VNull :: r => first_non_null r
  | v :: _ => v
  end.

Theorem coalesce_spec : forall args, args <> [] ->
  fx_call nm_coalesce args = YOk (first_non_null args) /\
  (forall pre v post, args = pre ++ v :: post -> Forall (fun x => x = YS VNull) pre -> v <> YS VNull ->
     first_non_null args = v) /\
  (Forall (fun x => x = YS VNull) args -> first_non_null args = YS VNull).
Proof.
  intros args Hne. split; [|split].
  - unfold fx_call. assert (Ha : fx_arity nm_coalesce = Some (1%nat, None)) by reflexivity. rewrite Ha.
    assert (Hk : arity_ok (1%nat, None) (length args) = true) by (destruct args; [contradiction|reflexivity]). rewrite Hk.
    simpl negb. cbv iota.
    assert (Hb : fx_body nm_coalesce args = YOk (first_non_null args)).
    { destruct args as [|a args]; [contradiction|].
      assert (G : forall l, (fix go (l : list yvalue) : yvalue :=
                   match l with [] => YS VNull | YS VNull :: r => go r | v :: _ => v end) l = first_non_null l).
      { intros l. reflexivity. }
      change (fx_body nm_coalesce (a :: args)) with
        (YOk ((fix go (l : list yvalue) : yvalue :=
                 match l with [] => YS VNull | YS VNull :: r => go r | v :: _ => v end) (a :: args))).
      rewrite G. reflexivity. }
    destruct (scalars args) as [vs|] eqn:Es; [|exact Hb].
    assert (Hc : fn_call nm_coalesce vs = FOk ((fix go (l : list xvalue) : xvalue :=
                   match l with [] => VNull | VNull :: r => go r | v :: _ => v end) vs)).
    { destruct vs as [|v vs]; [|reflexivity]. destruct args as [|a args]; [contradiction|].
      simpl in Es. destruct a; [|discriminate]. destruct (scalars args); discriminate. }
    rewrite Hc. f_equal.
    clear Hne Hk Hb Hc. revert vs Es. induction args as [|a args IH]; intros vs Es.
    + simpl in Es. inversion Es. reflexivity.
    + simpl in Es. destruct a as [v|]; [|discriminate]. destruct (scalars args) as [vs'|] eqn:E; [|discriminate].
      inversion Es; subst. destruct v; try reflexivity. simpl. apply IH. reflexivity.
  - intros pre v post -> Hpre Hv. clear Hne. induction Hpre as [|x pre Hx Hpre IH]; simpl.
    + destruct v as [[| | |]|]; try reflexivity. contradiction.
    + subst x. exact IH.
  - intros H. clear Hne. induction H as [|x l Hx Hl IH]; [reflexivity|]. subst x. simpl. exact IH.
Qed.

(* null_if / if_null *)
Theorem null_if_spec : forall x y,
  fx_call nm_null_if [x; y] = (if yeq x y then ynull else YOk x) /\
  fx_call nm_if_null [x; y] = YOk (match x with YS VNull => y | _ => x end) /\
  yeq x x = true.
Proof.
  intros x y. split; [|split].
  - destruct x as [vx|lx]; destruct y as [vy|ly]; reflexivity.
  - destruct x as [[| | |]|lx]; destruct y as [vy|ly]; reflexivity.
  - destruct x as [vx|lx]; simpl; [apply veq_refl|]. induction lx as [|a l IH]; simpl; [reflexivity|].
    rewrite veq_refl, IH. reflexivity.
Qed.

(* the type tests partition the values *)
Theorem type_tests_spec : forall v,
  fx_call nm_is_null [v] = ybool (match v with YS VNull => true | _ => false end) /\
  fx_call nm_is_not_null [v] = ybool (match v with YS VNull => false | _ => true end) /\
  fx_call nm_is_numeric [v] = ybool (match v with YS (VNum _) => true | _ => false end) /\
  fx_call nm_is_string [v] = ybool (match v with YS (VStr _) => true | _ => false end) /\
  fx_call nm_is_bool [v] = ybool (match v with YS (VBool _) => true | _ => false end) /\
  fx_call nm_is_array [v] = ybool (match v with YA _ => true | _ => false end) /\
  fx_call nm_array_length [v] = (match v with YA l => yint (Z.of_nat (length l)) | YS _ => YErr end).
Proof. intros v. destruct v as [[| | |]|l]; repeat split; reflexivity. Qed.

(* ------------------------------------------------------------------ conversions: number <-> decimal text *)
Local Close Scope Q_scope.
Local Open Scope nat_scope.

Lemma digit_char_dec : forall d, (d < 10)%N ->
  is_digit (digit_char d) = true /\ Z.of_N (digit_char d - 48) = Z.of_N d.
Proof.
  intros d H. unfold digit_char, is_digit.
  assert (E : (d <? 10)%N = true) by (apply N.ltb_lt; exact H). rewrite E. split.
  - apply andb_true_iff. split; apply N.leb_le; lia.
  - f_equal. lia.
Qed.

Lemma dec_digits_step : forall c r acc cnt, is_digit c = true ->
  dec_digits (c :: r) acc cnt = dec_digits r (acc * 10 + Z.of_N (c - 48))%Z (S cnt).
Proof. intros c r acc cnt H. simpl. rewrite H. reflexivity. Qed.

Lemma dec_digits_rev : forall fuel n acc cnt rest, (n < 10 ^ N.of_nat fuel)%N ->
  dec_digits (rev (digits_rev 10 fuel n) ++ rest) acc cnt =
  dec_digits rest (acc * 10 ^ Z.of_nat (length (digits_rev 10 fuel n)) + Z.of_N n)%Z
             (cnt + length (digits_rev 10 fuel n)).
Proof.
  induction fuel as [|f IH]; intros n acc cnt rest Hn.
  - simpl in Hn. assert (n = 0%N) by lia. subst n. simpl.
    rewrite Z.mul_1_r, Z.add_0_r, Nat.add_0_r. reflexivity.
  - simpl digits_rev. destruct (n <? 10)%N eqn:E.
    + apply N.ltb_lt in E. destruct (digit_char_dec n E) as [D1 D2].
      simpl rev. simpl app. rewrite dec_digits_step by exact D1. rewrite D2. simpl length.
      rewrite Nat.add_1_r. reflexivity.
    + apply N.ltb_ge in E.
      assert (Hm : (n mod 10 < 10)%N) by (apply N.mod_lt; discriminate).
      destruct (digit_char_dec _ Hm) as [D1 D2].
      assert (Hd : (n / 10 < 10 ^ N.of_nat f)%N).
      { apply N.div_lt_upper_bound; [discriminate|].
        replace (N.of_nat (S f)) with (N.succ (N.of_nat f)) in Hn by lia.
        rewrite N.pow_succ_r' in Hn. exact Hn. }
      simpl rev. rewrite <- app_assoc. simpl app. rewrite (IH _ _ _ _ Hd).
      rewrite dec_digits_step by exact D1. rewrite D2. simpl length.
      set (L := length (digits_rev 10 f (n / 10))).
      replace (cnt + S L) with (S (cnt + L)) by lia. f_equal.
      rewrite Nat2Z.inj_succ, Z.pow_succ_r by lia.
      assert (Hdm : Z.of_N n = (10 * Z.of_N (n / 10) + Z.of_N (n mod 10))%Z).
      { rewrite (N.div_mod' n 10) at 1. rewrite N2Z.inj_add, N2Z.inj_mul. reflexivity. }
      rewrite Hdm. ring.
Qed.

Lemma digits_rev_all_digits : forall fuel n c, In c (digits_rev 10 fuel n) -> is_digit c = true.
Proof.
  induction fuel as [|f IH]; intros n c H; simpl in H; [contradiction|].
  destruct (n <? 10)%N eqn:E.
  - apply N.ltb_lt in E. destruct H as [H|[]]. subst c. apply digit_char_dec. exact E.
  - destruct H as [H|H].
    + subst c. apply digit_char_dec. apply N.mod_lt. discriminate.
    + apply (IH _ _ H).
Qed.

Lemma dec_of_N_fuel : forall n, (n < 10 ^ N.of_nat (S (N.to_nat (N.log2 n))))%N.
Proof.
  intros n. replace (N.of_nat (S (N.to_nat (N.log2 n)))) with (N.succ (N.log2 n)) by lia.
  destruct n as [|p].
  - simpl. lia.
  - assert (H : (N.pos p < 2 ^ N.succ (N.log2 (N.pos p)))%N) by (apply N.log2_spec; lia).
    eapply N.lt_le_trans; [exact H|]. apply N.pow_le_mono_l. lia.
Qed.

Theorem dec_of_N_roundtrip : forall n,
  dec_digits (dec_of_N n) 0%Z 0 = Some (Z.of_N n, length (dec_of_N n), []) /\
  0 < length (dec_of_N n) /\ (forall c, In c (dec_of_N n) -> is_digit c = true).
Proof.
  intros n. unfold dec_of_N, digits_of_N. split; [|split].
  - pose proof (dec_digits_rev (S (N.to_nat (N.log2 n))) n 0%Z 0 [] (dec_of_N_fuel n)) as H.
    rewrite app_nil_r in H. rewrite H. simpl dec_digits. rewrite rev_length. reflexivity.
  - rewrite rev_length. simpl. destruct (n <? 10)%N; simpl; lia.
  - intros c H. apply in_rev in H. apply (digits_rev_all_digits _ _ _ H).
Qed.

Theorem atoi_dec_of_Z : forall z, atoi (dec_of_Z z) = Some z.
Proof.
  assert (P : forall n, atoi (dec_of_N n) = Some (Z.of_N n)).
  { intros n. destruct (dec_of_N_roundtrip n) as [H1 [H2 H3]].
    destruct (dec_of_N n) as [|c r] eqn:E; [simpl in H2; lia|].
    assert (Hc : is_digit c = true) by (apply H3; left; reflexivity).
    unfold is_digit in Hc. apply andb_true_iff in Hc. destruct Hc as [Hc1 Hc2].
    apply N.leb_le in Hc1. apply N.leb_le in Hc2.
    unfold atoi.
    assert (E1 : (c =? 45)%N = false) by (apply N.eqb_neq; lia).
    assert (E2 : (c =? 43)%N = false) by (apply N.eqb_neq; lia).
    rewrite E1, E2, H1. simpl length. reflexivity. }
  intros z. destruct z as [|p|p].
  - apply (P 0%N).
  - apply (P (N.pos p)).
  - unfold dec_of_Z, atoi. rewrite N.eqb_refl.
    destruct (dec_of_N_roundtrip (N.pos p)) as [H1 [H2 _]]. rewrite H1.
    destruct (length (dec_of_N (N.pos p))) as [|k] eqn:E; [lia|]. reflexivity.
Qed.

Lemma Qred_inject_Z : forall z, Qred (inject_Z z) = inject_Z z.
Proof.
  intros z. unfold Qred, inject_Z.
  pose proof (Z.ggcd_gcd z 1) as G. pose proof (Z.ggcd_correct_divisors z 1) as D.
  destruct (Z.ggcd z 1) as [g [a b]]. simpl in *. rewrite Z.gcd_1_r in G. subst g.
  destruct D as [D1 D2]. rewrite Z.mul_1_l in D1, D2. subst. reflexivity.
Qed.

Lemma num_to_string_Z : forall z, (Z.abs z < 10 ^ 15)%Z -> num_to_string (inject_Z z) = Some (dec_of_Z z).
Proof.
  intros z H. unfold num_to_string. rewrite Qred_inject_Z. simpl Qden. simpl Qnum.
  assert (F : find_scale 15 0 1 = Some 0) by reflexivity. rewrite F.
  assert (P0 : p10 0 = 1%Z) by reflexivity. rewrite P0.
  rewrite Z.mul_1_r, !Z.div_1_r.
  assert (E : (p10 15 <=? Z.abs z)%Z = false) by (apply Z.leb_gt; exact H). rewrite E.
  rewrite app_nil_r. destruct z as [|p|p]; reflexivity.
Qed.

(* cast(z, 'string') is the decimal text of z, and cast(that text, 'int') is z again *)
Theorem cast_int_text_roundtrip : forall z, (Z.abs z < 10 ^ 15)%Z ->
  fx_call nm_cast [YS (VNum (inject_Z z)); YS (VStr ty_string)] = ystr (dec_of_Z z) /\
  fx_call nm_cast [YS (VStr (dec_of_Z z)); YS (VStr ty_int)] = yint z /\
  fx_call nm_length [YS (VNum (inject_Z z))] = yint (Z.of_nat (length (dec_of_Z z))).
Proof.
  intros z H. split; [|split].
  - unfold fx_call. assert (Ha : fx_arity nm_cast = Some (2, Some 2)) by reflexivity. rewrite Ha.
    assert (Hf : fn_call nm_cast [VNum (inject_Z z); VStr ty_string] = FUnmodelled) by reflexivity.
    simpl scalars. cbv beta iota. rewrite Hf. simpl negb. cbv beta iota.
    assert (Hb : fx_body nm_cast [YS (VNum (inject_Z z)); YS (VStr ty_string)] =
                 with_str (YS (VNum (inject_Z z))) ystr) by reflexivity.
    rewrite Hb. unfold with_str, to_string_x. rewrite (num_to_string_Z z H). reflexivity.
  - unfold fx_call. assert (Ha : fx_arity nm_cast = Some (2, Some 2)) by reflexivity. rewrite Ha.
    assert (Hf : fn_call nm_cast [VStr (dec_of_Z z); VStr ty_int] = FUnmodelled) by reflexivity.
    simpl scalars. cbv beta iota. rewrite Hf. simpl negb. cbv beta iota.
    assert (Hb : fx_body nm_cast [YS (VStr (dec_of_Z z)); YS (VStr ty_int)] =
                 with_int (YS (VStr (dec_of_Z z))) yint) by reflexivity.
    rewrite Hb. unfold with_int, to_int64. rewrite atoi_dec_of_Z. unfold in_int64.
    assert (E : (Z.abs z <? two63)%Z = true).
    { apply Z.ltb_lt. eapply Z.lt_trans; [exact H|]. unfold two63. reflexivity. }
    rewrite E. reflexivity.
  - unfold fx_call. assert (Ha : fx_arity nm_length = Some (1, Some 1)) by reflexivity. rewrite Ha.
    assert (Hf : fn_call nm_length [VNum (inject_Z z)] = FUnmodelled) by reflexivity.
    simpl scalars. cbv beta iota. rewrite Hf. simpl negb. cbv beta iota.
    assert (Hb : fx_body nm_length [YS (VNum (inject_Z z))] =
                 with_str (YS (VNum (inject_Z z))) (fun s => yint (Z.of_nat (length s)))) by reflexivity.
    rewrite Hb. unfold with_str, to_string_x. rewrite (num_to_string_Z z H). reflexivity.
Qed.

(* ------------------------------------------------------------------ fx_call extends fn_call *)
Lemma scalars_map_YS : forall vs, scalars (map YS vs) = Some vs.
Proof. induction vs as [|v vs IH]; simpl; [reflexivity|rewrite IH; reflexivity]. Qed.

(* on scalar arguments the functions of Model/ExprEval.v keep the meaning they have there, so every
   theorem about fn_call (lpad / rpad, the agreement with the reference semantics) carries over *)
Theorem fx_call_extends_fn_call : forall n a vs,
  fx_arity n = Some a -> arity_ok a (length vs) = true ->
  (forall v, fn_call n vs = FOk v -> fx_call n (map YS vs) = YOk (YS v)) /\
  (fn_call n vs = FErr -> fx_call n (map YS vs) = YErr).
Proof.
  intros n a vs Ha Hk. unfold fx_call. rewrite Ha, map_length, Hk, scalars_map_YS. simpl.
  split; [intros v H|intros H]; rewrite H; reflexivity.
Qed.

Theorem fx_pad_call : forall (left : bool) (s : bytes) (n : nat) (pad : bytes),
  fx_call (if left then nm_lpad else nm_rpad) [YS (VStr s); YS (VNum (inject_Z (Z.of_nat n))); YS (VStr pad)]
  = ystr (pad_value left s n pad).
Proof.
  intros left s n pad.
  pose proof (fn_call_pad left s n pad) as H.
  destruct left.
  - apply (proj1 (fx_call_extends_fn_call nm_lpad (2, Some 3) [VStr s; VNum (inject_Z (Z.of_nat n)); VStr pad] eq_refl eq_refl)). exact H.
  - apply (proj1 (fx_call_extends_fn_call nm_rpad (2, Some 3) [VStr s; VNum (inject_Z (Z.of_nat n)); VStr pad] eq_refl eq_refl)). exact H.
Qed.

(* ------------------------------------------------------------------ conversions: hexadecimal *)
Lemma hex_digit_char : forall d, (d < 16)%N ->
  hex_digit (digit_char d) = Some (Z.of_N d).
Proof.
  intros d H. unfold digit_char, hex_digit. destruct (d <? 10)%N eqn:E.
  - apply N.ltb_lt in E.
    assert (E1 : (48 <=? 48 + d)%N && (48 + d <=? 57)%N = true)
      by (apply andb_true_iff; split; apply N.leb_le; lia).
    rewrite E1. f_equal. f_equal. lia.
  - apply N.ltb_ge in E.
    assert (E1 : (48 <=? 87 + d)%N && (87 + d <=? 57)%N = false)
      by (apply andb_false_iff; right; apply N.leb_gt; lia).
    assert (E2 : (97 <=? 87 + d)%N && (87 + d <=? 102)%N = true)
      by (apply andb_true_iff; split; apply N.leb_le; lia).
    rewrite E1, E2. f_equal. f_equal. lia.
Qed.

Lemma hex_digits_step : forall c r acc d, hex_digit c = Some d ->
  hex_digits (c :: r) acc = hex_digits r (acc * 16 + d)%Z.
Proof. intros c r acc d H. simpl. rewrite H. reflexivity. Qed.

Lemma hex_digits_rev : forall fuel n acc rest, (n < 16 ^ N.of_nat fuel)%N ->
  hex_digits (rev (digits_rev 16 fuel n) ++ rest) acc =
  hex_digits rest (acc * 16 ^ Z.of_nat (length (digits_rev 16 fuel n)) + Z.of_N n)%Z.
Proof.
  induction fuel as [|f IH]; intros n acc rest Hn.
  - simpl in Hn. assert (n = 0%N) by lia. subst n. simpl. rewrite Z.mul_1_r, Z.add_0_r. reflexivity.
  - simpl digits_rev. destruct (n <? 16)%N eqn:E.
    + apply N.ltb_lt in E. simpl rev. simpl app. rewrite (hex_digits_step _ _ _ _ (hex_digit_char n E)).
      simpl length. reflexivity.
    + apply N.ltb_ge in E.
      assert (Hm : (n mod 16 < 16)%N) by (apply N.mod_lt; discriminate).
      assert (Hd : (n / 16 < 16 ^ N.of_nat f)%N).
      { apply N.div_lt_upper_bound; [discriminate|].
        replace (N.of_nat (S f)) with (N.succ (N.of_nat f)) in Hn by lia.
        rewrite N.pow_succ_r' in Hn. exact Hn. }
      simpl rev. rewrite <- app_assoc. simpl app. rewrite (IH _ _ _ Hd).
      rewrite (hex_digits_step _ _ _ _ (hex_digit_char _ Hm)). simpl length.
      set (L := length (digits_rev 16 f (n / 16))).
      rewrite Nat2Z.inj_succ, Z.pow_succ_r by lia.
      assert (Hdm : Z.of_N n = (16 * Z.of_N (n / 16) + Z.of_N (n mod 16))%Z).
      { rewrite (N.div_mod' n 16) at 1. rewrite N2Z.inj_add, N2Z.inj_mul. reflexivity. }
      rewrite Hdm. f_equal. ring.
Qed.

Lemma hex_fuel : forall n, (n < 16 ^ N.of_nat (S (N.to_nat (N.log2 n))))%N.
Proof.
  intros n. replace (N.of_nat (S (N.to_nat (N.log2 n)))) with (N.succ (N.log2 n)) by lia.
  destruct n as [|p].
  - simpl. lia.
  - assert (H : (N.pos p < 2 ^ N.succ (N.log2 (N.pos p)))%N) by (apply N.log2_spec; lia).
    eapply N.lt_le_trans; [exact H|]. apply N.pow_le_mono_l. lia.
Qed.

Lemma digits_rev_length_le : forall base fuel n, length (digits_rev base fuel n) <= fuel.
Proof. intros base. induction fuel as [|f IH]; intros n; simpl; [lia|]. destruct (n <? base)%N; simpl; [lia|]. specialize (IH (n / base)%N). lia. Qed.

Lemma hex_of_N_roundtrip : forall n,
  hex_digits (digits_of_N 16 n) 0%Z = Some (Z.of_N n) /\ 0 < length (digits_of_N 16 n) /\
  (forall c, In c (digits_of_N 16 n) -> c <> 45%N /\ c <> 43%N).
Proof.
  intros n. unfold digits_of_N. split; [|split].
  - pose proof (hex_digits_rev (S (N.to_nat (N.log2 n))) n 0%Z [] (hex_fuel n)) as H.
    rewrite app_nil_r in H. rewrite H. reflexivity.
  - rewrite rev_length. simpl. destruct (n <? 16)%N; simpl; lia.
  - intros c H. apply in_rev in H.
    assert (G : forall fuel m c, In c (digits_rev 16 fuel m) -> exists d, (d < 16)%N /\ c = digit_char d).
    { induction fuel as [|f IH]; intros m c0 H0; simpl in H0; [contradiction|].
      destruct (m <? 16)%N eqn:E.
      - apply N.ltb_lt in E. destruct H0 as [H0|[]]. exists m. split; [exact E|symmetry; exact H0].
      - destruct H0 as [H0|H0].
        + exists (m mod 16)%N. split; [apply N.mod_lt; discriminate|symmetry; exact H0].
        + apply (IH _ _ H0). }
    destruct (G _ _ _ H) as [d [Hd Hc]]. subst c. unfold digit_char. destruct (d <? 10)%N; lia.
Qed.

(* hex2dec(dec2hex(z)) = z *)
Theorem hex_text_roundtrip : forall z, (Z.abs z < 16 ^ 15)%Z ->
  parse_hex (hex_of_Z z) = OVal z /\
  fx_call nm_dec2hex [YS (VNum (inject_Z z))] = ystr (hex_of_Z z) /\
  fx_call nm_hex2dec [YS (VStr (hex_of_Z z))] = yint z.
Proof.
  intros z Hz.
  assert (L : forall n, (Z.of_N n < 16 ^ 15)%Z -> length (digits_of_N 16 n) <= 15).
  { intros n Hn. unfold digits_of_N. rewrite rev_length.
    (* 16^15 = 2^60: log2 n < 60, so the fuel - an upper bound of the length - is at most 60; sharper: *)
    destruct (N.eq_dec n 0) as [->|Hn0]; [simpl; lia|].
    assert (Hlog : (N.log2 n < 60)%N).
    { apply N.log2_lt_pow2; [lia|]. apply N2Z.inj_lt. rewrite N2Z.inj_pow. simpl Z.of_N.
      change (2 ^ 60)%Z with (16 ^ 15)%Z. exact Hn. }
    (* each hex digit consumes 4 bits *)
    assert (G : forall fuel m k, (m < 16 ^ N.of_nat k)%N -> length (digits_rev 16 fuel m) <= Nat.max 1 k).
    { induction fuel as [|f IH]; intros m k Hm; [simpl length; lia|]. simpl digits_rev.
      destruct (m <? 16)%N eqn:E; [simpl length; lia|]. simpl length. apply N.ltb_ge in E.
      destruct k as [|k]; [change (16 ^ N.of_nat 0)%N with 1%N in Hm; lia|].
      destruct k as [|k]; [change (16 ^ N.of_nat 1)%N with 16%N in Hm; lia|].
      assert (Hd : (m / 16 < 16 ^ N.of_nat (S k))%N).
      { apply N.div_lt_upper_bound; [discriminate|].
        replace (N.of_nat (S (S k))) with (N.succ (N.of_nat (S k))) in Hm by lia.
        rewrite N.pow_succ_r' in Hm. exact Hm. }
      specialize (IH (m / 16)%N (S k) Hd). lia. }
    assert (Hn16 : (n < 16 ^ N.of_nat 15)%N).
    { apply N2Z.inj_lt. rewrite N2Z.inj_pow. exact Hn. }
    specialize (G (S (N.to_nat (N.log2 n))) n 15 Hn16). lia. }
  assert (P : forall n, (Z.of_N n < 16 ^ 15)%Z -> parse_hex (digits_of_N 16 n) = OVal (Z.of_N n)).
  { intros n Hn. destruct (hex_of_N_roundtrip n) as [H1 [H2 H3]]. specialize (L n Hn).
    destruct (digits_of_N 16 n) as [|c r] eqn:E; [simpl in H2; lia|].
    destruct (H3 c (or_introl eq_refl)) as [Hc1 Hc2].
    unfold parse_hex.
    assert (E1 : (c =? 45)%N = false) by (apply N.eqb_neq; exact Hc1).
    assert (E2 : (c =? 43)%N = false) by (apply N.eqb_neq; exact Hc2).
    rewrite E1, E2, H1.
    assert (E15 : Nat.leb (length (c :: r)) 15 = true) by (apply Nat.leb_le; exact L). rewrite E15. reflexivity. }
  assert (Q1 : parse_hex (hex_of_Z z) = OVal z).
  { destruct z as [|p|p].
    - apply (P 0%N). reflexivity.
    - apply (P (N.pos p)). exact Hz.
    - unfold hex_of_Z. destruct (hex_of_N_roundtrip (N.pos p)) as [H1 [H2 _]].
      assert (Lp := L (N.pos p) Hz). unfold parse_hex. rewrite N.eqb_refl.
      destruct (digits_of_N 16 (N.pos p)) as [|c r] eqn:E; [simpl in H2; lia|]. rewrite H1.
      assert (E15 : Nat.leb (length (c :: r)) 15 = true) by (apply Nat.leb_le; exact Lp). rewrite E15. reflexivity. }
  split; [exact Q1|].
  assert (H63 : (Z.abs z < two63)%Z).
  { eapply Z.lt_trans; [exact Hz|]. unfold two63. reflexivity. }
  split.
  - unfold fx_call. assert (Ha : fx_arity nm_dec2hex = Some (1, Some 1)) by reflexivity. rewrite Ha.
    assert (Hf : fn_call nm_dec2hex [VNum (inject_Z z)] = FUnmodelled) by reflexivity.
    simpl scalars. cbv beta iota. rewrite Hf. simpl negb. cbv beta iota.
    assert (Hb : fx_body nm_dec2hex [YS (VNum (inject_Z z))] =
                 with_int (YS (VNum (inject_Z z))) (fun x => ystr (hex_of_Z x))) by reflexivity.
    rewrite Hb. unfold with_int. rewrite (to_int64_Z _ H63). reflexivity.
  - unfold fx_call. assert (Ha : fx_arity nm_hex2dec = Some (1, Some 1)) by reflexivity. rewrite Ha.
    assert (Hf : fn_call nm_hex2dec [VStr (hex_of_Z z)] = FUnmodelled) by reflexivity.
    simpl scalars. cbv beta iota. rewrite Hf. simpl negb. cbv beta iota.
    assert (Hb : fx_body nm_hex2dec [YS (VStr (hex_of_Z z))] =
                 match parse_hex (hex_of_Z z) with OVal x => yint x | OErr => YErr | OUnm => YUnm end) by reflexivity.
    rewrite Hb, Q1. reflexivity.
Qed.

(* ------------------------------------------------------------------ url / hex codecs *)
Definition is_byte (c : byte) : Prop := (c < 256)%N.

Lemma hex_digit_upper : forall d, (d < 16)%N -> hex_digit (hex_upper d) = Some (Z.of_N d).
Proof.
  intros d H. unfold hex_upper, hex_digit. destruct (d <? 10)%N eqn:E.
  - apply N.ltb_lt in E.
    assert (E1 : (48 <=? 48 + d)%N && (48 + d <=? 57)%N = true)
      by (apply andb_true_iff; split; apply N.leb_le; lia).
    rewrite E1. f_equal. f_equal. lia.
  - apply N.ltb_ge in E.
    assert (E1 : (48 <=? 55 + d)%N && (55 + d <=? 57)%N = false)
      by (apply andb_false_iff; right; apply N.leb_gt; lia).
    assert (E2 : (97 <=? 55 + d)%N && (55 + d <=? 102)%N = false)
      by (apply andb_false_iff; left; apply N.leb_gt; lia).
    assert (E3 : (65 <=? 55 + d)%N && (55 + d <=? 70)%N = true)
      by (apply andb_true_iff; split; apply N.leb_le; lia).
    rewrite E1, E2, E3. f_equal. f_equal. lia.
Qed.

Lemma byte_of_nibbles : forall c, (c < 256)%N ->
  (c / 16 < 16)%N /\ (c mod 16 < 16)%N /\ Z.to_N (Z.of_N (c / 16) * 16 + Z.of_N (c mod 16)) = c.
Proof.
  intros c H. split; [apply N.div_lt_upper_bound; [discriminate|exact H]|].
  split; [apply N.mod_lt; discriminate|].
  replace (Z.of_N (c / 16) * 16 + Z.of_N (c mod 16))%Z with (Z.of_N (16 * (c / 16) + c mod 16)).
  - rewrite N2Z.id. symmetry. apply N.div_mod'.
  - rewrite N2Z.inj_add, N2Z.inj_mul. simpl Z.of_N. ring.
Qed.

Theorem hex_codec_roundtrip : forall s, Forall is_byte s ->
  hex_decode (hex_encode s) = Some s /\ length (hex_encode s) = 2 * length s.
Proof.
  intros s H. induction H as [|c s Hc Hs IH]; [split; reflexivity|].
  destruct IH as [IH1 IH2]. destruct (byte_of_nibbles c Hc) as [B1 [B2 B3]]. split.
  - simpl hex_encode. simpl hex_decode.
    rewrite (hex_digit_char _ B1), (hex_digit_char _ B2), IH1. simpl. rewrite B3. reflexivity.
  - simpl. rewrite IH2. lia.
Qed.

Lemma url_unreserved_plain : forall c, url_unreserved c = true -> c <> 37%N /\ c <> 43%N.
Proof.
  intros c H. unfold url_unreserved, is_alnum in H.
  repeat (apply orb_true_iff in H; destruct H as [H|H]);
    try (apply andb_true_iff in H; destruct H as [H1 H2]; apply N.leb_le in H1; apply N.leb_le in H2; lia);
    try (apply N.eqb_eq in H; lia).
Qed.

Theorem url_codec_roundtrip : forall s, Forall is_byte s -> url_unescape (url_escape s) = Some s.
Proof.
  intros s H. induction H as [|c s Hc Hs IH]; [reflexivity|].
  simpl url_escape. destruct (url_unreserved c) eqn:U.
  - destruct (url_unreserved_plain c U) as [N1 N2].
    simpl url_unescape.
    assert (E1 : (c =? 37)%N = false) by (apply N.eqb_neq; exact N1).
    assert (E2 : (c =? 43)%N = false) by (apply N.eqb_neq; exact N2).
    rewrite E1, E2, IH. reflexivity.
  - destruct (c =? 32)%N eqn:E32.
    + apply N.eqb_eq in E32. subst c. simpl url_unescape. rewrite IH. reflexivity.
    + destruct (byte_of_nibbles c Hc) as [B1 [B2 B3]].
      change (url_unescape (37%N :: hex_upper (c / 16) :: hex_upper (c mod 16) :: url_escape s))
        with (match hex_digit (hex_upper (c / 16)), hex_digit (hex_upper (c mod 16)) with
              | Some a, Some b => option_map (cons (Z.to_N (a * 16 + b))) (url_unescape (url_escape s))
              | _, _ => None
              end).
      rewrite (hex_digit_upper _ B1), (hex_digit_upper _ B2), IH. simpl. rewrite B3. reflexivity.
Qed.

(* through the calls: url_decode(url_encode(s)) = s, decode(encode(s, 'hex'), 'hex') = s, and the
   same for the 'url' format *)
Theorem codec_calls_roundtrip : forall s, Forall is_byte s ->
  fx_call nm_url_encode [YS (VStr s)] = ystr (url_escape s) /\
  fx_call nm_url_decode [YS (VStr (url_escape s))] = ystr s /\
  fx_call nm_encode [YS (VStr s); YS (VStr fmt_hex)] = ystr (hex_encode s) /\
  fx_call nm_decode [YS (VStr (hex_encode s)); YS (VStr fmt_hex)] = ystr s /\
  fx_call nm_encode [YS (VStr s); YS (VStr fmt_url)] = ystr (url_escape s) /\
  fx_call nm_decode [YS (VStr (url_escape s)); YS (VStr fmt_url)] = ystr s.
Proof.
  intros s H. pose proof (url_codec_roundtrip s H) as U. destruct (hex_codec_roundtrip s H) as [X _].
  assert (G : forall n args r, fx_arity n <> None ->
            (forall a, fx_arity n = Some a -> arity_ok a (length args) = true) ->
            (forall vs, fn_call n vs = FUnmodelled) -> fx_body n args = r -> fx_call n args = r).
  { intros n args r Hn Hk Hf Hb. unfold fx_call. destruct (fx_arity n) as [a|] eqn:Ea; [|contradiction].
    rewrite (Hk a eq_refl). simpl negb. cbv beta iota.
    destruct (scalars args) as [vs|]; [rewrite Hf|]; exact Hb. }
  split; [|split; [|split; [|split; [|split]]]].
  - apply G; [discriminate|intros a Ha; inversion Ha; reflexivity|intros vs; reflexivity|reflexivity].
  - apply G; [discriminate|intros a Ha; inversion Ha; reflexivity|intros vs; reflexivity|].
    change (fx_body nm_url_decode [YS (VStr (url_escape s))])
      with (match url_unescape (url_escape s) with Some r => ystr r | None => YErr end).
    rewrite U. reflexivity.
  - apply G; [discriminate|intros a Ha; inversion Ha; reflexivity|intros vs; reflexivity|reflexivity].
  - apply G; [discriminate|intros a Ha; inversion Ha; reflexivity|intros vs; reflexivity|].
    change (fx_body nm_decode [YS (VStr (hex_encode s)); YS (VStr fmt_hex)])
      with (match hex_decode (hex_encode s) with Some r => ystr r | None => YErr end).
    rewrite X. reflexivity.
  - apply G; [discriminate|intros a Ha; inversion Ha; reflexivity|intros vs; reflexivity|reflexivity].
  - apply G; [discriminate|intros a Ha; inversion Ha; reflexivity|intros vs; reflexivity|].
    change (fx_body nm_decode [YS (VStr (url_escape s)); YS (VStr fmt_url)])
      with (match url_unescape (url_escape s) with Some r => ystr r | None => YErr end).
    rewrite U. reflexivity.
Qed.

(* ------------------------------------------------------------------ ysem and the reference semantics *)
From SV Require Import Proofs.ExprEvalProofs.

(* a call that fn_call gives a value has an admissible number of arguments *)
Lemma fn_call_arity : forall n vs v, fn_call n vs = FOk v ->
  exists a, fx_arity n = Some a /\ arity_ok a (length vs) = true.
Proof.
  intros n vs v H. unfold fn_call in H.
  repeat match type of H with
  | (if ?c then _ else _) = _ =>
      let E := fresh "E" in
      destruct c eqn:E;
      [ try (apply orb_true_iff in E; destruct E as [E|E]);
        apply bytes_eqb_iff in E; subst n;
        (eexists; split; [reflexivity|]);
        destruct vs as [|x1 [|x2 [|x3 [|x4 l]]]];
        first [ reflexivity
              | (simpl in H; discriminate H)
              | (unfold fn_num1, fn_str1, fn_pad in H; simpl in H; discriminate H)
              | (destruct x1; simpl in H; discriminate H)
              | (destruct x1; destruct x2; simpl in H; discriminate H) ]
      | ]
  end.
  discriminate H.
Qed.

Definition lift_row (r : xrow) : yrow := map (fun kv => (fst kv, YS (snd kv))) r.
Lemma ylookup_lift : forall r k, ylookup (lift_row r) k = option_map YS (xlookup r k).
Proof.
  induction r as [|[k' v] r IH]; intros k; simpl; [reflexivity|].
  destruct (bytes_eqb k k'); [reflexivity|apply IH].
Qed.

(* where the reference semantics gives a call expression a value, the model of the built-ins gives the
   same value (or leaves the expression outside its fragment: a computed zero that is rendered as text) *)
Theorem ysem_consistent_with_sem : forall row e v,
  sem row e = Some v -> cols_ok row Strict e = true ->
  ysem (lift_row row) e = YOk (YS v) \/ ysem (lift_row row) e = YUnm.
Proof.
  intros row e. induction e using xexpr_ind'; intros v Hs Hc; simpl in Hs; try (right; reflexivity).
  - inversion Hs; subst. left. reflexivity.
  - inversion Hs; subst. left. reflexivity.
  - simpl in Hc. simpl. rewrite ylookup_lift. destruct (xlookup row s) as [v0|]; [|discriminate].
    inversion Hs; subst. left. reflexivity.
  - (* call *)
    simpl in Hc. destruct (omapM (sem row) args) as [vs|] eqn:Em; [|discriminate].
    destruct (fn_call g vs) as [v0| |] eqn:Ef; try discriminate. inversion Hs; subst v0.
    assert (M : ymapM (ysem (lift_row row)) args = LOk (map YS vs) \/ ymapM (ysem (lift_row row)) args = LUnm).
    { clear Ef Hs. revert vs Em Hc. induction H as [|a args Ha Hargs IH]; intros vs Em Hc.
      - simpl in Em. inversion Em; subst. left. reflexivity.
      - simpl in Em. simpl in Hc. apply andb_true_iff in Hc. destruct Hc as [Hc1 Hc2].
        destruct (sem row a) as [va|] eqn:Ea; [|discriminate].
        destruct (omapM (sem row) args) as [vs'|] eqn:Em'; [|discriminate].
        inversion Em; subst. simpl.
        destruct (Ha va eq_refl Hc1) as [Ha'|Ha']; rewrite Ha'; [|right; reflexivity].
        destruct (IH vs' eq_refl Hc2) as [IH'|IH']; rewrite IH'; [left; reflexivity|right; reflexivity]. }
    simpl. destruct M as [M|M]; rewrite M; [|right; reflexivity].
    destruct (renders_text g && computed_zero args (map YS vs)); [right; reflexivity|].
    left. destruct (fn_call_arity g vs v Ef) as [a [Ha Hk]].
    apply (proj1 (fx_call_extends_fn_call g a vs Ha Hk)). exact Ef.
  - simpl in Hc. simpl. apply IHe; assumption.
Qed.
