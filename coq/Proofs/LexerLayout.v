(* C11 -- layout invariance and opacity of quoted text for the lexer model. *)
From SV Require Import Model.Lexer Spec.LexSpec Proofs.LexerProofs.
From Coq Require Import Lia.
Local Open Scope N_scope.

Lemma tok_eqb_eq : forall a b, tok_eqb a b = true -> a = b.
Proof.
  intros [ta va] [tb vb] H. unfold tok_eqb in H. simpl in H. apply andb_prop in H. destruct H as [H1 H2].
  apply N.eqb_eq in H1. apply bytes_eqb_eq in H2. subst. reflexivity.
Qed.

Lemma ws_props : forall d, is_ws d = true ->
  is_digit d = false /\ is_numch d = false /\ N.eqb d 61 = false /\ is_identch d = false /\ N.eqb d 0 = false.
Proof.
  intros d H. unfold is_ws in H.
  assert (C : d = 32 \/ d = 9 \/ d = 10 \/ d = 13).
  { destruct (N.eqb d 32) eqn:E1; [apply N.eqb_eq in E1; auto|].
    destruct (N.eqb d 9) eqn:E2; [apply N.eqb_eq in E2; auto|].
    destruct (N.eqb d 10) eqn:E3; [apply N.eqb_eq in E3; auto|].
    destruct (N.eqb d 13) eqn:E4; [apply N.eqb_eq in E4; auto|]. discriminate. }
  destruct C as [C|[C|[C|C]]]; subst d; repeat split; reflexivity.
Qed.

Lemma glue_ws : forall v d, v <> [] -> is_ws d = true -> glue_ok v d = true.
Proof.
  intros v d Hv Hd. destruct (ws_props _ Hd) as [A [B [C [D _]]]].
  destruct v as [|c r]; [congruence|]. unfold glue_ok. rewrite A, B, C, D.
  destruct (single c); [reflexivity|].
  destruct r as [|x r]; simpl;
  repeat match goal with |- context [if ?b then _ else _] => destruct b end; reflexivity.
Qed.

Lemma next_struct_ws : forall g s, forallb is_ws g = true -> next_struct (g ++ s) = next_struct s.
Proof.
  induction g as [|c g IH]; simpl; intros s H; [reflexivity|].
  apply andb_prop in H. destruct H as [H1 H2]. rewrite H1. apply IH. exact H2.
Qed.

Lemma in_quote_self : forall q, in_quote q q = false.
Proof. intro q. unfold in_quote. rewrite N.eqb_refl. reflexivity. Qed.

(* a closed literal cannot be the result of running into the end of the input *)
Lemma closed_not_all : forall q r, forallb (in_quote q) r = true -> closed q r = false.
Proof.
  intros q r H. unfold closed. destruct (rev r) as [|x l] eqn:E; [reflexivity|].
  assert (I : In x r). { apply in_rev. rewrite E. left. reflexivity. }
  rewrite forallb_forall in H. specialize (H _ I). unfold in_quote in H.
  destruct (N.eqb x q); [discriminate|reflexivity].
Qed.

Lemma lex_quoted_glue : forall ty q r t rest,
  lex_quoted ty q r = (t, []) -> closed q r = true -> lex_quoted ty q (r ++ rest) = (t, rest).
Proof.
  intros ty q r t rest H Hc. unfold lex_quoted in *.
  destruct (span (in_quote q) r) as [body r1] eqn:Hs.
  pose proof (span_app _ _ _ _ Hs) as E. pose proof (span_all _ _ _ _ Hs) as A. subst r.
  destruct r1 as [|c r2].
  - rewrite app_nil_r in Hc. rewrite (closed_not_all _ _ A) in Hc. discriminate.
  - destruct (N.eqb c q) eqn:Ec; [|inversion H].
    inversion H; subst. apply N.eqb_eq in Ec. subst c.
    rewrite <- app_assoc. simpl.
    rewrite (span_exact (in_quote q) body (q :: rest) A (in_quote_self q)). rewrite N.eqb_refl. reflexivity.
Qed.

Lemma span_glue : forall f r a rest, span f r = (a, []) ->
  match rest with [] => True | d :: _ => f d = false end -> span f (r ++ rest) = (a, rest).
Proof.
  intros f r a rest H Hr. pose proof (span_app _ _ _ _ H) as E. pose proof (span_all _ _ _ _ H) as A.
  rewrite app_nil_r in E. subst a. apply span_exact; assumption.
Qed.

Lemma negb_true : forall b, negb b = true -> b = false.
Proof. destruct b; simpl; congruence. Qed.

(* locality of one lexeme: what follows does not change the token, provided it cannot glue *)
Lemma lex1_glue : forall c r t d rest,
  lex1 c r = Some (t, []) -> (negb (is_quote c) || closed c r) = true ->
  glue_ok (c :: r) d = true -> lex1 c (r ++ d :: rest) = Some (t, d :: rest).
Proof.
  intros c r t d rest H Hq Hg. unfold lex1 in *. unfold glue_ok in Hg. unfold is_quote in Hq.
  destruct (single c). { inversion H; subst. reflexivity. }
  destruct (N.eqb c 45).
  { destruct r as [|d0 r0].
    - simpl. apply negb_true in Hg. rewrite Hg. inversion H; subst. reflexivity.
    - rewrite <- app_comm_cons. cbv beta iota. destruct (is_digit d0); [|inversion H].
      destruct (span is_numch (d0 :: r0)) as [num r1] eqn:Hs. inversion H; subst.
      change (d0 :: r0 ++ d :: rest) with ((d0 :: r0) ++ d :: rest).
      rewrite (span_glue _ _ _ (d :: rest) Hs); [reflexivity|]. apply negb_true in Hg. exact Hg. }
  destruct (N.eqb c 61).
  { unfold op_eq in *. destruct r as [|d0 r0].
    - simpl. apply negb_true in Hg. rewrite Hg. inversion H; subst. reflexivity.
    - rewrite <- app_comm_cons. cbv beta iota. destruct (N.eqb d0 61); inversion H; subst. reflexivity. }
  destruct (N.eqb c 62).
  { unfold op_eq in *. destruct r as [|d0 r0].
    - simpl. apply negb_true in Hg. rewrite Hg. inversion H; subst. reflexivity.
    - rewrite <- app_comm_cons. cbv beta iota. destruct (N.eqb d0 61); inversion H; subst. reflexivity. }
  destruct (N.eqb c 60).
  { unfold op_eq in *. destruct r as [|d0 r0].
    - simpl. apply negb_true in Hg. rewrite Hg. inversion H; subst. reflexivity.
    - rewrite <- app_comm_cons. cbv beta iota. destruct (N.eqb d0 61); inversion H; subst. reflexivity. }
  destruct (N.eqb c 33).
  { destruct r as [|d0 r0]; [discriminate|]. rewrite <- app_comm_cons. cbv beta iota. destruct (N.eqb d0 61); [|discriminate].
    inversion H; subst. reflexivity. }
  destruct (N.eqb c 39 || N.eqb c 34) eqn:Q1.
  { simpl in Hq. inversion H as [H1]. rewrite (lex_quoted_glue _ _ _ _ (d :: rest) H1 Hq). reflexivity. }
  destruct (N.eqb c 96) eqn:Q2.
  { simpl in Hq. inversion H as [H1]. rewrite (lex_quoted_glue _ _ _ _ (d :: rest) H1 Hq). reflexivity. }
  destruct (is_letter c).
  { destruct (span is_identch r) as [id r1] eqn:Hs. inversion H; subst.
    rewrite (span_glue _ _ _ (d :: rest) Hs); [reflexivity|]. apply negb_true in Hg. exact Hg. }
  destruct (is_digit c); [|discriminate].
  destruct (span is_numch r) as [num r1] eqn:Hs. inversion H; subst.
  rewrite (span_glue _ _ _ (d :: rest) Hs); [reflexivity|]. apply negb_true in Hg. exact Hg.
Qed.

Lemma single_not_eof : forall c ty, single c = Some ty -> N.eqb ty T_EOF = false.
Proof.
  intros c ty H. unfold single in H.
  repeat match type of H with (if ?b then _ else _) = _ => destruct b end; inversion H; reflexivity.
Qed.

Lemma lex1_not_eof : forall c r t r', lex1 c r = Some (t, r') -> is_eof t = false.
Proof.
  intros c r t r' H. unfold lex1 in H. unfold is_eof.
  destruct (single c) eqn:Hs. { inversion H; subst. simpl. eapply single_not_eof. exact Hs. }
  destruct (N.eqb c 45).
  { destruct r as [|d r0]. { inversion H; subst. reflexivity. }
    destruct (is_digit d); [destruct (span is_numch (d :: r0))|]; inversion H; subst; reflexivity. }
  destruct (N.eqb c 61). { unfold op_eq in H. destruct r as [|d r0]; [|destruct (N.eqb d 61)]; inversion H; subst; reflexivity. }
  destruct (N.eqb c 62). { unfold op_eq in H. destruct r as [|d r0]; [|destruct (N.eqb d 61)]; inversion H; subst; reflexivity. }
  destruct (N.eqb c 60). { unfold op_eq in H. destruct r as [|d r0]; [|destruct (N.eqb d 61)]; inversion H; subst; reflexivity. }
  destruct (N.eqb c 33). { destruct r as [|d r0]; [discriminate|]. destruct (N.eqb d 61); inversion H; subst; reflexivity. }
  destruct (N.eqb c 39 || N.eqb c 34).
  { unfold lex_quoted in H. destruct (span (in_quote c) r) as [b r1]. destruct r1 as [|x r2]; [|destruct (N.eqb x c)]; inversion H; subst; reflexivity. }
  destruct (N.eqb c 96).
  { unfold lex_quoted in H. destruct (span (in_quote c) r) as [b r1]. destruct r1 as [|x r2]; [|destruct (N.eqb x c)]; inversion H; subst; reflexivity. }
  destruct (is_letter c).
  { destruct (span is_identch r) as [id r1]. inversion H; subst. simpl. apply kw_type_not_eof. }
  destruct (is_digit c); [|discriminate]. destruct (span is_numch r). inversion H; subst. reflexivity.
Qed.

Lemma lexeme_ok_inv : forall t, lexeme_ok t = true ->
  exists c r, tval t = c :: r /\ is_ws c = false /\ N.eqb c 0 = false
              /\ (negb (is_quote c) || closed c r) = true /\ lex1 c r = Some (t, []).
Proof.
  intros t H. unfold lexeme_ok in H. destruct (tval t) as [|c r] eqn:E; [discriminate|].
  apply andb_prop in H. destruct H as [H H4]. apply andb_prop in H. destruct H as [H H3].
  apply andb_prop in H. destruct H as [H1 H2]. apply negb_true in H1. apply negb_true in H2.
  exists c, r. repeat split; auto.
  destruct (lex1 c r) as [[t' r']|]; [|discriminate]. destruct r'; [|discriminate].
  apply tok_eqb_eq in H4. subst. reflexivity.
Qed.

Lemma next_struct_lexeme : forall t rest, lexeme_ok t = true ->
  match rest with [] => True | d :: _ => glue_ok (tval t) d = true end ->
  next_struct (tval t ++ rest) = (t, rest) /\ is_eof t = false.
Proof.
  intros t rest H Hg. destruct (lexeme_ok_inv _ H) as [c [r [E [W [Z [Q L]]]]]].
  split; [|eapply lex1_not_eof; exact L].
  rewrite E in *. simpl. rewrite W, Z. destruct rest as [|d rest].
  - rewrite app_nil_r. rewrite L. reflexivity.
  - rewrite (lex1_glue _ _ _ _ rest L Q Hg). reflexivity.
Qed.

Lemma lexeme_ok_nonempty : forall t, lexeme_ok t = true -> tval t <> [].
Proof. intros t H. destruct (lexeme_ok_inv _ H) as [c [r [E _]]]. rewrite E. discriminate. Qed.

(* what follows a token in a well laid-out text cannot glue to it *)
Lemma layout_follow : forall t l last, lexeme_ok t = true -> layout_ok (Some t) l last = true ->
  match render l last with [] => True | d :: _ => glue_ok (tval t) d = true end.
Proof.
  intros t l last Ht H. pose proof (lexeme_ok_nonempty _ Ht) as Hn. destruct l as [|[g t'] l'].
  - simpl in *. destruct last as [|d last]; [exact I|]. simpl in H. apply andb_prop in H. destruct H as [H _].
    apply glue_ws; assumption.
  - simpl in *. apply andb_prop in H. destruct H as [H _]. apply andb_prop in H. destruct H as [H H3].
    apply andb_prop in H. destruct H as [H1 H2]. destruct g as [|d g].
    + simpl. destruct (tval t') as [|d r]; [discriminate|]. simpl. exact H2.
    + simpl. simpl in H1. apply andb_prop in H1. destruct H1 as [H1 _]. apply glue_ws; assumption.
Qed.

(* layout invariance: the token stream of a rendered token list is that list, whatever the layout *)
Lemma render_tokens : forall l prev last, layout_ok prev l last = true -> tokens (render l last) = map snd l.
Proof.
  induction l as [|[g t] l IH]; intros prev last H.
  - simpl in *. rewrite tokens_step. rewrite <- (app_nil_r last). rewrite (next_struct_ws last [] H). reflexivity.
  - simpl in H. apply andb_prop in H. destruct H as [H H4]. apply andb_prop in H. destruct H as [H H3].
    apply andb_prop in H. destruct H as [H1 _].
    simpl. rewrite tokens_step. rewrite (next_struct_ws g _ H1).
    destruct (next_struct_lexeme t (render l last) H3 (layout_follow _ _ _ H3 H4)) as [E N].
    rewrite E, N. f_equal. eapply IH. exact H4.
Qed.

Lemma lexer_layout_invariant : forall toks gaps1 gaps2 last1 last2,
  List.length gaps1 = List.length toks -> List.length gaps2 = List.length toks ->
  layout_ok None (combine gaps1 toks) last1 = true -> layout_ok None (combine gaps2 toks) last2 = true ->
  tokens (render (combine gaps1 toks) last1) = tokens (render (combine gaps2 toks) last2).
Proof.
  intros toks g1 g2 l1 l2 L1 L2 H1 H2. rewrite (render_tokens _ _ _ H1), (render_tokens _ _ _ H2).
  assert (A : forall (g : list bytes), List.length g = List.length toks -> map snd (combine g toks) = toks).
  { clear. induction toks as [|t toks IH]; intros [|x g] H; simpl in *; try discriminate; auto. f_equal. apply IH. lia. }
  rewrite (A _ L1), (A _ L2). reflexivity.
Qed.

(* ---------- quoted text is opaque ---------- *)
Lemma is_quote_cases : forall q, is_quote q = true -> q = 39 \/ q = 34 \/ q = 96.
Proof.
  intros q H. unfold is_quote in H.
  destruct (N.eqb q 39) eqn:E1; [apply N.eqb_eq in E1; auto|].
  destruct (N.eqb q 34) eqn:E2; [apply N.eqb_eq in E2; auto|].
  destruct (N.eqb q 96) eqn:E3; [apply N.eqb_eq in E3; auto|]. discriminate.
Qed.

Lemma lex1_quote : forall q r, is_quote q = true -> lex1 q r = Some (lex_quoted (quote_type q) q r).
Proof. intros q r H. destruct (is_quote_cases _ H) as [HQ|[HQ|HQ]]; subst q; reflexivity. Qed.

(* whatever follows an opening quote, the token produced is a string / quoted identifier that starts
   with the quote: no byte sequence inside quotes yields a keyword (or any other) token *)
Lemma lexer_literal_opaque_any : forall q r, is_quote q = true ->
  exists t r', lex1 q r = Some (t, r') /\ ttype t = quote_type q /\ is_kw_type (ttype t) = false
               /\ exists body, tval t = q :: body.
Proof.
  intros q r H. rewrite (lex1_quote _ _ H). unfold lex_quoted.
  assert (K : is_kw_type (quote_type q) = false) by (destruct (is_quote_cases _ H) as [HQ|[HQ|HQ]]; subst q; reflexivity).
  destruct (span (in_quote q) r) as [body r1]. destruct r1 as [|c r2]; [|destruct (N.eqb c q)];
    eexists; eexists; (split; [reflexivity|]); simpl; (split; [reflexivity|]); (split; [exact K|]); eexists; reflexivity.
Qed.

(* a closed literal is one token, and lexing resumes right after the closing quote *)
Lemma lexer_literal_opaque : forall q body r, is_quote q = true -> forallb (in_quote q) body = true ->
  tokens (q :: body ++ q :: r) = mkTok (quote_type q) (q :: body ++ [q]) :: tokens r.
Proof.
  intros q body r H Hb. rewrite tokens_step.
  assert (E : next_struct (q :: body ++ q :: r) = (mkTok (quote_type q) (q :: body ++ [q]), r)).
  { assert (W : is_ws q = false /\ N.eqb q 0 = false) by (destruct (is_quote_cases _ H) as [HQ|[HQ|HQ]]; subst q; split; reflexivity).
    destruct W as [W Z]. simpl. rewrite W, Z. rewrite (lex1_quote _ _ H). unfold lex_quoted.
    rewrite (span_exact (in_quote q) body (q :: r) Hb (in_quote_self q)). rewrite N.eqb_refl. reflexivity. }
  rewrite E.
  assert (N : is_eof (mkTok (quote_type q) (q :: body ++ [q])) = false) by (destruct (is_quote_cases _ H) as [HQ|[HQ|HQ]]; subst q; reflexivity).
  rewrite N. reflexivity.
Qed.
