(* C19 — "Emit returns only after a successful send or a counted drop", and the race in which the expanding
   producer loses the slots it has just added to the other producers (Model/Ingest.v).

   expandDataChannel and the send that follows it are two critical sections (IgSw, then IgSd at stage 1): between
   them every other producer may send. When the expansion added no more slots than there are competing Emit
   calls, the expander's second send fails; the model continues with the retry timers (IgWait 0) and finally
   counts the row. *)
From Coq Require Import List Arith Bool PeanoNat Lia.
From SV Require Import Model.Ingest Spec.IngestSpec Proofs.IngestProofs.
Import ListNotations.

(* One step, any configuration, any state: if producer p held row x before the step and holds nothing after it
   (its Emit has returned), then the step either put x into a channel (and counted nothing) or incremented
   input_dropped_count by exactly one for x (and touched no channel). There is no third way out of Emit. *)
Theorem ig_return_accounted c s a s' p pr pr' x :
  ig_step c s a = Some s' ->
  nth_error (ig_prods s) p = Some pr -> ig_hand pr = Some x ->
  nth_error (ig_prods s') p = Some pr' -> ig_hand pr' = None ->
  ((exists r, ig_push (ig_chans s) r x = Some (ig_chans s')) /\ ig_dropped s' = ig_dropped s /\
   ig_dropped_ids s' = ig_dropped_ids s)
  \/ (ig_chans s' = ig_chans s /\ ig_dropped s' = S (ig_dropped s) /\ ig_dropped_ids s' = ig_dropped_ids s ++ [x]).
Proof.
  intros H Hp Hx Hp' Hn.
  destruct a; unfold ig_step, ig_sent, ig_drop, ig_set_pc, ig_set_prods, ig_swap in H; ig_cases H; simpl in *.
  all: try (rewrite Hp in Hp'; injection Hp' as Hp'; subst pr'; congruence).
  all: match goal with
       | E : nth_error (ig_prods _) ?q = Some ?i |- _ =>
           rewrite (nth_error_upd _ _ _ _ p E) in Hp';
           destruct (p =? q) eqn:EQ;
           [ apply Nat.eqb_eq in EQ; subst q; assert (EI : i = pr) by congruence; subst i;
             injection Hp' as Hp'; subst pr'; simpl in Hn; try congruence
           | rewrite Hp in Hp'; injection Hp' as Hp'; subst pr'; congruence ]
       end.
  all: match goal with E : ig_hand _ = Some ?y, E' : ig_hand _ = Some ?z |- _ => assert (EY : y = z) by congruence; subst y end.
  all: try (left; split; [eexists; eassumption | split; reflexivity]).
  all: right; repeat split; reflexivity.
Qed.

(* the expand program after a failed send: at stages 0..3 the row stays in the producer's hand and nothing is
   counted (stage 0: on to the CAS; stages 1..3: on to the next retry timer); only the failed send of stage 4
   (after the third timer) returns, and it counts the row. In particular (k = 1) the send right after the
   producer's own expansion is not special: finding the channel full again, it neither returns nor drops. *)
Theorem ig_expand_failed_send c s p pr x k :
  ig_strat c = IgExpand ->
  nth_error (ig_prods s) p = Some pr -> ig_pc pr = IgTry k -> ig_hand pr = Some x ->
  ig_wlock s = None -> ig_push (ig_chans s) (ig_cur s) x = None ->
  exists s' pr', ig_step c s (IgSd p) = Some s' /\ nth_error (ig_prods s') p = Some pr' /\
    ig_chans s' = ig_chans s /\
    (if k <? 4
     then ig_hand pr' = Some x /\ ig_dropped s' = ig_dropped s /\
          ig_pc pr' = (if k =? 0 then IgExpBegin else IgWait (k - 1))
     else ig_hand pr' = None /\ ig_pc pr' = IgIdle /\ ig_dropped s' = S (ig_dropped s) /\
          ig_dropped_ids s' = ig_dropped_ids s ++ [x]).
Proof.
  intros Hs Hp Hpc Hx Hw Hf.
  unfold ig_step, ig_wl. rewrite Hp, Hpc, Hx, Hw, Hf, Hs.
  destruct (k =? 0) eqn:K0.
  - apply Nat.eqb_eq in K0; subst k. eexists; eexists; split; [reflexivity|]. simpl.
    rewrite (nth_error_upd _ _ _ _ p Hp), Nat.eqb_refl. simpl. repeat split; try reflexivity; try exact Hx.
  - destruct (k <? 4) eqn:K4.
    + eexists; eexists; split; [reflexivity|]. simpl.
      rewrite (nth_error_upd _ _ _ _ p Hp), Nat.eqb_refl. simpl. repeat split; try reflexivity; try exact Hx.
    + eexists; eexists; split; [reflexivity|]. simpl.
      rewrite (nth_error_upd _ _ _ _ p Hp), Nat.eqb_refl. simpl. repeat split; try reflexivity; try exact Hx.
Qed.

(* the race as a schedule: buffer 1, MinIncrement 1, two producers, consumer parked with the first row.
   P0 fills the buffer, P0's next Emit expands 1 -> 2 (migrating one row), P1's Emit takes the new slot before
   P0's second send, P0 retries three times and is counted; the consumer drains. *)
Definition ig_race_cfg : igcfg :=
  {| ig_strat := IgExpand; ig_cap0 := 1; ig_max := 0; ig_mininc := 1; ig_gnum := 1; ig_gden := 1;
     ig_tnum := 4; ig_tden := 5; ig_locked_recv := true |}.
Definition ig_race_schedule : list igstep :=
  [IgEm 0; IgSd 0; IgLd; IgRc; IgEm 0; IgSd 0;
   IgEm 0; IgSd 0; IgXb 0; IgXr 0; IgXl 0; IgMg 0; IgSw 0;
   IgEm 1; IgSd 1;
   IgSd 0; IgTo 0; IgSd 0; IgTo 0; IgSd 0; IgTo 0; IgSd 0;
   IgLd; IgRc; IgLd; IgRc].
Lemma ig_race_run :
  exists s, ig_run ig_race_cfg (ig_init ig_race_cfg 2) ig_race_schedule = Some s /\
            ig_processed s = [(0, 0); (0, 1); (1, 0)] /\ ig_dropped s = 1 /\ ig_dropped_ids s = [(0, 2)] /\
            ig_emitted s = 4 /\ ig_cap s = 2 /\ ig_queued s = [] /\ ig_inflight s = [] /\
            Forall ig_no_mt ig_race_schedule.
Proof. eexists; split; [vm_compute; reflexivity|]. vm_compute. repeat split. repeat constructor. Qed.

(* ... and the state right after P1 took the slot: P0 is at stage 1 with its row, the channel is full *)
Lemma ig_race_lost :
  exists s pr, ig_run ig_race_cfg (ig_init ig_race_cfg 2) (firstn 15 ig_race_schedule) = Some s /\
               nth_error (ig_prods s) 0 = Some pr /\ ig_pc pr = IgTry 1 /\ ig_hand pr = Some (0, 2) /\
               ig_len s = 2 /\ ig_cap s = 2 /\ ig_push (ig_chans s) (ig_cur s) (0, 2) = None.
Proof. eexists; eexists; split; [vm_compute; reflexivity|]. vm_compute. repeat split. Qed.
