(* C03: the algebra behind the float64 error budget of the variance family (Spec/AggSpec.v fl_slack) and the
   elementary properties of the comparison with a slack. *)
From Coq Require Import Lia Setoid Morphisms Field Qfield Qabs.
From SV Require Import Model.Agg Spec.AggSpec Proofs.AggProofs.
Local Open Scope Q_scope.

(* A second pass around a point c that is not exactly the mean overshoots the sum of squared deviations by
   n (c - mu)^2: the error of the mean enters the two-pass variance in second order only. *)
Lemma two_pass_shifted_mean : forall l c, l <> [] ->
  qsum (map (fun x => (x - c) * (x - c)) l) == sqdev l + qnat (length l) * ((c - mean l) * (c - mean l)).
Proof.
  intros l c Hl. unfold sqdev. rewrite !sqdev_any. unfold mean.
  destruct l as [|x l]; [congruence|].
  pose proof (qnat_S_neq0 (length l)) as N. cbn [length]. field. exact N.
Qed.

(* ... so the second pass never undershoots, whatever point it is taken around *)
Lemma two_pass_never_below : forall l c, l <> [] ->
  sqdev l <= qsum (map (fun x => (x - c) * (x - c)) l).
Proof.
  intros l c Hl. rewrite (two_pass_shifted_mean l c Hl).
  rewrite <- (Qplus_0_r (sqdev l)) at 1. apply Qplus_le_compat; [apply Qle_refl|].
  apply Qmult_le_0_compat; [apply qnat_nonneg|].
  set (d := c - mean l). destruct (Qlt_le_dec d 0) as [H|H].
  - setoid_replace (d * d) with ((- d) * (- d)) by ring.
    assert (0 <= - d) by (apply (Qopp_le_compat d 0), Qlt_le_weak, H).
    apply Qmult_le_0_compat; assumption.
  - apply Qmult_le_0_compat; assumption.
Qed.

(* the one-pass formula is the same number over the rationals: the model cannot tell the two algorithms apart, the
   difference is one of float64 rounding only (hence the slack-bounded comparison on large-offset inputs) *)
Lemma one_pass_same_rational : forall l, l <> [] ->
  sqdev l == qsum (map (fun x => x * x) l) - qsum l * qsum l / qnat (length l).
Proof. intros l Hl. exact (sqdev_alt l Hl). Qed.

(* ---------- the slack ---------- *)
Lemma qmaxq_nonneg_r : forall a b, 0 <= b -> 0 <= qmaxq a b.
Proof.
  intros a b Hb. unfold qmaxq. destruct (Qle_bool a b) eqn:E; [exact Hb|].
  destruct (Qlt_le_dec a 0) as [H|H]; [|exact H].
  exfalso. assert (Qle_bool a b = true); [|congruence].
  apply Qle_bool_iff. apply Qle_trans with 0; [apply Qlt_le_weak, H|exact Hb].
Qed.
Lemma maxabs_nonneg : forall l, 0 <= maxabs l.
Proof.
  induction l as [|x l IH]; [apply Qle_refl|]. cbn [maxabs fold_right]. apply qmaxq_nonneg_r. exact IH.
Qed.
Lemma maxabs_bounds : forall l x, In x l -> Qabs x <= maxabs l.
Proof.
  induction l as [|y l IH]; intros x Hx; [destruct Hx|].
  cbn [maxabs fold_right]. fold (maxabs l). unfold qmaxq.
  destruct (Qle_bool (Qabs y) (maxabs l)) eqn:E.
  - apply Qle_bool_iff in E. destruct Hx as [->|Hx]; [exact E|apply IH, Hx].
  - assert (L : maxabs l <= Qabs y).
    { destruct (Qlt_le_dec (maxabs l) (Qabs y)) as [H|H]; [apply Qlt_le_weak, H|].
      apply Qle_bool_iff in H. congruence. }
    destruct Hx as [->|Hx]; [apply Qle_refl|]. apply Qle_trans with (maxabs l); [apply IH, Hx|exact L].
Qed.
Lemma fl_eps_pos : 0 < fl_eps. Proof. reflexivity. Qed.
Lemma two_pass_slack_nonneg : forall l, 0 <= two_pass_slack l.
Proof.
  intros l. unfold two_pass_slack. rewrite !Qred_correct.
  assert (D : 0 <= maxabs l * fl_eps).
  { apply Qmult_le_0_compat; [apply maxabs_nonneg|apply Qlt_le_weak, fl_eps_pos]. }
  apply Qmult_le_0_compat; [discriminate|]. apply Qmult_le_0_compat; exact D.
Qed.
Lemma qrange_nonneg : forall l, 0 <= qrange l.
Proof.
  intros [|x l]; [apply Qle_refl|]. cbn [qrange].
  destruct (least_spec l x) as (_ & L & _). destruct (greatest_spec l x) as (_ & G & _).
  unfold Qminus. rewrite <- (Qplus_opp_r (least x l)).
  apply Qplus_le_compat; [|apply Qle_refl]. apply Qle_trans with x; assumption.
Qed.
Lemma welford_slack_nonneg : forall l, 0 <= welford_slack l.
Proof.
  intros l. unfold welford_slack. rewrite !Qred_correct.
  assert (E : 0 <= qnat (length l + 4) * maxabs l * fl_eps).
  { apply Qmult_le_0_compat; [|apply Qlt_le_weak, fl_eps_pos].
    apply Qmult_le_0_compat; [apply qnat_nonneg|apply maxabs_nonneg]. }
  set (e := qnat (length l + 4) * maxabs l * fl_eps) in *.
  apply Qmult_le_0_compat; [discriminate|].
  rewrite <- (Qplus_0_r 0). apply Qplus_le_compat.
  - apply Qmult_le_0_compat; [|apply qrange_nonneg]. apply Qmult_le_0_compat; [discriminate|exact E].
  - apply Qmult_le_0_compat; exact E.
Qed.
Lemma fl_slack_nonneg : forall f vs, 0 <= fl_slack f vs.
Proof.
  intros f vs. destruct f; cbn [fl_slack];
    first [apply two_pass_slack_nonneg | apply welford_slack_nonneg | apply Qle_refl].
Qed.
(* only the variance family is given any slack: every other aggregate keeps the comparison it had *)
Lemma fl_slack_only_variance : forall f vs,
  match f with AStdDev | AStdDevS | AVar | AVarS | WStdDev | WStdDevS | WVar | WVarS => True | _ => fl_slack f vs = 0 end.
Proof. intros f vs. destruct f; cbn [fl_slack]; exact I || reflexivity. Qed.

(* ---------- the comparison with a slack: slack 0 is the old comparison, more slack accepts more ---------- *)
Lemma close_s_zero : forall ex r q, close_s ex 0 r q = close ex r q.
Proof.
  intros ex r q. unfold close_s, close. destruct ex; [reflexivity|].
  apply eq_true_iff_eq. rewrite !Qle_bool_iff. rewrite Qplus_0_r. reflexivity.
Qed.
Lemma matches_s_zero : forall ex o r, matches_s ex 0 o r = matches ex o r.
Proof.
  intros ex o r. destruct o as [v|l], r; cbn [matches_s matches]; try reflexivity;
    destruct v; try reflexivity; rewrite close_s_zero; reflexivity.
Qed.
Lemma close_s_mono : forall ex s s' r q, s <= s' -> close_s ex s r q = true -> close_s ex s' r q = true.
Proof.
  intros ex s s' r q Hs. unfold close_s. destruct ex; [tauto|].
  rewrite !Qle_bool_iff. intros H. apply Qle_trans with (Qabs q * tol + slack + s); [exact H|].
  apply Qplus_le_compat; [apply Qle_refl|exact Hs].
Qed.
Lemma matches_s_mono : forall ex s s' o r, s <= s' -> matches_s ex s o r = true -> matches_s ex s' o r = true.
Proof.
  intros ex s s' o r Hs. destruct o as [v|l], r; cbn [matches_s]; try tauto;
    destruct v; try tauto.
  - apply close_s_mono, Hs.
  - intros H. apply andb_prop in H. destruct H as [H1 H2]. rewrite H1. cbn [andb].
    revert H2. apply close_s_mono, Hs.
Qed.
(* an exact aggregate (sum, min, max, count, median, percentile) is compared exactly whatever the slack *)
Lemma close_s_exact : forall s r q, close_s true s r q = Qeq_bool r q.
Proof. reflexivity. Qed.
