(* C02 with the idle-source mechanism on (IDLETIMEOUT > 0): every watermark the trigger goroutine receives is either
   (an accepted event's timestamp) - ooo, or (the clock of a tick) - ooo for a tick at which more than the idle timeout
   had passed since the arrival of some event; a window fires for the first time only under such a watermark. *)
From Coq Require Import Lia Arith.
From SV Require Import Model.Tumbling Proofs.TumblingProofs Proofs.TumblingComplete Proofs.TumblingWatermark.

Section OriginIdle.
  Variable c : cfg.
  Variable O : Z -> Prop.       (* admissible watermark values *)
  Variable C : Z -> Prop.       (* "l is the wall clock at which some event arrived" *)

  Definition InvI (s : st) : Prop :=
    oall O (cur (w s)) /\ Forall O (chan (w s)) /\ oall O (pend s) /\
    (forall m, maxEv (w s) = Some m -> O (m - ooo c)) /\
    (forall l, lastEv (w s) = Some l -> C l).

  Definition op_origI (o : op) : Prop :=
    match o with
    | Add _ ts now => C now /\ ((now + ooo c + day <? ts) = false -> O (ts - ooo c))
    | Tick now => forall l, C l -> 0 < idle c -> idle c < now - l -> O (now - ooo c)
    | _ => True
    end.

  Lemma send_lastEv w : lastEv (send w) = lastEv w.
  Proof. unfold send. destruct (cur w); [destruct (_ && _)|]; reflexivity. Qed.

  Lemma uet_I now ts w :
    C now -> ((now + ooo c + day <? ts) = false -> O (ts - ooo c)) ->
    oall O (cur w) -> Forall O (chan w) -> (forall m, maxEv w = Some m -> O (m - ooo c)) ->
    let w' := update_event_time (ooo c) now ts w in
    oall O (cur w') /\ Forall O (chan w') /\ (forall m, maxEv w' = Some m -> O (m - ooo c)) /\
    (forall l, lastEv w' = Some l -> C l).
  Proof.
    intros Hn Hop Hc Hch Hm.
    destruct (uet_O c O now ts w Hop Hc Hch Hm) as (A & B & D).
    split; [exact A|]. split; [exact B|]. split; [exact D|].
    unfold update_event_time. destruct (now + ooo c + day <? ts); cbn [lastEv].
    - intros l H. inversion H; subst. exact Hn.
    - rewrite send_lastEv. match goal with |- context[if ?b then _ else _] => destruct b end; cbn [lastEv]; intros l H; inversion H; subst; exact Hn.
  Qed.

  Lemma tick_I now w :
    (forall l, C l -> 0 < idle c -> idle c < now - l -> O (now - ooo c)) ->
    oall O (cur w) -> Forall O (chan w) -> (forall m, maxEv w = Some m -> O (m - ooo c)) ->
    (forall l, lastEv w = Some l -> C l) ->
    let w' := tick (ooo c) (idle c) now w in
    oall O (cur w') /\ Forall O (chan w') /\ (forall m, maxEv w' = Some m -> O (m - ooo c)) /\
    (forall l, lastEv w' = Some l -> C l).
  Proof.
    intros Hop Hc Hch Hm Hl. unfold tick. destruct (maxEv w) as [m|] eqn:Em; [|cbn; rewrite Em; auto].
    assert (Hnw : O (match lastEv w with
                     | Some l => if (0 <? idle c) && (idle c <? now - l) then now - ooo c else m - ooo c
                     | None => m - ooo c end)).
    { destruct (lastEv w) as [l|] eqn:El; [|apply Hm; reflexivity].
      destruct ((0 <? idle c) && (idle c <? now - l)) eqn:E; [|apply Hm; reflexivity].
      apply andb_prop in E as [E1 E2]. apply Z.ltb_lt in E1, E2. apply (Hop l); auto. }
    cbn zeta. rewrite send_cur, send_maxEv, send_lastEv. cbn [cur maxEv chan lastEv].
    split; [apply raise_O; assumption|]. split; [apply send_O; cbn; [apply raise_O; assumption|exact Hch]|].
    split; [exact Hm|exact Hl].
  Qed.

  Lemma step_I s o s' evs :
    InvI s -> op_origI o -> step c s o = (s', evs) ->
    InvI s' /\ (forall x, In (EvDB x) evs -> O x) /\
    (forall b, In (EvBatch b) evs -> b_late b = false -> exists x, O x /\ b_end b <= x).
  Proof.
    intros (Hc & Hch & Hp & Hm & Hl) Hop. destruct o as [id ts now|id| | |now]; cbn [step].
    - unfold add. destruct (add_core c id ts now s) as [s1 bs] eqn:E. intros [= <- <-].
      destruct Hop as [Hn Hop].
      destruct (uet_I now ts (w s) Hn Hop Hc Hch Hm) as (A & B & D & F).
      destruct (add_core_w _ _ _ _ _ _ _ E) as [Hw1 Hw2]. split; [|split].
      + unfold InvI. rewrite Hw1, Hw2. auto.
      + intros x [H|H]; [discriminate|]. apply in_map_iff in H as [b [Hb _]]. discriminate.
      + intros b [H|H]; [discriminate|]. apply in_map_iff in H as [b' [Hb Hin]]. inversion Hb; subst b'.
        pose proof (add_core_late c _ _ _ _ _ _ E) as Hla. rewrite Forall_forall in Hla. rewrite (Hla b Hin). discriminate.
    - intros [= <- <-]. split; [unfold InvI; auto|]. split; [intros x [H|[]]; discriminate|intros b [H|[]]; discriminate].
    - destruct (pend s) eqn:Ep.
      + intros [= <- <-]. split; [unfold InvI; rewrite Ep; auto|]. split; [intros x []|intros b []].
      + unfold pop_chan. destruct (chan (w s)) as [|y r] eqn:Ec; intros [= <- <-].
        * split; [unfold InvI; rewrite Ep, Ec; auto|]. split; [intros x [H|[]]; discriminate|intros b [H|[]]; discriminate].
        * inversion Hch; subst. split; [unfold InvI; cbn; auto|]. split.
          -- intros x [H|[]]. inversion H; subst. assumption.
          -- intros b [H|[]]; discriminate.
    - unfold fire_step. destruct (pend s) as [wmk|] eqn:Ep.
      2:{ intros [= <- <-]. split; [unfold InvI; rewrite Ep; auto|]. split; [intros x []|intros b []]. }
      destruct (init s); cbn [negb].
      2:{ intros [= <- <-]. split; [unfold InvI; cbn; auto|]. split; [intros x [H|[]]; discriminate|intros b [H|[]]; discriminate]. }
      destruct (minl _) as [a|] eqn:Em.
      + intros [= <- <-]. split; [unfold InvI; cbn; auto|]. split; [intros x [H|[]]; discriminate|].
        intros b [H|[]] _. inversion H; subst b. cbn. exists wmk. split; [exact Hp|].
        apply minl_in in Em. unfold cand in Em. apply filter_In in Em as [_ Hc']. apply andb_true_iff in Hc' as [_ Hc'].
        apply Z.leb_le in Hc'. exact Hc'.
      + intros [= <- <-]. split; [unfold InvI, close_expired; cbn; auto|]. split; [intros x [H|[]]; discriminate|intros b [H|[]]; discriminate].
    - intros [= <- <-]. split; [|split; [intros x [H|[]]; discriminate|intros b [H|[]]; discriminate]].
      destruct (tick_I now (w s) Hop Hc Hch Hm Hl) as (A & B & D & F).
      unfold InvI, set_w. cbn. auto.
  Qed.

  Lemma run_I h : forall s s' tr,
    InvI s -> Forall op_origI h -> run c s h = (s', tr) ->
    (forall x, In (EvDB x) tr -> O x) /\
    (forall b, In (EvBatch b) tr -> b_late b = false -> exists x, O x /\ b_end b <= x).
  Proof.
    induction h as [|o rest IH]; intros s s' tr Hinv Hh; cbn [run].
    - intros [= <- <-]. split; [intros x []|intros b []].
    - destruct (step c s o) as [s1 e1] eqn:E1. destruct (run c s1 rest) as [s2 e2] eqn:E2. intros [= <- <-].
      inversion Hh; subst. destruct (step_I _ _ _ _ Hinv H1 E1) as (Hi1 & Hd1 & Hb1).
      destruct (IH _ _ _ Hi1 H2 E2) as (Hd2 & Hb2). split.
      + intros x Hx. apply in_app_or in Hx as [Hx|Hx]; auto.
      + intros b Hb Hla. apply in_app_or in Hb as [Hb|Hb]; auto.
  Qed.
End OriginIdle.

(* the watermark values the statement allows: an accepted event's timestamp - ooo, or the clock of a tick - ooo when
   the idle timeout had elapsed since the arrival (wall clock) of some event *)
Definition arrival (h : list op) (l : Z) : Prop := exists id ts, In (Add id ts l) h.
Definition idle_wm (c : cfg) (h : list op) (x : Z) : Prop :=
  0 < idle c /\ exists now l, In (Tick now) h /\ arrival h l /\ idle c < now - l /\ x = now - ooo c.

Theorem tumbling_no_early_fire_idle c h s tr :
  run c st0 h = (s, tr) ->
  (forall x, In (EvDB x) tr -> accepted_wm c h x \/ idle_wm c h x) /\
  (forall b, In (EvBatch b) tr -> b_late b = false ->
     (exists id ts now, In (Add id ts now) h /\ (now + ooo c + day <? ts) = false /\ b_end b + ooo c <= ts) \/
     (0 < idle c /\ exists now l, In (Tick now) h /\ arrival h l /\ idle c < now - l /\ b_end b + ooo c <= now)).
Proof.
  intros Hrun.
  set (O := fun x => accepted_wm c h x \/ idle_wm c h x).
  assert (Hops : Forall (op_origI c O (arrival h)) h).
  { apply Forall_forall. intros o Ho. destruct o as [id ts now| | | |now]; cbn; auto.
    - split; [exists id, ts; exact Ho|]. intros Hs. left. exists id, ts, now. auto.
    - intros l Hl Hi Hlt. right. split; [exact Hi|]. exists now, l. auto. }
  assert (Hinv : InvI c O (arrival h) st0).
  { unfold InvI. cbn. repeat split; auto; discriminate. }
  destruct (run_I c O (arrival h) h _ _ _ Hinv Hops Hrun) as [A B]. split; [exact A|].
  intros b Hb Hl. destruct (B b Hb Hl) as [x [[(id & ts & now & H1 & H2 & ->)|(Hi & now & l & H1 & H2 & H3 & ->)] Hle]].
  - left. exists id, ts, now. repeat split; auto. lia.
  - right. split; [exact Hi|]. exists now, l. repeat split; auto. lia.
Qed.
