(* C07: what the columns of a result row contain — SELECT items equal the arithmetic over the group's
   aggregate values (post-aggregation templates, placeholders), the rewritten HAVING condition over the
   hidden columns decides the relational HAVING condition, rows of different groups differ in a group
   column. *)
From Coq Require Import QArith Lia.
From SV Require Import Model.PostAgg Spec.PostAggSpec Proofs.PostAggSort Proofs.PostAggProofs.
Local Open Scope nat_scope.

Lemma pa_lookup_app : forall c a b,
  pa_lookup c (a ++ b) = match pa_lookup c a with Some v => Some v | None => pa_lookup c b end.
Proof.
  intros c. induction a as [|[c' v] a IH]; intro b; [reflexivity|]. simpl.
  destruct (pa_col_eqb c c'); [reflexivity|apply IH].
Qed.

Lemma pa_lookup_absent : forall c r,
  (forall c' v, In (c', v) r -> pa_col_eqb c c' = false) -> pa_lookup c r = None.
Proof.
  intros c. induction r as [|[c' v] r IH]; intro H; [reflexivity|]. simpl.
  rewrite (H c' v (or_introl eq_refl)). apply IH. intros c'' v' Hin. apply (H c'' v'). right. assumption.
Qed.

Lemma pa_lookup_some_in : forall c r v, pa_lookup c r = Some v -> In (c, v) r.
Proof.
  intros c. induction r as [|[c' v'] r IH]; intros v H; [discriminate|]. simpl in H.
  destruct (pa_col_eqb c c') eqn:E.
  - apply pa_col_eqb_eq in E. inversion H. subst. left. reflexivity.
  - right. apply IH. assumption.
Qed.

(* an enumeration that yields at most one (PaItem i, _) entry per element *)
Lemma pa_lookup_item_enum : forall (sel : pa_pexp -> option pa_val) (F : nat -> pa_pexp -> pa_row),
  (forall i p, F i p = match sel p with Some v => [(PaItem i, v)] | None => [] end) ->
  forall items n i,
  pa_lookup (PaItem i) (flat_map (fun x => x) (pa_enum F n items))
  = if Nat.ltb i n then None
    else match nth_error items (i - n) with Some p => sel p | None => None end.
Proof.
  intros sel F HF. induction items as [|p tl IH]; intros n i; simpl.
  - destruct (Nat.ltb i n); [reflexivity|]. destruct (i - n); reflexivity.
  - rewrite pa_lookup_app. rewrite IH. rewrite HF.
    destruct (sel p) as [v|] eqn:Es; simpl.
    + destruct (Nat.eqb i n) eqn:En.
      * apply Nat.eqb_eq in En. subst i. rewrite Nat.ltb_irrefl, Nat.sub_diag. simpl. symmetry. assumption.
      * apply Nat.eqb_neq in En.
        destruct (Nat.ltb i (S n)) eqn:E1; destruct (Nat.ltb i n) eqn:E2; try reflexivity.
        -- apply Nat.ltb_lt in E1. apply Nat.ltb_ge in E2. lia.
        -- apply Nat.ltb_ge in E1. apply Nat.ltb_lt in E2. lia.
        -- apply Nat.ltb_ge in E1. replace (i - n) with (S (i - S n)) by lia. reflexivity.
    + destruct (Nat.ltb i (S n)) eqn:E1; destruct (Nat.ltb i n) eqn:E2; try reflexivity.
      * apply Nat.ltb_lt in E1. apply Nat.ltb_ge in E2. assert (i = n) by lia. subst i.
        rewrite Nat.sub_diag. simpl. symmetry. assumption.
      * apply Nat.ltb_ge in E1. apply Nat.ltb_lt in E2. lia.
      * apply Nat.ltb_ge in E1. replace (i - n) with (S (i - S n)) by lia. reflexivity.
Qed.

(* group columns: lookup (PaGroup j) finds the j-th key value *)
Lemma pa_lookup_group_enum : forall key n j,
  pa_lookup (PaGroup j) (pa_enum (fun j v => (PaGroup j, v)) n key)
  = if Nat.ltb j n then None else nth_error key (j - n).
Proof.
  induction key as [|v tl IH]; intros n j; simpl.
  - destruct (Nat.ltb j n); [reflexivity|]. destruct (j - n); reflexivity.
  - rewrite IH. destruct (Nat.eqb j n) eqn:En.
    + apply Nat.eqb_eq in En. subst j. rewrite Nat.ltb_irrefl, Nat.sub_diag. reflexivity.
    + apply Nat.eqb_neq in En.
      destruct (Nat.ltb j (S n)) eqn:E1; destruct (Nat.ltb j n) eqn:E2; try reflexivity.
      * apply Nat.ltb_lt in E1. apply Nat.ltb_ge in E2. lia.
      * apply Nat.ltb_ge in E1. apply Nat.ltb_lt in E2. lia.
      * apply Nat.ltb_ge in E1. replace (j - n) with (S (j - S n)) by lia. reflexivity.
Qed.

Lemma pa_lookup_hidden_enum : forall (f : pa_call -> pa_val) hc n m,
  pa_lookup (PaHidden m) (pa_enum (fun n c => (PaHidden n, f c)) n hc)
  = if Nat.ltb m n then None else option_map f (nth_error hc (m - n)).
Proof.
  intros f. induction hc as [|c tl IH]; intros n m; simpl.
  - destruct (Nat.ltb m n); [reflexivity|]. destruct (m - n); reflexivity.
  - rewrite IH. destruct (Nat.eqb m n) eqn:En.
    + apply Nat.eqb_eq in En. subst m. rewrite Nat.ltb_irrefl, Nat.sub_diag. reflexivity.
    + apply Nat.eqb_neq in En.
      destruct (Nat.ltb m (S n)) eqn:E1; destruct (Nat.ltb m n) eqn:E2; try reflexivity.
      * apply Nat.ltb_lt in E1. apply Nat.ltb_ge in E2. lia.
      * apply Nat.ltb_ge in E1. apply Nat.ltb_lt in E2. lia.
      * apply Nat.ltb_ge in E1. replace (m - n) with (S (m - S n)) by lia. reflexivity.
Qed.

(* the four parts of a base row *)
Definition pa_part_g (g : pa_group) : pa_row := pa_enum (fun j v => (PaGroup j, v)) 0 (fst g).
Definition pa_part_pl (q : pa_query) (g : pa_group) : pa_row :=
  flat_map (fun x => x)
    (pa_enum (fun i p => match pa_is_plain p with
                         | Some c => [(PaItem i, PaNum (pa_agg_val c (snd g)))]
                         | None => []
                         end) 0 (pq_items q)).
Definition pa_part_h (hc : list pa_call) (g : pa_group) : pa_row :=
  pa_enum (fun n c => (PaHidden n, PaNum (pa_agg_val c (snd g)))) 0 hc.

Lemma pa_base_row_parts : forall q hc g,
  pa_base_row q hc g = pa_part_g g ++ pa_part_pl q g ++ pa_place_cols (pq_items q) (snd g) ++ pa_part_h hc g.
Proof. reflexivity. Qed.

Lemma pa_part_g_cols : forall g c v, In (c, v) (pa_part_g g) -> exists j, c = PaGroup j.
Proof.
  intros g c v H. apply pa_enum_in in H. destruct H as [i [x [_ E]]]. inversion E. eauto.
Qed.
Lemma pa_part_pl_cols : forall q g c v, In (c, v) (pa_part_pl q g) -> exists i, c = PaItem i.
Proof.
  intros q g c v H. apply in_flat_map in H. destruct H as [l [Hl Hin]]. apply pa_enum_in in Hl.
  destruct Hl as [i [p [_ E]]]. subst l. destruct (pa_is_plain p); [|destruct Hin].
  destruct Hin as [E|[]]. inversion E. eauto.
Qed.
Lemma pa_part_h_cols : forall hc g c v, In (c, v) (pa_part_h hc g) -> exists n, c = PaHidden n.
Proof.
  intros hc g c v H. apply pa_enum_in in H. destruct H as [i [x [_ E]]]. inversion E. eauto.
Qed.
Lemma pa_place_cols_cols : forall items g c v, In (c, v) (pa_place_cols items g) -> exists k, c = PaPlace k.
Proof.
  intros items g c v H. apply in_flat_map in H. destruct H as [p [_ Hin]].
  destruct (pa_is_plain p); [destruct Hin|]. apply in_map_iff in Hin. destruct Hin as [c' [E _]].
  inversion E. eauto.
Qed.

(* ------------------------------------------------------------------ placeholders *)
Definition pa_place_calls (items : list pa_pexp) : list pa_call :=
  flat_map (fun p => match pa_is_plain p with Some _ => [] | None => pa_calls p end) items.

Lemma pa_place_cols_map : forall items g,
  pa_place_cols items g = map (fun c => (PaPlace c, PaNum (pa_agg_val c g))) (pa_place_calls items).
Proof.
  intros items g. unfold pa_place_cols, pa_place_calls. induction items as [|p tl IH]; [reflexivity|].
  simpl. rewrite map_app, IH. destruct (pa_is_plain p); reflexivity.
Qed.

Lemma pa_lookup_place_map : forall (f : pa_call -> Q) cs c rest,
  In c cs ->
  pa_lookup (PaPlace c) (map (fun c => (PaPlace c, PaNum (f c))) cs ++ rest) = Some (PaNum (f c)).
Proof.
  intros f. induction cs as [|c' tl IH]; intros c rest H; [destruct H|]. simpl.
  destruct (pa_call_eqb c c') eqn:E.
  - apply pa_call_eqb_eq in E. subst. reflexivity.
  - destruct H as [->|H]; [rewrite pa_call_eqb_refl in E; discriminate|]. apply IH. assumption.
Qed.

Lemma pa_lookup_place_base : forall q hc g p c,
  In p (pq_items q) -> pa_is_plain p = None -> In c (pa_calls p) ->
  pa_lookup (PaPlace c) (pa_base_row q hc g) = Some (PaNum (pa_agg_val c (snd g))).
Proof.
  intros q hc g p c Hp Hn Hc. rewrite pa_base_row_parts.
  rewrite pa_lookup_app, pa_lookup_absent.
  2:{ intros c' v Hin. apply pa_part_g_cols in Hin. destruct Hin as [j ->]. reflexivity. }
  rewrite pa_lookup_app, pa_lookup_absent.
  2:{ intros c' v Hin. apply pa_part_pl_cols in Hin. destruct Hin as [j ->]. reflexivity. }
  rewrite pa_place_cols_map. apply pa_lookup_place_map.
  unfold pa_place_calls. apply in_flat_map. exists p. split; [assumption|]. rewrite Hn. assumption.
Qed.

(* evaluating the template on the placeholders = the arithmetic over the aggregate values *)
Lemma pa_template_sem : forall r g p,
  (forall c, In c (pa_calls p) -> pa_lookup (PaPlace c) r = Some (PaNum (pa_agg_val c g))) ->
  pa_template_eval p r = pa_sem p g.
Proof.
  intros r g. induction p as [c|x|o x IHx y IHy|x IHx]; intro H; simpl.
  - rewrite (H c (or_introl eq_refl)). reflexivity.
  - reflexivity.
  - rewrite IHx, IHy; [reflexivity| |]; intros c Hc; apply H; simpl; apply in_or_app; auto.
  - apply IHx. assumption.
Qed.

Lemma pa_is_plain_some : forall p c, pa_is_plain p = Some c -> p = PaPAgg c.
Proof. destruct p; simpl; intros c' H; try discriminate. congruence. Qed.

Lemma pa_ltb0 : forall i, Nat.ltb i 0 = false.
Proof. intro i. reflexivity. Qed.

(* the value delivered for the i-th SELECT item of a group *)
Theorem pa_postagg_value : forall q hc g i p,
  nth_error (pq_items q) i = Some p ->
  pa_lookup (PaItem i) (pa_post_row q (pa_base_row q hc g)) = Some (pa_of_opt (pa_sem p (snd g))).
Proof.
  intros q hc g i p Hi. unfold pa_post_row.
  rewrite pa_lookup_delete by reflexivity.
  rewrite pa_lookup_app. rewrite pa_base_row_parts at 1.
  rewrite pa_lookup_app, pa_lookup_absent.
  2:{ intros c' v Hin. apply pa_part_g_cols in Hin. destruct Hin as [j ->]. reflexivity. }
  rewrite pa_lookup_app. unfold pa_part_pl.
  rewrite (pa_lookup_item_enum (fun p => match pa_is_plain p with
                                        | Some c => Some (PaNum (pa_agg_val c (snd g))) | None => None end)).
  2:{ intros i' p'. destruct (pa_is_plain p'); reflexivity. }
  rewrite pa_ltb0, Nat.sub_0_r, Hi.
  destruct (pa_is_plain p) as [c|] eqn:Epl.
  - apply pa_is_plain_some in Epl. subst p. reflexivity.
  - rewrite pa_lookup_app, pa_lookup_absent.
    2:{ intros c' v Hin. apply pa_place_cols_cols in Hin. destruct Hin as [k ->]. reflexivity. }
    rewrite pa_lookup_absent.
    2:{ intros c' v Hin. apply pa_part_h_cols in Hin. destruct Hin as [k ->]. reflexivity. }
    rewrite (pa_lookup_item_enum (fun p' => match pa_is_plain p' with
                                           | Some _ => None
                                           | None => Some (pa_of_opt (pa_template_eval p' (pa_base_row q hc g))) end)).
    2:{ intros i' p'. destruct (pa_is_plain p'); reflexivity. }
    rewrite pa_ltb0, Nat.sub_0_r, Hi, Epl.
    f_equal. f_equal. apply pa_template_sem. intros c Hc.
    apply (pa_lookup_place_base q hc g p c); [eapply nth_error_In; eassumption|assumption|assumption].
Qed.

(* ------------------------------------------------------------------ HAVING over hidden columns *)
(* the HAVING condition as written refers to group columns and SELECT items only *)
Fixpoint pa_hexp_src (e : pa_hexp) : Prop :=
  match e with
  | PaHCol (PaGroup _) | PaHCol (PaItem _) => True
  | PaHCol _ => False
  | PaHAgg _ | PaHLit _ => True
  | PaHBin _ x y => pa_hexp_src x /\ pa_hexp_src y
  end.
Fixpoint pa_hpred_src (p : pa_hpred) : Prop :=
  match p with
  | PaHCmp _ x y => pa_hexp_src x /\ pa_hexp_src y
  | PaHAnd p q | PaHOr p q => pa_hpred_src p /\ pa_hpred_src q
  | PaHCase _ es => Forall pa_hexp_src es
  | PaHCaseCmp _ _ es z => Forall pa_hexp_src es /\ pa_hexp_src z
  end.

Lemma pa_lookup_hidden_row : forall q hc g m,
  pa_lookup (PaHidden m) (pa_post_row q (pa_base_row q hc g))
  = option_map (fun c => PaNum (pa_agg_val c (snd g))) (nth_error hc m).
Proof.
  intros q hc g m. unfold pa_post_row. rewrite pa_lookup_delete by reflexivity.
  rewrite pa_lookup_app, pa_base_row_parts.
  rewrite pa_lookup_app, pa_lookup_absent.
  2:{ intros c' v Hin. apply pa_part_g_cols in Hin. destruct Hin as [j ->]. reflexivity. }
  rewrite pa_lookup_app, pa_lookup_absent.
  2:{ intros c' v Hin. apply pa_part_pl_cols in Hin. destruct Hin as [j ->]. reflexivity. }
  rewrite pa_lookup_app, pa_lookup_absent.
  2:{ intros c' v Hin. apply pa_place_cols_cols in Hin. destruct Hin as [j ->]. reflexivity. }
  unfold pa_part_h. rewrite (pa_lookup_hidden_enum (fun c => PaNum (pa_agg_val c (snd g)))).
  rewrite pa_ltb0, Nat.sub_0_r.
  destruct (nth_error hc m); [reflexivity|]. simpl.
  apply pa_lookup_absent. intros c' v Hin. apply in_flat_map in Hin. destruct Hin as [l [Hl Hin]].
  apply pa_enum_in in Hl. destruct Hl as [i [p [_ E]]]. subst l.
  destruct (pa_is_plain p); [destruct Hin|]. destruct Hin as [E|[]]. inversion E. reflexivity.
Qed.

Lemma pa_lookup_group_row : forall q hc g j,
  pa_lookup (PaGroup j) (pa_post_row q (pa_base_row q hc g)) = nth_error (fst g) j.
Proof.
  intros q hc g j. unfold pa_post_row. rewrite pa_lookup_delete by reflexivity.
  rewrite pa_lookup_app, pa_base_row_parts. rewrite pa_lookup_app. unfold pa_part_g.
  rewrite pa_lookup_group_enum, pa_ltb0, Nat.sub_0_r.
  destruct (nth_error (fst g) j) eqn:E; [reflexivity|].
  rewrite pa_lookup_absent.
  2:{ intros c' v Hin. repeat (apply in_app_or in Hin; destruct Hin as [Hin|Hin]).
      - apply pa_part_pl_cols in Hin. destruct Hin as [k ->]. reflexivity.
      - apply pa_place_cols_cols in Hin. destruct Hin as [k ->]. reflexivity.
      - apply pa_part_h_cols in Hin. destruct Hin as [k ->]. reflexivity. }
  apply pa_lookup_absent. intros c' v Hin. apply in_flat_map in Hin. destruct Hin as [l [Hl Hin]].
  apply pa_enum_in in Hl. destruct Hl as [i [p [_ E']]]. subst l.
  destruct (pa_is_plain p); [destruct Hin|]. destruct Hin as [E'|[]]. inversion E'. reflexivity.
Qed.

Lemma pa_hx_exp_sem : forall q hc g e n pre post,
  pa_hexp_src e ->
  length pre = n -> hc = pre ++ snd (pa_hx_exp n e) ++ post ->
  pa_heval (fst (pa_hx_exp n e)) (pa_post_row q (pa_base_row q hc g)) = pa_hsem_exp (pq_items q) e g.
Proof.
  intros q hc g. induction e as [c|c|x|o x IHx y IHy]; intros n pre post Hsrc Hlen Hhc; simpl in *.
  - destruct c as [j|i|k|k|k]; try contradiction.
    + rewrite pa_lookup_group_row. reflexivity.
    + destruct (nth_error (pq_items q) i) as [p|] eqn:Ei.
      * rewrite (pa_postagg_value q hc g i p Ei). destruct (pa_sem p (snd g)); reflexivity.
      * destruct (pa_lookup (PaItem i) (pa_post_row q (pa_base_row q hc g))) as [v|] eqn:El; [|reflexivity].
        exfalso. apply pa_lookup_some_in in El. unfold pa_post_row in El. apply pa_delete_in in El.
        destruct El as [_ El]. apply nth_error_None in Ei.
        apply in_app_or in El. destruct El as [El|El].
        -- rewrite pa_base_row_parts in El. repeat (apply in_app_or in El; destruct El as [El|El]).
           ++ apply pa_part_g_cols in El. destruct El as [? El]. discriminate.
           ++ apply in_flat_map in El. destruct El as [l [Hl Hin]]. apply pa_enum_in in Hl.
              destruct Hl as [i' [p [Hn E]]]. subst l. destruct (pa_is_plain p); [|destruct Hin].
              destruct Hin as [E|[]]. inversion E. subst i.
              assert (i' < length (pq_items q)) by (apply nth_error_Some; rewrite Hn; discriminate). simpl in *. lia.
           ++ apply pa_place_cols_cols in El. destruct El as [? El]. discriminate.
           ++ apply pa_part_h_cols in El. destruct El as [? El]. discriminate.
        -- apply in_flat_map in El. destruct El as [l [Hl Hin]]. apply pa_enum_in in Hl.
           destruct Hl as [i' [p [Hn E]]]. subst l. destruct (pa_is_plain p); [destruct Hin|].
           destruct Hin as [E|[]]. inversion E. subst i.
           assert (i' < length (pq_items q)) by (apply nth_error_Some; rewrite Hn; discriminate). simpl in *. lia.
  - rewrite pa_lookup_hidden_row. subst hc. rewrite nth_error_app2 by lia.
    rewrite Hlen, Nat.sub_diag. reflexivity.
  - reflexivity.
  - destruct Hsrc as [Sx Sy].
    destruct (pa_hx_exp n x) as [x' cx] eqn:Ex.
    destruct (pa_hx_exp (n + length cx) y) as [y' cy] eqn:Ey. simpl in *.
    specialize (IHx n pre (cy ++ post) Sx Hlen). rewrite Ex in IHx. simpl in IHx.
    specialize (IHy (n + length cx) (pre ++ cx) post Sy). rewrite Ey in IHy. simpl in IHy.
    rewrite IHx, IHy; [reflexivity| | |].
    + rewrite app_length. lia.
    + rewrite Hhc. rewrite <- !app_assoc. reflexivity.
    + rewrite Hhc. rewrite <- !app_assoc. reflexivity.
Qed.

Lemma pa_hx_list_sem : forall q hc g es n pre post,
  Forall pa_hexp_src es ->
  length pre = n -> hc = pre ++ snd (pa_hx_list n es) ++ post ->
  map (fun e => pa_heval e (pa_post_row q (pa_base_row q hc g))) (fst (pa_hx_list n es))
  = map (fun e => pa_hsem_exp (pq_items q) e g) es.
Proof.
  intros q hc g. induction es as [|e es IH]; intros n pre post Hsrc Hlen Hhc; [reflexivity|].
  inversion Hsrc as [|e0 es0 Se Ses]; subst e0 es0. simpl in *.
  destruct (pa_hx_exp n e) as [e' ce] eqn:Ee.
  destruct (pa_hx_list (n + length ce) es) as [es' cs] eqn:Es. simpl in *.
  pose proof (pa_hx_exp_sem q hc g e n pre (cs ++ post) Se Hlen) as He. rewrite Ee in He. simpl in He.
  pose proof (IH (n + length ce) (pre ++ ce) post Ses) as Hl. rewrite Es in Hl. simpl in Hl.
  rewrite He, Hl; [reflexivity| | |].
  - rewrite app_length. lia.
  - rewrite Hhc. rewrite <- !app_assoc. reflexivity.
  - rewrite Hhc. rewrite <- !app_assoc. reflexivity.
Qed.

Lemma pa_hx_pred_sem : forall q hc g p n pre post,
  pa_hpred_src p ->
  length pre = n -> hc = pre ++ snd (pa_hx_pred n p) ++ post ->
  pa_hholds (fst (pa_hx_pred n p)) (pa_post_row q (pa_base_row q hc g)) = pa_hsem (pq_items q) p g.
Proof.
  intros q hc g. induction p as [o x y|p IHp r IHr|p IHp r IHr|ops es|o ops es z];
    intros n pre post Hsrc Hlen Hhc; simpl in *.
  5:{ destruct Hsrc as [Ses Sz].
      destruct (pa_hx_list n es) as [es' cs] eqn:Es.
      destruct (pa_hx_exp (n + length cs) z) as [z' cz] eqn:Ez. simpl in *.
      pose proof (pa_hx_list_sem q hc g es n pre (cz ++ post) Ses Hlen) as Hl. rewrite Es in Hl. simpl in Hl.
      pose proof (pa_hx_exp_sem q hc g z (n + length cs) (pre ++ cs) post Sz) as Hz. rewrite Ez in Hz. simpl in Hz.
      rewrite Hl, Hz; [reflexivity| | |].
      - rewrite app_length. lia.
      - rewrite Hhc. rewrite <- !app_assoc. reflexivity.
      - rewrite Hhc. rewrite <- !app_assoc. reflexivity. }
  4:{ destruct (pa_hx_list n es) as [es' cs] eqn:Es. simpl in *.
      pose proof (pa_hx_list_sem q hc g es n pre post Hsrc Hlen) as Hl. rewrite Es in Hl. simpl in Hl.
      rewrite Hl; [reflexivity|assumption]. }
  - destruct Hsrc as [Sx Sy].
    destruct (pa_hx_exp n x) as [x' cx] eqn:Ex.
    destruct (pa_hx_exp (n + length cx) y) as [y' cy] eqn:Ey. simpl in *.
    pose proof (pa_hx_exp_sem q hc g x n pre (cy ++ post) Sx Hlen) as Hx. rewrite Ex in Hx. simpl in Hx.
    pose proof (pa_hx_exp_sem q hc g y (n + length cx) (pre ++ cx) post Sy) as Hy. rewrite Ey in Hy. simpl in Hy.
    rewrite Hx, Hy; [reflexivity| | |].
    + rewrite app_length. lia.
    + rewrite Hhc. rewrite <- !app_assoc. reflexivity.
    + rewrite Hhc. rewrite <- !app_assoc. reflexivity.
  - destruct Hsrc as [Sp Sr].
    destruct (pa_hx_pred n p) as [p' cp] eqn:Ep.
    destruct (pa_hx_pred (n + length cp) r) as [r' cr] eqn:Er. simpl in *.
    pose proof (IHp n pre (cr ++ post) Sp Hlen) as Hp. rewrite Ep in Hp. simpl in Hp.
    pose proof (IHr (n + length cp) (pre ++ cp) post Sr) as Hr. rewrite Er in Hr. simpl in Hr.
    rewrite Hp, Hr; [reflexivity| | |].
    + rewrite app_length. lia.
    + rewrite Hhc. rewrite <- !app_assoc. reflexivity.
    + rewrite Hhc. rewrite <- !app_assoc. reflexivity.
  - destruct Hsrc as [Sp Sr].
    destruct (pa_hx_pred n p) as [p' cp] eqn:Ep.
    destruct (pa_hx_pred (n + length cp) r) as [r' cr] eqn:Er. simpl in *.
    pose proof (IHp n pre (cr ++ post) Sp Hlen) as Hp. rewrite Ep in Hp. simpl in Hp.
    pose proof (IHr (n + length cp) (pre ++ cp) post Sr) as Hr. rewrite Er in Hr. simpl in Hr.
    rewrite Hp, Hr; [reflexivity| | |].
    + rewrite app_length. lia.
    + rewrite Hhc. rewrite <- !app_assoc. reflexivity.
    + rewrite Hhc. rewrite <- !app_assoc. reflexivity.
Qed.

(* the rewritten condition over the result row of a group decides the relational HAVING condition *)
Theorem pa_having_sem : forall q p p' g,
  pq_having q = Some p -> pa_hpred_src p -> fst (pa_hx q) = Some p' ->
  pa_hholds p' (pa_post_row q (pa_base_row q (snd (pa_hx q)) g)) = pa_survives q g.
Proof.
  intros q p p' g Hq Hsrc Hp'. unfold pa_survives. rewrite Hq.
  unfold pa_hx in *. rewrite Hq in *. destruct (pa_hx_pred 0 p) as [p0 cs] eqn:E. simpl in *.
  inversion Hp'. subst p0.
  pose proof (pa_hx_pred_sem q cs g p 0 [] [] Hsrc eq_refl) as H. rewrite E in H. simpl in H.
  apply H. rewrite app_nil_r. reflexivity.
Qed.

(* the rewriting keeps the shape the routing of applyHavingFilter looks at *)
Lemma pa_hx_has_case : forall p n, pa_has_case (fst (pa_hx_pred n p)) = pa_has_case p.
Proof.
  induction p as [o x y|p IHp r IHr|p IHp r IHr|ops es|o ops es z]; intro n; simpl.
  - destruct (pa_hx_exp n x) as [x' cx]. destruct (pa_hx_exp (n + length cx) y) as [y' cy]. reflexivity.
  - specialize (IHp n). destruct (pa_hx_pred n p) as [p' cp]. specialize (IHr (n + length cp)).
    destruct (pa_hx_pred (n + length cp) r) as [r' cr]. simpl in *. rewrite IHp, IHr. reflexivity.
  - specialize (IHp n). destruct (pa_hx_pred n p) as [p' cp]. specialize (IHr (n + length cp)).
    destruct (pa_hx_pred (n + length cp) r) as [r' cr]. simpl in *. rewrite IHp, IHr. reflexivity.
  - destruct (pa_hx_list n es) as [es' cs]. reflexivity.
  - destruct (pa_hx_list n es) as [es' cs]. destruct (pa_hx_exp (n + length cs) z) as [z' cz]. reflexivity.
Qed.

(* the HAVING texts on which the filter evaluates the condition: no CASE at all, or the CASE is the
   whole condition and none of its operands is a bare GROUP BY column *)
Definition pa_hroute_ok (p : pa_hpred) : Prop :=
  match p with
  | PaHCmp _ _ _ => True
  | PaHCase _ es => Forall (fun e => pa_int_typed e = false) es
  | PaHAnd _ _ | PaHOr _ _ => pa_has_case p = false
  | PaHCaseCmp _ _ _ _ => False
  end.

Lemma pa_case_keep_truthy : forall ops (es : list pa_hexp) vs,
  length es = length vs -> Forall (fun e => pa_int_typed e = false) es ->
  match pa_case_sel ops vs (combine es vs) with
  | Some (e, Some q) => if pa_int_typed e then true else pa_cmp_holds PaGt q 0
  | _ => false
  end = pa_truthy (pa_case_val ops vs).
Proof.
  unfold pa_case_val.
  induction ops as [|o ops IH]; intros es vs Hlen Hall.
  - destruct vs as [|v [|v2 vs]]; destruct es as [|e [|e2 es]]; simpl in *; try discriminate; try reflexivity.
    all: try (inversion Hall as [|? ? He _]; subst; rewrite ?He; destruct v; reflexivity).
  - destruct vs as [|x [|y [|r vs]]]; destruct es as [|e1 [|e2 [|e3 es]]]; simpl in *; try discriminate; try reflexivity.
    all: try (inversion Hall as [|? ? _ H1]; subst; inversion H1 as [|? ? _ H2]; subst; inversion H2 as [|? ? He3 H3]; subst;
      destruct (pa_cmp_opt o x y); [rewrite ?He3; destruct r; reflexivity | apply IH; [lia|assumption]]).
Qed.

Lemma pa_hx_exp_int_typed : forall e n, pa_int_typed (fst (pa_hx_exp n e)) = pa_int_typed e.
Proof.
  intros e n. reflexivity.
Qed.

Lemma pa_hx_list_int_typed : forall es n,
  Forall (fun e => pa_int_typed e = false) es ->
  Forall (fun e => pa_int_typed e = false) (fst (pa_hx_list n es)).
Proof.
  induction es as [|e es IH]; intros n H; simpl; [constructor|].
  inversion H as [|? ? He Hes]; subst.
  pose proof (pa_hx_exp_int_typed e n) as E. destruct (pa_hx_exp n e) as [e' ce]. simpl in E.
  specialize (IH (n + length ce) Hes). destruct (pa_hx_list (n + length ce) es) as [es' cs]. simpl in *.
  constructor; [rewrite E; assumption|assumption].
Qed.

Lemma pa_hkeep_holds : forall p n r, pa_hroute_ok p ->
  pa_hkeep (fst (pa_hx_pred n p)) r = pa_hholds (fst (pa_hx_pred n p)) r.
Proof.
  intros p n r Hok. pose proof (pa_hx_has_case p n) as Hc. destruct p as [o x y|p1 p2|p1 p2|ops es|o ops es z]; simpl in *.
  - destruct (pa_hx_exp n x) as [x' cx]. destruct (pa_hx_exp (n + length cx) y) as [y' cy]. reflexivity.
  - destruct (pa_hx_pred n p1) as [p' cp]. destruct (pa_hx_pred (n + length cp) p2) as [r' cr]. simpl in *.
    rewrite Hc, Hok. reflexivity.
  - destruct (pa_hx_pred n p1) as [p' cp]. destruct (pa_hx_pred (n + length cp) p2) as [r' cr]. simpl in *.
    rewrite Hc, Hok. reflexivity.
  - pose proof (pa_hx_list_int_typed es n Hok) as Hes. destruct (pa_hx_list n es) as [es' cs]. simpl in *.
    unfold pa_case_keep. apply pa_case_keep_truthy; [rewrite map_length; reflexivity|assumption].
  - contradiction.
Qed.

(* what the filter keeps: on those texts a group is kept iff it satisfies the relational condition *)
Theorem pa_having_keep_sem : forall q p p' g,
  pq_having q = Some p -> pa_hpred_src p -> pa_hroute_ok p -> fst (pa_hx q) = Some p' ->
  pa_hkeep p' (pa_post_row q (pa_base_row q (snd (pa_hx q)) g)) = pa_survives q g.
Proof.
  intros q p p' g Hq Hsrc Hok Hp'. rewrite <- (pa_having_sem q p p' g Hq Hsrc Hp').
  unfold pa_hx in Hp'. rewrite Hq in Hp'.
  pose proof (pa_hkeep_holds p 0 (pa_post_row q (pa_base_row q (snd (pa_hx q)) g)) Hok) as H.
  destruct (pa_hx_pred 0 p) as [p0 cs]. simpl in *. inversion Hp'. subst p0. exact H.
Qed.

(* ------------------------------------------------------------------ a grouped batch *)
Fixpoint pa_key_differs (a b : pa_key) : Prop :=
  match a, b with
  | x :: a', y :: b' => pa_val_eqb x y = false \/ pa_key_differs a' b'
  | _, _ => False
  end.

Lemma pa_key_differs_nth : forall a b, pa_key_differs a b ->
  exists j, j < length a /\ pa_ov_eqb (nth_error a j) (nth_error b j) = false.
Proof.
  induction a as [|x a IH]; destruct b as [|y b]; simpl; intro H; try contradiction.
  destruct H as [H|H].
  - exists 0. split; [lia|assumption].
  - destruct (IH b H) as [j [Hj E]]. exists (S j). split; [lia|assumption].
Qed.

(* rows of groups with different key tuples differ in a group column: DISTINCT cannot merge them *)
Theorem pa_batch_rows_differ : forall q gs,
  Forall (fun g => length (fst g) = pq_ngroup q) gs ->
  ForallOrdPairs (fun g h => pa_key_differs (fst g) (fst h)) gs ->
  ForallOrdPairs (pa_group_differs (pq_ngroup q)) (pa_results q gs).
Proof.
  intros q gs Hlen Hd. unfold pa_results.
  induction Hd as [|g gs Hg Hgs IH]; simpl; [constructor|].
  inversion Hlen as [|? ? Lg Lgs]; subst. constructor; [|apply IH; assumption].
  rewrite Forall_forall in *. intros r Hr. apply in_map_iff in Hr. destruct Hr as [h [<- Hh]].
  destruct (pa_key_differs_nth _ _ (Hg h Hh)) as [j [Hj E]].
  exists j. split; [rewrite <- Lg; assumption|]. rewrite !pa_lookup_group_row. assumption.
Qed.
