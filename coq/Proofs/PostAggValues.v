(* C07: what the columns of a result row contain — SELECT items equal the arithmetic over the group's
   aggregate values (post-aggregation templates, placeholders), the rewritten HAVING condition over the
   hidden columns decides the relational HAVING condition, rows of different groups differ in a group
   column. *)
From Coq Require Import QArith Lia.
From SV Require Import Model.PostAgg Spec.PostAggSpec Proofs.PostAggSort Proofs.PostAggProofs.
Local Open Scope nat_scope.

Lemma pa_lookup_app : forall c a b,
  pa_lookup c (a ++ b) = match pa_lookup c a with Some v => Some v | None => pa_lookup c b end.
Proof.
  intros c. induction a as [|[c' v] a IH]; intro b; [reflexivity|]. simpl.
  destruct (pa_col_eqb c c'); [reflexivity|apply IH].
Qed.

Lemma pa_lookup_absent : forall c r,
  (forall c' v, In (c', v) r -> pa_col_eqb c c' = false) -> pa_lookup c r = None.
Proof.
  intros c. induction r as [|[c' v] r IH]; intro H; [reflexivity|]. simpl.
  rewrite (H c' v (or_introl eq_refl)). apply IH. intros c'' v' Hin. apply (H c'' v'). right. assumption.
Qed.

Lemma pa_lookup_some_in : forall c r v, pa_lookup c r = Some v -> In (c, v) r.
Proof.
  intros c. induction r as [|[c' v'] r IH]; intros v H; [discriminate|]. simpl in H.
  destruct (pa_col_eqb c c') eqn:E.
  - apply pa_col_eqb_eq in E. inversion H. subst. left. reflexivity.
  - right. apply IH. assumption.
Qed.

(* an enumeration that yields at most one (PaItem i, _) entry per element *)
Lemma pa_lookup_item_enum : forall (sel : pa_pexp -> option pa_val) (F : nat -> pa_pexp -> pa_row),
  (forall i p, F i p = match sel p with Some v => [(PaItem i, v)] | None => [] end) ->
  forall items n i,
  pa_lookup (PaItem i) (flat_map (fun x => x) (pa_enum F n items))
  = if Nat.ltb i n then None
    else match nth_error items (i - n) with Some p => sel p | None => None end.
Proof.
  intros sel F HF. induction items as [|p tl IH]; intros n i; simpl.
  - destruct (Nat.ltb i n); [reflexivity|]. destruct (i - n); reflexivity.
  - rewrite pa_lookup_app. rewrite IH. rewrite HF.
    destruct (sel p) as [v|] eqn:Es; simpl.
    + destruct (Nat.eqb i n) eqn:En.
      * apply Nat.eqb_eq in En. subst i. rewrite Nat.ltb_irrefl, Nat.sub_diag. simpl. symmetry. assumption.
      * apply Nat.eqb_neq in En.
        destruct (Nat.ltb i (S n)) eqn:E1; destruct (Nat.ltb i n) eqn:E2; try reflexivity.
        -- apply Nat.ltb_lt in E1. apply Nat.ltb_ge in E2. lia.
        -- apply Nat.ltb_ge in E1. apply Nat.ltb_lt in E2. lia.
        -- apply Nat.ltb_ge in E1. replace (i - n) with (S (i - S n)) by lia. reflexivity.
    + destruct (Nat.ltb i (S n)) eqn:E1; destruct (Nat.ltb i n) eqn:E2; try reflexivity.
      * apply Nat.ltb_lt in E1. apply Nat.ltb_ge in E2. assert (i = n) by lia. subst i.
        rewrite Nat.sub_diag. simpl. symmetry. assumption.
      * apply Nat.ltb_ge in E1. apply Nat.ltb_lt in E2. lia.
      * apply Nat.ltb_ge in E1. replace (i - n) with (S (i - S n)) by lia. reflexivity.
Qed.

(* group columns: lookup (PaGroup j) finds the j-th key value *)
Lemma pa_lookup_group_enum : forall key n j,
  pa_lookup (PaGroup j) (pa_enum (fun j v => (PaGroup j, v)) n key)
  = if Nat.ltb j n then None else nth_error key (j - n).
Proof.
  induction key as [|v tl IH]; intros n j; simpl.
  - destruct (Nat.ltb j n); [reflexivity|]. destruct (j - n); reflexivity.
  - rewrite IH. destruct (Nat.eqb j n) eqn:En.
    + apply Nat.eqb_eq in En. subst j. rewrite Nat.ltb_irrefl, Nat.sub_diag. reflexivity.
    + apply Nat.eqb_neq in En.
      destruct (Nat.ltb j (S n)) eqn:E1; destruct (Nat.ltb j n) eqn:E2; try reflexivity.
      * apply Nat.ltb_lt in E1. apply Nat.ltb_ge in E2. lia.
      * apply Nat.ltb_ge in E1. apply Nat.ltb_lt in E2. lia.
      * apply Nat.ltb_ge in E1. replace (j - n) with (S (j - S n)) by lia. reflexivity.
Qed.

Lemma pa_lookup_hidden_enum : forall (f : pa_call -> pa_val) hc n m,
  pa_lookup (PaHidden m) (pa_enum (fun n c => (PaHidden n, f c)) n hc)
  = if Nat.ltb m n then None else option_map f (nth_error hc (m - n)).
Proof.
  intros f. induction hc as [|c tl IH]; intros n m; simpl.
  - destruct (Nat.ltb m n); [reflexivity|]. destruct (m - n); reflexivity.
  - rewrite IH. destruct (Nat.eqb m n) eqn:En.
    + apply Nat.eqb_eq in En. subst m. rewrite Nat.ltb_irrefl, Nat.sub_diag. reflexivity.
    + apply Nat.eqb_neq in En.
      destruct (Nat.ltb m (S n)) eqn:E1; destruct (Nat.ltb m n) eqn:E2; try reflexivity.
      * apply Nat.ltb_lt in E1. apply Nat.ltb_ge in E2. lia.
      * apply Nat.ltb_ge in E1. apply Nat.ltb_lt in E2. lia.
      * apply Nat.ltb_ge in E1. replace (m - n) with (S (m - S n)) by lia. reflexivity.
Qed.

(* the four parts of a base row *)
Definition pa_part_g (g : pa_group) : pa_row := pa_enum (fun j v => (PaGroup j, v)) 0 (fst g).
Definition pa_part_pl (q : pa_query) (g : pa_group) : pa_row :=
  flat_map (fun x => x)
    (pa_enum (fun i p => match pa_is_plain p with
                         | Some c => [(PaItem i, PaNum (pa_agg_val c (snd g)))]
                         | None => []
                         end) 0 (pq_items q)).
Definition pa_part_h (hc : list pa_call) (g : pa_group) : pa_row :=
  pa_enum (fun n c => (PaHidden n, PaNum (pa_agg_val c (snd g)))) 0 hc.

Lemma pa_base_row_parts : forall q hc g,
  pa_base_row q hc g = pa_part_g g ++ pa_part_pl q g ++ pa_place_cols (pq_items q) (snd g) ++ pa_part_h hc g.
Proof. reflexivity. Qed.

Lemma pa_part_g_cols : forall g c v, In (c, v) (pa_part_g g) -> exists j, c = PaGroup j.
Proof.
  intros g c v H. apply pa_enum_in in H. destruct H as [i [x [_ E]]]. inversion E. eauto.
Qed.
Lemma pa_part_pl_cols : forall q g c v, In (c, v) (pa_part_pl q g) -> exists i, c = PaItem i.
Proof.
  intros q g c v H. apply in_flat_map in H. destruct H as [l [Hl Hin]]. apply pa_enum_in in Hl.
  destruct Hl as [i [p [_ E]]]. subst l. destruct (pa_is_plain p); [|destruct Hin].
  destruct Hin as [E|[]]. inversion E. eauto.
Qed.
Lemma pa_part_h_cols : forall hc g c v, In (c, v) (pa_part_h hc g) -> exists n, c = PaHidden n.
Proof.
  intros hc g c v H. apply pa_enum_in in H. destruct H as [i [x [_ E]]]. inversion E. eauto.
Qed.
Lemma pa_place_cols_cols : forall items g c v, In (c, v) (pa_place_cols items g) -> exists k, c = PaPlace k.
Proof.
  intros items g c v H. apply in_flat_map in H. destruct H as [p [_ Hin]].
  destruct (pa_is_plain p); [destruct Hin|]. apply in_map_iff in Hin. destruct Hin as [c' [E _]].
  inversion E. eauto.
Qed.

(* ------------------------------------------------------------------ placeholders *)
Definition pa_place_calls (items : list pa_pexp) : list pa_call :=
  flat_map (fun p => match pa_is_plain p with Some _ => [] | None => pa_calls p end) items.

Lemma pa_place_cols_map : forall items g,
  pa_place_cols items g = map (fun c => (PaPlace c, PaNum (pa_agg_val c g))) (pa_place_calls items).
Proof.
  intros items g. unfold pa_place_cols, pa_place_calls. induction items as [|p tl IH]; [reflexivity|].
  simpl. rewrite map_app, IH. destruct (pa_is_plain p); reflexivity.
Qed.

Lemma pa_lookup_place_map : forall (f : pa_call -> Q) cs c rest,
  In c cs ->
  pa_lookup (PaPlace c) (map (fun c => (PaPlace c, PaNum (f c))) cs ++ rest) = Some (PaNum (f c)).
Proof.
  intros f. induction cs as [|c' tl IH]; intros c rest H; [destruct H|]. simpl.
  destruct (pa_call_eqb c c') eqn:E.
  - apply pa_call_eqb_eq in E. subst. reflexivity.
  - destruct H as [->|H]; [rewrite pa_call_eqb_refl in E; discriminate|]. apply IH. assumption.
Qed.

Lemma pa_lookup_place_base : forall q hc g p c,
  In p (pq_items q) -> pa_is_plain p = None -> In c (pa_calls p) ->
  pa_lookup (PaPlace c) (pa_base_row q hc g) = Some (PaNum (pa_agg_val c (snd g))).
Proof.
  intros q hc g p c Hp Hn Hc. rewrite pa_base_row_parts.
  rewrite pa_lookup_app, pa_lookup_absent.
  2:{ intros c' v Hin. apply pa_part_g_cols in Hin. destruct Hin as [j ->]. reflexivity. }
  rewrite pa_lookup_app, pa_lookup_absent.
  2:{ intros c' v Hin. apply pa_part_pl_cols in Hin. destruct Hin as [j ->]. reflexivity. }
  rewrite pa_place_cols_map. apply pa_lookup_place_map.
  unfold pa_place_calls. apply in_flat_map. exists p. split; [assumption|]. rewrite Hn. assumption.
Qed.

(* evaluating the template on the placeholders = the arithmetic over the aggregate values *)
Lemma pa_template_sem : forall r g p,
  (forall c, In c (pa_calls p) -> pa_lookup (PaPlace c) r = Some (PaNum (pa_agg_val c g))) ->
  pa_template_eval p r = pa_sem p g.
Proof.
  intros r g. induction p as [c|x|o x IHx y IHy|x IHx]; intro H; simpl.
  - rewrite (H c (or_introl eq_refl)). reflexivity.
  - reflexivity.
  - rewrite IHx, IHy; [reflexivity| |]; intros c Hc; apply H; simpl; apply in_or_app; auto.
  - apply IHx. assumption.
Qed.

Lemma pa_is_plain_some : forall p c, pa_is_plain p = Some c -> p = PaPAgg c.
Proof. destruct p; simpl; intros c' H; try discriminate. congruence. Qed.

Lemma pa_ltb0 : forall i, Nat.ltb i 0 = false.
Proof. intro i. reflexivity. Qed.

(* the value delivered for the i-th SELECT item of a group *)
Theorem pa_postagg_value : forall q hc g i p,
  nth_error (pq_items q) i = Some p ->
  pa_lookup (PaItem i) (pa_post_row q (pa_base_row q hc g)) = Some (pa_of_opt (pa_sem p (snd g))).
Proof.
  intros q hc g i p Hi. unfold pa_post_row.
  rewrite pa_lookup_delete by reflexivity.
  rewrite pa_lookup_app. rewrite pa_base_row_parts at 1.
  rewrite pa_lookup_app, pa_lookup_absent.
  2:{ intros c' v Hin. apply pa_part_g_cols in Hin. destruct Hin as [j ->]. reflexivity. }
  rewrite pa_lookup_app. unfold pa_part_pl.
  rewrite (pa_lookup_item_enum (fun p => match pa_is_plain p with
                                        | Some c => Some (PaNum (pa_agg_val c (snd g))) | None => None end)).
  2:{ intros i' p'. destruct (pa_is_plain p'); reflexivity. }
  rewrite pa_ltb0, Nat.sub_0_r, Hi.
  destruct (pa_is_plain p) as [c|] eqn:Epl.
  - apply pa_is_plain_some in Epl. subst p. reflexivity.
  - rewrite pa_lookup_app, pa_lookup_absent.
    2:{ intros c' v Hin. apply pa_place_cols_cols in Hin. destruct Hin as [k ->]. reflexivity. }
    rewrite pa_lookup_absent.
    2:{ intros c' v Hin. apply pa_part_h_cols in Hin. destruct Hin as [k ->]. reflexivity. }
    rewrite (pa_lookup_item_enum (fun p' => match pa_is_plain p' with
                                           | Some _ => None
                                           | None => Some (pa_of_opt (pa_template_eval p' (pa_base_row q hc g))) end)).
    2:{ intros i' p'. destruct (pa_is_plain p'); reflexivity. }
    rewrite pa_ltb0, Nat.sub_0_r, Hi, Epl.
    f_equal. f_equal. apply pa_template_sem. intros c Hc.
    apply (pa_lookup_place_base q hc g p c); [eapply nth_error_In; eassumption|assumption|assumption].
Qed.
