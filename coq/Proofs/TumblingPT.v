(* Processing-time tumbling window: under the ticker's schedule (a row is never stamped with a
   wall clock earlier than the current slot's start) every row is reported exactly in the
   size-aligned interval of its Add time. *)
From Coq Require Import Lia Arith.
From SV Require Import Model.Tumbling Proofs.TumblingProofs Proofs.TumblingComplete.

Section PT.
  Variable c : cfg.
  Hypothesis Hsize : 0 < size c.

  Definition InvP (s : pst) : Prop :=
    (p_init s = false -> p_data s = []) /\
    (p_init s = true -> aligned c (p_slot s) /\ Forall (fun r => p_slot s <= rts r) (p_data s)).

  Definition ok_pop (s : pst) (o : pop) : Prop :=
    match o with PAdd _ now => 0 <= now /\ (p_init s = true -> p_slot s <= now) | PTrigger => True end.

  Fixpoint sched_ok (s : pst) (h : list pop) : Prop :=
    match h with [] => True | o :: r => ok_pop s o /\ sched_ok (fst (pstep c s o)) r end.

  Lemma pstep_InvP s o : InvP s -> ok_pop s o -> InvP (fst (pstep c s o)).
  Proof.
    intros [H0 H1] Hok. destruct o as [id now|]; cbn [pstep].
    - destruct Hok as [Hn Hs]. cbn. split; [discriminate|]. intros _. destruct (p_init s) eqn:Ei.
      + destruct (H1 eq_refl) as [A B]. split; [exact A|]. apply Forall_app. split; [exact B|].
        constructor; [cbn; auto|constructor].
      + rewrite (H0 eq_refl). split; [apply align_aligned, Hsize|]. constructor; [|constructor].
        cbn. pose proof (align_le now (size c) Hsize Hn). lia.
    - destruct (p_init s) eqn:Ei; cbn [negb fst]; [|split; [auto|rewrite Ei; discriminate]].
      destruct (H1 eq_refl) as [[k Hk] B]. split; cbn; [discriminate|]. intros _. split; [exists (k + 1); lia|].
      apply Forall_forall. intros r Hr. apply filter_In in Hr as [_ Hr]. apply negb_true_iff, Z.ltb_ge in Hr. exact Hr.
  Qed.

  Lemma pstep_track s o r :
    InvP s -> 0 <= rts r -> In r (p_data s) ->
    In r (p_data (fst (pstep c s o))) \/ reported c r (snd (pstep c s o)).
  Proof.
    intros [H0 H1] Hr Hin. destruct o as [id now|]; cbn [pstep].
    - left. cbn. apply in_or_app. left. exact Hin.
    - destruct (p_init s) eqn:Ei; cbn [negb]; [|left; exact Hin].
      destruct (H1 eq_refl) as [Hal Hd]. rewrite Forall_forall in Hd. pose proof (Hd r Hin) as Hle.
      cbn [fst snd p_data]. destruct (rts r <? p_slot s + size c) eqn:E.
      + right. assert (Hw: inwin c (p_slot s) (rts r) = true).
        { unfold inwin. apply andb_true_iff. split; [apply Z.leb_le; exact Hle|exact E]. }
        assert (Hres: In r (filter (fun x => inwin c (p_slot s) (rts x)) (p_data s))) by (apply filter_In; auto).
        destruct (filter (fun x => inwin c (p_slot s) (rts x)) (p_data s)) as [|r0 l] eqn:Ef; [contradiction|].
        eexists. split; [right; left; reflexivity|]. cbn. split; [|exact Hres].
        apply aligned_unique; auto. apply Z.ltb_lt in E. lia.
      + left. apply filter_In. split; [exact Hin|]. rewrite E. reflexivity.
  Qed.

  Lemma prun_track h : forall s r,
    InvP s -> sched_ok s h -> 0 <= rts r -> In r (p_data s) ->
    In r (p_data (fst (prun c s h))) \/ reported c r (snd (prun c s h)).
  Proof.
    induction h as [|o rest IH]; intros s r Hinv Hs Hr Hin; cbn [prun]; [left; exact Hin|].
    destruct Hs as [Hok Hs]. pose proof (pstep_InvP s o Hinv Hok) as Hi1.
    pose proof (pstep_track s o r Hinv Hr Hin) as Ht.
    destruct (pstep c s o) as [s1 e1] eqn:E1. cbn [fst snd] in *.
    destruct (prun c s1 rest) as [s2 e2] eqn:E2. cbn [fst snd].
    destruct Ht as [Hd|Hrep].
    - specialize (IH s1 r Hi1 Hs Hr Hd). rewrite E2 in IH. cbn [fst snd] in IH.
      destruct IH as [A|B]; [left; exact A|right; apply reported_app_r, B].
    - right. apply reported_app_l, Hrep.
  Qed.

  Lemma InvP_0 : InvP pst0.
  Proof. split; cbn; [auto|discriminate]. Qed.

  Lemma prun_app h1 h2 s : prun c s (h1 ++ h2) =
    let '(s1, e1) := prun c s h1 in let '(s2, e2) := prun c s1 h2 in (s2, e1 ++ e2).
  Proof.
    revert s; induction h1 as [|o r IH]; intros s; cbn [prun app].
    - destruct (prun c s h2); reflexivity.
    - destruct (pstep c s o) as [s1 e1]. rewrite IH. destruct (prun c s1 r) as [sa ea].
      destruct (prun c sa h2) as [sb eb]. rewrite app_assoc. reflexivity.
  Qed.

  Lemma sched_ok_app h1 h2 s : sched_ok s (h1 ++ h2) -> sched_ok s h1 /\ sched_ok (fst (prun c s h1)) h2.
  Proof.
    revert s; induction h1 as [|o r IH]; intros s; cbn [app sched_ok prun]; [auto|].
    intros [Hok H]. destruct (IH _ H) as [A B]. destruct (pstep c s o) as [s1 e1]. cbn [fst] in *.
    destruct (prun c s1 r) as [s2 e2]. cbn [fst] in *. auto.
  Qed.

  Lemma prun_InvP h : forall s, InvP s -> sched_ok s h -> InvP (fst (prun c s h)).
  Proof.
    induction h as [|o r IH]; intros s Hi Hs; cbn [prun]; [exact Hi|].
    destruct Hs as [Hok Hs]. pose proof (pstep_InvP s o Hi Hok) as Hi1.
    destruct (pstep c s o) as [s1 e1]. cbn [fst] in *. specialize (IH s1 Hi1 Hs).
    destruct (prun c s1 r) as [s2 e2]. exact IH.
  Qed.

  (* every row is reported in the batch of its own interval as soon as the slot has passed it *)
  Theorem pt_complete h1 id now h2 :
    sched_ok pst0 (h1 ++ PAdd id now :: h2) ->
    let '(s, tr) := prun c pst0 (h1 ++ PAdd id now :: h2) in
    now < p_slot s -> reported c (id, now) tr.
  Proof.
    intros Hs. apply sched_ok_app in Hs as [Hs1 Hs2].
    rewrite prun_app. pose proof (prun_InvP h1 pst0 InvP_0 Hs1) as Hi1.
    destruct (prun c pst0 h1) as [s1 e1]. cbn [fst] in *.
    cbn [sched_ok] in Hs2. destruct Hs2 as [[Hn Hok] Hs2].
    pose proof (pstep_InvP s1 (PAdd id now) Hi1 (conj Hn Hok)) as Hia.
    cbn [prun]. cbn [pstep] in *. cbn [fst] in *.
    set (sa := {| p_init := true; p_slot := if p_init s1 then p_slot s1 else align now (size c);
                  p_data := p_data s1 ++ [(id, now)] |}) in *.
    assert (Hin: In (id, now) (p_data sa)) by (cbn; apply in_or_app; right; left; reflexivity).
    pose proof (prun_track h2 sa (id, now) Hia Hs2 Hn Hin) as Ht.
    pose proof (prun_InvP h2 sa Hia Hs2) as Hib.
    destruct (prun c sa h2) as [sb eb]. cbn [fst snd] in *. intros Hslot.
    destruct Ht as [Hd|Hrep].
    - exfalso. destruct Hib as [H0 H1]. destruct (p_init sb) eqn:E.
      + destruct (H1 eq_refl) as [_ Hf]. rewrite Forall_forall in Hf. specialize (Hf _ Hd). cbn in Hf. lia.
      + rewrite (H0 eq_refl) in Hd. contradiction.
    - apply reported_app_r. apply (reported_app_r c _ [EvAdd id now]), Hrep.
  Qed.

  Theorem pt_membership h : forall s,
    InvP s -> sched_ok s h ->
    forall b, In (EvBatch b) (snd (prun c s h)) ->
      b_end b = b_start b + size c /\ aligned c (b_start b) /\ forall r, In r (b_rows b) -> b_start b <= rts r < b_end b.
  Proof.
    induction h as [|o rest IH]; intros s Hi Hs b; cbn [prun]; [intros []|].
    destruct Hs as [Hok Hs]. pose proof (pstep_InvP s o Hi Hok) as Hi1.
    destruct (pstep c s o) as [s1 e1] eqn:E1. cbn [fst] in *. specialize (IH s1 Hi1 Hs b).
    destruct (prun c s1 rest) as [s2 e2]. cbn [snd] in *. intros Hb. apply in_app_or in Hb as [Hb|Hb]; [|auto].
    destruct o as [id now|]; cbn [pstep] in E1.
    - inversion E1; subst. destruct Hb as [H|[]]; discriminate.
    - destruct (p_init s) eqn:Ei; cbn [negb] in E1; inversion E1; subst; clear E1.
      + destruct Hb as [H|Hb]; [discriminate|].
        destruct (filter (fun r => inwin c (p_slot s) (rts r)) (p_data s)) as [|r0 l] eqn:Ef; [contradiction|]. destruct Hb as [H|[]]. inversion H; subst b. cbn.
        destruct Hi as [_ H1]. destruct (H1 Ei) as [Hal _]. split; [reflexivity|]. split; [exact Hal|].
        intros r Hr. assert (Hr': In r (r0 :: l)) by exact Hr. rewrite <- Ef in Hr'. apply filter_In in Hr' as [_ Hr']. unfold inwin in Hr'. lia.
      + destruct Hb as [H|[]]; discriminate.
  Qed.
End PT.
