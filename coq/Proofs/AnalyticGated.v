(* C14 — the engine of stream/analytic.go within the cap, as a function of the history: the result for a row is
   the state machine applied to the earlier rows of ITS partition that passed WHEN (a row failing WHEN repeats the
   partition's last result).  Instantiated with the item machines and their sequential specifications this gives:
   the model of the implementation = the declarative specification the driver judges the real output with. *)
From Coq Require Import Lia.
From SV Require Import Model.Analytic Model.AnalyticMulti Spec.AnalyticSpec Proofs.AnalyticSeq Proofs.AnalyticKey
  Proofs.AnalyticEngine Proofs.AnalyticQuery Proofs.AnalyticField Proofs.AnalyticMulti.

Section Gated.
  Variables St Out : Type.
  Variable init : St.
  Variable apply : St -> arow -> St * Out.
  Variable dflt : Out.
  Variable gate : arow -> bool.
  Variable pkey : arow -> bytes.
  Variable cap : nat.

  Notation eng := (aeng St Out).

  Fixpoint st_after (s : St) (l : list arow) : St :=
    match l with [] => s | r :: t => st_after (fst (apply s r)) t end.

  Lemma st_after_snoc : forall l s x, st_after s (l ++ [x]) = fst (apply (st_after s l) x).
  Proof. induction l as [|r t IH]; intros s x; simpl; [reflexivity|apply IH]. Qed.

  (* the counted rows of partition k *)
  Definition mine (k : bytes) (h : list arow) : list arow := filter (fun e => bytes_eqb (pkey e) k && gate e) h.

  Definition last_of (m : list arow) : option Out :=
    match rev m with [] => None | l :: before => Some (snd (apply (st_after init (rev before)) l)) end.

  Definition gspec (earlier : list arow) (r : arow) : Out :=
    let m := mine (pkey r) earlier in
    if gate r then snd (apply (st_after init m) r)
    else match last_of m with Some o => o | None => dflt end.

  Lemma mine_snoc_same k h r : pkey r = k -> gate r = true -> mine k (h ++ [r]) = mine k h ++ [r].
  Proof. intros Hk Hg. unfold mine. rewrite filter_app. simpl. rewrite Hk, bytes_eqb_refl, Hg. reflexivity. Qed.

  Lemma mine_snoc_other k h r : (pkey r <> k \/ gate r = false) -> mine k (h ++ [r]) = mine k h.
  Proof.
    intros H. unfold mine. rewrite filter_app. simpl.
    destruct H as [H|H]; [rewrite (bytes_eqb_neq _ _ H)|rewrite H, Bool.andb_false_r]; simpl; apply app_nil_r.
  Qed.

  Lemma last_of_snoc m r : last_of (m ++ [r]) = Some (snd (apply (st_after init m) r)).
  Proof. unfold last_of. rewrite rev_app_distr. simpl. rewrite rev_involutive. reflexivity. Qed.

  Definition some_after (m : list arow) : option St :=
    match m with [] => None | _ :: _ => Some (st_after init m) end.

  Lemma some_after_default m : match some_after m with Some s => s | None => init end = st_after init m.
  Proof. destruct m; reflexivity. Qed.

  (* ------------------------------------------------ PARTITION BY present *)
  Definition einv (h0 : list arow) (e : eng) : Prop :=
    NoDup (akeys (ae_parts e)) /\
    (forall k, alookup k (ae_parts e) = some_after (mine k h0)) /\
    (forall k, alookup k (ae_last e) = last_of (mine k h0)).

  Lemma gated_part : forall h h0 e, einv h0 e -> room cap (akeys (ae_parts e)) (ckeys gate pkey h) ->
    snd (an_eng_run St Out init apply dflt gate pkey true cap e h) = map_prefix_aux gspec h0 h.
  Proof.
    induction h as [|r t IH]; intros h0 e (Hnd & Hp & Hl) Hroom; [reflexivity|].
    cbn [an_eng_run map_prefix_aux].
    destruct (gate r) eqn:Hg.
    - assert (Hck : ckeys gate pkey (r :: t) = pkey r :: ckeys gate pkey t) by (unfold ckeys; simpl; rewrite Hg; reflexivity).
      rewrite (step_room St Out init apply dflt gate pkey cap e r Hg Hnd)
        by (eapply room_weaken; [|exact Hroom]; rewrite Hck; intros x Hx; apply in_app_or in Hx;
            apply in_or_app; destruct Hx as [Hx|[Hx|[]]]; [left; exact Hx|right; left; exact Hx]).
      destruct (norm_keys St Out init apply gate pkey e r Hnd) as [Hnd1 Hincl1].
      assert (Hroom1 : room cap (akeys (ae_parts (fst (norm_step St Out init apply pkey e r)))) (ckeys gate pkey t)).
      { eapply room_weaken; [|exact Hroom]. rewrite Hck. intros x Hx. apply in_app_or in Hx. apply in_or_app.
        destruct Hx as [Hx|Hx]; [|right; right; exact Hx].
        destruct (Hincl1 x Hx) as [H|H]; [right; left; exact H|left; exact H]. }
      destruct (norm_lookup_same St Out init apply pkey e r) as (Hp1 & Hl1 & Ho1).
      rewrite (Hp (pkey r)), some_after_default in Hp1, Ho1.
      assert (Hinv1 : einv (h0 ++ [r]) (fst (norm_step St Out init apply pkey e r))).
      { split; [exact Hnd1|]. split; intros k.
        - destruct (bytes_dec k (pkey r)) as [->|Hne].
          + rewrite Hp1. rewrite (mine_snoc_same (pkey r) h0 r eq_refl Hg).
            rewrite <- st_after_snoc. unfold some_after. destruct (mine (pkey r) h0); reflexivity.
          + rewrite (proj1 (norm_lookup_other St Out init apply pkey e r k Hne)).
            rewrite mine_snoc_other by (left; intros E; apply Hne; symmetry; exact E). apply Hp.
        - destruct (bytes_dec k (pkey r)) as [->|Hne].
          + rewrite Hl1, Ho1. rewrite (mine_snoc_same (pkey r) h0 r eq_refl Hg). symmetry. apply last_of_snoc.
          + rewrite (proj2 (norm_lookup_other St Out init apply pkey e r k Hne)).
            rewrite mine_snoc_other by (left; intros E; apply Hne; symmetry; exact E). apply Hl. }
      specialize (IH (h0 ++ [r]) _ Hinv1 Hroom1).
      destruct (norm_step St Out init apply pkey e r) as [e1 o1]. cbn [fst snd] in *.
      destruct (an_eng_run St Out init apply dflt gate pkey true cap e1 t) as [e2 os]. cbn [snd] in *.
      rewrite IH. f_equal. unfold gspec. rewrite Hg. exact Ho1.
    - assert (Hck : ckeys gate pkey (r :: t) = ckeys gate pkey t) by (unfold ckeys; simpl; rewrite Hg; reflexivity).
      rewrite Hck in Hroom.
      assert (Hs : an_eng_step St Out init apply dflt gate pkey true cap e r =
                   (e, match alookup (pkey r) (ae_last e) with Some o => o | None => dflt end)).
      { unfold an_eng_step. rewrite Hg. reflexivity. }
      rewrite Hs.
      assert (Hinv1 : einv (h0 ++ [r]) e).
      { split; [exact Hnd|]. split; intros k; rewrite mine_snoc_other by (right; exact Hg); [apply Hp|apply Hl]. }
      specialize (IH (h0 ++ [r]) e Hinv1 Hroom).
      destruct (an_eng_run St Out init apply dflt gate pkey true cap e t) as [e2 os]. cbn [snd] in *.
      rewrite IH. f_equal. unfold gspec. rewrite Hg, (Hl (pkey r)). reflexivity.
  Qed.

  (* ------------------------------------------------ no PARTITION BY: one state, one key *)
  Variable k0 : bytes.
  Hypothesis Hconst : forall r, pkey r = k0.

  Definition ninv (h0 : list arow) (e : eng) : Prop :=
    ae_nopart e = some_after (mine k0 h0) /\ alookup k0 (ae_last e) = last_of (mine k0 h0).

  Lemma gated_nopart : forall h h0 e, ninv h0 e ->
    snd (an_eng_run St Out init apply dflt gate pkey false cap e h) = map_prefix_aux gspec h0 h.
  Proof.
    induction h as [|r t IH]; intros h0 e [Hn Hl]; [reflexivity|].
    cbn [an_eng_run map_prefix_aux]. unfold an_eng_step. rewrite (Hconst r).
    destruct (gate r) eqn:Hg; cbn [negb].
    - rewrite Hn, some_after_default.
      destruct (apply (st_after init (mine k0 h0)) r) as [s' o] eqn:Ea.
      assert (Hinv1 : ninv (h0 ++ [r]) {| ae_nopart := Some s'; ae_parts := ae_parts e; ae_last := aset k0 o (ae_last e) |}).
      { split; cbn [ae_nopart ae_last].
        - rewrite (mine_snoc_same k0 h0 r (Hconst r) Hg). unfold some_after.
          rewrite st_after_snoc, Ea. destruct (mine k0 h0); reflexivity.
        - rewrite alookup_aset_same, (mine_snoc_same k0 h0 r (Hconst r) Hg), last_of_snoc, Ea. reflexivity. }
      specialize (IH (h0 ++ [r]) _ Hinv1).
      destruct (an_eng_run St Out init apply dflt gate pkey false cap _ t) as [e2 os]. cbn [snd] in *.
      rewrite IH. f_equal. unfold gspec. rewrite Hg, (Hconst r), Ea. reflexivity.
    - assert (Hinv1 : ninv (h0 ++ [r]) e).
      { split; rewrite mine_snoc_other by (right; exact Hg); assumption. }
      specialize (IH (h0 ++ [r]) e Hinv1).
      destruct (an_eng_run St Out init apply dflt gate pkey false cap e t) as [e2 os]. cbn [snd] in *.
      rewrite IH. f_equal. unfold gspec. rewrite Hg, (Hconst r), Hl. reflexivity.
  Qed.
End Gated.

(* ---------------------------------------------------------------- partitions: key equality = tuple equality *)
Lemma aval_eqb_eq a b : aval_eqb a b = true <-> a = b.
Proof.
  destruct a, b; simpl; split; intros H; try reflexivity; try discriminate.
  - apply Z.eqb_eq in H. subst. reflexivity.
  - injection H as ->. apply Z.eqb_refl.
  - apply Z.eqb_eq in H. subst. reflexivity.
  - injection H as ->. apply Z.eqb_refl.
  - apply bytes_eqb_eq in H. subst. reflexivity.
  - injection H as ->. apply bytes_eqb_refl.
  - apply Bool.eqb_prop in H. subst. reflexivity.
  - injection H as ->. apply Bool.eqb_reflx.
Qed.

Lemma avals_eqb_eq : forall a b, avals_eqb a b = true <-> a = b.
Proof.
  induction a as [|x a IH]; intros [|y b]; simpl; split; intros H; try reflexivity; try discriminate.
  - apply andb_prop in H. destruct H as [H1 H2]. apply aval_eqb_eq in H1. apply IH in H2. subst. reflexivity.
  - injection H as -> ->. apply andb_true_intro. split; [apply aval_eqb_eq|apply IH]; reflexivity.
Qed.

Lemma same_part_key f r e : an_same_part f r e = bytes_eqb (an_pkey (af_part f) e) (an_pkey (af_part f) r).
Proof.
  unfold an_same_part, an_pkey.
  destruct (avals_eqb (an_part_vals (af_part f) e) (an_part_vals (af_part f) r)) eqn:E.
  - apply avals_eqb_eq in E. rewrite E. symmetry. apply bytes_eqb_refl.
  - symmetry. apply bytes_eqb_neq. intros Hk. apply partition_key_injective in Hk.
    apply avals_eqb_eq in Hk. congruence.
Qed.

(* the number of distinct partition tuples bounds every duplicate-free list of keys of these rows *)
Lemma in_distinct : forall (l : list (list aval)) x, In x l -> In x (an_distinct l).
Proof.
  induction l as [|y t IH]; intros x Hx; [contradiction|]. simpl.
  destruct (avals_eqb y x) eqn:E.
  - apply avals_eqb_eq in E. left. exact E.
  - right. apply filter_In. split; [|rewrite E; reflexivity].
    destruct Hx as [Hx|Hx]; [subst; rewrite (proj2 (avals_eqb_eq x x) eq_refl) in E; discriminate|apply IH; exact Hx].
Qed.

Lemma parts_room f cap rows h :
  an_parts_of f rows <= cap -> incl h rows -> room cap [] (ckeys (an_gate f) (an_pkey (af_part f)) h).
Proof.
  intros Hcap Hincl L HL HLin. simpl in HLin.
  transitivity (length (map an_key_of_vals (an_distinct (map (an_part_vals (af_part f)) rows)))).
  - apply NoDup_incl_length; [exact HL|]. intros x Hx. apply HLin in Hx. unfold ckeys in Hx.
    apply in_map_iff in Hx. destruct Hx as (r & <- & Hr). apply filter_In in Hr. destruct Hr as [Hr _].
    unfold an_pkey. apply in_map. apply in_distinct. apply in_map. apply Hincl. exact Hr.
  - rewrite map_length. exact Hcap.
Qed.

(* ---------------------------------------------------------------- one item: engine = gated specification *)
Lemma field_inv_after k : an_fkind_wf k = true -> forall m, Forall row_ok m ->
  field_inv k m (st_after afstate aout (an_field_apply k) (an_field_init k) m).
Proof.
  intros Hwf m. induction m as [|x m IH] using rev_ind; intros Hm.
  - apply field_inv_init. exact Hwf.
  - apply Forall_app in Hm. destruct Hm as [Hm Hx]. inversion Hx; subst.
    rewrite st_after_snoc. apply (field_step false k m _ x Hwf); [assumption|apply IH; exact Hm].
Qed.

Lemma Forall_filter_l (A : Type) (P : A -> Prop) f (l : list A) : Forall P l -> Forall P (filter f l).
Proof. intros H. apply Forall_forall. intros x Hx. apply filter_In in Hx. rewrite Forall_forall in H. apply H. tauto. Qed.

Lemma gspec_field f : an_fkind_wf (af_kind f) = true -> forall earlier r, Forall row_ok earlier -> row_ok r ->
  gspec afstate aout (an_field_init (af_kind f)) (an_field_apply (af_kind f)) (an_field_dflt (af_kind f))
        (an_gate f) (an_pkey (af_part f)) earlier r = an_gated_spec f earlier r.
Proof.
  intros Hwf earlier r He Hr. unfold gspec, an_gated_spec, an_gated_spec_g.
  assert (Hm : mine (an_gate f) (an_pkey (af_part f)) (an_pkey (af_part f) r) earlier =
               filter (fun e => an_same_part f r e && an_gate f e) earlier).
  { unfold mine. apply filter_ext. intros e. rewrite same_part_key. reflexivity. }
  rewrite Hm. set (m := filter (fun e => an_same_part f r e && an_gate f e) earlier).
  assert (Hmok : Forall row_ok m) by (apply Forall_filter_l; exact He).
  destruct (an_gate f r).
  - apply (proj2 (field_step false (af_kind f) m _ r Hwf Hr (field_inv_after _ Hwf m Hmok))).
  - unfold last_of. destruct (rev m) as [|l before] eqn:Erev; [reflexivity|].
    assert (Hm2 : m = rev before ++ [l]) by (rewrite <- (rev_involutive m), Erev; reflexivity).
    rewrite Hm2 in Hmok. apply Forall_app in Hmok. destruct Hmok as [Hb Hl]. inversion Hl; subst.
    apply (proj2 (field_step false (af_kind f) (rev before) _ l Hwf H1 (field_inv_after _ Hwf _ Hb))).
Qed.

Lemma map_prefix_aux_ext (A B : Type) (P : A -> Prop) (f g : list A -> A -> B) : forall l l0,
  (forall e x, Forall P e -> P x -> f e x = g e x) -> Forall P l0 -> Forall P l ->
  map_prefix_aux f l0 l = map_prefix_aux g l0 l.
Proof.
  induction l as [|x t IH]; intros l0 H H0 Hl; [reflexivity|]. inversion Hl; subst. simpl.
  rewrite H by assumption. f_equal. apply IH; try assumption. apply Forall_app. split; [assumption|constructor; [assumption|constructor]].
Qed.

Definition field_room (cap : nat) (f : afield) (h : list arow) : Prop :=
  an_partitioned f = false \/ room cap [] (ckeys (an_gate f) (an_pkey (af_part f)) h).

(* frun_gated: the engine of one item over ANY interleaving of partitions within the cap *)
Theorem frun_gated : forall cap f h, an_fkind_wf (af_kind f) = true -> Forall row_ok h -> field_room cap f h ->
  snd (an_frun cap f (an_eng0 _ _) h) = map_prefix (an_gated_spec f) h.
Proof.
  intros cap f h Hwf Hh Hroom. unfold map_prefix.
  rewrite <- (map_prefix_aux_ext _ _ row_ok _ _ h [] (fun e x He Hx => gspec_field f Hwf e x He Hx) (Forall_nil _) Hh).
  unfold an_frun. destruct (an_partitioned f) eqn:Ep.
  - destruct Hroom as [Hroom|Hroom]; [congruence|].
    apply gated_part; [|exact Hroom]. split; [constructor|]. split; intros k; reflexivity.
  - apply (gated_nopart _ _ _ _ _ _ _ cap []).
    + intros r. unfold an_partitioned in Ep. destruct (af_part f); [reflexivity|discriminate].
    + split; reflexivity.
Qed.

(* ---------------------------------------------------------------- the whole query = its specification *)
Lemma zipcons_prefix (A B : Type) (F : list A -> A -> B) (G : list A -> A -> list B) : forall h l0,
  zipcons (map_prefix_aux F l0 h) (map_prefix_aux G l0 h) = map_prefix_aux (fun e r => F e r :: G e r) l0 h.
Proof. induction h as [|r t IH]; intros l0; simpl; [reflexivity|]. rewrite IH. reflexivity. Qed.

Lemma map_nil_prefix (A B : Type) : forall (h l0 : list A),
  map (fun _ => @nil B) h = map_prefix_aux (fun _ _ => @nil B) l0 h.
Proof. induction h as [|r t IH]; intros l0; simpl; [reflexivity|]. rewrite <- IH. reflexivity. Qed.

Lemma item_rows_spec cap h : Forall row_ok h -> forall fs,
  Forall (fun f => an_fkind_wf (af_kind f) = true /\ field_room cap f h) fs ->
  item_rows cap fs (map (fun _ => an_eng0 afstate aout) fs) h =
  map_prefix (fun e r => map (fun f => an_gated_spec f e r) fs) h.
Proof.
  intros Hh. induction fs as [|f ft IH]; intros Hfs.
  - simpl. apply map_nil_prefix.
  - inversion Hfs as [|f' ft' [Hwf Hroom] Hft]; subst. cbn [map item_rows].
    rewrite (frun_gated cap f h Hwf Hh Hroom), (IH Hft). unfold map_prefix. apply zipcons_prefix.
Qed.

Definition mquery_wf (q : amquery) : bool :=
  forallb (fun f => an_fkind_wf (af_kind f)) (mq_items q) &&
  match mq_wan q with Some (wf, _) => an_fkind_wf (af_kind wf) | None => true end.

Lemma mask_spec q wf tst : mq_wan q = Some (wf, tst) -> forall h l0,
  mask (fun r w => an_mcolpass q r && an_wtest tst w) h
       (map_prefix_aux (an_gated_spec wf) l0 h)
       (map_prefix_aux (fun e r => map (fun f => an_gated_spec f e r) (mq_items q)) l0 h) =
  an_mspec_aux false q l0 h.
Proof.
  intros Hw. induction h as [|r t IH]; intros l0; [reflexivity|].
  cbn [map_prefix_aux mask an_mspec_aux]. rewrite Hw. rewrite IH. reflexivity.
Qed.

Lemma spread_spec q : mq_wan q = None -> forall h l0,
  spread_g (an_mcolpass q) h
           (map_prefix_aux (fun e r => map (fun f => an_gated_spec f e r) (mq_items q)) l0 (filter (an_mcolpass q) h)) =
  an_mspec_aux false q l0 h.
Proof.
  intros Hw. induction h as [|r t IH]; intros l0; [reflexivity|].
  cbn [filter spread_g an_mspec_aux]. rewrite Hw. destruct (an_mcolpass q r).
  - cbn [map_prefix_aux]. rewrite IH. reflexivity.
  - rewrite IH. reflexivity.
Qed.

Lemma leb_parts_room cap f rows h : (an_parts_of f rows <=? cap)%nat = true -> incl h rows -> field_room cap f h.
Proof. intros H Hi. right. apply (parts_room f cap rows h); [apply Nat.leb_le; exact H|exact Hi]. Qed.

(* msync_spec: for every query of the family (any number of items, each with its own OVER clause; any of the WHERE
   shapes), every history of rows (maps) whose partitions stay within the cap: the model of EmitSync IS the
   declarative specification - each item on its own, over the rows offered to the engines *)
Theorem msync_spec : forall q h, mquery_wf q = true -> Forall row_ok h -> an_mwithin_cap q h = true ->
  an_msync q h = an_mspec_query false q h.
Proof.
  intros q h Hwf Hh Hcap. rewrite mwhere_order. unfold an_mspec_query, m_eng0s.
  unfold mquery_wf in Hwf. apply andb_prop in Hwf. destruct Hwf as [Hwi Hww].
  unfold an_mwithin_cap in Hcap. apply andb_prop in Hcap. destruct Hcap as [Hci Hcw].
  rewrite forallb_forall in Hwi, Hci.
  destruct (mq_wan q) as [[wf tst]|] eqn:Hw.
  - rewrite (item_rows_spec (mq_cap q) h Hh).
    + rewrite (frun_gated (mq_cap q) wf h Hww Hh (leb_parts_room _ _ h h Hcw (incl_refl _))).
      apply mask_spec. exact Hw.
    + apply Forall_forall. intros f Hf. split; [apply Hwi; exact Hf|].
      apply (leb_parts_room _ _ h h (Hci f Hf) (incl_refl _)).
  - assert (Hsub : incl (filter (an_mcolpass q) h) h) by (intros x Hx; apply filter_In in Hx; tauto).
    rewrite (item_rows_spec (mq_cap q) _ (Forall_filter_l _ _ _ _ Hh)).
    + apply spread_spec. exact Hw.
    + apply Forall_forall. intros f Hf. split; [apply Hwi; exact Hf|].
      apply (leb_parts_room _ _ h _ (Hci f Hf) Hsub).
Qed.

(* ---------------------------------------------------------------- the single-item query of the first family *)
Definition query_wf (q : aquery) : bool :=
  an_fkind_wf (af_kind (aq_field q)) &&
  match aq_where q with AWAnalytic wf => an_fkind_wf (af_kind wf) | _ => true end.

Lemma spec_none q : aq_where q = AWNone -> forall h l0,
  map Some (map_prefix_aux (an_gated_spec (aq_field q)) l0 h) = an_spec_aux q l0 h.
Proof.
  intros Hw. induction h as [|r t IH]; intros l0; [reflexivity|].
  cbn [map_prefix_aux map an_spec_aux]. rewrite Hw, IH. reflexivity.
Qed.

Lemma spec_col q n : aq_where q = AWCol n -> forall h l0,
  spread (fun r => an_pos r n) h (map_prefix_aux (an_gated_spec (aq_field q)) l0 (filter (fun r => an_pos r n) h)) =
  an_spec_aux q l0 h.
Proof.
  intros Hw. induction h as [|r t IH]; intros l0; [reflexivity|].
  cbn [filter spread an_spec_aux]. rewrite Hw. destruct (an_pos r n).
  - cbn [map_prefix_aux]. rewrite IH. reflexivity.
  - rewrite IH. reflexivity.
Qed.

Lemma spec_analytic q wf : aq_where q = AWAnalytic wf -> forall h l0,
  keep_true (map_prefix_aux (an_gated_spec (aq_field q)) l0 h) (map_prefix_aux (an_gated_spec wf) l0 h) =
  an_spec_aux q l0 h.
Proof.
  intros Hw. induction h as [|r t IH]; intros l0; [reflexivity|].
  cbn [map_prefix_aux keep_true an_spec_aux]. rewrite Hw, IH. reflexivity.
Qed.

Theorem sync_spec : forall q h, query_wf q = true -> Forall row_ok h -> an_within_cap q h = true ->
  an_sync q h = an_spec_query q h.
Proof.
  intros q h Hwf Hh Hcap. rewrite where_order. unfold an_spec_query.
  unfold query_wf in Hwf. apply andb_prop in Hwf. destruct Hwf as [Hwi Hww].
  unfold an_within_cap in Hcap. apply andb_prop in Hcap. destruct Hcap as [Hci Hcw].
  change (an_parts_of (aq_field q) h <=? aq_cap q = true)%nat in Hci.
  destruct (aq_where q) as [|n|wf] eqn:Hw.
  - rewrite (frun_gated _ _ h Hwi Hh (leb_parts_room _ _ h h Hci (incl_refl _))). apply spec_none. exact Hw.
  - assert (Hsub : incl (filter (fun r => an_pos r n) h) h) by (intros x Hx; apply filter_In in Hx; tauto).
    rewrite (frun_gated _ _ _ Hwi (Forall_filter_l _ _ _ _ Hh) (leb_parts_room _ _ h _ Hci Hsub)).
    apply spec_col. exact Hw.
  - change (an_parts_of wf h <=? aq_cap q = true)%nat in Hcw.
    rewrite (frun_gated _ _ h Hwi Hh (leb_parts_room _ _ h h Hci (incl_refl _))).
    rewrite (frun_gated _ _ h Hww Hh (leb_parts_room _ _ h h Hcw (incl_refl _))).
    apply spec_analytic. exact Hw.
Qed.

(* the generic statement with the cap hypothesis of partition_isolation *)
Theorem engine_gated :
  forall (St Out : Type) (init : St) (apply : St -> arow -> St * Out) (dflt : Out)
         (gate : arow -> bool) (pkey : arow -> bytes) (cap : nat) (h : list arow),
  length (nodup bytes_dec (ckeys gate pkey h)) <= cap ->
  snd (an_eng_run St Out init apply dflt gate pkey true cap (an_eng0 _ _) h) =
  map_prefix (gspec St Out init apply dflt gate pkey) h.
Proof.
  intros St Out init apply dflt gate pkey cap h Hcap. unfold map_prefix. apply gated_part.
  - split; [constructor|]. split; intros k; reflexivity.
  - apply room_of_nodup. exact Hcap.
Qed.
