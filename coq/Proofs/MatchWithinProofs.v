(* C11 -- proofs about the exact WITHIN bound of Model/MatchWithin.v. *)
From SV Require Import Model.Lexer Model.Stmt Model.MatchWithin Proofs.LexerProofs.
From Coq Require Import Lia.
Local Open Scope N_scope.

Lemma pow10_nz : forall k, pow10 k <> 0.
Proof. induction k as [|k IH]; cbn [pow10]; lia. Qed.

(* ---------- the bound is the floor of the exact product ---------- *)
Lemma dur_floor_bounds : forall m k u,
  dur_floor (mkDec m k) u * pow10 k <= m * u /\ m * u < (dur_floor (mkDec m k) u + 1) * pow10 k.
Proof.
  intros m k u. unfold dur_floor; simpl. pose proof (pow10_nz k) as P.
  pose proof (N.mul_div_le (m * u) (pow10 k) P). pose proof (N.mul_succ_div_gt (m * u) (pow10 k) P). lia.
Qed.

Lemma dur_floor_exact : forall m k u, (m * u) mod pow10 k = 0 -> dur_floor (mkDec m k) u * pow10 k = m * u.
Proof.
  intros m k u H. unfold dur_floor; simpl. pose proof (pow10_nz k) as P.
  apply (N.div_exact (m * u) (pow10 k) P) in H. lia.
Qed.

(* whole part and fraction each contribute: floor(m*u/p) = (m/p)*u + floor((m mod p)*u/p) *)
Lemma dur_floor_split : forall m k u,
  dur_floor (mkDec m k) u = (m / pow10 k) * u + ((m mod pow10 k) * u) / pow10 k.
Proof.
  intros m k u. unfold dur_floor; simpl. pose proof (pow10_nz k) as P.
  rewrite (N.div_mod m (pow10 k) P) at 1.
  replace ((pow10 k * (m / pow10 k) + m mod pow10 k) * u)
    with ((m / pow10 k * u) * pow10 k + (m mod pow10 k) * u) by lia.
  apply N.div_add_l. exact P.
Qed.

(* the bound is "the truncated count times the unit" only when the fraction is worth less than 1 ns *)
Lemma dur_floor_truncated_iff : forall m k u,
  dur_floor (mkDec m k) u = (m / pow10 k) * u <-> (m mod pow10 k) * u < pow10 k.
Proof.
  intros m k u. rewrite dur_floor_split. pose proof (pow10_nz k) as P.
  pose proof (N.div_small_iff ((m mod pow10 k) * u) (pow10 k) P) as S.
  split; intro H.
  - apply S. lia.
  - apply S in H. lia.
Qed.

Lemma dur_floor_fraction_counts : forall m k u,
  pow10 k <= (m mod pow10 k) * u -> (m / pow10 k) * u < dur_floor (mkDec m k) u.
Proof.
  intros m k u H. rewrite dur_floor_split. pose proof (pow10_nz k) as P.
  assert (0 < (m mod pow10 k) * u / pow10 k) by (apply N.div_str_pos; lia).
  generalize dependent ((m mod pow10 k) * u / pow10 k). intros q Hq. generalize (m / pow10 k * u). intros. lia.
Qed.

(* the same bound written in a finer unit / with a trailing zero *)
Lemma dur_floor_rescale : forall m k f u, dur_floor (mkDec m k) (f * u) = dur_floor (mkDec (m * f) k) u.
Proof. intros. unfold dur_floor; simpl. f_equal. lia. Qed.

Lemma dur_floor_trailing_zero : forall m k u, dur_floor (mkDec (m * 10) (S k)) u = dur_floor (mkDec m k) u.
Proof.
  intros. unfold dur_floor; cbn [d_mant d_scale pow10]. pose proof (pow10_nz k) as P.
  replace (m * 10 * u) with (10 * (m * u)) by lia.
  apply N.div_mul_cancel_l; [exact P | lia].
Qed.

Lemma unit_ns_case : forall a b, map upper a = map upper b -> unit_ns a = unit_ns b.
Proof. intros a b H. unfold unit_ns. rewrite H. reflexivity. Qed.

Lemma within_count_case : forall n a b, map upper a = map upper b -> within_count n a = within_count n b.
Proof. intros n a b H. unfold within_count. rewrite (unit_ns_case a b H). reflexivity. Qed.

(* ---------- the text of a count ---------- *)
Lemma digits_val_app : forall a b acc, digits_val acc (a ++ b) = digits_val (digits_val acc a) b.
Proof. induction a as [|x a IH]; simpl; intros; auto. Qed.

Lemma is_digit_not_dot : is_digit 46 = false.
Proof. reflexivity. Qed.

Lemma parse_dec_int : forall ip, ip <> [] -> forallb is_digit ip = true ->
  parse_dec ip = Some (mkDec (digits_val 0 ip) 0).
Proof.
  intros ip N D. unfold parse_dec.
  pose proof (span_exact is_digit ip [] D I) as E. rewrite app_nil_r in E. rewrite E.
  destruct ip; [contradiction|]. reflexivity.
Qed.

Lemma parse_dec_frac : forall ip fp, ip <> [] -> fp <> [] -> forallb is_digit ip = true -> forallb is_digit fp = true ->
  parse_dec (ip ++ 46 :: fp) = Some (mkDec (digits_val 0 (ip ++ fp)) (List.length fp)).
Proof.
  intros ip fp N NF D F. unfold parse_dec.
  rewrite (span_exact is_digit ip (46 :: fp) D is_digit_not_dot).
  destruct ip; [contradiction|]. rewrite N.eqb_refl, F. destruct fp; [contradiction|]. reflexivity.
Qed.

(* "1.50" is "1.5" *)
Lemma within_count_trailing_zero : forall ip fp u, ip <> [] -> fp <> [] -> forallb is_digit ip = true -> forallb is_digit fp = true ->
  within_count (ip ++ 46 :: fp ++ [48]) u = within_count (ip ++ 46 :: fp) u.
Proof.
  intros ip fp u N NF D F. unfold within_count.
  assert (F' : forallb is_digit (fp ++ [48]) = true) by (rewrite forallb_app, F; reflexivity).
  assert (NF' : fp ++ [48] <> []) by (destruct fp; discriminate).
  rewrite (parse_dec_frac ip (fp ++ [48]) N NF' D F'), (parse_dec_frac ip fp N NF D F).
  destruct (unit_ns u) as [n|]; [|reflexivity]. f_equal.
  rewrite app_assoc, digits_val_app. cbn [digits_val].
  rewrite app_length. simpl List.length. rewrite Nat.add_1_r.
  change (digit_val 48) with 0. rewrite N.add_0_r.
  apply dur_floor_trailing_zero.
Qed.

(* a count that ends with the dot is not a count (the lexer's isValidNumber refuses it) *)
Lemma within_count_trailing_dot : forall ip u, forallb is_digit ip = true -> within_count (ip ++ [46]) u = None.
Proof.
  intros ip u D. unfold within_count, parse_dec.
  rewrite (span_exact is_digit ip [46] D is_digit_not_dot).
  destruct ip; reflexivity.
Qed.

(* ---------- the quoted spelling: '<count><unit>' is the same bound as <count> <UNIT> ---------- *)
Lemma is_digit_sign : forall c, is_digit c = true -> N.eqb c 45 = false /\ N.eqb c 43 = false.
Proof.
  intros c H. unfold is_digit in H. apply andb_prop in H. destruct H as [H1 H2].
  apply N.leb_le in H1. apply N.leb_le in H2. split; apply N.eqb_neq; lia.
Qed.

Lemma unitch_not_digit : forall su, forallb is_unitch su = true ->
  match su with [] => True | d :: _ => is_digit d = false end.
Proof.
  intros [|d su] H; [exact I|]. simpl in H. apply andb_prop in H. destruct H as [H _].
  unfold is_unitch in H. apply negb_true_iff in H. apply orb_false_iff in H. tauto.
Qed.

Lemma go_component_single : forall ip fp dot su un,
  ip <> [] -> forallb is_digit ip = true -> forallb is_digit fp = true ->
  forallb is_unitch su = true -> assoc su go_units = Some un ->
  (dot = true \/ fp = []) ->
  go_component (ip ++ (if dot then 46 :: fp else fp) ++ su)
  = Some (dur_floor (mkDec (digits_val 0 (ip ++ fp)) (List.length fp)) un, []).
Proof.
  intros ip fp dot su un N D F U A Hd. unfold go_component.
  assert (Hsu : su <> []) by (intro E; subst; discriminate A).
  pose proof (unitch_not_digit su U) as Hs.
  destruct dot.
  - simpl app. rewrite (span_exact is_digit ip (46 :: fp ++ su) D is_digit_not_dot).
    rewrite N.eqb_refl. rewrite (span_exact is_digit fp su F Hs).
    destruct ip as [|c ip]; [contradiction|]. simpl app.
    pose proof (span_exact is_unitch su [] U I) as E. rewrite app_nil_r in E. rewrite E, A. reflexivity.
  - destruct Hd as [Hd|Hd]; [discriminate|]. subst fp. simpl app.
    rewrite (span_exact is_digit ip su D Hs).
    destruct su as [|d su]; [contradiction|].
    assert (Hd46 : N.eqb d 46 = false).
    { simpl in U. apply andb_prop in U. destruct U as [U _]. unfold is_unitch in U.
      apply negb_true_iff in U. apply orb_false_iff in U. tauto. }
    rewrite Hd46. rewrite app_nil_r.
    destruct ip as [|c ip]; [contradiction|].
    pose proof (span_exact is_unitch (d :: su) [] U I) as E. rewrite app_nil_r in E. rewrite E, A. reflexivity.
Qed.

Lemma go_duration_pos : forall c t n, is_digit c = true -> bytes_eqb (c :: t) [48] = false ->
  go_component (c :: t) = Some (n, []) -> go_duration (c :: t) = Some (Z.of_N n).
Proof.
  intros c t n Dc H0 G. destruct (is_digit_sign c Dc) as [S1 S2].
  unfold go_duration. rewrite S1, S2, H0.
  cbn [go_components List.length]. rewrite G. rewrite N.add_0_r. reflexivity.
Qed.

Lemma go_duration_single : forall ip fp dot su un,
  ip <> [] -> forallb is_digit ip = true -> forallb is_digit fp = true ->
  forallb is_unitch su = true -> assoc su go_units = Some un ->
  (dot = true \/ fp = []) ->
  go_duration (ip ++ (if dot then 46 :: fp else fp) ++ su)
  = Some (Z.of_N (dur_floor (mkDec (digits_val 0 (ip ++ fp)) (List.length fp)) un)).
Proof.
  intros ip fp dot su un N D F U A Hd.
  assert (Hsu : su <> []) by (intro E; subst; discriminate A).
  pose proof (go_component_single ip fp dot su un N D F U A Hd) as G.
  destruct ip as [|c ip]; [contradiction|].
  pose proof D as D'. simpl in D'. apply andb_prop in D'. destruct D' as [Dc _].
  rewrite <- app_comm_cons in *.
  apply go_duration_pos; [exact Dc | | exact G].
  destruct (bytes_eqb (c :: ip ++ (if dot then 46 :: fp else fp) ++ su) [48]) eqn:B; [|reflexivity].
  apply bytes_eqb_eq in B. injection B as _ B.
  destruct ip; simpl in B; [|discriminate].
  destruct dot; simpl in B; [discriminate|]. destruct fp; simpl in B; [|discriminate].
  destruct su; [contradiction | discriminate].
Qed.

(* count and unit written apart, or together inside quotes: one bound *)
Lemma within_quoted_agrees : forall ip fp dot su U un,
  ip <> [] -> forallb is_digit ip = true -> forallb is_digit fp = true ->
  forallb is_unitch su = true -> assoc su go_units = Some un -> unit_ns U = Some un ->
  (dot = true -> fp <> []) -> (dot = false -> fp = []) ->
  go_duration (ip ++ (if dot then 46 :: fp else fp) ++ su)
  = option_map Z.of_N (within_count (ip ++ (if dot then 46 :: fp else fp)) U).
Proof.
  intros ip fp dot su U un N D F Us A Hu Hd1 Hd2.
  assert (Hd' : dot = true \/ fp = []) by (destruct dot; auto).
  rewrite (go_duration_single ip fp dot su un N D F Us A Hd').
  unfold within_count. rewrite Hu.
  destruct dot.
  - rewrite (parse_dec_frac ip fp N (Hd1 eq_refl) D F). reflexivity.
  - rewrite (Hd2 eq_refl) in *. rewrite app_nil_r.
    rewrite (parse_dec_int ip N D). reflexivity.
Qed.

(* ---------- PATTERN quantifiers: every written form is read with the written bounds ---------- *)
Lemma p_bound_digits : forall d, all_digits d = true -> p_bound (mkTok T_Number d) = Some (digits_val 0 d).
Proof. intros d H. unfold p_bound. cbn. rewrite H. reflexivity. Qed.

Lemma take_reluctant_greedy : forall r, hd_is (ty_is T_Question) r = false -> take_reluctant r = (true, r).
Proof. intros [|t r] H; cbn in *; [reflexivity | rewrite H; reflexivity]. Qed.

Lemma take_reluctant_mark : forall q r, take_reluctant (mkTok T_Question q :: r) = (false, r).
Proof. reflexivity. Qed.

(* {n,m} with n <= m -- n = m and n = 0 included *)
Lemma quant_bounded_as_written : forall lb dn cm dm rb r,
  all_digits dn = true -> all_digits dm = true -> digits_val 0 dn <= digits_val 0 dm ->
  hd_is (ty_is T_Question) r = false ->
  p_quant (mkTok T_LBrace lb :: mkTok T_Number dn :: mkTok T_Comma cm :: mkTok T_Number dm :: mkTok T_RBrace rb :: r)
  = Some (Some (digits_val 0 dn, Some (digits_val 0 dm), true), r).
Proof.
  intros lb dn cm dm rb r Hn Hm Hle Hr. unfold p_quant, p_bounded. cbn.
  rewrite (p_bound_digits _ Hn), (p_bound_digits _ Hm).
  apply N.leb_le in Hle. rewrite Hle. cbn. rewrite (take_reluctant_greedy _ Hr). reflexivity.
Qed.

(* the other forms *)
Lemma quant_exact_as_written : forall lb dn rb r,
  all_digits dn = true -> hd_is (ty_is T_Question) r = false ->
  p_quant (mkTok T_LBrace lb :: mkTok T_Number dn :: mkTok T_RBrace rb :: r)
  = Some (Some (digits_val 0 dn, Some (digits_val 0 dn), true), r).
Proof.
  intros lb dn rb r Hn Hr. unfold p_quant, p_bounded. cbn. rewrite (p_bound_digits _ Hn). cbn.
  rewrite (take_reluctant_greedy _ Hr). reflexivity.
Qed.

Lemma quant_at_least_as_written : forall lb dn cm rb r,
  all_digits dn = true -> hd_is (ty_is T_Question) r = false ->
  p_quant (mkTok T_LBrace lb :: mkTok T_Number dn :: mkTok T_Comma cm :: mkTok T_RBrace rb :: r)
  = Some (Some (digits_val 0 dn, None, true), r).
Proof.
  intros lb dn cm rb r Hn Hr. unfold p_quant, p_bounded. cbn. rewrite (p_bound_digits _ Hn). cbn.
  rewrite (take_reluctant_greedy _ Hr). reflexivity.
Qed.

Lemma quant_symbols_as_written : forall v r, hd_is (ty_is T_Question) r = false ->
  p_quant (mkTok T_Question v :: r) = Some (Some (0, Some 1, true), r)
  /\ p_quant (mkTok T_Asterisk v :: r) = Some (Some (0, None, true), r)
  /\ p_quant (mkTok T_Plus v :: r) = Some (Some (1, None, true), r).
Proof.
  intros v r Hr. unfold p_quant. cbn. rewrite (take_reluctant_greedy _ Hr). repeat split; reflexivity.
Qed.

(* {n,n} is {n}: same reading whatever follows (two spellings of one bound may differ in leading zeros) *)
Lemma quant_equal_bounds : forall lb dn cm dm rb r,
  all_digits dn = true -> all_digits dm = true -> digits_val 0 dn = digits_val 0 dm ->
  p_quant (mkTok T_LBrace lb :: mkTok T_Number dn :: mkTok T_Comma cm :: mkTok T_Number dm :: mkTok T_RBrace rb :: r)
  = p_quant (mkTok T_LBrace lb :: mkTok T_Number dn :: mkTok T_RBrace rb :: r).
Proof.
  intros lb dn cm dm rb r Hn Hm He. unfold p_quant, p_bounded. cbn.
  rewrite (p_bound_digits _ Hn), (p_bound_digits _ Hm). cbn. rewrite <- He, N.leb_refl. reflexivity.
Qed.

(* a '?' written after a quantifier changes the greedy flag and nothing else: whenever a quantifier is read
   as greedy with [r] left over, the same tokens with a '?' inserted before [r] give the same bounds, reluctant *)
Lemma quant_reluctant : forall toks lo hi r q,
  p_quant toks = Some (Some (lo, hi, true), r) ->
  exists pre, toks = pre ++ r /\ p_quant (pre ++ mkTok T_Question q :: r) = Some (Some (lo, hi, false), r).
Proof.
  intros toks lo hi r q H.
  assert (TR : forall l g l', take_reluctant l = (g, l') -> g = true -> l' = l /\ take_reluctant (mkTok T_Question q :: l) = (false, l)).
  { intros l g l' E G. destruct l as [|t l0]; cbn in E.
    - inversion E; subst. split; reflexivity.
    - destruct (ty_is T_Question t); inversion E; subst; [discriminate|]. split; reflexivity. }
  destruct toks as [|t r0]; [discriminate|]. unfold p_quant in H.
  destruct (ty_is T_Question t) eqn:E1.
  { destruct (take_reluctant r0) as [g l'] eqn:E. inversion H; subst. destruct (TR _ _ _ E eq_refl) as [-> T2].
    exists [t]. split; [reflexivity|]. cbn [app]. unfold p_quant. rewrite E1, T2. reflexivity. }
  destruct (ty_is T_Asterisk t) eqn:E2.
  { destruct (take_reluctant r0) as [g l'] eqn:E. inversion H; subst. destruct (TR _ _ _ E eq_refl) as [-> T2].
    exists [t]. split; [reflexivity|]. cbn [app]. unfold p_quant. rewrite E1, E2, T2. reflexivity. }
  destruct (ty_is T_Plus t) eqn:E3.
  { destruct (take_reluctant r0) as [g l'] eqn:E. inversion H; subst. destruct (TR _ _ _ E eq_refl) as [-> T2].
    exists [t]. split; [reflexivity|]. cbn [app]. unfold p_quant. rewrite E1, E2, E3, T2. reflexivity. }
  destruct (ty_is T_LBrace t) eqn:E4; [|discriminate].
  destruct (hd_is (ty_is T_Minus) r0) eqn:E5; [discriminate|].
  destruct (p_bounded r0) as [[[lo' hi'] r1]|] eqn:EB; [|discriminate].
  destruct (take_reluctant r1) as [g l'] eqn:E. injection H as H1 H2 H3 H4. subst lo' hi' g l'.
  destruct (TR _ _ _ E eq_refl) as [E' T2]. subst r1.
  (* the bounded form consumed a prefix of r0 *)
  assert (PB : exists pre, r0 = pre ++ r /\ forall x, hd_is (ty_is T_Minus) (pre ++ x) = false /\ p_bounded (pre ++ x) = Some ((lo, hi), x)).
  { clear - EB E5. unfold p_bounded in EB.
    destruct r0 as [|n [|c r2]]; try discriminate.
    destruct (p_bound n) as [lo0|] eqn:Bn; [|discriminate].
    destruct (ty_is T_RBrace c) eqn:C1.
    { inversion EB; subst. exists [n; c]. split; [reflexivity|]. intro x. split; [exact E5|]. unfold p_bounded. cbn [app]. rewrite Bn, C1. reflexivity. }
    destruct (ty_is T_Comma c) eqn:C2; [|discriminate].
    destruct r2 as [|m r3]; [discriminate|].
    destruct (ty_is T_RBrace m) eqn:C3.
    { inversion EB; subst. exists [n; c; m]. split; [reflexivity|]. intro x. split; [exact E5|]. unfold p_bounded. cbn [app]. rewrite Bn, C1, C2, C3. reflexivity. }
    destruct (p_bound m) as [hi0|] eqn:Bm; [|discriminate].
    destruct r3 as [|e r4]; [discriminate|].
    destruct (ty_is T_RBrace e && (lo0 <=? hi0)) eqn:C4; [|discriminate].
    inversion EB; subst. exists [n; c; m; e]. split; [reflexivity|]. intro x. split; [exact E5|]. unfold p_bounded. cbn [app]. rewrite Bn, C1, C2, C3, Bm, C4. reflexivity. }
  destruct PB as [pre [-> PB]]. exists (t :: pre). split; [reflexivity|].
  cbn [app]. unfold p_quant. rewrite E1, E2, E3, E4. destruct (PB (mkTok T_Question q :: r)) as [M B]. rewrite M, B, T2. reflexivity.
Qed.

(* "{-" after a pattern element opens an exclusion, it is not a quantifier *)
Lemma quant_exclusion_is_no_quantifier : forall lb m r,
  p_quant (mkTok T_LBrace lb :: mkTok T_Minus m :: r) = Some (None, mkTok T_LBrace lb :: mkTok T_Minus m :: r).
Proof. reflexivity. Qed.
