(* The executable checker of Spec/SlideSpec.v (chk_C08 = schk_trace: the clauses the harness applies to the real sliding
   window's trace) accepts every trace of the model of window/sliding_window.go: for every history of atomic steps with
   distinct row ids, non-negative timestamps and a fixed wall clock, no clause is violated.  Same structure as
   Proofs/TumblingSpecSound.v: a simulation invariant SK between the model state and the checker state, one lemma per
   kind of step; the watermark sub-invariant WK of that file is reused unchanged (it is about Model/Watermark.v). *)
From Coq Require Import Lia Arith Sorted.
From SV Require Import Model.Sliding Spec.SlideSpec Proofs.TumblingProofs Proofs.TumblingComplete Proofs.TumblingPTSpec
  Proofs.TumblingSpecSound Proofs.SlidingProofs Proofs.SlidingComplete.

Section SSpecSound.
  Variable c : scfg.
  Variable base : Z.
  Hypothesis Hslide : 0 < sslide c.
  Hypothesis Hsize : 0 < ssize c.
  Hypothesis Hooo : 0 <= sooo c.

  (* the watermark object is the tumbling one: instantiate the shared lemmas with a tumbling cfg of the same ooo *)
  Definition tc : cfg := {| size := 1; ooo := sooo c; lateness := 0; idle := 0 |}.

  (* ---------------- grid facts ---------------- *)
  Lemma saligned_le_align a ts : saligned c a -> 0 <= ts -> a <= ts -> a <= align ts (sslide c).
  Proof.
    intros [k Hk] Hts Hle. destruct (salign_aligned c Hslide ts) as [j Hj].
    pose proof (align_le ts (sslide c) Hslide Hts) as Hal. rewrite Hj in *. subst a.
    assert (k < j + 1) by nia. nia.
  Qed.

  Lemma saligned_gap a b : saligned c a -> saligned c b -> a - sslide c < b -> a <= b.
  Proof. intros [k Hk] [j Hj] H. subst a b. assert (k - 1 < j) by nia. nia. Qed.

  Lemma saligned_next a b : saligned c a -> saligned c b -> a < b -> a + sslide c <= b.
  Proof. intros [k Hk] [j Hj] H. subst a b. assert (k < j) by nia. nia. Qed.

  Lemma saligned_mod a : saligned c a -> a mod sslide c = 0.
  Proof. intros [k Hk]. subst a. apply Z_mod_mult. Qed.

  Lemma cover_unique a ts : ssize c < sslide c -> 0 <= ts -> saligned c a -> a <= ts < a + ssize c -> a = align ts (sslide c).
  Proof. intros Hg Hts Ha Hc. apply aligned_unique; [exact Hslide|exact Hts|exact Ha|lia]. Qed.

  Lemma covering_spec ts fuel : forall a0 a, saligned c a0 -> a0 <= ts -> In a (covering c fuel a0 ts) ->
    saligned c a /\ a <= ts < a + ssize c.
  Proof.
    induction fuel as [|f IH]; intros a0 a Ha0 Hle Hin; cbn [covering] in Hin; [contradiction|].
    destruct (ts <? a0 + ssize c) eqn:E; [|contradiction]. apply Z.ltb_lt in E.
    destruct Hin as [<-|Hin]; [split; [exact Ha0|lia]|].
    apply (IH (a0 - sslide c) a); [destruct Ha0 as [k Hk]; exists (k - 1); lia|lia|exact Hin].
  Qed.

  Lemma covers_spec ts a : 0 <= ts -> In a (covers c ts) -> saligned c a /\ a <= ts < a + ssize c.
  Proof.
    intros Hts Hin. unfold covers in Hin.
    eapply (covering_spec ts _ (align ts (sslide c)) a); [apply salign_aligned; exact Hslide| |exact Hin].
    apply (align_le ts (sslide c) Hslide Hts).
  Qed.

  (* ---------------- late (model) against on time (checker) ---------------- *)
  Definition ontime_of (mx : option Z) (ts : Z) : bool :=
    ssane c base ts && (match mx with None => true | Some m => m - sooo c <=? ts end).

  Lemma late_iff w seen mx lastw (id : Z) ts :
    WK tc base w seen mx lastw ->
    is_late ts (update_event_time (sooo c) base ts w) = ssane c base ts && negb (ontime_of mx ts).
  Proof.
    intros Hwk. pose proof (uet_WK tc base w seen mx lastw id ts Hwk) as [_ Hc _ _ _ _].
    destruct Hwk as [_ _ Hs _ _ _].
    cbn [tc ooo] in Hc. unfold is_late. rewrite Hc. unfold mx_add, sane, ontime_of, ssane. cbn [tc ooo].
    destruct (ts <=? base + sooo c + day) eqn:Es; cbn [andb option_map].
    - destruct mx as [m|]; cbn [omax].
      + destruct (m - sooo c <=? ts) eqn:E; cbn [negb].
        * apply Z.leb_le in E. apply Z.ltb_ge. lia.
        * apply Z.leb_gt in E. apply Z.ltb_lt. lia.
      + cbn [negb]. apply Z.ltb_ge. lia.
    - destruct mx as [m|]; cbn [option_map]; [|reflexivity].
      destruct (Hs m eq_refl) as (r & _ & Hsn & Hm). unfold sane in Hsn. cbn [tc ooo] in Hsn.
      apply Z.leb_le in Hsn. apply Z.leb_gt in Es. apply Z.ltb_ge. lia.
  Qed.

  (* ---------------- the checker, one event at a time ---------------- *)
  Fixpoint schk_evs (cs : scst) (evs : list ev) : scst + sclause :=
    match evs with
    | [] => inl cs
    | e :: r => match schk_ev c base cs e with inr cl => inr cl | inl cs' => schk_evs cs' r end
    end.

  Lemma schk_trace_app cs a b :
    schk_trace c base cs (a ++ b) = match schk_evs cs a with inr cl => Some cl | inl cs' => schk_trace c base cs' b end.
  Proof.
    revert cs. induction a as [|e a IH]; intros cs; cbn [app schk_trace schk_evs]; [reflexivity|].
    destruct (schk_ev c base cs e) as [cs'|cl]; [apply IH|reflexivity].
  Qed.

  Definition nb (s : scst) : scst :=
    {| q_seen := q_seen s; q_maxts := q_maxts s; q_ontime := q_ontime s; q_ontime_new := q_ontime_new s;
       q_first := q_first s; q_dw := q_dw s; q_lastw := q_lastw s; q_fired := q_fired s;
       q_lastadd := None; q_pending := [] |}.

  Lemma set_nonbatch_nb s : q_pending s = [] -> set_nonbatch s = inl (nb s).
  Proof. intros H. unfold set_nonbatch. rewrite H. reflexivity. Qed.

  Definition ont (cs : scst) : list row := q_ontime cs ++ q_ontime_new cs.
  Definition qfle (cs : scst) (a : Z) : Prop := forall f, q_first cs = Some f -> f <= a.

  (* ---------------- model state against checker state ---------------- *)
  Definition SKT (fired : list batch) (seen : list row) (t : twin) : Prop :=
    t_end t = t_start t + ssize c /\ t_close t = t_end t + slateness c /\ saligned c (t_start t) /\
    Forall (fun r => in_twin t (rts r) = true /\ In r seen) (t_snap t) /\
    exists b, find_fired (t_start t) fired = Some b /\ b_rows b = t_snap t.

  Record SK (s : sst) (cs : scst) : Prop := {
    k_inv : SInv c s;
    k_wk : WK tc base (s_w s) (q_seen cs) (q_maxts cs) (q_lastw cs);
    k_nodup : NoDup (map rid (q_seen cs));
    k_nonneg : Forall (fun r => 0 <= rts r) (q_seen cs);
    k_data : Forall (fun r => In r (q_seen cs)) (s_data s);
    k_dw : q_dw cs = s_pend s;
    k_pending : q_pending cs = [];
    k_mxf : q_maxts cs <> None -> q_first cs <> None;
    k_first : forall f, q_first cs = Some f ->
        s_init s = true /\ saligned c f /\ f <= base + sooo c + day /\ f <= s_slot s /\
        (s_adv s = false -> s_slot s <= f \/ ssize c < sslide c);
    k_ont : Forall (fun r => In r (q_seen cs) /\ exists f, q_first cs = Some f /\ f <= align (rts r) (sslide c)) (ont cs);
    k_ont_data : s_adv s = false -> Forall (fun r => In r (s_data s)) (ont cs);
    k_cover : forall r a, In r (ont cs) -> saligned c a -> a <= rts r < a + ssize c -> qfle cs a ->
        (exists b, find_fired a (q_fired cs) = Some b /\ In r (b_rows b)) \/ (In r (s_data s) /\ s_slot s <= a);
    k_fired : Forall (fun b => b_start b + sslide c <= s_slot s /\ b_end b = b_start b + ssize c) (q_fired cs);
    k_fired0 : s_adv s = false -> q_fired cs = [];
    k_trig : Forall (SKT (q_fired cs) (q_seen cs)) (s_trig s);
    k_trig_nd : NoDup (map t_start (s_trig s));
    k_open : Forall (fun b => (exists t, In t (s_trig s) /\ t_start t = b_start b)
                              \/ ole (b_end b + slateness c) (cur (s_w s))) (q_fired cs) }.

  Lemma SK_nb s cs : SK s cs -> SK s (nb cs).
  Proof.
    intros [? ? ? ? ? ? ? ? ? ? ? ? ? ? ? ? ?].
    constructor; unfold ont, qfle in *; cbn [nb q_seen q_maxts q_ontime q_ontime_new q_first q_dw q_lastw q_fired q_lastadd q_pending];
      try assumption. reflexivity.
  Qed.

  (* a watermark being handled, or waiting in the channel, comes from an accepted row: the first on-time start is set *)
  Lemma pend_first s cs x : SK s cs -> s_pend s = Some x -> q_first cs <> None.
  Proof.
    intros HK Hp. apply (k_mxf _ _ HK). pose proof (k_inv _ _ HK) as (_ & _ & _ & _ & Hpe).
    specialize (Hpe x Hp). pose proof (k_wk _ _ HK) as [_ Hc _ _ _ _]. rewrite Hc in Hpe.
    destruct (q_maxts cs); [discriminate|contradiction].
  Qed.

  Lemma find_fired_none_slot fired sl a :
    Forall (fun b => b_start b + sslide c <= sl /\ b_end b = b_start b + ssize c) fired -> sl <= a -> find_fired a fired = None.
  Proof.
    intros H Hle. unfold find_fired. induction H as [|b l Hb Hl IH]; cbn [find]; [reflexivity|].
    assert (E : (b_start b =? a) = false) by (apply Z.eqb_neq; lia). rewrite E. exact IH.
  Qed.

  Lemma pop_cur w x w' : pop_chan w = Some (x, w') -> cur w' = cur w.
  Proof. unfold pop_chan. destruct (chan w); [discriminate|]. intros [= <- <-]. reflexivity. Qed.

  (* ---------------- DeliverBegin, Tick, AddNoTs ---------------- *)
  Lemma deliver_begin_sound s cs s' evs :
    SK s cs -> sstep c s DeliverBegin = (s', evs) -> exists cs', schk_evs cs evs = inl cs' /\ SK s' cs' /\ q_seen cs' = q_seen cs.
  Proof.
    intros HK Hst. pose proof (sstep_SInv c Hslide Hsize s DeliverBegin s' evs (k_inv _ _ HK) I Hst) as Hinv'.
    cbn [sstep] in Hst. destruct (s_pend s) as [p|] eqn:Ep.
    - injection Hst as <- <-. exists cs. cbn. auto.
    - destruct (pop_chan (s_w s)) as [[x w']|] eqn:Epop; injection Hst as <- <-.
      + destruct (pop_WK _ _ _ _ _ _ _ _ (k_wk _ _ HK) Epop) as (Hwk & (r & Hr & Hsn & Hx) & Hlt).
        cbn [schk_evs schk_ev]. rewrite (set_nonbatch_nb cs (k_pending _ _ HK)).
        cbn [nb q_seen q_maxts q_ontime q_ontime_new q_first q_dw q_lastw q_fired q_lastadd q_pending].
        assert (E1 : existsb (fun r => ssane c base (rts r) && (rts r - sooo c =? x)) (q_seen cs) = true).
        { apply existsb_exists. exists r. split; [exact Hr|]. unfold sane in Hsn. cbn [tc ooo] in Hsn, Hx. unfold ssane.
          rewrite Hsn. cbn. apply Z.eqb_eq. exact Hx. }
        rewrite E1. cbn [negb].
        assert (E2 : match q_lastw cs with Some l => x <=? l | None => false end = false).
        { destruct (q_lastw cs) as [l|]; [apply Z.leb_gt; exact Hlt|reflexivity]. }
        rewrite E2. eexists. split; [reflexivity|]. split; [|reflexivity].
        pose proof (pop_cur _ _ _ Epop) as Hcur.
        destruct HK as [? ? ? ? ? ? ? ? Hfi Hont Hod Hcov ? ? ? ? Hop]. rewrite <- Hcur in Hop.
        constructor; unfold ont, qfle in *; cbn [q_seen q_maxts q_ontime q_ontime_new q_first q_dw q_lastw q_fired q_lastadd q_pending
                          s_init s_slot s_data s_trig s_w s_pend s_adv] in *; try rewrite app_nil_r; try assumption; reflexivity.
      + cbn [schk_evs schk_ev]. rewrite (set_nonbatch_nb cs (k_pending _ _ HK)).
        eexists. split; [reflexivity|]. split; [apply SK_nb; exact HK|reflexivity].
  Qed.

  Lemma tick_sound s cs now s' evs :
    SK s cs -> sstep c s (Tick now) = (s', evs) -> exists cs', schk_evs cs evs = inl cs' /\ SK s' cs' /\ q_seen cs' = q_seen cs.
  Proof.
    intros HK Hst. pose proof (sstep_SInv c Hslide Hsize s (Tick now) s' evs (k_inv _ _ HK) I Hst) as Hinv'.
    cbn [sstep] in Hst. injection Hst as <- <-. cbn [schk_evs schk_ev]. rewrite (set_nonbatch_nb cs (k_pending _ _ HK)).
    eexists. split; [reflexivity|]. split; [|reflexivity].
    apply SK_nb. destruct HK as [? Hwk ? ? ? ? ? ? ? ? ? ? ? ? ? ? Hop].
    constructor; cbn [s_init s_slot s_data s_trig s_w s_pend s_adv]; try assumption.
    - apply (tick_WK tc base eq_refl). exact Hwk.
    - eapply Forall_impl; [|exact Hop]. intros b [Hb|Hb]; [left; exact Hb|right; apply tick_mono; exact Hb].
  Qed.
  (* ---------------- FireStep ---------------- *)
  Lemma insert_twin_last t l : Forall (fun x => t_end x < t_end t) l -> insert_twin t l = l ++ [t].
  Proof.
    induction 1 as [|x l Hx Hl IH]; cbn [insert_twin app]; [reflexivity|].
    destruct (t_end t <? t_end x) eqn:E1; [apply Z.ltb_lt in E1; lia|].
    destruct (t_end t =? t_end x) eqn:E2; [apply Z.eqb_eq in E2; lia|]. f_equal. exact IH.
  Qed.

  Lemma SKT_cons_other fired seen t b : SKT fired seen t -> b_start b <> t_start t -> SKT (b :: fired) seen t.
  Proof.
    intros (A & B & C & D & p & Hf & Hr) Hne. split; [exact A|]. split; [exact B|]. split; [exact C|]. split; [exact D|].
    exists p. split; [|exact Hr]. unfold find_fired in *. cbn [find].
    assert (E : (b_start b =? t_start t) = false) by (apply Z.eqb_neq; exact Hne). rewrite E. exact Hf.
  Qed.

  Lemma find_fired_some a l b : find_fired a l = Some b -> In b l /\ b_start b = a.
  Proof. unfold find_fired. intros H. apply find_some in H as [H1 H2]. apply Z.eqb_eq in H2. auto. Qed.

  Lemma trig_behind s cs t : SK s cs -> In t (s_trig s) -> t_start t + sslide c <= s_slot s /\ t_end t = t_start t + ssize c.
  Proof.
    intros HK Hin. pose proof (k_trig _ _ HK) as Ht. rewrite Forall_forall in Ht.
    destruct (Ht t Hin) as (A & _ & _ & _ & b & Hf & _). apply find_fired_some in Hf as [Hb Hs].
    pose proof (k_fired _ _ HK) as Hfi. rewrite Forall_forall in Hfi. destruct (Hfi b Hb) as [H1 _]. split; [lia|exact A].
  Qed.

  Lemma slot_offset a sl : saligned c sl -> saligned c a -> sl <= a -> exists k, 0 <= k /\ a = sl + k * sslide c.
  Proof. intros [j Hj] [i Hi] Hle. exists (i - j). subst. split; [nia|lia]. Qed.

  (* the end of a delivery: nothing (more) to fire under this watermark *)
  Lemma nofire_sound s cs wmk :
    SK s cs -> s_pend s = Some wmk -> s_init s = true ->
    (forall r a k, In r (s_data s) -> 0 <= k -> a = s_slot s + k * sslide c -> a <= rts r < a + ssize c -> wmk < a + ssize c) ->
    let s' := sclose_expired wmk
           {| s_init := true; s_slot := srest_slot c (s_slot s) wmk; s_data := s_data s; s_trig := s_trig s;
              s_w := s_w s; s_pend := None; s_adv := s_adv s || (s_slot s + ssize c <=? wmk) |} in
    SInv c s' -> exists cs', schk_evs cs [EvDE] = inl cs' /\ SK s' cs' /\ q_seen cs' = q_seen cs.
  Proof.
    intros HK Ep Ei Hnf s' Hinv'. pose proof (k_dw _ _ HK) as Hdw. rewrite Ep in Hdw.
    pose proof (k_inv _ _ HK) as (I0 & I1 & Ia & Iw & Ip). specialize (I1 Ei). specialize (Ip wmk Ep).
    pose proof (k_ont _ _ HK) as Hont. pose proof (k_nonneg _ _ HK) as Hnn. rewrite Forall_forall in Hont, Hnn.
    cbn [schk_evs schk_ev]. rewrite (set_nonbatch_nb cs (k_pending _ _ HK)).
    cbn [nb q_seen q_maxts q_ontime q_ontime_new q_first q_dw q_lastw q_fired q_lastadd q_pending]. rewrite Hdw.
    assert (E : existsb (fun r => existsb (fun a => (match q_first cs with Some f => f | None => 0 end <=? a) && (a + ssize c <=? wmk) &&
                   negb (match find_fired a (q_fired cs) with Some b => row_in r (b_rows b) | None => false end))
                   (covers c (rts r))) (q_ontime cs) = false).
    { apply not_true_iff_false. intros H. apply existsb_exists in H as (r & Hr & H). apply existsb_exists in H as (a & Ha & H).
      apply andb_prop in H as [H H3]. apply andb_prop in H as [H1 H2]. apply Z.leb_le in H1, H2.
      assert (Hro : In r (ont cs)) by (unfold ont; apply in_or_app; left; exact Hr).
      destruct (Hont r Hro) as (Hrs & f & Hf & Hfa). rewrite Hf in H1.
      destruct (covers_spec (rts r) a (Hnn r Hrs) Ha) as [Haa Hcov].
      assert (Hq : qfle cs a) by (intros f' Hf'; rewrite Hf in Hf'; injection Hf' as <-; exact H1).
      destruct (k_cover _ _ HK r a Hro Haa Hcov Hq) as [(b & Hb & Hin)|[Hin Hle]].
      - rewrite Hb in H3. rewrite (row_in_In r _ Hin) in H3. discriminate.
      - destruct (slot_offset a (s_slot s) I1 Haa Hle) as (k & Hk & Hak).
        pose proof (Hnf r a k Hin Hk Hak Hcov). lia. }
    rewrite E. eexists. split; [reflexivity|]. split; [|reflexivity].
    assert (Hsl : s_slot s <= srest_slot c (s_slot s) wmk).
    { destruct (Z.le_gt_cases (s_slot s + ssize c) wmk) as [L|G].
      - destruct (srest_slot_spec c Hslide (s_slot s) wmk L) as (A & _). lia.
      - unfold srest_slot. destruct (_ <=? _) eqn:E1; [apply Z.leb_le in E1; lia|lia]. }
    assert (Hadv : s_adv s || (s_slot s + ssize c <=? wmk) = false -> s_adv s = false /\ srest_slot c (s_slot s) wmk = s_slot s).
    { intros H. apply orb_false_iff in H as [H1 H2]. split; [exact H1|]. unfold srest_slot. rewrite H2. reflexivity. }
    assert (Hal' : saligned c (srest_slot c (s_slot s) wmk)).
    { destruct Hinv' as (_ & J1 & _). apply J1. reflexivity. }
    pose proof (fun t => trig_behind s cs t HK) as Htb.
    destruct HK as [? Hwk ? ? ? ? ? ? Hfi ? Hod Hcov Hfd Hf0 Htr Htnd Hop].
    constructor; unfold ont, qfle in *; unfold s', sclose_expired;
      cbn [q_seen q_maxts q_ontime q_ontime_new q_first q_dw q_lastw q_fired q_lastadd q_pending
           s_init s_slot s_data s_trig s_w s_pend s_adv]; try assumption; try reflexivity.
    - intros f Hf. destruct (Hfi f Hf) as (A & B & C & D & F). split; [reflexivity|]. split; [exact B|]. split; [exact C|].
      split; [lia|]. intros Ha. destruct (Hadv Ha) as [Ha1 Ha2]. rewrite Ha2. apply F. exact Ha1.
    - intros Ha. apply Hod. apply (Hadv Ha).
    - intros r a Hr Haa Hc Hq. destruct (Hcov r a Hr Haa Hc Hq) as [H|[Hin Hle]]; [left; exact H|right].
      split; [exact Hin|].
      destruct (Z.le_gt_cases (s_slot s + ssize c) wmk) as [L|G].
      + destruct (srest_slot_spec c Hslide (s_slot s) wmk L) as (_ & [B _] & _).
        destruct (Z.le_gt_cases (srest_slot c (s_slot s) wmk) a) as [Hok|Hlt]; [exact Hok|exfalso].
        pose proof (saligned_next a _ Haa Hal' Hlt) as Hn.
        destruct (slot_offset a (s_slot s) I1 Haa Hle) as (k & Hk & Hak).
        pose proof (Hnf r a k Hin Hk Hak Hc). lia.
      + unfold srest_slot. destruct (_ <=? _) eqn:E1; [apply Z.leb_le in E1; lia|exact Hle].
    - eapply Forall_impl; [|exact Hfd]. intros b [Hb1 Hb2]. split; [lia|exact Hb2].
    - intros Ha. apply Hf0. apply (Hadv Ha).
    - apply Forall_filter. exact Htr.
    - apply NoDup_map_filter. exact Htnd.
    - rewrite Forall_forall in Hop, Hfd, Htr. apply Forall_forall. intros b Hb.
      destruct (Hop b Hb) as [(t & Ht & Hts)|Hr]; [|right; exact Hr].
      destruct (t_close t <=? wmk) eqn:Ec.
      + right. apply Z.leb_le in Ec. destruct (Htr t Ht) as (A & B & _). destruct (Hfd b Hb) as [_ Hbe].
        eapply ole_trans; [|exact Ip]. lia.
      + left. exists t. split; [|exact Hts]. apply filter_In. split; [exact Ht|]. rewrite Ec. reflexivity.
  Qed.

  Lemma fire_step_sound s cs s' evs :
    SK s cs -> sstep c s FireStep = (s', evs) -> exists cs', schk_evs cs evs = inl cs' /\ SK s' cs' /\ q_seen cs' = q_seen cs.
  Proof.
    intros HK Hst. pose proof (sstep_SInv c Hslide Hsize s FireStep s' evs (k_inv _ _ HK) I Hst) as Hinv'.
    cbn [sstep] in Hst. unfold sfire_step in Hst.
    pose proof (k_dw _ _ HK) as Hdw.
    destruct (s_pend s) as [wmk|] eqn:Ep.
    2:{ injection Hst as <- <-. exists cs. cbn. auto. }
    assert (Hinit : s_init s = true).
    { pose proof (pend_first s cs wmk HK Ep) as Hq. destruct (q_first cs) as [f|] eqn:Ef; [|congruence].
      apply (k_first _ _ HK f Ef). }
    rewrite Hinit in Hst. cbn [negb] in Hst.
    pose proof (k_inv _ _ HK) as (I0 & I1 & Ia & Iw & Ip). specialize (I1 Hinit). specialize (Ip wmk Ep).
    (* what the scan over the buffer found *)
    assert (Hscan : forall r a k, In r (s_data s) -> 0 <= k -> a = s_slot s + k * sslide c -> a <= rts r < a + ssize c ->
              exists am, omin_list (map (fun r => first_win c (s_slot s) (rts r)) (s_data s)) = Some am /\ am <= a).
    { intros r a k Hin Hk Hak Hcov.
      destruct (first_win_min c Hslide Hsize (s_slot s) (rts r) a k Hk Hak Hcov) as (a0 & k0 & Hfw & Ha0 & Hk0).
      assert (Hinl : In (Some a0) (map (fun x => first_win c (s_slot s) (rts x)) (s_data s))).
      { apply in_map_iff. exists r. auto. }
      destruct (omin_list _) as [am|] eqn:Em; [|exfalso; eapply omin_list_none; eauto].
      exists am. split; [reflexivity|]. pose proof (omin_list_le _ _ Em a0 Hinl). nia. }
    destruct (match omin_list (map (fun r => first_win c (s_slot s) (rts r)) (s_data s)) with
              | Some a => if a + ssize c <=? wmk then Some a else None | None => None end) as [a|] eqn:Efire.
    2:{ (* nothing to fire *)
      injection Hst as <- <-. apply (nofire_sound s cs wmk HK Ep Hinit); [|exact Hinv'].
      intros r a k Hin Hk Hak Hcov. destruct (Hscan r a k Hin Hk Hak Hcov) as (am & Em & Hle).
      rewrite Em in Efire. destruct (am + ssize c <=? wmk) eqn:E; [discriminate|]. apply Z.leb_gt in E. lia. }
    (* a first firing *)
    assert (Ha : omin_list (map (fun r => first_win c (s_slot s) (rts r)) (s_data s)) = Some a /\ a + ssize c <= wmk).
    { destruct (omin_list _) as [am|]; [|discriminate]. destruct (am + ssize c <=? wmk) eqn:E; [|discriminate].
      injection Efire as <-. apply Z.leb_le in E. auto. }
    destruct Ha as [Em Haw]. clear Efire.
    pose proof (omin_list_in _ _ Em) as Hmin. apply in_map_iff in Hmin as [rm [Hrm _]].
    destruct (first_win_grid c Hslide _ _ _ I1 Hrm) as (Haa & Hsa & _).
    injection Hst as <- <-.
    set (res := filter (fun r => sinwin c a (rts r)) (s_data s)) in *.
    set (keep := filter (fun r => negb (rts r <? a + sslide c)) (s_data s)) in *.
    cbn [schk_evs schk_ev b_start b_end b_rows].
    assert (C1 : (a + ssize c =? a + ssize c) && (0 <? sslide c) && (a mod sslide c =? 0)
                 && forallb (fun r => sinwin c a (rts r)) res = true).
    { rewrite Z.eqb_refl. assert (E : (0 <? sslide c) = true) by (apply Z.ltb_lt; exact Hslide). rewrite E. cbn [andb].
      apply andb_true_iff. split; [apply Z.eqb_eq; apply saligned_mod; exact Haa|].
      apply forallb_forall. intros x Hx. apply filter_In in Hx as [_ Hx]. exact Hx. }
    rewrite C1. cbn [negb].
    pose proof (k_data _ _ HK) as Hds. rewrite Forall_forall in Hds.
    assert (C2 : sub_rows res (q_seen cs) = true).
    { apply forallb_forall. intros x Hx. apply row_in_In. apply Hds. apply filter_In in Hx as [Hx _]. exact Hx. }
    rewrite C2. cbn [negb].
    pose proof (k_fired _ _ HK) as Hf.
    pose proof (find_fired_none_slot (q_fired cs) (s_slot s) a Hf Hsa) as Hfn. rewrite Hfn.
    assert (C4 : match q_fired cs with f :: _ => a <=? b_start f | [] => false end = false).
    { destruct (q_fired cs) as [|f fl]; [reflexivity|]. inversion Hf as [|x y [Hx _] Hy]; subst. apply Z.leb_gt. lia. }
    rewrite C4.
    assert (Hqf : qfle cs a).
    { intros f Ef. destruct (k_first _ _ HK f Ef) as (_ & _ & _ & D & _). lia. }
    assert (C5 : match q_first cs with Some f => a <? f | None => true end = false).
    { pose proof (pend_first s cs wmk HK Ep) as Hq. destruct (q_first cs) as [f|] eqn:Ef; [|congruence].
      apply Z.ltb_ge. exact (Hqf f Ef). }
    rewrite C5. rewrite Hdw.
    assert (C6 : negb (a + ssize c <=? wmk) = false) by (apply negb_false_iff, Z.leb_le; exact Haw).
    rewrite C6.
    assert (C7 : negb (forallb (fun r => negb (sinwin c a (rts r)) || row_in r res) (q_ontime cs ++ q_ontime_new cs)) = false).
    { apply negb_false_iff. apply forallb_forall. intros r Hr. destruct (sinwin c a (rts r)) eqn:Ew; [cbn [negb orb]|reflexivity].
      assert (Hcov : a <= rts r < a + ssize c).
      { unfold sinwin in Ew. apply andb_prop in Ew as [A B]. apply Z.leb_le in A. apply Z.ltb_lt in B. lia. }
      destruct (k_cover _ _ HK r a Hr Haa Hcov Hqf) as [(b & Hb & _)|[Hin _]]; [congruence|].
      apply row_in_In. apply filter_In. split; [exact Hin|exact Ew]. }
    rewrite C7. eexists. split; [reflexivity|]. split; [|reflexivity].
    pose proof (fun t => trig_behind s cs t HK) as Htb.
    set (bn := {| b_start := a; b_end := a + ssize c; b_rows := res; b_late := false |}) in *.
    set (tn := {| t_start := a; t_end := a + ssize c; t_close := a + ssize c + slateness c; t_snap := res |}) in *.
    assert (Hins : insert_twin tn (s_trig s) = s_trig s ++ [tn]).
    { apply insert_twin_last. apply Forall_forall. intros t Ht. destruct (Htb t Ht) as [A B]. cbn [tn t_end]. lia. }
    destruct HK as [? Hwk ? ? ? ? Hpe ? Hfi ? Hod Hcov Hfd Hf0 Htr Htnd Hop].
    constructor; unfold ont, qfle in *;
      cbn [q_seen q_maxts q_ontime q_ontime_new q_first q_dw q_lastw q_fired q_lastadd q_pending
           s_init s_slot s_data s_trig s_w s_pend s_adv]; try assumption; try discriminate; try reflexivity.
    - apply Forall_filter. assumption.
    - intros f Ef. destruct (Hfi f Ef) as (A & B & C & D & _). split; [reflexivity|]. split; [exact B|]. split; [exact C|].
      split; [lia|discriminate].
    - (* covering intervals *)
      intros r a' Hr Haa' Hc Hq. destruct (Hcov r a' Hr Haa' Hc Hq) as [(b & Hb & Hin)|[Hin Hle]].
      + left. exists b. split; [|exact Hin]. unfold find_fired in *. cbn [find bn b_start].
        destruct (a =? a') eqn:E; [apply Z.eqb_eq in E; subst a'; congruence|exact Hb].
      + destruct (Z.lt_trichotomy a' a) as [Hlt|[Heq|Hgt]].
        * exfalso. destruct (slot_offset a' (s_slot s) I1 Haa' Hle) as (k & Hk & Hak).
          destruct (Hscan r a' k Hin Hk Hak Hc) as (am & Em' & Hle'). rewrite Em in Em'. injection Em' as <-. lia.
        * subst a'. left. exists bn. split; [unfold find_fired; cbn [find bn b_start]; rewrite Z.eqb_refl; reflexivity|].
          cbn [bn b_rows]. apply filter_In. split; [exact Hin|]. unfold sinwin. apply andb_true_iff.
          split; [apply Z.leb_le|apply Z.ltb_lt]; lia.
        * right. pose proof (saligned_next a a' Haa Haa' Hgt) as Hn. split; [|exact Hn].
          apply filter_In. split; [exact Hin|]. apply negb_true_iff, Z.ltb_ge. lia.
    - constructor; [cbn [bn b_start b_end]; split; lia|]. eapply Forall_impl; [|exact Hfd]. intros b [Hb1 Hb2]. split; [lia|exact Hb2].
    - (* triggered windows *)
      assert (Hko : Forall (SKT (bn :: q_fired cs) (q_seen cs)) (s_trig s)).
      { apply Forall_forall. intros t Hin. rewrite Forall_forall in Htr. apply SKT_cons_other; [apply Htr; exact Hin|].
        cbn [bn b_start]. destruct (Htb t Hin) as [A _]. lia. }
      destruct (0 <? slateness c); [|exact Hko]. rewrite Hins.
      apply Forall_app. split; [exact Hko|]. constructor; [|constructor].
      split; [reflexivity|]. split; [reflexivity|]. split; [exact Haa|]. cbn [tn t_start t_end t_snap]. split.
      + apply Forall_forall. intros r Hr. apply filter_In in Hr as [Hr Hw]. split; [|apply Hds; exact Hr].
        unfold in_twin, sinwin in *. cbn [t_start t_end]. exact Hw.
      + exists bn. split; [unfold find_fired; cbn [find bn b_start]; rewrite Z.eqb_refl; reflexivity|reflexivity].
    - destruct (0 <? slateness c); [|exact Htnd]. rewrite Hins. rewrite map_app. cbn [map tn t_start]. apply NoDup_snoc; [exact Htnd|].
      intros Hin. apply in_map_iff in Hin as (t & Hts & Hin). destruct (Htb t Hin) as [A _]. lia.
    - constructor.
      + destruct (0 <? slateness c) eqn:El.
        * left. exists tn. split; [rewrite Hins; apply in_or_app; right; left; reflexivity|reflexivity].
        * right. apply Z.ltb_ge in El. cbn [bn b_end]. eapply ole_trans; [|exact Ip]. lia.
      + eapply Forall_impl; [|exact Hop]. intros b [(t & Ht & Hts)|Hr]; [left|right; exact Hr].
        exists t. split; [|exact Hts]. destruct (0 <? slateness c); [|exact Ht]. rewrite Hins. apply in_or_app. left. exact Ht.
  Qed.
End SSpecSound.
