(* The executable checker of Spec/SlideSpec.v (chk_C08 = schk_trace: the clauses the harness applies to the real sliding
   window's trace) accepts every trace of the model of window/sliding_window.go: for every history of atomic steps with
   distinct row ids, non-negative timestamps and a fixed wall clock, no clause is violated.  Same structure as
   Proofs/TumblingSpecSound.v: a simulation invariant SK between the model state and the checker state, one lemma per
   kind of step; the watermark sub-invariant WK of that file is reused unchanged (it is about Model/Watermark.v). *)
From Coq Require Import Lia Arith Sorted.
From SV Require Import Model.Sliding Spec.SlideSpec Proofs.TumblingProofs Proofs.TumblingComplete Proofs.TumblingPTSpec
  Proofs.TumblingSpecSound Proofs.SlidingProofs Proofs.SlidingComplete.

Section SSpecSound.
  Variable c : scfg.
  Variable base : Z.
  Hypothesis Hslide : 0 < sslide c.
  Hypothesis Hsize : 0 < ssize c.
  Hypothesis Hooo : 0 <= sooo c.

  (* the watermark object is the tumbling one: instantiate the shared lemmas with a tumbling cfg of the same ooo *)
  Definition tc : cfg := {| size := 1; ooo := sooo c; lateness := 0; idle := 0 |}.

  (* ---------------- grid facts ---------------- *)
  Lemma saligned_le_align a ts : saligned c a -> 0 <= ts -> a <= ts -> a <= align ts (sslide c).
  Proof.
    intros [k Hk] Hts Hle. destruct (salign_aligned c Hslide ts) as [j Hj].
    pose proof (align_le ts (sslide c) Hslide Hts) as Hal. rewrite Hj in *. subst a.
    assert (k < j + 1) by nia. nia.
  Qed.

  Lemma saligned_gap a b : saligned c a -> saligned c b -> a - sslide c < b -> a <= b.
  Proof. intros [k Hk] [j Hj] H. subst a b. assert (k - 1 < j) by nia. nia. Qed.

  Lemma saligned_next a b : saligned c a -> saligned c b -> a < b -> a + sslide c <= b.
  Proof. intros [k Hk] [j Hj] H. subst a b. assert (k < j) by nia. nia. Qed.

  Lemma saligned_mod a : saligned c a -> a mod sslide c = 0.
  Proof. intros [k Hk]. subst a. apply Z_mod_mult. Qed.

  Lemma cover_unique a ts : ssize c < sslide c -> 0 <= ts -> saligned c a -> a <= ts < a + ssize c -> a = align ts (sslide c).
  Proof. intros Hg Hts Ha Hc. apply aligned_unique; [exact Hslide|exact Hts|exact Ha|lia]. Qed.

  Lemma covering_spec ts fuel : forall a0 a, saligned c a0 -> a0 <= ts -> In a (covering c fuel a0 ts) ->
    saligned c a /\ a <= ts < a + ssize c.
  Proof.
    induction fuel as [|f IH]; intros a0 a Ha0 Hle Hin; cbn [covering] in Hin; [contradiction|].
    destruct (ts <? a0 + ssize c) eqn:E; [|contradiction]. apply Z.ltb_lt in E.
    destruct Hin as [<-|Hin]; [split; [exact Ha0|lia]|].
    apply (IH (a0 - sslide c) a); [destruct Ha0 as [k Hk]; exists (k - 1); lia|lia|exact Hin].
  Qed.

  Lemma covers_spec ts a : 0 <= ts -> In a (covers c ts) -> saligned c a /\ a <= ts < a + ssize c.
  Proof.
    intros Hts Hin. unfold covers in Hin.
    eapply (covering_spec ts _ (align ts (sslide c)) a); [apply salign_aligned; exact Hslide| |exact Hin].
    apply (align_le ts (sslide c) Hslide Hts).
  Qed.

  (* ---------------- late (model) against on time (checker) ---------------- *)
  Definition ontime_of (mx : option Z) (ts : Z) : bool :=
    ssane c base ts && (match mx with None => true | Some m => m - sooo c <=? ts end).

  Lemma late_iff w seen mx lastw (id : Z) ts :
    WK tc base w seen mx lastw ->
    is_late ts (update_event_time (sooo c) base ts w) = ssane c base ts && negb (ontime_of mx ts).
  Proof.
    intros Hwk. pose proof (uet_WK tc base w seen mx lastw id ts Hwk) as [_ Hc _ _ _ _].
    destruct Hwk as [_ _ Hs _ _ _].
    cbn [tc ooo] in Hc. unfold is_late. rewrite Hc. unfold mx_add, sane, ontime_of, ssane. cbn [tc ooo].
    destruct (ts <=? base + sooo c + day) eqn:Es; cbn [andb option_map].
    - destruct mx as [m|]; cbn [omax].
      + destruct (m - sooo c <=? ts) eqn:E; cbn [negb].
        * apply Z.leb_le in E. apply Z.ltb_ge. lia.
        * apply Z.leb_gt in E. apply Z.ltb_lt. lia.
      + cbn [negb]. apply Z.ltb_ge. lia.
    - destruct mx as [m|]; cbn [option_map]; [|reflexivity].
      destruct (Hs m eq_refl) as (r & _ & Hsn & Hm). unfold sane in Hsn. cbn [tc ooo] in Hsn.
      apply Z.leb_le in Hsn. apply Z.leb_gt in Es. apply Z.ltb_ge. lia.
  Qed.

  (* ---------------- the checker, one event at a time ---------------- *)
  Fixpoint schk_evs (cs : scst) (evs : list ev) : scst + sclause :=
    match evs with
    | [] => inl cs
    | e :: r => match schk_ev c base cs e with inr cl => inr cl | inl cs' => schk_evs cs' r end
    end.

  Lemma schk_trace_app cs a b :
    schk_trace c base cs (a ++ b) = match schk_evs cs a with inr cl => Some cl | inl cs' => schk_trace c base cs' b end.
  Proof.
    revert cs. induction a as [|e a IH]; intros cs; cbn [app schk_trace schk_evs]; [reflexivity|].
    destruct (schk_ev c base cs e) as [cs'|cl]; [apply IH|reflexivity].
  Qed.

  Definition nb (s : scst) : scst :=
    {| q_seen := q_seen s; q_maxts := q_maxts s; q_ontime := q_ontime s; q_ontime_new := q_ontime_new s;
       q_first := q_first s; q_dw := q_dw s; q_lastw := q_lastw s; q_fired := q_fired s;
       q_lastadd := None; q_pending := [] |}.

  Lemma set_nonbatch_nb s : q_pending s = [] -> set_nonbatch s = inl (nb s).
  Proof. intros H. unfold set_nonbatch. rewrite H. reflexivity. Qed.

  Definition ont (cs : scst) : list row := q_ontime cs ++ q_ontime_new cs.
  Definition qfle (cs : scst) (a : Z) : Prop := forall f, q_first cs = Some f -> f <= a.

  (* ---------------- model state against checker state ---------------- *)
  Definition SKT (fired : list batch) (seen : list row) (t : twin) : Prop :=
    t_end t = t_start t + ssize c /\ t_close t = t_end t + slateness c /\ saligned c (t_start t) /\
    Forall (fun r => in_twin t (rts r) = true /\ In r seen) (t_snap t) /\
    exists b, find_fired (t_start t) fired = Some b /\ b_rows b = t_snap t.

  Record SK (s : sst) (cs : scst) : Prop := {
    k_inv : SInv c s;
    k_wk : WK tc base (s_w s) (q_seen cs) (q_maxts cs) (q_lastw cs);
    k_nodup : NoDup (map rid (q_seen cs));
    k_nonneg : Forall (fun r => 0 <= rts r) (q_seen cs);
    k_data : Forall (fun r => In r (q_seen cs)) (s_data s);
    k_dw : q_dw cs = s_pend s;
    k_pending : q_pending cs = [];
    k_mxf : q_maxts cs <> None -> q_first cs <> None;
    k_first : forall f, q_first cs = Some f ->
        s_init s = true /\ saligned c f /\ f <= base + sooo c + day /\ f <= s_slot s /\
        (s_adv s = false -> s_slot s <= f \/ ssize c < sslide c);
    k_first0 : q_first cs = None -> s_init s = true -> base + sooo c + day < s_slot s + sslide c;
    k_ont : Forall (fun r => In r (q_seen cs) /\ exists f, q_first cs = Some f /\ f <= align (rts r) (sslide c)) (ont cs);
    k_ont_data : s_adv s = false -> Forall (fun r => In r (s_data s)) (ont cs);
    k_cover : forall r a, In r (ont cs) -> saligned c a -> a <= rts r < a + ssize c -> qfle cs a ->
        (exists b, find_fired a (q_fired cs) = Some b /\ In r (b_rows b)) \/ (In r (s_data s) /\ s_slot s <= a);
    k_fired : Forall (fun b => b_start b + sslide c <= s_slot s /\ b_end b = b_start b + ssize c) (q_fired cs);
    k_fired0 : s_adv s = false -> q_fired cs = [];
    k_trig : Forall (SKT (q_fired cs) (q_seen cs)) (s_trig s);
    k_trig_nd : NoDup (map t_start (s_trig s));
    k_open : Forall (fun b => (exists t, In t (s_trig s) /\ t_start t = b_start b)
                              \/ ole (b_end b + slateness c) (cur (s_w s))) (q_fired cs) }.

  Lemma SK_nb s cs : SK s cs -> SK s (nb cs).
  Proof.
    intros [? ? ? ? ? ? ? ? ? ? ? ? ? ? ? ? ? ?].
    constructor; unfold ont, qfle in *; cbn [nb q_seen q_maxts q_ontime q_ontime_new q_first q_dw q_lastw q_fired q_lastadd q_pending];
      try assumption. reflexivity.
  Qed.

  (* a watermark being handled, or waiting in the channel, comes from an accepted row: the first on-time start is set *)
  Lemma pend_first s cs x : SK s cs -> s_pend s = Some x -> q_first cs <> None.
  Proof.
    intros HK Hp. apply (k_mxf _ _ HK). pose proof (k_inv _ _ HK) as (_ & _ & _ & _ & Hpe).
    specialize (Hpe x Hp). pose proof (k_wk _ _ HK) as [_ Hc _ _ _ _]. rewrite Hc in Hpe.
    destruct (q_maxts cs); [discriminate|contradiction].
  Qed.

  Lemma find_fired_none_slot fired sl a :
    Forall (fun b => b_start b + sslide c <= sl /\ b_end b = b_start b + ssize c) fired -> sl <= a -> find_fired a fired = None.
  Proof.
    intros H Hle. unfold find_fired. induction H as [|b l Hb Hl IH]; cbn [find]; [reflexivity|].
    assert (E : (b_start b =? a) = false) by (apply Z.eqb_neq; lia). rewrite E. exact IH.
  Qed.

  Lemma pop_cur w x w' : pop_chan w = Some (x, w') -> cur w' = cur w.
  Proof. unfold pop_chan. destruct (chan w); [discriminate|]. intros [= <- <-]. reflexivity. Qed.

  (* ---------------- DeliverBegin, Tick, AddNoTs ---------------- *)
  Lemma deliver_begin_sound s cs s' evs :
    SK s cs -> sstep c s DeliverBegin = (s', evs) -> exists cs', schk_evs cs evs = inl cs' /\ SK s' cs' /\ q_seen cs' = q_seen cs.
  Proof.
    intros HK Hst. pose proof (sstep_SInv c Hslide Hsize s DeliverBegin s' evs (k_inv _ _ HK) I Hst) as Hinv'.
    cbn [sstep] in Hst. destruct (s_pend s) as [p|] eqn:Ep.
    - injection Hst as <- <-. exists cs. cbn. auto.
    - destruct (pop_chan (s_w s)) as [[x w']|] eqn:Epop; injection Hst as <- <-.
      + destruct (pop_WK _ _ _ _ _ _ _ _ (k_wk _ _ HK) Epop) as (Hwk & (r & Hr & Hsn & Hx) & Hlt).
        cbn [schk_evs schk_ev]. rewrite (set_nonbatch_nb cs (k_pending _ _ HK)).
        cbn [nb q_seen q_maxts q_ontime q_ontime_new q_first q_dw q_lastw q_fired q_lastadd q_pending].
        assert (E1 : existsb (fun r => ssane c base (rts r) && (rts r - sooo c =? x)) (q_seen cs) = true).
        { apply existsb_exists. exists r. split; [exact Hr|]. unfold sane in Hsn. cbn [tc ooo] in Hsn, Hx. unfold ssane.
          rewrite Hsn. cbn. apply Z.eqb_eq. exact Hx. }
        rewrite E1. cbn [negb].
        assert (E2 : match q_lastw cs with Some l => x <=? l | None => false end = false).
        { destruct (q_lastw cs) as [l|]; [apply Z.leb_gt; exact Hlt|reflexivity]. }
        rewrite E2. eexists. split; [reflexivity|]. split; [|reflexivity].
        pose proof (pop_cur _ _ _ Epop) as Hcur.
        destruct HK as [? ? ? ? ? ? ? ? Hfi Hf00 Hont Hod Hcov ? ? ? ? Hop]. rewrite <- Hcur in Hop.
        constructor; unfold ont, qfle in *; cbn [q_seen q_maxts q_ontime q_ontime_new q_first q_dw q_lastw q_fired q_lastadd q_pending
                          s_init s_slot s_data s_trig s_w s_pend s_adv] in *; try rewrite app_nil_r; try assumption; reflexivity.
      + cbn [schk_evs schk_ev]. rewrite (set_nonbatch_nb cs (k_pending _ _ HK)).
        eexists. split; [reflexivity|]. split; [apply SK_nb; exact HK|reflexivity].
  Qed.

  Lemma tick_sound s cs now s' evs :
    SK s cs -> sstep c s (Tick now) = (s', evs) -> exists cs', schk_evs cs evs = inl cs' /\ SK s' cs' /\ q_seen cs' = q_seen cs.
  Proof.
    intros HK Hst. pose proof (sstep_SInv c Hslide Hsize s (Tick now) s' evs (k_inv _ _ HK) I Hst) as Hinv'.
    cbn [sstep] in Hst. injection Hst as <- <-. cbn [schk_evs schk_ev]. rewrite (set_nonbatch_nb cs (k_pending _ _ HK)).
    eexists. split; [reflexivity|]. split; [|reflexivity].
    apply SK_nb. destruct HK as [? Hwk ? ? ? ? ? ? ? ? ? ? ? ? ? ? ? Hop].
    constructor; cbn [s_init s_slot s_data s_trig s_w s_pend s_adv]; try assumption.
    - apply (tick_WK tc base eq_refl). exact Hwk.
    - eapply Forall_impl; [|exact Hop]. intros b [Hb|Hb]; [left; exact Hb|right; apply tick_mono; exact Hb].
  Qed.
  (* ---------------- FireStep ---------------- *)
  Lemma insert_twin_last t l : Forall (fun x => t_end x < t_end t) l -> insert_twin t l = l ++ [t].
  Proof.
    induction 1 as [|x l Hx Hl IH]; cbn [insert_twin app]; [reflexivity|].
    destruct (t_end t <? t_end x) eqn:E1; [apply Z.ltb_lt in E1; lia|].
    destruct (t_end t =? t_end x) eqn:E2; [apply Z.eqb_eq in E2; lia|]. f_equal. exact IH.
  Qed.

  Lemma SKT_cons_other fired seen t b : SKT fired seen t -> b_start b <> t_start t -> SKT (b :: fired) seen t.
  Proof.
    intros (A & B & C & D & p & Hf & Hr) Hne. split; [exact A|]. split; [exact B|]. split; [exact C|]. split; [exact D|].
    exists p. split; [|exact Hr]. unfold find_fired in *. cbn [find].
    assert (E : (b_start b =? t_start t) = false) by (apply Z.eqb_neq; exact Hne). rewrite E. exact Hf.
  Qed.

  Lemma find_fired_some a l b : find_fired a l = Some b -> In b l /\ b_start b = a.
  Proof. unfold find_fired. intros H. apply find_some in H as [H1 H2]. apply Z.eqb_eq in H2. auto. Qed.

  Lemma trig_behind s cs t : SK s cs -> In t (s_trig s) -> t_start t + sslide c <= s_slot s /\ t_end t = t_start t + ssize c.
  Proof.
    intros HK Hin. pose proof (k_trig _ _ HK) as Ht. rewrite Forall_forall in Ht.
    destruct (Ht t Hin) as (A & _ & _ & _ & b & Hf & _). apply find_fired_some in Hf as [Hb Hs].
    pose proof (k_fired _ _ HK) as Hfi. rewrite Forall_forall in Hfi. destruct (Hfi b Hb) as [H1 _]. split; [lia|exact A].
  Qed.

  Lemma slot_offset a sl : saligned c sl -> saligned c a -> sl <= a -> exists k, 0 <= k /\ a = sl + k * sslide c.
  Proof. intros [j Hj] [i Hi] Hle. exists (i - j). subst. split; [nia|lia]. Qed.

  (* the end of a delivery: nothing (more) to fire under this watermark *)
  Lemma nofire_sound s cs wmk :
    SK s cs -> s_pend s = Some wmk -> s_init s = true ->
    (forall r a k, In r (s_data s) -> 0 <= k -> a = s_slot s + k * sslide c -> a <= rts r < a + ssize c -> wmk < a + ssize c) ->
    let s' := sclose_expired wmk
           {| s_init := true; s_slot := srest_slot c (s_slot s) wmk; s_data := s_data s; s_trig := s_trig s;
              s_w := s_w s; s_pend := None; s_adv := s_adv s || (s_slot s + ssize c <=? wmk) |} in
    SInv c s' -> exists cs', schk_evs cs [EvDE] = inl cs' /\ SK s' cs' /\ q_seen cs' = q_seen cs.
  Proof.
    intros HK Ep Ei Hnf s' Hinv'. pose proof (k_dw _ _ HK) as Hdw. rewrite Ep in Hdw.
    pose proof (k_inv _ _ HK) as (I0 & I1 & Ia & Iw & Ip). specialize (I1 Ei). specialize (Ip wmk Ep).
    pose proof (k_ont _ _ HK) as Hont. pose proof (k_nonneg _ _ HK) as Hnn. rewrite Forall_forall in Hont, Hnn.
    cbn [schk_evs schk_ev]. rewrite (set_nonbatch_nb cs (k_pending _ _ HK)).
    cbn [nb q_seen q_maxts q_ontime q_ontime_new q_first q_dw q_lastw q_fired q_lastadd q_pending]. rewrite Hdw.
    assert (E : existsb (fun r => existsb (fun a => (match q_first cs with Some f => f | None => 0 end <=? a) && (a + ssize c <=? wmk) &&
                   negb (match find_fired a (q_fired cs) with Some b => row_in r (b_rows b) | None => false end))
                   (covers c (rts r))) (q_ontime cs) = false).
    { apply not_true_iff_false. intros H. apply existsb_exists in H as (r & Hr & H). apply existsb_exists in H as (a & Ha & H).
      apply andb_prop in H as [H H3]. apply andb_prop in H as [H1 H2]. apply Z.leb_le in H1, H2.
      assert (Hro : In r (ont cs)) by (unfold ont; apply in_or_app; left; exact Hr).
      destruct (Hont r Hro) as (Hrs & f & Hf & Hfa). rewrite Hf in H1.
      destruct (covers_spec (rts r) a (Hnn r Hrs) Ha) as [Haa Hcov].
      assert (Hq : qfle cs a) by (intros f' Hf'; rewrite Hf in Hf'; injection Hf' as <-; exact H1).
      destruct (k_cover _ _ HK r a Hro Haa Hcov Hq) as [(b & Hb & Hin)|[Hin Hle]].
      - rewrite Hb in H3. rewrite (row_in_In r _ Hin) in H3. discriminate.
      - destruct (slot_offset a (s_slot s) I1 Haa Hle) as (k & Hk & Hak).
        pose proof (Hnf r a k Hin Hk Hak Hcov). lia. }
    rewrite E. eexists. split; [reflexivity|]. split; [|reflexivity].
    assert (Hsl : s_slot s <= srest_slot c (s_slot s) wmk).
    { destruct (Z.le_gt_cases (s_slot s + ssize c) wmk) as [L|G].
      - destruct (srest_slot_spec c Hslide (s_slot s) wmk L) as (A & _). lia.
      - unfold srest_slot. destruct (_ <=? _) eqn:E1; [apply Z.leb_le in E1; lia|lia]. }
    assert (Hadv : s_adv s || (s_slot s + ssize c <=? wmk) = false -> s_adv s = false /\ srest_slot c (s_slot s) wmk = s_slot s).
    { intros H. apply orb_false_iff in H as [H1 H2]. split; [exact H1|]. unfold srest_slot. rewrite H2. reflexivity. }
    assert (Hal' : saligned c (srest_slot c (s_slot s) wmk)).
    { destruct Hinv' as (_ & J1 & _). apply J1. reflexivity. }
    pose proof (fun t => trig_behind s cs t HK) as Htb.
    destruct HK as [? Hwk ? ? ? ? ? ? Hfi Hf00 ? Hod Hcov Hfd Hf0 Htr Htnd Hop].
    constructor; unfold ont, qfle in *; unfold s', sclose_expired;
      cbn [q_seen q_maxts q_ontime q_ontime_new q_first q_dw q_lastw q_fired q_lastadd q_pending
           s_init s_slot s_data s_trig s_w s_pend s_adv]; try assumption; try reflexivity.
    - intros f Hf. destruct (Hfi f Hf) as (A & B & C & D & F). split; [reflexivity|]. split; [exact B|]. split; [exact C|].
      split; [lia|]. intros Ha. destruct (Hadv Ha) as [Ha1 Ha2]. rewrite Ha2. apply F. exact Ha1.
    - intros Hn _. specialize (Hf00 Hn Ei). lia.
    - intros Ha. apply Hod. apply (Hadv Ha).
    - intros r a Hr Haa Hc Hq. destruct (Hcov r a Hr Haa Hc Hq) as [H|[Hin Hle]]; [left; exact H|right].
      split; [exact Hin|].
      destruct (Z.le_gt_cases (s_slot s + ssize c) wmk) as [L|G].
      + destruct (srest_slot_spec c Hslide (s_slot s) wmk L) as (_ & [B _] & _).
        destruct (Z.le_gt_cases (srest_slot c (s_slot s) wmk) a) as [Hok|Hlt]; [exact Hok|exfalso].
        pose proof (saligned_next a _ Haa Hal' Hlt) as Hn.
        destruct (slot_offset a (s_slot s) I1 Haa Hle) as (k & Hk & Hak).
        pose proof (Hnf r a k Hin Hk Hak Hc). lia.
      + unfold srest_slot. destruct (_ <=? _) eqn:E1; [apply Z.leb_le in E1; lia|exact Hle].
    - eapply Forall_impl; [|exact Hfd]. intros b [Hb1 Hb2]. split; [lia|exact Hb2].
    - intros Ha. apply Hf0. apply (Hadv Ha).
    - apply Forall_filter. exact Htr.
    - apply NoDup_map_filter. exact Htnd.
    - rewrite Forall_forall in Hop, Hfd, Htr. apply Forall_forall. intros b Hb.
      destruct (Hop b Hb) as [(t & Ht & Hts)|Hr]; [|right; exact Hr].
      destruct (t_close t <=? wmk) eqn:Ec.
      + right. apply Z.leb_le in Ec. destruct (Htr t Ht) as (A & B & _). destruct (Hfd b Hb) as [_ Hbe].
        eapply ole_trans; [|exact Ip]. lia.
      + left. exists t. split; [|exact Hts]. apply filter_In. split; [exact Ht|]. rewrite Ec. reflexivity.
  Qed.

  Lemma fire_step_sound s cs s' evs :
    SK s cs -> sstep c s FireStep = (s', evs) -> exists cs', schk_evs cs evs = inl cs' /\ SK s' cs' /\ q_seen cs' = q_seen cs.
  Proof.
    intros HK Hst. pose proof (sstep_SInv c Hslide Hsize s FireStep s' evs (k_inv _ _ HK) I Hst) as Hinv'.
    cbn [sstep] in Hst. unfold sfire_step in Hst.
    pose proof (k_dw _ _ HK) as Hdw.
    destruct (s_pend s) as [wmk|] eqn:Ep.
    2:{ injection Hst as <- <-. exists cs. cbn. auto. }
    assert (Hinit : s_init s = true).
    { pose proof (pend_first s cs wmk HK Ep) as Hq. destruct (q_first cs) as [f|] eqn:Ef; [|congruence].
      apply (k_first _ _ HK f Ef). }
    rewrite Hinit in Hst. cbn [negb] in Hst.
    pose proof (k_inv _ _ HK) as (I0 & I1 & Ia & Iw & Ip). specialize (I1 Hinit). specialize (Ip wmk Ep).
    (* what the scan over the buffer found *)
    assert (Hscan : forall r a k, In r (s_data s) -> 0 <= k -> a = s_slot s + k * sslide c -> a <= rts r < a + ssize c ->
              exists am, omin_list (map (fun r => first_win c (s_slot s) (rts r)) (s_data s)) = Some am /\ am <= a).
    { intros r a k Hin Hk Hak Hcov.
      destruct (first_win_min c Hslide Hsize (s_slot s) (rts r) a k Hk Hak Hcov) as (a0 & k0 & Hfw & Ha0 & Hk0).
      assert (Hinl : In (Some a0) (map (fun x => first_win c (s_slot s) (rts x)) (s_data s))).
      { apply in_map_iff. exists r. auto. }
      destruct (omin_list _) as [am|] eqn:Em; [|exfalso; eapply omin_list_none; eauto].
      exists am. split; [reflexivity|]. pose proof (omin_list_le _ _ Em a0 Hinl). nia. }
    destruct (match omin_list (map (fun r => first_win c (s_slot s) (rts r)) (s_data s)) with
              | Some a => if a + ssize c <=? wmk then Some a else None | None => None end) as [a|] eqn:Efire.
    2:{ (* nothing to fire *)
      injection Hst as <- <-. apply (nofire_sound s cs wmk HK Ep Hinit); [|exact Hinv'].
      intros r a k Hin Hk Hak Hcov. destruct (Hscan r a k Hin Hk Hak Hcov) as (am & Em & Hle).
      rewrite Em in Efire. destruct (am + ssize c <=? wmk) eqn:E; [discriminate|]. apply Z.leb_gt in E. lia. }
    (* a first firing *)
    assert (Ha : omin_list (map (fun r => first_win c (s_slot s) (rts r)) (s_data s)) = Some a /\ a + ssize c <= wmk).
    { destruct (omin_list _) as [am|]; [|discriminate]. destruct (am + ssize c <=? wmk) eqn:E; [|discriminate].
      injection Efire as <-. apply Z.leb_le in E. auto. }
    destruct Ha as [Em Haw]. clear Efire.
    pose proof (omin_list_in _ _ Em) as Hmin. apply in_map_iff in Hmin as [rm [Hrm _]].
    destruct (first_win_grid c Hslide _ _ _ I1 Hrm) as (Haa & Hsa & _).
    injection Hst as <- <-.
    set (res := filter (fun r => sinwin c a (rts r)) (s_data s)) in *.
    set (keep := filter (fun r => negb (rts r <? a + sslide c)) (s_data s)) in *.
    cbn [schk_evs schk_ev b_start b_end b_rows].
    assert (C1 : (a + ssize c =? a + ssize c) && (0 <? sslide c) && (a mod sslide c =? 0)
                 && forallb (fun r => sinwin c a (rts r)) res = true).
    { rewrite Z.eqb_refl. assert (E : (0 <? sslide c) = true) by (apply Z.ltb_lt; exact Hslide). rewrite E. cbn [andb].
      apply andb_true_iff. split; [apply Z.eqb_eq; apply saligned_mod; exact Haa|].
      apply forallb_forall. intros x Hx. apply filter_In in Hx as [_ Hx]. exact Hx. }
    rewrite C1. cbn [negb].
    pose proof (k_data _ _ HK) as Hds. rewrite Forall_forall in Hds.
    assert (C2 : sub_rows res (q_seen cs) = true).
    { apply forallb_forall. intros x Hx. apply row_in_In. apply Hds. apply filter_In in Hx as [Hx _]. exact Hx. }
    rewrite C2. cbn [negb].
    pose proof (k_fired _ _ HK) as Hf.
    pose proof (find_fired_none_slot (q_fired cs) (s_slot s) a Hf Hsa) as Hfn. rewrite Hfn.
    assert (C4 : match q_fired cs with f :: _ => a <=? b_start f | [] => false end = false).
    { destruct (q_fired cs) as [|f fl]; [reflexivity|]. inversion Hf as [|x y [Hx _] Hy]; subst. apply Z.leb_gt. lia. }
    rewrite C4.
    assert (Hqf : qfle cs a).
    { intros f Ef. destruct (k_first _ _ HK f Ef) as (_ & _ & _ & D & _). lia. }
    assert (C5 : match q_first cs with Some f => a <? f | None => true end = false).
    { pose proof (pend_first s cs wmk HK Ep) as Hq. destruct (q_first cs) as [f|] eqn:Ef; [|congruence].
      apply Z.ltb_ge. exact (Hqf f Ef). }
    rewrite C5. rewrite Hdw.
    assert (C6 : negb (a + ssize c <=? wmk) = false) by (apply negb_false_iff, Z.leb_le; exact Haw).
    rewrite C6.
    assert (C7 : negb (forallb (fun r => negb (sinwin c a (rts r)) || row_in r res) (q_ontime cs ++ q_ontime_new cs)) = false).
    { apply negb_false_iff. apply forallb_forall. intros r Hr. destruct (sinwin c a (rts r)) eqn:Ew; [cbn [negb orb]|reflexivity].
      assert (Hcov : a <= rts r < a + ssize c).
      { unfold sinwin in Ew. apply andb_prop in Ew as [A B]. apply Z.leb_le in A. apply Z.ltb_lt in B. lia. }
      destruct (k_cover _ _ HK r a Hr Haa Hcov Hqf) as [(b & Hb & _)|[Hin _]]; [congruence|].
      apply row_in_In. apply filter_In. split; [exact Hin|exact Ew]. }
    rewrite C7. eexists. split; [reflexivity|]. split; [|reflexivity].
    pose proof (fun t => trig_behind s cs t HK) as Htb.
    set (bn := {| b_start := a; b_end := a + ssize c; b_rows := res; b_late := false |}) in *.
    set (tn := {| t_start := a; t_end := a + ssize c; t_close := a + ssize c + slateness c; t_snap := res |}) in *.
    assert (Hins : insert_twin tn (s_trig s) = s_trig s ++ [tn]).
    { apply insert_twin_last. apply Forall_forall. intros t Ht. destruct (Htb t Ht) as [A B]. cbn [tn t_end]. lia. }
    destruct HK as [? Hwk ? ? ? ? Hpe ? Hfi Hf00 ? Hod Hcov Hfd Hf0 Htr Htnd Hop].
    constructor; unfold ont, qfle in *;
      cbn [q_seen q_maxts q_ontime q_ontime_new q_first q_dw q_lastw q_fired q_lastadd q_pending
           s_init s_slot s_data s_trig s_w s_pend s_adv]; try assumption; try discriminate; try reflexivity.
    - apply Forall_filter. assumption.
    - intros f Ef. destruct (Hfi f Ef) as (A & B & C & D & _). split; [reflexivity|]. split; [exact B|]. split; [exact C|].
      split; [lia|discriminate].
    - intros Hn _. specialize (Hf00 Hn Hinit). lia.
    - (* covering intervals *)
      intros r a' Hr Haa' Hc Hq. destruct (Hcov r a' Hr Haa' Hc Hq) as [(b & Hb & Hin)|[Hin Hle]].
      + left. exists b. split; [|exact Hin]. unfold find_fired in *. cbn [find bn b_start].
        destruct (a =? a') eqn:E; [apply Z.eqb_eq in E; subst a'; congruence|exact Hb].
      + destruct (Z.lt_trichotomy a' a) as [Hlt|[Heq|Hgt]].
        * exfalso. destruct (slot_offset a' (s_slot s) I1 Haa' Hle) as (k & Hk & Hak).
          destruct (Hscan r a' k Hin Hk Hak Hc) as (am & Em' & Hle'). rewrite Em in Em'. injection Em' as <-. lia.
        * subst a'. left. exists bn. split; [unfold find_fired; cbn [find bn b_start]; rewrite Z.eqb_refl; reflexivity|].
          cbn [bn b_rows]. apply filter_In. split; [exact Hin|]. unfold sinwin. apply andb_true_iff.
          split; [apply Z.leb_le|apply Z.ltb_lt]; lia.
        * right. pose proof (saligned_next a a' Haa Haa' Hgt) as Hn. split; [|exact Hn].
          apply filter_In. split; [exact Hin|]. apply negb_true_iff, Z.ltb_ge. lia.
    - constructor; [cbn [bn b_start b_end]; split; lia|]. eapply Forall_impl; [|exact Hfd]. intros b [Hb1 Hb2]. split; [lia|exact Hb2].
    - (* triggered windows *)
      assert (Hko : Forall (SKT (bn :: q_fired cs) (q_seen cs)) (s_trig s)).
      { apply Forall_forall. intros t Hin. rewrite Forall_forall in Htr. apply SKT_cons_other; [apply Htr; exact Hin|].
        cbn [bn b_start]. destruct (Htb t Hin) as [A _]. lia. }
      destruct (0 <? slateness c); [|exact Hko]. rewrite Hins.
      apply Forall_app. split; [exact Hko|]. constructor; [|constructor].
      split; [reflexivity|]. split; [reflexivity|]. split; [exact Haa|]. cbn [tn t_start t_end t_snap]. split.
      + apply Forall_forall. intros r Hr. apply filter_In in Hr as [Hr Hw]. split; [|apply Hds; exact Hr].
        unfold in_twin, sinwin in *. cbn [t_start t_end]. exact Hw.
      + exists bn. split; [unfold find_fired; cbn [find bn b_start]; rewrite Z.eqb_refl; reflexivity|reflexivity].
    - destruct (0 <? slateness c); [|exact Htnd]. rewrite Hins. rewrite map_app. cbn [map tn t_start]. apply NoDup_snoc; [exact Htnd|].
      intros Hin. apply in_map_iff in Hin as (t & Hts & Hin). destruct (Htb t Hin) as [A _]. lia.
    - constructor.
      + destruct (0 <? slateness c) eqn:El.
        * left. exists tn. split; [rewrite Hins; apply in_or_app; right; left; reflexivity|reflexivity].
        * right. apply Z.ltb_ge in El. cbn [bn b_end]. eapply ole_trans; [|exact Ip]. lia.
      + eapply Forall_impl; [|exact Hop]. intros b [(t & Ht & Hts)|Hr]; [left|right; exact Hr].
        exists t. split; [|exact Hts]. destruct (0 <? slateness c); [|exact Ht]. rewrite Hins. apply in_or_app. left. exact Ht.
  Qed.
  (* ---------------- Add ---------------- *)
  Definition add_cst (s : scst) (id ts : Z) : scst :=
    let sn := ssane c base ts in
    let m' := if sn then Some (omax ts (q_maxts s)) else q_maxts s in
    let ontime := ontime_of (q_maxts s) ts in
    let late := sn && negb ontime in
    let pend := if late && (0 <? slateness c)
                then map b_start (filter (fun b => sinwin c (b_start b) ts &&
                                            (match m' with Some m => m - sooo c <? b_end b + slateness c | None => false end))
                                         (q_fired s))
                else [] in
    {| q_seen := q_seen s ++ [(id, ts)]; q_maxts := m'; q_ontime := q_ontime s;
       q_ontime_new := if ontime then q_ontime_new s ++ [(id, ts)] else q_ontime_new s;
       q_first := if ontime then Some (omin (align ts (sslide c)) (q_first s)) else q_first s;
       q_dw := q_dw s; q_lastw := q_lastw s; q_fired := q_fired s; q_lastadd := Some (id, ts); q_pending := pend |}.

  Lemma schk_add cs id ts : q_pending cs = [] -> schk_ev c base cs (EvAdd id ts) = inl (add_cst cs id ts).
  Proof. intros H. cbn [schk_ev]. rewrite (set_nonbatch_nb cs H). reflexivity. Qed.

  Definition upd (s : scst) (F : list batch) (P : list Z) : scst :=
    {| q_seen := q_seen s; q_maxts := q_maxts s; q_ontime := q_ontime s; q_ontime_new := q_ontime_new s;
       q_first := q_first s; q_dw := q_dw s; q_lastw := q_lastw s; q_fired := F; q_lastadd := q_lastadd s; q_pending := P |}.

  (* how the re-deliveries caused by one Add change the checker's list of fired intervals *)
  Definition frel (l : list twin) (F F' : list batch) : Prop :=
    (forall a b, find_fired a F = Some b -> exists b', find_fired a F' = Some b' /\ incl (b_rows b) (b_rows b')) /\
    (forall Q : batch -> Prop, Forall Q F ->
        (forall b', (exists t, In t l /\ b_start b' = t_start t /\ b_end b' = t_end t) -> Q b') -> Forall Q F') /\
    (F = [] -> F' = []).

  Lemma frel_refl l F : frel l F F.
  Proof.
    split; [|split].
    - intros a b H. exists b. split; [exact H|apply incl_refl].
    - intros Q H _. exact H.
    - auto.
  Qed.

  Lemma slot_facts s ts late sl0 sl :
    SInv c s -> 0 <= ts ->
    sl0 = (if s_init s then s_slot s else align ts (sslide c)) ->
    sl = (if s_init s && negb late && (ts <? sl0) && sinwin c (align ts (sslide c)) ts then align ts (sslide c) else sl0) ->
    saligned c sl0 /\ saligned c sl /\ sl <= sl0 /\ (late = true -> sl = sl0) /\
    (late = false -> sl <= align ts (sslide c) \/ sinwin c (align ts (sslide c)) ts = false) /\
    (sl <> sl0 -> sl = align ts (sslide c) /\ late = false /\ s_init s = true /\ ts < sl0 /\ sinwin c (align ts (sslide c)) ts = true).
  Proof.
    intros (I0 & I1 & _) Hts Hsl0 Hsl.
    pose proof (align_le ts (sslide c) Hslide Hts) as Hal. pose proof (salign_aligned c Hslide ts) as Hala.
    assert (Sa0 : saligned c sl0).
    { rewrite Hsl0. destruct (s_init s) eqn:Ei; [apply I1; reflexivity|exact Hala]. }
    split; [exact Sa0|].
    destruct (s_init s && negb late && (ts <? sl0) && sinwin c (align ts (sslide c)) ts) eqn:Ec.
    - apply andb_prop in Ec as [Ec Hw]. apply andb_prop in Ec as [Ec Hlt]. apply andb_prop in Ec as [Hi Hl].
      apply Z.ltb_lt in Hlt. apply negb_true_iff in Hl. subst sl.
      split; [exact Hala|]. split; [lia|]. split; [intros H; congruence|]. split; [intros _; left; lia|].
      intros _. auto.
    - subst sl. split; [exact Sa0|]. split; [lia|]. split; [reflexivity|]. split; [|intros H; contradiction].
      intros Hl. apply andb_false_iff in Ec as [Ec|Ec]; [|right; exact Ec].
      left. apply andb_false_iff in Ec as [Ec|Ec].
      + apply andb_false_iff in Ec as [Ec|Ec]; [rewrite Ec in Hsl0; lia|]. rewrite Hl in Ec. discriminate.
      + apply Z.ltb_ge in Ec. apply saligned_le_align; assumption.
  Qed.

  Lemma ont_add cs id ts F P r :
    In r (ont (upd (add_cst cs id ts) F P)) <-> In r (ont cs) \/ (ontime_of (q_maxts cs) ts = true /\ r = (id, ts)).
  Proof.
    unfold ont. cbn [upd add_cst q_ontime q_ontime_new]. destruct (ontime_of (q_maxts cs) ts).
    - rewrite app_assoc. split.
      + intros H. apply in_app_or in H as [H|[H|[]]]; [left; exact H|right; auto].
      + intros [H|[_ H]]; apply in_or_app; [left; exact H|right; left; auto].
    - split; [intros H; left; exact H|intros [H|[H _]]; [exact H|discriminate]].
  Qed.

  Lemma sinwin_align_false ts : 0 <= ts -> sinwin c (align ts (sslide c)) ts = false -> ssize c < sslide c.
  Proof.
    intros Hts H. pose proof (align_le ts (sslide c) Hslide Hts) as Hal. unfold sinwin in H.
    apply andb_false_iff in H as [H|H]; [apply Z.leb_gt in H|apply Z.ltb_ge in H]; lia.
  Qed.

  (* the invariant after an Add; l = the triggered windows that were re-delivered, F' = the checker's fired list afterwards *)
  Lemma add_SK s cs id ts s1 (l : list twin) F' w' late sl0 sl :
    SK s cs -> 0 <= ts -> ~ In id (map rid (q_seen cs)) ->
    w' = update_event_time (sooo c) base ts (s_w s) -> late = is_late ts w' ->
    sl0 = (if s_init s then s_slot s else align ts (sslide c)) ->
    sl = (if s_init s && negb late && (ts <? sl0) && sinwin c (align ts (sslide c)) ts then align ts (sslide c) else sl0) ->
    s_init s1 = true -> s_slot s1 = sl -> s_w s1 = w' -> s_pend s1 = s_pend s -> s_adv s1 = s_adv s ->
    (s_data s1 = s_data s ++ [(id, ts)] \/ (late = true /\ s_data s1 = s_data s)) ->
    SInv c s1 ->
    Forall (SKT F' (q_seen cs ++ [(id, ts)])) (s_trig s1) -> map t_start (s_trig s1) = map t_start (s_trig s) ->
    frel l (q_fired cs) F' -> (forall t, In t l -> In t (s_trig s) /\ late = true) ->
    SK s1 (upd (add_cst cs id ts) F' []).
  Proof.
    intros HK Hts Hfresh Hw' Hlate Hsl0 Hsl Hi1 Hsl1 Hw1 Hp1 Ha1 Hd1 Hinv1 Htr1 Hst1 (Hfr1 & Hfr2 & Hfr3) Hl.
    pose proof (k_inv _ _ HK) as Hinv. pose proof Hinv as (I0 & I1 & Ia & Iw & Ip).
    destruct (slot_facts s ts late sl0 sl Hinv Hts Hsl0 Hsl) as (Sa0 & Sa & Sle & Slate & Snl & Sne).
    pose proof (late_iff (s_w s) (q_seen cs) (q_maxts cs) (q_lastw cs) id ts (k_wk _ _ HK)) as Hli.
    rewrite <- Hw', <- Hlate in Hli.
    pose proof (align_le ts (sslide c) Hslide Hts) as Hal. pose proof (salign_aligned c Hslide ts) as Hala.
    assert (Hinit_adv : s_adv s = true -> s_init s = true).
    { intros Hadv. destruct (s_init s) eqn:Ei; [reflexivity|]. destruct (I0 eq_refl) as (_ & _ & A). congruence. }
    assert (Sadv : s_adv s = true -> sl = s_slot s).
    { intros Hadv. pose proof (Hinit_adv Hadv) as Ei. destruct (Z.eq_dec sl sl0) as [E|N]; [rewrite E, Hsl0, Ei; reflexivity|exfalso].
      destruct (Sne N) as (E1 & E2 & _ & E4 & E5). rewrite Hsl0, Ei in E4. rewrite Hlate, Hw' in E2.
      exact (no_realign_after_advance c Hslide Hsize s ts _ Hinv Hadv (fun x => uet_mono (sooo c) base ts (s_w s) x) E2 Ei E4 E5 Hts). }
    assert (Hsl0i : s_init s = true -> sl0 = s_slot s) by (intros Ei; rewrite Hsl0, Ei; reflexivity).
    assert (Hd1' : forall x, In x (s_data s) -> In x (s_data s1)).
    { intros x Hx. destruct Hd1 as [E|[_ E]]; rewrite E; [apply in_or_app; left; exact Hx|exact Hx]. }
    (* covering intervals of a row that is not late start at or after the slot once the slot has advanced *)
    assert (Hnew_adv : s_adv s = true -> late = false -> forall a, saligned c a -> a <= ts < a + ssize c -> sl <= a).
    { intros Hadv Hlf a Haa Hc. rewrite (Sadv Hadv). specialize (Ia Hadv).
      apply (uet_mono (sooo c) base ts) in Ia. rewrite <- Hw' in Ia. rewrite Hlate in Hlf. unfold is_late in Hlf.
      destruct (cur w') as [cu|]; [|contradiction]. cbn [ole] in Ia. apply Z.ltb_ge in Hlf.
      apply saligned_gap; [apply I1; apply Hinit_adv; exact Hadv|exact Haa|lia]. }
    (* the first on-time start against the slot *)
    assert (Hfirst' : forall f', (if ontime_of (q_maxts cs) ts then Some (omin (align ts (sslide c)) (q_first cs)) else q_first cs) = Some f' ->
               saligned c f' /\ f' <= base + sooo c + day /\ f' <= sl /\ (s_adv s = false -> sl <= f' \/ ssize c < sslide c)).
    { intros f' Hf'. destruct (ontime_of (q_maxts cs) ts) eqn:Eot.
      - assert (Hlf : late = false) by (rewrite Hli; cbn [negb]; apply andb_false_r).
        assert (Hsn : ts <= base + sooo c + day).
        { unfold ontime_of in Eot. apply andb_prop in Eot as [Eot _]. unfold ssane in Eot. apply Z.leb_le in Eot. exact Eot. }
        destruct (q_first cs) as [f|] eqn:Ef; cbn [omin] in Hf'; injection Hf' as <-.
        + destruct (k_first _ _ HK f Ef) as (A & B & C & D & F). pose proof (Hsl0i A) as Hs0.
          split; [destruct (Z.min_spec (align ts (sslide c)) f) as [[_ ->]|[_ ->]]; assumption|].
          split; [lia|]. split.
          { destruct (Z.eq_dec sl sl0) as [E|N]; [lia|]. destruct (Sne N) as (E1 & _). rewrite E1. lia. }
          intros Hadv. destruct (F Hadv) as [F1|F2]; [|right; exact F2].
          destruct (Snl Hlf) as [S1|S2]; [left; lia|right; apply (sinwin_align_false ts Hts S2)].
        + split; [exact Hala|]. split; [lia|]. split.
          { destruct (s_init s) eqn:Ei.
            - pose proof (k_first0 _ _ HK Ef Ei) as Hb. destruct (Z.eq_dec sl sl0) as [E|N].
              + rewrite E, Hsl0. apply saligned_gap; [exact Hala|apply I1; reflexivity|lia].
              + destruct (Sne N) as (E1 & _). rewrite E1. lia.
            - destruct (Z.eq_dec sl sl0) as [E|N]; [rewrite E, Hsl0; lia|]. destruct (Sne N) as (E1 & _). rewrite E1. lia. }
          intros Hadv. destruct (Snl Hlf) as [S1|S2]; [left; lia|right; apply (sinwin_align_false ts Hts S2)].
      - destruct (k_first _ _ HK f' Hf') as (A & B & C & D & F). pose proof (Hsl0i A) as Hs0.
        split; [exact B|]. split; [exact C|]. split.
        { destruct (Z.eq_dec sl sl0) as [E|N]; [lia|]. destruct (Sne N) as (E1 & E2 & _). rewrite E1.
          apply saligned_le_align; [exact B|exact Hts|].
          rewrite Hli in E2. cbn [negb] in E2. rewrite andb_true_r in E2. unfold ssane in E2. apply Z.leb_gt in E2. lia. }
        intros Hadv. destruct (F Hadv) as [F1|F2]; [left; lia|right; exact F2]. }
    assert (Hnd' : NoDup (map rid (q_seen cs ++ [(id, ts)]))).
    { rewrite map_app. cbn [map rid fst]. apply NoDup_snoc; [exact (k_nodup _ _ HK)|exact Hfresh]. }
    assert (Hnn' : Forall (fun r => 0 <= rts r) (q_seen cs ++ [(id, ts)])).
    { apply Forall_app. split; [exact (k_nonneg _ _ HK)|constructor; [exact Hts|constructor]]. }
    assert (Hfired' : Forall (fun b => b_start b + sslide c <= sl /\ b_end b = b_start b + ssize c) (q_fired cs)).
    { destruct (s_adv s) eqn:Eadv; [rewrite (Sadv eq_refl); exact (k_fired _ _ HK)|].
      rewrite (k_fired0 _ _ HK Eadv). constructor. }
    assert (Hlsl : forall t, In t l -> t_start t + sslide c <= sl /\ t_end t = t_start t + ssize c).
    { intros t Ht. destruct (Hl t Ht) as [Hin Hlt]. destruct (trig_behind s cs t HK Hin) as [A B]. split; [|exact B].
      rewrite (Slate Hlt), Hsl0. destruct (s_init s) eqn:Ei; [exact A|]. destruct (I0 eq_refl) as (_ & E & _). rewrite E in Hin. contradiction. }
    pose proof (k_ont _ _ HK) as Hont. pose proof (k_nonneg _ _ HK) as Hnn. rewrite Forall_forall in Hnn.
    constructor; try assumption.
    - (* watermark *) rewrite Hw1, Hw'. exact (uet_WK tc base (s_w s) (q_seen cs) (q_maxts cs) (q_lastw cs) id ts (k_wk _ _ HK)).
    - (* buffer rows were seen *)
      cbn [upd add_cst q_seen]. pose proof (k_data _ _ HK) as Hds.
      assert (Hds' : Forall (fun r => In r (q_seen cs ++ [(id, ts)])) (s_data s)).
      { eapply Forall_impl; [|exact Hds]. intros r Hr. apply in_or_app. left. exact Hr. }
      destruct Hd1 as [E|[_ E]]; rewrite E; [|exact Hds'].
      apply Forall_app. split; [exact Hds'|constructor; [apply in_or_app; right; left; reflexivity|constructor]].
    - cbn [upd add_cst q_dw]. rewrite Hp1. exact (k_dw _ _ HK).
    - reflexivity.
    - (* k_mxf *)
      cbn [upd add_cst q_maxts q_first]. intros Hm. unfold ontime_of.
      destruct (ssane c base ts) eqn:Es; cbn [andb].
      + destruct (q_maxts cs) as [m|] eqn:Em; [|discriminate].
        destruct (m - sooo c <=? ts); [discriminate|]. apply (k_mxf _ _ HK). rewrite Em. discriminate.
      + apply (k_mxf _ _ HK). exact Hm.
    - (* k_first *)
      cbn [upd add_cst q_first]. intros f' Hf'. destruct (Hfirst' f' Hf') as (A & B & C & D).
      split; [exact Hi1|]. split; [exact A|]. split; [exact B|]. rewrite Hsl1, Ha1. split; [exact C|exact D].
    - (* k_first0 *)
      cbn [upd add_cst q_first]. intros Hn _. rewrite Hsl1.
      destruct (ontime_of (q_maxts cs) ts) eqn:Eot; [discriminate|].
      assert (Hmn : q_maxts cs = None).
      { destruct (q_maxts cs) as [m|] eqn:Em; [|reflexivity]. exfalso. apply (k_mxf _ _ HK); [rewrite Em; discriminate|exact Hn]. }
      assert (Hns : base + sooo c + day < ts).
      { unfold ontime_of in Eot. rewrite Hmn, andb_true_r in Eot. unfold ssane in Eot. apply Z.leb_gt in Eot. exact Eot. }
      destruct (Z.eq_dec sl sl0) as [E|N].
      + rewrite E, Hsl0. destruct (s_init s) eqn:Ei; [apply (k_first0 _ _ HK Hn Ei)|lia].
      + destruct (Sne N) as (E1 & _). rewrite E1. lia.
    - (* k_ont *)
      apply Forall_forall. intros r Hr. apply ont_add in Hr. cbn [upd add_cst q_seen q_first]. destruct Hr as [Hr|[Eot ->]].
      + rewrite Forall_forall in Hont. destruct (Hont r Hr) as (Hrs & f & Ef & Hfa). split; [apply in_or_app; left; exact Hrs|].
        destruct (ontime_of (q_maxts cs) ts); [|exists f; auto].
        rewrite Ef. cbn [omin]. eexists. split; [reflexivity|lia].
      + split; [apply in_or_app; right; left; reflexivity|]. rewrite Eot. eexists. split; [reflexivity|].
        cbn [rts snd]. unfold omin. destruct (q_first cs); lia.
    - (* k_ont_data *)
      rewrite Ha1. intros Hadv. apply Forall_forall. intros r Hr. apply ont_add in Hr as [Hr|[Eot ->]].
      + apply Hd1'. pose proof (k_ont_data _ _ HK Hadv) as H. rewrite Forall_forall in H. apply H. exact Hr.
      + destruct Hd1 as [E|[E _]]; [rewrite E; apply in_or_app; right; left; reflexivity|].
        rewrite Hli, Eot in E. cbn [negb] in E. rewrite andb_false_r in E. discriminate.
    - (* k_cover *)
      intros r a Hr Haa Hc Hq. apply ont_add in Hr. unfold qfle in Hq. cbn [upd add_cst q_first q_fired] in Hq |- *. rewrite Hsl1.
      destruct Hr as [Hr|[Eot ->]].
      + rewrite Forall_forall in Hont. destruct (Hont r Hr) as (Hrs & f & Ef & Hfa).
        destruct (k_first _ _ HK f Ef) as (A & B & C & D & F). pose proof (Hsl0i A) as Hs0.
        destruct (Z_le_gt_dec f a) as [Hfa'|Hfa'].
        * assert (Hq0 : qfle cs a) by (intros f0 Ef0; rewrite Ef in Ef0; injection Ef0 as <-; exact Hfa').
          destruct (k_cover _ _ HK r a Hr Haa Hc Hq0) as [(b & Hb & Hin)|[Hin Hle]].
          -- left. destruct (Hfr1 a b Hb) as (b' & Hb' & Hincl). exists b'. split; [exact Hb'|apply Hincl; exact Hin].
          -- right. split; [apply Hd1'; exact Hin|lia].
        * (* the first on-time start has just decreased below a *)
          destruct (ontime_of (q_maxts cs) ts) eqn:Eot; [|specialize (Hq f Ef); lia].
          rewrite Ef in Hq. cbn [omin] in Hq. specialize (Hq _ eq_refl).
          assert (Hlf : late = false) by (rewrite Hli; cbn [negb]; apply andb_false_r).
          destruct (Z_lt_le_dec (ssize c) (sslide c)) as [Hgap|Hng].
          -- exfalso. pose proof (cover_unique a (rts r) Hgap (Hnn r Hrs) Haa Hc). lia.
          -- assert (Hcts : align ts (sslide c) <= ts < align ts (sslide c) + ssize c) by lia.
             destruct (s_adv s) eqn:Eadv.
             ++ exfalso. pose proof (Hnew_adv eq_refl Hlf _ Hala Hcts). rewrite (Sadv eq_refl) in H. lia.
             ++ right. split.
                { apply Hd1'. pose proof (k_ont_data _ _ HK Eadv) as H. rewrite Forall_forall in H. apply H. exact Hr. }
                destruct (Snl Hlf) as [S1|S2]; [lia|]. pose proof (sinwin_align_false ts Hts S2). lia.
      + (* the row just added *)
        cbn [rts snd] in Hc. rewrite Eot in Hq.
        assert (Hlf : late = false) by (rewrite Hli, Eot; cbn [negb]; apply andb_false_r).
        right. split.
        { destruct Hd1 as [E|[E _]]; [rewrite E; apply in_or_app; right; left; reflexivity|congruence]. }
        destruct (s_adv s) eqn:Eadv; [apply (Hnew_adv eq_refl Hlf a Haa Hc)|].
        specialize (Hq _ eq_refl). rewrite Eot in Hfirst'. destruct (Hfirst' _ eq_refl) as (_ & _ & _ & G).
        destruct (G eq_refl) as [G1|G2]; [lia|].
        pose proof (cover_unique a ts G2 Hts Haa Hc) as Ea. destruct (Snl Hlf) as [S1|S2]; [lia|].
        exfalso. unfold sinwin in S2. rewrite <- Ea in S2. apply andb_false_iff in S2 as [S2|S2]; [apply Z.leb_gt in S2|apply Z.ltb_ge in S2]; lia.
    - (* k_fired *)
      cbn [upd q_fired]. rewrite Hsl1. apply Hfr2; [exact Hfired'|].
      intros b' (t & Ht & Hbs & Hbe). destruct (Hlsl t Ht) as [A B]. split; lia.
    - cbn [upd q_fired]. rewrite Ha1. intros Hadv. apply Hfr3. apply (k_fired0 _ _ HK Hadv).
    - rewrite Hst1. exact (k_trig_nd _ _ HK).
    - (* k_open *)
      cbn [upd q_fired]. rewrite Hw1.
      assert (Hsame : forall t, In t (s_trig s) -> exists t1, In t1 (s_trig s1) /\ t_start t1 = t_start t).
      { intros t Ht. assert (Hin : In (t_start t) (map t_start (s_trig s1))) by (rewrite Hst1; apply in_map; exact Ht).
        apply in_map_iff in Hin as (t1 & E & Hin). exists t1. auto. }
      apply Hfr2.
      + eapply Forall_impl; [|exact (k_open _ _ HK)]. intros b [(t & Ht & Hts')|Hr].
        * left. destruct (Hsame t Ht) as (t1 & Hin & E). exists t1. split; [exact Hin|congruence].
        * right. rewrite Hw'. apply uet_mono. exact Hr.
      + intros b' (t & Ht & Hbs & Hbe). left. destruct (Hl t Ht) as [Hin _]. destruct (Hsame t Hin) as (t1 & Hin1 & E).
        exists t1. split; [exact Hin1|congruence].
  Qed.
  Lemma SKT_mono fired seen r t : SKT fired seen t -> SKT fired (seen ++ [r]) t.
  Proof.
    intros (A & B & C & D & E). split; [exact A|]. split; [exact B|]. split; [exact C|]. split; [|exact E].
    eapply Forall_impl; [|exact D]. intros x [H1 H2]. split; [exact H1|apply in_or_app; left; exact H2].
  Qed.

  Lemma late_updates_none ts d l : existsb (fun t => in_twin t ts) l = false -> late_updates ts d l = (l, []).
  Proof.
    induction l as [|t r IH]; cbn [existsb late_updates]; [reflexivity|]. intros H. apply orb_false_iff in H as [H1 H2].
    rewrite (IH H2), H1. reflexivity.
  Qed.

  (* the paths of Add: either nothing is re-delivered, or (late row, lateness > 0) every open triggered window holding ts is *)
  Lemma sadd_core_cases id ts s s1 bs : sadd_core c id ts base s = (s1, bs) ->
    let late := is_late ts (update_event_time (sooo c) base ts (s_w s)) in
    (s_data s1 = s_data s ++ [(id, ts)] \/ (late = true /\ s_data s1 = s_data s)) /\
    ( (s_trig s1 = s_trig s /\ bs = [] /\ (late = true -> (0 <? slateness c) = false))
      \/ (late = true /\ (0 <? slateness c) = true /\ late_updates ts (s_data s ++ [(id, ts)]) (s_trig s) = (s_trig s1, bs)) ).
  Proof.
    unfold sadd_core. cbn zeta.
    destruct (is_late ts (update_event_time (sooo c) base ts (s_w s))) eqn:El.
    2:{ intros [= <- <-]. cbn [s_data s_trig]. split; [left; reflexivity|]. left. split; [reflexivity|]. split; [reflexivity|discriminate]. }
    destruct (0 <? slateness c) eqn:E0.
    - destruct (sinwin c _ ts).
      + destruct (late_updates ts (s_data s ++ [(id, ts)]) (s_trig s)) as [tr bs0] eqn:Elu. intros [= <- <-]. cbn [s_data s_trig].
        split; [left; reflexivity|]. right. auto.
      + destruct (existsb (fun t => in_twin t ts) (s_trig s)) eqn:Eex.
        * destruct (late_updates ts (s_data s ++ [(id, ts)]) (s_trig s)) as [tr bs0] eqn:Elu. intros [= <- <-]. cbn [s_data s_trig].
          split; [left; reflexivity|]. right. auto.
        * intros [= <- <-]. cbn [s_data s_trig]. split; [right; auto|]. right. split; [reflexivity|]. split; [reflexivity|].
          apply late_updates_none. exact Eex.
    - destruct (sinwin c _ ts); intros [= <- <-]; cbn [s_data s_trig].
      + split; [left; reflexivity|]. left. auto.
      + split; [right; auto|]. left. auto.
  Qed.

  Lemma upd_same x F P : q_fired x = F -> q_pending x = P -> x = upd x F P.
  Proof. destruct x. cbn. intros <- <-. reflexivity. Qed.

  (* ---------------- the re-deliveries caused by one late Add (ALLOWEDLATENESS > 0) ---------------- *)
  Definition lbatch (ts : Z) (d : list row) (t : twin) : batch :=
    {| b_start := t_start t; b_end := t_end t;
       b_rows := t_snap t ++ filter (fun x => in_twin t (rts x) && negb (existsb (fun y => rid y =? rid x) (t_snap t))) d;
       b_late := true |}.
  Definition ltwin (ts : Z) (d : list row) (t : twin) : twin :=
    {| t_start := t_start t; t_end := t_end t; t_close := t_close t; t_snap := b_rows (lbatch ts d t) |}.

  Lemma late_updates_cons ts d t r :
    late_updates ts d (t :: r) =
    (if in_twin t ts then (ltwin ts d t :: fst (late_updates ts d r), lbatch ts d t :: snd (late_updates ts d r))
     else (t :: fst (late_updates ts d r), snd (late_updates ts d r))).
  Proof. cbn [late_updates]. destruct (late_updates ts d r) as [r' bs]. destruct (in_twin t ts); reflexivity. Qed.

  Lemma firstn_app_len {A} (l1 l2 : list A) : firstn (length l1) (l1 ++ l2) = l1.
  Proof. induction l1 as [|a l IH]; cbn; [destruct l2; reflexivity|f_equal; exact IH]. Qed.
  Lemma skipn_app_len {A} (l1 l2 : list A) : skipn (length l1) (l1 ++ l2) = l2.
  Proof. induction l1 as [|a l IH]; cbn; [reflexivity|exact IH]. Qed.

  Lemma in_twin_sinwin t x : t_end t = t_start t + ssize c -> sinwin c (t_start t) x = in_twin t x.
  Proof. intros H. unfold sinwin, in_twin. rewrite H. reflexivity. Qed.

  Lemma late_batch_ok id ts d seen' cs t :
    (0 <? slateness c) = true -> In (id, ts) d -> Forall (fun r => In r seen') d ->
    q_seen cs = seen' -> q_lastadd cs = Some (id, ts) ->
    SKT (q_fired cs) seen' t -> in_twin t ts = true -> (forall y, In y (t_snap t) -> rid y <> id) ->
    schk_ev c base cs (EvBatch (lbatch ts d t)) =
    inl (upd cs (replace_fired (lbatch ts d t) (q_fired cs)) (filter (fun x => negb (x =? t_start t)) (q_pending cs))).
  Proof.
    intros Hlat Hind Hd Hseen Hlast (A & B & C & D & prev & Hf & Hr) Htw Hfr.
    rewrite Forall_forall in Hd, D.
    set (extra := filter (fun x => in_twin t (rts x) && negb (existsb (fun y => rid y =? rid x) (t_snap t))) d).
    assert (Hres : forall x, In x (t_snap t ++ extra) -> in_twin t (rts x) = true /\ In x seen').
    { intros x Hx. apply in_app_or in Hx as [Hx|Hx]; [apply D; exact Hx|].
      apply filter_In in Hx as [Hx Hc]. apply andb_prop in Hc as [Hc _]. split; [exact Hc|apply Hd; exact Hx]. }
    assert (Hnew : In (id, ts) extra).
    { apply filter_In. split; [exact Hind|]. cbn [rts rid snd fst]. rewrite Htw. cbn [andb]. apply negb_true_iff.
      apply not_true_iff_false. intros H. apply existsb_exists in H as (y & Hy & He). apply Z.eqb_eq in He. exact (Hfr y Hy He). }
    unfold lbatch. fold extra. cbn [schk_ev b_start b_end b_rows].
    assert (C1 : (t_end t =? t_start t + ssize c) && (0 <? sslide c) && (t_start t mod sslide c =? 0)
                 && forallb (fun r => sinwin c (t_start t) (rts r)) (t_snap t ++ extra) = true).
    { rewrite A, Z.eqb_refl. assert (E : (0 <? sslide c) = true) by (apply Z.ltb_lt; exact Hslide). rewrite E. cbn [andb].
      apply andb_true_iff. split; [apply Z.eqb_eq; apply saligned_mod; exact C|].
      apply forallb_forall. intros x Hx. rewrite (in_twin_sinwin t (rts x) A). apply (Hres x Hx). }
    rewrite C1. cbn [negb].
    assert (C2 : sub_rows (t_snap t ++ extra) (q_seen cs) = true).
    { rewrite Hseen. apply forallb_forall. intros x Hx. apply row_in_In. apply (Hres x Hx). }
    rewrite C2. cbn [negb]. rewrite Hf.
    assert (C3 : (slateness c <=? 0) = false) by (apply Z.leb_gt; apply Z.ltb_lt in Hlat; exact Hlat).
    rewrite C3, Hlast, Hr. rewrite firstn_app_len, skipn_app_len, rows_eqb_refl.
    assert (C4 : forallb (fun x => negb (id_in (rid x) (t_snap t))) extra = true).
    { apply forallb_forall. intros x Hx. apply filter_In in Hx as [_ Hc]. apply andb_prop in Hc as [_ Hc]. exact Hc. }
    rewrite C4. rewrite (row_in_In (id, ts) (t_snap t ++ extra) (in_or_app _ _ _ (or_intror Hnew))). cbn [andb orb].
    unfold upd. rewrite Hlast. reflexivity.
  Qed.

  Lemma SKT_find_same F F' seen t : SKT F seen t -> find_fired (t_start t) F' = find_fired (t_start t) F -> SKT F' seen t.
  Proof.
    intros (A & B & C & D & p & Hf & Hr) E. split; [exact A|]. split; [exact B|]. split; [exact C|]. split; [exact D|].
    exists p. split; [rewrite E; exact Hf|exact Hr].
  Qed.

  Lemma late_batches_sound id ts d seen' :
    (0 <? slateness c) = true -> In (id, ts) d -> Forall (fun r => In r seen') d ->
    forall l cs,
      q_seen cs = seen' -> q_lastadd cs = Some (id, ts) ->
      Forall (SKT (q_fired cs) seen') l -> NoDup (map t_start l) ->
      (forall t y, In t l -> In y (t_snap t) -> rid y <> id) ->
      exists F' P', schk_evs cs (map EvBatch (snd (late_updates ts d l))) = inl (upd cs F' P') /\
        Forall (SKT F' seen') (fst (late_updates ts d l)) /\ map t_start (fst (late_updates ts d l)) = map t_start l /\
        (forall a, ~ In a (map t_start l) -> find_fired a F' = find_fired a (q_fired cs)) /\
        frel l (q_fired cs) F' /\
        (forall x, In x P' -> In x (q_pending cs) /\ forall t, In t l -> in_twin t ts = true -> t_start t <> x).
  Proof.
    intros Hlat Hind Hd. induction l as [|t r IH]; intros cs Hseen Hlast Hkt Hnd Hfr.
    - cbn [late_updates fst snd map schk_evs]. exists (q_fired cs), (q_pending cs).
      split; [f_equal; apply upd_same; reflexivity|]. split; [constructor|]. split; [reflexivity|]. split; [reflexivity|].
      split; [apply frel_refl|]. intros x Hx. split; [exact Hx|intros t []].
    - rewrite late_updates_cons. inversion Hkt as [|t0 r0 Ht Hr]; subst t0 r0.
      cbn [map] in Hnd. inversion Hnd as [|a0 l0 Hni Hnd']; subst a0 l0.
      assert (Hfr' : forall t0 y, In t0 r -> In y (t_snap t0) -> rid y <> id) by (intros t0 y H; apply Hfr; right; exact H).
      destruct (in_twin t ts) eqn:Etw; cbn [fst snd map schk_evs].
      + (* this window is re-delivered *)
        rewrite (late_batch_ok id ts d seen' cs t Hlat Hind Hd Hseen Hlast Ht Etw (fun y Hy => Hfr t y (or_introl eq_refl) Hy)).
        set (b := lbatch ts d t) in *.
        set (cs1 := upd cs (replace_fired b (q_fired cs)) (filter (fun x => negb (x =? t_start t)) (q_pending cs))).
        assert (Hkt1 : Forall (SKT (q_fired cs1) seen') r).
        { cbn [cs1 upd q_fired]. apply Forall_forall. intros y Hy. rewrite Forall_forall in Hr.
          destruct (Hr y Hy) as (A & B & C & D & p & Hf & Hrr). split; [exact A|]. split; [exact B|]. split; [exact C|]. split; [exact D|].
          exists p. split; [|exact Hrr]. rewrite find_fired_replace_other; [exact Hf|].
          cbn [b lbatch b_start]. intros Heq. apply Hni. rewrite <- Heq. apply in_map. exact Hy. }
        destruct (IH cs1 Hseen Hlast Hkt1 Hnd' Hfr') as (F' & P' & Hrun & Htr & Hst & Hsame & (Hf1 & Hf2 & Hf3) & Hp).
        exists F', P'. split; [exact Hrun|].
        pose proof Ht as (A & B & C & D & p & Hfp & Hrp).
        assert (Hres : Forall (fun x => in_twin t (rts x) = true /\ In x seen') (b_rows b)).
        { cbn [b lbatch b_rows]. apply Forall_app. split; [exact D|]. apply Forall_forall. intros x Hx.
          apply filter_In in Hx as [Hx Hc]. apply andb_prop in Hc as [Hc _]. rewrite Forall_forall in Hd. split; [exact Hc|apply Hd; exact Hx]. }
        assert (Hb1 : find_fired (t_start t) (q_fired cs1) = Some b).
        { cbn [cs1 upd q_fired]. apply (find_fired_replace_same b (q_fired cs) p). exact Hfp. }
        split; [|split; [|split; [|split]]].
        * constructor; [|exact Htr]. split; [exact A|]. split; [exact B|]. split; [exact C|]. split; [exact Hres|].
          exists b. split; [|reflexivity]. cbn [ltwin t_start]. rewrite (Hsame (t_start t) Hni). exact Hb1.
        * cbn [ltwin t_start]. f_equal. exact Hst.
        * intros a Ha. rewrite Hsame; [|intros H; apply Ha; right; exact H]. cbn [cs1 upd q_fired].
          apply find_fired_replace_other. cbn [b lbatch b_start]. intros Heq. apply Ha. left. symmetry. exact Heq.
        * split; [|split].
          -- intros a b0 Hb0. destruct (Z.eq_dec a (t_start t)) as [->|Hne].
             ++ destruct (Hf1 _ _ Hb1) as (b' & Hb' & Hincl). exists b'. split; [exact Hb'|].
                eapply incl_tran; [|exact Hincl]. assert (b0 = p) by congruence. subst b0. rewrite Hrp.
                cbn [b lbatch b_rows]. apply incl_appl. apply incl_refl.
             ++ apply Hf1. cbn [cs1 upd q_fired]. rewrite find_fired_replace_other; [exact Hb0|exact Hne].
          -- intros Q HQ Hnew. apply Hf2.
             ++ cbn [cs1 upd q_fired]. apply Forall_replace_fired; [exact HQ|]. apply Hnew. exists t. split; [left; reflexivity|auto].
             ++ intros b' (t0 & Ht0 & E). apply Hnew. exists t0. split; [right; exact Ht0|exact E].
          -- intros E. apply Hf3. cbn [cs1 upd q_fired]. rewrite E. reflexivity.
        * intros x Hx. destruct (Hp x Hx) as [Hx1 Hx2]. cbn [cs1 upd q_pending] in Hx1. apply filter_In in Hx1 as [Hx1 Hne].
          split; [exact Hx1|]. intros t0 [<-|Ht0] Htw0; [|apply Hx2; assumption].
          apply negb_true_iff, Z.eqb_neq in Hne. congruence.
      + (* not this one *)
        destruct (IH cs Hseen Hlast Hr Hnd' Hfr') as (F' & P' & Hrun & Htr & Hst & Hsame & (Hf1 & Hf2 & Hf3) & Hp).
        exists F', P'. split; [exact Hrun|]. split; [|split; [|split; [|split]]].
        * constructor; [|exact Htr]. apply (SKT_find_same (q_fired cs)); [exact Ht|]. apply Hsame. exact Hni.
        * f_equal. exact Hst.
        * intros a Ha. apply Hsame. intros H. apply Ha. right. exact H.
        * split; [exact Hf1|]. split; [|exact Hf3]. intros Q HQ Hnew. apply Hf2; [exact HQ|].
          intros b' (t0 & Ht0 & E). apply Hnew. exists t0. split; [right; exact Ht0|exact E].
        * intros x Hx. destruct (Hp x Hx) as [Hx1 Hx2]. split; [exact Hx1|]. intros t0 [<-|Ht0] Htw0; [congruence|apply Hx2; assumption].
  Qed.

  Section Add.
    Variables (s : sst) (cs : scst) (id ts : Z) (s1 : sst) (bs : list batch).
    Hypothesis HK : SK s cs.
    Hypothesis Hts : 0 <= ts.
    Hypothesis Hfresh : ~ In id (map rid (q_seen cs)).
    Hypothesis Ea : sadd_core c id ts base s = (s1, bs).

    (* an Add that causes no re-delivery (always so with lateness = 0, and for rows that are not late) *)
    Lemma add_plain_sound :
      s_trig s1 = s_trig s -> bs = [] -> (is_late ts (update_event_time (sooo c) base ts (s_w s)) = true -> (0 <? slateness c) = false) ->
      exists cs', schk_evs cs (EvAdd id ts :: map EvBatch bs) = inl cs' /\ SK s1 cs' /\ q_seen cs' = q_seen cs ++ [(id, ts)].
    Proof.
      intros Ht -> Hlat.
      pose proof (sadd_core_SInv c Hslide Hsize id ts base s s1 [] (k_inv _ _ HK) Hts Ea) as Hinv1.
      destruct (sadd_core_shape c id ts base s s1 [] Ea) as (Si & Sw & Sp & Sa & Ss & _ & _). cbn zeta in Ss.
      destruct (sadd_core_cases id ts s s1 [] Ea) as (Hd1 & _). cbn zeta in Hd1.
      cbn [map schk_evs]. rewrite (schk_add cs id ts (k_pending _ _ HK)).
      assert (Hpend : q_pending (add_cst cs id ts) = []).
      { cbn [add_cst q_pending]. destruct (ssane c base ts && negb (ontime_of (q_maxts cs) ts)) eqn:El; [|reflexivity]. cbn [andb].
        rewrite <- (late_iff (s_w s) (q_seen cs) (q_maxts cs) (q_lastw cs) id ts (k_wk _ _ HK)) in El.
        rewrite (Hlat El). reflexivity. }
      exists (upd (add_cst cs id ts) (q_fired cs) []). split; [f_equal; apply upd_same; [reflexivity|exact Hpend]|].
      split; [|reflexivity].
      apply (add_SK s cs id ts s1 [] (q_fired cs) _ _ _ _ HK Hts Hfresh eq_refl eq_refl eq_refl eq_refl Si Ss Sw Sp Sa Hd1 Hinv1).
      - rewrite Ht. eapply Forall_impl; [|exact (k_trig _ _ HK)]. intros t. apply SKT_mono.
      - rewrite Ht. reflexivity.
      - apply frel_refl.
      - intros t [].
    Qed.
    (* a late Add with ALLOWEDLATENESS > 0: every open triggered window holding ts is re-delivered, which is at least
       what the checker demands (the fired intervals holding ts that the statement's watermark has not closed) *)
    Lemma add_late_sound :
      is_late ts (update_event_time (sooo c) base ts (s_w s)) = true -> (0 <? slateness c) = true ->
      late_updates ts (s_data s ++ [(id, ts)]) (s_trig s) = (s_trig s1, bs) ->
      exists cs', schk_evs cs (EvAdd id ts :: map EvBatch bs) = inl cs' /\ SK s1 cs' /\ q_seen cs' = q_seen cs ++ [(id, ts)].
    Proof.
      intros Hlt Hlat Hlu.
      pose proof (sadd_core_SInv c Hslide Hsize id ts base s s1 bs (k_inv _ _ HK) Hts Ea) as Hinv1.
      destruct (sadd_core_shape c id ts base s s1 bs Ea) as (Si & Sw & Sp & Sa & Ss & _ & _). cbn zeta in Ss.
      destruct (sadd_core_cases id ts s s1 bs Ea) as (Hd1 & _). cbn zeta in Hd1.
      cbn [schk_evs]. rewrite (schk_add cs id ts (k_pending _ _ HK)).
      set (cs1 := add_cst cs id ts). set (d := s_data s ++ [(id, ts)]) in *. set (seen' := q_seen cs ++ [(id, ts)]).
      pose proof (k_trig _ _ HK) as Htr. pose proof Htr as Htr0. rewrite Forall_forall in Htr0.
      assert (Hd : Forall (fun r => In r seen') d).
      { apply Forall_app. split; [|constructor; [apply in_or_app; right; left; reflexivity|constructor]].
        eapply Forall_impl; [|exact (k_data _ _ HK)]. intros r Hr. apply in_or_app. left. exact Hr. }
      assert (Hkt : Forall (SKT (q_fired cs1) seen') (s_trig s)).
      { cbn [cs1 add_cst q_fired]. eapply Forall_impl; [|exact Htr]. intros t. apply SKT_mono. }
      assert (Hfr : forall t y, In t (s_trig s) -> In y (t_snap t) -> rid y <> id).
      { intros t y Ht Hy Heq. apply Hfresh. rewrite <- Heq. apply in_map. destruct (Htr0 t Ht) as (_ & _ & _ & D & _).
        rewrite Forall_forall in D. apply (D y Hy). }
      assert (Hind : In (id, ts) d) by (apply in_or_app; right; left; reflexivity).
      destruct (late_batches_sound id ts d seen' Hlat Hind Hd (s_trig s) cs1
                  eq_refl eq_refl Hkt (k_trig_nd _ _ HK) Hfr) as (F' & P' & Hrun & Htr1 & Hst1 & _ & Hfrel & Hp).
      rewrite Hlu in Hrun, Htr1, Hst1. cbn [fst snd] in Hrun, Htr1, Hst1.
      (* everything the checker asked for has been re-delivered *)
      assert (HP : P' = []).
      { destruct P' as [|x P'']; [reflexivity|exfalso]. destruct (Hp x (or_introl eq_refl)) as [Hx Hno].
        cbn [cs1 add_cst q_pending] in Hx.
        destruct (ssane c base ts && negb (ontime_of (q_maxts cs) ts) && (0 <? slateness c)) eqn:El; [|contradiction].
        apply andb_prop in El as [El _]. apply andb_prop in El as [Esn _]. rewrite Esn in Hx.
        apply in_map_iff in Hx as (b & Hbx & Hb). apply filter_In in Hb as [Hb Hc]. apply andb_prop in Hc as [Hw Hm].
        apply Z.ltb_lt in Hm.
        pose proof (k_open _ _ HK) as Hop. rewrite Forall_forall in Hop. destruct (Hop b Hb) as [(t & Ht & Hts')|Hr].
        - apply (Hno t Ht); [|congruence]. destruct (Htr0 t Ht) as (A & _). rewrite <- (in_twin_sinwin t ts A), Hts'. exact Hw.
        - pose proof (k_wk _ _ HK) as [_ Hc _ _ _ _]. rewrite Hc in Hr. cbn [tc ooo] in Hr.
          destruct (q_maxts cs) as [m|]; cbn [option_map ole omax] in Hr, Hm; [lia|contradiction]. }
      subst P'. exists (upd cs1 F' []). split; [exact Hrun|]. split; [|reflexivity].
      apply (add_SK s cs id ts s1 (s_trig s) F' _ _ _ _ HK Hts Hfresh eq_refl eq_refl eq_refl eq_refl Si Ss Sw Sp Sa Hd1 Hinv1 Htr1 Hst1 Hfrel).
      intros t Ht. split; [exact Ht|exact Hlt].
    Qed.

    Lemma add_sound :
      exists cs', schk_evs cs (EvAdd id ts :: map EvBatch bs) = inl cs' /\ SK s1 cs' /\ q_seen cs' = q_seen cs ++ [(id, ts)].
    Proof.
      destruct (sadd_core_cases id ts s s1 bs Ea) as (_ & [(Ht & Hb & Hlat)|(Hlt & Hlat & Hlu)]).
      - exact (add_plain_sound Ht Hb Hlat).
      - exact (add_late_sound Hlt Hlat Hlu).
    Qed.
  End Add.

  (* ---------------- every step, every history ---------------- *)
  Definition sop_okc (cs : scst) (o : op) : Prop :=
    match o with Add id ts now => now = base /\ 0 <= ts /\ ~ In id (map rid (q_seen cs)) | _ => True end.

  Definition step_sound_stmt : Prop := forall s cs o s' evs,
    SK s cs -> sop_okc cs o -> sstep c s o = (s', evs) ->
    exists cs', schk_evs cs evs = inl cs' /\ SK s' cs' /\ map rid (q_seen cs') = map rid (q_seen cs) ++ op_ids o.

  Lemma step_sound_from_add :
    (forall s cs id ts s1 bs, SK s cs -> 0 <= ts -> ~ In id (map rid (q_seen cs)) -> sadd_core c id ts base s = (s1, bs) ->
       exists cs', schk_evs cs (EvAdd id ts :: map EvBatch bs) = inl cs' /\ SK s1 cs' /\ q_seen cs' = q_seen cs ++ [(id, ts)]) ->
    step_sound_stmt.
  Proof.
    intros Hadd s cs o s' evs HK Hok Hst. destruct o as [id ts now|id| | |now].
    - destruct Hok as (-> & Hts & Hfresh). cbn [sstep] in Hst. unfold sadd in Hst.
      destruct (sadd_core c id ts base s) as [s1 bs] eqn:Ea. injection Hst as <- <-.
      destruct (Hadd s cs id ts s1 bs HK Hts Hfresh Ea) as (cs' & A & B & C).
      exists cs'. split; [exact A|]. split; [exact B|]. rewrite C, map_app. reflexivity.
    - cbn [sstep] in Hst. injection Hst as <- <-. cbn [schk_evs schk_ev]. rewrite (set_nonbatch_nb cs (k_pending _ _ HK)).
      eexists. split; [reflexivity|]. split; [apply SK_nb; exact HK|]. cbn [op_ids nb q_seen]. rewrite app_nil_r. reflexivity.
    - destruct (deliver_begin_sound s cs s' evs HK Hst) as (cs' & A & B & C).
      exists cs'. split; [exact A|]. split; [exact B|]. rewrite C. cbn [op_ids]. rewrite app_nil_r. reflexivity.
    - destruct (fire_step_sound s cs s' evs HK Hst) as (cs' & A & B & C).
      exists cs'. split; [exact A|]. split; [exact B|]. rewrite C. cbn [op_ids]. rewrite app_nil_r. reflexivity.
    - destruct (tick_sound s cs now s' evs HK Hst) as (cs' & A & B & C).
      exists cs'. split; [exact A|]. split; [exact B|]. rewrite C. cbn [op_ids]. rewrite app_nil_r. reflexivity.
  Qed.

  Lemma run_sound_from_step : step_sound_stmt -> forall h s cs,
    SK s cs -> Forall (hist_op_ok base) h -> NoDup (map rid (q_seen cs) ++ hids h) ->
    schk_trace c base cs (snd (srun c s h)) = None.
  Proof.
    intros Hstep. induction h as [|o h IH]; intros s cs HK Hok Hnd.
    - cbn [srun snd schk_trace]. rewrite (k_pending _ _ HK). reflexivity.
    - inversion Hok as [|o' h' Ho Hh]; subst. cbn [srun].
      destruct (sstep c s o) as [s1 e1] eqn:E1. destruct (srun c s1 h) as [s2 e2] eqn:E2. cbn [snd].
      assert (Hokc : sop_okc cs o).
      { destruct o as [id ts now| | | |]; cbn; auto. destruct Ho as [Hn Ht]. split; [exact Hn|]. split; [exact Ht|].
        cbn [hids flat_map op_ids app] in Hnd. intros Hin. apply NoDup_remove_2 in Hnd. apply Hnd. apply in_or_app. left. exact Hin. }
      destruct (Hstep s cs o s1 e1 HK Hokc E1) as (cs' & A & B & C).
      rewrite schk_trace_app, A. specialize (IH s1 cs' B Hh). rewrite E2 in IH. cbn [snd] in IH. apply IH.
      rewrite C. cbn [hids flat_map] in Hnd. rewrite <- app_assoc. exact Hnd.
  Qed.

  Lemma SK0 : SK sst0 scst0.
  Proof.
    constructor; cbn; try (constructor; fail); auto; try discriminate.
    - apply SInv_0.
    - constructor; cbn; try constructor; try reflexivity. intros m H; discriminate.
    - intros r a [].
  Qed.

  Lemma step_sound : step_sound_stmt.
  Proof. apply step_sound_from_add. exact add_sound. Qed.

  (* every clause of the executable checker holds of every trace of the model, for all histories of atomic steps,
     any ALLOWEDLATENESS (<= 0: Add never emits a batch; > 0: late updates over all open windows holding the row) *)
  Theorem sliding_model_passes_checker h :
    Forall (hist_op_ok base) h -> NoDup (hids h) -> chk_C08 c base (snd (srun c sst0 h)) = None.
  Proof.
    intros Hok Hnd. unfold chk_C08. apply (run_sound_from_step step_sound h sst0 scst0 SK0 Hok). exact Hnd.
  Qed.

  Corollary sliding_model_passes_checker_lat0 h :
    slateness c = 0 -> Forall (hist_op_ok base) h -> NoDup (hids h) -> chk_C08 c base (snd (srun c sst0 h)) = None.
  Proof. intros _. apply sliding_model_passes_checker. Qed.
End SSpecSound.
